import DepsDev.Proofs.C12Match
import DepsDev.Model.Resolve.Client

/-!
# C14 — npm resolution order of requirements (`sortNPMDependencies`)

`npmDepLess` is the strict part of a lawful total preorder (dev-only last; then the
lower-cased effective name; then the effective name itself, descending), so
`SortDependencies` returns a sorted permutation, unique when the effective names are distinct.
-/
namespace DepsDev.Proofs.C14Deps

open Std DepsDev DepsDev.Semver DepsDev.Resolve.Match DepsDev.Resolve.Client
open DepsDev.Proofs DepsDev.Proofs.SortUnique DepsDev.Proofs.C12Order

/-- A lawful `Int`-valued comparator gives a strict weak order. -/
theorem strictWeak_of_lawfulInt {α : Type} {f : α → α → Int} (h : LawfulInt f) :
    StrictWeakOn (fun a b => decide (f a b < 0)) (fun _ => True) where
  asymm := by
    intro a b _ _ hab
    have := h.antisymm a b
    simp only [decide_eq_true_eq, decide_eq_false_iff_not] at hab ⊢
    omega
  le_trans := by
    intro a b c _ _ _ h1 h2
    simp only [decide_eq_false_iff_not, Int.not_lt] at h1 h2 ⊢
    have e1 := h.antisymm a b
    have e2 := h.antisymm b c
    have e3 := h.antisymm a c
    have := h.trans_le (a := a) (b := b) (c := c) (by omega) (by omega)
    omega

def devRank (d : RequirementVersion) : Int := if d.typ.isDevOnly then 1 else 0

/-- Sign-valued form of `npmDepLess`. -/
def depCmp (a b : RequirementVersion) : Int :=
  thenInt (sgnInt (devRank a) (devRank b))
    (thenInt (cmpBytes (Bytes.toLowerAscii a.effName) (Bytes.toLowerAscii b.effName))
      (cmpBytes b.effName a.effName))

def depOrd : RequirementVersion → RequirementVersion → Ordering :=
  compareLex (fun a b => compare (devRank a) (devRank b))
    (compareLex (fun a b => List.compareLex compare (Bytes.toLowerAscii a.effName) (Bytes.toLowerAscii b.effName))
      (fun a b => List.compareLex compare b.effName a.effName))

instance : TransCmp depOrd := by
  haveI : TransCmp (fun a b : RequirementVersion => compare (devRank a) (devRank b)) :=
    TransCmp.comap (compare : Int → Int → Ordering) devRank
  haveI : TransCmp (fun a b : RequirementVersion =>
      List.compareLex compare (Bytes.toLowerAscii a.effName) (Bytes.toLowerAscii b.effName)) :=
    TransCmp.comap (List.compareLex (compare : UInt8 → UInt8 → Ordering)) (fun d : RequirementVersion => Bytes.toLowerAscii d.effName)
  haveI h3 : TransCmp (fun a b : RequirementVersion => List.compareLex compare a.effName b.effName) :=
    TransCmp.comap (List.compareLex (compare : UInt8 → UInt8 → Ordering)) RequirementVersion.effName
  haveI : TransCmp (fun a b : RequirementVersion => List.compareLex compare b.effName a.effName) :=
    { eq_swap := fun {a b} => h3.eq_swap (a := b) (b := a)
      isLE_trans := fun {a b c} h1 h2 => h3.isLE_trans (a := c) (b := b) (c := a) h2 h1 }
  unfold depOrd
  infer_instance

theorem depCmp_eq (a b : RequirementVersion) : depCmp a b = ordToInt (depOrd a b) := by
  unfold depCmp depOrd compareLex
  rw [sgnInt_eq, cmpBytes_eq, cmpBytes_eq, thenInt_eq, thenInt_eq]

theorem depCmp_lawful : LawfulInt depCmp := LawfulInt.of_cmp depOrd depCmp_eq

theorem npmDepLess_eq (a b : RequirementVersion) : npmDepLess a b = decide (depCmp a b < 0) := by
  unfold npmDepLess depCmp devRank
  have anti := cmpBytes_lawful.antisymm a.effName b.effName
  have hrefl := cmpBytes_lawful.refl (Bytes.toLowerAscii a.effName)
  cases ha : a.typ.isDevOnly <;> cases hb : b.typ.isDevOnly <;> simp [sgnInt, thenInt]
  all_goals
    by_cases hl : Bytes.toLowerAscii a.effName = Bytes.toLowerAscii b.effName
    · rw [hl] at hrefl
      simp [hl, hrefl]
      omega
    · have : cmpBytes (Bytes.toLowerAscii a.effName) (Bytes.toLowerAscii b.effName) ≠ 0 :=
        fun h => hl (cmpBytes_eq_zero h)
      simp [hl, this]

theorem npmDepLess_strictWeak : StrictWeakOn npmDepLess (fun _ => True) := by
  have := strictWeak_of_lawfulInt depCmp_lawful
  have e : npmDepLess = fun a b => decide (depCmp a b < 0) := by
    funext a b; exact npmDepLess_eq a b
  rw [e]; exact this

/-- Ties of the npm order: same dev-ness and same effective name. -/
theorem npmDepLess_tie {a b : RequirementVersion} (h1 : npmDepLess a b = false) (h2 : npmDepLess b a = false) :
    a.effName = b.effName := by
  rw [npmDepLess_eq] at h1 h2
  simp only [decide_eq_false_iff_not, Int.not_lt] at h1 h2
  have := depCmp_lawful.antisymm a b
  have h0 : depCmp a b = 0 := by omega
  unfold depCmp thenInt at h0
  split at h0
  · rename_i hne; simp at hne; omega
  · split at h0
    · rename_i hne; simp at hne; omega
    · exact (cmpBytes_eq_zero h0).symm

/-- `SortDependencies` returns the same requirements … -/
theorem sortDependencies_perm (deps : List RequirementVersion) : (sortDependencies deps).Perm deps := by
  unfold sortDependencies
  split
  · exact List.Perm.refl _
  · split
    · exact goSort_perm _
    · exact List.Perm.refl _

/-- … in npm resolution order when they are npm requirements … -/
theorem sortDependencies_sorted (d : RequirementVersion) (ds : List RequirementVersion) (h : d.key.pk.sys = .npm) :
    Sorted npmDepLess (sortDependencies (d :: ds)) := by
  simp only [sortDependencies, h, ↓reduceIte]
  exact goSort_sorted npmDepLess_strictWeak (fun _ _ => trivial)

/-- … untouched otherwise … -/
theorem sortDependencies_other (d : RequirementVersion) (ds : List RequirementVersion) (h : d.key.pk.sys ≠ .npm) :
    sortDependencies (d :: ds) = d :: ds := by
  simp [sortDependencies, h]

/-- … and, when the effective names are distinct, independently of the order in which they
were given (any correct sort gives this list). -/
theorem sortDependencies_perm_invariant {l₁ l₂ : List RequirementVersion} (p : l₁.Perm l₂)
    (hsys : ∀ d ∈ l₁, d.key.pk.sys = .npm) (nd : (l₁.map RequirementVersion.effName).Nodup) :
    sortDependencies l₁ = sortDependencies l₂ := by
  cases l₁ with
  | nil => rw [List.Perm.nil_eq p]
  | cons a as =>
    cases l₂ with
    | nil => exact absurd p.length_eq (by simp)
    | cons b bs =>
      have hb : b.key.pk.sys = .npm := hsys b (p.mem_iff.mpr List.mem_cons_self)
      have ha : a.key.pk.sys = .npm := hsys a List.mem_cons_self
      simp only [sortDependencies, ha, hb, ↓reduceIte]
      apply goSort_eq_of_perm npmDepLess_strictWeak (fun _ _ => trivial) _ p
      intro x y hx hy h1 h2
      exact C12Match.inj_of_nodup_map nd hx hy (npmDepLess_tie h1 h2)

end DepsDev.Proofs.C14Deps
