/-
Helper lemmas for C19, part 5: the `versiontest` round trip
`ParseString (String s)` for sets whose valued attributes are non-empty and free of
white space.
-/
import DepsDev.Proofs.C19Parse

namespace DepsDev.Proofs.C19
open DepsDev DepsDev.Gen DepsDev.Model.Resolve DepsDev.Model.Resolve.Attr DepsDev.Model.Resolve.AttrText
open DepsDev.Model.Resolve.AttrMachine DepsDev.Model.Resolve.AttrSpec

/-! ### reading the Bool predicates -/

theorem flatMap_congr' {α β} (l : List α) (f g : α → List β) (h : ∀ x ∈ l, f x = g x) :
    l.flatMap f = l.flatMap g := by
  induction l with
  | nil => rfl
  | cons a l ih =>
    simp only [List.flatMap_cons]
    rw [h a (by simp), ih (fun x hx => h x (by simp [hx]))]

theorem mapView_all (h : Heap) (s : Set) (P : Nat × Bytes → Bool) :
    (mapView h s).all P = true ↔ ∀ k, k < 64 → ∀ v, getAttr h s k = some v → P (k, v) = true := by
  simp only [mapView, List.all_eq_true, List.mem_filterMap, List.mem_range]
  constructor
  · intro hall k hk v hv
    exact hall (k, v) ⟨k, hk, by simp [hv]⟩
  · rintro hall ⟨k', v'⟩ ⟨k, hk, hm⟩
    cases hg : getAttr h s k with
    | none => simp [hg] at hm
    | some v =>
      simp only [hg, Option.map_some, Option.some.injEq, Prod.mk.injEq] at hm
      obtain ⟨e1, e2⟩ := hm; subst e1; subst e2
      exact hall k hk v hg

/-- a key present in a well-formed set is below the width of `attrBits`. -/
theorem key_lt_of_get (h : Heap) (s : Set) (hs : SetOK h s) (k : Nat) (v : Bytes)
    (hg : getAttr h s k = some v) : k < 64 := by
  have hb := hs.bitsOK k
  rw [getAttr_eq] at hg
  rw [hg] at hb
  exact testBit_imp_lt hs.bitsLt (by simpa using hb)

/-- Applying the calls a parser makes when it reads all declared keys of a known set
back builds a set with the same contents. -/
theorem calls_same (allKeys flagKeys : List Int) (h : Heap) (s : Set) (hs : SetOK h s)
    (hk : knownKeys allKeys flagKeys h s = true)
    (hmask : maskOfKeys s.mask allKeys 0 = s.mask)
    (hlt : ∀ key ∈ allKeys, key.toNat < C19AttrKeys.setAttrKeyLimit) :
    ∃ h' s', applyAttrs h Set.zero (callsOf flagKeys h s allKeys) = .ok (h', s') ∧
      SetOK h' s ∧ SetOK h' s' ∧ s.attrs h' = s.attrs h ∧ SameContents h' s h' s' := by
  have hbound : ∀ c ∈ callsOf flagKeys h s allKeys, 0 ≤ c.1 → c.1.toNat < C19AttrKeys.setAttrKeyLimit := by
    intro c hc _
    simp only [callsOf, List.mem_filterMap] at hc
    obtain ⟨key, hkey, hm⟩ := hc
    cases hg : getAttrW h s key with
    | none => simp [hg] at hm
    | some v =>
      simp only [hg, Option.map_some, Option.some.injEq] at hm
      rw [← hm]
      exact hlt key hkey
  obtain ⟨h', s', he, hok, habs⟩ := applyAttrs_abs _ h Set.zero (setOK_zero h) hbound
  have hfresh := applyAttrs_fresh _ (fresh_zero h) he
  obtain ⟨hs', hattrs⟩ := SetOK.frame hs hfresh.ext.1 (fun r hr => hfresh.ext.2 r (hs.wf r hr))
  refine ⟨h', s', he, hs', hok, hattrs, ?_⟩
  simp only [knownKeys, Bool.and_eq_true] at hk
  have habs1 := congrArg Prod.fst habs
  have habs2 := congrArg Prod.snd habs
  simp only [absOf] at habs1 habs2
  constructor
  · rw [habs1, fold_calls_fst]
    exact hmask.symm
  · intro k
    have hk2 := congrFun habs2 k
    rw [hk2, fold_calls_snd]
    have hgk : getAttr h' s k = getAttr h s k := by simp only [getAttr, hattrs]
    rw [hgk]
    cases hg : getAttr h s k with
    | none => simp [Set.zero, getAttr, Set.attrs, AMap.get?]
    | some v =>
      have hlt := key_lt_of_get h s hs k v hg
      have := (mapView_all h s _).mp hk.2 k hlt v hg
      simp only [Bool.and_eq_true, List.contains_iff_mem, Bool.or_eq_true, Bool.not_eq_eq_eq_not,
        Bool.not_true] at this
      have hmem : (k : Int) ∈ allKeys := by simpa using this.1
      simp only [hmem, true_and, Option.isSome_some, if_true]
      by_cases hf : flagKeys.contains (k : Int) = true
      · rcases this.2 with h1 | h1
        · rw [hf] at h1; cases h1
        · have : v = [] := by simpa using h1
          simp [hf, this]
      · have hf' : flagKeys.contains (k : Int) = false := by simpa using hf
        simp only [hf', Bool.false_eq_true, if_false]

/-! ### facts about the generated `version` tables the model relies on (all by `decide`) -/

def verLowerName (key : Int) : Bytes := asciiLower (keyName C19AttrKeys.versionNames key)

/-- every key of `versiontest.allKeys` is found again under its lower-cased name. -/
theorem ver_lookup : ∀ key ∈ C19AttrKeys.versionAllKeys,
    dictLookup C19AttrKeys.versionNames C19AttrKeys.versionAllKeys (verLowerName key) = some key := by decide

/-- the names are non-empty and free of white space. -/
theorem ver_names_plain : ∀ key ∈ C19AttrKeys.versionAllKeys, plainTok (verLowerName key) = true := by decide

/-- `versiontest.flagKeys` are exactly the negative keys of `allKeys`. -/
theorem ver_flags_neg : ∀ key ∈ C19AttrKeys.versionAllKeys,
    C19AttrKeys.versionFlagKeys.contains key = decide (key < 0) := by decide

/-- every declared key can be stored (`SetAttr` does not panic). -/
theorem ver_keys_lt : ∀ key ∈ C19AttrKeys.versionAllKeys, key.toNat < C19AttrKeys.setAttrKeyLimit := by decide

/-- reading the flags of a known mask back gives the mask. -/
theorem ver_mask_table : (List.range 256).all (fun m =>
    !maskKnown C19AttrKeys.versionAllKeys m || maskOfKeys m C19AttrKeys.versionAllKeys 0 == m) = true := by
  decide +kernel

theorem ver_mask_ok (m : Nat) (hk : maskKnown C19AttrKeys.versionAllKeys m = true) :
    maskOfKeys m C19AttrKeys.versionAllKeys 0 = m := by
  have hlt : m < 256 := by
    simp only [maskKnown, Bool.and_eq_true, decide_eq_true_eq] at hk
    exact hk.1
  have := (List.all_eq_true.mp ver_mask_table) m (List.mem_range.mpr hlt)
  simpa [hk] using this

/-! ### the round trip -/

/-- under `verTextOK`, `versiontest.String` writes for every key its name and, unless
it is a flag, its value. -/
theorem versiontestString_eq (h : Heap) (s : Set) (hs : SetOK h s)
    (ht : verTextOK C19AttrKeys.versionFlagKeys h s = true) :
    versiontestString h s =
      join [0x20] (C19AttrKeys.versionAllKeys.flatMap (chunk C19AttrKeys.versionFlagKeys verLowerName h s)) := by
  unfold versiontestString
  congr 1
  apply flatMap_congr'
  intro key hkey
  simp only [chunk, verLowerName]
  cases hg : getAttrW h s key with
  | none => rfl
  | some v =>
    simp only [List.singleton_append]
    congr 1
    rw [ver_flags_neg key hkey]
    by_cases hneg : key < 0
    · have : v = [] := by
        simp only [getAttrW, hneg, if_true] at hg
        split at hg
        · injection hg with hg; exact hg.symm
        · cases hg
      simp [hneg, this]
    · have hk0 : 0 ≤ key := by omega
      have hgv : getAttr h s key.toNat = some v := by
        simpa [getAttrW, hneg] using hg
      have hlt := key_lt_of_get h s hs _ _ hgv
      have := (mapView_all h s _).mp ht key.toNat hlt v hgv
      have hkk : ((key.toNat : Nat) : Int) = key := Int.toNat_of_nonneg hk0
      simp only [hkk, ver_flags_neg key hkey, hneg, decide_false, Bool.false_or, Bool.and_eq_true,
        Bool.not_eq_eq_eq_not, Bool.not_true] at this
      simp [hneg, this.1]

theorem ver_tokens_plain (h : Heap) (s : Set) (hs : SetOK h s)
    (ht : verTextOK C19AttrKeys.versionFlagKeys h s = true) :
    ∀ t ∈ C19AttrKeys.versionAllKeys.flatMap (chunk C19AttrKeys.versionFlagKeys verLowerName h s),
      plainTok t = true := by
  intro t hmem
  simp only [List.mem_flatMap] at hmem
  obtain ⟨key, hkey, hmem⟩ := hmem
  simp only [chunk] at hmem
  cases hg : getAttrW h s key with
  | none => simp [hg] at hmem
  | some v =>
    simp only [hg, List.mem_cons] at hmem
    rcases hmem with e | hmem
    · rw [e]; exact ver_names_plain key hkey
    · rw [ver_flags_neg key hkey] at hmem
      by_cases hneg : key < 0
      · simp [hneg] at hmem
      · simp only [hneg, decide_false, Bool.false_eq_true, if_false, List.mem_singleton] at hmem
        subst hmem
        have hk0 : 0 ≤ key := by omega
        have hgv : getAttr h s key.toNat = some t := by
          simpa [getAttrW, hneg] using hg
        have hlt := key_lt_of_get h s hs _ _ hgv
        have := (mapView_all h s _).mp ht key.toNat hlt t hgv
        have hkk : ((key.toNat : Nat) : Int) = key := Int.toNat_of_nonneg hk0
        simp only [hkk, ver_flags_neg key hkey, hneg, decide_false, Bool.false_or] at this
        exact this

/-- `versiontest.ParseString(versiontest.String(s))` equals `s` when every valued
attribute of `s` is non-empty and free of white space (and its keys are declared). -/
theorem ver_roundtrip (h : Heap) (s : Set) (hs : SetOK h s)
    (hk : knownKeys C19AttrKeys.versionAllKeys C19AttrKeys.versionFlagKeys h s = true)
    (ht : verTextOK C19AttrKeys.versionFlagKeys h s = true) :
    ∃ h' s', versionParseString h (versiontestString h s) = .ok (h', s') ∧
      SetOK h' s ∧ SetOK h' s' ∧ s.attrs h' = s.attrs h ∧ Attr.compare h' s s' = .eq := by
  have hf : fields (versiontestString h s) =
      C19AttrKeys.versionAllKeys.flatMap (chunk C19AttrKeys.versionFlagKeys verLowerName h s) := by
    rw [versiontestString_eq h s hs ht]
    exact fields_join _ (ver_tokens_plain h s hs ht)
  have hp := parseItems_chunks C19AttrKeys.versionNames C19AttrKeys.versionAllKeys C19AttrKeys.versionFlagKeys
    verLowerName h s C19AttrKeys.versionAllKeys ver_lookup
  have hmask : maskOfKeys s.mask C19AttrKeys.versionAllKeys 0 = s.mask := by
    simp only [knownKeys, Bool.and_eq_true] at hk
    exact ver_mask_ok s.mask hk.1
  obtain ⟨h', s', he, hs', hok, hattrs, hsame⟩ :=
    calls_same C19AttrKeys.versionAllKeys C19AttrKeys.versionFlagKeys h s hs hk hmask ver_keys_lt
  refine ⟨h', s', ?_, hs', hok, hattrs, (compare_eq_iff_same h' s s' hs' hok).mpr hsame⟩
  unfold versionParseString
  rw [hf, hp]
  exact he

end DepsDev.Proofs.C19
