import DepsDev.Proofs.C03L2Ref

/-!
# C03 layer L3, reference side: one alternative on a prerelease candidate

For a prerelease candidate that is not a prerelease of `0.0.0`, node's normalisation of a comparator
set (`>=0.0.0 ⇒ *`, null set, `*` removal) does not change the answer: `satisfies` of a
single-alternative range is "every desugared comparator accepts the candidate, and some desugared
comparator has a prerelease and the candidate's `[major, minor, patch]`" (`satisfies_alt_pre`).
-/
namespace DepsDev.Proofs.C03

open DepsDev DepsDev.Semver DepsDev.Ref

/-- node's admission rule for one desugared comparator. -/
def admitsP (v : SemVerAst) : Prim → Bool
  | .any => false
  | .cmp _ b => !b.pre.isEmpty && b.major == v.major && b.minor == v.minor && b.patch == v.patch

theorem testSet_eq (s : List Prim) (v : SemVerAst) :
    testSet s v = (s.all (·.test v) && (v.pre.isEmpty || s.any (admitsP v))) := by
  unfold testSet
  congr 2

theorem pre000_false {v : SemVerAst} (h0 : NpmRange.pre000 v = false) (hv : v.pre ≠ []) :
    ¬ (v.major = 0 ∧ v.minor = 0 ∧ v.patch = 0) := by
  intro ⟨h1, h2, h3⟩
  have : v.pre.isEmpty = false := by
    cases hp : v.pre with
    | nil => exact absurd hp hv
    | cons _ _ => rfl
  simp [NpmRange.pre000, h1, h2, h3, this] at h0

/-- Above `0.0.0` (numbers not all zero) the comparison with `0.0.0[-pre]` is `gt`. -/
theorem cmp_zero_gt (v : SemVerAst) (h : ¬ (v.major = 0 ∧ v.minor = 0 ∧ v.patch = 0)) (pre : List Ident) :
    v.cmp ⟨0, 0, 0, pre⟩ = .gt := by
  obtain ⟨M, m, p, vp⟩ := v
  simp only at h
  simp only [SemVerAst.cmp]
  rcases Nat.eq_zero_or_pos M with hM | hM
  · subst hM
    rcases Nat.eq_zero_or_pos m with hm | hm
    · subst hm
      have hp : 0 < p := by omega
      have : compare p 0 = .gt := Nat.compare_eq_gt.mpr hp
      simp [this]
    · have : compare m 0 = .gt := Nat.compare_eq_gt.mpr hm
      simp [this]
  · have : compare M 0 = .gt := Nat.compare_eq_gt.mpr hM
    simp [this]

theorem gte0_test_pre (c : Prim) (v : SemVerAst) (h : ¬ (v.major = 0 ∧ v.minor = 0 ∧ v.patch = 0)) :
    (gte0 c).test v = c.test v ∧ admitsP v (gte0 c) = admitsP v c := by
  unfold gte0
  split
  · rename_i hc
    have hc' : c = ge 0 0 0 := by simpa using hc
    subst hc'
    simp [Prim.test, ge, cmp_zero_gt v h, admitsP]
  · exact ⟨rfl, rfl⟩

theorem null_test_pre (c : Prim) (v : SemVerAst) (h : ¬ (v.major = 0 ∧ v.minor = 0 ∧ v.patch = 0))
    (hc : c.isNull = true) : c.test v = false := by
  have hc' : c = nullSet := by simpa [Prim.isNull] using hc
  subst hc'
  simp [Prim.test, nullSet, lt0, cmp_zero_gt v h]

theorem filter_any_any (cs : List Prim) (v : SemVerAst) :
    (cs.filter (fun c => !c.isAny)).any (admitsP v) = cs.any (admitsP v) := by
  induction cs with
  | nil => rfl
  | cons a t ih =>
    by_cases ha : a.isAny = true
    · have : a = .any := by simpa [Prim.isAny] using ha
      subst this
      simp only [List.filter, ha, Bool.not_true, List.any_cons, admitsP, Bool.false_or]
      exact ih
    · have ha' : a.isAny = false := by simpa using ha
      simp only [List.filter, ha', Bool.not_false, List.any_cons]
      rw [ih]

/-- The normalisation of `comparatorSet` does not change the answer on a prerelease candidate above `0.0.0`. -/
theorem norm_pre (l : List Prim) (v : SemVerAst) (hv : v.pre ≠ []) (h : ¬ (v.major = 0 ∧ v.minor = 0 ∧ v.patch = 0)) :
    testSet (match (l.map gte0).find? Prim.isNull with
      | some c => [c]
      | none => if ((l.map gte0).filter (fun c => !c.isAny)).isEmpty then [.any]
                else (l.map gte0).filter (fun c => !c.isAny)) v =
      (l.all (·.test v) && l.any (admitsP v)) := by
  have hvp : v.pre.isEmpty = false := by
    cases hp : v.pre with
    | nil => exact absurd hp hv
    | cons _ _ => rfl
  have hmap1 : (l.map gte0).all (·.test v) = l.all (·.test v) := by
    simp [List.all_map, Function.comp_def, (gte0_test_pre _ v h).1]
  have hmap2 : (l.map gte0).any (admitsP v) = l.any (admitsP v) := by
    simp [List.any_map, Function.comp_def, (gte0_test_pre _ v h).2]
  rw [← hmap1, ← hmap2]
  generalize l.map gte0 = cs
  rw [testSet_eq, hvp, Bool.false_or]
  split
  · rename_i c hc
    have hmem := List.mem_of_find?_eq_some hc
    have hnull := List.find?_some hc
    have hf := null_test_pre c v h hnull
    have : cs.all (·.test v) = false := by
      rw [List.all_eq_false]
      exact ⟨c, hmem, by simp [hf]⟩
    simp [hf, this]
  · split
    · rename_i he
      have he' : cs.filter (fun c => !c.isAny) = [] := by simpa using he
      have h1 := filter_any_all cs v
      have h2 := filter_any_any cs v
      rw [he'] at h1 h2
      rw [← h1, ← h2]
      simp [Prim.test, admitsP]
    · rw [filter_any_all, filter_any_any]

/-- **npm, one alternative, prerelease candidate above `0.0.0`**: all comparators' tests, and
node's admission rule over all of them. -/
theorem satisfies_alt_pre (cs : List Comparator) (v : SemVerAst) (hv : v.pre ≠ [])
    (h0 : NpmRange.pre000 v = false) :
    NpmRange.satisfies [.comps cs] v =
      (cs.all (fun c => (desugarComparator c).all (·.test v)) &&
        cs.any (fun c => (desugarComparator c).any (admitsP v))) := by
  have h := norm_pre (cs.flatMap desugarComparator) v hv (pre000_false h0 hv)
  simp only [NpmRange.satisfies, rangeSets, List.map_cons, List.map_nil, List.length_cons, List.length_nil,
    Nat.lt_irrefl, ↓reduceIte, List.any_cons, List.any_nil, Bool.or_false, Nat.zero_add]
  have e : testSet (comparatorSet (.comps cs)) v = (((cs.flatMap desugarComparator).all (·.test v)) &&
      (cs.flatMap desugarComparator).any (admitsP v)) := h
  rw [e, List.all_flatMap, List.any_flatMap]

end DepsDev.Proofs.C03
