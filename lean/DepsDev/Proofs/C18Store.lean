/-
Helper lemmas for C18/B3, B5, B6: the `bundledVersions` store under arbitrary
sequences of atomic client calls, and the agreement with the in-memory client.
-/
import DepsDev.Proofs.C18Bundles
import DepsDev.Model.Resolve.ApiClientLocal

namespace DepsDev.Proofs.C18
open DepsDev
open DepsDev.Model.Resolve.ApiClient

abbrev MatchReq := VersionKey → List Version → Res (List Version)

/-- `Written S k e`: a successful `Requirements` call on some plain key stores `e`
under `k`. This relation depends on the service only: it is `F(S)`. -/
def Written (S : Service) (k : Bytes) (e : BundledVersion) : Prop :=
  ∃ vk reqs all acc, isNPMBundle vk.name = false ∧
    S.getRequirements vk.name vk.version = some (some reqs) ∧
    buildAllDeps vk reqs = some all ∧ k ≠ vk.name ∧ all.lookup k = some acc ∧ e = toEntry acc

/-- `F(S)` is a function: no two responses of the service define different bundles
under one mangled name. (True when package names and versions contain no '>'.) -/
def Unambiguous (S : Service) : Prop := ∀ k e₁ e₂, Written S k e₁ → Written S k e₂ → e₁ = e₂

/-- every stored entry is one the service defines. -/
def StoreInv (S : Service) (st : Store) : Prop := ∀ k e, st k = some e → Written S k e

theorem storeInv_empty (S : Service) : StoreInv S Store.empty := fun _ _ h => by cases h

/-- what a `Requirements` call does to the store. -/
theorem requirements_cases (S : Service) (st : Store) (vk : VersionKey) :
    ((requirements S st vk).2 = st ∧ ∀ ds, (requirements S st vk).1 = .ok ds → isNPMBundle vk.name = true) ∨
    ∃ reqs all, isNPMBundle vk.name = false ∧ S.getRequirements vk.name vk.version = some (some reqs) ∧
      buildAllDeps vk reqs = some all ∧ (requirements S st vk).2 = applyWrites vk.name st all ∧
      (requirements S st vk).1 = .ok (rootDeps vk.name all) := by
  by_cases hb : isNPMBundle vk.name = true
  · left
    unfold requirements
    simp only [hb, if_true]
    cases st vk.name <;> simp
  · have hb' : isNPMBundle vk.name = false := by simpa using hb
    cases hr : S.getRequirements vk.name vk.version with
    | none => left; simp [requirements, hb', hr]
    | some o =>
      cases o with
      | none => left; simp [requirements, hb', hr]
      | some reqs =>
        cases ha : buildAllDeps vk reqs with
        | none => left; simp [requirements, hb', hr, ha]
        | some all =>
          right
          exact ⟨reqs, all, hb', rfl, ha, by simp [requirements, hb', hr, ha], by simp [requirements, hb', hr, ha]⟩

theorem exec_store_cases (m : MatchReq) (S : Service) (st : Store) (c : Call) :
    (exec m S st c).2 = st ∨
    ∃ vk reqs all, c = .requirements vk ∧ isNPMBundle vk.name = false ∧
      S.getRequirements vk.name vk.version = some (some reqs) ∧
      buildAllDeps vk reqs = some all ∧ (exec m S st c).2 = applyWrites vk.name st all := by
  cases c with
  | version vk => left; rfl
  | versions n => left; rfl
  | matching vk => left; rfl
  | requirements vk =>
    rcases requirements_cases S st vk with ⟨h, _⟩ | ⟨reqs, all, h1, h2, h3, h4, _⟩
    · left; exact h
    · right; exact ⟨vk, reqs, all, rfl, h1, h2, h3, h4⟩

/-- the invariant is preserved by every atomic step. -/
theorem exec_inv (m : MatchReq) {S : Service} {st : Store} (c : Call) (hI : StoreInv S st) :
    StoreInv S (exec m S st c).2 := by
  rcases exec_store_cases m S st c with h | ⟨vk, reqs, all, _, h1, h2, h3, h4⟩
  · rw [h]; exact hI
  · rw [h4]
    intro k e hk
    rw [applyWrites_apply] at hk
    by_cases hkn : k = vk.name
    · simp only [hkn, if_true] at hk
      exact hkn ▸ hI _ e hk
    · simp only [hkn, if_false] at hk
      cases hl : all.lookup k with
      | none => rw [hl] at hk; exact hI k e hk
      | some acc =>
        rw [hl] at hk
        simp only [Option.some.injEq] at hk
        exact ⟨vk, reqs, all, acc, h1, h2, h3, hkn, hl, hk.symm⟩

/-- monotone store: a present key keeps its value through every atomic step. -/
theorem exec_mono (m : MatchReq) {S : Service} {st : Store} (c : Call) (hU : Unambiguous S)
    (hI : StoreInv S st) {k : Bytes} {e : BundledVersion} (hk : st k = some e) :
    (exec m S st c).2 k = some e := by
  rcases exec_store_cases m S st c with h | ⟨vk, reqs, all, _, h1, h2, h3, h4⟩
  · rw [h]; exact hk
  · rw [h4, applyWrites_apply]
    by_cases hkn : k = vk.name
    · simp only [hkn, if_true]; exact hkn ▸ hk
    · simp only [hkn, if_false]
      cases hl : all.lookup k with
      | none => exact hk
      | some acc =>
        have w : Written S k (toEntry acc) := ⟨vk, reqs, all, acc, h1, h2, h3, hkn, hl, rfl⟩
        simp only [hU k _ _ w (hI k e hk)]

/-- a schedule: any interleaving of the threads' atomic calls, tagged by thread. -/
abbrev Schedule := List (Nat × Call)

def runSched (m : MatchReq) (S : Service) : Store → Schedule → Store
  | st, [] => st
  | st, (_, c) :: r => runSched m S (exec m S st c).2 r

theorem runSched_inv (m : MatchReq) {S : Service} : ∀ (sched : Schedule) {st : Store}, StoreInv S st →
    StoreInv S (runSched m S st sched)
  | [], _, h => h
  | (_, c) :: r, _, h => runSched_inv m r (exec_inv m c h)

theorem runSched_mono (m : MatchReq) {S : Service} (hU : Unambiguous S) : ∀ (sched : Schedule) {st : Store},
    StoreInv S st → ∀ {k e}, st k = some e → runSched m S st sched k = some e
  | [], _, _, _, _, h => h
  | (_, c) :: r, _, hI, _, _, h => runSched_mono m hU r (exec_inv m c hI) (exec_mono m c hU hI h)

theorem runSched_append (m : MatchReq) (S : Service) : ∀ (a b : Schedule) (st : Store),
    runSched m S st (a ++ b) = runSched m S (runSched m S st a) b
  | [], _, _ => rfl
  | (_, c) :: r, b, st => by simp [runSched, runSched_append m S r b]

/-! ### B3: the four calls read one entry -/

theorem version_bundle (S : Service) (st : Store) (vk : VersionKey) (h : isNPMBundle vk.name = true) :
    version S st vk = match st vk.name with | some e => .ok e.version | none => .err := by
  unfold version; simp only [h, if_true]; cases st vk.name <;> rfl

theorem versions_bundle (S : Service) (st : Store) (k : Bytes) (h : isNPMBundle k = true) :
    versions S st k = match st k with | some e => .ok [e.version] | none => .err := by
  unfold versions; simp only [h, if_true]; cases st k <;> rfl

theorem requirements_bundle (S : Service) (st : Store) (vk : VersionKey) (h : isNPMBundle vk.name = true) :
    requirements S st vk = (match st vk.name with | some e => .ok e.requirements | none => .err, st) := by
  unfold requirements; simp only [h, if_true]; cases st vk.name <;> rfl

theorem matchingVersions_bundle (m : MatchReq) (S : Service) (st : Store) (vk : VersionKey)
    (h : isNPMBundle vk.name = true) :
    matchingVersions m S st vk = match st vk.name with
      | some e => if e.version.key.version ≠ vk.version then .ok [] else .ok [e.version]
      | none => .err := by
  unfold matchingVersions; simp only [h, if_true]; cases st vk.name <;> rfl

/-! ### B5: agreement with the in-memory client, call by call -/

/-- how two observations are compared: exactly, except that the result of `Version`
is compared by key (the API client adds a `Registries` attribute in `Version` that
neither its own `Versions` nor the in-memory client carries). -/
def keyOf : Res Version → Res VersionKey
  | .ok v => .ok v.key
  | .err => .err
  | .panic => .panic

def ObsAgree : Obs → Obs → Prop
  | .version a, .version b => keyOf a = keyOf b
  | .versions a, .versions b => a = b
  | .requirements a, .requirements b => a = b
  | _, _ => False

/-- pointwise agreement of two observation lists of the same length. -/
def AgreeAll : List Obs → List Obs → Prop
  | [], [] => True
  | a :: as, b :: bs => ObsAgree a b ∧ AgreeAll as bs
  | _, _ => False

/-- "a bundle is only asked after its bundler's Requirements". -/
def BundleAsked (F st : Store) (k : Bytes) : Prop := F k ≠ none → st k ≠ none

/-- the premise of B5 for one call at store `st`. For a bundle key: the ordering
premise, the Concrete key the client was given for `Version`/`Requirements`, and a
requirement that `MatchRequirement` reads as "exactly this version string" for
`MatchingVersions`. For a plain key: Concrete keys, no `Npm`-less response, no asking
of a package that is mentioned but not served (hypothesis `Closed`, finding
F-C18-unknown-package), versions listed in sorted order for `Versions`. -/
def AskedOK (m : MatchReq) (sortVers : List Version → List Version) (mentioned : Bytes → Bool)
    (S : Service) (F st : Store) : Call → Prop
  | .version vk =>
    if isNPMBundle vk.name then BundleAsked F st vk.name ∧ ∀ e, st vk.name = some e → e.version.key = vk
    else vk.vtype = .concrete
  | .versions n =>
    if isNPMBundle n then BundleAsked F st n
    else (S.getPackage n = none → mentioned n = false) ∧ ∀ vs, plainVersions S n = some vs → sortVers vs = vs
  | .requirements vk =>
    if isNPMBundle vk.name then BundleAsked F st vk.name ∧ ∀ e, st vk.name = some e → e.version.key = vk
    else vk.vtype = .concrete ∧ S.getRequirements vk.name vk.version ≠ some none
  | .matching vk =>
    if isNPMBundle vk.name then BundleAsked F st vk.name ∧
      ∀ e, st vk.name = some e →
        m vk [e.version] = if e.version.key.version ≠ vk.version then .ok [] else .ok [e.version]
    else S.getPackage vk.name = none → mentioned vk.name = false

/-- `GetVersion` knows exactly the versions `GetPackage` lists. -/
def Coherent (S : Service) : Prop :=
  ∀ n v, isNPMBundle n = false →
    ((S.getVersion n v).isSome ↔ ∃ vs pv, S.getPackage n = some vs ∧ pv ∈ vs ∧ pv.version = v)

theorem find_key_some {l : List Version} {vk : VersionKey} (h : ∃ v ∈ l, v.key = vk) :
    ∃ v, l.find? (fun v => v.key = vk) = some v ∧ v.key = vk := by
  cases hf : l.find? (fun v => v.key = vk) with
  | some v => exact ⟨v, rfl, by simpa using List.find?_some hf⟩
  | none =>
    obtain ⟨v, hv, hk⟩ := h
    have := List.find?_eq_none.mp hf v hv
    simp [hk] at this

theorem find_key_none {l : List Version} {vk : VersionKey} (h : ¬ ∃ v ∈ l, v.key = vk) :
    l.find? (fun v => v.key = vk) = none := by
  apply List.find?_eq_none.mpr
  intro v hv
  simp only [decide_eq_true_eq]
  exact fun hk => h ⟨v, hv, hk⟩

theorem b5_call {m : MatchReq} {sortVers : List Version → List Version} {mentioned : Bytes → Bool}
    {S : Service} {F st : Store}
    (hF : ∀ k e, F k = some e ↔ Written S k e)
    (hperm : ∀ l, (sortVers l).Perm l)
    (hsort : ∀ vk l, m vk (sortVers l) = m vk l)
    (hcoh : Coherent S)
    (hI : StoreInv S st) (c : Call) (hc : AskedOK m sortVers mentioned S F st c) :
    ObsAgree (exec m S st c).1 (Local.exec m (load sortVers mentioned S F) c) := by
  -- facts about a bundle key
  have bundleNone : ∀ k, BundleAsked F st k → st k = none → F k = none := by
    intro k ha hs
    cases hfk : F k with
    | none => rfl
    | some e => exact absurd hs (ha (by simp [hfk]))
  have bundleSome : ∀ k e, st k = some e → F k = some e := fun k e hs => (hF k e).mpr (hI k e hs)
  cases c with
  | version vk =>
    simp only [AskedOK] at hc
    by_cases hb : isNPMBundle vk.name = true
    · simp only [hb, if_true] at hc
      simp only [exec, Local.exec, ObsAgree, version_bundle S st vk hb, Local.version, load, hb, if_true]
      cases hs : st vk.name with
      | none => simp [bundleNone _ hc.1 hs, keyOf, Res.ofOption]
      | some e =>
        have hk := hc.2 e hs
        simp [bundleSome _ _ hs, keyOf, hk, Res.ofOption]
    · have hb' : isNPMBundle vk.name = false := by simpa using hb
      simp only [hb', Bool.false_eq_true, if_false] at hc
      simp only [exec, Local.exec, ObsAgree, Local.version, load, hb', Bool.false_eq_true, if_false]
      -- the list the in-memory client searches
      have key : ∀ (l : List Version), (∀ v, v ∈ l ↔ ∃ vs pv, S.getPackage vk.name = some vs ∧ pv ∈ vs ∧
            v = makeVersion ⟨vk.name, .concrete, pv.version⟩ pv.isDefault []) →
          keyOf (version S st vk) = keyOf (Res.ofOption (l.find? fun v => v.key = vk)) := by
        intro l hl
        unfold version
        simp only [hb', Bool.false_eq_true, if_false]
        cases hg : S.getVersion vk.name vk.version with
        | some r =>
          obtain ⟨vs, pv, h1, h2, h3⟩ := (hcoh vk.name vk.version hb').mp (by simp [hg])
          have : ∃ v ∈ l, v.key = vk := by
            refine ⟨makeVersion ⟨vk.name, .concrete, pv.version⟩ pv.isDefault [], (hl _).mpr ⟨vs, pv, h1, h2, rfl⟩, ?_⟩
            cases vk with
            | mk n t v => simp only at hc h3; simp [makeVersion, hc, h3]
          obtain ⟨v, hv, hk⟩ := find_key_some this
          simp [hv, keyOf, makeVersion, hk, Res.ofOption]
        | none =>
          have : ¬ ∃ v ∈ l, v.key = vk := by
            rintro ⟨v, hv, hk⟩
            obtain ⟨vs, pv, h1, h2, rfl⟩ := (hl v).mp hv
            have : (S.getVersion vk.name vk.version).isSome :=
              (hcoh vk.name vk.version hb').mpr ⟨vs, pv, h1, h2, by rw [← hk]; simp [makeVersion]⟩
            simp [hg] at this
          simp [find_key_none this, keyOf, Res.ofOption]
      cases hp : S.getPackage vk.name with
      | some vs =>
        simp only [plainVersions, hp, Option.map_some]
        apply key
        intro v
        rw [(hperm _).mem_iff]
        simp only [List.mem_map]
        constructor
        · rintro ⟨pv, h1, rfl⟩; exact ⟨vs, pv, hp, h1, rfl⟩
        · rintro ⟨vs', pv, h0, h1, rfl⟩
          simp only [hp, Option.some.injEq] at h0
          subst h0
          exact ⟨pv, h1, rfl⟩
      | none =>
        simp only [plainVersions, hp, Option.map_none]
        by_cases hm : mentioned vk.name = true
        · simp only [hm, if_true]
          apply key
          intro v
          simp [hp]
        · have hm' : mentioned vk.name = false := by simpa using hm
          simp only [hm', Bool.false_eq_true, if_false]
          apply key
          intro v
          simp [hp]
  | versions n =>
    simp only [AskedOK] at hc
    by_cases hb : isNPMBundle n = true
    · simp only [hb, if_true] at hc
      simp only [exec, Local.exec, ObsAgree, versions_bundle S st n hb, Local.versions, load, hb, if_true]
      cases hs : st n with
      | none => simp [bundleNone _ hc hs]
      | some e => simp [bundleSome _ _ hs]
    · have hb' : isNPMBundle n = false := by simpa using hb
      simp only [hb', Bool.false_eq_true, if_false] at hc
      simp only [exec, Local.exec, ObsAgree, versions, Local.versions, load, hb', Bool.false_eq_true, if_false]
      cases hp : S.getPackage n with
      | some vs =>
        have := hc.2 (vs.map fun v => makeVersion ⟨n, .concrete, v.version⟩ v.isDefault [])
          (by simp [plainVersions, hp])
        simp [plainVersions, hp, this]
      | none => simp [plainVersions, hp, hc.1 hp]
  | requirements vk =>
    simp only [AskedOK] at hc
    by_cases hb : isNPMBundle vk.name = true
    · simp only [hb, if_true] at hc
      simp only [exec, Local.exec, ObsAgree, requirements_bundle S st vk hb, Local.requirements, load, hb, if_true]
      cases hs : st vk.name with
      | none => simp [bundleNone _ hc.1 hs]
      | some e => simp [bundleSome _ _ hs, hc.2 e hs]
    · have hb' : isNPMBundle vk.name = false := by simpa using hb
      simp only [hb', Bool.false_eq_true, if_false] at hc
      simp only [exec, Local.exec, ObsAgree, requirements, Local.requirements, load, hb', Bool.false_eq_true,
        if_false, hc.1, if_true, plainRequirements]
      cases hr : S.getRequirements vk.name vk.version with
      | none => simp
      | some o =>
        cases o with
        | none => exact absurd hr hc.2
        | some reqs =>
          cases ha : buildAllDeps vk reqs with
          | none => simp [ha]
          | some all => simp [ha]
  | matching vk =>
    simp only [AskedOK] at hc
    by_cases hb : isNPMBundle vk.name = true
    · simp only [hb, if_true] at hc
      simp only [exec, Local.exec, ObsAgree, matchingVersions_bundle m S st vk hb, Local.matchingVersions, load,
        hb, if_true]
      cases hs : st vk.name with
      | none => simp [bundleNone _ hc.1 hs]
      | some e => simp [bundleSome _ _ hs, hc.2 e hs]
    · have hb' : isNPMBundle vk.name = false := by simpa using hb
      simp only [hb', Bool.false_eq_true, if_false] at hc
      simp only [exec, Local.exec, ObsAgree, matchingVersions, versions, Local.matchingVersions, load, hb',
        Bool.false_eq_true, if_false]
      cases hp : S.getPackage vk.name with
      | some vs => simp [plainVersions, hp, hsort]
      | none => simp [plainVersions, hp, hc hp]

/-- `F(S)` exists as a function when the service is unambiguous. -/
theorem exists_F {S : Service} (hU : Unambiguous S) : ∃ F : Store, ∀ k e, F k = some e ↔ Written S k e := by
  classical
  refine ⟨fun k => if h : ∃ e, Written S k e then some (Classical.choose h) else none, ?_⟩
  intro k e
  by_cases h : ∃ e, Written S k e
  · simp only [h, dite_true, Option.some.injEq]
    constructor
    · rintro rfl; exact Classical.choose_spec h
    · intro w; exact hU k _ _ (Classical.choose_spec h) w
  · simp only [h, dite_false]
    constructor
    · intro x; cases x
    · intro w; exact absurd ⟨e, w⟩ h

end DepsDev.Proofs.C18
