import DepsDev.Proofs.C09bSys

/-!
# C09b — release-mode matching (`MatchVersion`, `includePrerelease = false`) of a prerelease candidate

In release mode a vector span admits a prerelease candidate `v` lying inside it only if one of
its bounds is a prerelease with the same number list as `v` (`span.contains`); a unit span
admits exactly the versions equal to its point. `relHas` is this rule on well-formed spans
(`contains_rel`), `anyRel` its lifting to span lists (`matchVersion_rel`, for the systems without
a special case in `matchVersion`: Default, NPM, Cargo, Go, Composer).

`Touches s v x`: the bound `x` can let `v` in — it is a prerelease sharing its numbers with `v`, or
it equals `v` in the order. A span none of whose bounds touches `v` does not accept `v`
(`relHas_false_of_noTouch`).
-/
namespace DepsDev.Proofs.C09b

open Std DepsDev DepsDev.Semver DepsDev.Proofs DepsDev.Proofs.C09

variable {s : System}

/-- Default, NPM, Cargo, Go, Composer: no special case in `Set.matchVersion`. -/
def SysR (s : System) : Prop := Sys4 s ∨ s = .composer

theorem SysR.sys6 (h : SysR s) : Sys6 s := h.elim Or.inl (fun h => Or.inr (Or.inr h))

theorem SysR.ne (h : SysR s) :
    s ≠ .maven ∧ (s == System.pypi) = false ∧ (s == System.nuget) = false ∧ (s == System.rubygems) = false ∧
      (s != System.maven) = true := by
  rcases h with (h | h | h | h) | h <;> subst h <;> decide

/-- The prerelease-bound test of `span.contains` for one bound. -/
def admits (v : Version) : Option Version → Bool
  | some x => x.isPrerelease && equalValues v.num x.num
  | none => false

/-- What a span matches in release mode (`span.contains(v, false)`). -/
def relHas (s : System) (sp : Span) (v : Version) : Bool :=
  has s sp v && (!v.isPrerelease || sp.rank == .unit || admits v sp.min || admits v sp.max)

/-- Some span of the list matches `v` in release mode. -/
def anyRel (s : System) (l : List Span) (v : Version) : Bool := l.any (fun sp => relHas s sp v)

@[simp] theorem anyRel_nil (v : Version) : anyRel s [] v = false := rfl
@[simp] theorem anyRel_cons (x : Span) (l : List Span) (v : Version) :
    anyRel s (x :: l) v = (relHas s x v || anyRel s l v) := by simp [anyRel]
@[simp] theorem anyRel_append (l l' : List Span) (v : Version) :
    anyRel s (l ++ l') v = (anyRel s l v || anyRel s l' v) := by simp [anyRel]

theorem anyRel_iff (l : List Span) (v : Version) :
    anyRel s l v = true ↔ ∃ sp ∈ l, relHas s sp v = true := by simp [anyRel]

theorem relHas_empty {sp : Span} (h : sp.rank = .empty) (v : Version) : relHas s sp v = false := by
  simp [relHas, has_empty h]

theorem relHas_release (sp : Span) {v : Version} (h : v.isPrerelease = false) : relHas s sp v = has s sp v := by
  simp [relHas, h]

/-- **`span.contains` in release mode**, on a well-formed span and a candidate of the system. -/
theorem contains_rel (hs : (s != System.maven) = true) {sp : Span} {v : Version} (hsp : SpanOK s sp) (hv : VG s v) :
    sp.contains v false = .ok (relHas s sp v) := by
  by_cases hpre : v.isPrerelease = false
  · rw [contains_release sp hpre, contains_incl hsp hv, relHas_release sp hpre]
  have hpre' : v.isPrerelease = true := by simpa using hpre
  have hincl := contains_incl hsp hv
  cases hr : sp.rank with
  | empty => rw [C09.contains_empty hr, relHas_empty hr]
  | unit =>
    have : sp.contains v false = sp.contains v true := by
      unfold Span.contains; simp only [hr]
    rw [this, hincl]
    simp [relHas, hr]
  | vector =>
    obtain ⟨a, b, h1, h2, ha, hb, -⟩ := hsp.bounds (by rw [hr]; decide)
    unfold Span.contains at hincl ⊢
    simp only [hr, h1, h2, vcompare_eq hv ha.1, vcompare_eq hb.1 hv, ok_bind, vLessEq_eq ha.1 hv,
      Bool.false_eq_true, ↓reduceIte, hv.1, hs, hpre', Bool.and_self] at hincl ⊢
    by_cases g1 : ((ordToInt (genericOrd s v a) == 0 && sp.minOpen) || decide (ordToInt (genericOrd s v a) < 0)) = true
    · simp only [g1, ↓reduceIte] at hincl ⊢
      injection hincl with hincl
      simp [relHas, ← hincl]
    · simp only [g1, Bool.false_eq_true, ↓reduceIte] at hincl ⊢
      by_cases g2 : ((ordToInt (genericOrd s b v) == 0 && sp.maxOpen) || decide (ordToInt (genericOrd s b v) < 0)) = true
      · simp only [g2, ↓reduceIte] at hincl ⊢
        injection hincl with hincl
        simp [relHas, ← hincl]
      · simp only [g2, Bool.false_eq_true, ↓reduceIte] at hincl ⊢
        injection hincl with hincl
        have hle : pt s a ≤ pt s v := by
          rw [le_iff_not_lt, Pt.lt_def]
          intro hlt
          apply g1
          simp [hlt, ordToInt]
        simp only [hle, decide_true, Bool.and_true]
        simp only [relHas, ← hincl, hpre', hr, admits, h1, h2, Bool.true_and, Bool.not_true, Bool.false_or]
        have : (Rank.vector == Rank.unit) = false := by decide
        simp only [this, Bool.false_or]
        cases a.isPrerelease && equalValues v.num a.num <;> cases b.isPrerelease && equalValues v.num b.num <;> rfl

/-- The span loop of `matchVersion` in release mode (systems without a special case). -/
theorem matchGo_rel (hs : SysR s) {v : Version} (hv : VG s v) :
    ∀ l : List Span, (∀ x ∈ l, SpanOK s x) → VSet.matchVersion.go v false l = .ok (anyRel s l v) := by
  obtain ⟨-, n1, n2, -, n4⟩ := hs.ne
  intro l
  induction l with
  | nil => intro _; rfl
  | cons sp rest ih =>
    intro hok
    have ih' := ih (fun x hx => hok x (List.mem_cons_of_mem _ hx))
    have hsp := hok sp List.mem_cons_self
    rw [VSet.matchVersion.go]
    simp only [hv.1, n1, n2, Bool.false_and, Bool.false_eq_true, ↓reduceIte]
    rw [contains_rel n4 hsp hv, ih']
    simp only [ok_bind, anyRel_cons]
    cases relHas s sp v <;> simp

/-- **`Set.MatchVersion` (release mode)** on a well-formed set: some span admits the candidate. -/
theorem matchVersion_rel (hs : SysR s) {S : VSet} (hne : S.span ≠ []) (hok : ∀ x ∈ S.span, SpanOK s x)
    {v : Version} (hv : VG s v) : S.matchVersion v false = .ok (anyRel s S.span v) := by
  obtain ⟨-, -, -, n3, -⟩ := hs.ne
  unfold VSet.matchVersion
  have : S.span.isEmpty = false := by
    cases h : S.span with
    | nil => exact absurd h hne
    | cons _ _ => rfl
  simp only [this, Bool.false_eq_true, ↓reduceIte, hv.1, n3]
  exact matchGo_rel hs hv S.span hok

/-! ### bounds that can let a prerelease candidate in -/

/-- The bound `x` touches the candidate `v`: it is a prerelease with the number list of `v`
(the admission rule of `span.contains`), or it equals `v` in the order (a unit span on it
contains `v`). -/
def Touches (s : System) (v x : Version) : Prop :=
  (x.isPrerelease = true ∧ v.num = x.num) ∨ (pt s x ≤ pt s v ∧ pt s v ≤ pt s x)

instance (s : System) (v x : Version) : Decidable (Touches s v x) := inferInstanceAs (Decidable (_ ∨ _))

/-- No bound of the span touches `v`. -/
def NoTouch (s : System) (v : Version) (sp : Span) : Prop := AllB (fun x => ¬ Touches s v x) sp

instance (s : System) (v : Version) (sp : Span) : Decidable (NoTouch s v sp) := by
  unfold NoTouch AllB
  cases sp.min <;> cases sp.max <;> simp <;> infer_instance

theorem admits_false {v x : Version} {o : Option Version} (ho : o = some x) (h : ¬ Touches s v x) :
    admits v o = false := by
  subst ho
  unfold admits
  rw [← Bool.not_eq_true]
  intro ht
  simp only [Bool.and_eq_true, equalValues, beq_iff_eq] at ht
  exact h (Or.inl ht)

/-- A span none of whose bounds touches the prerelease candidate `v` does not accept it in release mode. -/
theorem relHas_false_of_noTouch {sp : Span} {v : Version} (hsp : SpanOK s sp) (hp : v.isPrerelease = true)
    (h : NoTouch s v sp) : relHas s sp v = false := by
  by_cases hne : sp.rank = .empty
  · exact relHas_empty hne v
  obtain ⟨a, b, h1, h2, -, -, -, hfl, hu, -⟩ := hsp.bounds hne
  have na := admits_false h1 (h.1 a h1)
  have nb := admits_false h2 (h.2 b h2)
  unfold relHas
  rw [na, nb, hp]
  simp only [Bool.not_true, Bool.false_or, Bool.or_false, Bool.and_eq_false_imp]
  intro hhas
  rw [← Bool.not_eq_true, beq_iff_eq]
  intro hr
  have := hu hr
  subst this
  rw [has_eq hne h1 h2, decide_eq_true_eq] at hhas
  rcases hfl with hlt | ⟨f1, f2⟩
  · exact absurd hlt (by grind)
  · unfold inItv at hhas
    simp only [f1, f2, Bool.false_eq_true, ↓reduceIte] at hhas
    exact h.1 a h1 (Or.inr hhas)

/-- An untagged bound does not touch a candidate carrying a prerelease tag — unless it is flagged as a
prerelease all the same (`clearPre` keeps the flag) and has the number list of the candidate. -/
theorem noTouch_of_release {v x : Version} (hvt : v.pre ≠ []) (hx : x.pre = [])
    (hflag : x.isPrerelease = true → v.num ≠ x.num) : ¬ Touches s v x := by
  rintro (⟨h, heq⟩ | ⟨h1, h2⟩)
  · exact hflag h heq
  · have := (ord_eq_iff (s := s) x v).mpr ⟨h1, h2⟩
    unfold genericOrd compareLex preOrd at this
    simp only [hx] at this
    cases hp : v.pre with
    | nil => exact hvt hp
    | cons y ys =>
      rw [hp] at this
      simp only [twist] at this
      cases hn : padLex compare 0 x.num v.num <;> rw [hn] at this <;> simp [Ordering.then] at this

end DepsDev.Proofs.C09b
