import DepsDev.Proofs.C16MarkerRender

/-! C16: the fuel `parseMarker` supplies is sufficient for every input. -/

namespace DepsDev.Proofs.C16Fuel
open DepsDev DepsDev.Pypi DepsDev.Proofs.C16Bytes DepsDev.Proofs.C16MarkerRender

theorem skipWsp_length_le (s : Bytes) : (skipWsp s).length ≤ s.length :=
  Ref.Pep508.length_dropWhile_le _ _

theorem accept_length {lit s r : Bytes} (h : accept lit s = some r) : r.length + lit.length = s.length := by
  unfold accept at h
  by_cases hp : lit.isPrefixOf s = true
  · simp only [hp, if_true, Option.some.injEq] at h
    subst h
    have := List.IsPrefix.length_le (List.isPrefixOf_iff_prefix.mp hp)
    simp; omega
  · simp [hp] at h

theorem indexWhere_lt' {p : UInt8 → Bool} {s : Bytes} {i : Nat} (h : indexWhere p s = some i) : i < s.length :=
  indexWhere_lt h

theorem parsePythonStr_length {s v r : Bytes} (h : parsePythonStr s = .ok (v, r)) : r.length ≤ s.length := by
  unfold parsePythonStr at h
  cases s with
  | nil => simp at h
  | cons q rest =>
    simp only at h
    split at h
    · cases h
    · cases hi : indexByte rest q with
      | none => simp [hi] at h
      | some i =>
        simp only [hi, Outcome.ok.injEq, Prod.mk.injEq] at h
        obtain ⟨_, rfl⟩ := h
        simp; omega

theorem acceptEnvVar_length {s : Bytes} : ∀ {L : List (Bytes × Bytes × Bytes)} {n v r : Bytes},
    acceptEnvVar s L = some (n, v, r) → r.length ≤ s.length
  | [], _, _, _, h => by simp [acceptEnvVar] at h
  | (k, nm, vl) :: L, n, v, r, h => by
    unfold acceptEnvVar at h
    cases ha : accept k s with
    | some r' =>
      simp only [ha, Option.some.injEq, Prod.mk.injEq] at h
      obtain ⟨_, _, rfl⟩ := h
      have := accept_length ha; omega
    | none =>
      simp only [ha] at h
      exact acceptEnvVar_length h

theorem parseMarkerVar_length (sv : Semver) {s r : Bytes} {v : MarkerVar}
    (h : parseMarkerVar sv s = .ok (v, r)) : r.length ≤ s.length := by
  unfold parseMarkerVar at h
  have hs := skipWsp_length_le s
  simp only at h
  split at h
  · rename_i str r' hp
    simp only [Outcome.ok.injEq, Prod.mk.injEq] at h
    obtain ⟨_, rfl⟩ := h
    have := parsePythonStr_length hp; omega
  · split at h
    · split at h
      · rename_i name value r' ha
        simp only [Outcome.ok.injEq, Prod.mk.injEq] at h
        obtain ⟨_, rfl⟩ := h
        have := acceptEnvVar_length ha; omega
      · cases h
    · cases h

theorem acceptOp_length {s : Bytes} : ∀ {L : List Nat} {o : Nat} {r : Bytes},
    acceptOp s L = .ok (some (o, r)) → r.length ≤ s.length
  | [], _, _, h => by simp [acceptOp] at h
  | x :: L, o, r, h => by
    unfold acceptOp at h
    split at h
    · cases h
    · rename_i str _
      cases ha : accept str s with
      | some r' =>
        simp only [ha, Outcome.ok.injEq, Option.some.injEq, Prod.mk.injEq] at h
        obtain ⟨_, rfl⟩ := h
        have := accept_length ha; omega
      | none =>
        simp only [ha] at h
        exact acceptOp_length h

theorem parseMarkerOp_length {s r : Bytes} {o : Nat} (h : parseMarkerOp s = .ok (o, r)) : r.length ≤ s.length := by
  unfold parseMarkerOp at h
  have hs := skipWsp_length_le s
  simp only at h
  split at h
  · rename_i x hx
    simp only [Outcome.ok.injEq] at h
    subst h
    have := acceptOp_length hx; omega
  · split at h
    · cases h
    · rename_i s1 h1
      split at h
      · cases h
      · split at h
        · cases h
        · rename_i s3 h3
          simp only [Outcome.ok.injEq, Prod.mk.injEq] at h
          obtain ⟨_, rfl⟩ := h
          have := accept_length h1
          have := accept_length h3
          have := skipWsp_length_le s1
          omega
  · cases h
  · cases h

theorem parseLeaf_length (sv : Semver) {s r : Bytes} {M : Marker} (h : parseLeaf sv s = .ok (M, r)) :
    r.length ≤ s.length := by
  unfold parseLeaf at h
  cases h1 : parseMarkerVar sv s with
  | err => simp [h1, bind, Outcome.bind] at h
  | panic p => simp [h1, bind, Outcome.bind] at h
  | ok x1 =>
    obtain ⟨l, s1⟩ := x1
    simp only [h1, bind, Outcome.bind] at h
    cases h2 : parseMarkerOp s1 with
    | err => simp [h2] at h
    | panic p => simp [h2] at h
    | ok x2 =>
      obtain ⟨o, s2⟩ := x2
      simp only [h2] at h
      cases h3 : parseMarkerVar sv s2 with
      | err => simp [h3] at h
      | panic p => simp [h3] at h
      | ok x3 =>
        obtain ⟨r', s3⟩ := x3
        simp only [h3] at h
        cases h4 : mkExpr sv o l r' with
        | err => simp [h4] at h
        | panic p => simp [h4] at h
        | ok e =>
          simp only [h4, pure, Outcome.ok.injEq, Prod.mk.injEq] at h
          obtain ⟨_, rfl⟩ := h
          have := parseMarkerVar_length sv h1
          have := parseMarkerOp_length h2
          have := parseMarkerVar_length sv h3
          omega

/-- A fuelled parser finished and, on success, did not lengthen the input. -/
def Fin (s : Bytes) (x : Fuelled (Marker × Bytes)) : Prop :=
  ∃ o, x = .done o ∧ ∀ M r, o = .ok (M, r) → r.length ≤ s.length

theorem fin_sufficient (sv : Semver) : ∀ n : Nat, ∀ s : Bytes, s.length ≤ n →
    (∀ fuel, 3 * n + 1 ≤ fuel → Fin s (parseMarkerExpr sv fuel s)) ∧
    (∀ fuel, 3 * n + 2 ≤ fuel → Fin s (parseMarkerAnd sv fuel s)) ∧
    (∀ fuel, 3 * n + 3 ≤ fuel → Fin s (parseMarkerOr sv fuel s)) := by
  intro n
  induction n with
  | zero =>
    intro s hs
    have hs0 : s = [] := List.eq_nil_of_length_eq_zero (by omega)
    subst hs0
    have hE : ∀ fuel, 1 ≤ fuel → Fin [] (parseMarkerExpr sv fuel []) := by
      intro fuel hf
      obtain ⟨f, rfl⟩ : ∃ f, fuel = f + 1 := ⟨fuel - 1, by omega⟩
      rw [expr_step]
      have : accept [40] (skipWsp []) = none := rfl
      rw [this]
      exact ⟨_, rfl, fun M r h => parseLeaf_length sv h⟩
    have hA : ∀ fuel, 2 ≤ fuel → Fin [] (parseMarkerAnd sv fuel []) := by
      intro fuel hf
      obtain ⟨f, rfl⟩ : ∃ f, fuel = f + 1 := ⟨fuel - 1, by omega⟩
      obtain ⟨o, ho, hlen⟩ := hE f (by omega)
      rw [and_step, ho]
      cases o with
      | err => exact ⟨_, rfl, fun _ _ h => by cases h⟩
      | panic p => exact ⟨_, rfl, fun _ _ h => by cases h⟩
      | ok x =>
        obtain ⟨L, r1⟩ := x
        have hr1 : r1 = [] := List.eq_nil_of_length_eq_zero (Nat.le_zero.mp (hlen L r1 rfl))
        subst hr1
        simp only [fbind_ok]
        have : accept [97, 110, 100] (skipWsp []) = none := rfl
        rw [this]
        exact ⟨_, rfl, fun M r h => by cases h; simp [skipWsp]⟩
    have hO : ∀ fuel, 3 ≤ fuel → Fin [] (parseMarkerOr sv fuel []) := by
      intro fuel hf
      obtain ⟨f, rfl⟩ : ∃ f, fuel = f + 1 := ⟨fuel - 1, by omega⟩
      obtain ⟨o, ho, hlen⟩ := hA f (by omega)
      rw [or_step, ho]
      cases o with
      | err => exact ⟨_, rfl, fun _ _ h => by cases h⟩
      | panic p => exact ⟨_, rfl, fun _ _ h => by cases h⟩
      | ok x =>
        obtain ⟨L, r1⟩ := x
        have hr1 : r1 = [] := List.eq_nil_of_length_eq_zero (Nat.le_zero.mp (hlen L r1 rfl))
        subst hr1
        simp only [fbind_ok]
        have : accept [111, 114] (skipWsp []) = none := rfl
        rw [this]
        exact ⟨_, rfl, fun M r h => by cases h; simp [skipWsp]⟩
    exact ⟨fun fuel hf => hE fuel (by omega), fun fuel hf => hA fuel (by omega), fun fuel hf => hO fuel (by omega)⟩
  | succ n ih =>
    intro s hs
    -- expr
    have hE : ∀ fuel, 3 * (n + 1) + 1 ≤ fuel → Fin s (parseMarkerExpr sv fuel s) := by
      intro fuel hf
      obtain ⟨f, rfl⟩ : ∃ f, fuel = f + 1 := ⟨fuel - 1, by omega⟩
      rw [expr_step]
      have hsk := skipWsp_length_le s
      cases ha : accept [40] (skipWsp s) with
      | none => exact ⟨_, rfl, fun M r h => by have := parseLeaf_length sv h; omega⟩
      | some s1 =>
        have hl1 := accept_length ha
        simp only [List.length_cons, List.length_nil] at hl1
        obtain ⟨o, ho, hlen⟩ := (ih s1 (by omega)).2.2 f (by omega)
        simp only []
        rw [ho]
        cases o with
        | err => exact ⟨_, rfl, fun _ _ h => by cases h⟩
        | panic p => exact ⟨_, rfl, fun _ _ h => by cases h⟩
        | ok x =>
          obtain ⟨M, r1⟩ := x
          have := hlen M r1 rfl
          simp only [fbind_ok]
          cases hb : accept [41] r1 with
          | none => exact ⟨_, rfl, fun _ _ h => by cases h⟩
          | some s2 =>
            have hl2 := accept_length hb
            simp only [List.length_cons, List.length_nil] at hl2
            exact ⟨_, rfl, fun M' r' h => by cases h; omega⟩
    have hA : ∀ fuel, 3 * (n + 1) + 2 ≤ fuel → Fin s (parseMarkerAnd sv fuel s) := by
      intro fuel hf
      obtain ⟨f, rfl⟩ : ∃ f, fuel = f + 1 := ⟨fuel - 1, by omega⟩
      obtain ⟨o, ho, hlen⟩ := hE f (by omega)
      rw [and_step, ho]
      cases o with
      | err => exact ⟨_, rfl, fun _ _ h => by cases h⟩
      | panic p => exact ⟨_, rfl, fun _ _ h => by cases h⟩
      | ok x =>
        obtain ⟨L, r1⟩ := x
        have h1 := hlen L r1 rfl
        have hsk := skipWsp_length_le r1
        simp only [fbind_ok]
        cases ha : accept [97, 110, 100] (skipWsp r1) with
        | none => exact ⟨_, rfl, fun M r h => by cases h; omega⟩
        | some s2 =>
          have hl2 := accept_length ha
          simp only [List.length_cons, List.length_nil] at hl2
          obtain ⟨o2, ho2, hlen2⟩ := (ih s2 (by omega)).2.1 f (by omega)
          simp only []
          rw [ho2]
          cases o2 with
          | err => exact ⟨_, rfl, fun _ _ h => by cases h⟩
          | panic p => exact ⟨_, rfl, fun _ _ h => by cases h⟩
          | ok y =>
            obtain ⟨R, r2⟩ := y
            have := hlen2 R r2 rfl
            exact ⟨_, rfl, fun M r h => by cases h; dsimp only; omega⟩
    have hO : ∀ fuel, 3 * (n + 1) + 3 ≤ fuel → Fin s (parseMarkerOr sv fuel s) := by
      intro fuel hf
      obtain ⟨f, rfl⟩ : ∃ f, fuel = f + 1 := ⟨fuel - 1, by omega⟩
      obtain ⟨o, ho, hlen⟩ := hA f (by omega)
      rw [or_step, ho]
      cases o with
      | err => exact ⟨_, rfl, fun _ _ h => by cases h⟩
      | panic p => exact ⟨_, rfl, fun _ _ h => by cases h⟩
      | ok x =>
        obtain ⟨L, r1⟩ := x
        have h1 := hlen L r1 rfl
        have hsk := skipWsp_length_le r1
        simp only [fbind_ok]
        cases ha : accept [111, 114] (skipWsp r1) with
        | none => exact ⟨_, rfl, fun M r h => by cases h; omega⟩
        | some s2 =>
          have hl2 := accept_length ha
          simp only [List.length_cons, List.length_nil] at hl2
          obtain ⟨o2, ho2, hlen2⟩ := (ih s2 (by omega)).2.2 f (by omega)
          simp only []
          rw [ho2]
          cases o2 with
          | err => exact ⟨_, rfl, fun _ _ h => by cases h⟩
          | panic p => exact ⟨_, rfl, fun _ _ h => by cases h⟩
          | ok y =>
            obtain ⟨R, r2⟩ := y
            have := hlen2 R r2 rfl
            exact ⟨_, rfl, fun M r h => by cases h; dsimp only; omega⟩
    exact ⟨hE, hA, hO⟩

/-- For every input, the fuel `parseMarker` supplies does not run out. -/
theorem parseMarkerOr_fuel (sv : Semver) (raw : Bytes) :
    parseMarkerOr sv (3 * raw.length + 3) raw ≠ .outOfFuel := by
  obtain ⟨o, ho, _⟩ := (fin_sufficient sv raw.length raw (Nat.le_refl _)).2.2 _ (Nat.le_refl _)
  rw [ho]; intro h; cases h

end DepsDev.Proofs.C16Fuel
