import DepsDev.Proofs.C10Mvn3

/-!
# C10 — Maven, part 4: the round trip

`maven_reparse`: for ASCII input not beginning with a separator, the canonical string of the
parsed version parses back to exactly the same version (`mavenSplit` gives the trimmed element
list back, `mavenTrim` is the identity on it, `fillInts` recomputes the same numbers).
-/
namespace DepsDev.Proofs.C10
open DepsDev DepsDev.Semver Digits Gen.SemverTables

/-! ## Maven: assembling the round trip -/

theorem tailOk_sublist {l l' : List MavenElem} (h : TailOkM l) (hs : l'.Sublist l) : TailOkM l' :=
  fun e he => h e (hs.subset he)

theorem wfl_sublist (l l' : List MavenElem) (h : WFL l) (hs : l'.Sublist l) (hh : l'[0]? = l[0]?) : WFL l' := by
  cases l with
  | nil =>
    have : l' = [] := List.sublist_nil.mp hs
    subst this; trivial
  | cons e0 es =>
    obtain ⟨h1, h2, h3⟩ := h
    cases hs with
    | cons _ hs' =>
      -- `e0` skipped: then the head of `l'` is an element of `es` equal to `e0`: impossible
      exfalso
      cases l' with
      | nil => simp at hh
      | cons x xs =>
        simp only [List.getElem?_cons_zero, Option.some.injEq] at hh
        subst hh
        have := (h3 x (hs'.subset (by simp))).1
        rw [h1] at this
        rcases this with h | h <;> exact absurd h (by decide)
    | cons_cons _ hs' => exact ⟨h1, h2, tailOk_sublist h3 hs'⟩

theorem int0_sublist {l l' : List MavenElem} (h : Int0 l) (hs : l'.Sublist l) : Int0 l' :=
  fun e he => h e (hs.subset he)

theorem map_zeroInt_int0 (l : List MavenElem) (h : Int0 l) : l.map zeroInt = l := by
  conv => rhs; rw [← List.map_id l]
  apply List.map_congr_left
  intro e he
  have := h e he
  cases e with
  | mk sep str int => simp only [zeroInt, id]; simp at this; rw [this]

/-- `fillInts` only sets the `int` fields. -/
theorem fillInts_zero (els r : List MavenElem) (q : Bool) (h : mavenInit.fillInts els = .ok (r, q)) :
    r.map zeroInt = els.map zeroInt := by
  induction els generalizing r q with
  | nil =>
    simp only [mavenInit.fillInts] at h
    injection h with h; injection h with h1 _; subst h1; rfl
  | cons e rest ih =>
    simp only [mavenInit.fillInts] at h
    split at h
    · split at h
      · simp only [bind, Outcome.bind] at h
        split at h
        · rename_i res hres
          obtain ⟨r', q'⟩ := res
          injection h with h; injection h with h1 _; subst h1
          simp [zeroInt, ih r' q' hres]
        · cases h
        · cases h
      · split at h
        · cases h
        · simp only [bind, Outcome.bind] at h
          split at h
          · rename_i res hres
            obtain ⟨r', q'⟩ := res
            injection h with h; injection h with h1 _; subst h1
            simp [zeroInt, ih r' q' hres]
          · cases h
          · cases h
    · simp only [bind, Outcome.bind] at h
      split at h
      · rename_i res hres
        obtain ⟨r', q'⟩ := res
        injection h with h; injection h with h1 _; subst h1
        simp [zeroInt, ih r' q' hres]
      · cases h
      · cases h

theorem canonTextM_zero (l : List MavenElem) : canonTextM (l.map zeroInt) = canonTextM l := by
  cases l with
  | nil => rfl
  | cons e es =>
    simp only [List.map_cons, canonTextM, zeroInt, tailText, List.flatMap_map]


theorem zipIdx_flatMap_tail (es : List MavenElem) (k : Nat) (hk : 0 < k) :
    (es.zipIdx k).flatMap (fun (p : MavenElem × Nat) => (if p.2 > 0 then [p.1.sep] else []) ++ p.1.str) = tailText es := by
  induction es generalizing k with
  | nil => rfl
  | cons e rest ih =>
    simp only [List.zipIdx_cons, List.flatMap_cons, hk, ↓reduceIte, tailText, List.singleton_append]
    rw [ih (k + 1) (by omega)]
    rfl

/-- `mavenExtension.canon`. -/
theorem canon_maven (v : Version) (b : Bool) (r : List MavenElem) (h : v.ext = .maven r) : canon v b = canonTextM r := by
  unfold canon
  simp only [h]
  cases r with
  | nil => rfl
  | cons e es =>
    simp only [List.zipIdx_cons, List.flatMap_cons, Nat.lt_irrefl, ↓reduceIte, List.nil_append, canonTextM, gt_iff_lt]
    congr 1
    exact zipIdx_flatMap_tail es (0 + 1) (by omega)

theorem mavenCompare_self (r : List MavenElem) : mavenCompare r r = .ok 0 := by
  induction r with
  | nil => rfl
  | cons a rest ih =>
    have : mavenStep (some a) (some a) = .ok none := by
      unfold mavenStep
      simp
    simp only [mavenCompare, this, ih]

theorem lower_facts : ∀ c : UInt8, c < 0x80 →
    (if 65 ≤ c && c ≤ 90 then c + 32 else c) < 0x80 ∧
    ¬ (65 ≤ (if 65 ≤ c && c ≤ 90 then c + 32 else c) ∧ (if 65 ≤ c && c ≤ 90 then c + 32 else c) ≤ 90) ∧
    (mcls (if 65 ≤ c && c ≤ 90 then c + 32 else c) = versionSeparator → c = 46 ∨ c = 45) := by
  apply forall_uint8; decide +kernel

theorem lowAscii_lower (b : Bytes) (hb : ∀ c ∈ b, c < 0x80) : LowAscii (Bytes.toLowerAscii b) := by
  intro c hc
  unfold Bytes.toLowerAscii at hc
  obtain ⟨x, hx, rfl⟩ := List.mem_map.mp hc
  have := lower_facts x (hb x hx)
  exact ⟨this.1, this.2.1⟩

theorem lower_id (t : Bytes) (h : LowAscii t) : Bytes.toLowerAscii t = t := by
  unfold Bytes.toLowerAscii
  conv => rhs; rw [← List.map_id t]
  apply List.map_congr_left
  intro c hc
  have := (h c hc).2
  by_cases h1 : (65 ≤ c && c ≤ 90) = true
  · simp only [Bool.and_eq_true, decide_eq_true_eq] at h1
    exact absurd h1 this
  · simp [h1]

theorem wfl_lowAscii (l : List MavenElem) (h : WFL l) : LowAscii (canonTextM l) := by
  cases l with
  | nil => intro c hc; cases hc
  | cons e0 es =>
    obtain ⟨_, h2, h3⟩ := h
    intro c hc
    simp only [canonTextM, List.mem_append, tailText, List.mem_flatMap, List.mem_cons] at hc
    rcases hc with hc | ⟨e, he, rfl | hc⟩
    · exact h2.ascii c hc
    · rcases (h3 e he).1 with h | h <;> rw [h] <;> decide
    · exact (h3 e he).2.ascii c hc


/-- The Maven input domain of the theorem: ASCII text (the model's `strings.ToLower` is ASCII-only). -/
def AsciiText (b : Bytes) : Bool := b.all (· < 0x80)

/-- The Maven string does not begin with a separator (finding F-C10-mvn-leadsep). -/
def noLeadSep (b : Bytes) : Bool := !(b.head? == some 46 || b.head? == some 45)

/-- **C10 for Maven**: for ASCII input not beginning with a separator, the canonical string of
the parsed version parses back to exactly the same version. -/
theorem maven_reparse (b : Bytes) (v : Version) (sb : Bool) (hb : AsciiText b = true) (hl : noLeadSep b = true)
    (h : parse .maven b = .ok v) : parse .maven (canon v sb) = .ok v := by
  have hbascii : ∀ c ∈ b, c < 0x80 := by
    intro c hc
    have := List.all_eq_true.mp hb c hc
    simpa using this
  -- unfold the original parse
  have hparse : ∀ t, parse .maven t =
      match mavenInit t with
      | .ok (els, q) => .ok { sys := .maven, isPrerelease := q, ext := .maven els }
      | .err => .err
      | .panic => .panic := by
    intro t
    unfold parse parseInf possibleVersionString
    simp only [beq_self_eq_true, ↓reduceIte, Bool.not_true, Bool.false_eq_true, Bool.false_and]
    cases mavenInit t with
    | ok p => cases p; rfl
    | err => rfl
    | panic => rfl
  rw [hparse] at h
  unfold mavenInit at h
  -- the lower-cased input
  have hlow := lowAscii_lower b hbascii
  have hhead : Bytes.toLowerAscii b = [] ∨ ∃ c t, Bytes.toLowerAscii b = c :: t ∧ mcls c ≠ versionSeparator := by
    cases hbb : b with
    | nil => left; rfl
    | cons c t =>
      right
      refine ⟨_, _, rfl, ?_⟩
      intro hm
      have := (lower_facts c (hbascii c (by rw [hbb]; simp))).2.2 hm
      rw [hbb] at hl
      simp only [noLeadSep, List.head?_cons, Option.some_beq_some, Bool.not_eq_true', Bool.or_eq_false_iff,
        beq_eq_false_iff_ne, ne_eq] at hl
      rcases this with h1 | h1
      · exact hl.1 h1
      · exact hl.2 h1
  obtain ⟨w0, i0⟩ := mavenSplit_wf (Bytes.toLowerAscii b) hlow hhead
  obtain ⟨t1, t2, t3⟩ := mavenTrim_spec (mavenSplit (Bytes.toLowerAscii b))
  generalize mavenSplit (Bytes.toLowerAscii b) = els0 at h w0 i0 t1 t2 t3
  have wels := wfl_sublist els0 (mavenTrim els0) w0 t2 t3
  have iels := int0_sublist i0 t2
  generalize mavenTrim els0 = els at h t1 wels iels
  cases hfill : mavenInit.fillInts els with
  | err => rw [hfill] at h; cases h
  | panic => rw [hfill] at h; cases h
  | ok res =>
    obtain ⟨r, q⟩ := res
    rw [hfill] at h
    injection h with h
    subst h
    -- the canonical text
    have hz := fillInts_zero els r q hfill
    rw [map_zeroInt_int0 els iels] at hz
    have htext : canon { sys := .maven, isPrerelease := q, ext := .maven r } sb = canonTextM els := by
      rw [canon_maven _ sb r rfl, ← canonTextM_zero r, hz]
    rw [htext, hparse]
    unfold mavenInit
    rw [lower_id _ (wfl_lowAscii els wels)]
    have hsplit : mavenSplit (canonTextM els) = els := by
      cases hels : els with
      | nil => rfl
      | cons e0 es =>
        rw [hels] at wels iels
        obtain ⟨w1, w2, w3⟩ := wels
        rw [split_canonText e0 es w2 w3, map_zeroInt_int0 es (fun e he => iels e (by simp [he]))]
        have hi0 := iels e0 (by simp)
        cases e0 with
        | mk sep str int =>
          simp only at w1 hi0
          subst w1 hi0
          rfl
    rw [hsplit, mavenTrim_stable els t1, hfill]


theorem parse_maven_ext (b : Bytes) (v : Version) (h : parse .maven b = .ok v) :
    v.sys = .maven ∧ ∃ r, v.ext = .maven r := by
  unfold parse parseInf at h
  simp only [possibleVersionString, beq_self_eq_true, ↓reduceIte, Bool.not_true, Bool.false_eq_true, Bool.false_and] at h
  split at h
  · injection h with h; subst h; exact ⟨rfl, _, rfl⟩
  · cases h
  · cases h

theorem vcompare_maven_self (v : Version) (hs : v.sys = .maven) (r : List MavenElem) (he : v.ext = .maven r) :
    vcompare v v = .ok 0 := by
  unfold vcompare
  simp only [bne_self_eq_false, Bool.false_eq_true, ↓reduceIte, he, mavenCompare_self]

/-- **C10 for Maven**, clauses 1–3. -/
theorem maven_roundtrip (b : Bytes) (v : Version) (sb : Bool) (hb : AsciiText b = true) (hl : noLeadSep b = true)
    (h : parse .maven b = .ok v) :
    ∃ v', parse .maven (canon v sb) = .ok v' ∧ vcompare v v' = .ok 0 ∧ canon v' sb = canon v sb := by
  obtain ⟨hs, r, he⟩ := parse_maven_ext b v h
  exact ⟨v, maven_reparse b v sb hb hl h, vcompare_maven_self v hs r he, rfl⟩

/-- **C10 for Maven**, clause 4. -/
theorem maven_injective (b1 b2 : Bytes) (v w : Version) (h1 : AsciiText b1 = true) (h2 : AsciiText b2 = true)
    (l1 : noLeadSep b1 = true) (l2 : noLeadSep b2 = true) (p1 : parse .maven b1 = .ok v) (p2 : parse .maven b2 = .ok w)
    (h : canon v true = canon w true) : vcompare v w = .ok 0 := by
  have r1 := maven_reparse b1 v true h1 l1 p1
  have r2 := maven_reparse b2 w true h2 l2 p2
  rw [h, r2] at r1
  injection r1 with r1
  subst r1
  obtain ⟨hs, r, he⟩ := parse_maven_ext b2 w p2
  exact vcompare_maven_self w hs r he

end DepsDev.Proofs.C10
