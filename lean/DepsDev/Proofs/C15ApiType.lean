import DepsDev.Proofs.C15ApiView

/-!
# C15, API path: `MavenDepTypeToDependency ∘ MavenDepType`

The exclusions attribute is the `|`-joined list of `group:artifact` of the exclusions that
contain no pipe; splitting it at `|` and each segment at its first colon gives those exclusions
back (as `viewExcl` sees them) — unless no exclusion survives the pipe filter: then the attribute
is the empty string, whose only segment has no colon, and the Go code slices with a bound of -1.
-/
namespace DepsDev.Proofs.C15ApiType
open DepsDev DepsDev.Model.Maven DepsDev.Model.Maven.Api DepsDev.Proofs.C15ApiView

def seg (e : Exclusion) : Bytes := apiName e.g e.a

/-- the exclusions `ExclusionsString` does not skip -/
def kept (ex : List Exclusion) : List Exclusion := ex.filter fun e => !hasPipe e

def joinSegs : List Bytes → Bytes
  | [] => []
  | [s] => s
  | s :: t :: rest => s ++ cPipe :: joinSegs (t :: rest)

theorem kept_cons_pipe {e : Exclusion} {rest : List Exclusion} (h : hasPipe e = true) : kept (e :: rest) = kept rest := by
  simp [kept, List.filter, h]

theorem kept_cons_ok {e : Exclusion} {rest : List Exclusion} (h : hasPipe e = false) : kept (e :: rest) = e :: kept rest := by
  simp [kept, List.filter, h]

theorem exclusionsLoop_false (ex : List Exclusion) :
    exclusionsLoop ex false = match (kept ex).map seg with
      | [] => []
      | s :: l => cPipe :: joinSegs (s :: l) := by
  induction ex with
  | nil => rfl
  | cons e rest ih =>
    by_cases h : hasPipe e = true
    · rw [kept_cons_pipe h]; unfold exclusionsLoop; simp only [h, if_true]; exact ih
    · have h' : hasPipe e = false := by simpa using h
      rw [kept_cons_ok h']; unfold exclusionsLoop
      simp only [h', Bool.false_eq_true, if_false, ih, List.map_cons]
      cases (kept rest).map seg with
      | nil => simp [joinSegs, seg, apiName]
      | cons t l => simp [joinSegs, seg, apiName]

theorem exclusionsLoop_true (ex : List Exclusion) : exclusionsLoop ex true = joinSegs ((kept ex).map seg) := by
  induction ex with
  | nil => rfl
  | cons e rest ih =>
    by_cases h : hasPipe e = true
    · rw [kept_cons_pipe h]; unfold exclusionsLoop; simp only [h, if_true]; exact ih
    · have h' : hasPipe e = false := by simpa using h
      rw [kept_cons_ok h']; unfold exclusionsLoop
      simp only [h', Bool.false_eq_true, if_false, exclusionsLoop_false, List.map_cons, if_true]
      cases (kept rest).map seg with
      | nil => simp [joinSegs, seg, apiName]
      | cons t l => simp [joinSegs, seg, apiName]

/-! ## `strings.Split(_, "|")` -/

theorem splitPipe_ne_nil (s : Bytes) : splitPipe s ≠ [] := by
  induction s with
  | nil => simp [splitPipe]
  | cons c rest ih =>
    unfold splitPipe
    split
    · simp
    · split <;> simp

theorem splitPipe_single (s : Bytes) (h : cPipe ∉ s) : splitPipe s = [s] := by
  induction s with
  | nil => rfl
  | cons c rest ih =>
    simp only [List.mem_cons, not_or] at h
    have hc : ¬ c = cPipe := fun e => h.1 e.symm
    unfold splitPipe
    simp [hc, ih h.2]

theorem splitPipe_append (s t : Bytes) (h : cPipe ∉ s) : splitPipe (s ++ cPipe :: t) = s :: splitPipe t := by
  induction s with
  | nil => simp [splitPipe]
  | cons c rest ih =>
    simp only [List.mem_cons, not_or] at h
    have hc : ¬ c = cPipe := fun e => h.1 e.symm
    simp [splitPipe, hc, ih h.2]

theorem splitPipe_joinSegs (segs : List Bytes) (hne : segs ≠ []) (h : ∀ s ∈ segs, cPipe ∉ s) :
    splitPipe (joinSegs segs) = segs := by
  induction segs with
  | nil => exact absurd rfl hne
  | cons s rest ih =>
    cases rest with
    | nil => simpa [joinSegs] using splitPipe_single s (h s (by simp))
    | cons t l =>
      simp only [joinSegs]
      rw [splitPipe_append s _ (h s (by simp)), ih (by simp) (fun x hx => h x (by simp [hx]))]

theorem seg_noPipe {e : Exclusion} (h : hasPipe e = false) : cPipe ∉ seg e := by
  simp only [hasPipe, Bool.or_eq_false_iff, List.contains_eq_mem, decide_eq_false_iff_not] at h
  simp only [seg, apiName, List.mem_append, List.mem_cons, not_or]
  exact ⟨h.1, by decide, h.2⟩

theorem kept_noPipe (ex : List Exclusion) : ∀ s ∈ (kept ex).map seg, cPipe ∉ s := by
  intro s hs
  obtain ⟨e, he, rfl⟩ := List.mem_map.1 hs
  have : hasPipe e = false := by
    have := (List.mem_filter.1 he).2
    simpa using this
  exact seg_noPipe this

/-! ## segments -/

theorem cutColon_none_iff (s : Bytes) : cutColon s = none ↔ cColon ∉ s := by
  induction s with
  | nil => simp [cutColon]
  | cons c rest ih =>
    unfold cutColon
    by_cases hc : c = cColon
    · simp [hc]
    · have hc' : ¬ cColon = c := fun e => hc e.symm
      cases h : cutColon rest with
      | none => simp [hc, hc', ih.1 h]
      | some p =>
        have : ¬ cColon ∉ rest := fun hn => by rw [ih.2 hn] at h; cases h
        simp [hc, this]

theorem parseExclusions_map (l : List Exclusion) : parseExclusions (l.map seg) = some (l.map viewExcl) := by
  induction l with
  | nil => rfl
  | cons e rest ih =>
    obtain ⟨g', a', h⟩ := cutColon_apiName e.g e.a
    simp [parseExclusions, seg, viewExcl, h, ih]

theorem parseExclusions_none_iff (l : List Bytes) : parseExclusions l = none ↔ ∃ s ∈ l, cColon ∉ s := by
  induction l with
  | nil => simp [parseExclusions]
  | cons s rest ih =>
    unfold parseExclusions
    cases hc : cutColon s with
    | none => simp [(cutColon_none_iff s).1 hc]
    | some p =>
      have hs : ¬ cColon ∉ s := fun hn => by rw [(cutColon_none_iff s).2 hn] at hc; cases hc
      cases hr : parseExclusions rest with
      | none =>
        obtain ⟨x, hx, hxc⟩ := ih.1 hr
        simp only [List.mem_cons, exists_eq_or_imp, true_iff]
        exact Or.inr ⟨x, hx, hxc⟩
      | some l' =>
        have : ¬ ∃ x ∈ rest, cColon ∉ x := fun he => by rw [ih.2 he] at hr; cases hr
        simp only [List.mem_cons, exists_eq_or_imp, reduceCtorEq, false_iff, not_or]
        exact ⟨hs, this⟩

/-! ## the round trip -/

/-- what `MavenDepTypeToDependency` gives back of a dependency: no coordinates, the defaults
(`jar`, `compile`, not optional) as empty strings, the exclusions without a pipe, each split at
its first colon -/
def normalise (d : Dep) : Dep :=
  { g := [], a := [], v := []
    typ := if !d.typ.isEmpty && d.typ != bJar then d.typ else []
    cls := d.cls
    scope := if d.scope == bTest then bTest else if !d.scope.isEmpty && d.scope != bCompile then d.scope else []
    opt := if d.opt == bTrue then bTrue else []
    excl := (kept d.excl).map viewExcl }

/-- the dependency has no exclusions, or one that `ExclusionsString` does not skip -/
def SomeExclusionSurvives (d : Dep) : Prop := d.excl = [] ∨ kept d.excl ≠ []

instance (d : Dep) : Decidable (SomeExclusionSurvives d) := by unfold SomeExclusionSurvives; infer_instance

/-- every `|`-separated segment of the exclusions attribute has a colon -/
def SegmentsHaveColon (t : DType) : Prop :=
  match t.excl with
  | none => True
  | some e => ∀ s ∈ splitPipe e, cColon ∈ s

theorem exclusions_back (ex : List Exclusion) (h : kept ex ≠ []) :
    parseExclusions (splitPipe (exclusionsString ex)) = some ((kept ex).map viewExcl) := by
  unfold exclusionsString
  rw [exclusionsLoop_true, splitPipe_joinSegs _ (by simpa using h) (kept_noPipe ex), parseExclusions_map]

theorem exclusions_panic (ex : List Exclusion) (h : kept ex = []) :
    parseExclusions (splitPipe (exclusionsString ex)) = none := by
  unfold exclusionsString
  rw [exclusionsLoop_true, h]
  rfl

theorem scope_back (d : Dep) (origin : Bytes) : backScope (mavenDepType d origin) = some (normalise d).scope := by
  unfold backScope mavenDepType normalise
  by_cases h1 : (d.scope == bTest) = true
  · simp [h1]
  · by_cases h2 : (!d.scope.isEmpty && d.scope != bCompile) = true
    · simp [h1, h2]
    · simp [h1, h2]

theorem orEmpty_guard (c : Bool) (s : Bytes) (h : c = false → s = []) : orEmpty (if c = true then some s else none) = s := by
  cases c
  · simp [orEmpty, h rfl]
  · simp [orEmpty]

theorem typ_back (d : Dep) (origin : Bytes) : orEmpty (mavenDepType d origin).typ = (normalise d).typ := by
  unfold mavenDepType normalise
  by_cases h1 : (!d.typ.isEmpty && d.typ != bJar) = true <;> simp [h1, orEmpty]

theorem cls_back (d : Dep) (origin : Bytes) : orEmpty (mavenDepType d origin).cls = d.cls := by
  unfold mavenDepType
  cases h : d.cls <;> simp [orEmpty]

theorem origin_back (d : Dep) (origin : Bytes) : orEmpty (mavenDepType d origin).origin = origin := by
  unfold mavenDepType
  cases origin <;> simp [orEmpty]

/-- **Round trip.** `MavenDepTypeToDependency (MavenDepType d origin)` is the normalised dependency and
the origin, for every dependency that has no exclusions or at least one without a pipe. -/
theorem depType_roundtrip (d : Dep) (origin : Bytes) (h : SomeExclusionSurvives d) :
    mavenDepTypeToDependency (mavenDepType d origin) = .ok (normalise d, origin) := by
  have hex : backExclusions (mavenDepType d origin) = some ((kept d.excl).map viewExcl) := by
    unfold backExclusions mavenDepType
    rcases h with h | h
    · simp [h, kept]
    · have hne : d.excl ≠ [] := fun e => h (by simp [e, kept])
      have : d.excl.isEmpty = false := by simpa using hne
      simp only [this, Bool.not_false, if_true]
      exact exclusions_back d.excl h
  unfold mavenDepTypeToDependency
  simp only [scope_back, hex, typ_back, cls_back, origin_back]
  simp [normalise, mavenDepType]

/-- …and it panics on every other dependency: one that has exclusions all of which contain a pipe. -/
theorem depType_panics (d : Dep) (origin : Bytes) (h : ¬ SomeExclusionSurvives d) :
    mavenDepTypeToDependency (mavenDepType d origin) = .panic := by
  simp only [SomeExclusionSurvives, not_or, Decidable.not_not] at h
  have hne : d.excl.isEmpty = false := by simpa using h.1
  have hex : backExclusions (mavenDepType d origin) = none := by
    unfold backExclusions mavenDepType
    simp only [hne, Bool.not_false, if_true]
    exact exclusions_panic d.excl h.2
  unfold mavenDepTypeToDependency
  simp only [scope_back, hex]

/-- on the types `MavenDepType` produces, the hypothesis of the totality theorem is the hypothesis
of the round trip -/
theorem segments_of_depType (d : Dep) (origin : Bytes) :
    SegmentsHaveColon (mavenDepType d origin) ↔ SomeExclusionSurvives d := by
  unfold SegmentsHaveColon mavenDepType SomeExclusionSurvives
  by_cases he : d.excl = []
  · simp [he]
  · have hne : d.excl.isEmpty = false := by simpa using he
    simp only [hne, Bool.not_false, if_true, he, false_or]
    constructor
    · intro h hk
      have := h [] (by unfold exclusionsString; rw [exclusionsLoop_true, hk]; simp [joinSegs, splitPipe])
      simp at this
    · intro hk s hs
      unfold exclusionsString at hs
      rw [exclusionsLoop_true, splitPipe_joinSegs _ (by simpa using hk) (kept_noPipe d.excl)] at hs
      obtain ⟨e, _, rfl⟩ := List.mem_map.1 hs
      simp [seg, apiName]

/-- **Totality of `MavenDepTypeToDependency`, partial.** It never panics on a type whose exclusion
segments all have a colon… -/
theorem typeToDependency_no_panic (t : DType) (h : SegmentsHaveColon t) : mavenDepTypeToDependency t ≠ .panic := by
  have hex : backExclusions t ≠ none := by
    unfold SegmentsHaveColon at h
    unfold backExclusions
    cases he : t.excl with
    | none => simp
    | some e =>
      simp only [he] at h
      intro hn
      obtain ⟨s, hs, hsc⟩ := (parseExclusions_none_iff _).1 hn
      exact hsc (h s hs)
  unfold mavenDepTypeToDependency
  cases backScope t with
  | none => simp
  | some sc =>
    cases hb : backExclusions t with
    | none => exact absurd hb hex
    | some ex => simp

/-- …and panics on every other type, unless it is rejected first (`Test` together with `Scope`). -/
theorem typeToDependency_panics (t : DType) (h : ¬ SegmentsHaveColon t) (hs : t.scope = none ∨ t.test = false) :
    mavenDepTypeToDependency t = .panic := by
  have hex : backExclusions t = none := by
    unfold SegmentsHaveColon at h
    unfold backExclusions
    cases he : t.excl with
    | none => simp [he] at h
    | some e =>
      simp only [he] at h
      apply (parseExclusions_none_iff _).2
      simp only [Classical.not_forall] at h
      obtain ⟨s, hs, hc⟩ := h
      exact ⟨s, hs, hc⟩
  have hsc : ∃ x, backScope t = some x := by
    unfold backScope
    rcases hs with hs | hs
    · simp [hs]
    · cases t.scope <;> simp [hs]
  obtain ⟨x, hx⟩ := hsc
  unfold mavenDepTypeToDependency
  simp [hx, hex]

end DepsDev.Proofs.C15ApiType
