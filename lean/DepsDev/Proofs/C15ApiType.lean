import DepsDev.Proofs.C15ApiView

/-!
# C15, API path: `MavenDepTypeToDependency ∘ MavenDepType`

The exclusions attribute is the `|`-joined list of `group:artifact` of the exclusions that
contain no pipe; splitting it at `|` and each segment at its first colon gives those exclusions
back (as `viewExcl` sees them). When no exclusion survives the pipe filter the attribute is the
empty string, whose only segment is empty and is skipped; a non-empty segment without a colon is
the error `invalid Maven dep.Type`; the slice expressions never go out of range.
-/
namespace DepsDev.Proofs.C15ApiType
open DepsDev DepsDev.Model.Maven DepsDev.Model.Maven.Api DepsDev.Proofs.C15ApiView

def seg (e : Exclusion) : Bytes := apiName e.g e.a

/-- the exclusions `ExclusionsString` does not skip -/
def kept (ex : List Exclusion) : List Exclusion := ex.filter fun e => !hasPipe e

def joinSegs : List Bytes → Bytes
  | [] => []
  | [s] => s
  | s :: t :: rest => s ++ cPipe :: joinSegs (t :: rest)

theorem kept_cons_pipe {e : Exclusion} {rest : List Exclusion} (h : hasPipe e = true) : kept (e :: rest) = kept rest := by
  simp [kept, List.filter, h]

theorem kept_cons_ok {e : Exclusion} {rest : List Exclusion} (h : hasPipe e = false) : kept (e :: rest) = e :: kept rest := by
  simp [kept, List.filter, h]

theorem exclusionsLoop_false (ex : List Exclusion) :
    exclusionsLoop ex false = match (kept ex).map seg with
      | [] => []
      | s :: l => cPipe :: joinSegs (s :: l) := by
  induction ex with
  | nil => rfl
  | cons e rest ih =>
    by_cases h : hasPipe e = true
    · rw [kept_cons_pipe h]; unfold exclusionsLoop; simp only [h, if_true]; exact ih
    · have h' : hasPipe e = false := by simpa using h
      rw [kept_cons_ok h']; unfold exclusionsLoop
      simp only [h', Bool.false_eq_true, if_false, ih, List.map_cons]
      cases (kept rest).map seg with
      | nil => simp [joinSegs, seg, apiName]
      | cons t l => simp [joinSegs, seg, apiName]

theorem exclusionsLoop_true (ex : List Exclusion) : exclusionsLoop ex true = joinSegs ((kept ex).map seg) := by
  induction ex with
  | nil => rfl
  | cons e rest ih =>
    by_cases h : hasPipe e = true
    · rw [kept_cons_pipe h]; unfold exclusionsLoop; simp only [h, if_true]; exact ih
    · have h' : hasPipe e = false := by simpa using h
      rw [kept_cons_ok h']; unfold exclusionsLoop
      simp only [h', Bool.false_eq_true, if_false, exclusionsLoop_false, List.map_cons, if_true]
      cases (kept rest).map seg with
      | nil => simp [joinSegs, seg, apiName]
      | cons t l => simp [joinSegs, seg, apiName]

/-! ## `strings.Split(_, "|")` -/

theorem splitPipe_ne_nil (s : Bytes) : splitPipe s ≠ [] := by
  induction s with
  | nil => simp [splitPipe]
  | cons c rest ih =>
    unfold splitPipe
    split
    · simp
    · split <;> simp

theorem splitPipe_single (s : Bytes) (h : cPipe ∉ s) : splitPipe s = [s] := by
  induction s with
  | nil => rfl
  | cons c rest ih =>
    simp only [List.mem_cons, not_or] at h
    have hc : ¬ c = cPipe := fun e => h.1 e.symm
    unfold splitPipe
    simp [hc, ih h.2]

theorem splitPipe_append (s t : Bytes) (h : cPipe ∉ s) : splitPipe (s ++ cPipe :: t) = s :: splitPipe t := by
  induction s with
  | nil => simp [splitPipe]
  | cons c rest ih =>
    simp only [List.mem_cons, not_or] at h
    have hc : ¬ c = cPipe := fun e => h.1 e.symm
    simp [splitPipe, hc, ih h.2]

theorem splitPipe_joinSegs (segs : List Bytes) (hne : segs ≠ []) (h : ∀ s ∈ segs, cPipe ∉ s) :
    splitPipe (joinSegs segs) = segs := by
  induction segs with
  | nil => exact absurd rfl hne
  | cons s rest ih =>
    cases rest with
    | nil => simpa [joinSegs] using splitPipe_single s (h s (by simp))
    | cons t l =>
      simp only [joinSegs]
      rw [splitPipe_append s _ (h s (by simp)), ih (by simp) (fun x hx => h x (by simp [hx]))]

theorem seg_noPipe {e : Exclusion} (h : hasPipe e = false) : cPipe ∉ seg e := by
  simp only [hasPipe, Bool.or_eq_false_iff, List.contains_eq_mem, decide_eq_false_iff_not] at h
  simp only [seg, apiName, List.mem_append, List.mem_cons, not_or]
  exact ⟨h.1, by decide, h.2⟩

theorem kept_noPipe (ex : List Exclusion) : ∀ s ∈ (kept ex).map seg, cPipe ∉ s := by
  intro s hs
  obtain ⟨e, he, rfl⟩ := List.mem_map.1 hs
  have : hasPipe e = false := by
    have := (List.mem_filter.1 he).2
    simpa using this
  exact seg_noPipe this

/-! ## segments -/

theorem cutColon_none_iff (s : Bytes) : cutColon s = none ↔ cColon ∉ s := by
  induction s with
  | nil => simp [cutColon]
  | cons c rest ih =>
    unfold cutColon
    by_cases hc : c = cColon
    · simp [hc]
    · have hc' : ¬ cColon = c := fun e => hc e.symm
      cases h : cutColon rest with
      | none => simp [hc, hc', ih.1 h]
      | some p =>
        have : ¬ cColon ∉ rest := fun hn => by rw [ih.2 hn] at h; cases h
        simp [hc, this]

/-- `strings.Index` and `strings.Cut` find the same colon -/
theorem indexColon_of_cut (s : Bytes) :
    match cutColon s with
    | none => indexColon s = none
    | some (g, a) => indexColon s = some g.length ∧ s = g ++ cColon :: a := by
  induction s with
  | nil => simp [cutColon, indexColon]
  | cons c rest ih =>
    unfold cutColon indexColon
    by_cases hc : c = cColon
    · simp [hc]
    · cases h : cutColon rest with
      | none => simp only [h] at ih; simp [hc, ih]
      | some p =>
        obtain ⟨g, a⟩ := p
        simp only [h] at ih
        simp [hc, ih.1]
        exact ih.2

/-- the slices around the first colon are within bounds and are the two parts -/
theorem slice_ok (g a : Bytes) : sliceAround (g ++ cColon :: a) g.length = some (g, a) := by
  simp [sliceAround]

theorem parse_step (sg : Bytes) (g a : Bytes) (rest : List Bytes) (h : cutColon sg = some (g, a)) :
    parseExclusions (sg :: rest) =
      match parseExclusions rest with
      | .ok l => .ok (⟨g, a⟩ :: l)
      | .err => .err
      | .panic => .panic := by
  have hi := indexColon_of_cut sg
  simp only [h] at hi
  obtain ⟨hi1, hi2⟩ := hi
  have hne : sg.isEmpty = false := by rw [hi2]; simp
  rw [parseExclusions]
  simp only [hne, Bool.false_eq_true, if_false, hi1]
  have : sliceAround sg g.length = some (g, a) := by
    conv => lhs; rw [hi2]
    exact slice_ok g a
  simp only [this]
  cases parseExclusions rest <;> rfl

theorem parse_step_bad (sg : Bytes) (rest : List Bytes) (hne : sg ≠ []) (h : cutColon sg = none) :
    parseExclusions (sg :: rest) = .err := by
  have hi := indexColon_of_cut sg
  simp only [h] at hi
  have : sg.isEmpty = false := by simpa using hne
  rw [parseExclusions]
  simp [this, hi]

theorem parse_step_empty (rest : List Bytes) : parseExclusions ([] :: rest) = parseExclusions rest := by
  rw [parseExclusions]; simp

theorem parseExclusions_map (l : List Exclusion) : parseExclusions (l.map seg) = .ok (l.map viewExcl) := by
  induction l with
  | nil => rfl
  | cons e rest ih =>
    obtain ⟨g', a', h⟩ := cutColon_apiName e.g e.a
    simp only [List.map_cons]
    rw [parse_step (seg e) g' a' _ h, ih]
    simp [viewExcl, h]

/-- the exclusions loop never slices out of range -/
theorem parseExclusions_no_panic (l : List Bytes) : parseExclusions l ≠ .panic := by
  induction l with
  | nil => simp [parseExclusions]
  | cons sg rest ih =>
    by_cases hne : sg = []
    · subst hne; rw [parse_step_empty]; exact ih
    · cases h : cutColon sg with
      | none => rw [parse_step_bad sg rest hne h]; simp
      | some p =>
        obtain ⟨g, a⟩ := p
        rw [parse_step sg g a rest h]
        cases hr : parseExclusions rest with
        | ok l => simp
        | err => simp
        | panic => exact absurd hr ih

/-- it returns the error exactly when some non-empty segment has no colon -/
theorem parseExclusions_err_iff (l : List Bytes) : parseExclusions l = .err ↔ ∃ s ∈ l, s ≠ [] ∧ cColon ∉ s := by
  induction l with
  | nil => simp [parseExclusions]
  | cons sg rest ih =>
    by_cases hne : sg = []
    · subst hne; rw [parse_step_empty, ih]; simp
    · cases h : cutColon sg with
      | none =>
        rw [parse_step_bad sg rest hne h]
        simp only [true_iff]
        exact ⟨sg, by simp, hne, (cutColon_none_iff sg).1 h⟩
      | some p =>
        obtain ⟨g, a⟩ := p
        have hc : ¬ cColon ∉ sg := fun hn => by rw [(cutColon_none_iff sg).2 hn] at h; cases h
        rw [parse_step sg g a rest h]
        simp only [List.mem_cons, exists_eq_or_imp, hc, and_false, false_or]
        rw [← ih]
        cases parseExclusions rest <;> simp

/-! ## the round trip -/

/-- what `MavenDepTypeToDependency` gives back of a dependency: no coordinates, the defaults
(`jar`, `compile`, not optional) as empty strings, the exclusions without a pipe (those with one
are dropped by `ExclusionsString`), each split at its first colon -/
def normalise (d : Dep) : Dep :=
  { g := [], a := [], v := []
    typ := if !d.typ.isEmpty && d.typ != bJar then d.typ else []
    cls := d.cls
    scope := if d.scope == bTest then bTest else if !d.scope.isEmpty && d.scope != bCompile then d.scope else []
    opt := if d.opt == bTrue then bTrue else []
    excl := (kept d.excl).map viewExcl }

theorem exclusions_back (ex : List Exclusion) :
    parseExclusions (splitPipe (exclusionsString ex)) = .ok ((kept ex).map viewExcl) := by
  unfold exclusionsString
  rw [exclusionsLoop_true]
  by_cases h : kept ex = []
  · rw [h]; simp [joinSegs, splitPipe, parse_step_empty, parseExclusions]
  · rw [splitPipe_joinSegs _ (by simpa using h) (kept_noPipe ex), parseExclusions_map]

theorem scope_back (d : Dep) (origin : Bytes) : backScope (mavenDepType d origin) = some (normalise d).scope := by
  unfold backScope mavenDepType normalise
  by_cases h1 : (d.scope == bTest) = true
  · simp [h1]
  · by_cases h2 : (!d.scope.isEmpty && d.scope != bCompile) = true
    · simp [h1, h2]
    · simp [h1, h2]

theorem typ_back (d : Dep) (origin : Bytes) : orEmpty (mavenDepType d origin).typ = (normalise d).typ := by
  unfold mavenDepType normalise
  by_cases h1 : (!d.typ.isEmpty && d.typ != bJar) = true <;> simp [h1, orEmpty]

theorem cls_back (d : Dep) (origin : Bytes) : orEmpty (mavenDepType d origin).cls = d.cls := by
  unfold mavenDepType
  cases h : d.cls <;> simp [orEmpty]

theorem origin_back (d : Dep) (origin : Bytes) : orEmpty (mavenDepType d origin).origin = origin := by
  unfold mavenDepType
  cases origin <;> simp [orEmpty]

/-- **Round trip**, for every dependency and every origin. -/
theorem depType_roundtrip (d : Dep) (origin : Bytes) :
    mavenDepTypeToDependency (mavenDepType d origin) = .ok (normalise d, origin) := by
  have hex : backExclusions (mavenDepType d origin) = .ok ((kept d.excl).map viewExcl) := by
    unfold backExclusions mavenDepType
    by_cases h : d.excl = []
    · simp [h, kept]
    · have : d.excl.isEmpty = false := by simpa using h
      simp only [this, Bool.not_false, if_true]
      exact exclusions_back d.excl
  unfold mavenDepTypeToDependency
  simp only [scope_back, hex, typ_back, cls_back, origin_back]
  simp [normalise, mavenDepType]

/-- **`MavenDepTypeToDependency` never panics**, for every Maven dep.Type. -/
theorem typeToDependency_no_panic (t : DType) : mavenDepTypeToDependency t ≠ .panic := by
  have hex : backExclusions t ≠ .panic := by
    unfold backExclusions
    cases t.excl with
    | none => simp
    | some e => exact parseExclusions_no_panic _
  unfold mavenDepTypeToDependency
  cases backScope t with
  | none => simp
  | some sc =>
    cases hb : backExclusions t with
    | panic => exact absurd hb hex
    | err => simp
    | ok ex => simp

/-- It returns the error exactly for Test together with Scope, or an exclusions attribute with a non-empty
segment that has no colon. -/
theorem typeToDependency_err_iff (t : DType) :
    mavenDepTypeToDependency t = .err ↔
      (t.test = true ∧ t.scope ≠ none) ∨ ∃ e, t.excl = some e ∧ ∃ s ∈ splitPipe e, s ≠ [] ∧ cColon ∉ s := by
  have hsc : backScope t = none ↔ (t.test = true ∧ t.scope ≠ none) := by
    unfold backScope
    cases t.scope with
    | none => simp
    | some s => cases t.test <;> simp [bTest]
  have hex : backExclusions t = .err ↔ ∃ e, t.excl = some e ∧ ∃ s ∈ splitPipe e, s ≠ [] ∧ cColon ∉ s := by
    unfold backExclusions
    cases t.excl with
    | none => simp
    | some e => simp [parseExclusions_err_iff]
  unfold mavenDepTypeToDependency
  cases hb : backScope t with
  | none => simp [hsc.1 hb]
  | some sc =>
    have hn : ¬ (t.test = true ∧ t.scope ≠ none) := fun h => by rw [hsc.2 h] at hb; cases hb
    simp only [hn, false_or, ← hex]
    cases backExclusions t <;> simp

end DepsDev.Proofs.C15ApiType
