import DepsDev.Proofs.C03L3InclLt

/-!
# C03 layer L3 for npm, operator `lt`: interval membership, operands with a prerelease tag; `L1PNpm .lt`
-/
namespace DepsDev.Proofs.C03

open DepsDev DepsDev.Semver DepsDev.Ref

set_option linter.unusedSimpArgs false
set_option linter.unusedVariables false

theorem l1p_pre_lt_lt : L1PPreO .lt .lt := by l1p_pre
theorem l1p_pre_eq_lt : L1PPreO .lt .eq := by l1p_pre
theorem l1p_pre_gt_lt : L1PPreO .lt .gt := by l1p_pre

theorem l1p_npm_lt : L1PNpm .lt :=
  l1p_assemble _ l1p_full_lt (l1p_pre_assemble _ l1p_pre_lt_lt l1p_pre_eq_lt l1p_pre_gt_lt) l1p_part_lt

end DepsDev.Proofs.C03
