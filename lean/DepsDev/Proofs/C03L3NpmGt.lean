import DepsDev.Proofs.C03L3Npm

/-!
# C03 layer L3 for npm, operator `gt`: one comparator, prerelease candidates (operands without tag)

See `C03L3Npm` for the statements and the proof script; `C03L3NpmGtP` has the tagged operands
and the assembled `L3Npm .gt`.
-/
namespace DepsDev.Proofs.C03

open DepsDev DepsDev.Semver DepsDev.Ref

set_option linter.unusedSimpArgs false
set_option linter.unusedVariables false

theorem l3_full_gt : L3Full .gt := by l3_full
theorem l3_part_gt : L3Part .gt := by l3_part

end DepsDev.Proofs.C03
