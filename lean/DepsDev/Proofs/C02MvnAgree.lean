import DepsDev.Proofs.C02MvnItems

/-!
# C02 — Maven, part 6: the hypotheses on the syntax tree give good element lists; the first element
-/
namespace DepsDev.Proofs.C02Mvn
open Std DepsDev DepsDev.Semver DepsDev.Ref DepsDev.Proofs DepsDev.Proofs.C02
open DepsDev.Ref.MavenCV (Item Sep Tok Ast wAlpha wBeta wMilestone wRc wCr wSnapshot wSp wGa wFinal wRelease)
open DepsDev.Gen.SemverTables (versionNumeric versionQualifier versionEOF versionSeparator mavenEmptyQualifier mavenQualifierOrder)

/-- (C01's `ZeroDotQual` on the syntax tree) the last number is `0` and a qualifier other than
`ga`/`final`/`release` is attached to it with a dot: `4.1.0.Beta1`, `2.0.alpha`, `0.alpha`. -/
def Maven.zeroDotQual (a : Ast) : Bool :=
  a.nums.getLast? == some 0 && (match a.qual with | some (.dot, q) => !Maven.releaseQual q | _ => false)

/-! ## good tails -/

/-- A good element that is not a zero number. -/
def nzGood (e : MavenElem) : Bool := elemGood e && !(isNumE e && e.int == 0)

theorem goodT_of_nz {l : List MavenElem} (h : ∀ e ∈ l, nzGood e = true) : goodT l = true := by
  induction l with
  | nil => rfl
  | cons e t ih =>
    have he := h e (by simp)
    simp only [nzGood, Bool.and_eq_true, Bool.not_eq_true'] at he
    simp [goodT, he.1, he.2, ih (fun x hx => h x (by simp [hx]))]

theorem numGood_numE (sep : UInt8) (n : Nat) : numGood (numE sep n) = true := by
  have h : (0 : Int) ≤ (numE sep n).int := by simp [numE]
  simp [numGood, isNumE_numE, h]

theorem elemGood_numE (n : Nat) : elemGood (numE 46 n) = true := by
  have : sepOK (numE 46 n) = true := by simp [sepOK, numE]
  simp [elemGood, this, numGood_numE]

theorem posT_nums (l : List Nat) (rest : List MavenElem) (h : l.any (· != 0) = true) :
    posT (l.map (numE 46) ++ rest) = true := by
  induction l with
  | nil => simp at h
  | cons x xs ih =>
    simp only [List.map_cons, List.cons_append, posT, numGood_numE, Bool.true_and, Bool.or_eq_true, decide_eq_true_eq]
    by_cases hx : x = 0
    · right; apply ih; simpa [hx] using h
    · left; simp [numE]; omega

theorem any_of_getLast {l : List Nat} (hne : l ≠ []) (h : l.getLast? ≠ some 0) : l.any (· != 0) = true := by
  induction l with
  | nil => exact absurd rfl hne
  | cons x xs ih =>
    cases xs with
    | nil => simpa using h
    | cons y ys =>
      have := ih (by simp) (by simpa [List.getLast?_cons_cons] using h)
      simp only [List.any_cons, Bool.or_eq_true] at this ⊢
      right; exact this

theorem goodT_nums (l : List Nat) (rest : List MavenElem) (hl : l.getLast? ≠ some 0) (hr : goodT rest = true) :
    goodT (l.map (numE 46) ++ rest) = true := by
  induction l with
  | nil => simpa using hr
  | cons x xs ih =>
    have hxs : xs ≠ [] → xs.getLast? ≠ some 0 := by
      intro hne; cases xs with
      | nil => exact absurd rfl hne
      | cons y ys => simpa [List.getLast?_cons_cons] using hl
    have ih' : goodT (xs.map (numE 46) ++ rest) = true := by
      cases xs with
      | nil => simpa using hr
      | cons y ys => exact ih (hxs (by simp))
    simp only [List.map_cons, List.cons_append, goodT, elemGood_numE, ih', Bool.and_self, Bool.true_and,
      Bool.or_eq_true, Bool.not_eq_true', Bool.and_eq_false_iff]
    by_cases hx : x = 0
    · right
      have hne : xs ≠ [] := by
        intro e; subst e; subst hx; simp at hl
      exact posT_nums xs rest (any_of_getLast hne (hxs hne))
    · left; right; simp [numE]; omega

theorem dropZ_getLast (ns : List Nat) : (dropZ ns).getLast? ≠ some 0 := by
  unfold dropZ
  rw [List.getLast?_reverse]
  generalize ns.reverse = rs
  induction rs with
  | nil => simp
  | cons r rs ih =>
    by_cases h : r = 0 <;> simp [h, ih]


/-! ## the surviving tail -/

theorem nondashy_eff {a : Ast} (hv : a.valid = true) (hd : dashy (effTail a) = false) :
    ∃ q, a.qual = some (.dot, q) ∧ Maven.releaseQual q = false := by
  obtain ⟨nums, qual, qnum, snap⟩ := a
  rcases qual with _ | ⟨s, q⟩
  · have : qnum = none := by
      cases qnum with
      | none => rfl
      | some x => simp [Ast.valid] at hv
    subst this
    cases snap <;> simp [effTail, dashy, snapshotElem_eq] at hd
  · obtain ⟨hw, hq⟩ := valid_word (a := ⟨nums, some (s, q), qnum, snap⟩) rfl hv
    by_cases hr : Maven.releaseQual q = true
    · have : qnum = none := by
        rcases hq with h | h
        · cases qnum with
          | none => rfl
          | some x => simp at h
        · rw [hr] at h; cases h
      subst this
      cases snap <;> simp [effTail, dashy, snapshotElem_eq, hr] at hd
    · have hr' : Maven.releaseQual q = false := by simpa using hr
      cases s
      · exact ⟨q, rfl, hr'⟩
      all_goals simp [effTail, dashy, hr', sepByte] at hd

theorem known_order {a : Ast} {s : Sep} {q : Bytes} (hq : a.qual = some (s, q)) (hk : Maven.knownQual a = true)
    (hr : Maven.releaseQual q = false) : mavenOrder (aliasW q (followedByDigit a)) < -2 := by
  simp only [Maven.knownQual, hq, Bool.or_eq_true, Bool.and_eq_true, beq_iff_eq, List.contains_cons,
    List.contains_nil, Bool.or_false] at hk
  rcases hk with ⟨(h | h) | h, hfd⟩ | h | h | h | h | h | h | h | h | h
  iterate 3 (have hfd' : followedByDigit a = true := hfd; rw [hfd']; subst h; decide)
  iterate 6 (subst h; cases followedByDigit a <;> decide)
  iterate 3 (subst h; exact absurd hr (by decide))

theorem effTail_nz {a : Ast} (hv : a.valid = true) (hd : Maven.dotUnknown a = false) :
    ∀ e ∈ effTail a, nzGood e = true := by
  intro e he
  simp only [effTail, List.mem_append] at he
  rcases he with (he | he) | he
  · -- the qualifier
    rcases hqual : a.qual with _ | ⟨s, q⟩
    · simp [hqual] at he
    · obtain ⟨hw, _⟩ := valid_word hqual hv
      simp only [hqual] at he
      by_cases hr : Maven.releaseQual q = true
      · simp [hr] at he
      · have hr' : Maven.releaseQual q = false := by simpa using hr
        simp only [hr', Bool.false_eq_true, ↓reduceIte, List.mem_singleton] at he
        subst he
        have hq := isQualE_word (sepByte s) (wordOK_alias hw (followedByDigit a))
        have hnn := not_num_of_qual hq
        have hemp := isEmpty_alias hw (followedByDigit a)
        rw [hr'] at hemp
        simp only [isEmptyMavenElem, Bool.or_eq_false_iff, beq_eq_false_iff_ne, mavenEmptyQualifier] at hemp
        have hsep : sepOK ⟨sepByte s, aliasW q (followedByDigit a), 0⟩ = true := by cases s <;> simp [sepOK, sepByte]
        have hdot : (sepByte s != 46 || decide (mavenOrder (aliasW q (followedByDigit a)) < -2)) = true := by
          cases s
          · have hk : Maven.knownQual a = true := by
              simpa [Maven.dotUnknown, hqual] using hd
            simp [known_order hqual hk hr']
          · simp [sepByte]
          · simp [sepByte]
        simp [nzGood, elemGood, qualGood, hq, hnn, hsep, hemp.2, hdot]
  · -- the number
    rcases hqn : a.qnum with _ | ⟨s, n⟩
    · simp [hqn] at he
    · simp only [hqn] at he
      by_cases h0 : n = 0
      · simp [h0] at he
      · simp only [h0, ↓reduceIte, List.mem_singleton] at he
        subst he
        have hsep : sepOK (numE (sepByte s) n) = true := by cases s <;> simp [sepOK, sepByte, numE]
        have hi : (numE (sepByte s) n).int ≠ 0 := by simp [numE]; omega
        simp [nzGood, elemGood, hsep, numGood_numE, hi]
  · cases hs : a.snapshot
    · simp [hs] at he
    · simp only [hs, ↓reduceIte, List.mem_singleton] at he
      subst he; decide

theorem tail_good {a : Ast} {n0 : Nat} {ns : List Nat} (hn : a.nums = n0 :: ns) (hv : a.valid = true)
    (hd : Maven.dotUnknown a = false) (hz : Maven.zeroDotQual a = false) : goodT (tailElems ns a) = true := by
  unfold tailElems
  apply goodT_nums _ _ _ (goodT_of_nz (effTail_nz hv hd))
  by_cases hda : dashy (effTail a) = true
  · simp only [hda, ↓reduceIte]; exact dropZ_getLast ns
  · have hda' : dashy (effTail a) = false := by simpa using hda
    obtain ⟨q, hq, hr⟩ := nondashy_eff hv hda'
    simp only [hda', Bool.false_eq_true, ↓reduceIte]
    simp only [Maven.zeroDotQual, hn, hq, hr, Bool.not_false, Bool.and_true, beq_eq_false_iff_ne, ne_eq] at hz
    cases ns with
    | nil => simp
    | cons y ys => simpa [List.getLast?_cons_cons] using hz

/-- When the first number is `0` and the next element is attached with a dot, it is a number. -/
theorem head_num {a : Ast} {n0 : Nat} {ns : List Nat} (hn : a.nums = n0 :: ns) (hv : a.valid = true)
    (hz : Maven.zeroDotQual a = false) (h0 : n0 = 0) (hd : dashy (tailElems ns a) = false) :
    ∃ y r, tailElems ns a = y :: r ∧ isNumE y = true ∧ y.sep = 46 := by
  unfold tailElems at hd ⊢
  rw [dashy_nums] at hd
  rcases hL : (if dashy (effTail a) = true then dropZ ns else ns) with _ | ⟨x, xs⟩
  · rw [hL] at hd
    have hda : dashy (effTail a) = false := by simpa using hd
    obtain ⟨q, hq, hr⟩ := nondashy_eff hv hda
    simp only [hda, Bool.false_eq_true, ↓reduceIte] at hL
    subst hL; subst h0
    simp [Maven.zeroDotQual, hn, hq, hr] at hz
  · exact ⟨numE 46 x, xs.map (numE 46) ++ effTail a, by simp, isNumE_numE 46 x, rfl⟩


/-! ## the first element -/

theorem dashy_tree {G : List MavenElem} (h : dashy G = true) :
    G = [] ∨ ∃ l, treeOf G = [.list l] := by
  cases G with
  | nil => exact .inl rfl
  | cons y r =>
    right
    have : (y.sep == 45) = true := h
    exact ⟨atom y :: treeOf r, by simp [treeOf_cons, this]⟩

theorem compare_cast (n m : Nat) : compare (n : Int) (m : Int) = compare n m := by
  rcases Nat.lt_trichotomy n m with h | h | h
  · rw [Nat.compare_eq_lt.mpr h, Int.compare_eq_lt.mpr (by omega)]
  · subst h; simp
  · rw [Nat.compare_eq_gt.mpr h, Int.compare_eq_gt.mpr (by omega)]

theorem mavenLex_first (n m : Nat) (Ga Gb : List MavenElem) :
    mavenLex (numE 0 n :: Ga) (numE 0 m :: Gb) = (compare n m).then (mavenLex Ga Gb) := by
  rw [mavenLex_cons_cons, mkey_num (isNumE_numE 0 n), mkey_num (isNumE_numE 0 m), MK.cmp_def]
  simp only [numE, compare_cast]
  cases compare n m <;> simp [List.compareLex_nil_nil]

/-- The leading element against a version whose leading zero `normalize` removed. -/
theorem lead_left {Ga Gb : List MavenElem} (m : Nat) (ha : dashy Ga = true)
    (hb : ¬ (m = 0 ∧ dashy Gb = true))
    (fb : m = 0 → dashy Gb = false → ∃ y r, Gb = y :: r ∧ isNumE y = true ∧ y.sep = 46) :
    MavenCV.cmpList (treeOf Ga) (.int m :: treeOf Gb) =
      (compare 0 m).then (MavenCV.cmpList (treeOf Ga) (treeOf Gb)) := by
  by_cases hm : m = 0
  · subst hm
    have hdb : dashy Gb = false := by simpa using hb
    obtain ⟨y, r, hG, hy, hs⟩ := fb rfl hdb
    rw [show compare 0 0 = Ordering.eq from rfl, Ordering.eq_then]
    rcases dashy_tree ha with e | ⟨l, e⟩
    · subst e
      simp [treeOf_nil, MavenCV.cmpList, MavenCV.cmpNullList, MavenCV.cmpNull]
    · have h46 : (y.sep == 45) = false := by rw [hs]; decide
      rw [e, hG, treeOf_cons, atom_num hy]
      simp [h46, MavenCV.cmpList, MavenCV.cmp]
  · have : compare 0 m = .lt := Nat.compare_eq_lt.mpr (by omega)
    rw [this]
    rcases dashy_tree ha with e | ⟨l, e⟩
    · subst e
      simp [treeOf_nil, MavenCV.cmpList, MavenCV.cmpNullList, MavenCV.cmpNull, hm]
    · rw [e]
      simp [MavenCV.cmpList, MavenCV.cmp]

theorem lead_right {Ga Gb : List MavenElem} (n : Nat) (hb : dashy Gb = true)
    (ha : ¬ (n = 0 ∧ dashy Ga = true))
    (fa : n = 0 → dashy Ga = false → ∃ y r, Ga = y :: r ∧ isNumE y = true ∧ y.sep = 46) :
    MavenCV.cmpList (.int n :: treeOf Ga) (treeOf Gb) =
      (compare n 0).then (MavenCV.cmpList (treeOf Ga) (treeOf Gb)) := by
  by_cases hn : n = 0
  · subst hn
    have hda : dashy Ga = false := by simpa using ha
    obtain ⟨y, r, hG, hy, hs⟩ := fa rfl hda
    rw [show compare 0 0 = Ordering.eq from rfl, Ordering.eq_then]
    rcases dashy_tree hb with e | ⟨l, e⟩
    · subst e
      simp [treeOf_nil, MavenCV.cmpNullList, MavenCV.cmpNull, cmpList_nil_right]
    · have h46 : (y.sep == 45) = false := by rw [hs]; decide
      rw [e, hG, treeOf_cons, atom_num hy]
      simp [h46, MavenCV.cmpList, MavenCV.cmp]
  · have : compare n 0 = .gt := Nat.compare_eq_gt.mpr (by omega)
    rw [this]
    rcases dashy_tree hb with e | ⟨l, e⟩
    · subst e
      simp [treeOf_nil, MavenCV.cmpList, MavenCV.cmpNull, hn]
    · rw [e]
      simp [MavenCV.cmpList, MavenCV.cmp]


/-! ## good tails are in C01's lawful domain -/

theorem posTail_of_posT {t : List MavenElem} (h : posT t = true) : posTail t = true := by
  induction t with
  | nil => simp [posT] at h
  | cons e t ih =>
    simp only [posT, numGood, Bool.and_eq_true, Bool.or_eq_true, decide_eq_true_eq] at h
    obtain ⟨⟨ne, _⟩, hp⟩ := h
    unfold posTail
    by_cases hp46 : e = pad46
    · subst hp46
      rcases hp with hp | hp
      · exact absurd hp (by decide)
      · simp [ih hp]
    · have : (e == pad46) = false := by simpa using hp46
      simp [this, vsNone_of_num ne]

theorem vsNone_ne_eq {e : MavenElem} (he : elemGood e = true) : vsNone e ≠ .eq := by
  obtain ⟨_, he⟩ := elemGood_cases he
  rcases he with ⟨ne, _⟩ | qe
  · rw [vsNone_of_num ne]; simp
  · intro h
    have hemp := isEmpty_of_vsNone_eq h
    simp only [qualGood, Bool.and_eq_true, bne_iff_ne, ne_eq] at qe
    obtain ⟨⟨hq, hnr⟩, _⟩ := qe
    simp only [isEmptyMavenElem, Bool.or_eq_true, beq_iff_eq, mavenEmptyQualifier] at hemp
    rcases hemp with h48 | h2
    · have := (isQualE_mcat hq).1
      rw [show e = ⟨e.sep, e.str, e.int⟩ from rfl, h48, mcat_digit e.sep 48 [] e.int (by decide)] at this
      exact absurd this (by decide)
    · exact hnr h2

theorem elemOK_of_good {e : MavenElem} (he : elemGood e = true) : elemOK e = true := by
  obtain ⟨_, he⟩ := elemGood_cases he
  rcases he with ⟨ne, _⟩ | qe
  · exact elemOK_of_num ne
  · simp only [qualGood, Bool.and_eq_true] at qe
    exact elemOK_of_qual qe.1.1

theorem tailOK_of_goodT {t : List MavenElem} (h : goodT t = true) : tailOK t = true := by
  induction t with
  | nil => rfl
  | cons e t ih =>
    obtain ⟨he, ht, hz⟩ := goodT_cons h
    have hs : sepOK e = true := by
      simp only [elemGood, Bool.and_eq_true] at he; exact he.1
    simp only [tailOK, elemOK_of_good he, hs, ih ht, Bool.and_self, Bool.true_and]
    by_cases hp : e = pad46
    · subst hp
      simp [posTail_of_posT (hz ⟨by decide, rfl⟩)]
    · have h1 : (e == pad46) = false := by simpa using hp
      have h2 : (vsNone e == .eq) = false := by simpa using vsNone_ne_eq he
      simp [h1, h2]

theorem mavenGood_of_goodT (n : Nat) {t : List MavenElem} (h : goodT t = true) : MavenGood (numE 0 n :: t) = true := by
  have h0 : ((numE 0 n).sep == 0) = true := rfl
  simp only [MavenGood, h0, elemOK_of_num (isNumE_numE 0 n), tailOK_of_goodT h, Bool.and_self]

/-! ## assembly -/

/-- The domain of the agreement theorem on syntax trees (`Ast.valid` is DESIGN 6.4). -/
structure GoodAst (a : Ast) : Prop where
  valid : a.valid = true
  noFinalSnapshot : Maven.finalSnapshot a = false
  noZeroSnapshot : Maven.zeroSnapshot a = false
  noDotUnknown : Maven.dotUnknown a = false
  noZeroDotQual : Maven.zeroDotQual a = false

theorem nums_cons {a : Ast} (hv : a.valid = true) : ∃ n ns, a.nums = n :: ns := by
  cases h : a.nums with
  | nil => simp [Ast.valid, h] at hv
  | cons n ns => exact ⟨n, ns, rfl⟩

/-- The elements of the library's version. -/
def elemsOf (a : Ast) : List MavenElem :=
  mavenTrim (mavenRawFrom 0 (MavenCV.tokens a).1 (MavenCV.tokens a).2)

theorem embedMaven_ext (a : Ast) : (embedMaven a).ext = .maven (elemsOf a) ∧ (embedMaven a).sys = .maven := ⟨rfl, rfl⟩

/-- **Reference side**, tree form: the first numbers, then ComparableVersion's list comparison of the
item lists of the two element tails. -/
theorem ref_compare_tree {a b : Ast} {n m : Nat} {ns ms : List Nat} (hna : a.nums = n :: ns) (hnb : b.nums = m :: ms)
    (va : a.valid = true) (vb : b.valid = true)
    (fsa : Maven.finalSnapshot a = false) (fsb : Maven.finalSnapshot b = false)
    (zsa : Maven.zeroSnapshot a = false) (zsb : Maven.zeroSnapshot b = false)
    (fa : n = 0 → dashy (tailElems ns a) = false → ∃ y r, tailElems ns a = y :: r ∧ isNumE y = true ∧ y.sep = 46)
    (fb : m = 0 → dashy (tailElems ms b) = false → ∃ y r, tailElems ms b = y :: r ∧ isNumE y = true ∧ y.sep = 46) :
    MavenCV.compare a b =
      (compare n m).then (MavenCV.cmpList (treeOf (tailElems ns a)) (treeOf (tailElems ms b))) := by
  unfold MavenCV.compare
  rw [items_eq a n ns hna va fsa zsa, items_eq b m ms hnb vb fsb zsb]
  simp only [MavenCV.cmp, refItems]
  by_cases la : n = 0 ∧ dashy (tailElems ns a) = true <;> by_cases lb : m = 0 ∧ dashy (tailElems ms b) = true
  · simp only [la, lb, and_self, ↓reduceIte]
    rfl
  · simp only [la, lb, and_self, ↓reduceIte]
    rw [lead_left m la.2 lb fb]
  · simp only [la, lb, and_self, ↓reduceIte]
    rw [lead_right n lb.2 la fa]
  · simp only [la, lb, ↓reduceIte, MavenCV.cmpList, MavenCV.cmp]

/-- **Reference side**: ComparableVersion's comparison is the key order on the library's elements. -/
theorem ref_compare {a b : Ast} (ha : GoodAst a) (hb : GoodAst b) :
    MavenCV.compare a b = mavenLex (elemsOf a) (elemsOf b) := by
  obtain ⟨n, ns, hna⟩ := nums_cons ha.valid
  obtain ⟨m, ms, hnb⟩ := nums_cons hb.valid
  have ga := tail_good hna ha.valid ha.noDotUnknown ha.noZeroDotQual
  have gb := tail_good hnb hb.valid hb.noDotUnknown hb.noZeroDotQual
  have fa := head_num hna ha.valid ha.noZeroDotQual
  have fb := head_num hnb hb.valid hb.noZeroDotQual
  rw [ref_compare_tree hna hnb ha.valid hb.valid ha.noFinalSnapshot hb.noFinalSnapshot ha.noZeroSnapshot
    hb.noZeroSnapshot fa fb, cmpList_treeOf ga gb]
  unfold elemsOf
  rw [embed_elems a n ns hna ha.valid, embed_elems b m ms hnb hb.valid, mavenLex_first]

theorem elems_good {a : Ast} (ha : GoodAst a) : MavenGood (elemsOf a) = true := by
  obtain ⟨n, ns, hna⟩ := nums_cons ha.valid
  unfold elemsOf
  rw [embed_elems a n ns hna ha.valid]
  exact mavenGood_of_goodT n (tail_good hna ha.valid ha.noDotUnknown ha.noZeroDotQual)

/-- **Maven**: the library's comparison of two versions of the domain has the sign of
ComparableVersion's. -/
theorem maven_agree {a b : Ast} (ha : GoodAst a) (hb : GoodAst b) :
    vcompare (embedMaven a) (embedMaven b) = .ok (ordToInt (MavenCV.compare a b)) := by
  have h : vcompare (embedMaven a) (embedMaven b) = mavenCompare (elemsOf a) (elemsOf b) := by
    unfold vcompare
    simp [(embedMaven_ext a).1, (embedMaven_ext b).1, (embedMaven_ext a).2, (embedMaven_ext b).2]
  rw [h, mavenCompare_eq (elems_good ha) (elems_good hb), ref_compare ha hb]

end DepsDev.Proofs.C02Mvn
