import DepsDev.Model.Pypi.Name
import DepsDev.Ref.Pep508

/-! Helper lemmas for C16: `CanonPackageName` vs packaging's normalisation. -/

namespace DepsDev.Proofs.C16Name
open DepsDev DepsDev.Pypi DepsDev.Ref.Pep508

/-- The normal-form predicate: over `[a-z0-9-]`, no `--`, and (if `run`) no leading `-`. -/
def good : Bool → Bytes → Bool
  | _, [] => true
  | run, c :: cs =>
    if isLower c || isDigit c then good false cs
    else if c.toNat == 45 then !run && good true cs
    else false

theorem byte_eq_of_toNat {c : UInt8} {n : Nat} (hn : n < 256) (h : c.toNat = n) : c = UInt8.ofNat n := by
  apply UInt8.toNat_inj.mp
  simp [h, Nat.mod_eq_of_lt hn]

/-- `canonLoop` is the identity on normal forms. -/
theorem canonLoop_of_good : ∀ (run : Bool) (s : Bytes), good run s = true → canonLoop run s = s
  | _, [], _ => rfl
  | run, c :: cs, h => by
    unfold good at h
    unfold canonLoop
    by_cases h1 : (isLower c || isDigit c) = true
    · simp only [h1, if_true] at h ⊢
      rw [canonLoop_of_good false cs h]
    · simp only [h1, if_false, Bool.false_eq_true] at h ⊢
      by_cases h2 : (c.toNat == 45) = true
      · simp only [h2, if_true, Bool.and_eq_true, Bool.not_eq_true'] at h
        have hu : isUpper c = false := by
          simp [isUpper] at *; omega
        have hs : isSep c = true := by simp [isSep] at *; omega
        have hc : c = 45 := byte_eq_of_toNat (by decide) (by simpa using h2)
        simp only [hu, hs, h.1, if_true, Bool.false_eq_true, if_false]
        rw [canonLoop_of_good true cs h.2, hc]
      · simp [h2] at h

/-- On names over `[A-Za-z0-9._-]` the output of `canonLoop` is a normal form. -/
theorem good_canonLoop : ∀ (run : Bool) (n : Bytes), n.all isNameByte = true → good run (canonLoop run n) = true
  | _, [], _ => rfl
  | run, c :: cs, h => by
    simp only [List.all_cons, Bool.and_eq_true] at h
    have ih := fun r => good_canonLoop r cs h.2
    unfold canonLoop
    by_cases h1 : (isLower c || isDigit c) = true
    · simp only [h1, if_true]
      unfold good
      simp only [h1, if_true, ih]
    · simp only [h1, if_false, Bool.false_eq_true]
      by_cases h2 : isUpper c = true
      · simp only [h2, if_true]
        unfold good
        have : (isLower (c + 32) || isDigit (c + 32)) = true := by
          simp [isUpper, isLower, isDigit, UInt8.toNat_add] at *; omega
        simp only [this, if_true, ih]
      · simp only [h2, if_false, Bool.false_eq_true]
        have hs : isSep c = true := by
          have := h.1
          simp [isNameByte, isAlnumByte, isSepByte, isSep, isUpper, isLower, isDigit] at *
          omega
        simp only [hs, if_true]
        cases run
        · simp only [Bool.false_eq_true, if_false]
          unfold good
          have e1 : (isLower (45 : UInt8) || isDigit (45 : UInt8)) = false := by decide
          simp [e1, ih]
        · simp only [if_true]; exact ih true

theorem canon_idempotent_of_name (n : Bytes) (h : n.all isNameByte = true) :
    canonPackageName (canonPackageName n) = canonPackageName n :=
  canonLoop_of_good false _ (good_canonLoop false n h)

/-- Byte-level bridge between the model's classes and the spec's. -/
theorem lowerByte_of_lowerOrDigit {c : UInt8} (h : (isLower c || isDigit c) = true) : lowerByte c = c := by
  simp [lowerByte, isLower, isDigit] at *; omega

theorem lowerByte_of_upper {c : UInt8} (h : isUpper c = true) : lowerByte c = c + 32 := by
  simp [lowerByte, isUpper] at *; omega

theorem isSep_eq (c : UInt8) : isSep c = isSepByte c := rfl

theorem dropWhile_sep_cons_of_not {c : UInt8} {cs : Bytes} (h : isSepByte c = false) :
    (c :: cs).dropWhile isSepByte = c :: cs := by simp [List.dropWhile, h]

/-- The loop computes packaging's normalisation; with `run` set, of the input after its
leading separator run. -/
theorem canonLoop_eq_normalize : ∀ n : Bytes, n.all isNameByte = true →
    canonLoop false n = normalize n ∧ canonLoop true n = normalize (n.dropWhile isSepByte)
  | [], _ => by simp [canonLoop, normalize, collapseRuns]
  | c :: cs, h => by
    simp only [List.all_cons, Bool.and_eq_true] at h
    obtain ⟨ih1, ih2⟩ := canonLoop_eq_normalize cs h.2
    by_cases hs : isSepByte c = true
    · have hs' : isSep c = true := hs
      have hl : (isLower c || isDigit c) = false := by
        simp [isSepByte, isLower, isDigit] at *; omega
      have hu : isUpper c = false := by simp [isSepByte, isUpper] at *; omega
      have e45 : lowerByte 45 = 45 := by decide
      constructor
      · unfold canonLoop
        simp only [hl, hu, hs', Bool.false_eq_true, if_false, if_true]
        rw [ih2]
        simp [normalize, collapseRuns, hs, e45]
      · unfold canonLoop
        simp only [hl, hu, hs', Bool.false_eq_true, if_false, if_true]
        rw [ih2]
        simp [List.dropWhile, hs]
    · have hs0 : isSepByte c = false := by simpa using hs
      have hs' : isSep c = false := hs0
      have hstep : ∀ run, canonLoop run (c :: cs) = lowerByte c :: normalize cs := by
        intro run
        unfold canonLoop
        by_cases h1 : (isLower c || isDigit c) = true
        · simp only [h1, if_true, ih1, lowerByte_of_lowerOrDigit h1]
        · simp only [h1, if_false, Bool.false_eq_true]
          have hu : isUpper c = true := by
            have := h.1
            simp [isNameByte, isAlnumByte, isSepByte, isUpper, isLower, isDigit] at *
            omega
          simp only [hu, if_true, ih1, lowerByte_of_upper hu]
      have hn : normalize (c :: cs) = lowerByte c :: normalize cs := by
        simp [normalize, collapseRuns, hs0]
      constructor
      · rw [hstep, hn]
      · rw [hstep, dropWhile_sep_cons_of_not hs0, hn]

end DepsDev.Proofs.C16Name
