import DepsDev.Proofs.C09Succ

/-!
# C09 — `Set.matchVersion`, `Set.Empty`, the bounds of a span list, a decidable seam test
-/
namespace DepsDev.Proofs.C09

open Std DepsDev DepsDev.Semver DepsDev.Proofs

variable {s : System}

theorem Sys4.ne {s : System} (h : Sys4 s) :
    s ≠ .maven ∧ (s == System.pypi) = false ∧ (s == System.nuget) = false ∧ (s == System.rubygems) = false := by
  rcases h with h | h | h | h <;> subst h <;> decide

/-- The span loop of `matchVersion` for a candidate of one of the four systems: with
prerelease-inclusive matching, or in release mode for a release candidate, it is "some span
contains `v`" as an interval. -/
theorem matchGo_eq (hs : Sys4 s) {v : Version} (hv : VG s v) (b : Bool)
    (hb : b = true ∨ v.isPrerelease = false) :
    ∀ l : List Span, (∀ x ∈ l, SpanOK s x) → VSet.matchVersion.go v b l = .ok (anyHas s l v) := by
  obtain ⟨-, n1, n2, -⟩ := hs.ne
  intro l
  induction l with
  | nil => intro _; rfl
  | cons sp rest ih =>
    intro hok
    have ih' := ih (fun x hx => hok x (List.mem_cons_of_mem _ hx))
    have hsp := hok sp List.mem_cons_self
    rw [VSet.matchVersion.go]
    simp only [hv.1, n1, n2, Bool.false_and, Bool.false_eq_true, ↓reduceIte]
    have hc : sp.contains v b = .ok (has s sp v) := by
      rcases hb with h | h
      · subst h; exact contains_incl hsp hv
      · cases b
        · rw [contains_release sp h]; exact contains_incl hsp hv
        · exact contains_incl hsp hv
    rw [hc, ih']
    simp only [ok_bind, anyHas_cons]
    cases has s sp v <;> simp

theorem matchVersion_eq (hs : Sys4 s) {S : VSet} (hne : S.span ≠ []) (hok : ∀ x ∈ S.span, SpanOK s x)
    {v : Version} (hv : VG s v) (b : Bool) (hb : b = true ∨ v.isPrerelease = false) :
    S.matchVersion v b = .ok (anyHas s S.span v) := by
  obtain ⟨-, -, -, n3⟩ := hs.ne
  unfold VSet.matchVersion
  have : S.span.isEmpty = false := by
    cases h : S.span with
    | nil => exact absurd h hne
    | cons _ _ => rfl
  simp only [this, Bool.false_eq_true, ↓reduceIte, hv.1, n3]
  exact matchGo_eq hs hv b hb S.span hok

/-- A span of rank `empty` contains nothing, whatever the candidate and the mode. -/
theorem contains_empty {sp : Span} (h : sp.rank = .empty) (v : Version) (b : Bool) :
    sp.contains v b = .ok false := by
  unfold Span.contains; simp [h]

/-- The span loop over spans that are all empty answers `false` (any system, any mode). -/
theorem matchGo_empty (v : Version) (b : Bool) :
    ∀ l : List Span, (∀ x ∈ l, x.rank = .empty) → VSet.matchVersion.go v b l = .ok false := by
  intro l
  induction l with
  | nil => intro _; rfl
  | cons sp rest ih =>
    intro h
    have ih' := ih (fun x hx => h x (List.mem_cons_of_mem _ hx))
    have hsp := h sp List.mem_cons_self
    rw [VSet.matchVersion.go]
    split
    · exact ih'
    · rw [contains_empty hsp, ih']; rfl

/-! ### bounds -/

/-- All bounds (as versions) of a list of spans. -/
def bounds (l : List Span) : List Version := l.flatMap (fun sp => sp.min.toList ++ sp.max.toList)

theorem allB_bounds {l : List Span} {sp : Span} (h : sp ∈ l) : AllB (· ∈ bounds l) sp := by
  constructor
  · intro a ha
    exact List.mem_flatMap.mpr ⟨sp, h, by simp [ha]⟩
  · intro b hb
    exact List.mem_flatMap.mpr ⟨sp, h, by simp [hb]⟩

theorem allB_mono {P Q : Version → Prop} (h : ∀ x, P x → Q x) {sp : Span} (hsp : AllB P sp) : AllB Q sp :=
  ⟨fun a ha => h a (hsp.1 a ha), fun b hb => h b (hsp.2 b hb)⟩

theorem allB_of_bounds {P : Version → Prop} {l : List Span} (h : ∀ x ∈ bounds l, P x) {sp : Span}
    (hsp : sp ∈ l) : AllB P sp :=
  allB_mono h (allB_bounds hsp)

theorem bounds_of_allB {P : Version → Prop} {l : List Span} (h : ∀ sp ∈ l, AllB P sp) : ∀ x ∈ bounds l, P x := by
  intro x hx
  obtain ⟨sp, hsp, hx⟩ := List.mem_flatMap.mp hx
  rcases List.mem_append.mp hx with hx | hx
  · exact (h sp hsp).1 x (by simpa [Option.mem_toList] using hx)
  · exact (h sp hsp).2 x (by simpa [Option.mem_toList] using hx)

/-! ### a kernel-evaluable form of `SeamFree` over a finite list of bounds -/

/-- `Seam s a b`, as a Boolean (for versions of system `s`). -/
def seamB (a b : Version) : Bool :=
  a.pre.isEmpty && b.pre.isEmpty && ltB a b &&
    (match (a.fill 0).inc with
     | .ok m => !ltB m b
     | _ => false)

theorem seamB_of_seam {a b : Version} (ha : VG s a) (hb : VG s b) (h : Seam s a b) : seamB a b = true := by
  obtain ⟨h1, h2, h3, m, hm, hmb⟩ := h
  obtain ⟨m', hm', hmg⟩ := inc_fill_ok ha h1
  rw [hm] at hm'; cases hm'
  have e1 : ltB a b = true := (ltB_iff ha hb).mpr h3
  have e2 : ltB m b = false := by
    rw [← Bool.not_eq_true, ltB_iff hmg hb]; exact hmb
  simp [seamB, h1, h2, e1, hm, e2]

/-- `v` lies strictly inside no successor seam between two of the listed bounds. -/
def noSeamB (s : System) (bs : List Version) (v : Version) : Bool :=
  decide (VG s v) && bs.all (fun a => decide (VG s a)) &&
    bs.all fun a => bs.all fun b => !(seamB a b && ltB a v && ltB v b)

theorem seamFree_of_noSeamB {bs : List Version} {v : Version} (h : noSeamB s bs v = true) :
    SeamFree s (· ∈ bs) v := by
  intro a b ha hb hseam ⟨h1, h2⟩
  unfold noSeamB at h
  simp only [Bool.and_eq_true, decide_eq_true_eq, List.all_eq_true] at h
  obtain ⟨⟨hv, hall⟩, h⟩ := h
  have hga := hall a ha
  have hgb := hall b hb
  have := h a ha b hb
  simp [seamB_of_seam hga hgb hseam, (ltB_iff hga hv).mpr h1, (ltB_iff hv hgb).mpr h2] at this

end DepsDev.Proofs.C09
