import DepsDev.Proofs.C10PepCanon

/-!
# C10 — PEP 440 (PyPI), part 4: the tie

`pep_parse_shape`: what `Parse` accepts for PyPI — without wildcard and without an '∞' release
number — has the numbers and the `pep440` record of a valid AST (`FOK`: every stage of
`pep440Extension.init` keeps the record well-formed on arbitrary input).
-/
namespace DepsDev.Proofs.C10
open DepsDev DepsDev.Semver Digits

/-! ## PEP 440: what `pep440Extension.init` builds on arbitrary input -/

/-- A well-formed `pep440` record. -/
structure FOK (f : Pep440) : Prop where
  epoch : (0 : Int) ≤ f.epoch ∧ f.epoch ≤ 255
  pre : (f.pre = [] ∧ f.preNum = 0) ∨ ((∃ k : PreKind, f.pre = k.bytes) ∧ (0 : Int) ≤ f.preNum ∧ f.preNum < 2 ^ 63)
  post : (0 : Int) ≤ f.postNum ∧ f.postNum < 2 ^ 63 ∧ (f.postPresent = false → f.postNum = 0)
  dev : (0 : Int) ≤ f.devNum ∧ f.devNum < 2 ^ 63 ∧ (f.devPresent = false → f.devNum = 0)
  loc : PepAst.LocOk f.loc

theorem fok_default : FOK {} :=
  ⟨⟨by decide, by decide⟩, Or.inl ⟨rfl, rfl⟩, ⟨by decide, by decide, fun _ => rfl⟩, ⟨by decide, by decide, fun _ => rfl⟩, Or.inl rfl⟩

theorem pepNumber_range (t : Bytes) : (0 : Int) ≤ (pepNumber t).1 ∧ (pepNumber t).1 < 2 ^ 63 := by
  unfold pepNumber
  simp only
  split
  · exact ⟨Int.le_refl 0, by show (0 : Int) < 2 ^ 63; decide⟩
  · simp only
    generalize (List.take (numericPrefixLen (allowSeparator t)) (allowSeparator t)) = ds
    have hle : parseUint63Lossy ds ≤ 2 ^ 63 - 1 := by
      unfold parseUint63Lossy
      simp only
      split
      · omega
      · split <;> omega
    have hlt : parseUint63Lossy ds < 2 ^ 63 := by omega
    simp only [wrapInt64, hlt, ↓reduceIte]
    constructor
    · exact Int.natCast_nonneg _
    · exact_mod_cast hlt

theorem preStrings_canon : ∀ e ∈ Gen.SemverTables.pep440PreStrings, ∃ k : PreKind, e.2 = k.bytes := by
  rw [preStrings_eq]
  intro e he
  simp only [List.mem_cons, List.not_mem_nil, or_false] at he
  rcases he with rfl | rfl | rfl | rfl | rfl | rfl | rfl | rfl
  · exact ⟨.a, rfl⟩
  · exact ⟨.a, rfl⟩
  · exact ⟨.b, rfl⟩
  · exact ⟨.b, rfl⟩
  · exact ⟨.rc, rfl⟩
  · exact ⟨.rc, rfl⟩
  · exact ⟨.rc, rfl⟩
  · exact ⟨.rc, rfl⟩

theorem pepParsePre_fok (p : PepState) (t : Bytes) (h : FOK p.mk') :
    FOK (pepParsePre p t).1.mk' ∧ (pepParsePre p t).1.v.num = p.v.num ∧ (pepParsePre p t).1.v.sys = p.v.sys := by
  unfold pepParsePre
  split
  · exact ⟨h, rfl, rfl⟩
  · simp only
    split
    · exact ⟨h, rfl, rfl⟩
    · rename_i text canon hfind
      obtain ⟨k, hk⟩ := preStrings_canon _ (List.mem_of_find?_eq_some hfind)
      simp only at hk
      refine ⟨?_, rfl, rfl⟩
      simp only [PepState.mk', Option.getD_some]
      exact ⟨h.epoch, Or.inr ⟨⟨k, hk⟩, pepNumber_range _⟩, h.post, h.dev, h.loc⟩

theorem post_core (p : PepState) (orig input : Bytes) (len : Nat) (c : Bool) (h : FOK p.mk') :
    FOK (if c = true then (p, orig) else
      (({ p with ext := some { p.mk' with postPresent := true, postNum := (pepNumber (input.drop len)).1 } } : PepState),
        (pepNumber (input.drop len)).2)).1.mk' ∧
    (if c = true then (p, orig) else
      (({ p with ext := some { p.mk' with postPresent := true, postNum := (pepNumber (input.drop len)).1 } } : PepState),
        (pepNumber (input.drop len)).2)).1.v = p.v := by
  split
  · exact ⟨h, rfl⟩
  · refine ⟨?_, rfl⟩
    simp only [PepState.mk', Option.getD_some]
    have := pepNumber_range (List.drop len input)
    exact ⟨h.epoch, h.pre, ⟨this.1, this.2, by simp⟩, h.dev, h.loc⟩

theorem pepParsePost_fok (p : PepState) (t : Bytes) (h : FOK p.mk') :
    FOK (pepParsePost p t).1.mk' ∧ (pepParsePost p t).1.v = p.v := by
  unfold pepParsePost
  split
  · exact ⟨h, rfl⟩
  · exact post_core p t (allowSeparator t) _ _ h

theorem pepParseDev_fok (p : PepState) (t : Bytes) (h : FOK p.mk') :
    FOK (pepParseDev p t).1.mk' ∧ (pepParseDev p t).1.v = p.v := by
  unfold pepParseDev
  split
  · exact ⟨h, rfl⟩
  · simp only
    split
    · exact ⟨h, rfl⟩
    · refine ⟨?_, rfl⟩
      simp only [PepState.mk', Option.getD_some]
      have := pepNumber_range (List.drop 3 (allowSeparator t))
      exact ⟨h.epoch, h.pre, h.post, ⟨this.1, this.2, by simp⟩, h.loc⟩


theorem loc_map_ok : ∀ c : UInt8, (c == 46 || c == 45 || c == 95 || isAlnumB c) = true →
    ((if c == 45 || c == 95 then (46 : UInt8) else c) == 46 || isAlnumB (if c == 45 || c == 95 then (46 : UInt8) else c)) = true := by
  apply forall_uint8; decide +kernel

theorem alnum_map_id : ∀ c : UInt8, isAlnumB c = true → (if c == 45 || c == 95 then (46 : UInt8) else c) = c := by
  apply forall_uint8; decide +kernel

theorem pepParseLocal_fok (p p' : PepState) (t r : Bytes) (h : FOK p.mk') (hp : pepParseLocal p t = .ok (p', r)) :
    FOK p'.mk' ∧ p'.v = p.v := by
  unfold pepParseLocal at hp
  split at hp
  · rename_i c body
    split at hp
    · cases hp
    · rename_i hall
      split at hp
      · cases hp
      · rename_i hends
        injection hp with hp
        injection hp with h1 _
        subst h1
        refine ⟨?_, rfl⟩
        simp only [PepState.mk', Option.getD_some]
        refine ⟨h.epoch, h.pre, h.post, h.dev, Or.inr ⟨?_, ?_, ?_⟩⟩
        · rw [List.all_eq_true]
          intro x hx
          obtain ⟨y, hy, rfl⟩ := List.mem_map.mp hx
          have hall' : (c :: body).all (fun c => c == 46 || c == 45 || c == 95 || isAlnumB c) = true := by
            cases hb : (c :: body).all (fun c => c == 46 || c == 45 || c == 95 || isAlnumB c) with
            | true => rfl
            | false => rw [hb] at hall; simp at hall
          exact loc_map_ok y (List.all_eq_true.mp hall' y hy)
        · have hh : isAlnumB c = true := by
            simp only [List.headD_cons, Bool.or_eq_true, Bool.not_eq_true', not_or, Bool.not_eq_false] at hends
            exact hends.1
          simp only [List.map_cons, List.headD_cons, alnum_map_id c hh, hh]
        · have hl : isAlnumB ((c :: body).getLastD 0) = true := by
            simp only [Bool.or_eq_true, Bool.not_eq_true', not_or, Bool.not_eq_false] at hends
            exact hends.2
          have hne : c :: body ≠ [] := by simp
          have hlast : (c :: body).getLastD 0 = (c :: body).getLast hne := by
            simp [List.getLastD_eq_getLast?, List.getLast?_eq_some_getLast hne]
          have hne' : (c :: body).map (fun c => if c == 45 || c == 95 then (46 : UInt8) else c) ≠ [] := by simp
          have hlast' : ((c :: body).map (fun c => if c == 45 || c == 95 then (46 : UInt8) else c)).getLastD 0 =
              (fun c => if c == 45 || c == 95 then (46 : UInt8) else c) ((c :: body).getLast hne) := by
            rw [List.getLastD_eq_getLast?, List.getLast?_eq_some_getLast hne', List.getLast_map]
            rfl
          rw [hlast'] 
          rw [hlast] at hl
          simp only [alnum_map_id _ hl, hl]
  · injection hp with hp
    injection hp with h1 _
    subst h1
    exact ⟨h, rfl⟩


/-- Numbers as `pepNums` collects them: wildcard, infinity, or a number below infinity. -/
def PepNum (x : Int) : Prop := x = -1 ∨ x = 9223372036854775807 ∨ ((0 : Int) ≤ x ∧ x < 9223372036854775807)

theorem pepNums_go_spec (fuel : Nat) : ∀ (p p' : PepState) (s rest : Bytes),
    pepNums.go p s fuel = .ok (p', rest) → (∀ x ∈ p.v.num, PepNum x) →
    p'.ext = p.ext ∧ p'.v.sys = p.v.sys ∧ (∀ x ∈ p'.v.num, PepNum x) := by
  induction fuel with
  | zero =>
    intro p p' s rest h hn
    simp only [pepNums.go] at h
    injection h with h; injection h with h1 _; subst h1
    exact ⟨rfl, rfl, hn⟩
  | succ k ih =>
    intro p p' s rest h hn
    simp only [pepNums.go] at h
    split at h
    · injection h with h; injection h with h1 _; subst h1
      exact ⟨rfl, rfl, hn⟩
    · generalize (if (numericPrefixLen s == 0 && s.head? == some 42) = true then (List.take 1 s, List.drop 1 s)
        else (List.take (numericPrefixLen s) s, List.drop (numericPrefixLen s) s)) = tr at h
      obtain ⟨tok, rst⟩ := tr
      simp only at h
      split at h
      · injection h with h; injection h with h1 _; subst h1
        exact ⟨rfl, rfl, hn⟩
      · simp only [bind, Outcome.bind] at h
        split at h
        · rename_i p1 hp1
          have hp1' : p1.ext = p.ext ∧ p1.v.sys = p.v.sys ∧ (∀ x ∈ p1.v.num, PepNum x) := by
            split at hp1
            · injection hp1 with hp1; subst hp1
              refine ⟨rfl, rfl, ?_⟩
              intro x hx
              simp only [Version.addNum, List.mem_append, List.mem_singleton] at hx
              rcases hx with hx | rfl
              · exact hn x hx
              · exact Or.inr (Or.inl rfl)
            · split at hp1
              · split at hp1
                · cases hp1
                · injection hp1 with hp1; subst hp1
                  refine ⟨rfl, rfl, ?_⟩
                  intro x hx
                  simp only [Version.addNum, List.mem_append, List.mem_singleton] at hx
                  rcases hx with hx | rfl
                  · exact hn x hx
                  · exact Or.inl rfl
              · split at hp1
                · cases hp1
                · rename_i x hx
                  injection hp1 with hp1; subst hp1
                  have hr := parseNum_range _ x hx
                  refine ⟨rfl, rfl, ?_⟩
                  intro y hy
                  simp only [Version.addNum, List.mem_append, List.mem_singleton] at hy
                  rcases hy with hy | rfl
                  · exact hn y hy
                  · exact Or.inr (Or.inr hr)
          split at h
          · injection h with h; injection h with h1 _; subst h1; exact hp1'
          · split at h
            · injection h with h; injection h with h1 _; subst h1; exact hp1'
            · split at h
              · cases h
              · obtain ⟨g1, g2, g3⟩ := ih p1 p' _ rest h hp1'.2.2
                exact ⟨g1.trans hp1'.1, g2.trans hp1'.2.1, g3⟩
        · cases h
        · cases h

theorem pepEpoch_spec (input : Bytes) (p0 : PepState) (rest : Bytes) (h : pepEpoch .pypi input = .ok (p0, rest)) :
    p0.v = { sys := .pypi } ∧ FOK p0.mk' := by
  unfold pepEpoch at h
  split at h
  · split at h
    · simp only at h
      split at h
      · cases h
      · rename_i b _ _ hc
        injection h with h; injection h with h1 _; subst h1
        refine ⟨rfl, ?_⟩
        simp only [PepState.mk', Option.getD_some]
        have hle : ¬ digitsVal (List.take b input) > 255 := by
          intro hgt
          apply hc
          simp [hgt]
        have h63 : (0 : Int) < 2 ^ 63 := by decide
        refine ⟨⟨Int.natCast_nonneg _, ?_⟩, Or.inl ⟨rfl, rfl⟩, ⟨Int.le_refl 0, h63, fun _ => rfl⟩,
          ⟨Int.le_refl 0, h63, fun _ => rfl⟩, Or.inl rfl⟩
        have : digitsVal (List.take b input) ≤ 255 := by omega
        show ((digitsVal (List.take b input) : Nat) : Int) ≤ 255
        omega
    · injection h with h; injection h with h1 _; subst h1
      exact ⟨rfl, fok_default⟩
  · injection h with h; injection h with h1 _; subst h1
    exact ⟨rfl, fok_default⟩


/-- No release number is '∞' (finding F-C10-pypi-inf). -/
def noInfinity (v : Version) : Bool := !v.num.any (· == infinity)

/-- From a well-formed record and numbers, the AST. -/
theorem ast_of_fok (nums : List Int) (f : Pep440) (hf : FOK f) (hlen : 3 ≤ nums.length)
    (hnum : ∀ x ∈ nums, NumOk false x) : ∃ a : PepAst, a.Valid ∧ a.nums = nums ∧ a.fields = f := by
  obtain ⟨he0, he1⟩ := hf.epoch
  have h63 : (2 : Int) ^ 63 = ((2 ^ 63 : Nat) : Int) := by decide
  have toNat_lt : ∀ z : Int, 0 ≤ z → z < 2 ^ 63 → z.toNat < 2 ^ 63 := by
    intro z h0 h1
    rw [h63] at h1
    omega
  have hpre : ∃ pre : Option (PreKind × Nat), (∀ k n, pre = some (k, n) → n < 2 ^ 63) ∧
      (match pre with | some (k, _) => k.bytes | none => []) = f.pre ∧
      ((match pre with | some (_, n) => n | none => 0 : Nat) : Int) = f.preNum := by
    rcases hf.pre with ⟨h1, h2⟩ | ⟨⟨k, hk⟩, h0, h1⟩
    · exact ⟨none, by simp, h1.symm, by simp [h2]⟩
    · refine ⟨some (k, f.preNum.toNat), ?_, hk.symm, by simp [Int.toNat_of_nonneg h0]⟩
      intro k' n' e
      injection e with e
      injection e with _ e2
      subst e2
      exact toNat_lt _ h0 h1
  obtain ⟨pre, p1, p2, p3⟩ := hpre
  obtain ⟨q0, q1, q2⟩ := hf.post
  obtain ⟨d0, d1, d2⟩ := hf.dev
  refine ⟨{ epoch := f.epoch.toNat, nums := nums, pre := pre,
            post := if f.postPresent then some f.postNum.toNat else none,
            dev := if f.devPresent then some f.devNum.toNat else none, loc := f.loc }, ?_, rfl, ?_⟩
  · refine ⟨by simp only; omega, hlen, hnum, p1, ?_, ?_, hf.loc⟩
    · intro n hn
      simp only at hn
      split at hn
      · injection hn with hn; subst hn; exact toNat_lt _ q0 q1
      · cases hn
    · intro n hn
      simp only at hn
      split at hn
      · injection hn with hn; subst hn; exact toNat_lt _ d0 d1
      · cases hn
  · unfold PepAst.fields
    simp only
    cases f with
    | mk epoch fpre preNum postPresent postNum devPresent devNum loc =>
      simp only at he0 he1 p2 p3 q0 q1 q2 d0 d1 d2 ⊢
      rw [Pep440.mk.injEq]
      refine ⟨Int.toNat_of_nonneg he0, p2, by rw [← p3]; cases pre <;> rfl, ?_, ?_, ?_, ?_, rfl⟩
      · cases postPresent <;> rfl
      · cases postPresent
        · simp only [Bool.false_eq_true, ↓reduceIte]; exact (q2 rfl).symm
        · simp only [↓reduceIte]; exact Int.toNat_of_nonneg q0
      · cases devPresent <;> rfl
      · cases devPresent
        · simp only [Bool.false_eq_true, ↓reduceIte]; exact (d2 rfl).symm
        · simp only [↓reduceIte]; exact Int.toNat_of_nonneg d0


/-- **The tie for PEP 440**: what `Parse` accepts for PyPI, when it has neither a wildcard nor an
'∞' release number, has the numbers and the record of a valid AST. -/
theorem pep_parse_shape (b : Bytes) (v : Version) (h : parse .pypi b = .ok v) (hw : v.isWildcard = false)
    (hinf : noInfinity v = true) : PepShape v := by
  unfold parse at h
  split at h
  · cases h
  · unfold parseInf pepInit at h
    simp only [Bool.false_and, Bool.false_eq_true, ↓reduceIte] at h
    split at h
    · rename_i v0 E hcore
      injection h with h
      subst h
      rw [pepInitCore_eq] at hcore
      split at hcore
      · cases hcore
      · cases hep : pepEpoch .pypi (Bytes.trimSpace b) with
        | err => rw [hep] at hcore; cases hcore
        | panic => rw [hep] at hcore; cases hcore
        | ok r0 =>
          obtain ⟨p0, inp⟩ := r0
          rw [hep] at hcore
          simp only [Outcome.bind] at hcore
          obtain ⟨e1, e2⟩ := pepEpoch_spec _ p0 inp hep
          unfold pepAfterEpoch at hcore
          generalize stripVee inp = inp' at hcore
          cases hnums : pepNums p0 inp' with
          | err => rw [hnums] at hcore; cases hcore
          | panic => rw [hnums] at hcore; cases hcore
          | ok r1 =>
            obtain ⟨p1, rest⟩ := r1
            rw [hnums] at hcore
            simp only [Outcome.bind] at hcore
            obtain ⟨n1, n2, n3⟩ := pepNums_go_spec _ p0 p1 inp' rest hnums (by rw [e1]; simp)
            unfold pepAfterNums at hcore
            split at hcore
            · cases hcore
            · rename_i hne
              simp only at hcore
              generalize hpad : (if (p1.v.num.getLastD 0 != wildcard && decide (p1.v.num.length < 3)) = true
                then p1.v.num ++ List.replicate (3 - p1.v.num.length) 0 else p1.v.num) = padded at hcore
              -- the optional parts
              have hp2 : FOK ({ p1 with v := { p1.v with num := padded, userNumCount := p1.v.num.length } } : PepState).mk' := by
                simp only [PepState.mk', n1]; exact e2
              generalize hp2eq : ({ p1 with v := { p1.v with num := padded, userNumCount := p1.v.num.length } } : PepState) = p2 at hcore hp2
              have hp2num : p2.v.num = padded := by rw [← hp2eq]
              unfold runPre runPost runDev at hcore
              obtain ⟨a1, a2, _⟩ := pepParsePre_fok p2 rest hp2
              generalize pepParsePre p2 rest = r3 at hcore a1 a2
              obtain ⟨b1, b2⟩ := pepParsePost_fok r3.1 r3.2 a1
              generalize pepParsePost r3.1 r3.2 = r4 at hcore b1 b2
              obtain ⟨c1, c2⟩ := pepParseDev_fok r4.1 r4.2 b1
              generalize pepParseDev r4.1 r4.2 = r5 at hcore c1 c2
              cases hloc : pepParseLocal r5.1 r5.2 with
              | err => rw [hloc] at hcore; cases hcore
              | panic => rw [hloc] at hcore; cases hcore
              | ok r6 =>
                obtain ⟨p6, rest6⟩ := r6
                rw [hloc] at hcore
                simp only [Outcome.bind] at hcore
                split at hcore
                · cases hcore
                · injection hcore with hcore
                  injection hcore with hv hE
                  obtain ⟨d1, d2⟩ := pepParseLocal_fok r5.1 p6 r5.2 rest6 c1 hloc
                  have hnumeq : v0.num = padded := by
                    rw [← hv, d2, c2, b2, a2, hp2num]
                  have hw' : ∀ x ∈ padded, ¬ (x : Int) = -1 := by
                    simp only [Version.isWildcard, List.any_eq_false, beq_iff_eq, wildcard_lit, hnumeq] at hw
                    exact hw
                  have hinf' : ∀ x ∈ padded, ¬ (x : Int) = 9223372036854775807 := by
                    simp only [noInfinity, Bool.not_eq_true', List.any_eq_false, beq_iff_eq, infinity_lit, hnumeq] at hinf
                    exact hinf
                  have hmem : ∀ x ∈ padded, x ∈ p1.v.num ∨ x = 0 := by
                    intro x hx
                    rw [← hpad] at hx
                    split at hx
                    · simp only [List.mem_append, List.mem_replicate] at hx
                      rcases hx with hx | ⟨_, hx⟩
                      · exact Or.inl hx
                      · exact Or.inr hx
                    · exact Or.inl hx
                  have hnumok : ∀ x ∈ padded, NumOk false x := by
                    intro x hx
                    have h1 := hw' x hx
                    have h2 := hinf' x hx
                    rcases hmem x hx with hm | rfl
                    · rcases n3 x hm with h | h | h
                      · exact absurd h h1
                      · exact absurd h h2
                      · exact ⟨h.1, Or.inl h.2⟩
                    · exact ⟨by omega, Or.inl (by omega)⟩
                  have hlen : 3 ≤ padded.length := by
                    rw [← hpad]
                    split
                    · simp only [List.length_append, List.length_replicate]; omega
                    · rename_i hc
                      have hne' : p1.v.num ≠ [] := by simpa using hne
                      simp only [Bool.and_eq_true, bne_iff_ne, ne_eq, decide_eq_true_eq, not_and, Nat.not_lt] at hc
                      apply hc
                      intro hl
                      have hmemlast : p1.v.num.getLastD 0 ∈ p1.v.num := by
                        rw [List.getLastD_eq_getLast?, List.getLast?_eq_some_getLast hne']
                        exact List.getLast_mem hne'
                      have hpadd : padded = p1.v.num ∨ ∃ k, padded = p1.v.num ++ List.replicate k 0 := by
                        rw [← hpad]; split
                        · exact Or.inr ⟨_, rfl⟩
                        · exact Or.inl rfl
                      have : p1.v.num.getLastD 0 ∈ padded := by
                        rcases hpadd with h | ⟨k, h⟩ <;> rw [h]
                        · exact hmemlast
                        · exact List.mem_append_left _ hmemlast
                      have := hw' _ this
                      rw [wildcard_lit] at hl
                      exact this hl
                  obtain ⟨a, av, an, af⟩ := ast_of_fok padded p6.mk' d1 hlen hnumok
                  refine ⟨rfl, E, a, rfl, av, by simp only [hnumeq, an], ?_⟩
                  rw [af, ← hE]
                  rfl
    · cases h
    · cases h

end DepsDev.Proofs.C10
