import DepsDev.Proofs.C10PepParse

/-!
# C10 — PEP 440 (PyPI), part 3: `Parse` on canonical text, `Canon`, comparison, the round trip

`parse_render_pep` (C10-a), `canon_pep_ast` (the canonical text of a version whose numbers and
`pep440` record are those of a valid AST is the AST's text), `vcompare_pep_same`, `pep_roundtrip`.
-/
namespace DepsDev.Proofs.C10
open DepsDev DepsDev.Semver Digits

/-! ## PEP 440: `possibleVersionString` and `Parse` on canonical text -/

theorem pvs_go_bang (rest : List (Nat × Bytes)) (i : Nat) :
    possibleVersionString.go .pypi (((33 : UInt8).toNat, [33]) :: rest) i = possibleVersionString.go .pypi rest (i + 1) := by
  simp [possibleVersionString.go]

theorem pvs_go_pep (pre post : Bytes) (hpre : ∀ c ∈ pre, isDigitB c = true ∨ c = 33)
    (hpost : post = [] ∨ ∃ r, post = 46 :: r) :
    ∀ i, (pre ≠ [] ∨ i ≠ 0) →
      possibleVersionString.go .pypi ((pre ++ post).map (fun c => (c.toNat, [c]))) i = true := by
  induction pre with
  | nil =>
    intro i hi
    have hi' : i ≠ 0 := by rcases hi with h | h; exact absurd rfl h; exact h
    rcases hpost with rfl | ⟨r, rfl⟩
    · simp [possibleVersionString.go]
    · simp only [List.nil_append, List.map_cons]
      exact pvs_go_dot .pypi _ i hi'
  | cons c cs ih =>
    intro i _
    simp only [List.cons_append, List.map_cons]
    rcases hpre c (by simp) with hd | rfl
    · rw [pvs_go_digit .pypi c hd]
      exact ih (fun x hx => hpre x (by simp [hx])) (i + 1) (Or.inr (by omega))
    · rw [pvs_go_bang]
      exact ih (fun x hx => hpre x (by simp [hx])) (i + 1) (Or.inr (by omega))

theorem take_append_dot (pre r : Bytes) (n : Nat) :
    ∃ post, (pre ++ 46 :: r).take n = pre.take n ++ post ∧ (post = [] ∨ ∃ r', post = 46 :: r') := by
  refine ⟨(46 :: r).take (n - pre.length), by rw [List.take_append], ?_⟩
  cases h : n - pre.length with
  | zero => left; simp
  | succ k => right; exact ⟨r.take k, by simp⟩

theorem pvs_render_pep (a : PepAst) (h : a.Valid) : possibleVersionString .pypi a.render = true := by
  -- the text is `digits/! … .` followed by the rest
  match hn : a.nums, h.len with
  | x :: y :: zs, _ =>
    have hx : ∀ w ∈ x :: y :: zs, NumOk false w := by rw [← hn]; exact h.num
    have hx0 := hx x (by simp)
    have hx1 : x < 9223372036854775807 := by rcases hx0.2 with h | ⟨h, _⟩; exact h; cases h
    obtain ⟨d, ds, hd, hdd⟩ := natToBytes_cons x.toNat
    have hpre0 : ∀ c ∈ a.epochPart ++ natToBytes x.toNat, isDigitB c = true ∨ c = 33 := by
      intro c hc
      simp only [List.mem_append, PepAst.epochPart] at hc
      rcases hc with hc | hc
      · split at hc
        · simp only [List.mem_append, List.mem_singleton] at hc
          rcases hc with hc | rfl
          · exact Or.inl (List.all_eq_true.mp (natToBytes_all_digit _) c hc)
          · exact Or.inr rfl
        · cases hc
      · exact Or.inl (List.all_eq_true.mp (natToBytes_all_digit _) c hc)
    have htext : a.render = (a.epochPart ++ natToBytes x.toNat) ++ 46 :: (valueBytes y ++ (dotNums zs ++ a.tail)) := by
      rw [render_split, hn]
      simp [renderNums, dotNums, valueBytes_num x hx0.1 hx1]
    -- the first byte is a digit
    have hhead : ∃ c0 r0, a.epochPart ++ natToBytes x.toNat = c0 :: r0 ∧ isDigitB c0 = true := by
      unfold PepAst.epochPart
      split
      · obtain ⟨e, es, he, hee⟩ := natToBytes_cons a.epoch
        exact ⟨e, es ++ [33] ++ natToBytes x.toNat, by simp [he], hee⟩
      · exact ⟨d, ds, by simp [hd], hdd⟩
    obtain ⟨c0, r0, hc0, hc0d⟩ := hhead
    have hdn := (isDigitB_iff c0).mp hc0d
    have hv1 : (c0 == 118) = false := by rw [beq_eq_false_iff_ne]; intro e; subst e; simp at hdn
    have hv2 : (c0 == 86) = false := by rw [beq_eq_false_iff_ne]; intro e; subst e; simp at hdn
    obtain ⟨post, htake, hpost⟩ := take_append_dot (a.epochPart ++ natToBytes x.toNat) (valueBytes y ++ (dotNums zs ++ a.tail)) 3
    have hpre3 : ∀ c ∈ (a.epochPart ++ natToBytes x.toNat).take 3, isDigitB c = true ∨ c = 33 :=
      fun c hc => hpre0 c (List.mem_of_mem_take hc)
    have hne3 : (a.epochPart ++ natToBytes x.toNat).take 3 ≠ [] := by rw [hc0]; simp
    have hprintAll : ∀ c ∈ a.render, isPrintB c = true := by
      intro c hc
      rw [render_split] at hc
      simp only [List.mem_append] at hc
      rcases hc with hc' | hc'
      · unfold PepAst.epochPart at hc'
        split at hc'
        · simp only [List.mem_append, List.mem_singleton] at hc'
          rcases hc' with hc' | rfl
          · exact (pepByte_facts c (natToBytes_pepByte _ c hc')).1
          · decide
        · cases hc'
      · exact (pepByte_facts c (body_pepByte a h c (by simpa using hc'))).1
    have hascii : ∀ c ∈ (a.epochPart ++ natToBytes x.toNat).take 3 ++ post, c < 0x80 := by
      intro c hc
      rw [← htake] at hc
      have : c ∈ a.render := by rw [htext]; exact List.mem_of_mem_take hc
      exact (print_not_space c (hprintAll c this)).2.1
    have hgo := pvs_go_pep _ post hpre3 hpost 0 (Or.inl hne3)
    unfold possibleVersionString
    rw [htext, hc0]
    simp only [show (System.pypi == System.maven) = false by decide, Bool.false_eq_true, ↓reduceIte, List.cons_append,
      hv1, hv2, Bool.or_self, List.isEmpty_cons]
    rw [← List.cons_append, ← hc0, htake, runes_ascii _ hascii]
    exact hgo


namespace PepAst
/-- What `Parse` returns on the canonical text. -/
def parsed (a : PepAst) : Version := { a.parsedV with ext := .pep (a.extPre a.ext0) }

/-- The `pep440` record the AST denotes. -/
def fields (a : PepAst) : Pep440 :=
  { epoch := a.epoch,
    pre := match a.pre with | some (k, _) => k.bytes | none => [],
    preNum := match a.pre with | some (_, n) => n | none => 0,
    postPresent := a.post.isSome, postNum := match a.post with | some n => n | none => 0,
    devPresent := a.dev.isSome, devNum := match a.dev with | some n => n | none => 0,
    loc := a.loc }
end PepAst

/-- **C10-a for PEP 440**: `Parse` on the canonical text of a valid AST. -/
theorem parse_render_pep (a : PepAst) (h : a.Valid) : parse .pypi a.render = .ok a.parsed := by
  unfold parse parseInf pepInit
  simp only [pvs_render_pep a h, Bool.not_true, Bool.false_eq_true, ↓reduceIte, Bool.false_and,
    pepInitCore_render a h]
  rfl

/-- The record built stage by stage is the AST's record (whatever the epoch stage left, as long
as it only set the epoch). -/
theorem extPre_getD (a : PepAst) (e0 : Option Pep440) (he : e0.getD {} = { epoch := a.epoch }) :
    (a.extPre e0).getD {} = a.fields := by
  unfold PepAst.extPre PepAst.extPost PepAst.extDev PepAst.extLoc PepAst.fields
  cases hpre : a.pre with
  | none =>
    cases hpost : a.post with
    | none =>
      cases hdev : a.dev with
      | none =>
        by_cases hl : a.loc.isEmpty
        · have : a.loc = [] := by simpa using hl
          simp [hl, he, this]
        · simp [hl, he]
      | some n =>
        by_cases hl : a.loc.isEmpty
        · have : a.loc = [] := by simpa using hl
          simp [hl, he, this]
        · simp [hl, he]
    | some m =>
      cases hdev : a.dev with
      | none =>
        by_cases hl : a.loc.isEmpty
        · have : a.loc = [] := by simpa using hl
          simp [hl, he, this]
        · simp [hl, he]
      | some n =>
        by_cases hl : a.loc.isEmpty
        · have : a.loc = [] := by simpa using hl
          simp [hl, he, this]
        · simp [hl, he]
  | some kn =>
    obtain ⟨k, n0⟩ := kn
    cases hpost : a.post with
    | none =>
      cases hdev : a.dev with
      | none =>
        by_cases hl : a.loc.isEmpty
        · have : a.loc = [] := by simpa using hl
          simp [hl, he, this]
        · simp [hl, he]
      | some n =>
        by_cases hl : a.loc.isEmpty
        · have : a.loc = [] := by simpa using hl
          simp [hl, he, this]
        · simp [hl, he]
    | some m =>
      cases hdev : a.dev with
      | none =>
        by_cases hl : a.loc.isEmpty
        · have : a.loc = [] := by simpa using hl
          simp [hl, he, this]
        · simp [hl, he]
      | some n =>
        by_cases hl : a.loc.isEmpty
        · have : a.loc = [] := by simpa using hl
          simp [hl, he, this]
        · simp [hl, he]

theorem ext0_getD (a : PepAst) : a.ext0.getD {} = { epoch := a.epoch } := by
  unfold PepAst.ext0
  by_cases h : a.epoch = 0
  · simp [h]
  · simp [h]


/-! ## PEP 440: `Canon`, comparison, the round trip -/

theorem postText_eq : ".post".toUTF8.toList = [46, 112, 111, 115, 116] := by rw [toList_eq]; rfl
theorem devText_eq : ".dev".toUTF8.toList = [46, 100, 101, 118] := by rw [toList_eq]; rfl

/-- What `pep440Extension.canon` prints, from the record. -/
def pepText (nums : Bytes) (f : Pep440) : Bytes :=
  (if f.epoch != 0 then intToBytes f.epoch ++ [33] else []) ++ nums ++
  (if !f.pre.isEmpty then f.pre ++ intToBytes f.preNum else []) ++
  (if f.postPresent then [46, 112, 111, 115, 116] ++ intToBytes f.postNum else []) ++
  (if f.devPresent then [46, 100, 101, 118] ++ intToBytes f.devNum else []) ++
  (if !f.loc.isEmpty then 43 :: f.loc else [])

theorem canon_pep (v : Version) (b : Bool) (E : Option Pep440) (he : v.ext = .pep E) :
    canon v b = pepText (printNums v) (E.getD {}) := by
  unfold canon
  simp only [he]
  cases E with
  | none => simp [pepText]
  | some e => simp only [Option.getD_some, pepText, postText_eq, devText_eq]

theorem preKind_ne_nil (k : PreKind) : k.bytes.isEmpty = false := by cases k <;> rfl

/-- The canonical text of a version whose numbers and record are those of a valid AST. -/
theorem canon_pep_ast (v : Version) (b : Bool) (E : Option Pep440) (a : PepAst) (h : a.Valid) (he : v.ext = .pep E)
    (hn : v.num = a.nums) (hf : E.getD {} = a.fields) : canon v b = a.render := by
  have hw : v.isWildcard = false := by
    simp only [Version.isWildcard, List.any_eq_false, beq_iff_eq, wildcard_lit, hn]
    intro x hx e
    have h0 : (0 : Int) ≤ x := (h.num x hx).1
    have h1 : (x : Int) = -1 := e
    rw [h1] at h0
    exact absurd h0 (by decide)
  rw [canon_pep v b E he, hf, printNums_eq v hw, hn, pad3_of_ge _ h.len]
  unfold pepText PepAst.fields PepAst.render PepAst.epochPart PepAst.prePart PepAst.postPart PepAst.devPart PepAst.locPart
  simp only
  have hep : ((a.epoch : Int) != 0) = (decide (a.epoch ≠ 0)) := by
    by_cases h0 : a.epoch = 0
    · simp [h0]
    · have : ¬ (a.epoch : Int) = 0 := by omega
      simp [h0, this]
  rw [hep, intToBytes_nat]
  cases hpre : a.pre with
  | none =>
    cases hpost : a.post <;> cases hdev : a.dev <;> by_cases he0 : a.epoch = 0 <;> by_cases hl : a.loc.isEmpty <;>
      simp [he0, hl, intToBytes_nat]
  | some kn =>
    obtain ⟨k, n0⟩ := kn
    cases hpost : a.post <;> cases hdev : a.dev <;> by_cases he0 : a.epoch = 0 <;> by_cases hl : a.loc.isEmpty <;>
      simp [he0, hl, intToBytes_nat, preKind_ne_nil]


theorem pepTail_self (p : Pep440) : pepTail p p = 0 := by
  unfold pepTail
  have hl : pepCompareLocal p.loc p.loc = 0 := by simp [pepCompareLocal]
  simp only [sgnInt_self, hl, ite_self, thenInt_zero, bne_self_eq_false, Bool.false_eq_true, ↓reduceIte]

/-- Comparison of two PEP 440 versions with the same numbers and the same record. -/
theorem vcompare_pep_same (v w : Version) (E F : Option Pep440) (hv : v.sys = .pypi) (hw : w.sys = .pypi)
    (he : v.ext = .pep E) (hf : w.ext = .pep F) (hn : w.num = v.num) (hr : F.getD {} = E.getD {}) :
    vcompare v w = .ok 0 := by
  unfold vcompare
  simp only [hv, hw, bne_self_eq_false, Bool.false_eq_true, ↓reduceIte, he, hf]
  unfold pepCompare
  simp only [hr, hn, sgnInt_self, compareNums_refl, thenInt_zero, pepTail_self, ite_self]

/-- A PyPI version in the domain of the theorem: numbers and record of a valid AST. -/
structure PepShape (v : Version) : Prop where
  sys : v.sys = .pypi
  ast : ∃ (E : Option Pep440) (a : PepAst), v.ext = .pep E ∧ a.Valid ∧ v.num = a.nums ∧ E.getD {} = a.fields

/-- **C10-b for PEP 440** on the shape of parse outputs. -/
theorem pep_roundtrip (v : Version) (b : Bool) (h : PepShape v) :
    ∃ v', parse .pypi (canon v b) = .ok v' ∧ vcompare v v' = .ok 0 ∧ canon v' b = canon v b ∧ PepShape v' := by
  obtain ⟨E, a, he, ha, hn, hf⟩ := h.ast
  have hc := canon_pep_ast v b E a ha he hn hf
  have hg : (a.extPre a.ext0).getD {} = a.fields := extPre_getD a a.ext0 (ext0_getD a)
  refine ⟨a.parsed, by rw [hc]; exact parse_render_pep a ha, ?_, ?_, ⟨rfl, _, a, rfl, ha, rfl, hg⟩⟩
  · exact vcompare_pep_same v a.parsed E _ h.sys rfl he rfl hn.symm (hg.trans hf.symm)
  · rw [hc]
    exact canon_pep_ast a.parsed b _ a ha rfl rfl hg


/-- Two versions in the domain with the same canonical string compare equal. -/
theorem pep_injective (v w : Version) (hv : PepShape v) (hw : PepShape w) (h : canon v true = canon w true) :
    vcompare v w = .ok 0 := by
  obtain ⟨E, a, he, ha, hn, hf⟩ := hv.ast
  obtain ⟨F, a', he', ha', hn', hf'⟩ := hw.ast
  have hc := canon_pep_ast v true E a ha he hn hf
  have hc' := canon_pep_ast w true F a' ha' he' hn' hf'
  have hp := parse_render_pep a ha
  have hp' := parse_render_pep a' ha'
  rw [← hc, h, hc', hp'] at hp
  injection hp with hp
  have h1 : a'.nums = a.nums := by
    have := congrArg Version.num hp
    simpa [PepAst.parsed, PepAst.parsedV] using this
  have h2 : a'.extPre a'.ext0 = a.extPre a.ext0 := by
    have := congrArg Version.ext hp
    simpa [PepAst.parsed] using this
  have hg : a'.fields = a.fields := by
    rw [← extPre_getD a' a'.ext0 (ext0_getD a'), ← extPre_getD a a.ext0 (ext0_getD a), h2]
  exact vcompare_pep_same v w E F hv.sys hw.sys he he' (by rw [hn', hn, h1]) (by rw [hf', hf, hg])

end DepsDev.Proofs.C10
