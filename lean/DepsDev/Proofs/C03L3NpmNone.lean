import DepsDev.Proofs.C03L3Npm

/-!
# C03 layer L3 for npm, operator `none`: one comparator, prerelease candidates (operands without tag)

See `C03L3Npm` for the statements and the proof script; `C03L3NpmNoneP` has the tagged operands
and the assembled `L3Npm .none`.
-/
namespace DepsDev.Proofs.C03

open DepsDev DepsDev.Semver DepsDev.Ref

set_option linter.unusedSimpArgs false
set_option linter.unusedVariables false

theorem l3_full_none : L3Full .none := by l3_full
theorem l3_part_none : L3Part .none := by l3_part

end DepsDev.Proofs.C03
