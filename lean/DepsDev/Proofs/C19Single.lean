/-
Helper lemmas for C19, part 8: `strings.TrimSpace` and `strings.Cut` on the text of the
single-attribute form `lower(key) + " " + strconv.Quote(value)` (the round trip itself
is `ver_single_roundtrip_all` in C19DepAll).
-/
import DepsDev.Proofs.C19Quote

namespace DepsDev.Proofs.C19
open DepsDev DepsDev.Gen DepsDev.Model.Resolve DepsDev.Model.Resolve.Attr DepsDev.Model.Resolve.AttrText
open DepsDev.Model.Resolve.AttrMachine DepsDev.Model.Resolve.AttrSpec

/-- the text written for one attribute (as the machine op `qs` writes it). -/
def singleText (key : Int) (v : Bytes) : Bytes := verLowerName key ++ [0x20] ++ quote v

theorem spaceWidth_quote (rest : Bytes) : spaceWidth (0x22 :: rest) = 0 := by
  simp [spaceWidth, C19Print.spacePatterns, List.find?, List.isPrefixOf]

theorem spaceWidthRev_quote (rest : Bytes) : spaceWidthRev (0x22 :: rest) = 0 := by
  simp [spaceWidthRev, C19Print.spacePatterns, List.find?, List.isPrefixOf]

theorem trimLeftGo_id (b : UInt8) (rest : Bytes) (h : spaceWidth (b :: rest) = 0) :
    trimLeftGo (b :: rest) 0 = b :: rest := by
  rw [trimLeftGo]; simp [h]

theorem trimRightGo_id (b : UInt8) (rest : Bytes) (h : spaceWidthRev (b :: rest) = 0) :
    trimRightGo (b :: rest) 0 = b :: rest := by
  rw [trimRightGo]; simp [h]

/-- `TrimSpace` leaves a string alone that starts without white space and ends in `"`. -/
theorem trimSpace_id (b : UInt8) (mid : Bytes) (h : spaceWidth (b :: (mid ++ [0x22])) = 0) :
    trimSpace (b :: (mid ++ [0x22])) = b :: (mid ++ [0x22]) := by
  unfold trimSpace
  rw [trimLeftGo_id b _ h]
  have : (b :: (mid ++ [0x22])).reverse = 0x22 :: (mid.reverse ++ [b]) := by simp
  rw [this, trimRightGo_id _ _ (spaceWidthRev_quote _)]
  simp

theorem no_space_of_hasSpace (t : Bytes) (h : hasSpace t = false) : ∀ b ∈ t, b ≠ 0x20 := by
  induction t with
  | nil => intro b hb; cases hb
  | cons a t ih =>
    rw [hasSpace_cons] at h
    simp only [Bool.or_eq_false_iff, bne_eq_false_iff_eq, beq_iff_eq] at h
    intro b hb
    simp only [List.mem_cons] at hb
    rcases hb with e | hb
    · intro e2
      have ha : a = 0x20 := by rw [← e, e2]
      rw [ha, spaceWidth_space] at h
      exact absurd h.1 (by decide)
    · exact ih h.2 b hb

theorem cutSpace_append (name q : Bytes) (h : ∀ b ∈ name, b ≠ 0x20) :
    cutSpace (name ++ 0x20 :: q) = (name, q, true) := by
  induction name with
  | nil => simp [cutSpace]
  | cons a name ih =>
    have ha : (a == 0x20) = false := by simpa using h a (by simp)
    simp only [List.cons_append, cutSpace, ha, Bool.false_eq_true, if_false]
    rw [ih (fun b hb => h b (by simp [hb]))]

end DepsDev.Proofs.C19
