/-
Helper lemmas for C19, part 8: the single-attribute form
`versiontest.ParseSingle(lower(key) + " " + strconv.Quote(value))` for ASCII values.
-/
import DepsDev.Proofs.C19Quote

namespace DepsDev.Proofs.C19
open DepsDev DepsDev.Gen DepsDev.Model.Resolve DepsDev.Model.Resolve.Attr DepsDev.Model.Resolve.AttrText
open DepsDev.Model.Resolve.AttrMachine DepsDev.Model.Resolve.AttrSpec

/-- the text written for one attribute (as the machine op `qs` writes it). -/
def singleText (key : Int) (v : Bytes) : Bytes := verLowerName key ++ [0x20] ++ quote v

theorem spaceWidth_quote (rest : Bytes) : spaceWidth (0x22 :: rest) = 0 := by
  simp [spaceWidth, C19Print.spacePatterns, List.find?, List.isPrefixOf]

theorem spaceWidthRev_quote (rest : Bytes) : spaceWidthRev (0x22 :: rest) = 0 := by
  simp [spaceWidthRev, C19Print.spacePatterns, List.find?, List.isPrefixOf]

theorem trimLeftGo_id (b : UInt8) (rest : Bytes) (h : spaceWidth (b :: rest) = 0) :
    trimLeftGo (b :: rest) 0 = b :: rest := by
  rw [trimLeftGo]; simp [h]

theorem trimRightGo_id (b : UInt8) (rest : Bytes) (h : spaceWidthRev (b :: rest) = 0) :
    trimRightGo (b :: rest) 0 = b :: rest := by
  rw [trimRightGo]; simp [h]

/-- `TrimSpace` leaves a string alone that starts without white space and ends in `"`. -/
theorem trimSpace_id (b : UInt8) (mid : Bytes) (h : spaceWidth (b :: (mid ++ [0x22])) = 0) :
    trimSpace (b :: (mid ++ [0x22])) = b :: (mid ++ [0x22]) := by
  unfold trimSpace
  rw [trimLeftGo_id b _ h]
  have : (b :: (mid ++ [0x22])).reverse = 0x22 :: (mid.reverse ++ [b]) := by simp
  rw [this, trimRightGo_id _ _ (spaceWidthRev_quote _)]
  simp

theorem no_space_of_hasSpace (t : Bytes) (h : hasSpace t = false) : ∀ b ∈ t, b ≠ 0x20 := by
  induction t with
  | nil => intro b hb; cases hb
  | cons a t ih =>
    rw [hasSpace_cons] at h
    simp only [Bool.or_eq_false_iff, bne_eq_false_iff_eq, beq_iff_eq] at h
    intro b hb
    simp only [List.mem_cons] at hb
    rcases hb with e | hb
    · intro e2
      have ha : a = 0x20 := by rw [← e, e2]
      rw [ha, spaceWidth_space] at h
      exact absurd h.1 (by decide)
    · exact ih h.2 b hb

theorem cutSpace_append (name q : Bytes) (h : ∀ b ∈ name, b ≠ 0x20) :
    cutSpace (name ++ 0x20 :: q) = (name, q, true) := by
  induction name with
  | nil => simp [cutSpace]
  | cons a name ih =>
    have ha : (a == 0x20) = false := by simpa using h a (by simp)
    simp only [List.cons_append, cutSpace, ha, Bool.false_eq_true, if_false]
    rw [ih (fun b hb => h b (by simp [hb]))]

/-- `versiontest.ParseSingle` reads the written form of one attribute back: the result
holds exactly that attribute. -/
theorem ver_single_roundtrip (h : Heap) (key : Int) (hkey : key ∈ C19AttrKeys.versionAllKeys)
    (v : Bytes) (hv : isAscii v = true) :
    ∃ h' s', versionParseSingle h (singleText key v) = .ok (h', s') ∧ SetOK h' s' ∧
      absOf h' s' = stepAbs (0, fun _ => none) (key, v) := by
  have hplain := ver_names_plain key hkey
  simp only [plainTok, Bool.and_eq_true, Bool.not_eq_eq_eq_not, Bool.not_true] at hplain
  obtain ⟨hne, hns⟩ := hplain
  cases hn : verLowerName key with
  | nil => simp [hn] at hne
  | cons n0 ns =>
    rw [hn] at hns
    have hsw : spaceWidth (n0 :: ns) = 0 := by
      rw [hasSpace_cons] at hns
      simp only [Bool.or_eq_false_iff, bne_eq_false_iff_eq, beq_iff_eq] at hns
      exact hns.1
    -- the whole text, as  n0 :: (mid ++ ["])
    have htext : singleText key v = n0 :: ((ns ++ 0x20 :: 0x22 :: quoteGo v 0) ++ [0x22]) := by
      simp [singleText, hn, quote]
    have hsw2 : spaceWidth (n0 :: ((ns ++ 0x20 :: 0x22 :: quoteGo v 0) ++ [0x22])) = 0 := by
      have : n0 :: ((ns ++ 0x20 :: 0x22 :: quoteGo v 0) ++ [0x22]) =
          (n0 :: ns) ++ 0x20 :: (0x22 :: quoteGo v 0 ++ [0x22]) := by simp
      rw [this, spaceWidth_append_space]; exact hsw
    have htrim : trimSpace (singleText key v) = (n0 :: ns) ++ 0x20 :: quote v := by
      rw [htext, trimSpace_id _ _ hsw2]; simp [quote]
    have hcut : cutSpace (trimSpace (singleText key v)) = (n0 :: ns, quote v, true) := by
      rw [htrim]; exact cutSpace_append _ _ (no_space_of_hasSpace _ hns)
    have htq : trimSpace (quote v) = quote v := by
      have : quote v = 0x22 :: (quoteGo v 0 ++ [0x22]) := rfl
      rw [this]; exact trimSpace_id _ _ (spaceWidth_quote _)
    have hlook := ver_lookup key hkey
    rw [hn] at hlook
    obtain ⟨h2, s2, he, hok, habs⟩ := addAttr_abs h Set.zero key v (setOK_zero h)
      (fun _ => ver_keys_lt key hkey)
    refine ⟨h2, s2, ?_, hok, ?_⟩
    · dsimp only [versionParseSingle]
      rw [hcut]
      simp only [if_true, htq]
      have hq : (quote v).head? = some 0x22 := rfl
      simp only [hq, beq_self_eq_true, Bool.true_or, if_true, unquote_quote v hv, hlook]
      exact he
    · rw [habs]; rfl

end DepsDev.Proofs.C19
