import DepsDev.Model.Semver.Constraint

/-!
# C03: `token` consumes at least one byte unless it reports the end of the input

Used to show that the fuel of `andList`/`orList` (`len(rest) + 2`) suffices for a requirement
whose tokens are those of a comparator list.
-/
namespace DepsDev.Proofs.C03

open DepsDev DepsDev.Semver

theorem skipWS_length (s : Bytes) : (skipWS s).length ≤ s.length := by
  induction s with
  | nil => simp [skipWS]
  | cons c t ih =>
    unfold skipWS
    split
    · simp only [List.length_cons]; omega
    · simp

theorem decodeRune_pos (c : UInt8) (t : Bytes) : 1 ≤ (Bytes.decodeRune (c :: t)).2 := by
  unfold Bytes.decodeRune
  simp only
  repeat' split
  all_goals simp

theorem tokenScan_length (sys : System) (typ : Nat) (ops : OpSet) (tok rest : Bytes) :
    (tokenScan sys typ ops tok rest).2.length ≤ rest.length := by
  induction rest generalizing tok with
  | nil => simp [tokenScan]
  | cons c r ih =>
    unfold tokenScan
    split
    · have := ih (tok ++ [c]); simp only [List.length_cons]; omega
    · split
      · simp
      · split
        · simp
        · split
          · simp
          · have := ih (tok ++ [c]); simp only [List.length_cons]; omega

/-- Every token but the end-of-input marker consumes at least one byte. -/
theorem token_shrinks (sys : System) (str tok rest : Bytes) (typ : Nat)
    (h : token sys str = .ok (typ, tok, rest)) (hne : typ ≠ tokEOF) : rest.length < str.length := by
  unfold token at h
  split at h
  · injection h with h
    injection h with h _
    exact absurd h.symm hne
  · rename_i s hd tl hsk
    have hlen : (hd :: tl).length ≤ str.length := by rw [← hsk]; exact skipWS_length str
    have hw := decodeRune_pos hd tl
    have hdrop : ((hd :: tl).drop (Bytes.decodeRune (hd :: tl)).2).length < str.length := by
      simp only [List.length_drop, List.length_cons] at hlen ⊢
      omega
    have hscan := fun (t : Nat) (ops : OpSet) =>
      tokenScan_length sys t ops ((hd :: tl).take (Bytes.decodeRune (hd :: tl)).2) ((hd :: tl).drop (Bytes.decodeRune (hd :: tl)).2)
    simp only [bind, Outcome.bind] at h
    split at h
    · injection h with h
      injection h with _ h
      injection h with _ h
      rw [← h]; exact hdrop
    · split at h
      · rename_i ops hops
        have hs := hscan (typeOf sys (Bytes.decodeRune (hd :: tl)).1) ops
        have fin : ∀ (a : Nat) (b : Bytes),
            Outcome.ok (a, b, (tokenScan sys (typeOf sys (Bytes.decodeRune (hd :: tl)).1) ops
              ((hd :: tl).take (Bytes.decodeRune (hd :: tl)).2) ((hd :: tl).drop (Bytes.decodeRune (hd :: tl)).2)).2) =
              Outcome.ok (typ, tok, rest) → rest.length < str.length := by
          intro a b e
          injection e with e
          injection e with _ e
          injection e with _ e
          rw [← e]; omega
        split at h
        · exact fin _ _ h
        · split at h
          · split at h
            · exact fin _ _ h
            · exact fin _ _ h
          · split at h
            · split at h
              · split at h
                · exact fin _ _ h
                · exact fin _ _ h
              · exact fin _ _ h
            · exact fin _ _ h
      · cases h
      · cases h

end DepsDev.Proofs.C03
