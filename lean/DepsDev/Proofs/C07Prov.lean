import DepsDev.Proofs.C07WF
import DepsDev.Proofs.C07FindMatch

/-! C07 central invariant: every edge of the graph has a *provenance* — the popped todo
element it was added for, the declaration of that element, the list of requirements
`findMatch` was run on (a prefix of the final list for the artifact key) and its answer.
M3, M5, M6 (local form), M7 and the base of M2 are corollaries (Props/C07.lean). -/

namespace DepsDev.Resolve.Maven
open DepsDev.Gen

/-! ### small facts about the maps -/

theorem get_set_same (m : ReqMap) (k : PackageKey) (v : List Bytes) : (m.set k v).get k = v := by
  simp [ReqMap.get, ReqMap.set, lookup_cons_eq]

theorem get_set_other (m : ReqMap) {k k' : PackageKey} (v : List Bytes) (h : k' ≠ k) :
    (m.set k v).get k' = m.get k' := by
  simp [ReqMap.get, ReqMap.set, lookup_cons_eq, h]

theorem mem_reqsAfter (m : ReqMap) (pk : PackageKey) (ver : Bytes) : ver ∈ (reqsAfter m pk ver).get pk := by
  unfold reqsAfter
  split
  · rename_i h; simpa using h
  · simp [get_set_same]

theorem reqsAfter_prefix (m : ReqMap) (pk : PackageKey) (ver : Bytes) (k : PackageKey) :
    m.get k <+: (reqsAfter m pk ver).get k := by
  unfold reqsAfter
  split
  · exact List.prefix_refl _
  · by_cases h : k = pk
    · subst h; rw [get_set_same]; exact List.prefix_append _ _
    · rw [get_set_other _ _ h]; exact List.prefix_refl _

/-- requirements only grow, by appending, in one step -/
theorem step_reqs_prefix {u : Universe} {mgt : List (PackageKey × Bytes)} {first : Bool} {cur : Todo}
    {d : Dep} {s s' : State} (hs : DepStep u mgt first cur d s s') (k : PackageKey) :
    s.requirements.get k <+: s'.requirements.get k := by
  cases hs with
  | excluded _ => exact List.prefix_refl _
  | noMatch _ _ => exact reqsAfter_prefix _ _ _ _
  | edge _ _ _ _ _ _ _ => exact reqsAfter_prefix _ _ _ _
  | newNode _ _ _ _ _ _ _ _ => exact reqsAfter_prefix _ _ _ _

/-- the version key stored at a node id never changes -/
theorem step_vkAt_mono {u : Universe} {mgt : List (PackageKey × Bytes)} {first : Bool} {cur : Todo}
    {d : Dep} {s s' : State} (hs : DepStep u mgt first cur d s s') {i : Nat} {v : VK}
    (h : s.g.vkAt i = some v) : s'.g.vkAt i = some v := by
  cases hs with
  | excluded _ => exact h
  | noMatch _ _ => simpa using h
  | edge _ _ _ _ _ _ hadd => obtain ⟨_, _, rfl⟩ := addEdge_some hadd; exact h
  | newNode mv _ _ _ _ _ _ hadd =>
    obtain ⟨_, _, rfl⟩ := addEdge_some hadd
    exact vkAt_addNode_old (v := { name := d.name, version := mv }) h

theorem step_done {u : Universe} {mgt : List (PackageKey × Bytes)} {first : Bool} {cur : Todo}
    {d : Dep} {s s' : State} (hs : DepStep u mgt first cur d s s') : s'.done = s.done := by
  cases hs <;> rfl

/-- what `imports` returns are declarations of the universe that passed the filter -/
theorem mem_imports {u : Universe} {vk : VK} {o : ImportsOpt} {imps : List Dep} {d : Dep}
    (h : imports u vk o = some imps) (hd : d ∈ imps) :
    ∃ is imp, clientRequirements u vk.name vk.version = some is ∧ imp ∈ is ∧
      filterImport o imp = true ∧ d = toDep imp := by
  unfold imports at h
  cases hc : clientRequirements u vk.name vk.version with
  | none => simp [hc] at h
  | some is =>
    simp only [hc, Option.map_some, Option.some.injEq] at h
    subst h
    simp only [List.mem_map, List.mem_filter] at hd
    obtain ⟨imp, ⟨hm, hf⟩, rfl⟩ := hd
    exact ⟨is, imp, rfl, hm, hf, rfl⟩

/-! ### provenance -/

/-- `e` was added while the declarations of a logged todo element were processed. -/
structure EdgeProv (u : Universe) (mgt : List (PackageKey × Bytes)) (log : List (Nat × Bool × Todo))
    (s : State) (e : Edge) : Prop where
  intro ::
  ex : ∃ (first : Bool) (cur : Todo) (d : Dep) (imps : List Dep) (mv : Bytes) (L : List Bytes),
    (e.src, first, cur) ∈ log ∧
    cur.includesDependencies = false ∧
    imports u cur.key.vk (optsOf first) = some imps ∧ d ∈ imps ∧
    isExcluded cur.exclusions d.name = some false ∧
    s.g.vkAt e.dst = some { name := d.name, version := mv } ∧
    e.req = depVer mgt first d ∧
    (e.typ = d.typ ∨ e.typ = d.typ.setAttr C07Consts.keySelector.toNat []) ∧
    L <+: s.requirements.get (depKey d) ∧ depVer mgt first d ∈ L ∧
    findMatch u d.name L = .ok mv

theorem EdgeProv.mono {u : Universe} {mgt : List (PackageKey × Bytes)} {log log' : List (Nat × Bool × Todo)}
    {s s' : State} {e : Edge} (h : EdgeProv u mgt log s e)
    (hlog : ∀ x ∈ log, x ∈ log')
    (hvk : ∀ i v, s.g.vkAt i = some v → s'.g.vkAt i = some v)
    (hreq : ∀ k, s.requirements.get k <+: s'.requirements.get k) : EdgeProv u mgt log' s' e := by
  obtain ⟨first, cur, d, imps, mv, L, h1, h2, h3, h4, h5, h6, h7, h8, h9, h10, h11⟩ := h.ex
  exact ⟨first, cur, d, imps, mv, L, hlog _ h1, h2, h3, h4, h5, hvk _ _ h6, h7, h8,
    List.IsPrefix.trans h9 (hreq _), h10, h11⟩

/-- Invariant between iterations. -/
structure ProvI (u : Universe) (mgt : List (PackageKey × Bytes)) (root : VK) (reqs0 : ReqMap)
    (first : Bool) (s : State) : Prop where
  edges : ∀ e ∈ s.g.edges, EdgeProv u mgt s.done s e
  doneFirst : ∀ x ∈ s.done, (x.2.1 = true ↔ x.1 = 0)
  init : first = true → s = initState root reqs0
  todoPos : first = false → ∀ t ∈ s.todo, ∃ id, s.concreteVersions.lookup t.key = some id ∧ id ≠ 0

/-- Invariant while the declarations of `cur` are processed. -/
structure ProvJ (u : Universe) (mgt : List (PackageKey × Bytes)) (first : Bool) (cur : Todo) (curId : Nat)
    (s : State) : Prop where
  edges : ∀ e ∈ s.g.edges, EdgeProv u mgt (s.done ++ [(curId, first, cur)]) s e
  doneFirst : ∀ x ∈ s.done, (x.2.1 = true ↔ x.1 = 0)
  curFirst : first = true ↔ curId = 0
  todoPos : ∀ t ∈ s.todo, ∃ id, s.concreteVersions.lookup t.key = some id ∧ id ≠ 0

theorem prov_loop {u : Universe} {mgt : List (PackageKey × Bytes)} {root : VK} {reqs0 : ReqMap}
    {fuel : Nat} {s : State}
    (h : loop u mgt fuel true (initState root reqs0) = .ok (some s)) :
    (∃ f, ProvI u mgt root reqs0 f s) ∧ WF root s ∧ s.todo = [] := by
  have := loop_inv_wf (u := u) (mgt := mgt) root
    (ProvI u mgt root reqs0) (fun first cur curId _ s => ProvJ u mgt first cur curId s)
    (by
      intro first s cur rest hw hx htodo hcur
      refine ⟨?_, hx.doneFirst, ?_, ?_⟩
      · intro e he
        exact (hx.edges e he).mono (fun x hx => by simp [hx]) (fun _ _ h => h) (fun _ => List.prefix_refl _)
      · cases first with
        | true =>
          have := hx.init rfl
          subst this
          simp only [initState, List.cons.injEq] at htodo
          obtain ⟨rfl, _⟩ := htodo
          simp [curIdOf, initState, lookup_cons_eq]
        | false =>
          obtain ⟨id, hid, hne⟩ := hx.todoPos rfl cur (by simp [htodo])
          rw [curIdOf_eq hid]
          simp [hne]
      · cases first with
        | true =>
          have := hx.init rfl
          subst this
          simp only [initState, List.cons.injEq] at htodo
          obtain ⟨_, rfl⟩ := htodo
          intro t ht; cases ht
        | false =>
          intro t ht
          exact hx.todoPos rfl t (by simp [htodo, ht]))
    (by
      intro first cur curId imps ds d s s' hinc himps hpos hwj hy hs
      have hd : d ∈ imps := by obtain ⟨rest, rfl⟩ := hpos; simp
      have hcid : curIdOf s cur = curId := curIdOf_eq hwj.2
      have hdone := step_done hs
      have hold : ∀ e ∈ s.g.edges, EdgeProv u mgt (s'.done ++ [(curId, first, cur)]) s' e := by
        intro e he
        rw [hdone]
        exact (hy.edges e he).mono (fun _ h => h) (fun _ _ h => step_vkAt_mono hs h) (step_reqs_prefix hs)
      have hpos0 : 0 < s.g.nodes.length := vkAt_lt hwj.1.root0
      cases hs with
      | excluded _ => exact hy
      | noMatch _ _ =>
        exact ⟨fun e he => hold e (by simpa using he), hy.doneFirst, hy.curFirst, hy.todoPos⟩
      | edge mv id g' hex hfm hid hadd =>
        obtain ⟨_, _, rfl⟩ := addEdge_some hadd
        refine ⟨?_, hy.doneFirst, hy.curFirst, hy.todoPos⟩
        intro e he
        simp only [List.mem_append, List.mem_singleton] at he
        rcases he with he | rfl
        · exact hold e he
        · have hv : s.g.vkAt id = some { name := d.name, version := mv } := by
            rcases hid with hid | ⟨_, _, hid⟩
            · exact hwj.1.cvSound _ _ hid
            · exact hwj.1.nodesSound _ _ hid
          exact ⟨first, cur, d, imps, mv, _, by simp [hcid], hinc, himps, hd, hex, hv, rfl, .inl rfl,
            List.prefix_refl _, mem_reqsAfter _ _ _, hfm⟩
      | newNode mv g2 hex hfm hcv hrp hn hadd =>
        obtain ⟨_, _, rfl⟩ := addEdge_some hadd
        refine ⟨?_, hy.doneFirst, hy.curFirst, ?_⟩
        · intro e he
          simp only [List.mem_append, List.mem_singleton, edges_addNode] at he
          rcases he with he | rfl
          · exact hold e he
          · exact ⟨first, cur, d, imps, mv, _, by simp [hcid], hinc, himps, hd, hex,
              vkAt_addNode_new s.g _, rfl, .inr rfl, List.prefix_refl _, mem_reqsAfter _ _ _, hfm⟩
        · intro t ht
          simp only [List.mem_append, List.mem_singleton] at ht
          rcases ht with ht | rfl
          · obtain ⟨id, hid, hne⟩ := hy.todoPos t ht
            refine ⟨id, ?_, hne⟩
            simp only [lookup_cons_eq]
            split
            · rename_i hk; rw [hk, hcv] at hid; cases hid
            · exact hid
          · exact ⟨s.g.nodes.length, by simp [childTodo, lookup_cons_eq], by omega⟩)
    (by
      intro first cur curId ds s _ hwj hy
      refine ⟨fun e he => (hy.edges e he).mono (fun _ h => h) (fun _ _ h => h) (fun _ => List.prefix_refl _),
        ?_, by simp, fun _ => hy.todoPos⟩
      intro x hx
      simp only [List.mem_append, List.mem_singleton] at hx
      rcases hx with hx | rfl
      · exact hy.doneFirst x hx
      · exact hy.curFirst)
    fuel true (initState root reqs0) s (wf_init root reqs0)
    ⟨by simp [initState], by simp [initState], fun _ => rfl, by simp⟩ h
  obtain ⟨f, hx, hw, ht⟩ := this
  exact ⟨⟨f, hx⟩, hw, ht⟩

end DepsDev.Resolve.Maven
