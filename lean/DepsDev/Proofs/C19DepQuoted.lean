/-
Helper lemmas for C19, part 9: tools for the `deptest` round trip when ONE value is
written quoted, as the last item (`depQuotedOK`): `strings.Fields` on text whose only
white space is the space byte (`af`), the parser's inner loop over the pieces
(`joinQuoted_run`), and the bookkeeping of the writer's items. The pieces themselves are
followed through `Quote`'s output in C19DepAll (`pieces_chunks`).
-/
import DepsDev.Proofs.C19Single

namespace DepsDev.Proofs.C19
open DepsDev DepsDev.Gen DepsDev.Model.Resolve DepsDev.Model.Resolve.Attr DepsDev.Model.Resolve.AttrText
open DepsDev.Model.Resolve.AttrMachine DepsDev.Model.Resolve.AttrSpec

/-! ### Fields on printable ASCII -/

/-- `strings.Fields` on a string of printable ASCII: split at the spaces. -/
def af : Bytes → Bytes → List Bytes
  | [], cur => if cur.isEmpty then [] else [cur.reverse]
  | b :: rest, cur =>
    if b = 0x20 then (if cur.isEmpty then [] else [cur.reverse]) ++ af rest []
    else af rest (b :: cur)

def printable (X : Bytes) : Bool := X.all fun b => decide (0x20 ≤ b.toNat) && decide (b.toNat ≤ 0x7E)

/-- no white-space encoding starts with a printable ASCII character other than the space. -/
theorem patterns_head : C19Print.spacePatterns.all (fun p =>
    match p.head? with
    | some c => !(decide (0x21 ≤ c.toNat) && decide (c.toNat ≤ 0x7E))
    | none => false) = true := by decide

theorem spaceWidth_printable (b : UInt8) (rest : Bytes) (h1 : 0x21 ≤ b.toNat) (h2 : b.toNat ≤ 0x7E) :
    spaceWidth (b :: rest) = 0 := by
  unfold spaceWidth
  have : C19Print.spacePatterns.find? (fun p => p.isPrefixOf (b :: rest)) = none := by
    rw [List.find?_eq_none]
    intro p hp
    have := (List.all_eq_true.mp patterns_head) p hp
    cases p with
    | nil => simp at this
    | cons c p =>
      simp only [List.head?_cons, Bool.not_eq_eq_eq_not, Bool.not_true, Bool.and_eq_false_imp,
        decide_eq_true_eq, decide_eq_false_iff_not] at this
      simp only [List.isPrefixOf_cons_cons, Bool.and_eq_true, beq_iff_eq, not_and]
      intro e
      subst e
      exact absurd h2 (this h1)
  rw [this]

theorem fieldsGo_printable (X cur : Bytes) (hX : printable X = true) : fieldsGo X 0 cur = af X cur := by
  induction X generalizing cur with
  | nil => rfl
  | cons b rest ih =>
    simp only [printable, List.all_cons, Bool.and_eq_true, decide_eq_true_eq] at hX
    have ih' := fun c => ih c (by simpa [printable] using hX.2)
    by_cases hb : b = 0x20
    · subst hb
      rw [fieldsGo_space, af]
      simp [ih']
    · have hge : 0x21 ≤ b.toNat := by
        have : b.toNat ≠ 0x20 := fun e => hb (UInt8.toNat.inj (by simpa using e))
        omega
      rw [fieldsGo, af]
      simp [spaceWidth_printable b rest hge hX.1.2, hb, ih']

theorem af_nospace (e rest cur : Bytes) (h : ∀ x ∈ e, x ≠ 0x20) :
    af (e ++ rest) cur = af rest (e.reverse ++ cur) := by
  induction e generalizing cur with
  | nil => rfl
  | cons x e ih =>
    have hx := h x (by simp)
    simp only [List.cons_append, af, hx, if_false]
    rw [ih (x :: cur) (fun y hy => h y (by simp [hy]))]
    simp

/-! ### the inner loop of "join quoted fields" -/

/-- the piece ends the quoted value: it ends in `"` and not in `\"`. -/
def term (p : Bytes) : Bool :=
  p.getLast? == some 0x22 && !(decide (p.length ≥ 2) && endsWithBackslashQuote p)

theorem joinQuoted_run (init : List Bytes) (last : Bytes) :
    ∀ (sk : Bool) (acc : List Bytes), (∀ p ∈ init, term p = false) → term last = true →
      joinQuoted sk (some acc) (init ++ [last]) =
        match unquote (join [0x20] (acc ++ init ++ [last])) with
        | none => .err
        | some uq => .ok [uq] := by
  induction init with
  | nil =>
    intro sk acc _ hl
    simp only [term, Bool.and_eq_true, Bool.not_eq_eq_eq_not, Bool.not_true] at hl
    simp only [List.nil_append, List.append_nil, joinQuoted, hl.1, if_true]
    have : (decide (last.length ≥ 2) && endsWithBackslashQuote last) = false := hl.2
    simp only [this, Bool.false_eq_true, if_false]
    cases unquote (join [0x20] (acc ++ [last])) <;> rfl
  | cons p init ih =>
    intro sk acc hi hl
    have hp := hi p (by simp)
    have ih' := ih false (acc ++ [p]) (fun q hq => hi q (by simp [hq])) hl
    simp only [List.cons_append, joinQuoted]
    have happ : acc ++ [p] ++ init ++ [last] = acc ++ p :: init ++ [last] := by simp
    by_cases h1 : (p.getLast? == some 0x22) = true
    · simp only [term, h1, Bool.true_and, Bool.not_eq_eq_eq_not, Bool.not_false] at hp
      simp only [h1, if_true, hp, if_true]
      rw [ih', happ]
    · simp only [h1, Bool.false_eq_true, if_false]
      rw [ih', happ]

theorem joinQuoted_start (p1 : Bytes) (rest : List Bytes) (h : p1.head? = some 0x22) :
    joinQuoted false none (p1 :: rest) = joinQuoted false (some []) (p1 :: rest) := by
  simp only [joinQuoted, h, bne_self_eq_false, Bool.false_eq_true, if_false, List.nil_append]

/-! ### closed facts about the escapes of the 128 ASCII runes (by evaluation) -/

theorem ascii_escapes2 : ∀ r, r < 128 →
    printable (escapeRune r) = true ∧
    (r ≠ 0x20 → ∀ x ∈ escapeRune r, x ≠ 0x20) ∧
    ((escapeRune r).getLast? = some 0x22 → escapeRune r = [0x5C, 0x22]) ∧
    ((escapeRune r).getLast? = some 0x5C → r = 0x5C) := by
  decide

theorem escape_space : escapeRune 0x20 = [0x20] := by decide

/-! ### the pieces of a quoted ASCII value -/

/-- the current piece (reversed) does not end in a bare quote. -/
def NB (cur : Bytes) : Prop := cur.head? = some 0x22 → ∃ t, cur = 0x22 :: 0x5C :: t

theorem term_false_of_NB (cur : Bytes) (hne : cur ≠ []) (h : NB cur) : term cur.reverse = false := by
  unfold term
  cases cur with
  | nil => exact absurd rfl hne
  | cons c t =>
    by_cases hc : c = 0x22
    · subst hc
      obtain ⟨t', ht⟩ := h rfl
      injection ht with _ ht
      subst ht
      simp [endsWithBackslashQuote]
    · simp [hc]

/-! ### pieces are non-empty -/

theorem af_nonempty (X : Bytes) : ∀ cur, ∀ p ∈ af X cur, p ≠ [] := by
  induction X with
  | nil =>
    intro cur p hp
    simp only [af] at hp
    cases cur with
    | nil => simp at hp
    | cons c t => simp at hp; rw [hp]; simp
  | cons b rest ih =>
    intro cur p hp
    simp only [af] at hp
    split at hp
    · simp only [List.mem_append] at hp
      rcases hp with hp | hp
      · cases cur with
        | nil => simp at hp
        | cons c t => simp at hp; rw [hp]; simp
      · exact ih [] p hp
    · exact ih _ p hp

/-! ### all items -/

/-- the token the parser ends up with for an item: the value itself for a quoted item. -/
def itemTok (it : Bytes × Option Bytes) : Bytes :=
  match it.2 with
  | some v => v
  | none => it.1

theorem fields_cons_join (t : Bytes) (r1 : Bytes) (rs : List Bytes) (ht : plainTok t = true) :
    fields (join [0x20] (t :: r1 :: rs)) = t :: fields (join [0x20] (r1 :: rs)) := by
  simp only [plainTok, Bool.and_eq_true, Bool.not_eq_eq_eq_not, Bool.not_true] at ht
  unfold fields
  simp only [join]
  have : t ++ [0x20] ++ join [0x20] (r1 :: rs) = t ++ 0x20 :: join [0x20] (r1 :: rs) := by simp
  rw [this, fieldsGo_token t _ [] ht.2, fieldsGo_space]
  cases t with
  | nil => simp at ht
  | cons b t' => simp

/-- the tokens the parser ends up with are, key by key, the name and the value. -/
theorem depItems_toks (h : Heap) (s : Set) :
    (depItems h s).map itemTok = C19AttrKeys.depAllKeys.flatMap (chunk C19AttrKeys.depFlagKeys depName h s) := by
  rw [depItems_eq, List.map_flatMap]
  apply flatMap_congr'
  intro key _
  simp only [depItemsOf, chunk, depName]
  cases hg : getAttrW h s key with
  | none => rfl
  | some v =>
    by_cases hf : key ∈ C19AttrKeys.depFlagKeys
    · simp [hf, itemTok]
    · by_cases hn : depNeedsQuote v = true
      · simp [hf, hn, itemTok]
      · simp [hf, hn, itemTok]

theorem depItems_facts (h : Heap) (s : Set) :
    (∀ it ∈ depItems h s, it.2 = none → plainTok it.1 = true ∧ it.1.head? ≠ some 0x22) ∧
    (∀ it ∈ depItems h s, ∀ v, it.2 = some v → it.1 = quote v) := by
  constructor
  · intro it hit hnone
    rw [depItems_eq, List.mem_flatMap] at hit
    obtain ⟨key, hkey, hit⟩ := hit
    simp only [depItemsOf] at hit
    cases hg : getAttrW h s key with
    | none => simp [hg] at hit
    | some v =>
      simp only [hg, List.singleton_append, List.mem_cons] at hit
      rcases hit with e | hit
      · rw [e]; exact dep_names_plain key hkey
      · by_cases hf : key ∈ C19AttrKeys.depFlagKeys
        · simp [hf] at hit
        · by_cases hn : depNeedsQuote v = true
          · simp [hf, hn] at hit; rw [hit] at hnone; simp at hnone
          · simp only [hf, hn] at hit
            simp only [List.contains_iff_mem, hf, Bool.false_eq_true, if_false, List.mem_singleton] at hit
            rw [hit]
            have hn' : depNeedsQuote v = false := by simpa using hn
            simp only [depNeedsQuote, Bool.or_eq_false_iff, beq_eq_false_iff_ne, ne_eq] at hn'
            exact ⟨by simp [plainTok, hn'.1.1, hn'.2], hn'.1.2⟩
  · intro it hit v hsome
    rw [depItems_eq, List.mem_flatMap] at hit
    obtain ⟨key, _, hit⟩ := hit
    simp only [depItemsOf] at hit
    cases hg : getAttrW h s key with
    | none => simp [hg] at hit
    | some w =>
      simp only [hg, List.singleton_append, List.mem_cons] at hit
      rcases hit with e | hit
      · rw [e] at hsome; simp at hsome
      · by_cases hf : key ∈ C19AttrKeys.depFlagKeys
        · simp [hf] at hit
        · by_cases hn : depNeedsQuote w = true
          · simp [hf, hn] at hit
            rw [hit] at hsome ⊢
            simp at hsome
            rw [hsome]
          · simp [hf, hn] at hit
            rw [hit] at hsome; simp at hsome

end DepsDev.Proofs.C19
