/-
Helper lemmas for C19, part 9: the `deptest` round trip when ONE value is written
quoted, as the last item, and is an ASCII string that does not end in a backslash, does
not start with a space and has no two adjacent spaces (`depQuotedOK`).

`strings.Fields` splits the quoted text at its spaces; the parser's inner loop joins
the pieces again until one ends in a quote that is not preceded by a backslash. The
proof follows the pieces through `Quote`'s output escape by escape.
-/
import DepsDev.Proofs.C19Single

namespace DepsDev.Proofs.C19
open DepsDev DepsDev.Gen DepsDev.Model.Resolve DepsDev.Model.Resolve.Attr DepsDev.Model.Resolve.AttrText
open DepsDev.Model.Resolve.AttrMachine DepsDev.Model.Resolve.AttrSpec

/-! ### Fields on printable ASCII -/

/-- `strings.Fields` on a string of printable ASCII: split at the spaces. -/
def af : Bytes → Bytes → List Bytes
  | [], cur => if cur.isEmpty then [] else [cur.reverse]
  | b :: rest, cur =>
    if b = 0x20 then (if cur.isEmpty then [] else [cur.reverse]) ++ af rest []
    else af rest (b :: cur)

def printable (X : Bytes) : Bool := X.all fun b => decide (0x20 ≤ b.toNat) && decide (b.toNat ≤ 0x7E)

/-- no white-space encoding starts with a printable ASCII character other than the space. -/
theorem patterns_head : C19Print.spacePatterns.all (fun p =>
    match p.head? with
    | some c => !(decide (0x21 ≤ c.toNat) && decide (c.toNat ≤ 0x7E))
    | none => false) = true := by decide

theorem spaceWidth_printable (b : UInt8) (rest : Bytes) (h1 : 0x21 ≤ b.toNat) (h2 : b.toNat ≤ 0x7E) :
    spaceWidth (b :: rest) = 0 := by
  unfold spaceWidth
  have : C19Print.spacePatterns.find? (fun p => p.isPrefixOf (b :: rest)) = none := by
    rw [List.find?_eq_none]
    intro p hp
    have := (List.all_eq_true.mp patterns_head) p hp
    cases p with
    | nil => simp at this
    | cons c p =>
      simp only [List.head?_cons, Bool.not_eq_eq_eq_not, Bool.not_true, Bool.and_eq_false_imp,
        decide_eq_true_eq, decide_eq_false_iff_not] at this
      simp only [List.isPrefixOf_cons_cons, Bool.and_eq_true, beq_iff_eq, not_and]
      intro e
      subst e
      exact absurd h2 (this h1)
  rw [this]

theorem fieldsGo_printable (X cur : Bytes) (hX : printable X = true) : fieldsGo X 0 cur = af X cur := by
  induction X generalizing cur with
  | nil => rfl
  | cons b rest ih =>
    simp only [printable, List.all_cons, Bool.and_eq_true, decide_eq_true_eq] at hX
    have ih' := fun c => ih c (by simpa [printable] using hX.2)
    by_cases hb : b = 0x20
    · subst hb
      rw [fieldsGo_space, af]
      simp [ih']
    · have hge : 0x21 ≤ b.toNat := by
        have : b.toNat ≠ 0x20 := fun e => hb (UInt8.toNat.inj (by simpa using e))
        omega
      rw [fieldsGo, af]
      simp [spaceWidth_printable b rest hge hX.1.2, hb, ih']

theorem af_nospace (e rest cur : Bytes) (h : ∀ x ∈ e, x ≠ 0x20) :
    af (e ++ rest) cur = af rest (e.reverse ++ cur) := by
  induction e generalizing cur with
  | nil => rfl
  | cons x e ih =>
    have hx := h x (by simp)
    simp only [List.cons_append, af, hx, if_false]
    rw [ih (x :: cur) (fun y hy => h y (by simp [hy]))]
    simp

/-! ### the inner loop of "join quoted fields" -/

/-- the piece ends the quoted value: it ends in `"` and not in `\"`. -/
def term (p : Bytes) : Bool :=
  p.getLast? == some 0x22 && !(decide (p.length ≥ 2) && endsWithBackslashQuote p)

theorem joinQuoted_run (init : List Bytes) (last : Bytes) :
    ∀ (sk : Bool) (acc : List Bytes), (∀ p ∈ init, term p = false) → term last = true →
      joinQuoted sk (some acc) (init ++ [last]) =
        match unquote (join [0x20] (acc ++ init ++ [last])) with
        | none => .err
        | some uq => .ok [uq] := by
  induction init with
  | nil =>
    intro sk acc _ hl
    simp only [term, Bool.and_eq_true, Bool.not_eq_eq_eq_not, Bool.not_true] at hl
    simp only [List.nil_append, List.append_nil, joinQuoted, hl.1, if_true]
    have : (decide (last.length ≥ 2) && endsWithBackslashQuote last) = false := hl.2
    simp only [this, Bool.false_eq_true, if_false]
    cases unquote (join [0x20] (acc ++ [last])) <;> rfl
  | cons p init ih =>
    intro sk acc hi hl
    have hp := hi p (by simp)
    have ih' := ih false (acc ++ [p]) (fun q hq => hi q (by simp [hq])) hl
    simp only [List.cons_append, joinQuoted]
    have happ : acc ++ [p] ++ init ++ [last] = acc ++ p :: init ++ [last] := by simp
    by_cases h1 : (p.getLast? == some 0x22) = true
    · simp only [term, h1, Bool.true_and, Bool.not_eq_eq_eq_not, Bool.not_false] at hp
      simp only [h1, if_true, hp, if_true]
      rw [ih', happ]
    · simp only [h1, Bool.false_eq_true, if_false]
      rw [ih', happ]

theorem joinQuoted_start (p1 : Bytes) (rest : List Bytes) (h : p1.head? = some 0x22) :
    joinQuoted false none (p1 :: rest) = joinQuoted false (some []) (p1 :: rest) := by
  simp only [joinQuoted, h, bne_self_eq_false, Bool.false_eq_true, if_false, List.nil_append]

/-! ### closed facts about the escapes of the 128 ASCII runes (by evaluation) -/

theorem ascii_escapes2 : ∀ r, r < 128 →
    printable (escapeRune r) = true ∧
    (r ≠ 0x20 → ∀ x ∈ escapeRune r, x ≠ 0x20) ∧
    ((escapeRune r).getLast? = some 0x22 → escapeRune r = [0x5C, 0x22]) ∧
    ((escapeRune r).getLast? = some 0x5C → r = 0x5C) := by
  decide

theorem escape_space : escapeRune 0x20 = [0x20] := by decide

/-! ### the pieces of a quoted ASCII value -/

/-- the current piece (reversed) does not end in a bare quote. -/
def NB (cur : Bytes) : Prop := cur.head? = some 0x22 → ∃ t, cur = 0x22 :: 0x5C :: t

theorem term_false_of_NB (cur : Bytes) (hne : cur ≠ []) (h : NB cur) : term cur.reverse = false := by
  unfold term
  cases cur with
  | nil => exact absurd rfl hne
  | cons c t =>
    by_cases hc : c = 0x22
    · subst hc
      obtain ⟨t', ht⟩ := h rfl
      injection ht with _ ht
      subst ht
      simp [endsWithBackslashQuote]
    · simp [hc]

/-- The pieces `Fields` cuts `Quote(v)` into (after the opening quote, with the current
piece `cur`): all but the last do not end the quoted value, the last does, and joined by
single spaces they are the text again. -/
theorem pieces (v : Bytes) :
    ∀ cur : Bytes, isAscii v = true → hasDoubleSpace v = false → v.getLast? ≠ some 0x5C →
      ((cur = [] ∨ cur = [0x22]) → v.head? ≠ some 0x20) →
      (v = [] → cur.head? ≠ some 0x5C) → (NB cur ∨ cur = [0x22]) →
      ∃ init last, af (quoteGo v 0 ++ [0x22]) cur = init ++ [last] ∧
        (∀ p ∈ init, term p = false) ∧ term last = true ∧
        join [0x20] (init ++ [last]) = cur.reverse ++ quoteGo v 0 ++ [0x22] := by
  induction v with
  | nil =>
    intro cur _ _ _ _ hend _
    refine ⟨[], (0x22 :: cur).reverse, ?_, by simp, ?_, ?_⟩
    · simp [quoteGo, af]
    · have hc := hend rfl
      simp only [term, List.getLast?_reverse, List.head?_cons, beq_self_eq_true, Bool.true_and,
        Bool.not_eq_eq_eq_not, Bool.not_true, Bool.and_eq_false_imp, decide_eq_true_eq]
      intro _
      simp only [endsWithBackslashQuote, List.reverse_reverse]
      cases cur with
      | nil => rfl
      | cons c t =>
        have : c ≠ 0x5C := by simpa using hc
        split
        · rename_i heq
          injection heq with _ heq
          injection heq with heq _
          exact absurd heq this
        · rfl
    · simp [quoteGo, join]
  | cons b v ih =>
    intro cur hasc hds hlast hhead hend hnb
    simp only [isAscii, List.all_cons, Bool.and_eq_true, decide_eq_true_eq] at hasc
    have hascv : isAscii v = true := by simpa [isAscii] using hasc.2
    obtain ⟨hpr, hnosp, hq, hbs⟩ := ascii_escapes2 b.toNat hasc.1
    obtain ⟨_, _, _, hne, _, _, _⟩ := ascii_escapes b.toNat hasc.1
    rw [quoteGo_ascii_cons b v hasc.1, List.append_assoc]
    have hlastv : v ≠ [] → v.getLast? ≠ some 0x5C := by
      intro hv
      rwa [List.getLast?_cons_of_ne_nil hv] at hlast
    have hlastv' : v.getLast? ≠ some 0x5C := by
      cases v with
      | nil => simp
      | cons c t => exact hlastv (by simp)
    by_cases hb : b = 0x20
    · -- a space: the current piece is emitted
      subst hb
      have hcur : cur ≠ [] ∧ cur ≠ [0x22] := by
        constructor
        · intro e; exact hhead (Or.inl e) rfl
        · intro e; exact hhead (Or.inr e) rfl
      have hnb' : NB cur := by
        rcases hnb with h | h
        · exact h
        · exact absurd h hcur.2
      have hdsv : hasDoubleSpace v = false ∧ v.head? ≠ some 0x20 := by
        cases v with
        | nil => simp [hasDoubleSpace]
        | cons c t =>
          simp only [hasDoubleSpace, Bool.or_eq_false_iff, Bool.and_eq_false_imp, beq_iff_eq] at hds
          have hc : c ≠ 0x20 := by simpa using hds.1
          exact ⟨hds.2, by simpa using hc⟩
      obtain ⟨init, last, haf, hinit, hlst, hjoin⟩ :=
        ih [] hascv hdsv.1 hlastv' (fun _ => hdsv.2) (fun _ => by simp) (Or.inl (fun h => by simp at h))
      have he : escapeRune (0x20 : UInt8).toNat = [0x20] := escape_space
      rw [he]
      refine ⟨cur.reverse :: init, last, ?_, ?_, hlst, ?_⟩
      · simp only [List.cons_append, List.nil_append, af, if_true]
        have : cur.isEmpty = false := by
          cases cur with
          | nil => exact absurd rfl hcur.1
          | cons _ _ => rfl
        simp [this, haf]
      · intro p hp
        simp only [List.mem_cons] at hp
        rcases hp with e | hp
        · rw [e]; exact term_false_of_NB cur hcur.1 hnb'
        · exact hinit p hp
      · have hne2 : init ++ [last] ≠ [] := by simp
        cases hil : init ++ [last] with
        | nil => exact absurd hil hne2
        | cons x xs =>
          have : (cur.reverse :: init) ++ [last] = cur.reverse :: x :: xs := by
            rw [List.cons_append, hil]
          rw [this, join, ← hil, hjoin]
          simp
    · -- an escape without spaces: it extends the current piece
      have hbn : b.toNat ≠ 0x20 := by
        intro e; apply hb
        exact UInt8.toNat.inj (by simpa using e)
      have hns := hnosp hbn
      rw [af_nospace _ _ _ hns]
      have hcur' : (escapeRune b.toNat).reverse ++ cur ≠ [] ∧ (escapeRune b.toNat).reverse ++ cur ≠ [0x22] := by
        cases he : escapeRune b.toNat with
        | nil => exact absurd he hne
        | cons x xs =>
          constructor
          · simp
          · intro e
            -- the only way is escape = ["], impossible
            have hlen := congrArg List.length e
            simp only [List.reverse_cons, List.length_append, List.length_reverse, List.length_cons,
              List.length_nil] at hlen
            have hxs : xs = [] := by
              cases xs with
              | nil => rfl
              | cons _ _ => simp at hlen; omega
            have hc : cur = [] := by
              cases cur with
              | nil => rfl
              | cons _ _ => simp at hlen; omega
            subst hxs; subst hc
            simp at e
            have := hq (by rw [he, e]; rfl)
            rw [he, e] at this
            simp at this
      have hnb2 : NB ((escapeRune b.toNat).reverse ++ cur) := by
        intro hh
        have hl : (escapeRune b.toNat).getLast? = some 0x22 := by
          cases he : (escapeRune b.toNat).reverse with
          | nil =>
            have : escapeRune b.toNat = [] := by simpa using he
            exact absurd this hne
          | cons x xs =>
            rw [he] at hh
            simp only [List.cons_append, List.head?_cons, Option.some.injEq] at hh
            rw [← List.head?_reverse, he, hh]; rfl
        rw [hq hl]
        exact ⟨cur, rfl⟩
      have hend2 : v = [] → ((escapeRune b.toNat).reverse ++ cur).head? ≠ some 0x5C := by
        intro hv hh
        have hl : (escapeRune b.toNat).getLast? = some 0x5C := by
          cases he : (escapeRune b.toNat).reverse with
          | nil =>
            have : escapeRune b.toNat = [] := by simpa using he
            exact absurd this hne
          | cons x xs =>
            rw [he] at hh
            simp only [List.cons_append, List.head?_cons, Option.some.injEq] at hh
            rw [← List.head?_reverse, he, hh]; rfl
        have hb5 := hbs hl
        subst hv
        apply hlast
        have : b = 0x5C := UInt8.toNat.inj (by simpa using hb5)
        rw [this]; rfl
      have hdsv : hasDoubleSpace v = false := by
        cases v with
        | nil => rfl
        | cons c t =>
          simp only [hasDoubleSpace, Bool.or_eq_false_iff] at hds
          exact hds.2
      obtain ⟨init, last, haf, hinit, hlst, hjoin⟩ :=
        ih _ hascv hdsv hlastv'
          (fun h => by rcases h with h | h; exact absurd h hcur'.1; exact absurd h hcur'.2)
          hend2 (Or.inl hnb2)
      refine ⟨init, last, haf, hinit, hlst, ?_⟩
      rw [hjoin]
      simp

/-! ### one quoted value -/

theorem af_nonempty (X : Bytes) : ∀ cur, ∀ p ∈ af X cur, p ≠ [] := by
  induction X with
  | nil =>
    intro cur p hp
    simp only [af] at hp
    cases cur with
    | nil => simp at hp
    | cons c t => simp at hp; rw [hp]; simp
  | cons b rest ih =>
    intro cur p hp
    simp only [af] at hp
    split at hp
    · simp only [List.mem_append] at hp
      rcases hp with hp | hp
      · cases cur with
        | nil => simp at hp
        | cons c t => simp at hp; rw [hp]; simp
      · exact ih [] p hp
    · exact ih _ p hp

theorem quoteGo_printable (v : Bytes) (hv : isAscii v = true) : printable (quoteGo v 0) = true := by
  induction v with
  | nil => rfl
  | cons b v ih =>
    simp only [isAscii, List.all_cons, Bool.and_eq_true, decide_eq_true_eq] at hv
    rw [quoteGo_ascii_cons b v hv.1]
    have h1 := (ascii_escapes2 b.toNat hv.1).1
    have h2 := ih (by simpa [isAscii] using hv.2)
    simp only [printable, List.all_append, Bool.and_eq_true] at h1 h2 ⊢
    exact ⟨h1, h2⟩

/-- the deptest parser reads a well-formed quoted ASCII value back. -/
theorem joinQuoted_quote (v : Bytes) (hv : isAscii v = true) (hok : depQuotedOK v = true) :
    joinQuoted false none (fields (quote v)) = .ok [v] := by
  simp only [depQuotedOK, Bool.and_eq_true, bne_iff_ne, ne_eq, Bool.not_eq_eq_eq_not, Bool.not_true] at hok
  obtain ⟨⟨hlast, hhead⟩, hds⟩ := hok
  have hpr : printable (quote v) = true := by
    have := quoteGo_printable v hv
    simp only [printable, quote, List.all_cons, List.all_append, Bool.and_eq_true] at this ⊢
    exact ⟨by decide, this, by decide⟩
  have hf : fields (quote v) = af (quoteGo v 0 ++ [0x22]) [0x22] := by
    unfold fields
    rw [fieldsGo_printable _ _ hpr]
    simp [quote, af]
  obtain ⟨init, last, haf, hinit, hlst, hjoin⟩ :=
    pieces v [0x22] hv hds hlast (fun _ => hhead) (fun _ => by simp) (Or.inr rfl)
  rw [hf, haf]
  -- the first piece starts with the opening quote
  have hne : ∀ p ∈ init ++ [last], p ≠ [] := by
    intro p hp; rw [← haf] at hp; exact af_nonempty _ _ p hp
  cases hil : init ++ [last] with
  | nil => simp at hil
  | cons p1 rest =>
    have hp1 : p1.head? = some 0x22 := by
      have h1 := hne p1 (by rw [hil]; simp)
      have hj := hjoin
      rw [hil] at hj
      cases p1 with
      | nil => exact absurd rfl h1
      | cons c t =>
        cases rest with
        | nil => simp [join] at hj; simp [hj.1]
        | cons r rs => simp [join] at hj; simp [hj.1]
    rw [joinQuoted_start p1 rest hp1, ← hil, joinQuoted_run init last false [] hinit hlst]
    have : join [0x20] ([] ++ init ++ [last]) = quote v := by
      simp only [List.nil_append, hjoin]; simp [quote]
    rw [this, unquote_quote v hv]

/-! ### all items -/

/-- the token the parser ends up with for an item: the value itself for a quoted item. -/
def itemTok (it : Bytes × Option Bytes) : Bytes :=
  match it.2 with
  | some v => v
  | none => it.1

theorem fields_cons_join (t : Bytes) (r1 : Bytes) (rs : List Bytes) (ht : plainTok t = true) :
    fields (join [0x20] (t :: r1 :: rs)) = t :: fields (join [0x20] (r1 :: rs)) := by
  simp only [plainTok, Bool.and_eq_true, Bool.not_eq_eq_eq_not, Bool.not_true] at ht
  unfold fields
  simp only [join]
  have : t ++ [0x20] ++ join [0x20] (r1 :: rs) = t ++ 0x20 :: join [0x20] (r1 :: rs) := by simp
  rw [this, fieldsGo_token t _ [] ht.2, fieldsGo_space]
  cases t with
  | nil => simp at ht
  | cons b t' => simp

theorem items_parse (its : List (Bytes × Option Bytes)) (hq : quotedItemsOK its = true)
    (hplain : ∀ it ∈ its, it.2 = none → plainTok it.1 = true ∧ it.1.head? ≠ some 0x22)
    (hquoted : ∀ it ∈ its, ∀ v, it.2 = some v → it.1 = quote v ∧ isAscii v = true) :
    joinQuoted false none (fields (join [0x20] (its.map (·.1)))) = .ok (its.map itemTok) := by
  induction its with
  | nil => simp [join, fields, fieldsGo, joinQuoted]
  | cons it rest ih =>
    obtain ⟨t, q⟩ := it
    cases q with
    | some v =>
      cases rest with
      | nil =>
        simp only [quotedItemsOK] at hq
        obtain ⟨e, hv⟩ := hquoted (t, some v) (by simp) v rfl
        simp only at e
        subst e
        simp only [List.map_cons, List.map_nil, join, itemTok]
        exact joinQuoted_quote v hv hq
      | cons r rs => simp [quotedItemsOK] at hq
    | none =>
      simp only [quotedItemsOK] at hq
      obtain ⟨hpt, hph⟩ := hplain (t, none) (by simp) rfl
      simp only at hpt hph
      have ih' := ih hq (fun it hit => hplain it (by simp [hit])) (fun it hit => hquoted it (by simp [hit]))
      have hbne : (t.head? != some 0x22) = true := by simpa using hph
      cases rest with
      | nil =>
        simp only [List.map_cons, List.map_nil, join, itemTok]
        rw [show t = join [0x20] [t] from rfl, fields_join [t] (by simpa using hpt)]
        exact joinQuoted_plain [t] (by simpa using hph)
      | cons r rs =>
        simp only [List.map_cons] at ih' ⊢
        rw [fields_cons_join t _ _ hpt, joinQuoted]
        simp only [hbne, if_true, ih', itemTok]

/-- the tokens the parser ends up with are, key by key, the name and the value. -/
theorem depItems_toks (h : Heap) (s : Set) :
    (depItems h s).map itemTok = C19AttrKeys.depAllKeys.flatMap (chunk C19AttrKeys.depFlagKeys depName h s) := by
  rw [depItems_eq, List.map_flatMap]
  apply flatMap_congr'
  intro key _
  simp only [depItemsOf, chunk, depName]
  cases hg : getAttrW h s key with
  | none => rfl
  | some v =>
    by_cases hf : key ∈ C19AttrKeys.depFlagKeys
    · simp [hf, itemTok]
    · by_cases hn : depNeedsQuote v = true
      · simp [hf, hn, itemTok]
      · simp [hf, hn, itemTok]

theorem depItems_facts (h : Heap) (s : Set) :
    (∀ it ∈ depItems h s, it.2 = none → plainTok it.1 = true ∧ it.1.head? ≠ some 0x22) ∧
    (∀ it ∈ depItems h s, ∀ v, it.2 = some v → it.1 = quote v) := by
  constructor
  · intro it hit hnone
    rw [depItems_eq, List.mem_flatMap] at hit
    obtain ⟨key, hkey, hit⟩ := hit
    simp only [depItemsOf] at hit
    cases hg : getAttrW h s key with
    | none => simp [hg] at hit
    | some v =>
      simp only [hg, List.singleton_append, List.mem_cons] at hit
      rcases hit with e | hit
      · rw [e]; exact dep_names_plain key hkey
      · by_cases hf : key ∈ C19AttrKeys.depFlagKeys
        · simp [hf] at hit
        · by_cases hn : depNeedsQuote v = true
          · simp [hf, hn] at hit; rw [hit] at hnone; simp at hnone
          · simp only [hf, hn] at hit
            simp only [List.contains_iff_mem, hf, Bool.false_eq_true, if_false, List.mem_singleton] at hit
            rw [hit]
            have hn' : depNeedsQuote v = false := by simpa using hn
            simp only [depNeedsQuote, Bool.or_eq_false_iff, beq_eq_false_iff_ne, ne_eq] at hn'
            exact ⟨by simp [plainTok, hn'.1.1, hn'.2], hn'.1.2⟩
  · intro it hit v hsome
    rw [depItems_eq, List.mem_flatMap] at hit
    obtain ⟨key, _, hit⟩ := hit
    simp only [depItemsOf] at hit
    cases hg : getAttrW h s key with
    | none => simp [hg] at hit
    | some w =>
      simp only [hg, List.singleton_append, List.mem_cons] at hit
      rcases hit with e | hit
      · rw [e] at hsome; simp at hsome
      · by_cases hf : key ∈ C19AttrKeys.depFlagKeys
        · simp [hf] at hit
        · by_cases hn : depNeedsQuote w = true
          · simp [hf, hn] at hit
            rw [hit] at hsome ⊢
            simp at hsome
            rw [hsome]
          · simp [hf, hn] at hit
            rw [hit] at hsome; simp at hsome

/-- `deptest.ParseString(write(t))` equals `t` when every value that must be quoted is
the last item written, is `depQuotedOK` and is an ASCII string. -/
theorem dep_roundtrip_quoted (h : Heap) (s : Set) (hs : SetOK h s)
    (hk : knownKeys C19AttrKeys.depAllKeys C19AttrKeys.depFlagKeys h s = true)
    (ht : depTextOK h s = true) (ha : depQuotedAscii h s = true) :
    ∃ h' s', depParseString h (depWrite h s) = .ok (h', s') ∧
      SetOK h' s ∧ SetOK h' s' ∧ s.attrs h' = s.attrs h ∧ Attr.compare h' s s' = .eq := by
  obtain ⟨hf1, hf2⟩ := depItems_facts h s
  have hquoted : ∀ it ∈ depItems h s, ∀ v, it.2 = some v → it.1 = quote v ∧ isAscii v = true := by
    intro it hit v hv
    refine ⟨hf2 it hit v hv, ?_⟩
    have := (List.all_eq_true.mp ha) it hit
    simpa [hv] using this
  have hj : joinQuoted false none (fields (depWrite h s)) =
      .ok (C19AttrKeys.depAllKeys.flatMap (chunk C19AttrKeys.depFlagKeys depName h s)) := by
    unfold depWrite
    rw [items_parse (depItems h s) ht hf1 hquoted, depItems_toks]
  have hpi := parseItems_chunks C19AttrKeys.depNames C19AttrKeys.depAllKeys C19AttrKeys.depFlagKeys
    depName h s C19AttrKeys.depAllKeys dep_lookup
  have hmask : maskOfKeys s.mask C19AttrKeys.depAllKeys 0 = s.mask := by
    simp only [knownKeys, Bool.and_eq_true] at hk
    exact dep_mask_ok s.mask hk.1
  obtain ⟨h', s', he, hs', hok, hattrs, hsame⟩ :=
    calls_same C19AttrKeys.depAllKeys C19AttrKeys.depFlagKeys h s hs hk hmask dep_keys_lt
  refine ⟨h', s', ?_, hs', hok, hattrs, (compare_eq_iff_same h' s s' hs' hok).mpr hsame⟩
  unfold depParseString
  rw [hj]
  simp only [hpi]
  exact he

end DepsDev.Proofs.C19
