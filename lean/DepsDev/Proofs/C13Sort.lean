import DepsDev.Model.Resolve.Graph

/-!
# Sorting lemmas for C13

`sortBy` (the model's stand-in for Go's `sort.Sort` / `sort.Slice`) returns a sorted
permutation; when `less` is a strict total order whose ties are identical elements,
**every** sorted permutation is that same list (`sorted_perm_unique`,
`sortBy_eq_of_perm`) – this is what makes the choice of sorting algorithm irrelevant.
-/

namespace DepsDev.Resolve.GraphCanon

open List

/-- `lt` is a strict weak order: asymmetric, and "not greater" is transitive. -/
structure StrictWeak {α : Type} (lt : α → α → Bool) : Prop where
  asymm : ∀ a b, lt a b = true → lt b a = false
  le_trans : ∀ a b c, lt b a = false → lt c b = false → lt c a = false

/-- `lt` is a strict total order whose incomparable elements are identical. -/
structure StrictTotal {α : Type} (lt : α → α → Bool) : Prop where
  irrefl : ∀ a, lt a a = false
  trans : ∀ a b c, lt a b = true → lt b c = true → lt a c = true
  tri : ∀ a b, lt a b = false → lt b a = false → a = b

theorem StrictTotal.asymm {α : Type} {lt : α → α → Bool} (h : StrictTotal lt) (a b : α)
    (hab : lt a b = true) : lt b a = false := by
  cases hba : lt b a with
  | false => rfl
  | true => have := h.trans a b a hab hba; rw [h.irrefl] at this; cases this

theorem StrictTotal.weak {α : Type} {lt : α → α → Bool} (h : StrictTotal lt) : StrictWeak lt where
  asymm := h.asymm
  le_trans := by
    intro a b c hba hcb
    cases hca : lt c a with
    | false => rfl
    | true =>
      -- c < a, ¬ b < a, ¬ c < b. Either a = b or a < b.
      cases hab : lt a b with
      | false =>
        have := h.tri a b hab hba
        subst this
        rw [hca] at hcb; cases hcb
      | true =>
        have := h.trans c a b hca hab
        rw [this] at hcb; cases hcb

/-- A strict weak order pulled back along a key function. -/
theorem StrictWeak.pullback {α β : Type} {lt : β → β → Bool} (h : StrictWeak lt) (f : α → β) :
    StrictWeak (fun a b => lt (f a) (f b)) where
  asymm := fun a b => h.asymm (f a) (f b)
  le_trans := fun a b c => h.le_trans (f a) (f b) (f c)

/-- Sortedness for a strict `lt`: no later element is less than an earlier one. -/
abbrev Sorted {α : Type} (lt : α → α → Bool) (l : List α) : Prop :=
  l.Pairwise (fun a b => lt b a = false)

section
variable {α : Type} {lt : α → α → Bool}

theorem insertBy_perm (x : α) (l : List α) : insertBy lt x l ~ x :: l := by
  induction l with
  | nil => simp [insertBy]
  | cons y ys ih =>
    simp only [insertBy]
    split
    · exact (Perm.cons y ih).trans (Perm.swap x y ys)
    · exact Perm.refl _

theorem sortBy_perm (l : List α) : sortBy lt l ~ l := by
  induction l with
  | nil => simp [sortBy]
  | cons x xs ih =>
    simp only [sortBy]
    exact (insertBy_perm x _).trans (Perm.cons x ih)

@[simp] theorem length_sortBy (l : List α) : (sortBy lt l).length = l.length :=
  (sortBy_perm l).length_eq

theorem mem_sortBy {a : α} {l : List α} : a ∈ sortBy lt l ↔ a ∈ l :=
  (sortBy_perm l).mem_iff

theorem insertBy_sorted (h : StrictWeak lt) (x : α) (l : List α) (hl : Sorted lt l) :
    Sorted lt (insertBy lt x l) := by
  induction l with
  | nil => simp [insertBy, Sorted]
  | cons y ys ih =>
    simp only [insertBy]
    have hy : ∀ {z}, z ∈ ys → lt z y = false := fun hz => List.rel_of_pairwise_cons hl hz
    have hys := hl.tail
    split
    · rename_i hyx
      apply List.Pairwise.cons
      · intro z hz
        have hz' := (insertBy_perm (lt := lt) x ys).mem_iff.mp hz
        cases hz' with
        | head => exact h.asymm y x hyx
        | tail _ hz'' => exact hy hz''
      · exact ih hys
    · rename_i hyx
      have hyx' : lt y x = false := by simpa using hyx
      apply List.Pairwise.cons
      · intro z hz
        cases hz with
        | head => exact hyx'
        | tail _ hz' => exact h.le_trans x y z hyx' (hy hz')
      · exact hl

theorem sortBy_sorted (h : StrictWeak lt) (l : List α) : Sorted lt (sortBy lt l) := by
  induction l with
  | nil => simp [sortBy, Sorted]
  | cons x xs ih => exact insertBy_sorted h x _ ih

/-- A sorted list is a fixed point of `sortBy` (for any `lt`). -/
theorem sortBy_of_sorted (l : List α) (hl : Sorted lt l) : sortBy lt l = l := by
  induction l with
  | nil => rfl
  | cons x xs ih =>
    simp only [sortBy]
    rw [ih hl.tail]
    cases xs with
    | nil => rfl
    | cons y ys =>
      have : lt y x = false := List.rel_of_pairwise_cons hl (List.mem_cons_self)
      simp [insertBy, this]

/-- **Uniqueness of the sorted permutation** (DESIGN Appendix B, `sort.Sort`): if the ties
of `lt` on the elements of the lists are identical elements, two sorted permutations of
the same multiset are the same list. -/
theorem sorted_perm_unique {l₁ l₂ : List α}
    (tri : ∀ a b, a ∈ l₁ → b ∈ l₂ → lt a b = false → lt b a = false → a = b)
    (h₁ : Sorted lt l₁) (h₂ : Sorted lt l₂) (p : l₁ ~ l₂) : l₁ = l₂ :=
  List.Perm.eq_of_pairwise (le := fun a b => lt b a = false)
    (fun a b ha hb hab hba => tri a b ha hb hba hab) h₁ h₂ p

/-- The result of sorting depends only on the multiset, for a strict total order. -/
theorem sortBy_eq_of_perm (h : StrictTotal lt) {l₁ l₂ : List α} (p : l₁ ~ l₂) :
    sortBy lt l₁ = sortBy lt l₂ :=
  sorted_perm_unique (fun a b _ _ => h.tri a b) (sortBy_sorted h.weak l₁) (sortBy_sorted h.weak l₂)
    ((sortBy_perm l₁).trans (p.trans (sortBy_perm l₂).symm))

/-- Any sorted permutation (e.g. the one Go's `sort.Sort` produces) equals `sortBy`'s. -/
theorem eq_sortBy_of_sorted_perm (h : StrictTotal lt) {l s : List α} (hs : Sorted lt s) (p : s ~ l) :
    s = sortBy lt l :=
  sorted_perm_unique (fun a b _ _ => h.tri a b) hs (sortBy_sorted h.weak l) (p.trans (sortBy_perm l).symm)

end

section
variable {α β : Type}

theorem map_insertBy (lt : α → α → Bool) (lt' : β → β → Bool) (f : α → β)
    (hf : ∀ a b, lt' (f a) (f b) = lt a b) (x : α) (l : List α) :
    (insertBy lt x l).map f = insertBy lt' (f x) (l.map f) := by
  induction l with
  | nil => rfl
  | cons y ys ih =>
    simp only [insertBy, List.map_cons, hf]
    split
    · simp [ih]
    · simp

/-- Sorting commutes with a map that preserves the order. -/
theorem map_sortBy (lt : α → α → Bool) (lt' : β → β → Bool) (f : α → β)
    (hf : ∀ a b, lt' (f a) (f b) = lt a b) (l : List α) :
    (sortBy lt l).map f = sortBy lt' (l.map f) := by
  induction l with
  | nil => rfl
  | cons x xs ih =>
    simp only [sortBy, List.map_cons]
    rw [map_insertBy lt lt' f hf, ih]

end

theorem inj_on_of_nodup_map {α β : Type} {f : α → β} {l : List α} (nd : (l.map f).Nodup)
    {a b : α} (ha : a ∈ l) (hb : b ∈ l) (hab : f a = f b) : a = b := by
  induction l with
  | nil => cases ha
  | cons x xs ih =>
    simp only [List.map_cons, List.nodup_cons, List.mem_map, not_exists, not_and] at nd
    cases ha with
    | head =>
      cases hb with
      | head => rfl
      | tail _ hb' => exact absurd hab.symm (nd.1 b hb')
    | tail _ ha' =>
      cases hb with
      | head => exact absurd hab (nd.1 a ha')
      | tail _ hb' => exact ih nd.2 ha' hb'

/-- Sorting by a key: if the keys are pairwise distinct, the result depends only on the multiset. -/
theorem sortBy_key_eq_of_perm {α β : Type} {lt : β → β → Bool} (h : StrictTotal lt) (key : α → β)
    {l₁ l₂ : List α} (p : l₁ ~ l₂) (nd : (l₁.map key).Nodup) :
    sortBy (fun a b => lt (key a) (key b)) l₁ = sortBy (fun a b => lt (key a) (key b)) l₂ := by
  have hw := h.weak.pullback key
  apply sorted_perm_unique _ (sortBy_sorted hw l₁) (sortBy_sorted hw l₂)
    ((sortBy_perm l₁).trans (p.trans (sortBy_perm l₂).symm))
  intro a b ha hb hab hba
  have hk : key a = key b := h.tri _ _ hab hba
  have ha' : a ∈ l₁ := mem_sortBy.mp ha
  have hb' : b ∈ l₁ := p.mem_iff.mpr (mem_sortBy.mp hb)
  exact inj_on_of_nodup_map nd ha' hb' hk

end DepsDev.Resolve.GraphCanon
