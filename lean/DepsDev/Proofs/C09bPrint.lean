import DepsDev.Proofs.C09bRelCanon

/-!
# C09b — is the result of `canon` (hence the printed union) independent of the order of the spans?

`canon` sorts with a comparator that only looks at the order of the bounds and the flags
(`spanOrd`), by a stable insertion sort, and a merge keeps the bounds of the span that comes
first. Two spans that tie under `spanOrd` but are different values (bounds that compare equal
but are written differently, e.g. NPM `1.0.0-01` and `1.0.0-1`) therefore make the result depend
on the input order. When ties are identical spans (`TieFree`), the sorted list is the unique
sorted permutation, and `canon` is a function of the multiset of its input spans
(`canonSpans_perm`).
-/
namespace DepsDev.Proofs.C09b

open Std DepsDev DepsDev.Semver DepsDev.Proofs DepsDev.Proofs.C09

variable {s : System}

/-- Spans that tie under `canon`'s sort comparator are the same span. -/
def TieFree (s : System) (l : List Span) : Prop := ∀ x ∈ l, ∀ y ∈ l, spanOrd s x y = .eq → x = y

instance (s : System) (l : List Span) : Decidable (TieFree s l) := by unfold TieFree; infer_instance

theorem spanOrd_eq_of_sle {x y : Span} (h1 : sle s x y) (h2 : sle s y x) : spanOrd s x y = .eq := by
  unfold sle at h1 h2
  rw [OrientedCmp.eq_swap (cmp := spanOrd s)] at h2
  cases h : spanOrd s x y <;> rw [h] at h1 h2 <;> simp_all

theorem perm_length_le_one {α} {l l' : List α} (p : l'.Perm l) (h : l.length ≤ 1) : l' = l := by
  match l, h with
  | [], _ => exact List.Perm.eq_nil p
  | [x], _ => exact List.perm_singleton.mp p

/-- **`canon` is a function of the multiset of spans** when ties are identical spans. -/
theorem canonSpans_perm (hs : s ≠ .maven) {l l' : List Span} (p : l'.Perm l) (hok : ∀ x ∈ l, SpanOK s x)
    (htie : TieFree s l) : canonSpans l' = canonSpans l := by
  have hok' : ∀ x ∈ l', SpanOK s x := fun x hx => hok x (p.mem_iff.mp hx)
  unfold canonSpans
  rw [p.length_eq]
  by_cases h1 : l.length ≤ 1
  · simp only [h1, ↓reduceIte]
    rw [perm_length_le_one p h1]
  simp only [h1, ↓reduceIte]
  have hmv1 : (sysOfSpans l == System.maven) = false := by
    rcases sysOfSpans_eq l hok with h | h
    · rw [h]; simpa using hs
    · rw [h]; rfl
  have hmv2 : (sysOfSpans l' == System.maven) = false := by
    rcases sysOfSpans_eq l' hok' with h | h
    · rw [h]; simpa using hs
    · rw [h]; rfl
  simp only [hmv1, hmv2, Bool.false_eq_true, ↓reduceIte]
  obtain ⟨sorted, e1, hsorted, hmem⟩ := sort_spec l hok
  obtain ⟨sorted', e1', hsorted', hmem'⟩ := sort_spec l' hok'
  have hperm := insertionSort_perm l sorted e1
  have hperm' := insertionSort_perm l' sorted' e1'
  have heq : sorted' = sorted := by
    apply List.Perm.eq_of_pairwise (le := sle s) _ hsorted' hsorted ((hperm'.trans p).trans hperm.symm)
    intro a b ha hb hab hba
    exact htie a (p.mem_iff.mp ((hmem' a).mp ha)) b ((hmem b).mp hb) (spanOrd_eq_of_sle hab hba)
  rw [e1, e1', heq]

end DepsDev.Proofs.C09b
