import DepsDev.Proofs.C15Api

/-!
# C15, API path: the API client computes what the documented pipeline computes on the API's
view of the lineage (`api_eq_direct_on_view`)

The two sides differ in when a POM is converted (the whole lineage beforehand / each response
after it was fetched, through `encodePom` and `mavenRequirementsToProject`), in the packaging
the fetched projects carry (`pom` / none, with and without the packaging test), and in the
project the import callback starts from (`maven.Project{}` / `maven.Project{ProjectKey: pk}`).
-/
namespace DepsDev.Proofs.C15ApiView
open DepsDev DepsDev.Model.Maven DepsDev.Model.Maven.Api DepsDev.Gen DepsDev.Proofs.C15Api

/-! ## names -/

theorem cutColon_apiName (g a : Bytes) : ∃ g' a', cutColon (apiName g a) = some (g', a') := by
  induction g with
  | nil => exact ⟨[], a, by simp [apiName, cutColon]⟩
  | cons c g ih =>
    obtain ⟨g', a', h⟩ := ih
    by_cases hc : c = cColon
    · exact ⟨[], g ++ cColon :: a, by simp [apiName, cutColon, hc]⟩
    · refine ⟨c :: g', a', ?_⟩
      have : apiName (c :: g) a = c :: apiName g a := rfl
      rw [this, cutColon]
      simp [hc, h]

theorem makeProjectKey_apiName (g a v : Bytes) : makeProjectKey (apiName g a) v = some (cutKey ⟨g, a, v⟩) := by
  obtain ⟨g', a', h⟩ := cutColon_apiName g a
  simp [makeProjectKey, cutKey, h]

/-! ## `mavenRequirementsToProject ∘ encodePom = view` (up to the packaging) -/

theorem getExclusions_encode (ex : List Exclusion) :
    getExclusions (ex.map fun e => apiName e.g e.a) = ex.map viewExcl := by
  induction ex with
  | nil => rfl
  | cons e rest ih =>
    obtain ⟨g', a', h⟩ := cutColon_apiName e.g e.a
    simp [getExclusions, makeProjectKey, viewExcl, h, ih]

theorem getDependencies_encode (ds : List Dep) : getDependencies (ds.map encodeDep) = ds.map viewDep := by
  induction ds with
  | nil => rfl
  | cons d rest ih =>
    obtain ⟨g', a', h⟩ := cutColon_apiName d.g d.a
    simp [getDependencies, encodeDep, makeProjectKey, viewDep, h, ih, getExclusions_encode]

theorem getProfile_encode (f : Profile) : getProfile (encodeProfile f) = viewProfile f := by
  simp [getProfile, encodeProfile, viewProfile, getDependencies_encode]

/-- the project with another artifactId and packaging (neither is read by the pipeline) -/
def setAP (p : Project) (a pk : Bytes) : Project := { p with a := a, packaging := pk }

theorem toProject_encode (k : Key) (p : Project) :
    toProject k (some (encodePom p)) = setAP (view k p) k.a [] := by
  by_cases hz : p.parent = ⟨[], [], []⟩
  · simp [toProject, setAP, view, encodePom, hz, cutKey, apiName, cutColon, getDependencies_encode, List.map_map,
      Function.comp_def, getProfile_encode]
  · simp [toProject, setAP, view, encodePom, hz, makeProjectKey_apiName, getDependencies_encode, List.map_map,
      Function.comp_def, getProfile_encode]

/-! ## artifactId and packaging are not read -/

theorem mergeProfile_setAP (p : Project) (prof : Profile) (a x : Bytes) :
    mergeProfile (setAP p a x) prof = setAP (mergeProfile p prof) a x := rfl

theorem foldl_mergeProfile_setAP (ps : List Profile) (p : Project) (a x : Bytes) :
    ps.foldl mergeProfile (setAP p a x) = setAP (ps.foldl mergeProfile p) a x := by
  induction ps generalizing p with
  | nil => rfl
  | cons f rest ih => simp only [List.foldl, mergeProfile_setAP, ih]

theorem MergeProfiles_setAP (p : Project) (a x : Bytes) (jdk : List Nat) (os : OS) :
    (setAP p a x).MergeProfiles jdk os = (p.MergeProfiles jdk os).map (setAP · a x) := by
  unfold Project.MergeProfiles
  have h1 : (setAP p a x).profiles = p.profiles := rfl
  have h2 : activeProfiles (setAP p a x) jdk os = activeProfiles p jdk os := rfl
  rw [h1, h2]
  split
  · rfl
  · simp [foldl_mergeProfile_setAP]

theorem foldl_mergeProfile_keeps (ps : List Profile) (p : Project) :
    (ps.foldl mergeProfile p).g = p.g ∧ (ps.foldl mergeProfile p).v = p.v ∧
    (ps.foldl mergeProfile p).parent = p.parent := by
  induction ps generalizing p with
  | nil => exact ⟨rfl, rfl, rfl⟩
  | cons f rest ih =>
    obtain ⟨h1, h2, h3⟩ := ih (mergeProfile p f)
    exact ⟨h1, h2, h3⟩

theorem MergeProfiles_keeps {p q : Project} {jdk : List Nat} {os : OS} (h : p.MergeProfiles jdk os = some q) :
    q.g = p.g ∧ q.v = p.v ∧ q.parent = p.parent := by
  unfold Project.MergeProfiles at h
  split at h
  · cases h
  · cases h; exact foldl_mergeProfile_keeps _ p

theorem walkLoop_setAP (c : WalkCfg) (a x : Bytes) :
    ∀ (fuel n : Nat) (vis : List Key) (k : Key) (r : Project),
      walkLoop c fuel n vis k (setAP r a x) = (walkLoop c fuel n vis k r).map (setAP · a x) := by
  intro fuel
  induction fuel with
  | zero => intro n vis k r; rfl
  | succ f ih =>
    intro n vis k r
    unfold walkLoop
    split
    · rfl
    · split
      · rfl
      · cases c.get k with
        | none => rfl
        | some proj =>
          simp only
          split
          · rfl
          · cases proj.MergeProfiles c.jdk c.os with
            | none => rfl
            | some q => exact ih (n + 1) (k :: vis) q.parent (r.MergeParent q)

theorem propertyMap_setAP (p : Project) (a x : Bytes) : (setAP p a x).propertyMap = p.propertyMap := by
  simp [Project.propertyMap, C15Consts.builtins, List.foldl, Project.field, setAP]

theorem interpolate_setAP (f : InterpFn) (p : Project) (a x : Bytes) :
    ((setAP p a x).InterpolateWith f).deps = (p.InterpolateWith f).deps ∧
    ((setAP p a x).InterpolateWith f).mgmt = (p.InterpolateWith f).mgmt := by
  simp only [Project.InterpolateWith, propertyMap_setAP]
  exact ⟨rfl, rfl⟩

theorem processDeps_deps (p q : Project) (get : Bytes → Bytes → Bytes → Option (List Dep))
    (h1 : p.deps = q.deps) (h2 : p.mgmt = q.mgmt) :
    (p.ProcessDependencies get).deps = (q.ProcessDependencies get).deps := by
  simp only [Project.ProcessDependencies, h1, h2]

/-! ## the two walks -/

/-- the packaging test never fires when every fetched project says `pom` -/
theorem walk_needPom (get : Key → Option Project) (jdk : List Nat) (os : OS)
    (h : ∀ k p, get k = some p → p.packaging = bPom) :
    ∀ (fuel n : Nat) (vis : List Key) (k : Key) (r : Project),
      walkLoop ⟨get, jdk, os, true⟩ fuel n vis k r = walkLoop ⟨get, jdk, os, false⟩ fuel n vis k r := by
  intro fuel
  induction fuel with
  | zero => intro n vis k r; rfl
  | succ f ih =>
    intro n vis k r
    unfold walkLoop
    dsimp only
    split
    · rfl
    · split
      · rfl
      · cases hg : get k with
        | none => rfl
        | some proj =>
          have := h k proj hg
          simp only [this, ne_eq, not_true_eq_false, decide_false, Bool.and_false, Bool.false_eq_true, if_false,
            ]
          cases proj.MergeProfiles jdk os with
          | none => rfl
          | some q => exact ih _ _ _ _

/-- without the packaging test, the artifactId and packaging of the fetched projects are not read -/
theorem walk_get_setAP (get get' : Key → Option Project) (jdk : List Nat) (os : OS) (fa fx : Key → Bytes)
    (h : ∀ k, get' k = (get k).map (setAP · (fa k) (fx k))) :
    ∀ (fuel n : Nat) (vis : List Key) (k : Key) (r : Project),
      walkLoop ⟨get', jdk, os, false⟩ fuel n vis k r = walkLoop ⟨get, jdk, os, false⟩ fuel n vis k r := by
  intro fuel
  induction fuel with
  | zero => intro n vis k r; rfl
  | succ f ih =>
    intro n vis k r
    unfold walkLoop
    dsimp only
    split
    · rfl
    · split
      · rfl
      · simp only [h k]
        cases get k with
        | none => rfl
        | some proj =>
          simp only [Option.map_some, Bool.false_and, Bool.false_eq_true, if_false, MergeProfiles_setAP]
          cases proj.MergeProfiles jdk os with
          | none => rfl
          | some q => exact ih _ _ _ _

theorem find?_map' {α β : Type} (f : α → β) (p : β → Bool) (l : List α) :
    (l.map f).find? p = (l.find? (fun x => p (f x))).map f := by
  induction l with
  | nil => rfl
  | cons x xs ih =>
    simp only [List.map_cons, List.find?_cons]
    cases p (f x) <;> simp [ih]

theorem apiFetch_universeOf (L : Lineage) (name ver : Bytes) :
    apiFetch (universeOf L) name ver =
      ((L.root :: L.repo).find? fun p => decide (apiName p.storeKey.g p.storeKey.a = name ∧ p.storeKey.v = ver)).map
        fun p => some (encodePom p) := by
  unfold apiFetch universeOf
  rw [find?_map']
  simp [Option.map_map, Function.comp_def]

theorem apiGet_eq_view (L : Lineage) (k : Key) :
    apiGet (universeOf L) k = (viewGet L k).map (setAP · k.a []) := by
  unfold apiGet viewGet
  rw [apiFetch_universeOf]
  simp only [Option.map_map, sameName]
  congr 1
  funext p
  exact toProject_encode k p

theorem viewGet_pom (L : Lineage) (k : Key) (p : Project) (h : viewGet L k = some p) :
    p.packaging = bPom ∧ p.g = k.g ∧ p.v = k.v := by
  unfold viewGet at h
  cases hf : (L.root :: L.repo).find? (fun p => sameName p.storeKey k) with
  | none => simp [hf] at h
  | some q =>
    simp only [hf, Option.map_some, Option.some.injEq] at h
    subst h
    exact ⟨rfl, rfl, rfl⟩

/-- the walk of the API client and the walk of the example over the view are the same function -/
theorem walk_api_eq_view (L : Lineage) (fuel n : Nat) (vis : List Key) (k : Key) (r : Project) :
    walkLoop (apiCfg (universeOf L)).walk fuel n vis k r = walkLoop (viewCfg L).walk fuel n vis k r := by
  have h1 := walk_needPom (viewGet L) [] blankOS (fun k p h => (viewGet_pom L k p h).1) fuel n vis k r
  have h2 := walk_get_setAP (viewGet L) (apiGet (universeOf L)) [] blankOS (fun k => k.a) (fun _ => [])
    (apiGet_eq_view L) fuel n vis k r
  simp only [apiCfg, viewCfg]
  rw [h1, h2]

/-! ## the two import callbacks -/

theorem strMerge_nonempty {s s2 : Bytes} (h : s.isEmpty = false) : strMerge s s2 = s := by
  simp [strMerge, h]

theorem import_api_eq_view (f : InterpFn) (L : Lineage) :
    importWith f (apiCfg (universeOf L)) = importWith f (viewCfg L) := by
  funext g a v
  unfold importWith walkWith
  have hfuel : C15Consts.maxMavenParent - 0 = 99 + 1 := rfl
  rw [hfuel]
  have hseedA : (apiCfg (universeOf L)).seed ⟨g, a, v⟩ = keyed ⟨g, a, v⟩ := rfl
  have hseedV : (viewCfg L).seed ⟨g, a, v⟩ = Project.empty := rfl
  rw [hseedA, hseedV, ← walk_api_eq_view]
  generalize hc : (apiCfg (universeOf L)).walk = c
  have hget : c.get = apiGet (universeOf L) := by subst hc; rfl
  have hjdk : c.jdk = [] := by subst hc; rfl
  have hos : c.os = blankOS := by subst hc; rfl
  have hnp : c.needPom = false := by subst hc; rfl
  unfold walkLoop
  by_cases hk : Api.Key.incomplete (⟨g, a, v⟩ : Key) = true
  · simp [hk, keyed, Project.empty, Project.InterpolateWith, interpolateDepsWith]
  · have hk' : Api.Key.incomplete (⟨g, a, v⟩ : Key) = false := by simpa using hk
    simp only [hk', Bool.false_eq_true, if_false, List.contains_nil, hget, hnp, Bool.false_and]
    rw [apiGet_eq_view]
    cases hv : viewGet L ⟨g, a, v⟩ with
    | none => rfl
    | some proj =>
      simp only [Option.map_some, MergeProfiles_setAP, hjdk, hos]
      cases hm : proj.MergeProfiles [] blankOS with
      | none => rfl
      | some q =>
        obtain ⟨_, hg, hv'⟩ := viewGet_pom L _ _ hv
        obtain ⟨hqg, hqv, _⟩ := MergeProfiles_keeps hm
        simp only [Api.Key.incomplete, Bool.or_eq_false_iff] at hk'
        have e : (keyed ⟨g, a, v⟩).MergeParent (setAP q a []) =
            setAP (Project.empty.MergeParent (setAP q a [])) a [] := by
          simp only [keyed, Project.empty, Project.MergeParent, setAP, strMerge_nonempty hk'.1.1,
            strMerge_nonempty hk'.2, hqg, hqv, hg, hv']
          simp [strMerge]
        simp only [Option.map_some, e, walkLoop_setAP, Option.map_map]
        cases walkLoop c 99 (0 + 1) [⟨g, a, v⟩] (setAP q a []).parent (Project.empty.MergeParent (setAP q a [])) with
        | none => rfl
        | some r => simp [(interpolate_setAP f r a []).2]

/-! ## the pipelines -/

theorem pipeline_api_eq_view (f : InterpFn) (L : Lineage) (P : Project) (a x : Bytes) :
    (pipelineWith f (apiCfg (universeOf L)) (setAP P a x)).map (·.deps) =
      (pipelineWith f (viewCfg L) P).map (·.deps) := by
  unfold pipelineWith
  have hj : (apiCfg (universeOf L)).walk.jdk = (viewCfg L).walk.jdk := rfl
  have ho : (apiCfg (universeOf L)).walk.os = (viewCfg L).walk.os := rfl
  have hs : (apiCfg (universeOf L)).rootStart = (viewCfg L).rootStart := rfl
  rw [hj, ho, hs, MergeProfiles_setAP, import_api_eq_view]
  cases P.MergeProfiles (viewCfg L).walk.jdk (viewCfg L).walk.os with
  | none => rfl
  | some p =>
    simp only [Option.map_some, walkWith, walk_api_eq_view]
    have hp : (setAP p a x).parent = p.parent := rfl
    rw [hp, walkLoop_setAP]
    cases walkLoop (viewCfg L).walk (C15Consts.maxMavenParent - (viewCfg L).rootStart) (viewCfg L).rootStart [] p.parent p with
    | none => rfl
    | some q =>
      simp only [Option.map_some, Option.some.injEq]
      exact processDeps_deps _ _ _ (interpolate_setAP f q a x).1 (interpolate_setAP f q a x).2

/-- **The API client computes the documented pipeline on its view of the lineage.** For every
lineage whose effective project name has no `>` (such a name is an npm bundle name to the client). -/
theorem api_eq_direct_on_view_with (f : InterpFn) (L : Lineage)
    (hgt : (apiName L.root.storeKey.g L.root.storeKey.a).contains cGt = false) :
    apiRequirementsWith f (universeOf L) (apiName L.root.storeKey.g L.root.storeKey.a) L.root.storeKey.v =
      directOnViewWith f L := by
  unfold apiRequirementsWith directOnViewWith
  have hfetch : apiFetch (universeOf L) (apiName L.root.storeKey.g L.root.storeKey.a) L.root.storeKey.v =
      some (some (encodePom L.root)) := by
    rw [apiFetch_universeOf]; simp
  simp only [hgt, Bool.false_eq_true, if_false, hfetch, makeProjectKey_apiName, toProject_encode]
  have := pipeline_api_eq_view f L (view (rootKey L) L.root) (rootKey L).a []
  have hk : cutKey ⟨L.root.storeKey.g, L.root.storeKey.a, L.root.storeKey.v⟩ = rootKey L := rfl
  rw [hk]
  cases h1 : pipelineWith f (apiCfg (universeOf L)) (setAP (view (rootKey L) L.root) (rootKey L).a []) with
  | none =>
    cases h2 : pipelineWith f (viewCfg L) (view (rootKey L) L.root) with
    | none => rfl
    | some q => simp [h1, h2] at this
  | some p =>
    cases h2 : pipelineWith f (viewCfg L) (view (rootKey L) L.root) with
    | none => simp [h1, h2] at this
    | some q =>
      simp only [h1, h2, Option.map_some, Option.some.injEq] at this
      simp [this]

end DepsDev.Proofs.C15ApiView
