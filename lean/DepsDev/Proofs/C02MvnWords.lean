import DepsDev.Proofs.C02Dec
import DepsDev.Proofs.C01MavenShape

/-!
# C02 — Maven, part 1: bytes and words

`maven_agree_partial` (Props/C02.lean): on the Maven-Central shape the library's comparison has the
sign of `ComparableVersion.compareTo`. The proof, in parts:

1. (this file) categories of element texts; the qualifier words both sides treat specially
   (`word_cases`), what each side makes of any other word (`mavenOrder_unknown`, `cv_unknown`);
2. `C02MvnTrim`: the trimming loop of `mavenExtension.init` is a stack machine (`mavenTrim_eq`);
3. `C02MvnKey`: `Item.compareTo` on the items of two element lists (`treeOf`) is C01's key order
   (`cmpList_treeOf`), position by position;
4. `C02MvnElems`: the elements of `embedMaven a` in closed form (`embed_elems`);
5. `C02MvnItems`: `new ComparableVersion(v).items` in closed form (`items_eq`);
6. `C02MvnAgree`: the hypotheses on the tree give good element lists; the first element;
   `maven_agree` via C01's `mavenCompare_eq` (domain without `ZeroDotQual`);
7. `C02MvnDirect`: the loop against ComparableVersion step by step, without the key order
   (`maven_agree'`, `ZeroDotQual` included);
8. `C02MvnShape`: the elements are in C01's `MavenShape`; 9. `C02Mvn39`: Maven 3.8.7/3.9;
10. `C02MvnParse`: `System.Parse` on the normal form yields `embedMaven` (`parse_render`).
-/
namespace DepsDev.Proofs.C02Mvn
open DepsDev DepsDev.Semver DepsDev.Ref DepsDev.Proofs DepsDev.Proofs.C02
open DepsDev.Ref.MavenCV (Item Sep Tok wAlpha wBeta wMilestone wRc wCr wSnapshot wSp wGa wFinal wRelease)
open DepsDev.Gen.SemverTables (versionNumeric versionQualifier versionEOF versionSeparator mavenEmptyQualifier mavenQualifierOrder)

/-- The words either side treats specially (the library's table; `""` never occurs as a word). -/
def tableWords : List Bytes := [wAlpha, wBeta, wCr, wFinal, wGa, wMilestone, wRc, wRelease, wSnapshot, wSp]

theorem isDigitB_iff (c : UInt8) : isDigitB c = true ↔ 48 ≤ c.toNat ∧ c.toNat ≤ 57 := by
  simp [isDigitB, UInt8.le_iff_toNat_le]

theorem decodeRune_ascii (c : UInt8) (t : Bytes) (h : c < 0x80) :
    Bytes.decodeRune (c :: t) = (c.toNat, 1) := by
  unfold Bytes.decodeRune
  simp [h]

theorem mcat_digit (sep : UInt8) (c : UInt8) (t : Bytes) (i : Int) (h : isDigitB c = true) :
    mcat ⟨sep, c :: t, i⟩ = versionNumeric := by
  have hc : c < 0x80 := by
    have := (isDigitB_iff c).mp h
    rw [UInt8.lt_iff_toNat_lt]; simp; omega
  unfold mcat mavenCategory
  simp only [decodeRune_ascii c t hc]
  have : ¬ (c.toNat == 0x221E) = true := by
    have := c.toNat_lt
    simp; omega
  simp [this, h]

theorem mcat_lower (sep : UInt8) (c : UInt8) (t : Bytes) (i : Int) (h : MavenCV.isLower c = true) :
    mcat ⟨sep, c :: t, i⟩ = versionQualifier := by
  have h' : 97 ≤ c.toNat ∧ c.toNat ≤ 122 := by
    simpa [MavenCV.isLower, UInt8.le_iff_toNat_le] using h
  have hc : c < 0x80 := by rw [UInt8.lt_iff_toNat_lt]; simp; omega
  unfold mcat mavenCategory
  simp only [decodeRune_ascii c t hc]
  have h1 : ¬ (c.toNat == 0x221E) = true := by simp; omega
  have h2 : isDigitB c = false := by
    cases hd : isDigitB c
    · rfl
    · have := (isDigitB_iff c).mp hd; omega
  have h3 : (c == 46 || c == 45) = false := by
    simp only [Bool.or_eq_false_iff, beq_eq_false_iff_ne, ne_eq]
    constructor <;> (intro e; subst e; simp at h')
  simp [h1, h2, h3]

/-- `q` is none of the table's words. -/
def unknownW (q : Bytes) : Bool := !tableWords.contains q

theorem word_cases (q : Bytes) :
    q = wAlpha ∨ q = wBeta ∨ q = wCr ∨ q = wFinal ∨ q = wGa ∨ q = wMilestone ∨ q = wRc ∨ q = wRelease ∨
      q = wSnapshot ∨ q = wSp ∨ unknownW q = true :=
  if h1 : q = wAlpha then .inl h1 else .inr <|
  if h2 : q = wBeta then .inl h2 else .inr <|
  if h3 : q = wCr then .inl h3 else .inr <|
  if h4 : q = wFinal then .inl h4 else .inr <|
  if h5 : q = wGa then .inl h5 else .inr <|
  if h6 : q = wMilestone then .inl h6 else .inr <|
  if h7 : q = wRc then .inl h7 else .inr <|
  if h8 : q = wRelease then .inl h8 else .inr <|
  if h9 : q = wSnapshot then .inl h9 else .inr <|
  if h10 : q = wSp then .inl h10 else .inr <| by
    simp [unknownW, tableWords, h1, h2, h3, h4, h5, h6, h7, h8, h9, h10]

theorem unknownW_ne {q : Bytes} (h : unknownW q = true) :
    q ≠ wAlpha ∧ q ≠ wBeta ∧ q ≠ wCr ∧ q ≠ wFinal ∧ q ≠ wGa ∧ q ≠ wMilestone ∧ q ≠ wRc ∧ q ≠ wRelease ∧
      q ≠ wSnapshot ∧ q ≠ wSp := by
  simpa [unknownW, tableWords] using h

theorem beq_false_of_ne {q w : Bytes} (h : q ≠ w) : (w == q) = false := by
  simpa using Ne.symm h

theorem mavenOrder_unknown {q : Bytes} (hne : q ≠ []) (h : unknownW q = true) : mavenOrder q = 0 := by
  obtain ⟨h1, h2, h3, h4, h5, h6, h7, h8, h9, h10⟩ := unknownW_ne h
  have h0 : q.isEmpty = false := by simpa using hne
  unfold wAlpha wBeta wCr wFinal wGa wMilestone wRc wRelease wSnapshot wSp at *
  simp [mavenOrder, mavenQualifierOrder, List.find?, h0, beq_false_of_ne h1, beq_false_of_ne h2, beq_false_of_ne h3,
    beq_false_of_ne h4, beq_false_of_ne h5, beq_false_of_ne h6, beq_false_of_ne h7, beq_false_of_ne h8,
    beq_false_of_ne h9, beq_false_of_ne h10]

/-- `StringItem`'s aliases leave an unknown word alone, and `comparableQualifier` prefixes it. -/
theorem cv_unknown {q : Bytes} (hne : q ≠ []) (h : unknownW q = true) :
    MavenCV.stringItem q false = .str q ∧ MavenCV.cq q = 55 :: 45 :: q := by
  obtain ⟨h1, h2, h3, h4, h5, h6, h7, h8, h9, h10⟩ := unknownW_ne h
  have h0 : q.isEmpty = false := by simpa using hne
  unfold wAlpha wBeta wCr wFinal wGa wMilestone wRc wRelease wSnapshot wSp at *
  constructor
  · simp [MavenCV.stringItem, wGa, wFinal, wRelease, wCr, h3, h4, h5, h8]
  · simp [MavenCV.cq, MavenCV.qualifiers, List.findIdx?, List.findIdx?.go, wAlpha, wBeta, wMilestone, wRc, wSnapshot, wSp,
      beq_false_of_ne h1, beq_false_of_ne h2, beq_false_of_ne h6, beq_false_of_ne h7, beq_false_of_ne h9, beq_false_of_ne h10, h0]

end DepsDev.Proofs.C02Mvn
