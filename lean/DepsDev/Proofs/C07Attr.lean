import DepsDev.Model.Resolve.Maven

/-! C07 helper lemmas: `dep.Type` attributes, in particular that adding `dep.Selector`
to an edge type changes none of the attributes the resolver reads. -/

namespace DepsDev.Resolve.Maven
open DepsDev.Gen

theorem lookup_filter_append_ne (l : List (Nat × Bytes)) (k k' : Nat) (v : Bytes) (h : k' ≠ k) :
    List.lookup k' (l.filter (fun a => a.1 != k) ++ [(k, v)]) = List.lookup k' l := by
  induction l with
  | nil =>
    have : (k' == k) = false := by simpa using h
    simp [List.lookup, this]
  | cons a l ih =>
    obtain ⟨ka, va⟩ := a
    by_cases hka : ka = k
    · subst hka
      have : (k' == ka) = false := by simpa using h
      simp [List.filter, List.lookup, this, ih]
    · have hne : (ka != k) = true := by simpa using hka
      simp only [List.filter, hne, List.cons_append, List.lookup]
      split
      · rfl
      · exact ih

theorem getAttr_setAttr_ne (t : DepType) (k : Nat) (v : Bytes) (k' : Int) (h : k' < 0 ∨ k'.toNat ≠ k) :
    (t.setAttr k v).getAttr k' = t.getAttr k' := by
  unfold DepType.getAttr DepType.setAttr
  by_cases hk : k' < 0
  · simp [hk]
  · simp only [hk, if_false]
    rcases h with h | h
    · exact absurd h hk
    · exact lookup_filter_append_ne _ _ _ _ h

theorem lookup_filter_append_same (l : List (Nat × Bytes)) (k : Nat) (v : Bytes) :
    List.lookup k (l.filter (fun a => a.1 != k) ++ [(k, v)]) = some v := by
  induction l with
  | nil => simp [List.lookup]
  | cons a l ih =>
    obtain ⟨ka, va⟩ := a
    by_cases hka : ka = k
    · subst hka; simp [List.filter, ih]
    · have hne : (ka != k) = true := by simpa using hka
      have : (k == ka) = false := by simpa using (Ne.symm hka)
      simp only [List.filter, hne, List.cons_append, List.lookup, this]
      exact ih

theorem getAttr_setAttr_same (t : DepType) (k : Nat) (v : Bytes) :
    (t.setAttr k v).getAttr (k : Int) = some v := by
  unfold DepType.getAttr DepType.setAttr
  have : ¬ ((k : Int) < 0) := by omega
  simp only [this, if_false, Int.toNat_natCast]
  exact lookup_filter_append_same _ _ _

/-- the edge type of a new node: the declaration's type plus `dep.Selector` -/
abbrev withSelector (t : DepType) : DepType := t.setAttr C07Consts.keySelector.toNat []

/-- test / optional / provided: the declarations followed only from the root -/
def rootOnly (t : DepType) : Bool :=
  t.hasAttr C07Consts.keyTest || t.hasAttr C07Consts.keyOpt ||
    t.getAttr C07Consts.keyScope == some C07Consts.scopeProvided

theorem getAttr_withSelector (t : DepType) (k : Int) (h : k < 0 ∨ k.toNat ≠ C07Consts.keySelector.toNat) :
    (withSelector t).getAttr k = t.getAttr k := getAttr_setAttr_ne t _ _ k h

@[simp] theorem rootOnly_withSelector (t : DepType) : rootOnly (withSelector t) = rootOnly t := by
  simp only [rootOnly, DepType.hasAttr]
  rw [getAttr_withSelector t C07Consts.keyTest (by decide), getAttr_withSelector t C07Consts.keyOpt (by decide),
    getAttr_withSelector t C07Consts.keyScope (by decide)]

@[simp] theorem includesDependencies_withSelector (t : DepType) :
    includesDependencies (withSelector t) = includesDependencies t := by
  simp only [includesDependencies]
  rw [getAttr_withSelector t C07Consts.keyArtifactType (by decide)]

@[simp] theorem declaredExclusions_withSelector (t : DepType) :
    declaredExclusions (withSelector t) = declaredExclusions t := by
  simp only [declaredExclusions]
  rw [getAttr_withSelector t C07Consts.keyExclusions (by decide)]

@[simp] theorem packageKey_withSelector (name : Bytes) (t : DepType) :
    packageKeyForDependency name (withSelector t) = packageKeyForDependency name t := by
  simp only [packageKeyForDependency]
  rw [getAttr_withSelector t C07Consts.keyClassifier (by decide),
    getAttr_withSelector t C07Consts.keyArtifactType (by decide)]

theorem hasSelector_withSelector (t : DepType) : (withSelector t).hasAttr C07Consts.keySelector = true := by
  have h : C07Consts.keySelector = ((C07Consts.keySelector.toNat : Nat) : Int) := by decide
  have := getAttr_setAttr_same t C07Consts.keySelector.toNat []
  rw [← h] at this
  simp [DepType.hasAttr, withSelector, this]

/-- a declaration that passed `imports` of a non-first element is not test / optional / provided -/
theorem filterImport_nonfirst {imp : Import} (h : filterImport (optsOf false) imp = true) :
    rootOnly imp.typ = false := by
  simp only [filterImport, optsOf] at h
  simp only [rootOnly]
  revert h
  cases imp.typ.hasAttr C07Consts.keyTest <;> cases imp.typ.hasAttr C07Consts.keyOpt <;>
    cases imp.typ.hasAttr C07Consts.keyOrigin <;>
    cases (imp.typ.getAttr C07Consts.keyScope == some C07Consts.scopeProvided) <;> simp

end DepsDev.Resolve.Maven
