import DepsDev.Proofs.C06Tree

/-! Helper lemmas for C06/C04: a conflict cycle without aliases and without bundles on which the
npm resolver never finishes (F-C06-conflict-cycle).

`a@1.0.0 {a@1.0.0, b@1.0.0}`, `a@2.0.0 {a@2.0.0, b@2.0.0}`, `b@1.0.0 {a@2.0.0, b@1.0.0}`,
`b@2.0.0 {a@1.0.0, b@2.0.0}`, root `a@1.0.0`. Names: 5 `1.0.0`, 6 `2.0.0`, 7 `a`, 8 `b`.

The versions form the cycle `a1 → b1 → a2 → b2 → a1` in which every step needs the *other*
version of the package two levels up, and every version requires itself. The run builds the
chain `b/a/b/a/…`: the node at depth `k` resolves its self-requirement to itself (found in its
parent's directory) and thereby marks its own name protected in its own directory; its other
requirement finds, two levels up, the wrong version of that package, so a fresh copy is
installed; hoisting it one level up is refused because the parent protects that name (its own),
so it lands in the node's own directory — one level deeper, for ever. Without the
self-requirements the copy would be hoisted under a node of its own package and the
`unreachable version` exit would end the run. -/

namespace DepsDev.Resolve.Npm.Conflict

open DepsDev.Resolve.Npm

def reg : AttrSet := ⟨0, []⟩
def pkg (a : Bool) : Name := if a then 7 else 8
def vnum (hi : Bool) : Name := if hi then 6 else 5
/-- the version of package `a`/`b` (`a = true`/`false`) numbered `2.0.0`/`1.0.0` (`hi`). -/
def verOf (a hi : Bool) : Version := ⟨pkg a, vnum hi, reg⟩

/-- the version that the conflicting requirement of `verOf a hi` asks for -/
def nextHi (a hi : Bool) : Bool := if a then hi else !hi

def selfImp (a hi : Bool) : Import := ⟨pkg a, vnum hi, reg⟩
def confImp (a hi : Bool) : Import := ⟨pkg (!a), vnum (nextHi a hi), reg⟩
/-- requirements in the client's order (by name: `a` before `b`) -/
def idepsOf (a hi : Bool) : List Import :=
  if a then [selfImp a hi, confImp a hi] else [confImp a hi, selfImp a hi]

def conflictU : Universe where
  versions := [(verOf true false, idepsOf true false), (verOf true true, idepsOf true true),
    (verOf false false, idepsOf false false), (verOf false true, idepsOf false true)]
  matching := [((7, 4), some []), ((7, 5), some [verOf true false]), ((8, 5), some [verOf false false]),
    ((7, 6), some [verOf true true]), ((8, 6), some [verOf false true]), ((8, 4), some [])]
  semver := [(5, some [5]), (6, some [6])]

/-- the (package, version) at depth `j` of the chain; depth 0 is the root `a@1.0.0`. -/
def phaseAt : Nat → Bool × Bool
  | 0 => (true, false)
  | j + 1 => (!(phaseAt j).1, nextHi (phaseAt j).1 (phaseAt j).2)

def slotOf (a : Bool) : Slot := ⟨false, pkg a⟩

/-- the directory of the chain node at depth `j` (innermost slot first). -/
def alt : Nat → Path
  | 0 => []
  | j + 1 => slotOf (phaseAt (j + 1)).1 :: alt j

theorem alt_length (j : Nat) : (alt j).length = j := by
  induction j with
  | zero => rfl
  | succ j ih => simp [alt, ih]

theorem alt_inj {i j : Nat} (h : alt i = alt j) : i = j := by
  have := congrArg List.length h
  simpa [alt_length] using this

/-- The keys of the tree are the root's own copy `[a]` and the chain down to depth `n`. -/
def Keys (n : Nat) (t : Tree) : Prop :=
  ∀ p, p ∈ t.keys ↔ p = [slotOf true] ∨ ∃ j, j ≤ n ∧ p = alt j

theorem Keys.cons_alt {n : Nat} {t : Tree} (hk : Keys n t) {s : Slot} {j : Nat}
    (h : (s :: alt j) ∈ t.keys) : (j + 1 ≤ n ∧ s = slotOf (phaseAt (j + 1)).1) ∨ (j = 0 ∧ s = slotOf true) := by
  rcases (hk _).1 h with h | ⟨i, hi, h⟩
  · right
    simp only [List.cons.injEq] at h
    have : j = 0 := by
      have := congrArg List.length h.2
      simpa [alt_length] using this
    exact ⟨this, h.1⟩
  · left
    have hlen := congrArg List.length h
    simp only [List.length_cons, alt_length] at hlen
    subst hlen
    simp only [alt, List.cons.injEq] at h
    exact ⟨hi, h.1⟩

/-- a slot of a chain directory is free unless it is the next chain node (or the root's `[a]`). -/
theorem Keys.get?_none {n : Nat} {t : Tree} (hk : Keys n t) {s : Slot} {j : Nat}
    (h1 : ¬ (j + 1 ≤ n ∧ s = slotOf (phaseAt (j + 1)).1)) (h2 : ¬ (j = 0 ∧ s = slotOf true)) :
    t.get? (s :: alt j) = none := by
  rw [Tree.get?_eq_none]
  intro h
  rcases hk.cons_alt h with h | h
  · exact h1 h
  · exact h2 h

theorem candidate_none_of {t : Tree} {cur : Path} {ipk : Name}
    (h1 : t.get? (⟨false, ipk⟩ :: cur) = none) (h2 : t.get? (⟨true, ipk⟩ :: cur) = none) :
    candidate t cur ipk Name.empty = none := by
  simp [candidate, h1, h2]

theorem candidate_some_of {t : Tree} {cur : Path} {ipk : Name} {c : TNode}
    (h1 : t.get? (⟨false, ipk⟩ :: cur) = some c) :
    candidate t cur ipk Name.empty = some (⟨false, ipk⟩ :: cur, c, true) := by
  simp [candidate, h1]

theorem walkUp_of_walkAt_some {u : Universe} {t : Tree} {i : Import} {d : List Version} {p : Path}
    {r : Option Path} (h : walkAt u t i d p = .ok (some r)) : walkUp u t i d p = .ok r := by
  cases p <;> simp [walkUp, h]

theorem walkUp_cons_of_none {u : Universe} {t : Tree} {i : Import} {d : List Version} {s : Slot} {p : Path}
    (h : walkAt u t i d (s :: p) = .ok none) : walkUp u t i d (s :: p) = walkUp u t i d p := by
  simp [walkUp, h]

/-! ### facts about the universe, by cases on the four versions -/

theorem alias_self (a hi : Bool) : (selfImp a hi).alias = Name.empty := by cases a <;> cases hi <;> rfl
theorem alias_conf (a hi : Bool) : (confImp a hi).alias = Name.empty := by cases a <;> cases hi <;> rfl
theorem matching_self (a hi : Bool) :
    conflictU.matchingVersions (selfImp a hi).name (selfImp a hi).req = .ok [verOf a hi] := by
  cases a <;> cases hi <;> decide
theorem matching_conf (a hi : Bool) :
    conflictU.matchingVersions (confImp a hi).name (confImp a hi).req = .ok [verOf (!a) (nextHi a hi)] := by
  cases a <;> cases hi <;> decide
theorem wouldPick_one (a hi : Bool) : wouldPick conflictU [verOf a hi] = .ok (some (verOf a hi)) := by
  cases a <;> cases hi <;> decide
theorem newTreeNode_verOf (a hi : Bool) (id : Nat) :
    newTreeNode conflictU (verOf a hi) id = .ok ⟨verOf a hi, idepsOf a hi, false, [], [], id⟩ := by
  cases a <;> cases hi <;> rfl
theorem star_self (a hi : Bool) : ((selfImp a hi).req == Name.star) = false := by cases a <;> cases hi <;> rfl
theorem star_conf (a hi : Bool) : ((confImp a hi).req == Name.star) = false := by cases a <;> cases hi <;> rfl
/-- The state when the chain node at depth `k + 2` is about to be processed. -/
structure Chain (k : Nat) (st : State) : Prop where
  keys : Keys (k + 2) st.tree
  leaf : ∃ n, st.tree.get? (alt (k + 2)) = some n ∧ n.processed = false ∧
    n.ideps = idepsOf (phaseAt (k + 2)).1 (phaseAt (k + 2)).2 ∧
    n.ver = verOf (phaseAt (k + 2)).1 (phaseAt (k + 2)).2 ∧ n.id < st.nodes.length
  parent : ∃ m, st.tree.get? (alt (k + 1)) = some m ∧
    m.ver = verOf (phaseAt (k + 1)).1 (phaseAt (k + 1)).2 ∧ pkg (phaseAt (k + 1)).1 ∈ m.prot

/-- The self-requirement of the chain node at depth `k + 2` (already marked processed) is
resolved to the node itself, found in its parent's directory; the node's own name becomes
protected in its own directory. `n` is `k + 2` before and `k + 3` after the node's fresh
install. -/
theorem step_self {k n : Nat} {t : Tree} {nodes : List GNode} {edges : List Edge} {ins : List Path}
    (a hi : Bool) (hph : phaseAt (k + 2) = (a, hi)) (hk : Keys n t)
    {leaf : TNode} (hleaf : t.get? (alt (k + 2)) = some leaf) (hver : leaf.ver = verOf a hi)
    (hproc : leaf.processed = true) (hid : leaf.id < nodes.length) :
    stepDep conflictU (alt (k + 2)) leaf.id ⟨⟨t, nodes, edges⟩, ins⟩ (selfImp a hi) =
      .ok ⟨⟨t.modify (alt (k + 2)) (markNode (pkg a) Name.empty), nodes,
        edges ++ [⟨leaf.id, leaf.id, reg, selfImp a hi, false⟩]⟩, ins⟩ := by
  have hname : (selfImp a hi).name = pkg a := rfl
  have hslot : slotOf (phaseAt (k + 2)).1 = ⟨false, pkg a⟩ := by rw [hph]; rfl
  have hchild : (phaseAt (k + 3)).1 = !a := by
    show (!(phaseAt (k + 2)).1) = !a
    rw [hph]
  -- the node's own directory has no entry named like the node
  have hfree : candidate t (alt (k + 2)) (pkg a) Name.empty = none := by
    apply candidate_none_of
    · apply hk.get?_none
      · rintro ⟨_, h⟩
        rw [hchild] at h
        cases a <;> simp [slotOf, pkg] at h
      · rintro ⟨h, _⟩; omega
    · apply hk.get?_none
      · rintro ⟨_, h⟩; simp [slotOf] at h
      · rintro ⟨_, h⟩; simp [slotOf] at h
  -- in the parent's directory that entry is the node itself
  have hself : candidate t (alt (k + 1)) (pkg a) Name.empty = some (alt (k + 2), leaf, true) := by
    have : alt (k + 2) = ⟨false, pkg a⟩ :: alt (k + 1) := by
      show slotOf (phaseAt (k + 2)).1 :: alt (k + 1) = _
      rw [hslot]
    rw [this] at hleaf ⊢
    exact candidate_some_of hleaf
  have hwalk : walkUp conflictU t (selfImp a hi) [verOf a hi] (alt (k + 2)) = .ok (some (alt (k + 2))) := by
    have hat : walkAt conflictU t (selfImp a hi) [verOf a hi] (alt (k + 2)) = .ok none := by
      unfold walkAt; rw [hname, alias_self, hfree]
    have hsplit : alt (k + 2) = slotOf (phaseAt (k + 2)).1 :: alt (k + 1) := rfl
    rw [hsplit] at hat ⊢
    rw [walkUp_cons_of_none hat]
    apply walkUp_of_walkAt_some
    unfold walkAt
    rw [hname, alias_self, hself]
    simp only [hver]
    have : ([verOf a hi].any fun d => (verOf a hi).keyEq d) = true := by
      cases a <;> cases hi <;> decide
    simp [this]
    exact hsplit
  have hmark : markProtected (pkg a) Name.empty t (alt (k + 2)) =
      t.modify (alt (k + 2)) (markNode (pkg a) Name.empty) := by
    have hsplit : alt (k + 2) = slotOf (phaseAt (k + 2)).1 :: alt (k + 1) := rfl
    have hfree' : candidate t (slotOf (phaseAt (k + 2)).1 :: alt (k + 1)) (pkg a) Name.empty = none := hfree
    have hkeys : (t.modify (alt (k + 2)) (markNode (pkg a) Name.empty)).keys = t.keys := Tree.keys_modify _ _ _
    have hself' : (candidate (t.modify (alt (k + 2)) (markNode (pkg a) Name.empty)) (alt (k + 1)) (pkg a)
        Name.empty).isSome = true := by
      rw [candidate_isSome_keys hkeys, hself]; rfl
    rw [hsplit] at hself' ⊢
    simp only [markProtected, hfree', Option.isSome_none, Bool.false_eq_true, if_false]
    cases hk1 : k + 1 with
    | zero => omega
    | succ k0 =>
      rw [hk1] at hself'
      have hsplit1 : alt (k0 + 1) = slotOf (phaseAt (k0 + 1)).1 :: alt k0 := rfl
      rw [hsplit1] at hself' ⊢
      simp only [markProtected, hself', if_true]
  unfold stepDep
  simp only [matching_self, hwalk, hleaf, hproc, if_true]
  rw [hname, alias_self, hmark]
  simp only [State.addEdge, hid, and_self, if_true]
  rfl

/-- The conflicting requirement of the chain node at depth `k + 2` finds the other version of
its package two levels up, so a fresh copy is installed — in the node's own directory, because
the parent protects that name. -/
theorem step_conf {k : Nat} {t : Tree} {nodes : List GNode} {edges : List Edge} {ins : List Path}
    (a hi : Bool) (hph : phaseAt (k + 2) = (a, hi)) (hk : Keys (k + 2) t)
    {leaf : TNode} (hleaf : t.get? (alt (k + 2)) = some leaf) (hver : leaf.ver = verOf a hi)
    (hid : leaf.id < nodes.length)
    {m : TNode} (hm : t.get? (alt (k + 1)) = some m)
    (hmver : m.ver = verOf (phaseAt (k + 1)).1 (phaseAt (k + 1)).2)
    (hmprot : pkg (phaseAt (k + 1)).1 ∈ m.prot) :
    stepDep conflictU (alt (k + 2)) leaf.id ⟨⟨t, nodes, edges⟩, ins⟩ (confImp a hi) =
      .ok ⟨⟨t ++ [(alt (k + 3), ⟨verOf (!a) (nextHi a hi), idepsOf (!a) (nextHi a hi), false, [], [], nodes.length⟩)],
        nodes ++ [⟨pkg (!a), vnum (nextHi a hi), []⟩],
        edges ++ [⟨leaf.id, nodes.length, reg.set depSelector Name.empty, confImp a hi, true⟩]⟩,
        ins ++ [alt (k + 3)]⟩ := by
  have hname : (confImp a hi).name = pkg (!a) := rfl
  -- phases of the parent and of the new child
  have hpar : (phaseAt (k + 1)).1 = !a := by
    have h1 : (phaseAt (k + 2)).1 = !(phaseAt (k + 1)).1 := rfl
    rw [hph] at h1
    simp only at h1
    cases hp : (phaseAt (k + 1)).1 <;> simp_all
  have hparhi : nextHi (phaseAt (k + 1)).1 (phaseAt (k + 1)).2 = hi := by
    have h1 : (phaseAt (k + 2)).2 = nextHi (phaseAt (k + 1)).1 (phaseAt (k + 1)).2 := rfl
    rw [hph] at h1
    exact h1.symm
  have hchild : phaseAt (k + 3) = (!a, nextHi a hi) := by
    show (!(phaseAt (k + 2)).1, nextHi (phaseAt (k + 2)).1 (phaseAt (k + 2)).2) = _
    rw [hph]
  have hsplit2 : alt (k + 2) = ⟨false, pkg a⟩ :: alt (k + 1) := by
    show slotOf (phaseAt (k + 2)).1 :: alt (k + 1) = _
    rw [hph]; rfl
  have hsplit1 : alt (k + 1) = ⟨false, pkg (!a)⟩ :: alt k := by
    show slotOf (phaseAt (k + 1)).1 :: alt k = _
    rw [hpar]; rfl
  have hsplit3 : alt (k + 3) = ⟨false, pkg (!a)⟩ :: alt (k + 2) := by
    show slotOf (phaseAt (k + 3)).1 :: alt (k + 2) = _
    rw [hchild]; rfl
  have hne : pkg a ≠ pkg (!a) := by cases a <;> decide
  -- the leaf's directory has no entry of that name
  have hfree2 : candidate t (alt (k + 2)) (pkg (!a)) Name.empty = none := by
    apply candidate_none_of
    · apply hk.get?_none
      · rintro ⟨h, _⟩; omega
      · rintro ⟨h, _⟩; omega
    · apply hk.get?_none
      · rintro ⟨h, _⟩; omega
      · rintro ⟨h, _⟩; omega
  -- neither has the parent's directory (its only entry is the leaf)
  have hfree1 : candidate t (alt (k + 1)) (pkg (!a)) Name.empty = none := by
    apply candidate_none_of
    · apply hk.get?_none
      · rintro ⟨_, h⟩
        rw [hph] at h
        simp only [slotOf, Slot.mk.injEq, true_and] at h
        exact hne h.symm
      · rintro ⟨h, _⟩; omega
    · apply hk.get?_none
      · rintro ⟨_, h⟩; simp [slotOf] at h
      · rintro ⟨_, h⟩; simp [slotOf] at h
  -- two levels up it is the parent, of the other version
  have hgrand : candidate t (alt k) (pkg (!a)) Name.empty = some (alt (k + 1), m, true) := by
    rw [hsplit1] at hm ⊢
    exact candidate_some_of hm
  have hmis : ([verOf (!a) (nextHi a hi)].any fun d => m.ver.keyEq d) = false := by
    rw [hmver, hpar]
    have : nextHi a hi = !(phaseAt (k + 1)).2 := by
      rw [← hparhi, hpar]
      cases a <;> cases (phaseAt (k + 1)).2 <;> rfl
    rw [this]
    cases a <;> cases (phaseAt (k + 1)).2 <;> decide
  have hwalk : walkUp conflictU t (confImp a hi) [verOf (!a) (nextHi a hi)] (alt (k + 2)) = .ok none := by
    have hat2 : walkAt conflictU t (confImp a hi) [verOf (!a) (nextHi a hi)] (alt (k + 2)) = .ok none := by
      unfold walkAt; rw [hname, alias_conf, hfree2]
    have hat1 : walkAt conflictU t (confImp a hi) [verOf (!a) (nextHi a hi)] (alt (k + 1)) = .ok none := by
      unfold walkAt; rw [hname, alias_conf, hfree1]
    rw [hsplit2] at hat2 ⊢
    rw [walkUp_cons_of_none hat2]
    rw [hsplit1] at hat1 ⊢
    rw [walkUp_cons_of_none hat1]
    apply walkUp_of_walkAt_some
    unfold walkAt
    rw [hname, alias_conf, hgrand]
    simp [hmis, star_conf]
  -- hoisting is refused at once: the parent protects the name
  have hhoist : hoist (pkg (!a)) Name.empty t (alt (k + 2)) = .ok (t, alt (k + 2)) := by
    rw [hsplit2]
    simp only [hoist, hm, hfree1, Option.isSome_none, Bool.false_eq_true, if_false]
    have : isProtected m (pkg (!a)) Name.empty = true := by
      simp [isProtected]
      left; rw [← hpar]; exact hmprot
    simp [this]
  have hcand : (candidate t (alt (k + 2)) (verOf (!a) (nextHi a hi)).name Name.empty).isSome = false := by
    show (candidate t (alt (k + 2)) (pkg (!a)) Name.empty).isSome = false
    rw [hfree2]; rfl
  have hunr : ¬ (alt (k + 2) ≠ [] ∧ leaf.ver.name = (verOf (!a) (nextHi a hi)).name) := by
    rintro ⟨_, h⟩
    rw [hver] at h
    exact hne h
  unfold stepDep
  simp only [matching_conf, hwalk, wouldPick_one, newTreeNode_verOf]
  rw [alias_conf]
  simp only [hcand, Bool.false_eq_true, if_false]
  have hh : hoist (verOf (!a) (nextHi a hi)).name Name.empty t (alt (k + 2)) = .ok (t, alt (k + 2)) := hhoist
  simp only [hh, hleaf, hunr, if_false, if_true, State.addNode]
  have hlt : leaf.id < (nodes ++ [(⟨(verOf (!a) (nextHi a hi)).name, (verOf (!a) (nextHi a hi)).version, []⟩ : GNode)]).length ∧
      nodes.length < (nodes ++ [(⟨(verOf (!a) (nextHi a hi)).name, (verOf (!a) (nextHi a hi)).version, []⟩ : GNode)]).length := by
    simp only [List.length_append, List.length_singleton]
    omega
  simp only [State.addEdge, hlt, and_self, if_true]
  rw [hsplit3]
  rfl

theorem Keys.modify {n : Nat} {t : Tree} (hk : Keys n t) (p : Path) (f : TNode → TNode) :
    Keys n (t.modify p f) := by
  intro q; rw [Tree.keys_modify]; exact hk q

theorem Keys.append {n : Nat} {t : Tree} (hk : Keys n t) (x : TNode) : Keys (n + 1) (t ++ [(alt (n + 1), x)]) := by
  intro p
  rw [Tree.keys_append]
  simp only [List.mem_append, Tree.keys_cons, Tree.keys_nil, List.mem_singleton]
  rw [hk p]
  constructor
  · rintro ((h | ⟨j, hj, rfl⟩) | rfl)
    · exact Or.inl h
    · exact Or.inr ⟨j, Nat.le_succ_of_le hj, rfl⟩
    · exact Or.inr ⟨n + 1, Nat.le_refl _, rfl⟩
  · rintro (h | ⟨j, hj, rfl⟩)
    · exact Or.inl (Or.inl h)
    · rcases Nat.lt_or_ge j (n + 1) with h | h
      · exact Or.inl (Or.inr ⟨j, Nat.le_of_lt_succ h, rfl⟩)
      · have : j = n + 1 := Nat.le_antisymm hj h
        subst this; exact Or.inr rfl

theorem Keys.next_fresh {n : Nat} {t : Tree} (hk : Keys n t) : alt (n + 1) ∉ t.keys := by
  intro h
  rcases (hk _).1 h with h | ⟨j, hj, h⟩
  · have := congrArg List.length h
    simp [alt_length] at this
    subst this
    -- alt 1 = [b] ≠ [a]
    simp [alt, phaseAt, slotOf, pkg, nextHi] at h
  · have := alt_inj h
    omega

theorem alt_ne_succ (j : Nat) : alt (j + 1) ≠ alt j := fun h => by
  have := alt_inj h; omega

theorem mem_prot_markNode (x : Name) (n : TNode) : x ∈ (markNode x Name.empty n).prot := by
  simp [markNode, Name.empty, setInsert]
  split <;> simp_all

/-- One iteration of the main loop on a chain state yields the next chain state. -/
theorem loop_step (fuel k : Nat) (rest : List Path) (st : State) (hc : Chain k st) :
    ∃ st', Chain (k + 1) st' ∧
      loop conflictU (fuel + 1) (alt (k + 2) :: rest) st = loop conflictU fuel (alt (k + 3) :: rest) st' := by
  obtain ⟨n, hn, hproc, hideps, hver, hid⟩ := hc.leaf
  obtain ⟨m, hm, hmver, hmprot⟩ := hc.parent
  cases hph : phaseAt (k + 2) with
  | mk a hi =>
  rw [hph] at hideps hver
  simp only at hideps hver
  have hchild : phaseAt (k + 3) = (!a, nextHi a hi) := by
    show (!(phaseAt (k + 2)).1, nextHi (phaseAt (k + 2)).1 (phaseAt (k + 2)).2) = _
    rw [hph]
  -- after `cur.processed = true`
  let L := alt (k + 2)
  let t1 := st.tree.modify L setProcessed
  have hk1 : Keys (k + 2) t1 := hc.keys.modify _ _
  have hn1 : t1.get? L = some (setProcessed n) := by
    show (st.tree.modify (alt (k + 2)) setProcessed).get? (alt (k + 2)) = _
    rw [Tree.get?_modify]; simp [hn]
  have hm1 : t1.get? (alt (k + 1)) = some m := by
    show (st.tree.modify L setProcessed).get? (alt (k + 1)) = _
    rw [Tree.get?_modify]
    have : ¬ (L = alt (k + 1)) := alt_ne_succ (k + 1)
    simp [this, hm]
  let node : TNode := ⟨verOf (!a) (nextHi a hi), idepsOf (!a) (nextHi a hi), false, [], [], st.nodes.length⟩
  let g : GNode := ⟨pkg (!a), vnum (nextHi a hi), []⟩
  let e1 : Edge := ⟨n.id, n.id, reg, selfImp a hi, false⟩
  let e2 : Edge := ⟨n.id, st.nodes.length, reg.set depSelector Name.empty, confImp a hi, true⟩
  have hnewleaf : ∀ t' : Tree, t'.get? (alt (k + 3)) = some node →
      ∃ x, t'.get? (alt (k + 3)) = some x ∧ x.processed = false ∧
        x.ideps = idepsOf (phaseAt (k + 3)).1 (phaseAt (k + 3)).2 ∧
        x.ver = verOf (phaseAt (k + 3)).1 (phaseAt (k + 3)).2 ∧ x.id < (st.nodes ++ [g]).length := by
    intro t' h
    refine ⟨node, h, rfl, ?_, ?_, ?_⟩
    · rw [hchild]
    · rw [hchild]
    · show st.nodes.length < (st.nodes ++ [g]).length
      simp
  cases a with
  | true =>
    -- self-requirement first, then the conflicting one
    have h1 : stepDep conflictU L n.id ⟨⟨t1, st.nodes, st.edges⟩, []⟩ (selfImp true hi) =
        .ok ⟨⟨t1.modify L (markNode (pkg true) Name.empty), st.nodes, st.edges ++ [e1]⟩, []⟩ :=
      step_self (leaf := setProcessed n) true hi hph hk1 hn1 hver rfl hid
    let t2 := t1.modify L (markNode (pkg true) Name.empty)
    have hn2 : t2.get? L = some (markNode (pkg true) Name.empty (setProcessed n)) := by
      show (t1.modify L _).get? L = _
      rw [Tree.get?_modify]; simp [hn1]
    have hm2 : t2.get? (alt (k + 1)) = some m := by
      show (t1.modify L _).get? (alt (k + 1)) = _
      rw [Tree.get?_modify]
      have : ¬ (L = alt (k + 1)) := alt_ne_succ (k + 1)
      simp [this, hm1]
    have hver2 : (markNode (pkg true) Name.empty (setProcessed n)).ver = verOf true hi := by
      simp only [markNode]; split <;> exact hver
    have hid2 : (markNode (pkg true) Name.empty (setProcessed n)).id = n.id := by
      simp only [markNode]; split <;> rfl
    have h2 : stepDep conflictU L n.id ⟨⟨t2, st.nodes, st.edges ++ [e1]⟩, []⟩ (confImp true hi) =
        .ok ⟨⟨t2 ++ [(alt (k + 3), node)], st.nodes ++ [g], st.edges ++ [e1] ++ [e2]⟩, [] ++ [alt (k + 3)]⟩ := by
      have := step_conf (nodes := st.nodes) (edges := st.edges ++ [e1]) (ins := []) true hi hph
        (hk1.modify L (markNode (pkg true) Name.empty)) hn2 hver2 (by rw [hid2]; exact hid) hm2 hmver hmprot
      rw [hid2] at this
      exact this
    refine ⟨⟨t2 ++ [(alt (k + 3), node)], st.nodes ++ [g], st.edges ++ [e1] ++ [e2]⟩, ⟨?_, ?_, ?_⟩, ?_⟩
    · exact (hk1.modify L _).append node
    · apply hnewleaf
      exact Tree.get?_append_single_new _ _ _ (hk1.modify L _).next_fresh
    · refine ⟨markNode (pkg true) Name.empty (setProcessed n), ?_, ?_, ?_⟩
      · show (t2 ++ [(alt (k + 3), node)]).get? (alt (k + 2)) = _
        rw [Tree.get?_append_single_old _ _ _ _ (alt_ne_succ (k + 2))]
        exact hn2
      · rw [hph]; exact hver2
      · rw [hph]; exact mem_prot_markNode _ _
    · simp only [loop, hn, hproc, Bool.false_eq_true, if_false, hideps, idepsOf, if_true, stepDeps]
      have h1' : stepDep conflictU (alt (k + 2)) n.id
          ⟨{ st with tree := st.tree.modify (alt (k + 2)) setProcessed }, []⟩ (selfImp true hi) = _ := h1
      rw [h1']
      simp only
      have h2' : stepDep conflictU (alt (k + 2)) n.id
          ⟨⟨t1.modify L (markNode (pkg true) Name.empty), st.nodes, st.edges ++ [e1]⟩, []⟩ (confImp true hi) = _ := h2
      rw [h2']
      simp only [List.nil_append, List.singleton_append]
  | false =>
    -- the conflicting requirement first, then the self-requirement
    have h1 : stepDep conflictU L n.id ⟨⟨t1, st.nodes, st.edges⟩, []⟩ (confImp false hi) =
        .ok ⟨⟨t1 ++ [(alt (k + 3), node)], st.nodes ++ [g], st.edges ++ [e2]⟩, [] ++ [alt (k + 3)]⟩ :=
      step_conf (leaf := setProcessed n) false hi hph hk1 hn1 hver hid hm1 hmver hmprot
    let t2 := t1 ++ [(alt (k + 3), node)]
    have hk2 : Keys (k + 3) t2 := hk1.append node
    have hn2 : t2.get? L = some (setProcessed n) := by
      show (t1 ++ [(alt (k + 3), node)]).get? (alt (k + 2)) = _
      rw [Tree.get?_append_single_old _ _ _ _ (alt_ne_succ (k + 2))]
      exact hn1
    have hid2 : n.id < (st.nodes ++ [g]).length := by
      simp only [List.length_append, List.length_singleton]; omega
    have h2 : stepDep conflictU L n.id ⟨⟨t2, st.nodes ++ [g], st.edges ++ [e2]⟩, [] ++ [alt (k + 3)]⟩ (selfImp false hi) =
        .ok ⟨⟨t2.modify L (markNode (pkg false) Name.empty), st.nodes ++ [g], st.edges ++ [e2] ++ [e1]⟩,
          [] ++ [alt (k + 3)]⟩ :=
      step_self (leaf := setProcessed n) false hi hph hk2 hn2 hver rfl hid2
    refine ⟨⟨t2.modify L (markNode (pkg false) Name.empty), st.nodes ++ [g], st.edges ++ [e2] ++ [e1]⟩,
      ⟨?_, ?_, ?_⟩, ?_⟩
    · exact hk2.modify _ _
    · apply hnewleaf
      show (t2.modify L _).get? (alt (k + 3)) = _
      rw [Tree.get?_modify]
      have : ¬ (L = alt (k + 3)) := fun h => alt_ne_succ (k + 2) h.symm
      simp only [this, if_false]
      exact Tree.get?_append_single_new _ _ _ hk1.next_fresh
    · refine ⟨markNode (pkg false) Name.empty (setProcessed n), ?_, ?_, ?_⟩
      · show (t2.modify L _).get? L = _
        rw [Tree.get?_modify]; simp [hn2]
      · rw [hph]; simp only [markNode]; split <;> exact hver
      · rw [hph]; exact mem_prot_markNode _ _
    · simp only [loop, hn, hproc, Bool.false_eq_true, if_false, hideps, idepsOf, stepDeps]
      have h1' : stepDep conflictU (alt (k + 2)) n.id
          ⟨{ st with tree := st.tree.modify (alt (k + 2)) setProcessed }, []⟩ (confImp false hi) = _ := h1
      rw [h1']
      simp only
      have h2' : stepDep conflictU (alt (k + 2)) n.id
          ⟨⟨t1 ++ [(alt (k + 3), node)], st.nodes ++ [g], st.edges ++ [e2]⟩, [] ++ [alt (k + 3)]⟩ (selfImp false hi) = _ := h2
      rw [h2']
      simp only [List.nil_append, List.singleton_append]

/-- On a chain state the loop never finishes, whatever the fuel. -/
theorem loop_chain_none (fuel : Nat) : ∀ (k : Nat) (rest : List Path) (st : State), Chain k st →
    loop conflictU fuel (alt (k + 2) :: rest) st = none := by
  induction fuel with
  | zero => intro k rest st _; rfl
  | succ fuel ih =>
    intro k rest st hc
    obtain ⟨st', hc', heq⟩ := loop_step fuel k rest st hc
    rw [heq]
    exact ih (k + 1) rest st' hc'

/-- The state after the root `a@1.0.0`, its own copy `[a]` and `b@1.0.0` at `[b]` have been
processed: `a@2.0.0` sits at `b/a`, unprocessed. -/
def st2 : State where
  tree := [([], ⟨verOf true false, idepsOf true false, true, [], [], 0⟩),
    ([slotOf true], ⟨verOf true false, idepsOf true false, true, [8, 7], [], 1⟩),
    ([slotOf false], ⟨verOf false false, idepsOf false false, true, [8], [], 2⟩),
    ([slotOf true, slotOf false], ⟨verOf true true, idepsOf true true, false, [], [], 3⟩)]
  nodes := [⟨7, 5, []⟩, ⟨7, 5, []⟩, ⟨8, 5, []⟩, ⟨7, 6, []⟩]
  edges := [⟨0, 1, reg.set depSelector Name.empty, selfImp true false, true⟩,
    ⟨0, 2, reg.set depSelector Name.empty, confImp true false, true⟩,
    ⟨1, 1, reg, selfImp true false, false⟩, ⟨1, 2, reg, confImp true false, false⟩,
    ⟨2, 3, reg.set depSelector Name.empty, confImp false false, true⟩,
    ⟨2, 2, reg, selfImp false false, false⟩]

/-- three pops lead from the initial state of `Resolve` to `st2` -/
theorem resolve_conflict (fuel : Nat) :
    resolve conflictU 7 5 (fuel + 3) = loop conflictU fuel (alt 2 :: [[slotOf false]]) st2 := rfl

theorem chain2 : Chain 0 st2 := by
  refine ⟨?_, ⟨_, rfl, rfl, rfl, rfl, by decide⟩, ⟨_, rfl, rfl, by decide⟩⟩
  intro p
  simp only [st2, Tree.keys, List.map_cons, List.map_nil, List.mem_cons, List.not_mem_nil, or_false]
  constructor
  · rintro (rfl | rfl | rfl | rfl)
    · exact Or.inr ⟨0, by omega, rfl⟩
    · exact Or.inl rfl
    · exact Or.inr ⟨1, by omega, rfl⟩
    · exact Or.inr ⟨2, by omega, rfl⟩
  · rintro (rfl | ⟨j, hj, rfl⟩)
    · exact Or.inr (Or.inl rfl)
    · have : j = 0 ∨ j = 1 ∨ j = 2 := by omega
      rcases this with rfl | rfl | rfl
      · exact Or.inl rfl
      · exact Or.inr (Or.inr (Or.inl rfl))
      · exact Or.inr (Or.inr (Or.inr rfl))

theorem resolve_none (fuel : Nat) : resolve conflictU 7 5 fuel = none := by
  match fuel with
  | 0 => rfl
  | 1 => rfl
  | 2 => rfl
  | fuel + 3 =>
    rw [resolve_conflict]
    exact loop_chain_none fuel 0 _ st2 chain2

end DepsDev.Resolve.Npm.Conflict
