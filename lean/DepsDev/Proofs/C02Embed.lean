import DepsDev.Model.Semver.Compare
import DepsDev.Ref.Npm
import DepsDev.Ref.Cargo
import DepsDev.Ref.GoMod
import DepsDev.Ref.NuGet
import DepsDev.Ref.Gem
import DepsDev.Ref.Pep440
import DepsDev.Ref.MavenCV

/-!
# C02 — `embed`: the model-side `Version` of a reference syntax tree

For every ecosystem, `embed a` is what `System.Parse` makes of the normal form
`render a` (the `Version` value of the model). That equation is checked, value by
value, by the correspondence op `embed` (the Lean driver evaluates
`parse sys (render a) == .ok (embed a)` structurally, the Go side prints what the real
parser shows of `render a`); the theorems of `Props/C02.lean` are about
`vcompare (embed a) (embed b)`. Core Lean only (the driver imports this file).
-/
namespace DepsDev.Proofs.C02

open DepsDev DepsDev.Semver DepsDev.Ref

/-- Pad with zeros to three numbers (`for len(num) < 3 { addNum(0) }`). -/
def pad3 (l : List Int) : List Int :=
  if l.length < 3 then l ++ List.replicate (3 - l.length) 0 else l

def ints (l : List Nat) : List Int := l.map Int.ofNat

/-! ## SemVer family and NuGet -/

def buildBytes (b : List Bytes) : Bytes := if b.isEmpty then [] else 43 :: joinSep 46 b

def embedSemVer (sys : System) (a : SemVer.Ast) : Version :=
  { sys := sys, userNumCount := 3, isPrerelease := !a.pre.isEmpty,
    num := [(a.major : Int), a.minor, a.patch],
    pre := a.pre.map SemVer.Ident.render, build := buildBytes a.build, ext := .none }

def embedNuGet (a : NuGet.Ast) : Version :=
  { sys := .nuget, userNumCount := if a.revision = 0 then 3 else 4, isPrerelease := !a.pre.isEmpty,
    num := [(a.major : Int), a.minor, a.patch] ++ (if a.revision = 0 then [] else [(a.revision : Int)]),
    pre := a.pre.map SemVer.Ident.render, build := buildBytes a.metadata, ext := .none }

/-! ## RubyGems -/

def gemElem : Gem.Seg → GemElem
  | .num n => { str := dec n, int := n }
  | .str s => { str := s.map toLowerB, int := 0 }

def gemNum : Gem.Seg → Int
  | .num n => n
  | .str _ => 0

def embedGem (a : Gem.Ast) : Version :=
  let nums := a.segs.takeWhile Gem.Seg.isNum
  let rest := a.segs.dropWhile Gem.Seg.isNum
  { sys := .rubygems, userNumCount := nums.length, isPrerelease := !rest.isEmpty,
    num := pad3 (nums.map gemNum), pre := rest.map Gem.Seg.render,
    ext := .gem (gemTrim (rest.map gemElem)) }

/-! ## PyPI -/

def pepLocal (l : List Pep440.LocalSeg) : Bytes := joinSep 46 (l.map Pep440.LocalSeg.render)

def pepExtOf (a : Pep440.Ast) : Semver.Pep440 :=
  { epoch := a.epoch,
    pre := match a.pre with | some (k, _) => k.render | none => [],
    preNum := match a.pre with | some (_, n) => n | none => 0,
    postPresent := a.post.isSome, postNum := match a.post with | some n => n | none => 0,
    devPresent := a.dev.isSome, devNum := match a.dev with | some n => n | none => 0,
    loc := pepLocal a.loc }

/-- No `pep440` struct is allocated (`ext == nil`) when nothing but release numbers is written. -/
def pepPlain (a : Pep440.Ast) : Bool :=
  a.epoch == 0 && a.pre.isNone && a.post.isNone && a.dev.isNone && a.loc.isEmpty

def embedPep (a : Pep440.Ast) : Version :=
  { sys := .pypi, userNumCount := a.release.length, isPrerelease := a.pre.isSome,
    num := pad3 (ints a.release),
    pre := match a.pre with | some (k, n) => [k.render, intToBytes n] | none => [],
    ext := .pep (if pepPlain a then none else some (pepExtOf a)) }

/-! ## Maven -/

def sepByte : MavenCV.Sep → UInt8
  | .dot => 46
  | _ => 45

def mavenTokElem (sep : UInt8) : MavenCV.Tok → MavenElem
  | .num n => { sep := sep, str := dec n, int := n }
  | .word w => { sep := sep, str := w, int := 0 }

/-- The `a`/`b`/`m` shortcut when a number follows the word without a separator. -/
def mavenAlias (t : MavenCV.Tok) (next : Option (MavenCV.Sep × MavenCV.Tok)) : MavenCV.Tok :=
  match t, next with
  | .word w, some (.trans, .num _) =>
    .word (if w == [97] then MavenCV.wAlpha else if w == [98] then MavenCV.wBeta
           else if w == [109] then MavenCV.wMilestone else w)
  | t, _ => t

def mavenRawFrom (sep : UInt8) (t : MavenCV.Tok) : List (MavenCV.Sep × MavenCV.Tok) → List MavenElem
  | [] => [mavenTokElem sep t]
  | (s, t') :: rest => mavenTokElem sep (mavenAlias t (some (s, t'))) :: mavenRawFrom (sepByte s) t' rest

def isQualElem (e : MavenElem) : Bool := (mavenCategory e.str).1 != Gen.SemverTables.versionNumeric

def embedMaven (a : MavenCV.Ast) : Version :=
  let (t, rest) := MavenCV.tokens a
  let els := mavenTrim (mavenRawFrom 0 t rest)
  { sys := .maven, isPrerelease := els.any isQualElem, ext := .maven els }

/-! ## Finding classes (the negations of the extra hypotheses of the `_partial` theorems)

Decidable predicates on the syntax trees; mirrored in the harness (`classify` op). -/

/-- A numeric prerelease identifier of 2^63 or more (the library compares it as text). -/
def SemVer.bigPre (a : SemVer.Ast) : Bool :=
  a.pre.any (fun | .num n => decide (2 ^ 63 ≤ n) | .alnum _ => false)

/-- An alphanumeric identifier `-digits` (the library reads it as a negative number). -/
def SemVer.negIdent (a : SemVer.Ast) : Bool :=
  a.pre.any (fun | .num _ => false | .alnum s => looksNegative s)

/-- Numbers the library accepts (`parseNum`: below `infinity = 2^63-1`). -/
def SemVer.inLib (a : SemVer.Ast) : Bool :=
  decide (a.major < 2 ^ 63 - 1) && decide (a.minor < 2 ^ 63 - 1) && decide (a.patch < 2 ^ 63 - 1)

def isUpperB (c : UInt8) : Bool := 65 ≤ c && c ≤ 90

/-- Prerelease with `.post0`. -/
def Pep.prePost0 (a : Pep440.Ast) : Bool := a.pre.isSome && a.post == some 0
/-- Local version on a post- or dev-release that is not a prerelease. -/
def Pep.localPostDev (a : Pep440.Ast) : Bool :=
  !a.loc.isEmpty && a.pre.isNone && (a.post.isSome || a.dev.isSome)
/-- Local version on a prerelease. -/
def Pep.localPre (a : Pep440.Ast) : Bool := !a.loc.isEmpty && a.pre.isSome
/-- Upper-case letter in a local segment. -/
def Pep.localUpper (a : Pep440.Ast) : Bool :=
  a.loc.any (fun | .num _ => false | .str s => s.any isUpperB)
/-- Numbers the library reads exactly: epoch ≤ 255 (`ParseUint(_, 10, 8)`), release numbers
below `infinity`, pre/post/dev numbers below 2^63 and numeric local segments below 2^64
(above, `ParseUint` saturates). -/
def Pep.inLib (a : Pep440.Ast) : Bool :=
  decide (a.epoch ≤ 255) && a.release.all (fun n => decide (n < 2 ^ 63 - 1)) &&
  (match a.pre with | some (_, n) => decide (n < 2 ^ 63) | none => true) &&
  (match a.post with | some n => decide (n < 2 ^ 63) | none => true) &&
  (match a.dev with | some n => decide (n < 2 ^ 63) | none => true) &&
  a.loc.all (fun | .num n => decide (n < 2 ^ 64) | .str _ => true)

def Maven.releaseQual (q : Bytes) : Bool := q == MavenCV.wGa || q == MavenCV.wFinal || q == MavenCV.wRelease
def Maven.dashLike : MavenCV.Sep → Bool
  | .dot => false
  | _ => true
/-- `ga`/`final`/`release` after `-` (or a transition) and directly before `-SNAPSHOT`. -/
def Maven.finalSnapshot (a : MavenCV.Ast) : Bool :=
  a.snapshot && (match a.qual with | some (s, q) => Maven.dashLike s && Maven.releaseQual q | none => false)
/-- A number `0` after `-` (or a transition) and directly before `-SNAPSHOT`. -/
def Maven.zeroSnapshot (a : MavenCV.Ast) : Bool :=
  a.snapshot && (match a.qnum with | some (s, n) => Maven.dashLike s && n == 0 | none => false)
/-- The qualifier is one of those Maven orders at or below the release (after the
`a`/`b`/`m` shortcut): everything else is "unknown" or `sp`. -/
def Maven.knownQual (a : MavenCV.Ast) : Bool :=
  match a.qual with
  | none => true
  | some (_, q) =>
    ((q == [97] || q == [98] || q == [109]) && (match a.qnum with | some (.trans, _) => true | _ => false)) ||
    [MavenCV.wAlpha, MavenCV.wBeta, MavenCV.wMilestone, MavenCV.wRc, MavenCV.wCr, MavenCV.wSnapshot,
     MavenCV.wGa, MavenCV.wFinal, MavenCV.wRelease].contains q
/-- An unknown (or `sp`) qualifier attached with a dot. -/
def Maven.dotUnknown (a : MavenCV.Ast) : Bool :=
  (match a.qual with | some (.dot, _) => true | _ => false) && !Maven.knownQual a
/-- The version is `0` followed by a dot-attached qualifier (`0.alpha`). -/
def Maven.zeroDot (a : MavenCV.Ast) : Bool :=
  a.nums == [0] && (match a.qual with | some (.dot, q) => !Maven.releaseQual q | _ => false)
def Maven.inLib (a : MavenCV.Ast) : Bool :=
  a.nums.all (fun n => decide (n < 2 ^ 63 - 1)) &&
  (match a.qnum with | some (_, n) => decide (n < 2 ^ 63 - 1) | none => true)

/-- (Maven, on spellings) a numeric component that is zero and spelled with more than one digit. -/
def zeroRunFrom : Bytes → Nat → Bool → Bool
  | [], len, allZero => allZero && decide (len ≥ 2)
  | c :: r, len, allZero =>
    if isDigitB c then zeroRunFrom r (len + 1) (allZero && c == 48)
    else (allZero && decide (len ≥ 2)) || zeroRunFrom r 0 true

def zeroRun (s : Bytes) : Bool := zeroRunFrom s 0 true

/-- (PyPI, on spellings) an upper-case letter within the first three bytes after one optional
`v`: the window `possibleVersionString` inspects. -/
def Pep.earlyUpper (s : Bytes) : Bool :=
  let t := match s with | 118 :: r => r | 86 :: r => r | _ => s
  (t.take 3).any isUpperB

/-- (PyPI, on spellings) a leading `v` and an epoch mark `!`. -/
def Pep.vEpoch (s : Bytes) : Bool :=
  (match s with | 118 :: _ => true | 86 :: _ => true | _ => false) && s.contains 33

def Gem.inLib (a : Gem.Ast) : Bool :=
  a.segs.all (fun | .num n => decide (n < 2 ^ 63 - 1) | .str _ => true)

end DepsDev.Proofs.C02
