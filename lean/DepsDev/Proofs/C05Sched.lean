import DepsDev.Model.Resolve.PuritySched

/-!
# C05: every schedule gives every thread its solo result (`interleave_readonly`)
-/

namespace DepsDev.Resolve.Purity

variable {Shared Local Result : Type}

theorem solo_succ (step : Shared → Local → Local × Option Result) (σ : Shared) (t : Thread Local Result) (n : Nat) :
    solo step σ t (n + 1) = solo step σ (stepT step σ t) n := rfl

/-- **Interleaving theorem.** For any step function that cannot write the shared state, any
number of threads and ANY schedule: the state of thread `i` after the schedule is the state it
reaches running alone for as many steps as the schedule gave it. -/
theorem interleave_readonly (step : Shared → Local → Local × Option Result) (σ : Shared) :
    ∀ (s : List Nat) (ts : List (Thread Local Result)) (i : Nat),
      (runSchedule step σ ts s)[i]? = (ts[i]?).map fun t => solo step σ t (s.count i)
  | [], ts, i => by
      simp only [runSchedule, List.count_nil]
      cases ts[i]? <;> rfl
  | j :: s, ts, i => by
      unfold runSchedule
      cases hj : ts[j]? with
      | none =>
        simp only
        rw [interleave_readonly step σ s ts i]
        by_cases hij : j = i
        · subst hij; simp [hj]
        · simp [hij]
      | some t =>
        simp only
        rw [interleave_readonly step σ s (ts.set j (stepT step σ t)) i]
        have hlt : j < ts.length := by
          rcases Nat.lt_or_ge j ts.length with h | h
          · exact h
          · rw [List.getElem?_eq_none h] at hj; cases hj
        by_cases hij : j = i
        · subst hij
          have hget : ts[j] = t := by
            rw [List.getElem?_eq_getElem hlt] at hj; exact Option.some.inj hj
          simp [hlt, solo_succ, hget]
        · simp [hij]

/-- Once a thread has a result, further steps do not change it. -/
theorem stepT_of_result (step : Shared → Local → Local × Option Result) (σ : Shared) (t : Thread Local Result)
    {r : Result} (h : t.result = some r) : stepT step σ t = t := by
  unfold stepT; rw [h]

theorem solo_of_result (step : Shared → Local → Local × Option Result) (σ : Shared) :
    ∀ (n : Nat) (t : Thread Local Result) {r : Result}, t.result = some r → solo step σ t n = t
  | 0, _, _, _ => rfl
  | n + 1, t, r, h => by rw [solo_succ, stepT_of_result step σ t h]; exact solo_of_result step σ n t h

theorem solo_add (step : Shared → Local → Local × Option Result) (σ : Shared) :
    ∀ (n m : Nat) (t : Thread Local Result), solo step σ t (n + m) = solo step σ (solo step σ t n) m
  | 0, m, t => by simp [solo]
  | n + 1, m, t => by
      have : n + 1 + m = (n + m) + 1 := by omega
      rw [this, solo_succ, solo_succ, solo_add step σ n m]

/-- A result, once produced by the solo run, is what every longer solo run shows. -/
theorem solo_result_mono (step : Shared → Local → Local × Option Result) (σ : Shared) (t : Thread Local Result)
    {n m : Nat} {r : Result} (h : (solo step σ t n).result = some r) (hnm : n ≤ m) :
    (solo step σ t m).result = some r := by
  obtain ⟨d, rfl⟩ : ∃ d, m = n + d := ⟨m - n, by omega⟩
  rw [solo_add, solo_of_result step σ d _ h]; exact h

/-- **Each thread's final result equals its solo run**: if thread `i`, running alone, finishes
with `r` within `n` steps, then under every schedule that gives it at least `n` turns - however
the other threads are interleaved - it has finished with `r`. -/
theorem interleave_result (step : Shared → Local → Local × Option Result) (σ : Shared)
    (ts : List (Thread Local Result)) (s : List Nat) (i : Nat) (t : Thread Local Result) (hi : ts[i]? = some t)
    {n : Nat} {r : Result} (hsolo : (solo step σ t n).result = some r) (hturns : n ≤ s.count i) :
    ((runSchedule step σ ts s)[i]?).bind (·.result) = some r := by
  rw [interleave_readonly, hi]
  simp only [Option.map_some, Option.bind_some]
  exact solo_result_mono step σ t hsolo hturns

/-- Two schedules that give thread `i` the same number of turns leave it in the same state. -/
theorem interleave_schedule_irrelevant (step : Shared → Local → Local × Option Result) (σ : Shared)
    (ts : List (Thread Local Result)) (s s' : List Nat) (i : Nat) (h : s.count i = s'.count i) :
    (runSchedule step σ ts s)[i]? = (runSchedule step σ ts s')[i]? := by
  rw [interleave_readonly, interleave_readonly, h]

end DepsDev.Resolve.Purity
