import DepsDev.Proofs.C09Canon

/-!
# C09 — the successor seam holds no release version (arithmetic on number triples)

`canon` merges `[.., a] ∪ [b, ..]` when `a < b ≤ inc(fill(a, 0))`. For release versions with
at most three numbers in `[0, ∞]`, `inc(fill(a,0))` is the least release above `a`
(`succ_least`), so no release candidate lies strictly between `a` and `b` (`release_seamFree`).
-/
namespace DepsDev.Proofs.C09

open Std DepsDev DepsDev.Semver DepsDev.Proofs

variable {s : System}

/-- At most three numbers, each in `[0, ∞]` (no wildcard marker). -/
def Bounded (v : Version) : Prop := v.num.length ≤ 3 ∧ ∀ x ∈ v.num, 0 ≤ x ∧ x ≤ infinity

/-- `Bounded`, and an `∞` minor is followed by an `∞` patch (as `setTail(∞, ∞)` leaves it). -/
def Tidy (v : Version) : Prop :=
  Bounded v ∧ (v.getNum 1 = infinity → v.getNum 2 = infinity)

instance (v : Version) : Decidable (Bounded v) := by unfold Bounded; exact inferInstance
instance (v : Version) : Decidable (Tidy v) := by unfold Tidy; exact inferInstance

theorem len3_cases {α} (l : List α) (h : l.length ≤ 3) :
    l = [] ∨ (∃ x, l = [x]) ∨ (∃ x y, l = [x, y]) ∨ (∃ x y z, l = [x, y, z]) := by
  match l, h with
  | [], _ => simp
  | [x], _ => simp
  | [x, y], _ => simp
  | [x, y, z], _ => simp
  | _ :: _ :: _ :: _ :: _, h => simp at h

/-- The order of two release versions with at most three numbers is the lexicographic
order of their zero-padded number triples. -/
theorem lt_iff_tri {a v : Version} (ha : a.pre = []) (hv : v.pre = []) (la : a.num.length ≤ 3)
    (lv : v.num.length ≤ 3) :
    pt s a < pt s v ↔ (a.getNum 0 < v.getNum 0 ∨ (a.getNum 0 = v.getNum 0 ∧ (a.getNum 1 < v.getNum 1 ∨
      (a.getNum 1 = v.getNum 1 ∧ a.getNum 2 < v.getNum 2)))) := by
  rw [Pt.lt_def]
  simp only [genericOrd, compareLex, preOrd, ha, hv, twist, Ordering.then_eq, Version.getNum]
  rcases len3_cases _ la with h | ⟨x, h⟩ | ⟨x, y, h⟩ | ⟨x, y, z, h⟩ <;>
  rcases len3_cases _ lv with h' | ⟨x', h'⟩ | ⟨x', y', h'⟩ | ⟨x', y', z', h'⟩ <;>
  simp [h, h', padLex, Ordering.then_eq_lt, Int.compare_eq_lt] <;> omega

theorem le_iff_not_lt (a b : Pt s) : a ≤ b ↔ ¬ b < a := by grind

theorem infinity_pos : 0 < infinity := by decide
theorem wildcard_eq : wildcard = -1 := by decide

theorem getNum_bounds {v : Version} (h : Bounded v) (i : Nat) : 0 ≤ v.getNum i ∧ v.getNum i ≤ infinity := by
  unfold Version.getNum
  by_cases hi : i < v.num.length
  · simp only [List.getD_eq_getElem?_getD, List.getElem?_eq_getElem hi, Option.getD_some]
    exact h.2 _ (List.getElem_mem hi)
  · simp only [List.getD_eq_getElem?_getD, List.getElem?_eq_none (Nat.le_of_not_lt hi), Option.getD_none]
    exact ⟨Int.le_refl 0, Int.le_of_lt infinity_pos⟩

theorem ne_wildcard (x : Int) (h : 0 ≤ x) : (x == wildcard) = false := by
  rw [wildcard_eq]; simp; omega

theorem inc_not_gt (x I : Int) (h : x ≤ I) (h' : x ≠ I) : ¬ x + 1 > I := by omega

theorem succ_arith (I x0 x1 x2 y0 y1 y2 m0 m1 m2 : Int)
    (a0 : 0 ≤ x0 ∧ x0 ≤ I) (a1 : 0 ≤ x1 ∧ x1 ≤ I) (a2 : 0 ≤ x2 ∧ x2 ≤ I)
    (v0 : 0 ≤ y0 ∧ y0 ≤ I) (v1 : 0 ≤ y1 ∧ y1 ≤ I) (v2 : 0 ≤ y2 ∧ y2 ≤ I)
    (t2 : x1 = I → x2 = I)
    (hav : x0 < y0 ∨ (x0 = y0 ∧ (x1 < y1 ∨ (x1 = y1 ∧ x2 < y2))))
    (hc : (x0 = I ∧ m0 = x0 ∧ m1 = x1 ∧ m2 = x2) ∨
      (x0 ≠ I ∧ x1 = I ∧ m0 = x0 + 1 ∧ m1 = 0 ∧ m2 = 0) ∨
      (x0 ≠ I ∧ x1 ≠ I ∧ x2 = I ∧ m0 = x0 ∧ m1 = x1 + 1 ∧ m2 = 0) ∨
      (x0 ≠ I ∧ x1 ≠ I ∧ x2 ≠ I ∧ m0 = x0 ∧ m1 = x1 ∧ m2 = x2 + 1)) :
    ¬ (y0 < m0 ∨ (y0 = m0 ∧ (y1 < m1 ∨ (y1 = m1 ∧ y2 < m2)))) := by
  omega

/-- `fill(0)` of a version with at most three numbers has exactly its padded triple. -/
theorem fill_num {v : Version} (h : v.num.length ≤ 3) :
    (v.fill 0).num = [v.getNum 0, v.getNum 1, v.getNum 2] := by
  unfold Version.fill Version.getNum
  rcases len3_cases _ h with h | ⟨x, h⟩ | ⟨x, y, h⟩ | ⟨x, y, z, h⟩ <;> simp [h, List.replicate]

/-- The result of `inc` on a filled tidy release bound, as a triple. -/
theorem inc_fill_tri {a m : Version} (ht : Tidy a) (hpre : a.pre = []) (hm : (a.fill 0).inc = .ok m) :
    m.pre = [] ∧ m.num.length ≤ 3 ∧
    ((a.getNum 0 = infinity ∧ m.getNum 0 = a.getNum 0 ∧ m.getNum 1 = a.getNum 1 ∧ m.getNum 2 = a.getNum 2) ∨
     (a.getNum 0 ≠ infinity ∧ a.getNum 1 = infinity ∧ m.getNum 0 = a.getNum 0 + 1 ∧ m.getNum 1 = 0 ∧ m.getNum 2 = 0) ∨
     (a.getNum 0 ≠ infinity ∧ a.getNum 1 ≠ infinity ∧ a.getNum 2 = infinity ∧
        m.getNum 0 = a.getNum 0 ∧ m.getNum 1 = a.getNum 1 + 1 ∧ m.getNum 2 = 0) ∨
     (a.getNum 0 ≠ infinity ∧ a.getNum 1 ≠ infinity ∧ a.getNum 2 ≠ infinity ∧
        m.getNum 0 = a.getNum 0 ∧ m.getNum 1 = a.getNum 1 ∧ m.getNum 2 = a.getNum 2 + 1)) := by
  obtain ⟨hb, -⟩ := ht
  have b0 := getNum_bounds hb 0
  have b1 := getNum_bounds hb 1
  have b2 := getNum_bounds hb 2
  have hnum := fill_num hb.1
  have hp : (a.fill 0).pre = [] := by rw [fill_pre, hpre]
  generalize a.getNum 0 = x at *
  generalize a.getNum 1 = y at *
  generalize a.getNum 2 = z at *
  generalize a.fill 0 = f at *
  obtain ⟨fs, fu, fi, fn, fp, fb, fe⟩ := f
  simp only at hnum hp
  subst hnum hp
  have w0 : (x == wildcard) = false := ne_wildcard x b0.1
  have w1 : (y == wildcard) = false := ne_wildcard y b1.1
  have w2 : (z == wildcard) = false := ne_wildcard z b2.1
  simp only [Version.inc, List.isEmpty_nil, Bool.not_true, Bool.false_eq_true, ↓reduceIte, List.length_cons,
    List.length_nil, Nat.zero_add, Nat.reduceAdd] at hm
  simp only [List.findIdx?_cons, w0, w1, w2, Bool.false_or, List.findIdx?_nil] at hm
  by_cases h0 : x = infinity
  · simp only [h0, beq_self_eq_true, ↓reduceIte] at hm
    injection hm with hm
    subst hm
    exact ⟨rfl, by simp, Or.inl ⟨h0, by simp [Version.getNum, h0]⟩⟩
  · have h0' : (x == infinity) = false := by simpa using h0
    by_cases h1 : y = infinity
    · simp [h0', h1, Version.incN, Version.setNum, Value.inc] at hm
      subst hm
      refine ⟨rfl, by simp, Or.inr (Or.inl ⟨h0, h1, ?_⟩)⟩
      have : ¬ x + 1 > infinity := inc_not_gt x infinity b0.2 h0
      simp [Version.getNum, this]
    · have h1' : (y == infinity) = false := by simpa using h1
      by_cases h2 : z = infinity
      · simp [h0', h1', h2, Version.incN, Version.setNum, Value.inc] at hm
        subst hm
        refine ⟨rfl, by simp, Or.inr (Or.inr (Or.inl ⟨h0, h1, h2, ?_⟩))⟩
        have : ¬ y + 1 > infinity := inc_not_gt y infinity b1.2 h1
        simp [Version.getNum, this]
      · have h2' : (z == infinity) = false := by simpa using h2
        simp [h0', h1', h2', Version.incN, Version.setNum, Value.inc] at hm
        subst hm
        refine ⟨rfl, by simp, Or.inr (Or.inr (Or.inr ⟨h0, h1, h2, ?_⟩))⟩
        have : ¬ z + 1 > infinity := inc_not_gt z infinity b2.2 h2
        simp [Version.getNum, this]

/-- `inc(fill(a, 0))` is the least bounded release version above the tidy release bound `a`. -/
theorem succ_least {a m v : Version} (ht : Tidy a) (hpre : a.pre = []) (hm : (a.fill 0).inc = .ok m)
    (hv : Bounded v) (hvpre : v.pre = []) (hav : pt s a < pt s v) : pt s m ≤ pt s v := by
  obtain ⟨mpre, mlen, hcases⟩ := inc_fill_tri ht hpre hm
  rw [le_iff_not_lt, lt_iff_tri hvpre mpre hv.1 mlen]
  rw [lt_iff_tri hpre hvpre ht.1.1 hv.1] at hav
  exact succ_arith infinity _ _ _ _ _ _ _ _ _ (getNum_bounds ht.1 0) (getNum_bounds ht.1 1)
    (getNum_bounds ht.1 2) (getNum_bounds hv 0) (getNum_bounds hv 1) (getNum_bounds hv 2) ht.2 hav hcases

/-- No bounded release version lies strictly inside a successor seam above a tidy bound. -/
theorem release_seamFree {P : Version → Prop} (hP : ∀ a, P a → a.pre = [] → Tidy a) {v : Version}
    (hv : Bounded v) (hvpre : v.pre = []) : SeamFree s P v := by
  intro a b ha _ ⟨hapre, _, _, m, hm, hmb⟩ ⟨hav, hvb⟩
  have := succ_least (s := s) (hP a ha hapre) hapre hm hv hvpre hav
  grind

end DepsDev.Proofs.C09
