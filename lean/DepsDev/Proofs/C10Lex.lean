import DepsDev.Proofs.Digits
import DepsDev.Model.Semver.Compare

/-!
# C10 — the version lexer on blocks of accepted bytes; `versionParser.number`

`Lex.next` on an accepted ASCII byte, at the end of the input and on '∞';
`scanWhile` on a maximal block; `number` on a printed number (`number_digits`) and on
'∞' (`number_inf`).
-/
namespace DepsDev.Proofs.C10
open DepsDev DepsDev.Semver

/-- Bytes the version lexer accepts (`byteType[c] = tVS`). -/
def isVS (c : UInt8) : Bool := c.toNat < 0x7F && byteTypeOf c.toNat == Gen.SemverTables.tVS

/-- The version-string bytes spelled out: `*`, `+`, `-`, `.`, digits, letters. -/
def isVSspec (c : UInt8) : Bool :=
  c == 42 || c == 43 || c == 45 || c == 46 || isDigitB c || isAlphaB c

theorem forall_uint8 (P : UInt8 → Prop) (h : ∀ n, n < 256 → P (UInt8.ofNat n)) : ∀ c, P c := by
  intro c
  have := h c.toNat c.toNat_lt
  simpa using this

theorem isVS_eq_spec : ∀ c : UInt8, isVS c = isVSspec c := by
  apply forall_uint8
  decide +kernel


theorem isVS_lt (c : UInt8) (h : isVS c = true) : c < 0x80 := by
  simp [isVS] at h
  rw [UInt8.lt_iff_toNat_lt]; have : (0x80 : UInt8).toNat = 128 := rfl
  omega

theorem decodeRune_ascii (c : UInt8) (r : Bytes) (h : c < 0x80) :
    Bytes.decodeRune (c :: r) = (c.toNat, 1) := by
  simp [Bytes.decodeRune, h]

theorem okRune_vs (l : Lex) (c : UInt8) (h : isVS c = true) : l.okRune c.toNat = true := by
  simp [isVS] at h
  simp [Lex.okRune, h]

/-- `next` on an accepted ASCII byte consumes it. -/
theorem next_vs (l : Lex) (c : UInt8) (r : Bytes) (hr : l.rest = c :: r) (hc : isVS c = true) :
    l.next = ((c.toNat : Int), { l with rest := r, prev := c :: r }) := by
  unfold Lex.next
  rw [hr]
  simp only [decodeRune_ascii c r (isVS_lt c hc), okRune_vs l c hc, ↓reduceIte, List.drop_one, List.tail_cons]

theorem next_nil (l : Lex) (hr : l.rest = []) : l.next = (eof, { l with prev := [] }) := by
  unfold Lex.next
  rw [hr]

/-- The UTF-8 bytes of '∞'. -/
def infB : Bytes := [0xE2, 0x88, 0x9E]

theorem decodeRune_inf (r : Bytes) : Bytes.decodeRune (infB ++ r) = (0x221E, 3) := by
  simp [infB, Bytes.decodeRune]

theorem next_inf (l : Lex) (r : Bytes) (hr : l.rest = infB ++ r) (ha : l.allowInf = true) :
    l.next = (runeInf, { l with rest := r, prev := infB ++ r }) := by
  unfold Lex.next
  rw [hr]
  have : infB ++ r = 0xE2 :: 0x88 :: 0x9E :: r := rfl
  rw [this]
  simp only
  rw [← this, decodeRune_inf]
  simp [Lex.okRune, ha, runeInf, infB]


/-- What may follow a maximal block of bytes satisfying `pred`: the end of the input, or
an accepted byte on which `pred` fails. -/
def Stops (pred : Rune → Bool) (ys : Bytes) : Prop :=
  ys = [] ∨ ∃ c r, ys = c :: r ∧ isVS c = true ∧ pred (c.toNat : Int) = false

theorem scanWhile_go (pred : Rune → Bool) (hp : pred eof = false) (xs ys : Bytes)
    (hx : ∀ c ∈ xs, isVS c = true ∧ pred (c.toNat : Int) = true) (hy : Stops pred ys) :
    ∀ (l : Lex) (fuel : Nat), l.rest = xs ++ ys → xs.length < fuel →
      PS.scanWhile.go pred l fuel = { l with rest := ys, prev := ys } := by
  induction xs with
  | nil =>
    intro l fuel hr hf
    obtain ⟨fuel, rfl⟩ : ∃ k, fuel = k + 1 := ⟨fuel - 1, by simp at hf; omega⟩
    simp only [List.nil_append] at hr
    rcases hy with rfl | ⟨c, r, rfl, hc, hpc⟩
    · simp [PS.scanWhile.go, next_nil l hr, hp, Lex.back]
    · simp [PS.scanWhile.go, next_vs l c r hr hc, hpc, Lex.back]
  | cons x xs ih =>
    intro l fuel hr hf
    obtain ⟨fuel, rfl⟩ : ∃ k, fuel = k + 1 := ⟨fuel - 1, by simp at hf; omega⟩
    have hx0 := hx x (by simp)
    simp only [List.cons_append] at hr
    simp only [PS.scanWhile.go, next_vs l x _ hr hx0.1, hx0.2, ↓reduceIte]
    rw [ih (fun c hc => hx c (by simp [hc])) _ fuel rfl (by simpa using hf)]

theorem scanWhile_block (pred : Rune → Bool) (hp : pred eof = false) (xs ys : Bytes)
    (hx : ∀ c ∈ xs, isVS c = true ∧ pred (c.toNat : Int) = true) (hy : Stops pred ys)
    (l : Lex) (hr : l.rest = xs ++ ys) :
    PS.scanWhile pred l = { l with rest := ys, prev := ys } := by
  unfold PS.scanWhile
  exact scanWhile_go pred hp xs ys hx hy l _ hr (by rw [hr]; simp; omega)


open Digits

def digitPred : Rune → Bool := fun r => 48 ≤ r && r ≤ 57

theorem digit_vs (c : UInt8) (h : isDigitB c = true) : isVS c = true ∧ digitPred (c.toNat : Int) = true := by
  refine ⟨by rw [isVS_eq_spec]; simp [isVSspec, h], ?_⟩
  have := (isDigitB_iff c).mp h
  simp only [digitPred, Bool.and_eq_true, decide_eq_true_eq]
  show (48 : Int) ≤ (c.toNat : Int) ∧ (c.toNat : Int) ≤ 57
  omega

theorem not_digitPred (c : UInt8) (h : isDigitB c = false) : digitPred (c.toNat : Int) = false := by
  have : ¬ (48 ≤ c.toNat ∧ c.toNat ≤ 57) := by rw [← isDigitB_iff]; simp [h]
  have h2 : ¬ ((48 : Int) ≤ (c.toNat : Int) ∧ (c.toNat : Int) ≤ 57) := by omega
  simpa [digitPred] using h2

/-- After a printed number: end of input or an accepted non-digit. -/
def StopsNum (ys : Bytes) : Prop :=
  ys = [] ∨ ∃ c r, ys = c :: r ∧ isVS c = true ∧ isDigitB c = false

theorem StopsNum.stops {ys : Bytes} (h : StopsNum ys) : Stops digitPred ys := by
  rcases h with h | ⟨c, r, h, hc, hd⟩
  · exact Or.inl h
  · exact Or.inr ⟨c, r, h, hc, not_digitPred c hd⟩

/-- The version has no wildcard number so far. -/
theorem addNum_ok (p : PS) (x : Value) (hx : x ≤ infinity)
    (hlen : p.v.num.length < 3 ∨ (p.v.sys.allowsManyNumbers = true ∧ (p.v.sys = .nuget → p.v.num.length < 4))) :
    PS.addNum p x = (true, { p with v := p.v.addNum x }) := by
  unfold PS.addNum
  have h1 : (p.v.num.length == 3 && !p.v.sys.allowsManyNumbers) = false := by
    rcases hlen with h | ⟨h, _⟩
    · have : p.v.num.length ≠ 3 := by omega
      simp [this]
    · simp [h]
  have h2 : (p.v.sys == .nuget && p.v.num.length == 4) = false := by
    rcases hlen with h | ⟨_, h⟩
    · have : p.v.num.length ≠ 4 := by omega
      simp [this]
    · by_cases hs : p.v.sys = .nuget
      · have := h hs
        have : p.v.num.length ≠ 4 := by omega
        simp [this]
      · simp [hs]
  have h3 : ¬ x > infinity := Int.not_lt.mpr hx
  simp [h1, h2, h3]


theorem peek_vs (l : Lex) (c : UInt8) (r : Bytes) (hr : l.rest = c :: r) (hc : isVS c = true) :
    l.peek = ((c.toNat : Int), { l with prev := c :: r }) := by
  unfold Lex.peek
  rw [next_vs l c r hr hc]
  simp [Lex.back, hr]

theorem natToBytes_cons (n : Nat) : ∃ d ds, natToBytes n = d :: ds ∧ isDigitB d = true := by
  cases h : natToBytes n with
  | nil => exact absurd h (natToBytes_ne_nil n)
  | cons d ds =>
    have := natToBytes_all_digit n
    rw [h] at this
    exact ⟨d, ds, rfl, by simp at this; exact this.1⟩

/-- The part of `number` after the digit scan (`l` = the lexer after the scan). -/
def numberAfterScan (start : Bytes) (p : PS) (l : Lex) : Bool × PS :=
  let p := { p with lex := l }
  let consumed := start.length - l.rest.length
  if consumed == 0 then
    match start with
    | c :: _ =>
      if p.v.sys.validWildcard c.toNat then
        let p := if p.v.sys == .nuget && p.v.isWildcard then p.setErr else p
        PS.addNum { p with lex := p.lex.skip1 } wildcard
      else (false, p)
    | [] => (false, p)
  else
    let digits := start.take consumed
    if consumed > 1 && digits.head? == some 48 && !p.v.sys.allowsLeadingZero then (false, p.setErr)
    else
      match parseNum digits with
      | none => (false, p.setErr)
      | some x =>
        let p := if p.v.sys == .nuget && p.v.isWildcard then p.setErr else p
        PS.addNum p x

theorem number_noInf (p : PS) (h : p.lex.allowInf = false) :
    PS.number p = numberAfterScan p.lex.rest p (PS.scanWhile digitPred p.lex) := by
  unfold PS.number
  simp only [h, Bool.false_eq_true, ↓reduceIte]
  rfl

theorem number_inf_peek (p : PS) (h : p.lex.allowInf = true) :
    PS.number p =
      if (p.lex.peek.1 == runeInf) = true then PS.addNum { p with lex := p.lex.peek.2.next.2 } infinity
      else numberAfterScan p.lex.rest p (PS.scanWhile digitPred p.lex.peek.2) := by
  unfold PS.number
  simp only [h, ↓reduceIte]
  rfl

theorem numberAfterScan_digits (p : PS) (n : Nat) (ys : Bytes) (l : Lex) (hl : l.rest = ys)
    (hn : (n : Int) < infinity) (hw : p.v.isWildcard = false) :
    numberAfterScan (natToBytes n ++ ys) p l = PS.addNum { p with lex := l } (n : Int) := by
  unfold numberAfterScan
  have hlen : (natToBytes n ++ ys).length - l.rest.length = (natToBytes n).length := by
    rw [hl, List.length_append]; omega
  have hpos : 0 < (natToBytes n).length := List.length_pos_iff.mpr (natToBytes_ne_nil n)
  simp only [hlen]
  have h0 : ((natToBytes n).length == 0) = false := by
    rw [beq_eq_false_iff_ne]; omega
  simp only [h0, Bool.false_eq_true, ↓reduceIte, List.take_left']
  have hlz : (decide ((natToBytes n).length > 1) && (natToBytes n).head? == some 48) = false := by
    by_cases h1 : (natToBytes n).length > 1
    · by_cases h48 : (natToBytes n).head? = some 48
      · have := natToBytes_head_zero n h48
        subst this
        rw [natToBytes_lt10 0 (by omega)] at h1
        simp at h1
      · simp [h48]
    · simp [h1]
  simp only [hlz, Bool.false_and, Bool.false_eq_true, ↓reduceIte, parseNum_natToBytes n hn, hw, Bool.and_false]

theorem number_digits (p : PS) (n : Nat) (ys : Bytes) (hr : p.lex.rest = natToBytes n ++ ys)
    (hn : (n : Int) < infinity) (hy : StopsNum ys) (hw : p.v.isWildcard = false) :
    PS.number p = PS.addNum { p with lex := { p.lex with rest := ys, prev := ys } } (n : Int) := by
  have hblock : ∀ c ∈ natToBytes n, isVS c = true ∧ digitPred (c.toNat : Int) = true := by
    intro c hc
    exact digit_vs c (List.all_eq_true.mp (natToBytes_all_digit n) c hc)
  by_cases ha : p.lex.allowInf = true
  · obtain ⟨d, ds, hd, hdd⟩ := natToBytes_cons n
    have hdv := digit_vs d hdd
    have hr' : p.lex.rest = d :: (ds ++ ys) := by rw [hr, hd]; rfl
    rw [number_inf_peek p ha, peek_vs p.lex d _ hr' hdv.1]
    have : ((d.toNat : Int) == runeInf) = false := by
      have := d.toNat_lt
      simp [runeInf]; omega
    simp only [this, Bool.false_eq_true, ↓reduceIte]
    rw [scanWhile_block digitPred rfl (natToBytes n) ys hblock hy.stops
      { p.lex with prev := d :: (ds ++ ys) } hr, hr, numberAfterScan_digits p n ys _ rfl hn hw]
  · have ha' : p.lex.allowInf = false := by simpa using ha
    rw [number_noInf p ha', scanWhile_block digitPred rfl (natToBytes n) ys hblock hy.stops _ hr, hr,
      numberAfterScan_digits p n ys _ rfl hn hw]

theorem number_inf (p : PS) (ys : Bytes) (hr : p.lex.rest = infB ++ ys) (ha : p.lex.allowInf = true) :
    PS.number p = PS.addNum { p with lex := { p.lex with rest := ys, prev := infB ++ ys } } infinity := by
  rw [number_inf_peek p ha]
  have hpk : p.lex.peek = (runeInf, { p.lex with prev := infB ++ ys }) := by
    unfold Lex.peek
    rw [next_inf p.lex ys hr ha]
    simp [Lex.back, hr]
  rw [hpk]
  simp only [beq_self_eq_true, ↓reduceIte]
  rw [next_inf { p.lex with prev := infB ++ ys } ys hr ha]

end DepsDev.Proofs.C10
