import DepsDev.Proofs.C03L3Span

/-!
# C03 layer L3: which bounds `Intersect` of two single spans keeps

The prerelease admission test of `span.contains` looks at the *representation* of the span (its
stored bounds), so the interval meaning of `Intersect` (C09) is not enough: `intersectOne_struct`
evaluates `Intersect({a}, {b})` on two well-formed non-empty spans and records that a non-empty
result takes its lower bound from one of the two lower bounds and is not below either of them,
and — when it is a vector — its upper bound from one of the two upper bounds, not above either.
`andFold_struct` carries this through the fold of `andList`.
-/
namespace DepsDev.Proofs.C03

open Std DepsDev DepsDev.Semver DepsDev.Ref DepsDev.Proofs DepsDev.Proofs.C09

variable {s : System}

set_option linter.unusedSimpArgs false

/-- `r` is a non-empty span whose lower bound is one of `mins`, at or above all of them, and — if
`r` is a vector — whose upper bound is one of `maxs`, at or below all of them. -/
structure Picks (s : System) (r : Span) (mins maxs : List Version) : Prop where
  ok : SpanOK s r
  ne : r.rank ≠ .empty
  min_mem : ∀ x, r.min = some x → x ∈ mins
  min_ge : ∀ x, r.min = some x → ∀ y ∈ mins, pt s y ≤ pt s x
  max_mem : r.rank = .vector → ∀ x, r.max = some x → x ∈ maxs
  max_le : ∀ x, r.max = some x → ∀ y ∈ maxs, pt s x ≤ pt s y

/-- A non-empty well-formed span picks its own bounds. -/
theorem picks_self {sp : Span} (h : SpanOK s sp) (hne : sp.rank ≠ .empty) :
    ∃ a b, sp.min = some a ∧ sp.max = some b ∧ Picks s sp [a] [b] := by
  obtain ⟨a, b, h1, h2, -, -, -, -, -, -⟩ := h.bounds hne
  refine ⟨a, b, h1, h2, h, hne, ?_, ?_, ?_, ?_⟩
  · intro x hx; rw [h1] at hx; cases hx; simp
  · intro x hx y hy; rw [h1] at hx; cases hx; simp at hy; subst hy; exact Std.le_refl _
  · intro _ x hx; rw [h2] at hx; cases hx; simp
  · intro x hx y hy; rw [h2] at hx; cases hx; simp at hy; subst hy; exact Std.le_refl _

/-- `Intersect({a}, {b})` on two well-formed spans, `a` picking from `mins`/`maxs`, `b` non-empty
with bounds `c`, `d`: a non-empty result picks from `c :: mins` / `d :: maxs`. -/
theorem intersectOne_struct {a b r : Span} {mins maxs : List Version} {c d : Version}
    (ha : Picks s a mins maxs) (hb : SpanOK s b) (hbne : b.rank ≠ .empty) (hc : b.min = some c) (hd : b.max = some d)
    (h : VSet.intersect { sys := .default, span := [a] } { sys := .default, span := [b] } =
      .ok { sys := .default, span := [r] }) (hr : r.rank ≠ .empty) :
    Picks s r (c :: mins) (d :: maxs) := by
  obtain ⟨a1, a2, h1, h2, hva, hvb, hab, hfl, hunit, hvec⟩ := ha.ok.bounds ha.ne
  obtain ⟨c', d', t1, t2, hvc, hvd, hcd, tfl, -, -⟩ := hb.bounds hbne
  rw [hc] at t1; cases t1
  rw [hd] at t2; cases t2
  have hab' : pt s a1 < pt s a2 ∨ (pt s a1 ≤ pt s a2 ∧ a.minOpen = false ∧ a.maxOpen = false) := by
    rcases hfl with h | h
    · exact Or.inl h
    · exact Or.inr ⟨hab, h⟩
  have hcd' : pt s c < pt s d ∨ (pt s c ≤ pt s d ∧ b.minOpen = false ∧ b.maxOpen = false) := by
    rcases tfl with h | h
    · exact Or.inl h
    · exact Or.inr ⟨hcd, h⟩
  have hae : (a.rank == Rank.empty) = false := by simpa using ha.ne
  have hbe : (b.rank == Rank.empty) = false := by simpa using hbne
  unfold VSet.intersect at h
  simp only [List.foldlM_cons, List.foldlM_nil, hae, Bool.false_eq_true, ↓reduceIte, bind_pure] at h
  rw [VSet.intersect.tloop] at h
  simp only [hbe, Bool.false_eq_true, ↓reduceIte, h1, h2, hc, hd, vLess_eq hvd.1 hva.1, vEqual_eq hvd.1 hva.1,
    ok_bind, vGreater_eq hvc.1 hvb.1, vGreater_eq hvc.1 hva.1, vEqual_eq hvc.1 hva.1, vLess_eq hvd.1 hvb.1,
    vEqual_eq hvd.1 hvb.1, Bool.or_eq_true, Bool.and_eq_true, decide_eq_true_eq] at h
  by_cases hskip : pt s d < pt s a1 ∨ ((pt s d ≤ pt s a1 ∧ pt s a1 ≤ pt s d) ∧ b.maxOpen = true)
  · -- skipped: the result is the empty span
    simp only [hskip, ↓reduceIte, VSet.intersect.tloop, ok_bind, List.isEmpty_nil, canonSpans_short [Span.emptySpan] (Nat.le_refl 1)] at h
    injection h with h
    injection h with _ h
    injection h with h _
    subst h
    exact absurd rfl hr
  · simp only [hskip, ↓reduceIte] at h
    by_cases hbrk : pt s a2 < pt s c
    · simp only [hbrk, ↓reduceIte, ok_bind, List.isEmpty_nil, canonSpans_short [Span.emptySpan] (Nat.le_refl 1)] at h
      injection h with h
      injection h with _ h
      injection h with h _
      subst h
      exact absurd rfl hr
    · simp only [hbrk, ↓reduceIte] at h
      have hlaw := pair_inItv (pt s a1) (pt s a2) (pt s c) (pt s d) (pt s a1) a.minOpen a.maxOpen b.minOpen b.maxOpen
        hab' hcd' hskip hbrk
      simp only [apply_ite Prod.fst, apply_ite Prod.snd] at h
      have hlo_pt := apply_ite (pt s) (pt s a1 < pt s c ∨ (pt s c ≤ pt s a1 ∧ pt s a1 ≤ pt s c) ∧ b.minOpen = true) c a1
      have hhi_pt := apply_ite (pt s) (pt s d < pt s a2 ∨ (pt s d ≤ pt s a2 ∧ pt s a2 ≤ pt s d) ∧ b.maxOpen = true) d a2
      have hle := hlaw.1
      rw [← hlo_pt, ← hhi_pt] at hle
      -- the chosen bounds and what is known of them
      have hloOK : VOK s (if pt s a1 < pt s c ∨ (pt s c ≤ pt s a1 ∧ pt s a1 ≤ pt s c) ∧ b.minOpen = true then c else a1) := by
        split <;> assumption
      have hhiOK : VOK s (if pt s d < pt s a2 ∨ (pt s d ≤ pt s a2 ∧ pt s a2 ≤ pt s d) ∧ b.maxOpen = true then d else a2) := by
        split <;> assumption
      have hlo_mem : (if pt s a1 < pt s c ∨ (pt s c ≤ pt s a1 ∧ pt s a1 ≤ pt s c) ∧ b.minOpen = true then c else a1) ∈ c :: mins := by
        split
        · simp
        · exact List.mem_cons_of_mem _ (ha.min_mem a1 h1)
      have hlo_ge : ∀ y ∈ c :: mins, pt s y ≤
          pt s (if pt s a1 < pt s c ∨ (pt s c ≤ pt s a1 ∧ pt s a1 ≤ pt s c) ∧ b.minOpen = true then c else a1) := by
        intro y hy
        have hya : y ∈ mins → pt s y ≤ pt s a1 := fun hm => ha.min_ge a1 h1 y hm
        rcases List.mem_cons.mp hy with rfl | hy
        · split <;> grind
        · have := hya hy
          split <;> grind
      have hhi_mem : (if pt s d < pt s a2 ∨ (pt s d ≤ pt s a2 ∧ pt s a2 ≤ pt s d) ∧ b.maxOpen = true then d else a2) = d ∨
          ((if pt s d < pt s a2 ∨ (pt s d ≤ pt s a2 ∧ pt s a2 ≤ pt s d) ∧ b.maxOpen = true then d else a2) = a2) := by
        split
        · exact Or.inl rfl
        · exact Or.inr rfl
      have hhi_le : ∀ y ∈ d :: maxs, pt s (if pt s d < pt s a2 ∨ (pt s d ≤ pt s a2 ∧ pt s a2 ≤ pt s d) ∧ b.maxOpen = true then d else a2) ≤ pt s y := by
        intro y hy
        have hya : y ∈ maxs → pt s a2 ≤ pt s y := fun hm => ha.max_le a2 h2 y hm
        rcases List.mem_cons.mp hy with rfl | hy
        · split <;> grind
        · have := hya hy
          split <;> grind
      generalize (if pt s a1 < pt s c ∨ (pt s c ≤ pt s a1 ∧ pt s a1 ≤ pt s c) ∧ b.minOpen = true then c else a1) = lo
        at h hle hloOK hlo_mem hlo_ge
      generalize (if pt s d < pt s a2 ∨ (pt s d ≤ pt s a2 ∧ pt s a2 ≤ pt s d) ∧ b.maxOpen = true then d else a2) = hi
        at h hle hhiOK hhi_mem hhi_le
      generalize (if pt s a1 < pt s c ∨ (pt s c ≤ pt s a1 ∧ pt s a1 ≤ pt s c) ∧ b.minOpen = true then b.minOpen else a.minOpen) = loO
        at h
      generalize (if pt s d < pt s a2 ∨ (pt s d ≤ pt s a2 ∧ pt s a2 ≤ pt s d) ∧ b.maxOpen = true then b.maxOpen else a.maxOpen) = hiO
        at h
      obtain ⟨sp, e, spok, -, spmin, spmax⟩ := newSpan_spec hloOK hhiOK loO hiO hle
      simp only [e, ok_bind, VSet.intersect.tloop, List.nil_append, List.isEmpty_cons, Bool.false_eq_true, ↓reduceIte,
        canonSpans_short [sp] (Nat.le_refl 1)] at h
      injection h with h
      injection h with _ h
      injection h with h _
      subst h
      -- a vector result has `a` a vector (a unit `a` gives a unit or empty result)
      have hmaxvec : sp.rank = .vector → ∀ x, sp.max = some x → x = hi := by
        intro hv x hx
        rcases spmax with h' | h' | h'
        · rw [h'] at hx; cases hx
        · -- max = lo: a unit span
          obtain ⟨p, q, m1, m2, -, -, hpq⟩ : ∃ p q, sp.min = some p ∧ sp.max = some q ∧ VOK s p ∧ VOK s q ∧ pt s p < pt s q := by
            have := spok; unfold SpanOK at this; rw [hv] at this; exact this
          rcases spmin with h'' | h''
          · rw [h''] at m1; cases m1
          · rw [h''] at m1; cases m1
            rw [h'] at m2; cases m2
            exact absurd hpq (by grind)
        · rw [h'] at hx; cases hx; rfl
      refine ⟨spok, hr, ?_, ?_, ?_, ?_⟩
      · intro x hx
        rcases spmin with h' | h' <;> rw [h'] at hx <;> cases hx
        exact hlo_mem
      · intro x hx y hy
        rcases spmin with h' | h' <;> rw [h'] at hx <;> cases hx
        exact hlo_ge y hy
      · intro hv x hx
        have := hmaxvec hv x hx
        subst this
        rcases hhi_mem with h' | h'
        · rw [h']; simp
        · rw [h']
          refine List.mem_cons_of_mem _ (ha.max_mem ?_ a2 h2)
          -- `a` is a vector: otherwise `a1 = a2` and `lo < hi` is impossible
          cases hra : a.rank with
          | empty => exact absurd hra ha.ne
          | vector => rfl
          | unit =>
            exfalso
            have e12 := hunit hra
            subst e12
            obtain ⟨p, q, m1, m2, -, -, hpq⟩ : ∃ p q, sp.min = some p ∧ sp.max = some q ∧ VOK s p ∧ VOK s q ∧ pt s p < pt s q := by
              have := spok; unfold SpanOK at this; rw [hv] at this; exact this
            rw [hx] at m2; cases m2
            rcases spmin with h'' | h''
            · rw [h''] at m1; cases m1
            · rw [h''] at m1; cases m1
              have g1 := hlo_ge a1 (List.mem_cons_of_mem _ (ha.min_mem a1 h1))
              rw [h'] at hpq
              grind
      · intro x hx y hy
        rcases spmax with h' | h' | h'
        · rw [h'] at hx; cases hx
        · rw [h'] at hx; cases hx
          have := hhi_le y hy
          grind
        · rw [h'] at hx; cases hx
          exact hhi_le y hy

/-- The lower / upper bounds collected by the fold. -/
def foldMins : List Span → List Version → List Version
  | [], m => m
  | b :: t, m => foldMins t (b.min.toList ++ m)
def foldMaxs : List Span → List Version → List Version
  | [], m => m
  | b :: t, m => foldMaxs t (b.max.toList ++ m)

theorem mem_foldMins {x : Version} : ∀ (l : List Span) (m : List Version),
    x ∈ foldMins l m ↔ x ∈ m ∨ ∃ b ∈ l, b.min = some x := by
  intro l
  induction l with
  | nil => intro m; simp [foldMins]
  | cons b t ih =>
    intro m
    rw [foldMins, ih]
    simp only [List.mem_append, Option.mem_toList, Option.mem_def, List.mem_cons, exists_eq_or_imp]
    constructor
    · rintro ((h | h) | h)
      · exact Or.inr (Or.inl h)
      · exact Or.inl h
      · exact Or.inr (Or.inr h)
    · rintro (h | h | h)
      · exact Or.inl (Or.inr h)
      · exact Or.inl (Or.inl h)
      · exact Or.inr h

theorem mem_foldMaxs {x : Version} : ∀ (l : List Span) (m : List Version),
    x ∈ foldMaxs l m ↔ x ∈ m ∨ ∃ b ∈ l, b.max = some x := by
  intro l
  induction l with
  | nil => intro m; simp [foldMaxs]
  | cons b t ih =>
    intro m
    rw [foldMaxs, ih]
    simp only [List.mem_append, Option.mem_toList, Option.mem_def, List.mem_cons, exists_eq_or_imp]
    constructor
    · rintro ((h | h) | h)
      · exact Or.inr (Or.inl h)
      · exact Or.inl h
      · exact Or.inr (Or.inr h)
    · rintro (h | h | h)
      · exact Or.inl (Or.inr h)
      · exact Or.inl (Or.inl h)
      · exact Or.inr h

/-- **The AND fold keeps track of its bounds**: if the candidate `v` lies in every operand span, the
single span the fold returns takes its lower bound from the operands' lower bounds, at or above all
of them, and (when a vector) its upper bound from their upper bounds, at or below all of them. -/
theorem andFold_struct (v : Version) : ∀ (rest : List Span) (a : Span) (mins maxs : List Version) (r : Span),
    Picks s a mins maxs → (∀ x ∈ rest, SpanOK s x) → andFold [a] rest = .ok [r] → has s a v = true →
    (∀ x ∈ rest, has s x v = true) → Picks s r (foldMins rest mins) (foldMaxs rest maxs) := by
  intro rest
  induction rest with
  | nil =>
    intro a mins maxs r ha _ h _ _
    simp only [andFold] at h
    injection h with h
    injection h with h _
    subst h
    exact ha
  | cons b rest ih =>
    intro a mins maxs r ha hok h hav hrest
    have triv : ∀ sp : Span, AllB (fun _ => True) sp := fun _ => ⟨fun _ _ => trivial, fun _ _ => trivial⟩
    have hbok := hok b List.mem_cons_self
    have hbv := hrest b List.mem_cons_self
    have hbne : b.rank ≠ .empty := fun he => by rw [has_empty he] at hbv; cases hbv
    obtain ⟨c, d, hc, hd, -, -, -, -, -, -⟩ := hbok.bounds hbne
    obtain ⟨r1, e1, ⟨hr1, -⟩, hv1⟩ := intersect_one (s := s) (fun _ => True) ⟨ha.ok, triv a⟩ ⟨hbok, triv b⟩
    have hr1v : has s r1 v = true := by rw [hv1 v, hav, hbv]; rfl
    have hr1ne : r1.rank ≠ .empty := fun he => by rw [has_empty he] at hr1v; cases hr1v
    have hp1 := intersectOne_struct ha hbok hbne hc hd e1 hr1ne
    simp only [andFold, e1, bind, Outcome.bind] at h
    have := ih r1 (c :: mins) (d :: maxs) r hp1 (fun x hx => hok x (List.mem_cons_of_mem _ hx)) h hr1v
      (fun x hx => hrest x (List.mem_cons_of_mem _ hx))
    simpa only [foldMins, foldMaxs, hc, hd, Option.toList_some, List.singleton_append] using this

end DepsDev.Proofs.C03
