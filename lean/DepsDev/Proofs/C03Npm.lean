import DepsDev.Proofs.C03Embed

/-!
# C03 layer L1 for npm: every operator × every operand shape, release candidates

`(opVersionToSpan op operand) >>= contains x` equals the conjunction of node-semver's
desugared comparators on `x`, for every operator, every operand shape of `TShape`
and every release candidate `x` (all numbers below `infinity`).
-/
namespace DepsDev.Proofs.C03

open DepsDev DepsDev.Semver DepsDev.Ref

set_option linter.unusedSimpArgs false

/-- Reference side, npm: unfold the desugaring and the comparator tests to arithmetic. -/
macro "npm_ref" : tactic => `(tactic|
  simp [cmp3, t3, Version.getNum, preInt, thenInt_lt, thenInt_gt, thenInt_le, thenInt_ge, thenInt_eq0,
    lex3_lt, lex3_gt, lex3_le, lex3_ge, lex3_eq0, comparePre_self,
    desugarComparator, Partial.isX, Partial.num, Prim.test, SemVerAst.cmp, ge, lt0, nullSet, zeroPre,
    then_lt, then_eq, then_gt, ne_gt, ne_lt, Nat.compare_eq_lt, Nat.compare_eq_eq, Nat.compare_eq_gt,
    cmpPre_nil_left, Gen.SemverTables.minPre, Outcome.bind, Span.contains, Span.emptySpan, *])

/-- Step 2 on a goal `(newSpan L o1 H o2).bind (contains x) = ok ref`: apply `interval`, compute the
normalised bounds, and finish both side goals with `omega`. -/
macro "l1_npm_iv" : tactic => `(tactic|
  (rw [interval (sys := System.npm) (by simp [IsGen]) _ _ (g3_mk _ _ rfl rfl (by simp)) (g3_mk _ _ rfl rfl (by simp))
        (g3_mk _ _ rfl rfl (by simp)) (by simp) (by simp)]
   simp [nmin, nmax, Version.major, Version.getNum, Version.setTail, Version.atLeast3, range3, wild_val, inf_val,
     List.findIdx?_cons, minVersion, natCast_beq_wild, natCast_ne_wild, natCast_succ_beq_wild, natCast_succ_ne_wild, *]
   refine ite_err_ok ?_ ?_
   · simp [cmp3, t3, Version.getNum, preInt, thenInt_gt, thenInt_eq0, thenInt_lt, lex3_gt, lex3_eq0, lex3_lt,
       Gen.SemverTables.minPre, comparePre_self, *] <;> omega
   · rw [Bool.eq_iff_iff]
     npm_ref <;> omega))

/-- An already evaluated goal (empty span). -/
macro "l1_npm_dir" : tactic => `(tactic| (npm_ref <;> omega))

macro "l1_npm" : tactic => `(tactic| first
  | l1_npm_iv
  | (split <;> first | l1_npm_iv | l1_npm_dir)
  | l1_npm_dir)

/-- The statement of L1 for one operator. -/
def L1Npm (op : Op) : Prop :=
  ∀ (nums : List XR), TShape nums → ∀ (pre : List Ident), (pre ≠ [] → nums.length = 3 ∧ XR.x ∉ nums) →
  (op = .le → pre ≠ [] → nums ≠ [.n 0, .n 0, .n 0]) →
  ∀ (x y z : Nat), x < B∞ → y < B∞ → z < B∞ →
    (opVersionToSpan (tokOf op) (embedPartial .npm ⟨nums, pre⟩)).bind
        (fun s => s.contains (embedVer .npm ⟨x, y, z, []⟩) false)
      = .ok ((desugarComparator ⟨op, ⟨nums, pre⟩⟩).all (·.test ⟨x, y, z, []⟩))

/-- Proof script shared by all operators: split on the shape (and on zero major/minor,
which `^` distinguishes), evaluate, apply `interval`, finish with `omega`. -/
macro "l1_npm_all" : tactic => `(tactic| (
  intro nums hs pre hpre hle x y z hx hy hz
  cases hs with
  | n3 a b c ha hb hc =>
    have ia := natCast_beq_inf a ha; have ja := value_inc_nat a ha; have ka := natCast_succ_ne_inf a ha; have ib := natCast_beq_inf b hb; have jb := value_inc_nat b hb; have kb := natCast_succ_ne_inf b hb; have ic := natCast_beq_inf c hc; have jc := value_inc_nat c hc; have kc := natCast_succ_ne_inf c hc
    by_cases h0 : a = 0 <;> by_cases h1 : b = 0 <;> by_cases h2 : c = 0 <;> cases pre <;>
      first
      | (subst h0 h1 h2; refine absurd rfl (hle rfl ?_); simp; done)
      | (l1_eval <;> l1_npm)
  | nnx a b ha hb =>
    have ia := natCast_beq_inf a ha; have ja := value_inc_nat a ha; have ka := natCast_succ_ne_inf a ha; have ib := natCast_beq_inf b hb; have jb := value_inc_nat b hb; have kb := natCast_succ_ne_inf b hb
    have hp : pre = [] := pre_ne_nil_of hpre (by simp)
    subst hp
    by_cases h0 : a = 0 <;> by_cases h1 : b = 0 <;> l1_eval <;> l1_npm
  | n2 a b ha hb =>
    have ia := natCast_beq_inf a ha; have ja := value_inc_nat a ha; have ka := natCast_succ_ne_inf a ha; have ib := natCast_beq_inf b hb; have jb := value_inc_nat b hb; have kb := natCast_succ_ne_inf b hb
    have hp : pre = [] := pre_ne_nil_of hpre (by simp)
    subst hp
    by_cases h0 : a = 0 <;> by_cases h1 : b = 0 <;> l1_eval <;> l1_npm
  | nxx a ha =>
    have ia := natCast_beq_inf a ha; have ja := value_inc_nat a ha; have ka := natCast_succ_ne_inf a ha
    have hp : pre = [] := pre_ne_nil_of hpre (by simp)
    subst hp
    by_cases h0 : a = 0 <;> l1_eval <;> l1_npm
  | nx a ha =>
    have ia := natCast_beq_inf a ha; have ja := value_inc_nat a ha; have ka := natCast_succ_ne_inf a ha
    have hp : pre = [] := pre_ne_nil_of hpre (by simp)
    subst hp
    by_cases h0 : a = 0 <;> l1_eval <;> l1_npm
  | n1 a ha =>
    have ia := natCast_beq_inf a ha; have ja := value_inc_nat a ha; have ka := natCast_succ_ne_inf a ha
    have hp : pre = [] := pre_ne_nil_of hpre (by simp)
    subst hp
    by_cases h0 : a = 0 <;> l1_eval <;> l1_npm
  | x1 =>
    have hp : pre = [] := pre_ne_nil_of hpre (by simp)
    subst hp
    l1_eval <;> l1_npm
  | xx =>
    have hp : pre = [] := pre_ne_nil_of hpre (by simp)
    subst hp
    l1_eval <;> l1_npm
  | xxx =>
    have hp : pre = [] := pre_ne_nil_of hpre (by simp)
    subst hp
    l1_eval <;> l1_npm))

theorem l1_npm_caret : L1Npm .caret := by l1_npm_all
theorem l1_npm_tilde : L1Npm .tilde := by l1_npm_all
theorem l1_npm_none : L1Npm .none := by l1_npm_all
theorem l1_npm_eq : L1Npm .eq := by l1_npm_all
theorem l1_npm_ge : L1Npm .ge := by l1_npm_all
theorem l1_npm_gt : L1Npm .gt := by l1_npm_all
theorem l1_npm_le : L1Npm .le := by l1_npm_all
theorem l1_npm_lt : L1Npm .lt := by l1_npm_all




end DepsDev.Proofs.C03
