/-
Helper lemmas for C19, part 6: the `deptest` round trip `ParseString (write t)` for
types none of whose values has to be written quoted.
-/
import DepsDev.Proofs.C19VerText

namespace DepsDev.Proofs.C19
open DepsDev DepsDev.Gen DepsDev.Model.Resolve DepsDev.Model.Resolve.Attr DepsDev.Model.Resolve.AttrText
open DepsDev.Model.Resolve.AttrMachine DepsDev.Model.Resolve.AttrSpec

def depName (key : Int) : Bytes := keyName C19AttrKeys.depNames key

/-! ### facts about the generated `dep` tables the model relies on (all by `decide`) -/

/-- every key of `deptest.allKeys` is found again under its name (the parser lower-cases). -/
theorem dep_lookup : ∀ key ∈ C19AttrKeys.depAllKeys,
    dictLookup C19AttrKeys.depNames C19AttrKeys.depAllKeys (depName key) = some key := by decide

/-- the names are non-empty, free of white space and do not start with a quote. -/
theorem dep_names_plain : ∀ key ∈ C19AttrKeys.depAllKeys,
    plainTok (depName key) = true ∧ (depName key).head? ≠ some 0x22 := by decide

theorem dep_keys_lt : ∀ key ∈ C19AttrKeys.depAllKeys, key.toNat < C19AttrKeys.setAttrKeyLimit := by decide

theorem dep_mask_table : (List.range 256).all (fun m =>
    !maskKnown C19AttrKeys.depAllKeys m || maskOfKeys m C19AttrKeys.depAllKeys 0 == m) = true := by
  decide +kernel

theorem dep_mask_ok (m : Nat) (hk : maskKnown C19AttrKeys.depAllKeys m = true) :
    maskOfKeys m C19AttrKeys.depAllKeys 0 = m := by
  have hlt : m < 256 := by
    simp only [maskKnown, Bool.and_eq_true, decide_eq_true_eq] at hk
    exact hk.1
  have := (List.all_eq_true.mp dep_mask_table) m (List.mem_range.mpr hlt)
  simpa [hk] using this

/-! ### joining quoted fields: nothing to do without quotes -/

theorem joinQuoted_plain (toks : List Bytes) (h : ∀ t ∈ toks, t.head? ≠ some 0x22) :
    joinQuoted false none toks = .ok toks := by
  induction toks with
  | nil => simp [joinQuoted]
  | cons t ts ih =>
    rw [joinQuoted]
    have ht := h t (by simp)
    have : (t.head? != some 0x22) = true := by simpa using ht
    simp only [this, if_true]
    rw [ih (fun x hx => h x (by simp [hx]))]

/-! ### the writer without quoted values -/

/-- the items written for one key. -/
def depItemsOf (h : Heap) (s : Set) (key : Int) : List (Bytes × Option Bytes) :=
  match getAttrW h s key with
  | some value =>
    [(keyName C19AttrKeys.depNames key, none)] ++
      (if C19AttrKeys.depFlagKeys.contains key then []
       else if depNeedsQuote value then [(quote value, some value)] else [(value, none)])
  | none => []

theorem depItems_eq (h : Heap) (s : Set) :
    depItems h s = C19AttrKeys.depAllKeys.flatMap (depItemsOf h s) := rfl

/-- under `depPlain` a present, valued key has a value that is written bare. -/
theorem depPlain_key (h : Heap) (s : Set) (hp : depPlain h s = true) (key : Int)
    (hkey : key ∈ C19AttrKeys.depAllKeys) (v : Bytes) (hg : getAttrW h s key = some v)
    (hf : C19AttrKeys.depFlagKeys.contains key = false) : depNeedsQuote v = false := by
  cases hq : depNeedsQuote v with
  | false => rfl
  | true =>
    have hall := List.all_eq_true.mp hp
    have : (quote v, some v) ∈ depItems h s := by
      rw [depItems_eq, List.mem_flatMap]
      have hnm : key ∉ C19AttrKeys.depFlagKeys := by simpa using hf
      exact ⟨key, hkey, by simp [depItemsOf, hg, hnm, hq]⟩
    have := hall _ this
    simp at this

theorem depWrite_eq (h : Heap) (s : Set) (hp : depPlain h s = true) :
    (depItems h s).map (·.1) =
      C19AttrKeys.depAllKeys.flatMap (chunk C19AttrKeys.depFlagKeys depName h s) := by
  rw [depItems_eq, List.map_flatMap]
  apply flatMap_congr'
  intro key hkey
  simp only [depItemsOf, chunk, depName]
  cases hg : getAttrW h s key with
  | none => rfl
  | some v =>
    by_cases hf : key ∈ C19AttrKeys.depFlagKeys
    · simp [hf]
    · have hf' : C19AttrKeys.depFlagKeys.contains key = false := by simpa using hf
      have := depPlain_key h s hp key hkey v hg hf'
      simp [hf, this]

theorem dep_tokens_plain (h : Heap) (s : Set) (hp : depPlain h s = true) :
    ∀ t ∈ C19AttrKeys.depAllKeys.flatMap (chunk C19AttrKeys.depFlagKeys depName h s),
      plainTok t = true ∧ t.head? ≠ some 0x22 := by
  intro t hmem
  simp only [List.mem_flatMap] at hmem
  obtain ⟨key, hkey, hmem⟩ := hmem
  simp only [chunk] at hmem
  cases hg : getAttrW h s key with
  | none => simp [hg] at hmem
  | some v =>
    simp only [hg, List.mem_cons] at hmem
    rcases hmem with e | hmem
    · rw [e]; exact dep_names_plain key hkey
    · by_cases hf : key ∈ C19AttrKeys.depFlagKeys
      · simp [hf] at hmem
      · have hf' : C19AttrKeys.depFlagKeys.contains key = false := by simpa using hf
        simp only [hf', Bool.false_eq_true, if_false, List.mem_singleton] at hmem
        subst hmem
        have := depPlain_key h s hp key hkey t hg hf'
        simp only [depNeedsQuote, Bool.or_eq_false_iff, beq_eq_false_iff_ne, ne_eq] at this
        exact ⟨by simp [plainTok, this.1.1, this.2], this.1.2⟩

/-- `deptest.ParseString(write(t))` equals `t` when no value of `t` has to be quoted
(and its keys are declared). -/
theorem dep_roundtrip_plain (h : Heap) (s : Set) (hs : SetOK h s)
    (hk : knownKeys C19AttrKeys.depAllKeys C19AttrKeys.depFlagKeys h s = true)
    (hp : depPlain h s = true) :
    ∃ h' s', depParseString h (depWrite h s) = .ok (h', s') ∧
      SetOK h' s ∧ SetOK h' s' ∧ s.attrs h' = s.attrs h ∧ Attr.compare h' s s' = .eq := by
  have hplain := dep_tokens_plain h s hp
  have hf : fields (depWrite h s) =
      C19AttrKeys.depAllKeys.flatMap (chunk C19AttrKeys.depFlagKeys depName h s) := by
    unfold depWrite
    rw [depWrite_eq h s hp]
    exact fields_join _ (fun t ht => (hplain t ht).1)
  have hj := joinQuoted_plain _ (fun t ht => (hplain t ht).2)
  have hpi := parseItems_chunks C19AttrKeys.depNames C19AttrKeys.depAllKeys C19AttrKeys.depFlagKeys
    depName h s C19AttrKeys.depAllKeys dep_lookup
  have hmask : maskOfKeys s.mask C19AttrKeys.depAllKeys 0 = s.mask := by
    simp only [knownKeys, Bool.and_eq_true] at hk
    exact dep_mask_ok s.mask hk.1
  obtain ⟨h', s', he, hs', hok, hattrs, hsame⟩ :=
    calls_same C19AttrKeys.depAllKeys C19AttrKeys.depFlagKeys h s hs hk hmask dep_keys_lt
  refine ⟨h', s', ?_, hs', hok, hattrs, (compare_eq_iff_same h' s s' hs' hok).mpr hsame⟩
  unfold depParseString
  rw [hf, hj]
  simp only [hpi]
  exact he

end DepsDev.Proofs.C19
