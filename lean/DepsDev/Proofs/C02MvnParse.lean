import DepsDev.Proofs.C02MvnDirect
import DepsDev.Proofs.C10Mvn2

/-!
# C02 — Maven, part 10: `System.Parse` on the normal form of a tree yields `embedMaven`

`parse .maven (render a) = .ok (embedMaven a)` for every tree of DESIGN 6.4 whose numbers the
library reads exactly: the second clause of C02 for Maven, and the link that turns the theorems
about `embedMaven` into theorems about `compareStr` on strings. The scanning loop
`nextMavenElem` on ASCII text is `nextSpec` (`C10Mvn1.nextMavenElem_eq`).
-/
namespace DepsDev.Proofs.C02Mvn
open Std DepsDev DepsDev.Semver DepsDev.Ref DepsDev.Proofs DepsDev.Proofs.C02
open DepsDev.Proofs.C10 (mcls nextSpec nextMavenElem_eq span_block mavenCategory_ascii zeroInt split_go_succ expandLast expandStr)
open DepsDev.Ref.MavenCV (Item Sep Tok Ast wAlpha wBeta wMilestone wRc wCr wSnapshot wSp wGa wFinal wRelease)
open DepsDev.Gen.SemverTables (versionNumeric versionQualifier versionEOF versionSeparator versionUnknown)

/-! ## the text of a token sequence -/

def tokStr : Tok → Bytes
  | .num n => dec n
  | .word w => w

def tokCat : Tok → Int
  | .num _ => versionNumeric
  | .word _ => versionQualifier

def tailText : List (Sep × Tok) → Bytes
  | [] => []
  | (s, t) :: r => s.render ++ tokStr t ++ tailText r

def tokOK : Tok → Bool
  | .num _ => true
  | .word w => wordOK w

/-- After a transition the category changes. -/
def restOK (p : Tok) : List (Sep × Tok) → Bool
  | [] => true
  | (s, t) :: r => tokOK t && (s != Sep.trans || tokCat t != tokCat p) && restOK t r

theorem mcls_digit {c : UInt8} (h : isDigitB c = true) : mcls c = versionNumeric := by simp [mcls, h]

theorem mcls_lower {c : UInt8} (h : MavenCV.isLower c = true) : mcls c = versionQualifier := by
  have h' : 97 ≤ c.toNat ∧ c.toNat ≤ 122 := by simpa [MavenCV.isLower, UInt8.le_iff_toNat_le] using h
  have h2 : isDigitB c = false := by
    cases hd : isDigitB c
    · rfl
    · have := (isDigitB_iff c).mp hd; omega
  have h3 : (c == 46 || c == 45) = false := by
    simp only [Bool.or_eq_false_iff, beq_eq_false_iff_ne, ne_eq]
    constructor <;> (intro e; subst e; simp at h')
  simp [mcls, h2, h3]

theorem lower_ascii {c : UInt8} (h : MavenCV.isLower c = true) : c < 0x80 ∧ ¬ (65 ≤ c ∧ c ≤ 90) := by
  have h' : 97 ≤ c.toNat ∧ c.toNat ≤ 122 := by simpa [MavenCV.isLower, UInt8.le_iff_toNat_le] using h
  simp only [UInt8.lt_iff_toNat_lt, UInt8.le_iff_toNat_le]
  constructor
  · simp; omega
  · simp; omega

theorem digit_ascii {c : UInt8} (h : isDigitB c = true) : c < 0x80 ∧ ¬ (65 ≤ c ∧ c ≤ 90) := by
  have := (isDigitB_iff c).mp h
  simp only [UInt8.lt_iff_toNat_lt, UInt8.le_iff_toNat_le]
  constructor
  · simp; omega
  · simp; omega

/-- The text of a good token: non-empty, lower-case ASCII, all of the token's category. -/
theorem tokStr_facts {t : Tok} (h : tokOK t = true) :
    tokStr t ≠ [] ∧ (∀ c ∈ tokStr t, (c < 0x80 ∧ ¬ (65 ≤ c ∧ c ≤ 90)) ∧ mcls c = tokCat t) := by
  cases t with
  | num n =>
    refine ⟨dec_ne_nil n, ?_⟩
    intro c hc
    have := List.all_eq_true.mp (dec_all_digits n) c hc
    exact ⟨digit_ascii this, mcls_digit this⟩
  | word w =>
    have hw : wordOK w = true := h
    obtain ⟨c0, t0, e, _⟩ := wordOK_cons hw
    refine ⟨by rw [show tokStr (.word w) = w from rfl, e]; simp, ?_⟩
    intro c hc
    simp only [wordOK, Bool.and_eq_true] at hw
    have := List.all_eq_true.mp hw.2 c hc
    exact ⟨lower_ascii this, mcls_lower this⟩

theorem tokCat_ne_sep (t : Tok) : tokCat t ≠ versionSeparator := by cases t <;> simp [tokCat, versionNumeric, versionQualifier, versionSeparator]

theorem sep_render_facts (s : Sep) : ∀ c ∈ s.render, (c < 0x80 ∧ ¬ (65 ≤ c ∧ c ≤ 90)) ∧ mcls c = versionSeparator := by
  cases s <;> simp [Sep.render] <;> decide

theorem tailText_low {p : Tok} {r : List (Sep × Tok)} (h : restOK p r = true) :
    ∀ c ∈ tailText r, c < 0x80 ∧ ¬ (65 ≤ c ∧ c ≤ 90) := by
  induction r generalizing p with
  | nil => intro c hc; cases hc
  | cons x r ih =>
    obtain ⟨s, t⟩ := x
    simp only [restOK, Bool.and_eq_true] at h
    intro c hc
    simp only [tailText, List.mem_append] at hc
    rcases hc with (hc | hc) | hc
    · exact (sep_render_facts s c hc).1
    · exact ((tokStr_facts h.1.1).2 c hc).1
    · exact ih h.2 c hc

/-- What follows a token's text: nothing, or a byte of another category. -/
theorem tailText_head {p : Tok} {r : List (Sep × Tok)} (h : restOK p r = true) :
    tailText r = [] ∨ ∃ d m, tailText r = d :: m ∧ mcls d ≠ tokCat p := by
  cases r with
  | nil => exact .inl rfl
  | cons x r =>
    obtain ⟨s, t⟩ := x
    right
    simp only [restOK, Bool.and_eq_true, Bool.or_eq_true, bne_iff_ne, ne_eq] at h
    obtain ⟨⟨ht, hs⟩, _⟩ := h
    obtain ⟨hne, hf⟩ := tokStr_facts ht
    cases s with
    | dot => exact ⟨46, _, rfl, by rw [show mcls 46 = versionSeparator from rfl]; exact (tokCat_ne_sep p).symm⟩
    | dash => exact ⟨45, _, rfl, by rw [show mcls 45 = versionSeparator from rfl]; exact (tokCat_ne_sep p).symm⟩
    | trans =>
      cases hts : tokStr t with
      | nil => exact absurd hts hne
      | cons d m =>
        refine ⟨d, m ++ tailText r, by simp [tailText, Sep.render, hts], ?_⟩
        rw [(hf d (by rw [hts]; simp)).2]
        rcases hs with hs | hs
        · exact absurd rfl hs
        · exact hs


/-! ## `nextMavenElem` on a block -/

theorem nextSpec_block (k : Int) (hk : k ≠ versionSeparator) (run more : Bytes) (hne : run ≠ [])
    (hrun : ∀ c ∈ run, mcls c = k) (hmore : more = [] ∨ ∃ d m, more = d :: m ∧ mcls d ≠ k) :
    nextSpec (run ++ more) = (run, more) := by
  cases hr : run with
  | nil => exact absurd hr hne
  | cons d ds =>
    have hd : mcls d = k := hrun d (by rw [hr]; simp)
    have hrun' : ∀ c ∈ d :: ds, mcls c = mcls d := by
      intro c hc; rw [hd]; exact hrun c (by rw [hr]; exact hc)
    have hm : more = [] ∨ ∃ x r, more = x :: r ∧ mcls x ≠ mcls d := by rw [hd]; exact hmore
    have hsp := span_block (mcls d) (d :: ds) more hrun' hm
    have hdne : mcls d ≠ versionSeparator := by rw [hd]; exact hk
    unfold nextSpec
    simp only [List.cons_append, hdne, ↓reduceIte]
    rw [← List.cons_append, hsp.1, hsp.2]

theorem nextSpec_sep_block (sep : UInt8) (hsep : sep = 46 ∨ sep = 45) (k : Int) (hk : k ≠ versionSeparator)
    (run more : Bytes) (hne : run ≠ []) (hrun : ∀ c ∈ run, mcls c = k)
    (hmore : more = [] ∨ ∃ d m, more = d :: m ∧ mcls d ≠ k) :
    nextSpec (sep :: (run ++ more)) = (sep :: run, more) := by
  have hs : mcls sep = versionSeparator := by rcases hsep with h | h <;> rw [h] <;> decide
  cases hr : run with
  | nil => exact absurd hr hne
  | cons d ds =>
    have hd : mcls d = k := hrun d (by rw [hr]; simp)
    have hrun' : ∀ c ∈ d :: ds, mcls c = mcls d := by
      intro c hc; rw [hd]; exact hrun c (by rw [hr]; exact hc)
    have hm : more = [] ∨ ∃ x r, more = x :: r ∧ mcls x ≠ mcls d := by rw [hd]; exact hmore
    have hsp := span_block (mcls d) (d :: ds) more hrun' hm
    have hdne : mcls d ≠ versionSeparator := by rw [hd]; exact hk
    unfold nextSpec
    simp only [hs, ↓reduceIte, List.cons_append, hdne]
    rw [← List.cons_append, hsp.1, hsp.2]

/-- The category `mavenCategory` assigns to a good token's text. -/
theorem mavenCategory_tok {t : Tok} (h : tokOK t = true) (more : Bytes) :
    (mavenCategory (tokStr t ++ more)).1 = tokCat t := by
  obtain ⟨hne, hf⟩ := tokStr_facts h
  cases hs : tokStr t with
  | nil => exact absurd hs hne
  | cons c r =>
    have := hf c (by rw [hs]; simp)
    rw [List.cons_append, mavenCategory_ascii c _ this.1.1, this.2]


/-! ## `mavenSplit` on the text of a token sequence -/

theorem expandStr_eq (w : Bytes) : expandStr w = aliasW w true := by
  unfold expandStr aliasW
  rw [C10.alpha_eq, C10.beta_eq, C10.milestone_eq]
  rfl

theorem expandLast_snoc (pre : List MavenElem) (e : MavenElem) :
    expandLast (pre ++ [e]) = pre ++ [{ e with str := expandStr e.str }] := by
  simp [expandLast]

theorem zeroInt_tok (sp : UInt8) (t : Tok) : zeroInt (mavenTokElem sp t) = ⟨sp, tokStr t, 0⟩ := by
  cases t <;> rfl

theorem tailText_ascii {p : Tok} {r : List (Sep × Tok)} (h : restOK p r = true) : ∀ c ∈ tailText r, c < 0x80 :=
  fun c hc => (tailText_low h c hc).1

theorem split_toks : ∀ (rest : List (Sep × Tok)) (p : Tok) (sp : UInt8) (pre : List MavenElem) (fuel : Nat),
    tokOK p = true → restOK p rest = true → rest.length < fuel →
    mavenSplit.go (tailText rest) (pre ++ [⟨sp, tokStr p, 0⟩]) false (tokCat p) fuel =
      pre ++ (mavenRawFrom sp p rest).map zeroInt
  | [], p, sp, pre, fuel, _, _, hf => by
    obtain ⟨k, rfl⟩ : ∃ k, fuel = k + 1 := ⟨fuel - 1, by simp at hf; omega⟩
    rw [split_go_succ]
    simp [tailText, mavenRawFrom, zeroInt_tok]
  | (s, t') :: r, p, sp, pre, fuel, hp, hr, hf => by
    obtain ⟨k, rfl⟩ : ∃ k, fuel = k + 1 := ⟨fuel - 1, by simp at hf; omega⟩
    have hr' := hr
    simp only [restOK, Bool.and_eq_true, Bool.or_eq_true, bne_iff_ne, ne_eq] at hr'
    obtain ⟨⟨ht', hs⟩, hrr⟩ := hr'
    obtain ⟨hne, hfacts⟩ := tokStr_facts ht'
    have hrun : ∀ c ∈ tokStr t', mcls c = tokCat t' := fun c hc => (hfacts c hc).2
    have hmore := tailText_head hrr
    have hascii := tailText_ascii hr
    have ih := split_toks r t'
    rw [split_go_succ]
    cases s with
    | dot =>
      have htext : tailText ((Sep.dot, t') :: r) = 46 :: (tokStr t' ++ tailText r) := by simp [tailText, Sep.render]
      rw [htext] at hascii ⊢
      have hnext : nextMavenElem (46 :: (tokStr t' ++ tailText r)) = (46 :: tokStr t', tailText r) := by
        rw [nextMavenElem_eq _ hascii]
        exact nextSpec_sep_block 46 (.inl rfl) _ (tokCat_ne_sep t') _ _ hne hrun hmore
      have hcat : (mavenCategory (46 :: tokStr t')).1 = versionSeparator := by
        rw [mavenCategory_ascii 46 _ (by decide)]; rfl
      have hne' : (tokStr t').isEmpty = false := by
        cases h : tokStr t' with
        | nil => exact absurd h hne
        | cons _ _ => rfl
      have hc2 : (mavenCategory (tokStr t')).1 = tokCat t' := by
        have := mavenCategory_tok ht' []
        rwa [List.append_nil] at this
      simp only [List.isEmpty_cons, Bool.false_eq_true, ↓reduceIte, hnext, hcat, beq_self_eq_true, List.headD_cons,
        List.drop_one, List.tail_cons, hne', hc2]
      rw [ih 46 (pre ++ [({ sep := sp, str := tokStr p, int := 0 } : MavenElem)]) k ht' hrr (by simpa using hf)]
      cases p <;> simp [mavenRawFrom, mavenAlias_dot, mavenAlias_num, zeroInt_tok, sepByte]
    | dash =>
      have htext : tailText ((Sep.dash, t') :: r) = 45 :: (tokStr t' ++ tailText r) := by simp [tailText, Sep.render]
      rw [htext] at hascii ⊢
      have hnext : nextMavenElem (45 :: (tokStr t' ++ tailText r)) = (45 :: tokStr t', tailText r) := by
        rw [nextMavenElem_eq _ hascii]
        exact nextSpec_sep_block 45 (.inr rfl) _ (tokCat_ne_sep t') _ _ hne hrun hmore
      have hcat : (mavenCategory (45 :: tokStr t')).1 = versionSeparator := by
        rw [mavenCategory_ascii 45 _ (by decide)]; rfl
      have hne' : (tokStr t').isEmpty = false := by
        cases h : tokStr t' with
        | nil => exact absurd h hne
        | cons _ _ => rfl
      have hc2 : (mavenCategory (tokStr t')).1 = tokCat t' := by
        have := mavenCategory_tok ht' []
        rwa [List.append_nil] at this
      simp only [List.isEmpty_cons, Bool.false_eq_true, ↓reduceIte, hnext, hcat, beq_self_eq_true, List.headD_cons,
        List.drop_one, List.tail_cons, hne', hc2]
      rw [ih 45 (pre ++ [({ sep := sp, str := tokStr p, int := 0 } : MavenElem)]) k ht' hrr (by simpa using hf)]
      cases p <;> simp [mavenRawFrom, mavenAlias_dash, mavenAlias_num, zeroInt_tok, sepByte]
    | trans =>
      have hcne : tokCat t' ≠ tokCat p := by
        rcases hs with h | h
        · exact absurd rfl h
        · exact h
      have htext : tailText ((Sep.trans, t') :: r) = tokStr t' ++ tailText r := by simp [tailText, Sep.render]
      rw [htext] at hascii ⊢
      have hnext : nextMavenElem (tokStr t' ++ tailText r) = (tokStr t', tailText r) := by
        rw [nextMavenElem_eq _ hascii]
        exact nextSpec_block _ (tokCat_ne_sep t') _ _ hne hrun hmore
      have hc2 : (mavenCategory (tokStr t')).1 = tokCat t' := by
        have := mavenCategory_tok ht' []
        rwa [List.append_nil] at this
      have hemp : (tokStr t' ++ tailText r).isEmpty = false := by
        cases h : tokStr t' with
        | nil => exact absurd h hne
        | cons _ _ => rfl
      have hnsep : (tokCat t' == versionSeparator) = false := by simpa using tokCat_ne_sep t'
      simp only [hemp, Bool.false_eq_true, ↓reduceIte, hnext, hc2, hnsep, Bool.not_false]
      cases t' with
      | num n =>
        cases p with
        | num m => exact absurd rfl hcne
        | word w =>
          have h1 : (tokCat (Tok.num n) == versionNumeric && tokCat (Tok.word w) == versionNumeric) = false := by simp [tokCat, versionNumeric, versionQualifier]
          have h2 : (tokCat (Tok.num n) == versionNumeric && tokCat (Tok.word w) == versionQualifier) = true := by simp [tokCat, versionNumeric, versionQualifier]
          simp only [h1, h2, Bool.false_eq_true, ↓reduceIte, expandLast_snoc, expandStr_eq]
          rw [ih 45 (pre ++ [({ sep := sp, str := aliasW (tokStr (Tok.word w)) true, int := 0 } : MavenElem)]) k ht' hrr
            (by simpa using hf)]
          simp [mavenRawFrom, mavenAlias_trans, zeroInt_tok, sepByte, tokStr]
      | word v =>
        cases p with
        | word w => exact absurd rfl hcne
        | num m =>
          have h1 : (tokCat (Tok.word v) == versionNumeric && tokCat (Tok.num m) == versionNumeric) = false := by simp [tokCat, versionNumeric, versionQualifier]
          have h2 : (tokCat (Tok.word v) == versionNumeric && tokCat (Tok.num m) == versionQualifier) = false := by simp [tokCat, versionNumeric, versionQualifier]
          simp only [h1, h2, Bool.false_eq_true, ↓reduceIte]
          rw [ih 45 (pre ++ [({ sep := sp, str := tokStr (Tok.num m), int := 0 } : MavenElem)]) k ht' hrr
            (by simpa using hf)]
          simp [mavenRawFrom, mavenAlias_num, zeroInt_tok, sepByte]


/-- `mavenSplit` on the text of a token sequence is the raw element list (numbers not yet filled in). -/
theorem split_text (t0 : Tok) (rest : List (Sep × Tok)) (h0 : tokOK t0 = true) (hr : restOK t0 rest = true) :
    mavenSplit (tokStr t0 ++ tailText rest) = (mavenRawFrom 0 t0 rest).map zeroInt := by
  unfold mavenSplit
  obtain ⟨hne, hfacts⟩ := tokStr_facts h0
  have hrun : ∀ c ∈ tokStr t0, mcls c = tokCat t0 := fun c hc => (hfacts c hc).2
  have hascii : ∀ c ∈ tokStr t0 ++ tailText rest, c < 0x80 := by
    intro c hc
    rcases List.mem_append.mp hc with h | h
    · exact (hfacts c h).1.1
    · exact tailText_ascii hr c h
  have hnext : nextMavenElem (tokStr t0 ++ tailText rest) = (tokStr t0, tailText rest) := by
    rw [nextMavenElem_eq _ hascii]
    exact nextSpec_block _ (tokCat_ne_sep t0) _ _ hne hrun (tailText_head hr)
  have hc2 : (mavenCategory (tokStr t0)).1 = tokCat t0 := by
    have := mavenCategory_tok h0 []
    rwa [List.append_nil] at this
  have hemp : (tokStr t0 ++ tailText rest).isEmpty = false := by
    cases h : tokStr t0 with
    | nil => exact absurd h hne
    | cons _ _ => rfl
  have hnsep : (tokCat t0 == versionSeparator) = false := by simpa using tokCat_ne_sep t0
  rw [split_go_succ]
  simp only [hemp, Bool.false_eq_true, ↓reduceIte, hnext, hc2, hnsep, Bool.not_true, List.nil_append]
  have hlen : rest.length < (tokStr t0 ++ tailText rest).length := by
    have h1 : 1 ≤ (tokStr t0).length := by
      cases h : tokStr t0 with
      | nil => exact absurd h hne
      | cons _ _ => simp
    have h2 : ∀ (p : Tok) (r : List (Sep × Tok)), restOK p r = true → r.length ≤ (tailText r).length := by
      intro p r
      induction r generalizing p with
      | nil => intro _; simp
      | cons x r ih =>
        obtain ⟨s, t⟩ := x
        intro h
        simp only [restOK, Bool.and_eq_true] at h
        have := ih t h.2
        have hn := (tokStr_facts h.1.1).1
        have : 1 ≤ (tokStr t).length := by
          cases h' : tokStr t with
          | nil => exact absurd h' hn
          | cons _ _ => simp
        simp only [tailText, List.length_cons, List.length_append]
        omega
    have := h2 t0 rest hr
    simp only [List.length_append]; omega
  have := split_toks rest t0 0 [] (tokStr t0 ++ tailText rest).length h0 hr hlen
  simpa using this

/-! ## the text of `render a` -/

theorem lower_append (a b : Bytes) : Bytes.toLowerAscii (a ++ b) = Bytes.toLowerAscii a ++ Bytes.toLowerAscii b := by
  simp [Bytes.toLowerAscii]

theorem lower_id {l : Bytes} (h : ∀ c ∈ l, ¬ (65 ≤ c ∧ c ≤ 90)) : Bytes.toLowerAscii l = l := by
  induction l with
  | nil => rfl
  | cons c t ih =>
    have hc := h c (by simp)
    have : (decide (65 ≤ c) && decide (c ≤ 90)) = false := by
      simp only [Bool.and_eq_false_iff, decide_eq_false_iff_not]
      by_cases h1 : 65 ≤ c
      · right; exact fun h2 => hc ⟨h1, h2⟩
      · left; exact h1
    have iht := ih (fun x hx => h x (by simp [hx]))
    simp only [Bytes.toLowerAscii, List.map_cons] at iht ⊢
    rw [iht]
    simp [this]

theorem lower_tok {t : Tok} (h : tokOK t = true) : Bytes.toLowerAscii (tokStr t) = tokStr t :=
  lower_id (fun c hc => ((tokStr_facts h).2 c hc).1.2)

theorem lower_sep (s : Sep) : Bytes.toLowerAscii s.render = s.render :=
  lower_id (fun c hc => (sep_render_facts s c hc).1.2)

theorem joinSep_dots (n : Nat) (ns : List Nat) :
    joinSep 46 ((n :: ns).map dec) = dec n ++ tailText (ns.map (fun m => (Sep.dot, Tok.num m))) := by
  induction ns generalizing n with
  | nil => simp [joinSep, tailText]
  | cons m ms ih =>
    have e : joinSep 46 ((n :: m :: ms).map dec) = dec n ++ 46 :: joinSep 46 ((m :: ms).map dec) := rfl
    rw [e, ih m]
    simp [tailText, Sep.render, tokStr]

theorem tailText_append (a b : List (Sep × Tok)) : tailText (a ++ b) = tailText a ++ tailText b := by
  induction a with
  | nil => rfl
  | cons x xs ih => obtain ⟨s, t⟩ := x; simp [tailText, ih]


theorem restOK_cat {p p' : Tok} (h : tokCat p = tokCat p') (r : List (Sep × Tok)) : restOK p r = restOK p' r := by
  cases r with
  | nil => rfl
  | cons x r => obtain ⟨s, t⟩ := x; simp [restOK, h]

theorem restOK_dots (n : Nat) (ns : List Nat) (tl : List (Sep × Tok)) :
    restOK (.num n) (ns.map (fun m => (Sep.dot, Tok.num m)) ++ tl) = restOK (.num 0) tl := by
  induction ns generalizing n with
  | nil => simpa using restOK_cat (p := .num n) (p' := .num 0) rfl tl
  | cons m ms ih => simp [restOK, tokOK, ih m]

theorem wordOK_snapshot : wordOK wSnapshot = true := by decide
theorem lower_snapshot' : Bytes.toLowerAscii [83, 78, 65, 80, 83, 72, 79, 84] = wSnapshot := by decide
theorem lower_nil : Bytes.toLowerAscii [] = [] := rfl
theorem lower_cons_46 (l : Bytes) : Bytes.toLowerAscii (46 :: l) = 46 :: Bytes.toLowerAscii l := rfl
theorem lower_cons_45 (l : Bytes) : Bytes.toLowerAscii (45 :: l) = 45 :: Bytes.toLowerAscii l := rfl

theorem lower_snapshot : Bytes.toLowerAscii (45 :: [83, 78, 65, 80, 83, 72, 79, 84]) = 45 :: wSnapshot := by decide

/-- The tokens of a valid tree are good, and its lower-cased normal form is their text. -/
theorem tokens_text (a : Ast) (n0 : Nat) (ns : List Nat) (hn : a.nums = n0 :: ns) (hv : a.valid = true) :
    (MavenCV.tokens a).1 = .num n0 ∧ restOK (.num n0) (MavenCV.tokens a).2 = true ∧
      Bytes.toLowerAscii (MavenCV.render a) = dec n0 ++ tailText (MavenCV.tokens a).2 := by
  obtain ⟨nums, qual, qnum, snap⟩ := a
  simp only at hn
  subst hn
  simp only [MavenCV.tokens, MavenCV.render, true_and, restOK_dots, tailText_append, lower_append, joinSep_dots]
  have hd0 : Bytes.toLowerAscii (dec n0) = dec n0 := lower_tok (t := .num n0) rfl
  have hdots : Bytes.toLowerAscii (tailText (ns.map (fun m => (Sep.dot, Tok.num m)))) =
      tailText (ns.map (fun m => (Sep.dot, Tok.num m))) := by
    apply lower_id
    intro c hc
    have : restOK (.num n0) (ns.map (fun m => (Sep.dot, Tok.num m)) ++ []) = true := by rw [restOK_dots]; rfl
    rw [List.append_nil] at this
    exact (tailText_low this c hc).2
  rw [hd0, hdots]
  rcases qual with _ | ⟨s, q⟩
  · have : qnum = none := by
      cases qnum with
      | none => rfl
      | some x => simp [Ast.valid] at hv
    subst this
    cases snap <;> simp [restOK, tailText, tokOK, wordOK_snapshot, lower_snapshot, Sep.render, tokStr, lower_nil]
  · obtain ⟨hw, _⟩ := valid_word (a := ⟨n0 :: ns, some (s, q), qnum, snap⟩) rfl hv
    have hq : Bytes.toLowerAscii q = q := lower_tok (t := .word q) hw
    rcases qnum with _ | ⟨s', k⟩
    · cases s <;> cases snap <;>
      simp [restOK, tailText, tokOK, wordOK_snapshot, Sep.render, tokStr, hw, hq, tokCat, lower_nil, lower_cons_46, lower_cons_45, lower_snapshot',
        versionNumeric, versionQualifier]
    · have hk : Bytes.toLowerAscii (dec k) = dec k := lower_tok (t := .num k) rfl
      cases s <;> cases s' <;> cases snap <;>
      simp [restOK, tailText, tokOK, wordOK_snapshot, Sep.render, tokStr, hw, hq, hk, lower_append, tokCat, lower_nil, lower_cons_46, lower_cons_45, lower_snapshot',
        versionNumeric, versionQualifier]


/-! ## trimming does not look at the numbers -/

theorem popE_zero : ∀ l : List MavenElem, popE (l.map zeroInt) = (popE l).map zeroInt
  | [] => rfl
  | [x] => rfl
  | x :: y :: t => by
    have ih := popE_zero (y :: t)
    simp only [List.map_cons] at ih ⊢
    unfold popE
    by_cases h : isEmptyMavenElem x.str = true
    · simp only [zeroInt, h, ↓reduceIte]; exact ih
    · simp [zeroInt, h]

theorem trimF_zero : ∀ (l st : List MavenElem), trimF (st.map zeroInt) (l.map zeroInt) = (trimF st l).map zeroInt
  | [], st => by simp [trimF_nil]
  | e :: rest, st => by
    simp only [List.map_cons, trimF_step]
    have hd : dashy (rest.map zeroInt) = dashy rest := by cases rest <;> simp [dashy, zeroInt]
    rw [hd]
    by_cases h : dashy rest = true
    · simp only [h, ↓reduceIte]
      rw [← List.map_cons, popE_zero, trimF_zero rest]
    · simp only [h, Bool.false_eq_true, ↓reduceIte]
      rw [← List.map_cons, trimF_zero rest]

theorem mavenTrim_zero (l : List MavenElem) : mavenTrim (l.map zeroInt) = (mavenTrim l).map zeroInt := by
  cases l with
  | nil => decide
  | cons e0 rest =>
    rw [List.map_cons, mavenTrim_eq, mavenTrim_eq]
    exact trimF_zero rest [e0]

/-! ## filling in the numbers -/

theorem parseNum_dec {n : Nat} (h : n < 2 ^ 63 - 1) : parseNum (dec n) = some (n : Int) := by
  by_cases h10 : n < 10
  · rw [dec_eq, if_pos h10]
    have := digit_spec h10
    simp [parseNum, this.1, this.2.1]
  · have hb := parseIntBits_dec n 64 (by omega)
    have hlen : ∀ c, dec n ≠ [c] := by
      intro c e
      have := digitsVal_dec n
      rw [e] at this
      have hc := dec_all_digits n
      rw [e] at hc
      simp only [List.all_cons, List.all_nil, Bool.and_true] at hc
      have := (isDigitB_iff c).mp hc
      simp [digitsVal] at *
      omega
    unfold parseNum
    split
    · rename_i c e; exact absurd e (hlen c)
    · rw [hb]
      have : ¬ ((n : Int) < 0 ∨ (n : Int) ≥ infinity) := by
        rw [show infinity = 9223372036854775807 from rfl]; omega
      simp [this]

/-- What `fillInts` restores. -/
def fillOK (e : MavenElem) : Prop :=
  (∃ n : Nat, n < 2 ^ 63 - 1 ∧ e.str = dec n ∧ e.int = n) ∨ (isQualE e = true)

theorem zeroInt_str (e : MavenElem) : (zeroInt e).str = e.str := rfl

theorem fillInts_zero {els : List MavenElem} (h : ∀ e ∈ els, fillOK e) :
    mavenInit.fillInts (els.map zeroInt) = .ok (els, els.any isQualElem) := by
  induction els with
  | nil => rfl
  | cons e t ih =>
    have iht := ih (fun x hx => h x (by simp [hx]))
    rw [List.map_cons, mavenInit.fillInts]
    rcases h e (by simp) with ⟨n, hn, hs, hi⟩ | hq
    · have hnum : isNumE e = true := by
        have := isNumE_numE e.sep n
        simpa [isNumE, mcat, numE, hs] using this
      have hc : ((mavenCategory e.str).1 == versionNumeric) = true := hnum
      have hinf : (e.str == [0xE2, 0x88, 0x9E]) = false := by
        rw [hs]
        obtain ⟨c, r, hc', hd, _⟩ := dec_head n
        rw [hc']
        have : c ≠ 0xE2 := by intro e'; subst e'; revert hd; decide
        simp [this]
      have hq : isQualElem e = false := by
        unfold isQualElem; rw [bne_eq_false_iff_eq]; exact beq_iff_eq.mp hc
      have hpn : parseNum e.str = some (n : Int) := by rw [hs]; exact parseNum_dec hn
      simp only [zeroInt_str, hc, ↓reduceIte, hinf, Bool.false_eq_true, hpn, iht, bind, Outcome.bind, List.any_cons, hq,
        Bool.false_or]
      congr 2
      cases e; simp_all [zeroInt]
    · have hm := isQualE_mcat hq
      have hc : ((mavenCategory e.str).1 == versionNumeric) = false := by
        have : (mavenCategory e.str).1 = 3 := hm.1
        rw [this]; decide
      have hq' : isQualElem e = true := by
        unfold isQualElem; rw [bne_iff_ne]; exact beq_eq_false_iff_ne.mp hc
      simp only [zeroInt_str, hc, Bool.false_eq_true, ↓reduceIte, iht, bind, Outcome.bind, List.any_cons, hq',
        Bool.true_or]
      congr 2
      cases e; simp_all [zeroInt]


theorem fillOK_numE (s : UInt8) {n : Nat} (h : n < 2 ^ 63 - 1) : fillOK (numE s n) := .inl ⟨n, h, rfl, rfl⟩

theorem effTail_fill {a : Ast} (hv : a.valid = true) (hl : Maven.inLib a = true) : ∀ e ∈ effTail a, fillOK e := by
  intro e he
  simp only [effTail, List.mem_append] at he
  rcases he with (he | he) | he
  · rcases hqual : a.qual with _ | ⟨s, q⟩
    · simp [hqual] at he
    · obtain ⟨hw, _⟩ := valid_word hqual hv
      simp only [hqual] at he
      by_cases hr : Maven.releaseQual q = true
      · simp [hr] at he
      · simp only [hr, Bool.false_eq_true, ↓reduceIte, List.mem_singleton] at he
        subst he
        exact .inr (isQualE_word _ (wordOK_alias hw _))
  · rcases hqn : a.qnum with _ | ⟨s, n⟩
    · simp [hqn] at he
    · simp only [hqn] at he
      by_cases h0 : n = 0
      · simp [h0] at he
      · simp only [h0, ↓reduceIte, List.mem_singleton] at he
        subst he
        apply fillOK_numE
        simp only [Maven.inLib, hqn, Bool.and_eq_true, decide_eq_true_eq] at hl
        exact hl.2
  · cases hs : a.snapshot
    · simp [hs] at he
    · simp only [hs, ↓reduceIte, List.mem_singleton] at he
      subst he; exact .inr (by decide)

theorem mem_dropZ {x : Nat} {ns : List Nat} (h : x ∈ dropZ ns) : x ∈ ns := by
  unfold dropZ at h
  have := (List.dropWhile_sublist (fun x => x == 0) (l := ns.reverse)).subset (List.mem_reverse.mp h)
  exact List.mem_reverse.mp this

theorem elems_fill {a : Ast} {n0 : Nat} {ns : List Nat} (hn : a.nums = n0 :: ns) (hv : a.valid = true)
    (hl : Maven.inLib a = true) : ∀ e ∈ numE 0 n0 :: tailElems ns a, fillOK e := by
  have hb : ∀ x ∈ n0 :: ns, x < 2 ^ 63 - 1 := by
    simp only [Maven.inLib, hn, Bool.and_eq_true, List.all_eq_true, decide_eq_true_eq] at hl
    exact hl.1
  intro e he
  simp only [List.mem_cons, tailElems, List.mem_append, List.mem_map] at he
  rcases he with rfl | ⟨x, hx, rfl⟩ | he
  · exact fillOK_numE 0 (hb n0 (by simp))
  · apply fillOK_numE
    apply hb x
    by_cases hd : dashy (effTail a) = true
    · simp only [hd, ↓reduceIte] at hx
      simp [mem_dropZ hx]
    · simp only [hd, Bool.false_eq_true, ↓reduceIte] at hx
      simp [hx]
  · exact effTail_fill hv hl e he

theorem mavenRawFrom_ne_nil (sp : UInt8) (t : Tok) (r : List (Sep × Tok)) : mavenRawFrom sp t r ≠ [] := by
  cases r with
  | nil => simp [mavenRawFrom]
  | cons x r => obtain ⟨s, t'⟩ := x; simp [mavenRawFrom]

/-- **`System.Parse` on the normal form of a tree of DESIGN 6.4 is `embedMaven`** (the second clause
of C02 for Maven, and the premise "embed a is what Parse yields" of the agreement theorems). -/
theorem parse_render (a : Ast) (hv : a.valid = true) (hl : Maven.inLib a = true) :
    parse .maven (MavenCV.render a) = .ok (embedMaven a) := by
  obtain ⟨n0, ns, hn⟩ := nums_cons hv
  obtain ⟨ht0, hrest, htext⟩ := tokens_text a n0 ns hn hv
  have hsplit := split_text (.num n0) (MavenCV.tokens a).2 rfl hrest
  rw [show tokStr (.num n0) = dec n0 from rfl, ← htext] at hsplit
  have hinit : mavenInit (MavenCV.render a) = .ok (elemsOf a, (elemsOf a).any isQualElem) := by
    unfold mavenInit
    simp only [hsplit, mavenTrim_zero]
    have he : mavenTrim (mavenRawFrom 0 (.num n0) (MavenCV.tokens a).2) = elemsOf a := by
      unfold elemsOf; rw [ht0]
    rw [he]
    apply fillInts_zero
    unfold elemsOf
    rw [embed_elems a n0 ns hn hv]
    exact elems_fill hn hv hl
  unfold parse parseInf
  simp only [possibleVersionString, beq_self_eq_true, ↓reduceIte, Bool.not_true, Bool.false_eq_true, Bool.false_and,
    hinit]
  rfl

/-- `System.Compare` on two normal forms is `vcompare` on the embedded versions. -/
theorem compareStr_render (a b : Ast) (va : a.valid = true) (la : Maven.inLib a = true) (vb : b.valid = true)
    (lb : Maven.inLib b = true) :
    compareStr .maven (MavenCV.render a) (MavenCV.render b) = vcompare (embedMaven a) (embedMaven b) := by
  unfold compareStr
  simp only [parse_render a va la, parse_render b vb lb]

end DepsDev.Proofs.C02Mvn
