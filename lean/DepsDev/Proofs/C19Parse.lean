/-
Helper lemmas for C19, part 4: what the key/value loop of the test-schema parsers
builds from the items a writer produced, in terms of abstract contents
(mask, key ↦ value).
-/
import DepsDev.Proofs.C19Fields

namespace DepsDev.Proofs.C19
open DepsDev DepsDev.Gen DepsDev.Model.Resolve DepsDev.Model.Resolve.Attr DepsDev.Model.Resolve.AttrText
open DepsDev.Model.Resolve.AttrMachine DepsDev.Model.Resolve.AttrSpec

/-- abstract contents: the mask and the finite map. -/
abbrev Abs := Nat × (Nat → Option Bytes)

def absOf (h : Heap) (s : Set) : Abs := (s.mask, fun k => getAttr h s k)

/-- the effect of one `AddAttr(key, value)` on abstract contents. -/
def stepAbs (c : Abs) (kv : Int × Bytes) : Abs :=
  if kv.1 < 0 then (c.1 ||| kv.1.natAbs, c.2)
  else (c.1, fun k' => if k' = kv.1.toNat then some kv.2 else c.2 k')

theorem addAttr_abs (h1 : Heap) (s1 : Set) (k : Int) (v : Bytes) (hs : SetOK h1 s1)
    (hk : 0 ≤ k → k.toNat < C19AttrKeys.setAttrKeyLimit) :
    ∃ h2 s2, addAttr h1 s1 k v = .ok (h2, s2) ∧ SetOK h2 s2 ∧ absOf h2 s2 = stepAbs (absOf h1 s1) (k, v) := by
  unfold addAttr
  by_cases hneg : k < 0
  · refine ⟨h1, { s1 with mask := s1.mask ||| k.natAbs }, by simp [hneg], ⟨hs.wf, hs.bitsOK, hs.bitsLt⟩, ?_⟩
    simp [absOf, stepAbs, hneg, getAttr, Set.attrs]
  · obtain ⟨h2, s2, r', hset, _, _, _, _, _, hm, _, hattrs, hok⟩ :=
      setAttr_spec h1 s1 k.toNat v hs (hk (by omega))
    refine ⟨h2, s2, by simp [hneg, hset], hok, ?_⟩
    simp only [absOf, stepAbs, hneg, if_false, hm]
    congr 1
    funext k'
    simp only [getAttr, hattrs, get?_insert]

theorem applyAttrs_abs (calls : List (Int × Bytes)) :
    ∀ (h1 : Heap) (s1 : Set), SetOK h1 s1 →
      (∀ c ∈ calls, 0 ≤ c.1 → c.1.toNat < C19AttrKeys.setAttrKeyLimit) →
      ∃ h2 s2, applyAttrs h1 s1 calls = .ok (h2, s2) ∧ SetOK h2 s2 ∧
        absOf h2 s2 = calls.foldl stepAbs (absOf h1 s1) := by
  induction calls with
  | nil => intro h1 s1 hs _; exact ⟨h1, s1, rfl, hs, rfl⟩
  | cons kv rest ih =>
    intro h1 s1 hs hk
    obtain ⟨k, v⟩ := kv
    obtain ⟨h2, s2, he, hok, habs⟩ := addAttr_abs h1 s1 k v hs (hk (k, v) (by simp))
    obtain ⟨h3, s3, he3, hok3, habs3⟩ := ih h2 s2 hok (fun c hc => hk c (by simp [hc]))
    refine ⟨h3, s3, ?_, hok3, ?_⟩
    · simp only [applyAttrs, he]; exact he3
    · rw [habs3, habs]; rfl

/-! ### the calls made for the text written from a set -/

/-- the `AddAttr` calls a parser makes when it reads the keys `ks` of `(h, s)` back. -/
def callsOf (flagKeys : List Int) (h : Heap) (s : Set) (ks : List Int) : List (Int × Bytes) :=
  ks.filterMap fun key => (getAttrW h s key).map fun v => (key, if flagKeys.contains key then [] else v)

/-- the items written for one key: its name, then its value unless it is a flag. -/
def chunk (flagKeys : List Int) (nameTok : Int → Bytes) (h : Heap) (s : Set) (key : Int) : List Bytes :=
  match getAttrW h s key with
  | some v => nameTok key :: (if flagKeys.contains key then [] else [v])
  | none => []

theorem parseItems_chunks (names : List (Int × Bytes)) (allKeys flagKeys : List Int)
    (nameTok : Int → Bytes) (h : Heap) (s : Set) (ks : List Int)
    (hlook : ∀ key ∈ ks, dictLookup names allKeys (nameTok key) = some key) :
    parseItems names allKeys flagKeys (ks.flatMap (chunk flagKeys nameTok h s)) =
      .ok (callsOf flagKeys h s ks) := by
  induction ks with
  | nil => simp [parseItems, callsOf]
  | cons key ks ih =>
    have ih' := ih (fun k hk => hlook k (by simp [hk]))
    have hl := hlook key (by simp)
    simp only [List.flatMap_cons, callsOf, List.filterMap_cons]
    cases hg : getAttrW h s key with
    | none =>
      simp only [chunk, hg, List.nil_append, Option.map_none]
      exact ih'
    | some v =>
      simp only [chunk, hg, Option.map_some]
      by_cases hf : flagKeys.contains key = true
      · simp only [hf, if_true, List.cons_append, List.nil_append]
        rw [parseItems]
        simp only [hl, hf, if_true]
        rw [ih']
        rfl
      · have hf' : flagKeys.contains key = false := by simpa using hf
        simp only [hf', Bool.false_eq_true, if_false, List.cons_append, List.nil_append]
        rw [parseItems]
        simp only [hl, hf', Bool.false_eq_true, if_false]
        rw [ih']
        rfl

/-! ### folding the calls -/

theorem stepAbs_fst (c : Abs) (kv : Int × Bytes) :
    (stepAbs c kv).1 = if kv.1 < 0 then c.1 ||| kv.1.natAbs else c.1 := by
  unfold stepAbs; split <;> rfl

theorem stepAbs_snd (c : Abs) (kv : Int × Bytes) (k' : Nat) :
    (stepAbs c kv).2 k' = if 0 ≤ kv.1 ∧ k' = kv.1.toNat then some kv.2 else c.2 k' := by
  unfold stepAbs
  by_cases h : kv.1 < 0
  · have : ¬ 0 ≤ kv.1 := by omega
    simp [h, this]
  · have : 0 ≤ kv.1 := by omega
    simp [h, this]

/-- the mask obtained by reading the flag keys of `ks` back. -/
def maskOfKeys (m : Nat) (ks : List Int) (acc : Nat) : Nat :=
  ks.foldl (fun a key => if key < 0 ∧ (m &&& key.natAbs != 0) = true then a ||| key.natAbs else a) acc

theorem fold_calls_fst (fk : List Int) (h : Heap) (s : Set) (ks : List Int) :
    ∀ c : Abs, ((callsOf fk h s ks).foldl stepAbs c).1 = maskOfKeys s.mask ks c.1 := by
  induction ks with
  | nil => intro c; rfl
  | cons key ks ih =>
    intro c
    simp only [callsOf, List.filterMap_cons, maskOfKeys, List.foldl_cons]
    by_cases hneg : key < 0
    · have hgw : getAttrW h s key = if (s.mask &&& key.natAbs != 0) = true then some [] else none := by
        simp [getAttrW, hneg]
      by_cases hb : (s.mask &&& key.natAbs != 0) = true
      · rw [hgw]
        simp only [hb, if_true, Option.map_some, List.foldl_cons, hneg, and_self]
        have := ih (stepAbs c (key, if fk.contains key then [] else []))
        simp only [callsOf, maskOfKeys] at this
        rw [this, stepAbs_fst]
        simp [hneg]
      · rw [hgw]
        simp only [hb, Bool.false_eq_true, if_false, Option.map_none, and_false]
        have := ih c
        simp only [callsOf, maskOfKeys] at this
        exact this
    · simp only [hneg, false_and, if_false]
      cases hg : getAttrW h s key with
      | none =>
        simp only [Option.map_none]
        have := ih c
        simp only [callsOf, maskOfKeys] at this
        exact this
      | some v =>
        simp only [Option.map_some, List.foldl_cons]
        have := ih (stepAbs c (key, if fk.contains key then [] else v))
        simp only [callsOf, maskOfKeys] at this
        rw [this, stepAbs_fst]
        simp [hneg]

theorem getAttrW_nat (h : Heap) (s : Set) (k : Nat) : getAttrW h s (k : Int) = getAttr h s k := by
  have : ¬ ((k : Int) < 0) := by omega
  simp [getAttrW, this]

/-- the map obtained by reading the keys `ks` back. -/
theorem fold_calls_snd (fk : List Int) (h : Heap) (s : Set) (ks : List Int) (k' : Nat) :
    ∀ c : Abs, ((callsOf fk h s ks).foldl stepAbs c).2 k' =
      if (k' : Int) ∈ ks ∧ (getAttr h s k').isSome = true then
        (if fk.contains (k' : Int) then some [] else getAttr h s k')
      else c.2 k' := by
  induction ks with
  | nil => intro c; simp [callsOf]
  | cons key ks ih =>
    intro c
    simp only [callsOf, List.filterMap_cons]
    cases hg : getAttrW h s key with
    | none =>
      simp only [Option.map_none]
      have := ih c
      simp only [callsOf] at this
      rw [this]
      by_cases hk : (k' : Int) = key
      · -- the key is absent
        subst hk
        have : getAttr h s k' = none := by
          rw [getAttrW_nat] at hg; exact hg
        simp [this]
      · simp [hk]
    | some v =>
      simp only [Option.map_some, List.foldl_cons]
      have := ih (stepAbs c (key, if fk.contains key then [] else v))
      simp only [callsOf] at this
      rw [this, stepAbs_snd]
      by_cases hk : (k' : Int) = key
      · subst hk
        have hv : getAttr h s k' = some v := by rw [getAttrW_nat] at hg; exact hg
        by_cases hm : (k' : Int) ∈ ks
        · simp [hm, hv]
        · simp only [hm, false_and, if_false, List.mem_cons, true_or, hv, Option.isSome_some, and_self,
            if_true, Int.toNat_natCast, Int.natCast_nonneg]
          by_cases hf : (k' : Int) ∈ fk <;> simp [hf]
      · have hne : ¬ (0 ≤ key ∧ k' = key.toNat) := by
          rintro ⟨h0, h1⟩
          apply hk
          rw [h1]; omega
        simp only [hne, if_false, List.mem_cons, hk, false_or]

end DepsDev.Proofs.C19
