import DepsDev.Proofs.C11Ops

/-!
# C11 — the tie, part 2: `excludeToSpans`, `canon` (sort + merge) and `Set.Intersect` keep the invariant

`AllInv s l`: every span of `l` satisfies `SpanInv`. `canonSpans_spec`, `intersect_spec`: the
results are again such lists, and non-empty when the input is (`canon`) resp. always (`Intersect`).
-/
namespace DepsDev.Proofs.C11
open DepsDev DepsDev.Semver DepsDev.Proofs.C10 DepsDev.Proofs.Digits

theorem spanInv_bounds {s : System} {sp : Span} (h : SpanInv s sp) (a b : Version) (ha : sp.min = some a) (hb : sp.max = some b) :
    BV s a ∧ BV s b := by
  unfold SpanInv at h
  cases hr : sp.rank with
  | empty =>
    rw [hr] at h
    subst h
    cases ha
  | unit =>
    rw [hr] at h
    obtain ⟨m, h1, h2, h3⟩ := h
    rw [h1] at ha; rw [h2] at hb
    injection ha with ha; injection hb with hb
    subst ha hb
    exact ⟨h3, h3⟩
  | vector =>
    rw [hr] at h
    obtain ⟨x, y, h1, h2, h3, h4⟩ := h
    rw [h1] at ha; rw [h2] at hb
    injection ha with ha; injection hb with hb
    subst ha hb
    exact ⟨h3, h4⟩

theorem const_bvw (s : System) (x : Int) (hx : (-1 : Int) ≤ x ∧ x ≤ 9223372036854775807) :
    BVw s { sys := s, num := [x, x, x] } :=
  ⟨rfl, rfl, Or.inl (by simp), by intro y hy; simp at hy; subst hy; exact hx, by simp⟩

theorem excludeToSpans_spec (s : System) (hs : Generic s = true) (v : Version) (hv : BVw s v) (s1 s2 : Span)
    (h : excludeToSpans v = .ok (s1, s2)) : SpanInv s s1 ∧ SpanInv s s2 := by
  unfold excludeToSpans at h
  simp only [bind, Outcome.bind] at h
  split at h
  · cases h
  · split at h
    · cases h
    · split at h
      · cases h
      · split at h
        · rename_i lohi hlh
          obtain ⟨lo, hi⟩ := lohi
          have hb : BVw s lo ∧ BVw s hi := by
            split at hlh
            · split at hlh
              · rename_i opp hopp
                have hinv := opVersionToSpan_spec s hs tokEmpty v hv opp hopp
                split at hlh
                · rename_i a b ha hb
                  injection hlh with hlh
                  injection hlh with h1 h2
                  subst h1 h2
                  have := spanInv_bounds hinv a b ha hb
                  exact ⟨this.1.toBVw, this.2.toBVw⟩
                · cases hlh
              · cases hlh
              · cases hlh
            · injection hlh with hlh
              injection hlh with h1 h2
              subst h1 h2
              exact ⟨hv, hv⟩
          simp only at h
          split at h
          · rename_i sp1 h1
            split at h
            · rename_i sp2 h2
              injection h with h
              injection h with e1 e2
              subst e1 e2
              constructor
              · exact newSpan_spec s hs _ _ _ _ (by rw [hv.sys]; exact const_bvw s 0 zero_ok) hb.1 _ h1
              · exact newSpan_spec s hs _ _ _ _ hb.2 (by rw [hv.sys]; exact const_bvw s infinity inf_ok) _ h2
            · cases h
            · cases h
          · cases h
          · cases h
        · cases h
        · cases h


/-! ## `canon` of a span list -/

/-- Every span of the list satisfies the invariant. -/
def AllInv (s : System) (l : List Span) : Prop := ∀ sp ∈ l, SpanInv s sp

theorem insertSorted_go_mem (x : Span) (fuel : Nat) : ∀ (pre suffix r : List Span),
    insertSorted.go x pre suffix fuel = .ok r → (∀ y ∈ r, y = x ∨ y ∈ pre ∨ y ∈ suffix) ∧ r ≠ [] := by
  induction fuel with
  | zero =>
    intro pre suffix r h
    simp only [insertSorted.go] at h
    injection h with h
    subst h
    exact ⟨fun y hy => by simp at hy; rcases hy with h | h | h <;> simp [h], by simp⟩
  | succ k ih =>
    intro pre suffix r h
    simp only [insertSorted.go] at h
    split at h
    · injection h with h
      subst h
      exact ⟨fun y hy => by simp at hy; rcases hy with h | h <;> simp [h], by simp⟩
    · rename_i y hy
      simp only [bind, Outcome.bind] at h
      split at h
      · split at h
        · obtain ⟨g1, g2⟩ := ih _ _ r h
          refine ⟨?_, g2⟩
          intro z hz
          rcases g1 z hz with h1 | h1 | h1
          · exact Or.inl h1
          · exact Or.inr (Or.inl (mem_of_mem_dropLast h1))
          · simp at h1
            rcases h1 with rfl | h1
            · exact Or.inr (Or.inl (List.mem_of_getLast? hy))
            · exact Or.inr (Or.inr h1)
        · injection h with h
          subst h
          exact ⟨fun z hz => by simp at hz; rcases hz with h | h | h <;> simp [h], by simp⟩
      · cases h
      · cases h

theorem insertSorted_mem (x : Span) (l r : List Span) (h : insertSorted x l = .ok r) :
    (∀ y ∈ r, y = x ∨ y ∈ l) ∧ r ≠ [] := by
  unfold insertSorted at h
  split at h
  · injection h with h; subst h; exact ⟨by simp, by simp⟩
  · obtain ⟨g1, g2⟩ := insertSorted_go_mem x _ _ _ r h
    exact ⟨fun y hy => by rcases g1 y hy with h | h | h <;> simp_all, g2⟩

theorem foldlM_insertSorted (l : List Span) : ∀ (acc r : List Span),
    l.foldlM (fun acc x => insertSorted x acc) acc = .ok r →
    (∀ y ∈ r, y ∈ acc ∨ y ∈ l) ∧ (acc ≠ [] ∨ l ≠ [] → r ≠ []) := by
  induction l with
  | nil =>
    intro acc r h
    simp only [List.foldlM_nil, pure] at h
    injection h with h
    subst h
    exact ⟨fun y hy => Or.inl hy, fun h => by simpa using h⟩
  | cons x xs ih =>
    intro acc r h
    simp only [List.foldlM_cons, bind, Outcome.bind] at h
    split at h
    · rename_i acc' hacc
      obtain ⟨m1, m2⟩ := insertSorted_mem x acc acc' hacc
      obtain ⟨g1, g2⟩ := ih acc' r h
      refine ⟨?_, fun _ => g2 (Or.inl m2)⟩
      intro y hy
      rcases g1 y hy with h1 | h1
      · rcases m1 y h1 with rfl | h2
        · exact Or.inr (by simp)
        · exact Or.inl h2
      · exact Or.inr (by simp [h1])
    · cases h
    · cases h

theorem insertionSort_spec (s : System) (l r : List Span) (h : insertionSort l = .ok r) (hl : AllInv s l) :
    AllInv s r ∧ (l ≠ [] → r ≠ []) := by
  unfold insertionSort at h
  obtain ⟨g1, g2⟩ := foldlM_insertSorted l [] r h
  exact ⟨fun y hy => by rcases g1 y hy with h | h; cases h; exact hl y h, fun hne => g2 (Or.inr hne)⟩

/-- The three ways `canonInner` can change `this`. -/
def InnerUpd (this next t' : Span) : Prop :=
  t' = this ∨ (∃ mo, t' = { this with maxOpen := mo }) ∨
  (next.rank ≠ .empty ∧ ∃ nmax, next.max = some nmax ∧
    t' = { this with rank := .vector, max := some nmax, maxOpen := next.maxOpen })


theorem canonInner_upd (this next t' : Span) (c : InnerCtl) (h : canonInner this next = .ok (t', c)) :
    InnerUpd this next t' := by
  unfold canonInner at h
  simp only [bind, Outcome.bind] at h
  repeat' (split at h)
  all_goals first
    | (cases h; done)
    | (injection h with h; injection h with h1 _; subst h1; exact Or.inl rfl)
    | (injection h with h; injection h with h1 _; subst h1; exact Or.inr (Or.inl ⟨_, rfl⟩))
    | (injection h with h; injection h with h1 _; subst h1
       refine Or.inr (Or.inr ⟨?_, _, ‹next.max = some _›, rfl⟩)
       have := ‹¬ (next.rank == Rank.empty) = true›
       simpa using this)


theorem spanInv_min {s : System} {sp : Span} (h : SpanInv s sp) (hr : sp.rank ≠ .empty) :
    ∃ a, sp.min = some a ∧ BV s a := by
  unfold SpanInv at h
  cases hk : sp.rank with
  | empty => exact absurd hk hr
  | unit => rw [hk] at h; obtain ⟨m, h1, _, h3⟩ := h; exact ⟨m, h1, h3⟩
  | vector => rw [hk] at h; obtain ⟨a, _, h1, _, h3, _⟩ := h; exact ⟨a, h1, h3⟩

theorem spanInv_max {s : System} {sp : Span} (h : SpanInv s sp) (hr : sp.rank ≠ .empty) :
    ∃ b, sp.max = some b ∧ BV s b := by
  unfold SpanInv at h
  cases hk : sp.rank with
  | empty => exact absurd hk hr
  | unit => rw [hk] at h; obtain ⟨m, _, h2, h3⟩ := h; exact ⟨m, h2, h3⟩
  | vector => rw [hk] at h; obtain ⟨_, b, _, h2, _, h4⟩ := h; exact ⟨b, h2, h4⟩

theorem spanInv_maxOpen {s : System} {sp : Span} (h : SpanInv s sp) (hr : sp.rank ≠ .empty) (mo : Bool) :
    SpanInv s { sp with maxOpen := mo } := by
  unfold SpanInv at h ⊢
  cases hk : sp.rank with
  | empty => exact absurd hk hr
  | unit => rw [hk] at h; simpa [hk] using h
  | vector => rw [hk] at h; simpa [hk] using h

theorem innerUpd_inv (s : System) (this next t' : Span) (h1 : SpanInv s this) (hr : this.rank ≠ .empty)
    (h2 : SpanInv s next) (hu : InnerUpd this next t') : SpanInv s t' ∧ t'.rank ≠ .empty := by
  rcases hu with rfl | ⟨mo, rfl⟩ | ⟨hnr, nmax, hn, rfl⟩
  · exact ⟨h1, hr⟩
  · exact ⟨spanInv_maxOpen h1 hr mo, hr⟩
  · obtain ⟨a, ha, hab⟩ := spanInv_min h1 hr
    obtain ⟨b, hb, hbb⟩ := spanInv_max h2 hnr
    rw [hn] at hb
    injection hb with hb
    subst hb
    exact ⟨⟨a, nmax, ha, rfl, hab, hbb⟩, by simp⟩

theorem canonInnerLoop_spec (s : System) (rest : List (Span × Bool)) : ∀ (this t' : Span) (rest' : List (Span × Bool)),
    canonInnerLoop this rest = .ok (t', rest') → SpanInv s this → this.rank ≠ .empty →
    (∀ p ∈ rest, SpanInv s p.1) →
    SpanInv s t' ∧ t'.rank ≠ .empty ∧ rest'.map (·.1) = rest.map (·.1) := by
  induction rest with
  | nil =>
    intro this t' rest' h h1 hr _
    simp only [canonInnerLoop] at h
    injection h with h
    injection h with e1 e2
    subst e1 e2
    exact ⟨h1, hr, rfl⟩
  | cons p rest ih =>
    intro this t' rest' h h1 hr hall
    obtain ⟨next, m⟩ := p
    cases m with
    | true =>
      simp only [canonInnerLoop, bind, Outcome.bind] at h
      split at h
      · rename_i res hres
        obtain ⟨t2, r2⟩ := res
        injection h with h
        injection h with e1 e2
        subst e1 e2
        obtain ⟨g1, g2, g3⟩ := ih this t2 r2 hres h1 hr (fun q hq => hall q (by simp [hq]))
        exact ⟨g1, g2, by simp [g3]⟩
      · cases h
      · cases h
    | false =>
      simp only [canonInnerLoop, bind, Outcome.bind] at h
      split at h
      · rename_i res hres
        obtain ⟨t1, ctl⟩ := res
        have hu := canonInner_upd this next t1 ctl hres
        obtain ⟨k1, k2⟩ := innerUpd_inv s this next t1 h1 hr (hall (next, false) (by simp)) hu
        cases ctl with
        | brk =>
          simp only at h
          injection h with h
          injection h with e1 e2
          subst e1 e2
          exact ⟨k1, k2, rfl⟩
        | cont =>
          simp only at h
          split at h
          · rename_i res2 hres2
            obtain ⟨t2, r2⟩ := res2
            injection h with h
            injection h with e1 e2
            subst e1 e2
            obtain ⟨g1, g2, g3⟩ := ih t1 t2 r2 hres2 k1 k2 (fun q hq => hall q (by simp [hq]))
            exact ⟨g1, g2, by simp [g3]⟩
          · cases h
          · cases h
        | merge =>
          simp only at h
          split at h
          · rename_i res2 hres2
            obtain ⟨t2, r2⟩ := res2
            injection h with h
            injection h with e1 e2
            subst e1 e2
            obtain ⟨g1, g2, g3⟩ := ih t1 t2 r2 hres2 k1 k2 (fun q hq => hall q (by simp [hq]))
            exact ⟨g1, g2, by simp [g3]⟩
          · cases h
          · cases h
      · cases h
      · cases h


theorem canonOuter_spec (s : System) (fuel : Nat) : ∀ (l : List (Span × Bool)) (out : List Span) (ae : Bool),
    canonOuter l fuel = .ok (out, ae) → (∀ p ∈ l, SpanInv s p.1) →
    AllInv s out ∧ (ae = false → out ≠ []) := by
  induction fuel with
  | zero =>
    intro l out ae h _
    simp only [canonOuter] at h
    injection h with h
    injection h with e1 e2
    subst e1 e2
    exact ⟨by simp [AllInv], by simp⟩
  | succ k ih =>
    intro l out ae h hall
    cases l with
    | nil =>
      simp only [canonOuter] at h
      injection h with h
      injection h with e1 e2
      subst e1 e2
      exact ⟨by simp [AllInv], by simp⟩
    | cons p rest =>
      obtain ⟨this, m⟩ := p
      simp only [canonOuter] at h
      split at h
      · exact ih rest out ae h (fun q hq => hall q (by simp [hq]))
      · split at h
        · exact ih rest out ae h (fun q hq => hall q (by simp [hq]))
        · rename_i hre
          have hr : this.rank ≠ .empty := by simpa using hre
          simp only [bind, Outcome.bind] at h
          split at h
          · rename_i res hres
            obtain ⟨t', rest'⟩ := res
            obtain ⟨g1, _, g3⟩ := canonInnerLoop_spec s rest this t' rest' hres (hall (this, m) (by simp)) hr
              (fun q hq => hall q (by simp [hq]))
            simp only at h
            split at h
            · rename_i res2 hres2
              obtain ⟨out2, ae2⟩ := res2
              injection h with h
              injection h with e1 e2
              subst e1 e2
              have hall' : ∀ q ∈ rest', SpanInv s q.1 := by
                intro q hq
                have : q.1 ∈ rest'.map (·.1) := List.mem_map.mpr ⟨q, hq, rfl⟩
                rw [g3] at this
                obtain ⟨q', hq', e⟩ := List.mem_map.mp this
                rw [← e]
                exact hall q' (by simp [hq'])
              obtain ⟨k1, _⟩ := ih rest' out2 ae2 hres2 hall'
              refine ⟨?_, by simp⟩
              intro y hy
              simp at hy
              rcases hy with rfl | hy
              · exact g1
              · exact k1 y hy
            · cases h
            · cases h
          · cases h
          · cases h

theorem canonSpans_spec (s : System) (l r : List Span) (h : canonSpans l = .ok r) (hl : AllInv s l) :
    AllInv s r ∧ (l ≠ [] → r ≠ []) := by
  unfold canonSpans at h
  split at h
  · injection h with h; subst h; exact ⟨hl, id⟩
  · rename_i hlen
    split at h
    · injection h with h; subst h; exact ⟨hl, id⟩
    · simp only [bind, Outcome.bind] at h
      split at h
      · rename_i sorted hsorted
        obtain ⟨s1, s2⟩ := insertionSort_spec s l sorted hsorted hl
        have hlne : l ≠ [] := by intro e; subst e; simp at hlen
        have hsne := s2 hlne
        split at h
        · rename_i res hres
          obtain ⟨out, ae⟩ := res
          simp only at h
          unfold canonMerge at hres
          obtain ⟨g1, g2⟩ := canonOuter_spec s _ _ out ae hres (by
            intro p hp
            obtain ⟨x, hx, rfl⟩ := List.mem_map.mp hp
            exact s1 x hx)
          split at h
          · injection h with h
            subst h
            refine ⟨fun y hy => s1 y (List.mem_of_mem_take hy), fun _ => ?_⟩
            cases sorted with
            | nil => exact absurd rfl hsne
            | cons a as => simp
          · rename_i hae
            injection h with h
            subst h
            exact ⟨g1, fun _ => g2 (by simpa using hae)⟩
        · cases h
        · cases h
      · cases h
      · cases h


/-! ## `Set.Intersect` -/

theorem tloop_spec (s : System) (hs : Generic s = true) (selem : Span) (hse : SpanInv s selem) (ts : List Span) :
    ∀ (acc r : List Span), VSet.intersect.tloop selem ts acc = .ok r → AllInv s acc → AllInv s ts → AllInv s r := by
  induction ts with
  | nil =>
    intro acc r h hacc _
    simp only [VSet.intersect.tloop] at h
    injection h with h
    subst h
    exact hacc
  | cons telem rest ih =>
    intro acc r h hacc hts
    have hrest : AllInv s rest := fun y hy => hts y (by simp [hy])
    simp only [VSet.intersect.tloop] at h
    split at h
    · exact ih acc r h hacc hrest
    · split at h
      · rename_i smin smax tmin tmax e1 e2 e3 e4
        have hsb := spanInv_bounds hse smin smax e1 e2
        have htb := spanInv_bounds (hts telem (by simp)) tmin tmax e3 e4
        simp only [bind, Outcome.bind] at h
        repeat' (split at h)
        all_goals first
          | (cases h; done)
          | exact ih acc r h hacc hrest
          | (injection h with h; subst h; exact hacc)
          | (rename_i sp hsp
             refine ih _ r h ?_ hrest
             intro y hy
             simp only [List.mem_append, List.mem_singleton] at hy
             rcases hy with hy | rfl
             · exact hacc y hy
             · refine newSpan_spec s hs _ _ _ _ ?_ ?_ _ hsp
               · split
                 · exact htb.1.toBVw
                 · exact hsb.1.toBVw
               · split
                 · exact htb.2.toBVw
                 · exact hsb.2.toBVw)
      · cases h

theorem intersect_spec (s : System) (hs : Generic s = true) (S T R : VSet) (h : S.intersect T = .ok R)
    (hS : AllInv s S.span) (hT : AllInv s T.span) : AllInv s R.span ∧ R.span ≠ [] := by
  unfold VSet.intersect at h
  simp only [bind, Outcome.bind] at h
  split at h
  · rename_i out hout
    have hfold : ∀ (l acc r : List Span),
        l.foldlM (fun acc selem => if (selem.rank == Rank.empty) = true then Outcome.ok acc
          else VSet.intersect.tloop selem T.span acc) acc = .ok r →
        AllInv s l → AllInv s acc → AllInv s r := by
      intro l
      induction l with
      | nil =>
        intro acc r h _ hacc
        simp only [List.foldlM_nil, pure] at h
        injection h with h; subst h; exact hacc
      | cons x xs ih =>
        intro acc r h hl hacc
        simp only [List.foldlM_cons, bind, Outcome.bind] at h
        split at h
        · rename_i acc' hacc'
          refine ih acc' r h (fun y hy => hl y (by simp [hy])) ?_
          split at hacc'
          · injection hacc' with e; subst e; exact hacc
          · exact tloop_spec s hs x (hl x (by simp)) T.span acc acc' hacc' hacc hT
        · cases h
        · cases h
    have hout' := hfold S.span [] out hout hS (by simp [AllInv])
    split at h
    · rename_i sp hsp
      injection h with h
      subst h
      have hinv : AllInv s (if out.isEmpty then [Span.emptySpan] else out) := by
        split
        · intro y hy; simp at hy; subst hy; exact spanInv_empty s
        · exact hout'
      have hne : (if out.isEmpty then [Span.emptySpan] else out) ≠ [] := by
        split
        · simp
        · rename_i hne; simpa using hne
      obtain ⟨g1, g2⟩ := canonSpans_spec s _ sp hsp hinv
      exact ⟨g1, g2 hne⟩
    · cases h
    · cases h
  · cases h
  · cases h

end DepsDev.Proofs.C11
