import DepsDev.Proofs.C11ParseConstraint
import DepsDev.Proofs.C03L2Ast
import DepsDev.Proofs.C03L2Token

/-!
# C03 layer L2, token level: `ParseConstraint` computes `astSet`

`LexOr sys r s` says that the tokeniser (`token`) splits the text `s` into the tokens of the
requirement AST `r` — alternatives separated by `||`, the comparators of an alternative adjacent
(npm) or separated by commas (Cargo), every comparator an optional operator token followed by a
version/wildcard token that `Parse` maps to the operand's embedding. Under this hypothesis — the
string layer that is NOT proved here — the recursive-descent parser (`value`, `andList`, `orList`,
`ParseConstraint`, all unchanged model code) returns exactly `astSet sys r`, for npm and Cargo
(`parseConstraint_tokens`). The fuel of the parser's loops suffices because every token consumes
a byte (`token_shrinks`).
-/
namespace DepsDev.Proofs.C03

open DepsDev DepsDev.Semver DepsDev.Ref DepsDev.Proofs

/-- The text `s` starts with the tokens of comparator `c` and continues with `s'`. -/
def LexComp (sys : System) (c : Comparator) (s s' : Bytes) : Prop :=
  if c.op = .none then
    ∃ typ tok, token sys s = .ok (typ, tok, s') ∧
      ((typ = tokWildcard ∧ c.p.nums.any (· == .x) = true) ∨ (typ = tokVersion ∧ c.p.nums.any (· == .x) = false)) ∧
      parse sys tok = .ok (embedPartial sys c.p) ∧
      ∃ t2 k2 r2, token sys s' = .ok (t2, k2, r2) ∧ t2 ≠ tokInvalid ∧ t2 ≠ tokHyphen
  else
    ∃ optok s1 typ tok, token sys s = .ok (tokOf c.op, optok, s1) ∧ optok ≠ [33, 61] ∧
      token sys s1 = .ok (typ, tok, s') ∧ (typ = tokVersion ∨ typ = tokWildcard) ∧
      parse sys tok = .ok (embedPartial sys c.p)

/-- After a value, the rest of an AND list: nothing more (end of input or `||` next), or the
next comparator — adjacent (systems with blank-separated AND) or after a comma. -/
inductive LexTail (sys : System) : List Comparator → Bytes → Bytes → Prop
  | done (s : Bytes) (typ : Nat) (tok r : Bytes) : token sys s = .ok (typ, tok, r) → (typ = tokEOF ∨ typ = tokOr) →
      LexTail sys [] s s
  | adj (c : Comparator) (cs : List Comparator) (s s' e : Bytes) (typ : Nat) (tok r : Bytes) :
      token sys s = .ok (typ, tok, r) → typ ≠ tokEOF → typ ≠ tokInvalid → typ ≠ tokComma → typ ≠ tokOr →
      sys.supportsAnd = true → sys ≠ .rubygems →
      LexComp sys c s s' → LexTail sys cs s' e → LexTail sys (c :: cs) s e
  | comma (c : Comparator) (cs : List Comparator) (s s0 s' e : Bytes) (tok : Bytes) :
      token sys s = .ok (tokComma, tok, s0) → LexComp sys c s0 s' → LexTail sys cs s' e →
      LexTail sys (c :: cs) s e

/-- One alternative: a comparator and the rest of its AND list, ending at `e`. -/
def LexAlt (sys : System) (cs : List Comparator) (s e : Bytes) : Prop :=
  match cs with
  | [] => False
  | c :: rest => ∃ s', LexComp sys c s s' ∧ LexTail sys rest s' e

/-- The whole requirement: alternatives separated by `||`, then the end of the input. -/
inductive LexOr (sys : System) : List (List Comparator) → Bytes → Prop
  | last (cs : List Comparator) (s e : Bytes) (tok r : Bytes) : LexAlt sys cs s e →
      token sys e = .ok (tokEOF, tok, r) → LexOr sys [cs] s
  | cons (cs : List Comparator) (rest : List (List Comparator)) (s e s2 : Bytes) (tok : Bytes) :
      LexAlt sys cs s e → token sys e = .ok (tokOr, tok, s2) → LexOr sys rest s2 → LexOr sys (cs :: rest) s

/-! ## `value()` on one comparator -/

theorem tokOf_unop (op : Op) (h : op ≠ .none) :
    isUnop (tokOf op) = true ∧ (tokOf op == tokEOF) = false ∧ (tokOf op == tokInvalid) = false := by
  cases op <;> first | exact absurd rfl h | decide

theorem compTok_unop (sys : System) (c : Comparator) (h : c.op ≠ .none) : compTok sys c = tokOf c.op := by
  unfold compTok tokOfCargo
  split
  · cases hop : c.op <;> first | exact absurd hop h | rfl
  · rfl

theorem compTok_plain (sys : System) (c : Comparator) (h : c.op = .none) (typ : Nat)
    (ht : (typ = tokWildcard ∧ c.p.nums.any (· == .x) = true) ∨ (typ = tokVersion ∧ c.p.nums.any (· == .x) = false)) :
    compTok sys c = (if sys == .cargo && typ == tokVersion then tokCaret else tokEmpty) := by
  unfold compTok tokOfCargo
  rw [h]
  rcases ht with ⟨rfl, hx⟩ | ⟨rfl, hx⟩
  · by_cases hs : sys = .cargo <;> simp [hs, hx, tokOf, tokWildcard, tokVersion]
  · by_cases hs : sys = .cargo <;> simp [hs, hx, tokOf]

/-- `value()` consumes exactly the comparator and returns its span. -/
theorem cpValue_comp (p : CP) (c : Comparator) (s' : Bytes) (sp : Span)
    (hl : LexComp p.sys c p.rest s') (hsp : compSpan p.sys c = .ok sp) :
    ∃ w, cpValue p = .ok ({ spans := [sp], valid := true }, { p with rest := s', weight := w }) := by
  rw [C11.cpValue_eq]
  unfold C11.cpValue' LexComp at *
  unfold compSpan at hsp
  by_cases hop : c.op = .none
  · rw [if_pos hop] at hl
    obtain ⟨typ, tok, ht, htyp, hparse, t2, k2, r2, ht2, hni, hnh⟩ := hl
    rw [compTok_plain p.sys c hop typ htyp] at hsp
    have e1 : (typ == tokEOF) = false ∧ (typ == tokInvalid) = false ∧ isUnop typ = false ∧
        (typ == tokVersion || typ == tokWildcard) = true := by
      rcases htyp with ⟨rfl, -⟩ | ⟨rfl, -⟩ <;> decide
    have e2 : (t2 == tokInvalid) = false := by simpa using hni
    have e3 : (t2 != tokHyphen) = true := by simpa using hnh
    simp only [bind, Outcome.bind, ht, e1.1, e1.2.1, e1.2.2.1, e1.2.2.2, ht2, e2, e3, Bool.false_eq_true, ↓reduceIte,
      C11.cpPlain, hparse, hsp]
    exact ⟨_, rfl⟩
  · rw [if_neg hop] at hl
    obtain ⟨optok, s1, typ, tok, ht, hne, ht1, htyp, hparse⟩ := hl
    rw [compTok_unop p.sys c hop] at hsp
    obtain ⟨u1, u2, u3⟩ := tokOf_unop c.op hop
    have e1 : (typ != tokVersion && typ != tokWildcard) = false := by
      rcases htyp with rfl | rfl <;> decide
    have e2 : (optok == [33, 61]) = false := by simpa using hne
    simp only [bind, Outcome.bind, ht, u1, u2, u3, Bool.false_eq_true, ↓reduceIte, C11.cpUnop, ht1, e1, hparse, e2, hsp]
    exact ⟨_, rfl⟩

/-- `value()` at the end of an AND list (end of input, or `||` next): not a value, nothing consumed. -/
theorem cpValue_end (p : CP) (typ : Nat) (tok r : Bytes) (ht : token p.sys p.rest = .ok (typ, tok, r))
    (h : typ = tokEOF ∨ typ = tokOr) : cpValue p = .ok ({}, p) := by
  rw [C11.cpValue_eq]
  unfold C11.cpValue'
  rcases h with rfl | rfl
  · simp only [bind, Outcome.bind, ht, beq_self_eq_true, ↓reduceIte]
  · have e : (tokOr == tokEOF) = false ∧ (tokOr == tokInvalid) = false ∧ isUnop tokOr = false ∧
        (tokOr == tokVersion || tokOr == tokWildcard) = false := by decide
    simp only [bind, Outcome.bind, ht, e.1, e.2.1, e.2.2.1, e.2.2.2, Bool.false_eq_true, ↓reduceIte]

/-! ## `andList` -/

theorem lexComp_shrinks {sys : System} {c : Comparator} {s s' : Bytes} (h : LexComp sys c s s') :
    s'.length < s.length := by
  unfold LexComp at h
  split at h
  · obtain ⟨typ, tok, ht, htyp, -⟩ := h
    refine token_shrinks sys s tok s' typ ht ?_
    rcases htyp with ⟨rfl, -⟩ | ⟨rfl, -⟩ <;> decide
  · rename_i hop
    obtain ⟨optok, s1, typ, tok, ht, -, ht1, htyp, -⟩ := h
    have h1 := token_shrinks sys s optok s1 _ ht (by have := (tokOf_unop c.op hop).2.1; simpa using this)
    have h2 := token_shrinks sys s1 tok s' typ ht1 (by rcases htyp with rfl | rfl <;> decide)
    omega

theorem lexTail_length {sys : System} {cs : List Comparator} {s e : Bytes} (h : LexTail sys cs s e) :
    cs.length ≤ s.length := by
  induction h with
  | done => simp
  | adj c cs s s' e typ tok r _ _ _ _ _ _ _ hc _ ih =>
    have := lexComp_shrinks hc
    simp only [List.length_cons]; omega
  | comma c cs s s0 s' e tok ht hc _ ih =>
    have h1 := token_shrinks sys s tok s0 _ ht (by decide)
    have := lexComp_shrinks hc
    simp only [List.length_cons]; omega

/-- The loop of `andList` after a value: the remaining comparators are intersected in turn. -/
theorem andList_tail (sys : System) : ∀ (cs : List Comparator) (p : CP) (set out : List Span) (fuel : Nat) (e : Bytes),
    p.sys = sys → LexTail sys cs p.rest e → altGo sys set cs = .ok out → cs.length + 1 ≤ fuel →
    ∃ w, C11.alNext (fun p s l => cpAndList.go p s false l fuel) p set =
      .ok (out, true, { p with rest := e, weight := w }) := by
  intro cs
  induction cs with
  | nil =>
    intro p set out fuel e hp hl hgo hf
    cases hl with
    | done _ typ tok r ht hty =>
      have hout : out = set := by
        simp only [altGo] at hgo
        injection hgo with hgo
        exact hgo.symm
      subst hout
      obtain ⟨k, rfl⟩ : ∃ k, fuel = k + 1 := ⟨fuel - 1, by omega⟩
      subst hp
      have hv := cpValue_end p typ tok r ht hty
      have hstep : cpAndList.go p out false false (k + 1) = .ok (out, true, p) := by
        rw [C11.andList_go_succ, hv]
        rfl
      refine ⟨p.weight, ?_⟩
      unfold C11.alNext
      rcases hty with rfl | rfl
      · simp only [bind, Outcome.bind, ht, beq_self_eq_true, ↓reduceIte]
        exact hstep
      · have e1 : (tokOr == tokEOF) = false ∧ (tokOr == tokInvalid) = false ∧ (tokOr == tokComma) = false := by decide
        simp only [bind, Outcome.bind, ht, e1.1, e1.2.1, e1.2.2, beq_self_eq_true, Bool.false_eq_true, ↓reduceIte]
        exact hstep
  | cons c cs ih =>
    intro p set out fuel e hp hl hgo hf
    obtain ⟨k, rfl⟩ : ∃ k, fuel = k + 1 := ⟨fuel - 1, by simp only [List.length_cons] at hf; omega⟩
    have hk : cs.length + 1 ≤ k := by simp only [List.length_cons] at hf; omega
    -- what `altGo` did with `c`
    simp only [altGo, bind, Outcome.bind] at hgo
    cases hsp : compSpan sys c with
    | err => rw [hsp] at hgo; cases hgo
    | panic => rw [hsp] at hgo; cases hgo
    | ok sp =>
      rw [hsp] at hgo
      simp only at hgo
      cases hint : VSet.intersect { sys := .default, span := set } { sys := .default, span := [sp] } with
      | err => rw [hint] at hgo; cases hgo
      | panic => rw [hint] at hgo; cases hgo
      | ok R =>
        rw [hint] at hgo
        simp only at hgo
        -- one iteration of the loop from a state positioned at `c`
        have iter : ∀ (q : CP) (lwc : Bool) (s' : Bytes), q.sys = sys → LexComp sys c q.rest s' → LexTail sys cs s' e →
            ∃ w, cpAndList.go q set false lwc (k + 1) = .ok (out, true, { q with rest := e, weight := w }) := by
          intro q lwc s' hq hc ht
          subst hq
          obtain ⟨w1, hv⟩ := cpValue_comp q c s' sp hc hsp
          obtain ⟨w2, h2⟩ := ih { q with rest := s', weight := w1 } R.span out k e rfl ht hgo hk
          refine ⟨w2, ?_⟩
          rw [C11.andList_go_succ, hv]
          simp only [Outcome.bind, Bool.not_true, Bool.false_eq_true, ↓reduceIte, hint]
          exact h2
        cases hl with
        | adj _ _ _ s' _ typ tok r ht n1 n2 n3 n4 hand hgem hc htl =>
          subst hp
          obtain ⟨w, hw⟩ := iter p false s' rfl hc htl
          refine ⟨w, ?_⟩
          unfold C11.alNext
          have b1 : (typ == tokEOF) = false := by simpa using n1
          have b2 : (typ == tokInvalid) = false := by simpa using n2
          have b3 : (typ == tokComma) = false := by simpa using n3
          have b4 : (typ == tokOr) = false := by simpa using n4
          have b5 : (p.sys == System.rubygems) = false := by simpa using hgem
          simp only [bind, Outcome.bind, ht, b1, b2, b3, b4, hand, b5, Bool.not_true, Bool.false_eq_true, ↓reduceIte]
          exact hw
        | comma _ _ _ s0 s' _ tok ht hc htl =>
          subst hp
          obtain ⟨w, hw⟩ := iter { p with rest := s0 } true s' rfl hc htl
          refine ⟨w, ?_⟩
          unfold C11.alNext
          have b1 : (tokComma == tokEOF) = false ∧ (tokComma == tokInvalid) = false := by decide
          simp only [bind, Outcome.bind, ht, b1.1, b1.2, beq_self_eq_true, Bool.false_eq_true, ↓reduceIte]
          exact hw

/-- `andList` on one alternative. -/
theorem cpAndList_alt (sys : System) (hsys : sys = .npm ∨ sys = .cargo) (p : CP) (hp : p.sys = sys)
    (cs : List Comparator) (e : Bytes) (out : List Span) (hl : LexAlt sys cs p.rest e)
    (hout : altSpans sys cs = .ok out) :
    ∃ w, cpAndList p = .ok (out, true, { p with rest := e, weight := w }) := by
  cases cs with
  | nil => exact hl.elim
  | cons c cs =>
    obtain ⟨s', hc, ht⟩ := hl
    have hnm : (p.sys == System.maven || p.sys == System.nuget) = false := by
      rw [hp]; rcases hsys with rfl | rfl <;> decide
    unfold cpAndList
    simp only [hnm, Bool.false_eq_true, ↓reduceIte]
    simp only [altSpans, bind, Outcome.bind] at hout
    cases hsp : compSpan sys c with
    | err => rw [hsp] at hout; cases hout
    | panic => rw [hsp] at hout; cases hout
    | ok sp =>
      rw [hsp] at hout
      simp only at hout
      subst hp
      obtain ⟨w1, hv⟩ := cpValue_comp p c s' sp hc hsp
      have hlen := lexTail_length ht
      have hsh := lexComp_shrinks hc
      obtain ⟨w2, h2⟩ := andList_tail p.sys cs { p with rest := s', weight := w1 } [sp] out (p.rest.length + 1) e rfl ht hout
        (by omega)
      refine ⟨w2, ?_⟩
      rw [C11.andList_go_succ, hv]
      simp only [Outcome.bind, Bool.not_true, Bool.false_eq_true, ↓reduceIte]
      exact h2

/-! ## `orList` and `ParseConstraint` -/

theorem lexTail_end_le {sys : System} {cs : List Comparator} {s e : Bytes} (h : LexTail sys cs s e) :
    e.length ≤ s.length := by
  induction h with
  | done => exact Nat.le_refl _
  | adj c cs s s' e typ tok r _ _ _ _ _ _ _ hc _ ih => have := lexComp_shrinks hc; omega
  | comma c cs s s0 s' e tok ht hc _ ih =>
    have := token_shrinks sys s tok s0 _ ht (by decide)
    have := lexComp_shrinks hc
    omega

theorem lexAlt_end_le {sys : System} {cs : List Comparator} {s e : Bytes} (h : LexAlt sys cs s e) :
    e.length ≤ s.length := by
  cases cs with
  | nil => exact h.elim
  | cons c cs =>
    obtain ⟨s', hc, htl⟩ := h
    have := lexComp_shrinks hc
    have := lexTail_end_le htl
    omega

theorem lexOr_length {sys : System} {r : List (List Comparator)} {s : Bytes} (h : LexOr sys r s) :
    r.length ≤ s.length + 1 := by
  induction h with
  | last => simp
  | cons cs rest s e s2 tok ha ht _ ih =>
    have h1 := token_shrinks sys e tok s2 _ ht (by decide)
    have h2 := lexAlt_end_le ha
    simp only [List.length_cons]; omega

theorem orList_go_alts (sys : System) (hsys : sys = .npm ∨ sys = .cargo) :
    ∀ (r : List (List Comparator)) (p : CP) (acc out : List Span) (lwo : Bool) (fuel : Nat),
      p.sys = sys → LexOr sys r p.rest → rangeGo sys acc r = .ok out → r.length ≤ fuel →
      ∃ w e tok rr, cpOrList.go p acc lwo fuel = .ok (out, { p with rest := e, weight := w }) ∧
        token sys e = .ok (tokEOF, tok, rr) := by
  intro r
  induction r with
  | nil => intro p acc out lwo fuel _ hl; cases hl
  | cons cs rest ih =>
    intro p acc out lwo fuel hp hl hr hf
    obtain ⟨k, rfl⟩ : ∃ k, fuel = k + 1 := ⟨fuel - 1, by simp only [List.length_cons] at hf; omega⟩
    simp only [rangeGo, bind, Outcome.bind] at hr
    cases hset : altSpans sys cs with
    | err => rw [hset] at hr; cases hr
    | panic => rw [hset] at hr; cases hr
    | ok set =>
      rw [hset] at hr
      simp only at hr
      have hnn : (p.sys == System.nuget) = false ∧ (p.sys == System.maven) = false := by
        rw [hp]; rcases hsys with rfl | rfl <;> decide
      cases hl with
      | last _ _ e tok rr ha hte =>
        obtain ⟨w, hw⟩ := cpAndList_alt sys hsys p hp cs e set ha hset
        refine ⟨w, e, tok, rr, ?_, hte⟩
        rw [C11.orList_go_succ, hw]
        subst hp
        have b : (tokEOF == tokOr) = false := by decide
        simp only [Outcome.bind, Bool.not_true, Bool.false_eq_true, ↓reduceIte, hnn.1, hnn.2, Bool.false_and, hte, b,
          Bool.or_self]
        simp only [rangeGo] at hr
        simp only [cpOrList.fin, hr]
      | cons _ _ _ e s2 tok ha hto hrest =>
        obtain ⟨w, hw⟩ := cpAndList_alt sys hsys p hp cs e set ha hset
        obtain ⟨w2, e2, tok2, rr2, h2, hte⟩ := ih { p with rest := s2, weight := w } (acc ++ set) out true k hp hrest hr
          (by simp only [List.length_cons] at hf; omega)
        refine ⟨w2, e2, tok2, rr2, ?_, hte⟩
        rw [C11.orList_go_succ, hw]
        subst hp
        simp only [Outcome.bind, Bool.not_true, Bool.false_eq_true, ↓reduceIte, hnn.1, hnn.2, Bool.false_and, hto,
          beq_self_eq_true, Bool.or_self]
        exact h2

/-- **Token level**: if the tokeniser splits the (trimmed, non-empty) requirement text into the
tokens of `r`, and the comparators' spans combine without error into `S` (`astSet`), then
`ParseConstraint` accepts the text and its set is `S`. npm and Cargo. -/
theorem parseConstraint_tokens (sys : System) (hsys : sys = .npm ∨ sys = .cargo) (r : List (List Comparator))
    (req : Bytes) (hne : Bytes.trimSpace req ≠ []) (hl : LexOr sys r (Bytes.trimSpace req)) (S : VSet)
    (hS : astSet sys r = .ok S) :
    ∃ c, parseConstraint sys req = .ok c ∧ c.set = S ∧ c.sys = sys ∧ c.str = Bytes.trimSpace req := by
  have hemp : (Bytes.trimSpace req).isEmpty = false := by
    cases h : Bytes.trimSpace req with
    | nil => exact absurd h hne
    | cons _ _ => rfl
  have hs3 : (sys == System.nuget) = false ∧ (sys == System.go) = false ∧ (sys == System.pypi) = false := by
    rcases hsys with rfl | rfl <;> decide
  simp only [astSet, bind, Outcome.bind] at hS
  cases hr : rangeGo sys [] r with
  | err => rw [hr] at hS; cases hS
  | panic => rw [hr] at hS; cases hS
  | ok spans =>
    rw [hr] at hS
    simp only at hS
    injection hS with hS
    obtain ⟨w, e, tok, rr, hgo, hte⟩ := orList_go_alts sys hsys r { sys := sys, rest := Bytes.trimSpace req } [] spans false
      ((Bytes.trimSpace req).length + 2) rfl hl hr (by have := lexOr_length hl; omega)
    have hcp : cpOrList { sys := sys, rest := Bytes.trimSpace req } =
        .ok (spans, { sys := sys, rest := e, weight := w }) := hgo
    have b : (tokEOF != tokEOF) = false := by decide
    refine ⟨{ str := Bytes.trimSpace req, sys := sys, simple := w == 1, set := S }, ?_, rfl, rfl, rfl⟩
    unfold parseConstraint
    simp only [bind, Outcome.bind, hemp, hs3.1, hs3.2.1, hs3.2.2, Bool.false_and, Bool.false_eq_true, ↓reduceIte, hcp, hte, b,
      hS]

end DepsDev.Proofs.C03
