import DepsDev.Proofs.C03Sat

/-!
# C03 layer L2, reference side: multi-comparator / multi-alternative requirements on a release

On a release candidate node-semver's `Range` bookkeeping (null-set filtering, `*` collapse,
`>=0.0.0 ⇒ *`, `*` removal) does not change the answer: `satisfies` is "some alternative all of
whose desugared comparators accept" (`satisfies_release`). For Cargo, `matches` is the conjunction
of `matches_impl` over the comparators (`matches_release`).
-/
namespace DepsDev.Proofs.C03

open DepsDev DepsDev.Semver DepsDev.Ref

/-- The desugared comparators of one alternative, before node's normalisation. -/
def altPrims : Alt → List Prim
  | .hyphen lo hi => desugarHyphen lo hi
  | .comps cs => cs.flatMap desugarComparator

theorem comparatorSet_release (a : Alt) (x : SemVerAst) (hx : x.pre = []) :
    testSet (comparatorSet a) x = (altPrims a).all (·.test x) := by
  have h := norm_all (altPrims a) x hx
  cases a with
  | hyphen lo hi => exact h
  | comps cs => exact h

theorem isNullAlt_test (s : List Prim) (x : SemVerAst) (hx : x.pre = []) (h : isNullAlt s = true) :
    testSet s x = false := by
  cases s with
  | nil => simp [isNullAlt] at h
  | cons c t =>
    simp only [isNullAlt] at h
    rw [testSet_release _ x hx, List.all_cons, null_test c x hx h, Bool.false_and]

theorem any_filter_null (sets : List (List Prim)) (x : SemVerAst) (hx : x.pre = []) :
    (sets.filter (fun s => !isNullAlt s)).any (testSet · x) = sets.any (testSet · x) := by
  induction sets with
  | nil => rfl
  | cons a t ih =>
    by_cases ha : isNullAlt a = true
    · simp only [List.filter, ha, Bool.not_true, List.any_cons, isNullAlt_test a x hx ha, Bool.false_or]
      exact ih
    · have ha' : isNullAlt a = false := by simpa using ha
      simp only [List.filter, ha', Bool.not_false, List.any_cons]
      rw [ih]

theorem star_test (x : SemVerAst) (hx : x.pre = []) : testSet [Prim.any] x = true := by
  simp [testSet, hx, Prim.test]

/-- The `Range` constructor's bookkeeping does not change the answer on a release. -/
theorem rangeSets_release (r : RangeAst) (hne : r ≠ []) (x : SemVerAst) (hx : x.pre = []) :
    (rangeSets r).any (testSet · x) = (r.map comparatorSet).any (testSet · x) := by
  cases r with
  | nil => exact absurd rfl hne
  | cons first rest =>
    simp only [rangeSets]
    split
    · -- several alternatives
      have hk := any_filter_null ((first :: rest).map comparatorSet) x hx
      split
      · -- everything is a null set
        rename_i hempty
        have he : ((first :: rest).map comparatorSet).filter (fun s => !isNullAlt s) = [] := by simpa using hempty
        rw [he] at hk
        rw [← hk]
        have hfirst : isNullAlt (comparatorSet first) = true := by
          have hmem : comparatorSet first ∈ (first :: rest).map comparatorSet := by simp
          have := (List.filter_eq_nil_iff.mp he) _ hmem
          simpa using this
        simp [isNullAlt_test _ x hx hfirst]
      · split
        · -- one of several non-null alternatives is `*`
          rename_i hstar
          rw [← hk]
          simp only [Bool.and_eq_true, List.any_eq_true] at hstar
          obtain ⟨-, s, hs, hss⟩ := hstar
          have e : s = [Prim.any] := by simpa [isStarSet] using hss
          subst e
          simp only [List.any_cons, List.any_nil, Bool.or_false, star_test x hx]
          symm
          rw [List.any_eq_true]
          exact ⟨_, hs, star_test x hx⟩
        · exact hk
    · rfl

/-- **npm, release candidate**: `satisfies` is "some alternative all of whose desugared
comparators accept the candidate". -/
theorem satisfies_release (r : RangeAst) (hne : r ≠ []) (x : SemVerAst) (hx : x.pre = []) :
    NpmRange.satisfies r x = r.any (fun a => (altPrims a).all (·.test x)) := by
  unfold NpmRange.satisfies
  rw [rangeSets_release r hne x hx, List.any_map]
  congr 1
  funext a
  exact comparatorSet_release a x hx

theorem satisfies_release_comps (r : List (List Comparator)) (hne : r ≠ []) (x : SemVerAst) (hx : x.pre = []) :
    NpmRange.satisfies (r.map Alt.comps) x = r.any (fun cs => cs.all (fun c => (desugarComparator c).all (·.test x))) := by
  rw [satisfies_release _ (by simpa using hne) x hx, List.any_map]
  congr 1
  funext cs
  simp [altPrims, List.all_flatMap]

/-- **Cargo, release candidate**: `matches` is the conjunction of `matches_impl` over the
comparators (none of them the bare `*`). -/
theorem matches_release (cs : List Comparator) (x : SemVerAst) (hx : x.pre = [])
    (hX : ∀ c ∈ cs, c.p.isX 0 = false) :
    CargoReq.matches [.comps cs] x = cs.all (fun c => matchesImpl (cargoComparator c) x) := by
  match cs, hX with
  | [], _ => simp [CargoReq.matches, CargoReq.comparators, hx]
  | [c], hX => simp [CargoReq.matches, CargoReq.comparators, hx, hX c (by simp)]
  | c :: d :: t, _ => simp [CargoReq.matches, CargoReq.comparators, hx, List.all_map, Function.comp_def]

end DepsDev.Proofs.C03
