import DepsDev.Proofs.C08State

/-! The invariant `Crit(S)` of DESIGN C08: the dependencies every pinned version had
when it was pinned are recorded in the criteria (needs U4), and so are the root's
direct dependencies. -/
namespace DepsDev.Resolve.Pypi

variable {U : Universe} {root : Ver}

def HasInfo (S : State) (d : Req) (v : Ver) : Prop :=
  ∃ c, getCrit S.criteria d.pkg = some c ∧ (d, v) ∈ c.info

/-- `Crit(S)`: for every pin and every dependency visible when it was made (extras
`q.ex`), the pair (dependency, pinned version) is in the dependency's criterion -/
def CritInv (U : Universe) (S : State) : Prop :=
  ∀ q ∈ S.mapping, ∀ deps, getDependencies U ⟨q.pkg, q.id⟩ q.ex = .ok deps → ∀ d ∈ deps, HasInfo S d ⟨q.pkg, q.id⟩

def DirectInv (root : Ver) (direct : List Req) (S : State) : Prop := ∀ d ∈ direct, HasInfo S d root

def InfoMono (cs cs' : List (Nat × Criterion)) : Prop :=
  ∀ n c, getCrit cs n = some c → ∃ c', getCrit cs' n = some c' ∧ ∀ x ∈ c.info, x ∈ c'.info

theorem hasInfo_mono {S : State} {m : List Pin} {cs' : List (Nat × Criterion)} {d : Req} {v : Ver}
    (hm : InfoMono S.criteria cs') (h : HasInfo S d v) : HasInfo ⟨m, cs'⟩ d v := by
  obtain ⟨c, hc, hi⟩ := h
  obtain ⟨c', hc', hsub⟩ := hm _ _ hc
  exact ⟨c', hc', hsub _ hi⟩

theorem infoMono_putCrit_merge {S : State} {r : Req} {par : Ver} {c : Criterion}
    (h : mergeIntoCriterion U root S r par = .ok c) : InfoMono S.criteria (putCrit S.criteria r.pkg c) := by
  intro n c0 hc0
  rw [getCrit_putCrit]
  split
  · rename_i e; subst e
    refine ⟨c, rfl, ?_⟩
    have := merge_info_mono h
    rw [hc0] at this
    exact this
  · exact ⟨c0, hc0, fun _ hx => hx⟩

theorem infoMono_putAll_upd {S : State} {cand : Ver} {upd : List (Nat × Criterion)}
    (h : ∀ e ∈ upd, ∃ d : Req, e.1 = d.pkg ∧ mergeIntoCriterion U root S d cand = .ok e.2) :
    InfoMono S.criteria (putAll S.criteria upd) := by
  intro n c0 hc0
  by_cases hk : ∃ c', (n, c') ∈ upd
  · obtain ⟨c', hc'⟩ := hk
    obtain ⟨c, hc, hget⟩ := getCrit_putAll_of_key (cs := S.criteria) hc'
    refine ⟨c, hget, ?_⟩
    obtain ⟨d, hd1, hd2⟩ := h _ hc
    have := merge_info_mono hd2
    simp only at hd1
    rw [← hd1, hc0] at this
    exact this
  · refine ⟨c0, ?_, fun _ hx => hx⟩
    rw [getCrit_putAll_of_not_key (fun c' hc' => hk ⟨c', hc'⟩)]
    exact hc0

theorem infoMono_patch {incs : List (Nat × List Nat)} {cs cs' : List (Nat × Criterion)}
    (h : patchCriteria incs cs = some cs') : InfoMono cs cs' := by
  intro n c hc
  obtain ⟨_, h2, _⟩ := patchCriteria_spec incs cs cs' h
  obtain ⟨c', hc', hs⟩ := h2 n c hc
  exact ⟨c', hc', fun x hx => by rw [hs.1]; exact hx⟩

/-- under U4 a successful merge records exactly the pair (requirement, parent) -/
theorem merge_has {S : State} (inv : Inv U root S) (hu4 : u4 U = true) {d : Req} {par : Ver} {c : Criterion}
    (hv : Vis U d par) (h : mergeIntoCriterion U root S d par = .ok c) : (d, par) ∈ c.info := by
  rcases merge_ok h with ⟨h1, r', hr', _, _⟩ | ⟨h1, _⟩
  · rw [h1]
    rcases getD_cases S d.pkg with ⟨h2, _⟩ | ⟨c0, _, h2, h3⟩
    · rw [h2] at hr'; simp [Criterion.empty] at hr'
    · rw [h2] at hr' ⊢
      obtain ⟨hpk, ex', deps', hdeps', hr'd⟩ := inv.info _ h3 _ hr'
      obtain ⟨ex, deps, hdeps, hdd⟩ := hv
      obtain ⟨reqs', hreqs', hiff', _⟩ := getDependencies_spec hdeps'
      obtain ⟨reqs, hreqs, hiff, _⟩ := getDependencies_spec hdeps
      rw [hreqs] at hreqs'; cases hreqs'
      have nd := u4_reqs hu4 hreqs
      have : r' = d := nodup_pkg_eq nd ((hiff' r').mp hr'd).1 ((hiff d).mp hdd).1 hpk
      rw [← this]; exact hr'
  · rw [h1]; simp

theorem inv2_step (hu4 : u4 U = true) (direct : List Req) (hdirect : getDependencies U root [] = .ok direct) :
    StepInv U root direct (fun S => Inv U root S ∧ CritInv U S) where
  init := ⟨(inv_step direct hdirect).init, by intro q hq; simp at hq⟩
  merge0 := by
    intro S r c ⟨inv, ci⟩ hr hm
    refine ⟨(inv_step direct hdirect).merge0 S r c inv hr hm, ?_⟩
    intro q hq deps hdeps d hd
    exact hasInfo_mono (infoMono_putCrit_merge hm) (ci q hq deps hdeps d hd)
  pin := by
    intro S name cand upd ⟨inv, ci⟩ hcand hupd
    refine ⟨(inv_step direct hdirect).pin S name cand upd inv hcand hupd, ?_⟩
    obtain ⟨deps, hdeps, hent, hkeys⟩ := upd_entries hupd
    have hmono : InfoMono S.criteria (putAll S.criteria upd) :=
      infoMono_putAll_upd (cand := ⟨name, cand⟩) (fun e he => by
        obtain ⟨d, _, h1, h2⟩ := hent e he
        exact ⟨d, h1, h2⟩)
    intro q hq deps' hdeps' d hd
    rcases mem_setPin hq with h3 | h3
    · subst h3
      simp only at hdeps' ⊢
      rw [hdeps] at hdeps'; cases hdeps'
      obtain ⟨c0, hc0⟩ := hkeys d hd
      obtain ⟨c, hc, hget⟩ := getCrit_putAll_of_key (cs := S.criteria) hc0
      refine ⟨c, hget, ?_⟩
      obtain ⟨d', hd', h1, h2⟩ := hent _ hc
      obtain ⟨reqs, hreqs, _, hnd⟩ := getDependencies_spec hdeps
      have : d' = d := nodup_pkg_eq (hnd (u4_reqs hu4 hreqs)) hd' hd h1.symm
      subst this
      exact merge_has inv hu4 ⟨_, deps, hdeps, hd'⟩ h2
    · exact hasInfo_mono hmono (ci q h3.1 deps' hdeps' d hd)
  patch := by
    intro prev incs cs ⟨inv, ci⟩ hp
    refine ⟨(inv_step direct hdirect).patch prev incs cs inv hp, ?_⟩
    intro q hq deps hdeps d hd
    exact hasInfo_mono (infoMono_patch hp) (ci q hq deps hdeps d hd)

/-- after the initial merges every direct dependency is recorded with parent root -/
theorem init_direct (hu4 : u4 U = true) (direct : List Req) (hdirect : getDependencies U root [] = .ok direct) :
    ∀ (rs : List Req) (S S' : State), (∀ r ∈ rs, r ∈ direct) → Inv U root S →
      initCriteria U root rs S = .ok S' → ∀ d, (HasInfo S d root ∨ d ∈ rs) → HasInfo S' d root := by
  intro rs
  induction rs with
  | nil =>
    intro S S' _ _ h d hd
    simp [initCriteria] at h; subst h
    rcases hd with hd | hd
    · exact hd
    · simp at hd
  | cons r rs ih =>
    intro S S' hsub inv h d hd
    simp only [initCriteria] at h
    split at h <;> try (simp at h)
    rename_i c hm
    have hr : r ∈ direct := hsub r List.mem_cons_self
    have inv1 := (inv_step direct hdirect).merge0 S r c inv hr hm
    refine ih _ _ (fun x hx => hsub x (List.mem_cons_of_mem _ hx)) inv1 h d ?_
    rcases hd with hd | hd
    · exact Or.inl (hasInfo_mono (infoMono_putCrit_merge hm) hd)
    · rcases List.mem_cons.mp hd with e | e
      · subst e
        left
        refine ⟨c, by rw [getCrit_putCrit]; simp, ?_⟩
        exact merge_has inv hu4 ⟨[], direct, hdirect, hr⟩ hm
      · exact Or.inr e

/-- all three invariants hold in the state `resolve` returns -/
theorem resolve_inv3 (hu4 : u4 U = true) {direct : List Req} (hdirect : getDependencies U root [] = .ok direct)
    {n : Nat} {S : State} (h : resolve U root direct n = .done S) :
    Inv U root S ∧ CritInv U S ∧ DirectInv root direct S := by
  have step := inv2_step hu4 direct hdirect
  have ri : RoundInv U root (fun S => (Inv U root S ∧ CritInv U S) ∧ DirectInv root direct S) := {
    pin := by
      intro S name cand upd ⟨h12, hd⟩ hcand hupd
      refine ⟨step.pin S name cand upd h12 hcand hupd, ?_⟩
      obtain ⟨deps, _, hent, _⟩ := upd_entries hupd
      have hmono : InfoMono S.criteria (putAll S.criteria upd) :=
        infoMono_putAll_upd (cand := ⟨name, cand⟩) (fun e he => by
          obtain ⟨d, _, h1, h2⟩ := hent e he
          exact ⟨d, h1, h2⟩)
      intro d hdd
      exact hasInfo_mono hmono (hd d hdd)
    patch := by
      intro prev incs cs ⟨h12, hd⟩ hp
      refine ⟨step.patch prev incs cs h12 hp, ?_⟩
      intro d hdd
      exact hasInfo_mono (infoMono_patch hp) (hd d hdd) }
  have := resolve_inv_from_init (direct := direct) ri (fun S0 h0 => by
    have h12 := initCriteria_inv step direct _ _ (fun _ hr => hr) step.init h0
    refine ⟨h12, ?_⟩
    intro d hd
    exact init_direct hu4 direct hdirect direct _ _ (fun _ hr => hr) (inv_step direct hdirect).init h0 d (Or.inr hd)) h
  exact ⟨this.1.1, this.1.2, this.2⟩

end DepsDev.Resolve.Pypi
