import DepsDev.Proofs.C10Mvn1

/-!
# C10 — Maven, part 2: the shape of `mavenSplit`'s result

`mavenSplit_wf`: on lower-case ASCII text not beginning with a separator, `mavenSplit` returns a
well-formed element list (`WFL`: first element without separator, the others with `.`/`-`, every
`str` a non-empty uniform block; `a`/`b`/`m` expansions included), all `int` fields 0.
-/
namespace DepsDev.Proofs.C10
open DepsDev DepsDev.Semver Digits Gen.SemverTables

/-! ## Maven: `mavenSplit` on arbitrary lower-case ASCII text -/

/-- `a`/`b`/`m` before a number become `alpha`/`beta`/`milestone`. -/
def expandStr (s : Bytes) : Bytes :=
  if s == [97] then "alpha".toUTF8.toList
  else if s == [98] then "beta".toUTF8.toList
  else if s == [109] then "milestone".toUTF8.toList else s

def expandLast (acc : List MavenElem) : List MavenElem :=
  match acc.getLast? with
  | some e => acc.dropLast ++ [{ e with str := expandStr e.str }]
  | none => acc

theorem split_go_succ (s : Bytes) (acc : List MavenElem) (first : Bool) (pc : Int) (k : Nat) :
    mavenSplit.go s acc first pc (k + 1) =
      if s.isEmpty then acc else
      let str0 := (nextMavenElem s).1
      let rest := (nextMavenElem s).2
      let cat0 := (mavenCategory str0).1
      if cat0 == versionSeparator then
        let str := if (str0.drop 1).isEmpty then [48] else str0.drop 1
        mavenSplit.go rest (acc ++ [{ sep := str0.headD 0, str := str, int := 0 }]) false (mavenCategory str).1 k
      else if !first then
        let sep : UInt8 := if cat0 == versionNumeric && pc == versionNumeric then 46 else 45
        let acc' := if cat0 == versionNumeric && pc == versionQualifier then expandLast acc else acc
        mavenSplit.go rest (acc' ++ [{ sep := sep, str := str0, int := 0 }]) false cat0 k
      else mavenSplit.go rest (acc ++ [{ sep := 0, str := str0, int := 0 }]) false cat0 k := rfl


/-- Lower-case ASCII text. -/
def LowAscii (s : Bytes) : Prop := ∀ c ∈ s, c < 0x80 ∧ ¬ (65 ≤ c ∧ c ≤ 90)

/-- A uniform block of numeric or of qualifier bytes. -/
def Uniform (run : Bytes) : Prop :=
  (∀ x ∈ run, mcls x = versionNumeric) ∨ (∀ x ∈ run, mcls x = versionQualifier)

theorem uniform_of_cls (k : Int) (hk : k ≠ versionSeparator) (run : Bytes) (h : ∀ x ∈ run, mcls x = k) (hne : run ≠ []) :
    Uniform run := by
  cases run with
  | nil => exact absurd rfl hne
  | cons d ds =>
    have hd := h d (by simp)
    rcases mcls_cases d with h1 | h1 | h1
    · left; intro x hx; rw [h x hx, ← hd, h1]
    · exact absurd (hd ▸ h1) hk
    · right; intro x hx; rw [h x hx, ← hd, h1]

theorem nextSpec_sep_shape (c : UInt8) (t : Bytes) (hc : mcls c = versionSeparator) :
    ∃ run, (nextSpec (c :: t)).1 = c :: run ∧ c :: t = c :: run ++ (nextSpec (c :: t)).2 ∧ (run = [] ∨ Uniform run) := by
  unfold nextSpec
  simp only [hc, ↓reduceIte]
  cases t with
  | nil => exact ⟨[], rfl, rfl, Or.inl rfl⟩
  | cons d r =>
    simp only
    by_cases hd : mcls d = versionSeparator
    · simp only [hd, ↓reduceIte]
      exact ⟨[], rfl, rfl, Or.inl rfl⟩
    · simp only [hd, ↓reduceIte]
      refine ⟨(d :: r).takeWhile (fun x => mcls x == mcls d), rfl, ?_, Or.inr ?_⟩
      · simp only [List.cons_append]
        rw [List.takeWhile_append_dropWhile]
      · apply uniform_of_cls (mcls d) hd
        · intro x hx
          have := takeWhile_all _ _ x hx
          simpa using this
        · simp [List.takeWhile]

theorem nextSpec_run_shape (c : UInt8) (t : Bytes) (hc : mcls c ≠ versionSeparator) :
    (nextSpec (c :: t)).1 ≠ [] ∧ c :: t = (nextSpec (c :: t)).1 ++ (nextSpec (c :: t)).2 ∧ Uniform (nextSpec (c :: t)).1 ∧
    (∀ x ∈ (nextSpec (c :: t)).1, mcls x = mcls c) := by
  unfold nextSpec
  simp only [hc, ↓reduceIte]
  have hall : ∀ x ∈ (c :: t).takeWhile (fun x => mcls x == mcls c), mcls x = mcls c := by
    intro x hx
    have := takeWhile_all _ _ x hx
    simpa using this
  have hne : (c :: t).takeWhile (fun x => mcls x == mcls c) ≠ [] := by simp [List.takeWhile]
  exact ⟨hne, (List.takeWhile_append_dropWhile).symm, uniform_of_cls (mcls c) hc _ hall hne, hall⟩


theorem mem_of_mem_dropLast' {α} {l : List α} {a : α} (h : a ∈ l.dropLast) : a ∈ l :=
  (List.dropLast_sublist l).subset h

/-- A well-formed element list: the first element without separator, the others with `.` or `-`. -/
def WFL : List MavenElem → Prop
  | [] => True
  | e0 :: es => e0.sep = 0 ∧ WFE e0 ∧ TailOkM es

def Int0 (l : List MavenElem) : Prop := ∀ e ∈ l, e.int = 0

theorem wfl_snoc (acc : List MavenElem) (e : MavenElem) (h : WFL acc) (hne : acc ≠ [])
    (he : (e.sep = 46 ∨ e.sep = 45) ∧ WFE e) : WFL (acc ++ [e]) := by
  cases acc with
  | nil => exact absurd rfl hne
  | cons e0 es =>
    obtain ⟨h1, h2, h3⟩ := h
    refine ⟨h1, h2, ?_⟩
    intro x hx
    have hx' : x ∈ es ++ [e] := hx
    rcases List.mem_append.mp hx' with hx | hx
    · exact h3 x hx
    · rw [List.mem_singleton.mp hx]; exact he

theorem alpha_eq : "alpha".toUTF8.toList = [97, 108, 112, 104, 97] := by rw [toList_eq]; rfl
theorem beta_eq : "beta".toUTF8.toList = [98, 101, 116, 97] := by rw [toList_eq]; rfl
theorem milestone_eq : "milestone".toUTF8.toList = [109, 105, 108, 101, 115, 116, 111, 110, 101] := by rw [toList_eq]; rfl

theorem wfe_of_bytes (e : MavenElem) (l : Bytes) (hl : l ≠ [])
    (h : ∀ c ∈ l, (c < 0x80 ∧ ¬ (65 ≤ c ∧ c ≤ 90)) ∧ mcls c = versionQualifier) : WFE { e with str := l } :=
  ⟨hl, fun c hc => (h c hc).1, Or.inr (fun c hc => (h c hc).2)⟩

theorem wfe_expand (e : MavenElem) (h : WFE e) : WFE { e with str := expandStr e.str } := by
  unfold expandStr
  split
  · rw [alpha_eq]; exact wfe_of_bytes e _ (by simp) (by decide)
  · split
    · rw [beta_eq]; exact wfe_of_bytes e _ (by simp) (by decide)
    · split
      · rw [milestone_eq]; exact wfe_of_bytes e _ (by simp) (by decide)
      · exact ⟨h.ne, h.ascii, h.cls⟩

theorem wfl_expandLast (acc : List MavenElem) (h : WFL acc) (hi : Int0 acc) :
    WFL (expandLast acc) ∧ Int0 (expandLast acc) ∧ (acc ≠ [] → expandLast acc ≠ []) := by
  unfold expandLast
  cases hl : acc.getLast? with
  | none => exact ⟨h, hi, id⟩
  | some e =>
    simp only
    have hmem : e ∈ acc := List.mem_of_getLast? hl
    have hacc : acc = acc.dropLast ++ [e] := by
      have hne : acc ≠ [] := by intro e'; subst e'; simp at hl
      have := List.dropLast_concat_getLast hne
      rw [List.getLast?_eq_some_getLast hne] at hl
      injection hl with hl
      rw [hl] at this
      exact this.symm
    refine ⟨?_, ?_, by simp⟩
    · cases hd : acc.dropLast with
      | nil =>
        rw [hd] at hacc
        simp only [List.nil_append] at hacc ⊢
        rw [hacc] at h
        obtain ⟨h1, h2, _⟩ := h
        exact ⟨h1, wfe_expand e h2, by intro x hx; cases hx⟩
      | cons e0 es =>
        rw [hd] at hacc
        rw [hacc] at h
        obtain ⟨h1, h2, h3⟩ := h
        refine ⟨h1, h2, ?_⟩
        intro x hx
        have hx' : x ∈ es ++ [{ e with str := expandStr e.str }] := hx
        rcases List.mem_append.mp hx' with hx | hx
        · exact h3 x (List.mem_append.mpr (Or.inl hx))
        · rw [List.mem_singleton.mp hx]
          have := h3 e (List.mem_append.mpr (Or.inr (List.mem_singleton.mpr rfl)))
          exact ⟨this.1, wfe_expand e this.2⟩
    · intro x hx
      simp only [List.mem_append, List.mem_singleton] at hx
      rcases hx with hx | rfl
      · exact hi x (mem_of_mem_dropLast' hx)
      · exact hi e hmem


theorem lowAscii_ascii {s : Bytes} (h : LowAscii s) : ∀ c ∈ s, c < 0x80 := fun c hc => (h c hc).1

theorem wfe_mk (sep : UInt8) (run : Bytes) (hne : run ≠ []) (hl : LowAscii run) (hu : Uniform run) :
    WFE { sep := sep, str := run, int := 0 } := ⟨hne, hl, hu⟩

theorem wfe_zero (sep : UInt8) : WFE { sep := sep, str := [48], int := 0 } :=
  ⟨by simp, by intro c hc; simp at hc; subst hc; decide, Or.inl (by intro c hc; simp at hc; subst hc; decide)⟩

theorem split_go_wf (fuel : Nat) : ∀ (s : Bytes) (acc : List MavenElem) (first : Bool) (pc : Int),
    LowAscii s → WFL acc → Int0 acc →
    (first = true → acc = [] ∧ (s = [] ∨ ∃ c t, s = c :: t ∧ mcls c ≠ versionSeparator)) →
    (first = false → acc ≠ []) →
    WFL (mavenSplit.go s acc first pc fuel) ∧ Int0 (mavenSplit.go s acc first pc fuel) := by
  induction fuel with
  | zero => intro s acc first pc _ hw hi _ _; exact ⟨hw, hi⟩
  | succ k ih =>
    intro s acc first pc hs hw hi hfirst hnf
    rw [split_go_succ]
    cases s with
    | nil => simp only [List.isEmpty_nil, ↓reduceIte]; exact ⟨hw, hi⟩
    | cons c t =>
      simp only [List.isEmpty_cons, Bool.false_eq_true, ↓reduceIte]
      rw [nextMavenElem_eq _ (lowAscii_ascii hs)]
      by_cases hc : mcls c = versionSeparator
      · -- explicit separator: not the first element
        have hnotfirst : first = false := by
          cases first with
          | false => rfl
          | true =>
            obtain ⟨_, h2⟩ := hfirst rfl
            rcases h2 with h2 | ⟨c', t', h2, h3⟩
            · cases h2
            · injection h2 with e1 _; subst e1; exact absurd hc h3
        obtain ⟨run, h1, h2, h3⟩ := nextSpec_sep_shape c t hc
        have hcat : ((mavenCategory (c :: run)).1 == versionSeparator) = true := by
          rw [mavenCategory_ascii c run (hs c (by simp)).1, hc]; simp
        simp only [h1, hcat, ↓reduceIte, List.headD_cons, List.drop_one, List.tail_cons]
        have hrestlow : LowAscii (nextSpec (c :: t)).2 := by
          intro x hx
          apply hs x
          rw [h2]; simp [hx]
        have hrunlow : LowAscii run := by
          intro x hx
          apply hs x
          rw [h2]; simp [hx]
        have hsep : c = 46 ∨ c = 45 := by
          unfold mcls at hc
          split at hc
          · exact absurd hc (by decide)
          · split at hc
            · rename_i h; simpa using h
            · exact absurd hc (by decide)
        have hnew : WFE { sep := c, str := if run.isEmpty then [48] else run, int := 0 } := by
          split
          · exact wfe_zero c
          · rename_i hne
            rcases h3 with h3 | h3
            · rw [h3] at hne; simp at hne
            · exact wfe_mk c run (by simpa using hne) hrunlow h3
        apply ih _ _ false _ hrestlow (wfl_snoc acc _ hw (hnf hnotfirst) ⟨hsep, hnew⟩)
        · intro e he
          simp only [List.mem_append, List.mem_singleton] at he
          rcases he with he | rfl
          · exact hi e he
          · rfl
        · intro h; cases h
        · intro _; simp
      · obtain ⟨g1, g2, g3, g4⟩ := nextSpec_run_shape c t hc
        have hstrlow : LowAscii (nextSpec (c :: t)).1 := by
          intro x hx; apply hs x; rw [g2]; simp [hx]
        have hrestlow : LowAscii (nextSpec (c :: t)).2 := by
          intro x hx; apply hs x; rw [g2]; simp [hx]
        have hcat : ((mavenCategory (nextSpec (c :: t)).1).1 == versionSeparator) = false := by
          cases hstr : (nextSpec (c :: t)).1 with
          | nil => exact absurd hstr g1
          | cons d ds =>
            have hd : d ∈ (nextSpec (c :: t)).1 := by rw [hstr]; simp
            rw [mavenCategory_ascii d ds (hstrlow d hd).1, g4 d hd]
            simpa using hc
        simp only [hcat, Bool.false_eq_true, ↓reduceIte]
        cases first with
        | true =>
          obtain ⟨hacc, _⟩ := hfirst rfl
          subst hacc
          simp only [Bool.not_true, Bool.false_eq_true, ↓reduceIte, List.nil_append]
          apply ih _ _ false _ hrestlow
          · exact ⟨rfl, wfe_mk 0 _ g1 hstrlow g3, by intro x hx; cases hx⟩
          · intro e he; simp at he; subst he; rfl
          · intro h; cases h
          · intro _; simp
        | false =>
          simp only [Bool.not_false, ↓reduceIte]
          have hne := hnf rfl
          have hacc' : WFL (if ((mavenCategory (nextSpec (c :: t)).1).1 == versionNumeric && pc == versionQualifier) = true
              then expandLast acc else acc) ∧
              Int0 (if ((mavenCategory (nextSpec (c :: t)).1).1 == versionNumeric && pc == versionQualifier) = true
              then expandLast acc else acc) ∧
              (if ((mavenCategory (nextSpec (c :: t)).1).1 == versionNumeric && pc == versionQualifier) = true
              then expandLast acc else acc) ≠ [] := by
            split
            · obtain ⟨a1, a2, a3⟩ := wfl_expandLast acc hw hi
              exact ⟨a1, a2, a3 hne⟩
            · exact ⟨hw, hi, hne⟩
          generalize (if ((mavenCategory (nextSpec (c :: t)).1).1 == versionNumeric && pc == versionQualifier) = true
              then expandLast acc else acc) = acc' at hacc'
          have hsep : ∀ b : Bool, ((if b = true then (46 : UInt8) else 45) = 46 ∨ (if b = true then (46 : UInt8) else 45) = 45) := by
            intro b; cases b <;> simp
          apply ih _ _ false _ hrestlow
            (wfl_snoc acc' _ hacc'.1 hacc'.2.2 ⟨hsep _, wfe_mk _ _ g1 hstrlow g3⟩)
          · intro e he
            simp only [List.mem_append, List.mem_singleton] at he
            rcases he with he | rfl
            · exact hacc'.2.1 e he
            · rfl
          · intro h; cases h
          · intro _; simp

/-- **Maven, the shape of `mavenSplit`'s result** on lower-case ASCII text that does not begin with
a separator. -/
theorem mavenSplit_wf (s : Bytes) (hs : LowAscii s) (hhead : s = [] ∨ ∃ c t, s = c :: t ∧ mcls c ≠ versionSeparator) :
    WFL (mavenSplit s) ∧ Int0 (mavenSplit s) := by
  unfold mavenSplit
  exact split_go_wf _ s [] true versionUnknown hs trivial (by intro e he; cases he) (fun _ => ⟨rfl, hhead⟩)
    (by intro h; cases h)

end DepsDev.Proofs.C10
