import DepsDev.Proofs.C03L3Npm

/-!
# C03 layer L3: interval membership of a prerelease candidate = node's comparator tests

Layer L1 for prerelease candidates, in the interval sense (`contains v true`, no admission rule):
for every operator, every operand shape and every prerelease candidate outside the classes
`pre000`, `gt-succ-pre`, `lt-partial-pre`, the candidate lies between the bounds of the comparator's
span iff every desugared comparator of node-semver accepts it (`Prim.test`; node's admission rule is
separate). With `L3Npm` (which includes both admission rules) this separates "in the interval"
from "admitted", which is what AND lists need.
-/
namespace DepsDev.Proofs.C03

open DepsDev DepsDev.Semver DepsDev.Ref

set_option linter.unusedSimpArgs false
set_option linter.unusedVariables false

/-- Inclusive-mode membership in the span `newSpan` builds, any candidate. -/
theorem interval_incl {sys : System} (hg : IsGen sys) {min max x : Version} (mo xo : Bool)
    (hmin : G3 sys min) (hmax : G3 sys max) (hx : G3 sys x) :
    (newSpan min mo max xo).bind (fun s => s.contains x true) =
      if cmp3 (nmin min) (nmax max) = 0 then .ok (!(mo || xo) && decide (cmp3 x (nmin min) = 0))
      else if cmp3 (nmin min) (nmax max) < 0 then
        .ok (decide (¬ ((cmp3 x (nmin min) = 0 ∧ mo = true) ∨ cmp3 x (nmin min) < 0) ∧
                     ¬ ((cmp3 (nmax max) x = 0 ∧ xo = true) ∨ cmp3 (nmax max) x < 0)))
      else .err := by
  have ga := nmin_g3 hg hmin
  have gb := nmax_g3 hmax
  rw [newSpan_g3 hg mo xo hmin hmax]
  by_cases hc0 : cmp3 (nmin min) (nmax max) = 0
  · simp only [hc0, ↓reduceIte]
    by_cases ho : (mo || xo) = true
    · simp [ho, Outcome.bind, Span.contains, Span.emptySpan]
    · have ho' : (mo || xo) = false := by simpa using ho
      simp only [ho', Bool.false_eq_true, ↓reduceIte, Outcome.bind, Span.contains, compareOpt, vcompare_g3 ga hx, bind,
        Bool.not_false, Bool.true_and]
      congr 1
      rw [cmp3_swap hx ga, Bool.eq_iff_iff]
      simp only [beq_iff_eq, decide_eq_true_eq]
      omega
  · by_cases hlt : cmp3 (nmin min) (nmax max) < 0
    · simp only [hc0, hlt, ↓reduceIte]
      simp only [Outcome.bind, bind, Span.contains, vcompare_g3 hx ga, vcompare_g3 gb hx, ↓reduceIte]
      by_cases h1 : (cmp3 x (nmin min) = 0 ∧ mo = true) ∨ cmp3 x (nmin min) < 0
      · simp [h1]
      · by_cases h2 : (cmp3 (nmax max) x = 0 ∧ xo = true) ∨ cmp3 (nmax max) x < 0
        · simp [h1, h2]
        · simp [h1, h2]
    · simp [hc0, hlt, Outcome.bind]

/-- Reference side: the conjunction of the desugared comparators' tests. -/
macro "l1p_ref" : tactic => `(tactic|
  simp [cmp3, t3, Version.getNum, preInt, thenInt_lt, thenInt_gt, thenInt_le, thenInt_ge, thenInt_eq0,
    lex3_lt, lex3_gt, lex3_le, lex3_ge, lex3_eq0, comparePre_self,
    desugarComparator, Partial.isX, Partial.num, Prim.test, SemVerAst.cmp, ge, lt0, nullSet, zeroPre,
    then_lt, then_eq, then_gt, ne_gt, ne_lt, Nat.compare_eq_lt, Nat.compare_eq_eq, Nat.compare_eq_gt,
    cmpPre, Gen.SemverTables.minPre, Outcome.bind, Span.contains, Span.emptySpan, *])

macro "l1p_iv" : tactic => `(tactic|
  (rw [interval_incl (sys := System.npm) (by simp [IsGen]) _ _ (g3_mk _ _ rfl rfl (by simp)) (g3_mk _ _ rfl rfl (by simp))
        (g3_mk _ _ rfl rfl (by simp))]
   simp [nmin, nmax, Version.major, Version.getNum, Version.setTail, Version.atLeast3, range3, wild_val, inf_val,
     List.findIdx?_cons, minVersion, natCast_beq_wild, natCast_ne_wild, natCast_succ_beq_wild, natCast_succ_ne_wild, *]
   first
   | (refine ite3_vec ?_ ?_ ?_
      · l3_side
      · l3_side
      · rw [Bool.eq_iff_iff]
        l1p_ref <;> l3_arith)
   | (refine ite3_unit ?_ ?_
      · l3_side
      · rw [Bool.eq_iff_iff]
        l1p_ref <;> l3_arith)))

macro "l1p_dir" : tactic => `(tactic| (l1p_ref <;> l3_arith))

macro "l1p_npm0" : tactic => `(tactic| first
  | l1p_iv
  | (split <;> first | l1p_iv | l1p_dir)
  | l1p_dir)

/-- The statement for one operator, one operand and one prerelease candidate. -/
def L1PBody (op : Op) (nums : List XR) (pre : List Ident) (x y z : Nat) (i : Ident) (l : List Ident) : Prop :=
  x < B∞ → y < B∞ → z < B∞ →
  (pre ≠ [] → PreAgree .npm (i :: l) pre) →
  NpmRange.pre000 ⟨x, y, z, i :: l⟩ = false →
  NpmRange.gtSuccPre [.comps [⟨op, ⟨nums, pre⟩⟩]] ⟨x, y, z, i :: l⟩ = false →
  NpmRange.ltPartialPre [.comps [⟨op, ⟨nums, pre⟩⟩]] ⟨x, y, z, i :: l⟩ = false →
    (opVersionToSpan (tokOf op) (embedPartial .npm ⟨nums, pre⟩)).bind
        (fun s => s.contains (embedVer .npm ⟨x, y, z, i :: l⟩) true)
      = .ok ((desugarComparator ⟨op, ⟨nums, pre⟩⟩).all (·.test ⟨x, y, z, i :: l⟩))

/-- The statement for one operator and one operand. -/
def L1PAt (op : Op) (nums : List XR) (pre : List Ident) : Prop :=
  ∀ (x y z : Nat) (i : Ident) (l : List Ident), L1PBody op nums pre x y z i l

def L1PFull (op : Op) : Prop :=
  ∀ (a b c : Nat), a < B∞' → b < B∞' → c < B∞' → L1PAt op [.n a, .n b, .n c] []

def L1PPre (op : Op) : Prop :=
  ∀ (a b c : Nat), a < B∞' → b < B∞' → c < B∞' → ∀ (j : Ident) (l' : List Ident),
    (op = .le → ¬ (a = 0 ∧ b = 0 ∧ c = 0)) → L1PAt op [.n a, .n b, .n c] (j :: l')

def L1PPart (op : Op) : Prop :=
  ∀ (nums : List XR), TShape nums → ¬ (nums.length = 3 ∧ XR.x ∉ nums) → L1PAt op nums []

def L1PNpm (op : Op) : Prop :=
  ∀ (nums : List XR), TShape nums → ∀ (pre : List Ident), (pre ≠ [] → nums.length = 3 ∧ XR.x ∉ nums) →
  (op = .le → pre ≠ [] → nums ≠ [.n 0, .n 0, .n 0]) → L1PAt op nums pre

theorem l1p_assemble (op : Op) (h1 : L1PFull op) (h2 : L1PPre op) (h3 : L1PPart op) : L1PNpm op := by
  intro nums hs pre hpre hle
  by_cases hfull : nums.length = 3 ∧ XR.x ∉ nums
  · cases hs with
    | n3 a b c ha hb hc =>
      cases pre with
      | nil => exact h1 a b c ha hb hc
      | cons j l' =>
        refine h2 a b c ha hb hc j l' ?_
        intro hop ⟨e1, e2, e3⟩
        subst e1 e2 e3
        exact hle hop (by simp) rfl
    | _ => simp at hfull
  · have hp : pre = [] := pre_ne_nil_of hpre hfull
    subst hp
    exact h3 nums hs hfull

macro "l1p_full" : tactic => `(tactic| (
  intro a b c ha hb hc x y z i l hx hy hz hpa h000 hgs hlp
  have hz0 := cmpIdents_zero_ne_lt i l
  try simp [NpmRange.pre000] at h000
  have ia := natCast_beq_inf a ha; have ja := value_inc_nat a ha; have ka := natCast_succ_ne_inf a ha; have ib := natCast_beq_inf b hb; have jb := value_inc_nat b hb; have kb := natCast_succ_ne_inf b hb; have ic := natCast_beq_inf c hc; have jc := value_inc_nat c hc; have kc := natCast_succ_ne_inf c hc
  try simp [NpmRange.gtSuccPre, NpmRange.allComps] at hgs
  try simp [NpmRange.ltPartialPre, NpmRange.allComps, Partial.isPartial, Partial.isX, Partial.num] at hlp
  by_cases h0 : a = 0 <;> by_cases h1 : b = 0 <;> by_cases h2 : c = 0 <;> l1_eval <;> l1p_npm0))

/-- Full operand with a prerelease tag, for one outcome `o` of the comparison of the candidate's
identifiers with the operand's (the three outcomes are proved as separate theorems). -/
def L1PPreO (op : Op) (o : Ordering) : Prop :=
  ∀ (a b c : Nat), a < B∞' → b < B∞' → c < B∞' → ∀ (j : Ident) (l' : List Ident),
    (op = .le → ¬ (a = 0 ∧ b = 0 ∧ c = 0)) →
    ∀ (x y z : Nat) (i : Ident) (l : List Ident), cmpIdents (i :: l) (j :: l') = o →
      L1PBody op [.n a, .n b, .n c] (j :: l') x y z i l

theorem l1p_pre_assemble (op : Op) (h1 : L1PPreO op .lt) (h2 : L1PPreO op .eq) (h3 : L1PPreO op .gt) : L1PPre op := by
  intro a b c ha hb hc j l' hle x y z i l
  cases ho : cmpIdents (i :: l) (j :: l') with
  | lt => exact h1 a b c ha hb hc j l' hle x y z i l ho
  | eq => exact h2 a b c ha hb hc j l' hle x y z i l ho
  | gt => exact h3 a b c ha hb hc j l' hle x y z i l ho

/-- `PreAgree` fixes the library's result once the outcome of the reference comparison is known. -/
macro "l1p_pre" : tactic => `(tactic| (
  intro a b c ha hb hc j l' hle x y z i l e hx hy hz hpa h000 hgs hlp
  have hz0 := cmpIdents_zero_ne_lt i l
  try simp [NpmRange.pre000] at h000
  have ia := natCast_beq_inf a ha; have ja := value_inc_nat a ha; have ka := natCast_succ_ne_inf a ha; have ib := natCast_beq_inf b hb; have jb := value_inc_nat b hb; have kb := natCast_succ_ne_inf b hb; have ic := natCast_beq_inf c hc; have jc := value_inc_nat c hc; have kc := natCast_succ_ne_inf c hc
  try simp [NpmRange.gtSuccPre, NpmRange.allComps] at hgs
  try simp [NpmRange.ltPartialPre, NpmRange.allComps, Partial.isPartial, Partial.isX, Partial.num] at hlp
  have hk := hpa (by simp)
  simp only [PreAgree, embedPre, List.map_cons, e, ordToInt_lt, ordToInt_eq, ordToInt_gt] at hk
  have hks := comparePre_swap System.npm (embedIdent i :: List.map embedIdent l) (embedIdent j :: List.map embedIdent l')
  rw [hk] at hks
  by_cases h0 : a = 0 <;> by_cases h1 : b = 0 <;> by_cases h2 : c = 0 <;>
    first
    | (refine absurd ⟨?_, ?_, ?_⟩ (hle rfl) <;> assumption)
    | (l1_eval <;> l1p_npm0)))

macro "l1p_part" : tactic => `(tactic| (
  intro nums hs hnf x y z i l hx hy hz hpa h000 hgs hlp
  have hz0 := cmpIdents_zero_ne_lt i l
  try simp [NpmRange.pre000] at h000
  cases hs with
  | n3 a b c ha hb hc => exact absurd ⟨rfl, by simp⟩ hnf
  | nnx a b ha hb =>
    have ia := natCast_beq_inf a ha; have ja := value_inc_nat a ha; have ka := natCast_succ_ne_inf a ha; have ib := natCast_beq_inf b hb; have jb := value_inc_nat b hb; have kb := natCast_succ_ne_inf b hb
    try simp [NpmRange.gtSuccPre, NpmRange.allComps] at hgs
    try simp [NpmRange.ltPartialPre, NpmRange.allComps, Partial.isPartial, Partial.isX, Partial.num] at hlp
    by_cases h0 : a = 0 <;> by_cases h1 : b = 0 <;> l1_eval <;> l1p_npm0
  | n2 a b ha hb =>
    have ia := natCast_beq_inf a ha; have ja := value_inc_nat a ha; have ka := natCast_succ_ne_inf a ha; have ib := natCast_beq_inf b hb; have jb := value_inc_nat b hb; have kb := natCast_succ_ne_inf b hb
    try simp [NpmRange.gtSuccPre, NpmRange.allComps] at hgs
    try simp [NpmRange.ltPartialPre, NpmRange.allComps, Partial.isPartial, Partial.isX, Partial.num] at hlp
    by_cases h0 : a = 0 <;> by_cases h1 : b = 0 <;> l1_eval <;> l1p_npm0
  | nxx a ha =>
    have ia := natCast_beq_inf a ha; have ja := value_inc_nat a ha; have ka := natCast_succ_ne_inf a ha
    try simp [NpmRange.gtSuccPre, NpmRange.allComps] at hgs
    try simp [NpmRange.ltPartialPre, NpmRange.allComps, Partial.isPartial, Partial.isX, Partial.num] at hlp
    by_cases h0 : a = 0 <;> l1_eval <;> l1p_npm0
  | nx a ha =>
    have ia := natCast_beq_inf a ha; have ja := value_inc_nat a ha; have ka := natCast_succ_ne_inf a ha
    try simp [NpmRange.gtSuccPre, NpmRange.allComps] at hgs
    try simp [NpmRange.ltPartialPre, NpmRange.allComps, Partial.isPartial, Partial.isX, Partial.num] at hlp
    by_cases h0 : a = 0 <;> l1_eval <;> l1p_npm0
  | n1 a ha =>
    have ia := natCast_beq_inf a ha; have ja := value_inc_nat a ha; have ka := natCast_succ_ne_inf a ha
    try simp [NpmRange.gtSuccPre, NpmRange.allComps] at hgs
    try simp [NpmRange.ltPartialPre, NpmRange.allComps, Partial.isPartial, Partial.isX, Partial.num] at hlp
    by_cases h0 : a = 0 <;> l1_eval <;> l1p_npm0
  | x1 => l1_eval <;> l1p_npm0
  | xx => l1_eval <;> l1p_npm0
  | xxx => l1_eval <;> l1p_npm0))

end DepsDev.Proofs.C03
