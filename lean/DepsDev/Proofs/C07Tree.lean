import DepsDev.Proofs.C07Prov
import DepsDev.Proofs.C07Attr

/-! C07 tree invariant: the ghost log `created` is a spanning tree of the graph (every
node after the root has exactly one creating edge, from an older node), todo elements
correspond one-to-one to node ids, a node created through a war/ear/rar declaration
never gets an outgoing edge, and exclusion sets are inherited along creating edges.
Reachability, M8 and the path form of M6 are corollaries (Props/C07.lean). -/

namespace DepsDev.Resolve.Maven
open DepsDev.Gen

/-- Facts about one `created` entry `(id, creating edge, todo element)`. -/
structure CreatedOK (log : List (Nat × Bool × Todo)) (s : State) (x : Nat × Edge × Todo) : Prop where
  mem : x.2.1 ∈ s.g.edges
  dst : x.2.1.dst = x.1
  src : x.2.1.src < x.1
  bound : s.concreteVersions.lookup x.2.2.key = some x.1
  incl : x.2.2.includesDependencies = includesDependencies x.2.1.typ
  sel : x.2.1.typ.hasAttr C07Consts.keySelector = true
  excl : ∃ f pt, (x.2.1.src, f, pt) ∈ log ∧
    x.2.2.exclusions = mergeExcl (declaredExclusions x.2.1.typ) pt.exclusions

theorem CreatedOK.mono {log log' : List (Nat × Bool × Todo)} {s s' : State} {x : Nat × Edge × Todo}
    (h : CreatedOK log s x) (hlog : ∀ y ∈ log, y ∈ log') (hedges : ∀ e ∈ s.g.edges, e ∈ s'.g.edges)
    (hcv : ∀ k id, s.concreteVersions.lookup k = some id → s'.concreteVersions.lookup k = some id) :
    CreatedOK log' s' x := by
  obtain ⟨f, pt, h1, h2⟩ := h.excl
  exact ⟨hedges _ h.mem, h.dst, h.src, hcv _ _ h.bound, h.incl, h.sel, ⟨f, pt, hlog _ h1, h2⟩⟩

structure TreeI (root : VK) (reqs0 : ReqMap) (first : Bool) (s : State) : Prop where
  crt : ∀ x ∈ s.created, CreatedOK s.done s x
  sealed : ∀ x ∈ s.created, x.2.2.includesDependencies = true → ∀ e ∈ s.g.edges, e.src ≠ x.1
  cover : ∀ id, 0 < id → id < s.g.nodes.length → ∃ x ∈ s.created, x.1 = id
  inj : ∀ k1 k2 id, s.concreteVersions.lookup k1 = some id → s.concreteVersions.lookup k2 = some id → k1 = k2
  doneBound : ∀ x ∈ s.done, s.concreteVersions.lookup x.2.2.key = some x.1
  keysNodup : (s.done.map (·.2.2.key) ++ s.todo.map (·.key)).Nodup
  same : ∀ x ∈ s.created, ∀ t', (t' ∈ s.todo ∨ ∃ id f, (id, f, t') ∈ s.done) → t'.key = x.2.2.key → t' = x.2.2
  doneIds : (s.done.map (·.1)).Nodup
  rootExcl : ∀ x ∈ s.done, x.1 = 0 → x.2.2.exclusions = none
  popped : ∀ x ∈ s.created, x.2.2 ∈ s.todo ∨ ∃ f, (x.1, f, x.2.2) ∈ s.done
  rootDone : first = false → ∃ f t, (0, f, t) ∈ s.done
  init : first = true → s = initState root reqs0
  todoPos : first = false → ∀ t ∈ s.todo, ∃ id, s.concreteVersions.lookup t.key = some id ∧ id ≠ 0

structure TreeJ (first : Bool) (cur : Todo) (curId : Nat) (s : State) : Prop where
  crt : ∀ x ∈ s.created, CreatedOK (s.done ++ [(curId, first, cur)]) s x
  sealed : ∀ x ∈ s.created, x.2.2.includesDependencies = true → ∀ e ∈ s.g.edges, e.src ≠ x.1
  cover : ∀ id, 0 < id → id < s.g.nodes.length → ∃ x ∈ s.created, x.1 = id
  inj : ∀ k1 k2 id, s.concreteVersions.lookup k1 = some id → s.concreteVersions.lookup k2 = some id → k1 = k2
  doneBound : ∀ x ∈ s.done, s.concreteVersions.lookup x.2.2.key = some x.1
  keysNodup : (s.done.map (·.2.2.key) ++ cur.key :: s.todo.map (·.key)).Nodup
  same : ∀ x ∈ s.created, ∀ t', (t' ∈ s.todo ∨ t' = cur ∨ ∃ id f, (id, f, t') ∈ s.done) →
    t'.key = x.2.2.key → t' = x.2.2
  doneIds : (s.done.map (·.1)).Nodup
  rootExcl : ∀ x ∈ s.done, x.1 = 0 → x.2.2.exclusions = none
  popped : ∀ x ∈ s.created, x.2.2 ∈ s.todo ∨ (x.2.2 = cur ∧ x.1 = curId) ∨ ∃ f, (x.1, f, x.2.2) ∈ s.done
  rootDone : first = false → ∃ f t, (0, f, t) ∈ s.done
  curRoot : first = true → curId = 0
  curExcl : curId = 0 → cur.exclusions = none
  todoPos : ∀ t ∈ s.todo, ∃ id, s.concreteVersions.lookup t.key = some id ∧ id ≠ 0

/-- a declaration returned by `imports` carries the exclusions its type declares -/
theorem imports_exclusions {u : Universe} {vk : VK} {o : ImportsOpt} {imps : List Dep} {d : Dep}
    (h : imports u vk o = some imps) (hd : d ∈ imps) : d.exclusions = declaredExclusions d.typ := by
  obtain ⟨_, imp, _, _, _, rfl⟩ := mem_imports h hd
  rfl

theorem tree_pop {root : VK} {reqs0 : ReqMap} {first : Bool} {s : State} {cur : Todo} {rest : List Todo}
    (hx : TreeI root reqs0 first s) (htodo : s.todo = cur :: rest) :
    TreeJ first cur (curIdOf s cur) { s with todo := rest } := by
  refine ⟨?_, hx.sealed, hx.cover, hx.inj, hx.doneBound, ?_, ?_, hx.doneIds, hx.rootExcl, ?_, hx.rootDone, ?_, ?_, ?_⟩
  · intro x hxm
    exact (hx.crt x hxm).mono (fun y hy => by simp [hy]) (fun _ h => h) (fun _ _ h => h)
  · have := hx.keysNodup
    simpa [htodo] using this
  · intro x hxm t' ht' hk
    apply hx.same x hxm t' _ hk
    rcases ht' with ht' | rfl | ht'
    · exact .inl (by simp [htodo, ht'])
    · exact .inl (by simp [htodo])
    · exact .inr ht'
  · intro x hxm
    rcases hx.popped x hxm with hp | hp
    · rw [htodo] at hp
      simp only [List.mem_cons] at hp
      rcases hp with hp | hp
      · refine .inr (.inl ⟨hp, ?_⟩)
        have hb := (hx.crt x hxm).bound
        rw [hp] at hb
        exact (curIdOf_eq hb).symm
      · exact .inl hp
    · exact .inr (.inr hp)
  · intro hf
    have := hx.init hf
    subst this
    simp only [initState, List.cons.injEq] at htodo
    obtain ⟨rfl, _⟩ := htodo
    simp [curIdOf, initState, lookup_cons_eq]
  · cases first with
    | true =>
      have := hx.init rfl
      subst this
      simp only [initState, List.cons.injEq] at htodo
      obtain ⟨rfl, _⟩ := htodo
      intro _; rfl
    | false =>
      obtain ⟨id, hid, hne⟩ := hx.todoPos rfl cur (by simp [htodo])
      rw [curIdOf_eq hid]
      intro h; exact absurd h hne
  · cases first with
    | true =>
      have := hx.init rfl
      subst this
      simp only [initState, List.cons.injEq] at htodo
      obtain ⟨_, rfl⟩ := htodo
      intro t ht; cases ht
    | false =>
      intro t ht
      exact hx.todoPos rfl t (by simp [htodo, ht])

theorem tree_fin {root : VK} {reqs0 : ReqMap} {first : Bool} {s : State} {cur : Todo} {curId : Nat}
    (hwj : WFJ root cur curId s) (hy : TreeJ first cur curId s) :
    TreeI root reqs0 false { s with done := s.done ++ [(curId, first, cur)] } := by
  have hkn := hy.keysNodup
  refine ⟨?_, hy.sealed, hy.cover, hy.inj, ?_, ?_, ?_, ?_, ?_, ?_, ?_, by simp, fun _ => hy.todoPos⟩
  · intro x hxm
    exact (hy.crt x hxm).mono (fun _ h => h) (fun _ h => h) (fun _ _ h => h)
  · intro x hxm
    simp only [List.mem_append, List.mem_singleton] at hxm
    rcases hxm with hxm | rfl
    · exact hy.doneBound x hxm
    · exact hwj.2
  · simpa using hkn
  · intro x hxm t' ht' hk
    apply hy.same x hxm t' _ hk
    rcases ht' with ht' | ⟨id, f, ht'⟩
    · exact .inl ht'
    · simp only [List.mem_append, List.mem_singleton, Prod.mk.injEq] at ht'
      rcases ht' with ht' | ⟨_, _, rfl⟩
      · exact .inr (.inr ⟨id, f, ht'⟩)
      · exact .inr (.inl rfl)
  · simp only [List.map_append, List.map_cons, List.map_nil]
    rw [List.nodup_append]
    refine ⟨hy.doneIds, by simp, ?_⟩
    intro a ha b hb
    simp only [List.mem_singleton] at hb
    subst hb
    intro hab
    subst hab
    simp only [List.mem_map] at ha
    obtain ⟨y, hym, hy1⟩ := ha
    have hb1 := hy.doneBound y hym
    rw [hy1] at hb1
    have hkeq := hy.inj _ _ _ hb1 hwj.2
    rw [List.nodup_append] at hkn
    exact hkn.2.2 y.2.2.key (by simp only [List.mem_map]; exact ⟨y, hym, rfl⟩) cur.key (by simp) hkeq
  · intro x hxm h0
    simp only [List.mem_append, List.mem_singleton] at hxm
    rcases hxm with hxm | rfl
    · exact hy.rootExcl x hxm h0
    · exact hy.curExcl h0
  · intro x hxm
    rcases hy.popped x hxm with hp | ⟨hp1, hp2⟩ | ⟨f, hp⟩
    · exact .inl hp
    · exact .inr ⟨first, by simp [hp1, hp2]⟩
    · exact .inr ⟨f, by simp [hp]⟩
  · intro _
    cases first with
    | true => exact ⟨true, cur, by simp [hy.curRoot rfl]⟩
    | false =>
      obtain ⟨f, t, hft⟩ := hy.rootDone rfl
      exact ⟨f, t, by simp [hft]⟩

theorem tree_step {u : Universe} {mgt : List (PackageKey × Bytes)} {root : VK} {first : Bool} {cur : Todo}
    {curId : Nat} {imps : List Dep} {d : Dep} {s s' : State}
    (hinc : cur.includesDependencies = false)
    (himps : imports u cur.key.vk (optsOf first) = some imps) (hd : d ∈ imps)
    (hwj : WFJ root cur curId s) (hy : TreeJ first cur curId s) (hs : DepStep u mgt first cur d s s') :
    TreeJ first cur curId s' := by
  have hcid : curIdOf s cur = curId := curIdOf_eq hwj.2
  have hcurlt : curId < s.g.nodes.length := vkAt_lt (hwj.1.cvSound _ _ hwj.2)
  -- a new edge from cur never starts at a sealed node
  have hseal : ∀ x ∈ s.created, x.2.2.includesDependencies = true → curId ≠ x.1 := by
    intro x hxm hxi heq
    have hb := (hy.crt x hxm).bound
    rw [← heq] at hb
    have hk := hy.inj _ _ _ hwj.2 hb
    have := hy.same x hxm cur (.inr (.inl rfl)) hk
    rw [this] at hinc
    rw [hinc] at hxi
    cases hxi
  cases hs with
  | excluded _ => exact hy
  | noMatch _ _ =>
    exact ⟨fun x hxm => (hy.crt x hxm).mono (fun _ h => h) (fun _ h => by simpa using h) (fun _ _ h => h),
      fun x hxm hi e he => hy.sealed x hxm hi e (by simpa using he),
      fun id h0 hl => hy.cover id h0 (by simpa using hl),
      hy.inj, hy.doneBound, hy.keysNodup, hy.same, hy.doneIds, hy.rootExcl, hy.popped, hy.rootDone, hy.curRoot, hy.curExcl, hy.todoPos⟩
  | edge mv id g' _ _ _ hadd =>
    obtain ⟨_, _, rfl⟩ := addEdge_some hadd
    refine ⟨fun x hxm => (hy.crt x hxm).mono (fun _ h => h) (fun _ h => by simp [h]) (fun _ _ h => h),
      ?_, hy.cover, hy.inj, hy.doneBound, hy.keysNodup, hy.same, hy.doneIds, hy.rootExcl, hy.popped, hy.rootDone, hy.curRoot, hy.curExcl, hy.todoPos⟩
    intro x hxm hi e he
    simp only [List.mem_append, List.mem_singleton] at he
    rcases he with he | rfl
    · exact hy.sealed x hxm hi e he
    · simp only [hcid]; exact hseal x hxm hi
  | newNode mv g2 _ _ hcv _ _ hadd =>
    obtain ⟨_, _, rfl⟩ := addEdge_some hadd
    -- lookups of bound keys are unchanged
    have hcvmono : ∀ k id, s.concreteVersions.lookup k = some id →
        List.lookup k (({ pk := depKey d, vk := { name := d.name, version := mv } }, s.g.nodes.length) :: s.concreteVersions) = some id := by
      intro k id h
      simp only [lookup_cons_eq]
      split
      · rename_i hk; rw [hk, hcv] at h; cases h
      · exact h
    -- every key already in play is bound, the new one is not
    have hfresh : ∀ k id, s.concreteVersions.lookup k = some id →
        k ≠ { pk := depKey d, vk := { name := d.name, version := mv } } := by
      intro k id h hk; rw [hk, hcv] at h; cases h
    refine ⟨?_, ?_, ?_, ?_, ?_, ?_, ?_, hy.doneIds, hy.rootExcl, ?_, hy.rootDone, hy.curRoot, hy.curExcl, ?_⟩
    · -- crt
      intro x hxm
      simp only [List.mem_append, List.mem_singleton] at hxm
      rcases hxm with hxm | rfl
      · exact (hy.crt x hxm).mono (fun _ h => h) (fun _ h => by simp [h]) hcvmono
      · refine ⟨by simp, rfl, by simp only [hcid]; exact hcurlt, by simp [childTodo, lookup_cons_eq], ?_, ?_, ?_⟩
        · simp [childTodo]
        · exact hasSelector_withSelector d.typ
        · refine ⟨first, cur, by simp [hcid], ?_⟩
          simp [childTodo, imports_exclusions himps hd]
    · -- sealed
      intro x hxm hi e he
      simp only [List.mem_append, List.mem_singleton, edges_addNode] at he hxm
      rcases hxm with hxm | rfl
      · rcases he with he | rfl
        · exact hy.sealed x hxm hi e he
        · simp only [hcid]; exact hseal x hxm hi
      · rcases he with he | rfl
        · have := (hwj.1.edgesIn e he).1
          simp only; omega
        · simp only [hcid]; omega
    · -- cover
      intro id h0 hl
      simp only [nodes_length_addNode] at hl
      by_cases hid : id < s.g.nodes.length
      · obtain ⟨x, hxm, hx1⟩ := hy.cover id h0 hid
        exact ⟨x, by simp [hxm], hx1⟩
      · exact ⟨_, List.mem_append_right _ (List.mem_singleton.mpr rfl), by simp only; omega⟩
    · -- inj
      intro k1 k2 id h1 h2
      simp only [lookup_cons_eq] at h1 h2
      split at h1
      · rename_i hk1
        split at h2
        · rename_i hk2; rw [hk1, hk2]
        · cases h1
          have := vkAt_lt (hwj.1.cvSound _ _ h2)
          omega
      · split at h2
        · cases h2
          have := vkAt_lt (hwj.1.cvSound _ _ h1)
          omega
        · exact hy.inj _ _ _ h1 h2
    · -- doneBound
      intro x hxm
      exact hcvmono _ _ (hy.doneBound x hxm)
    · -- keysNodup
      have hkn := hy.keysNodup
      have : s.done.map (·.2.2.key) ++ cur.key :: (s.todo ++ [childTodo cur d { pk := depKey d, vk := { name := d.name, version := mv } }]).map (·.key)
          = (s.done.map (·.2.2.key) ++ cur.key :: s.todo.map (·.key)) ++ [{ pk := depKey d, vk := { name := d.name, version := mv } }] := by
        simp [childTodo]
      rw [this, List.nodup_append]
      refine ⟨hkn, by simp, ?_⟩
      intro a ha b hb
      simp only [List.mem_singleton] at hb
      subst hb
      simp only [List.mem_append, List.mem_map, List.mem_cons] at ha
      rcases ha with ⟨y, hym, rfl⟩ | rfl | ⟨t, htm, rfl⟩
      · exact hfresh _ _ (hy.doneBound y hym)
      · exact hfresh _ _ hwj.2
      · obtain ⟨id, hid⟩ := hwj.1.todoBound t htm
        exact hfresh _ _ hid
    · -- same
      intro x hxm t' ht' hk
      simp only [List.mem_append, List.mem_singleton] at hxm ht'
      rcases hxm with hxm | rfl
      · rcases ht' with (ht' | rfl) | ht' | ht'
        · exact hy.same x hxm t' (.inl ht') hk
        · exact absurd hk.symm (hfresh _ _ (hy.crt x hxm).bound)
        · exact hy.same x hxm t' (.inr (.inl ht')) hk
        · exact hy.same x hxm t' (.inr (.inr ht')) hk
      · simp only [childTodo] at hk
        rcases ht' with (ht' | rfl) | rfl | ⟨id, f, ht'⟩
        · obtain ⟨id, hid⟩ := hwj.1.todoBound t' ht'
          exact absurd hk (hfresh _ _ hid)
        · rfl
        · exact absurd hk (hfresh _ _ hwj.2)
        · exact absurd hk (hfresh _ _ (hy.doneBound _ ht'))
    · -- popped
      intro x hxm
      simp only [List.mem_append, List.mem_singleton] at hxm
      rcases hxm with hxm | rfl
      · rcases hy.popped x hxm with hp | hp | hp
        · exact .inl (by simp [hp])
        · exact .inr (.inl hp)
        · exact .inr (.inr hp)
      · exact .inl (by simp)
    · -- todoPos
      intro t ht
      simp only [List.mem_append, List.mem_singleton] at ht
      rcases ht with ht | rfl
      · obtain ⟨id, hid, hne⟩ := hy.todoPos t ht
        exact ⟨id, hcvmono _ _ hid, hne⟩
      · exact ⟨s.g.nodes.length, by simp [childTodo, lookup_cons_eq], by omega⟩

theorem tree_loop {u : Universe} {mgt : List (PackageKey × Bytes)} {root : VK} {reqs0 : ReqMap}
    {fuel : Nat} {s : State}
    (h : loop u mgt fuel true (initState root reqs0) = .ok (some s)) :
    ∃ f, TreeI root reqs0 f s := by
  have := loop_inv_wf (u := u) (mgt := mgt) root
    (TreeI root reqs0) (fun first cur curId _ s => TreeJ first cur curId s)
    (fun first s cur rest _ hx htodo _ => tree_pop hx htodo)
    (fun first cur curId imps ds d s s' hinc himps hpos hwj hy hs =>
      tree_step hinc himps (by obtain ⟨rest, rfl⟩ := hpos; simp) hwj hy hs)
    (fun first cur curId ds s _ hwj hy => tree_fin hwj hy)
    fuel true (initState root reqs0) s (wf_init root reqs0)
    ⟨by simp [initState], by simp [initState], by simp [initState]; omega, ?_, by simp [initState], by simp [initState],
      by simp [initState], by simp [initState], by simp [initState], by simp [initState], by simp, fun _ => rfl, by simp⟩ h
  · obtain ⟨f, hx, _, _⟩ := this
    exact ⟨f, hx⟩
  · intro k1 k2 id h1 h2
    simp only [initState, lookup_cons_eq, List.lookup_nil] at h1 h2
    split at h1
    · split at h2
      · rename_i a b; rw [a, b]
      · cases h2
    · cases h1

end DepsDev.Resolve.Maven
