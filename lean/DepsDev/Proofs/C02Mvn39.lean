import DepsDev.Proofs.C02MvnDirect
import DepsDev.Ref.MavenExt39

/-!
# C02 — Maven, part 8: ComparableVersion 3.8.7 / 3.9.x

The one change of `parseVersion` (`Ref/MavenExt39.lean`) concerns a word that is attached with a
dot. On token sequences in which no word follows a dot the two parsers coincide; hence on
versions whose qualifier is attached with `-` or directly, the agreement theorem holds for the
3.9 semantics as well. With a dot-attached qualifier the library follows 3.8.6, not 3.9.
-/
namespace DepsDev.Proofs.C02Mvn
open DepsDev DepsDev.Semver DepsDev.Ref DepsDev.Proofs DepsDev.Proofs.C02
open DepsDev.Ref.MavenCV (Item Sep Tok Ast)

/-- No word is attached with a dot. -/
def noDotWord : List (Sep × Tok) → Bool
  | [] => true
  | (s, t) :: r => !(s == Sep.dot && (match t with | .word _ => true | .num _ => false)) && noDotWord r

theorem parse39_eq : ∀ (rest : List (Sep × Tok)) (t : Tok) (ne : Bool), noDotWord rest = true →
    ((∃ n, t = .num n) ∨ ne = false) → MavenCV39.parseFrom39 ne t rest = MavenCV.parseFrom t rest
  | [], t, ne, _, ht => by
    rcases ht with ⟨n, rfl⟩ | rfl
    · simp [MavenCV39.parseFrom39, MavenCV.parseFrom]
    · cases t <;> simp [MavenCV39.parseFrom39, MavenCV.parseFrom]
  | (s, t') :: rest, t, ne, hr, ht => by
    simp only [noDotWord, Bool.and_eq_true, Bool.not_eq_true', Bool.and_eq_false_iff] at hr
    obtain ⟨h1, h2⟩ := hr
    have ih1 := parse39_eq rest t' false h2 (.inr rfl)
    have ih2 : s = Sep.dot → MavenCV39.parseFrom39 true t' rest = MavenCV.parseFrom t' rest := by
      intro hs
      apply parse39_eq rest t' true h2
      left
      rcases h1 with h1 | h1
      · simp [hs] at h1
      · cases t' with
        | num n => exact ⟨n, rfl⟩
        | word w => simp at h1
    rcases ht with ⟨n, rfl⟩ | rfl
    · cases s <;> simp [MavenCV39.parseFrom39, MavenCV.parseFrom, ih1, ih2]
    · cases t with
      | num n => cases s <;> simp [MavenCV39.parseFrom39, MavenCV.parseFrom, ih1, ih2]
      | word w =>
        cases s <;> cases t' <;> simp [MavenCV39.parseFrom39, MavenCV.parseFrom, ih1, ih2, sep_beq1, sep_beq2]

/-- The qualifier is attached with a dot. -/
def Maven.dotQual (a : Ast) : Bool := match a.qual with | some (.dot, _) => true | _ => false

theorem noDotWord_nums (ns : List Nat) (tl : List (Sep × Tok)) :
    noDotWord (ns.map (fun m => (Sep.dot, Tok.num m)) ++ tl) = noDotWord tl := by
  induction ns with
  | nil => rfl
  | cons n ns ih => simp [noDotWord, ih]

theorem items39_eq (a : Ast) (hv : a.valid = true) (hd : Maven.dotQual a = false) :
    MavenCV39.items a = MavenCV.items a := by
  obtain ⟨n, ns, hn⟩ := nums_cons hv
  obtain ⟨nums, qual, qnum, snap⟩ := a
  simp only at hn
  subst hn
  simp only [MavenCV39.items, MavenCV.items, MavenCV.tokens]
  rw [parse39_eq _ _ _ _ (.inl ⟨n, rfl⟩)]
  rw [noDotWord_nums]
  rcases qual with _ | ⟨s, q⟩
  · cases snap <;> simp [noDotWord]
  · cases s
    · simp [Maven.dotQual] at hd
    all_goals (rcases qnum with _ | ⟨s', k⟩ <;> cases snap <;> simp [noDotWord])

/-- On versions whose qualifier is not attached with a dot, 3.9 compares as 3.8.6. -/
theorem compare39_eq (a b : Ast) (va : a.valid = true) (vb : b.valid = true)
    (da : Maven.dotQual a = false) (db : Maven.dotQual b = false) :
    MavenCV39.compare a b = MavenCV.compare a b := by
  unfold MavenCV39.compare MavenCV.compare
  rw [items39_eq a va da, items39_eq b vb db]

end DepsDev.Proofs.C02Mvn
