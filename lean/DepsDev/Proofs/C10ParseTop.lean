import DepsDev.Proofs.C10Parse

/-!
# C10-a (continued) — `possibleVersionString`, `Parse` and `System.parse(·, allowInfinity)` on canonical text

`parse_render`: `parse sys (render a) = ok (embed a)`; `parseInf_render`: the same through
`System.parse` with or without `allowInfinity`, up to `userNumCount` (the `∞.∞.∞` shortcut).
-/
namespace DepsDev.Proofs.C10
open DepsDev DepsDev.Semver Digits

theorem runes_go_ascii (b : Bytes) (h : ∀ c ∈ b, c < 0x80) :
    ∀ fuel, b.length < fuel → Bytes.runes.go b fuel = b.map (fun c => (c.toNat, [c])) := by
  induction b with
  | nil => intro fuel hf; cases fuel <;> simp [Bytes.runes.go]
  | cons c r ih =>
    intro fuel hf
    obtain ⟨fuel, rfl⟩ : ∃ k, fuel = k + 1 := ⟨fuel - 1, by simp at hf; omega⟩
    simp only [Bytes.runes.go, decodeRune_ascii c r (h c (by simp))]
    simp [ih (fun c hc => h c (by simp [hc])) fuel (by simpa using hf)]

theorem runes_ascii (b : Bytes) (h : ∀ c ∈ b, c < 0x80) : Bytes.runes b = b.map (fun c => (c.toNat, [c])) :=
  runes_go_ascii b h _ (by omega)

theorem pvs_go_digit (sys : System) (d : UInt8) (hd : isDigitB d = true) (rest : List (Nat × Bytes)) (i : Nat) :
    possibleVersionString.go sys ((d.toNat, [d]) :: rest) i = possibleVersionString.go sys rest (i + 1) := by
  have := (isDigitB_iff d).mp hd
  have h1 : (d.toNat == 46 || d.toNat == 45 || d.toNat == 43) = false := by
    simp; omega
  have h2 : (decide (48 ≤ d.toNat) && decide (d.toNat ≤ 57)) = true := by simp; omega
  simp only [possibleVersionString.go, h1, h2, Bool.false_eq_true, ↓reduceIte, Bool.true_or, List.length_cons, List.length_nil]

theorem pvs_go_dot (sys : System) (rest : List (Nat × Bytes)) (i : Nat) (hi : i ≠ 0) :
    possibleVersionString.go sys ((46, [46]) :: rest) i = true := by
  simp [possibleVersionString.go, hi]

theorem digit_lt (d : UInt8) (hd : isDigitB d = true) : d < 0x80 := isVS_lt d (digit_vs d hd).1

/-- The first bytes of `digits . digit …` pass the `possibleVersionString` scan. -/
theorem pvs_go_render (sys : System) (ds : Bytes) (hne : ds ≠ []) (hds : ds.all isDigitB = true) (e : UInt8)
    (he : isDigitB e = true) (rest : Bytes) :
    possibleVersionString.go sys (Bytes.runes ((ds ++ 46 :: e :: rest).take 3)) 0 = true := by
  simp only [List.all_eq_true] at hds
  match ds, hne with
  | [d], _ =>
    have hd := hds d (by simp)
    have hl : ∀ c ∈ [d, 46, e], c < 0x80 := by
      intro c hc; simp at hc; rcases hc with rfl | rfl | rfl
      · exact digit_lt _ hd
      · decide
      · exact digit_lt _ he
    have : ([d] ++ 46 :: e :: rest).take 3 = [d, 46, e] := rfl
    rw [this, runes_ascii _ hl]
    simp only [List.map_cons, List.map_nil]
    rw [pvs_go_digit sys d hd]
    exact pvs_go_dot sys _ _ (by omega)
  | [d, d2], _ =>
    have hd := hds d (by simp)
    have hd2 := hds d2 (by simp)
    have hl : ∀ c ∈ [d, d2, 46], c < 0x80 := by
      intro c hc; simp at hc; rcases hc with rfl | rfl | rfl
      · exact digit_lt _ hd
      · exact digit_lt _ hd2
      · decide
    have : ([d, d2] ++ 46 :: e :: rest).take 3 = [d, d2, 46] := rfl
    rw [this, runes_ascii _ hl]
    simp only [List.map_cons, List.map_nil]
    rw [pvs_go_digit sys d hd, pvs_go_digit sys d2 hd2]
    exact pvs_go_dot sys _ _ (by omega)
  | d :: d2 :: d3 :: ds', _ =>
    have hd := hds d (by simp)
    have hd2 := hds d2 (by simp)
    have hd3 := hds d3 (by simp)
    have hl : ∀ c ∈ [d, d2, d3], c < 0x80 := by
      intro c hc; simp at hc; rcases hc with rfl | rfl | rfl
      · exact digit_lt _ hd
      · exact digit_lt _ hd2
      · exact digit_lt _ hd3
    have : ((d :: d2 :: d3 :: ds') ++ 46 :: e :: rest).take 3 = [d, d2, d3] := rfl
    rw [this, runes_ascii _ hl]
    simp only [List.map_cons, List.map_nil]
    rw [pvs_go_digit sys d hd, pvs_go_digit sys d2 hd2, pvs_go_digit sys d3 hd3]
    simp [possibleVersionString.go]


theorem pvs_of_body (sys : System) (hs : Generic sys = true) (d : UInt8) (hd : isDigitB d = true) (body : Bytes)
    (hgo : possibleVersionString.go sys (Bytes.runes ((d :: body).take 3)) 0 = true) :
    possibleVersionString sys (lead sys ++ d :: body) = true := by
  have hdn := (isDigitB_iff d).mp hd
  have h118 : (d == 118) = false := by
    rw [beq_eq_false_iff_ne]; intro e; subst e; simp at hdn
  have h86 : (d == 86) = false := by
    rw [beq_eq_false_iff_ne]; intro e; subst e; simp at hdn
  cases sys <;> simp only [Generic] at hs <;> try (exact absurd hs (by decide))
  all_goals
    unfold possibleVersionString
    simp [lead, h118, h86]
    exact hgo

/-- The canonical text of an AST without '∞' passes `possibleVersionString`. -/
theorem pvs_render (sys : System) (hs : Generic sys = true) (a : SemVerAst) (ha : a.Valid sys false) :
    possibleVersionString sys (a.render sys) = true := by
  obtain ⟨h3, hlen, hnum, hn4, hpre, hbuild⟩ := ha
  obtain ⟨nums, pre, build⟩ := a
  simp only at h3 hlen hnum hn4 hpre hbuild
  match nums, h3 with
  | x :: y :: zs, _ =>
    have hx := hnum x (by simp)
    have hy := hnum y (by simp)
    have hx1 : x < 9223372036854775807 := by rcases hx.2 with h | ⟨h, _⟩; exact h; cases h
    have hy1 : y < 9223372036854775807 := by rcases hy.2 with h | ⟨h, _⟩; exact h; cases h
    obtain ⟨d, ds, hd, hdd⟩ := natToBytes_cons x.toNat
    obtain ⟨e, es, he, hee⟩ := natToBytes_cons y.toNat
    have hbody : SemVerAst.render sys ⟨x :: y :: zs, pre, build⟩ =
        lead sys ++ d :: (ds ++ 46 :: e :: (es ++ (dotNums zs ++ (renderPre pre ++ renderBuild build)))) := by
      simp [SemVerAst.render, renderNums, dotNums, valueBytes_num x hx.1 hx1, valueBytes_num y hy.1 hy1, hd, he]
    rw [hbody]
    apply pvs_of_body sys hs d hdd
    have hall := natToBytes_all_digit x.toNat
    rw [hd] at hall
    have := pvs_go_render sys (d :: ds) (by simp) hall e hee (es ++ (dotNums zs ++ (renderPre pre ++ renderBuild build)))
    simpa using this


/-- **C10-a**: `Parse` on the canonical text of an AST (no '∞') returns its embedding. -/
theorem parse_render (sys : System) (hs : Generic sys = true) (a : SemVerAst) (ha : a.Valid sys false) :
    parse sys (a.render sys) = .ok (a.embed sys) := by
  unfold parse parseInf
  simp only [pvs_render sys hs a ha, Bool.not_true, Bool.false_eq_true, ↓reduceIte, Bool.false_and]
  cases sys <;> simp only [Generic] at hs <;> try (exact absurd hs (by decide))
  all_goals exact parseGeneric_render _ (by decide) false a ha

/-- A printed component is '∞' or starts with a digit. -/
theorem valueBytes_head (ai : Bool) (x : Int) (hx : NumOk ai x) :
    (x = 9223372036854775807 ∧ valueBytes x = infB) ∨ (∃ d ds, valueBytes x = d :: ds ∧ isDigitB d = true) := by
  rcases hx with ⟨h0, h1 | ⟨_, rfl⟩⟩
  · right
    rw [valueBytes_num x h0 h1]
    obtain ⟨d, ds, hd, hdd⟩ := natToBytes_cons x.toNat
    exact ⟨d, ds, hd, hdd⟩
  · left; exact ⟨rfl, by rw [← infinity_lit, valueBytes_inf]⟩

theorem valueBytes_eq_inf_prefix (ai : Bool) (x : Int) (hx : NumOk ai x) (r r' : Bytes)
    (h : valueBytes x ++ r = 0xE2 :: r') : x = 9223372036854775807 ∧ r' = 0x88 :: 0x9E :: r := by
  rcases valueBytes_head ai x hx with ⟨hx', hv⟩ | ⟨d, ds, hv, hd⟩
  · rw [hv] at h
    simp [infB] at h
    exact ⟨hx', h.symm⟩
  · rw [hv] at h
    simp at h
    have := (isDigitB_iff d).mp hd
    rw [h.1] at this
    simp at this

/-- The only AST whose text is `∞.∞.∞` is the one with these three numbers and nothing else. -/
theorem render_eq_infinity (sys : System) (ai : Bool) (a : SemVerAst) (ha : a.Valid sys ai)
    (h : a.render sys = [0xE2, 0x88, 0x9E, 46, 0xE2, 0x88, 0x9E, 46, 0xE2, 0x88, 0x9E]) :
    sys ≠ .go ∧ a = ⟨[infinity, infinity, infinity], [], []⟩ := by
  obtain ⟨h3, hlen, hnum, hn4, hpre, hbuild⟩ := ha
  obtain ⟨nums, pre, build⟩ := a
  simp only at h3 hlen hnum hn4 hpre hbuild
  have hgo : sys ≠ .go := by
    intro e; subst e
    simp [SemVerAst.render, lead] at h
  refine ⟨hgo, ?_⟩
  match nums, h3 with
  | x :: y :: z :: zs, _ =>
    have hl : lead sys = [] := by simp [lead, hgo]
    simp only [SemVerAst.render, hl, List.nil_append, renderNums, dotNums, List.flatMap_cons, List.append_assoc,
      List.cons_append] at h
    obtain ⟨hx, h1⟩ := valueBytes_eq_inf_prefix ai x (hnum x (by simp)) _ _ h
    simp only [List.cons.injEq, true_and] at h1
    obtain ⟨hy, h2⟩ := valueBytes_eq_inf_prefix ai y (hnum y (by simp)) _ _ h1.symm
    simp only [List.cons.injEq, true_and] at h2
    obtain ⟨hz, h3'⟩ := valueBytes_eq_inf_prefix ai z (hnum z (by simp)) _ _ h2.symm
    simp only [List.cons.injEq, true_and] at h3'
    have h4 : List.flatMap (fun x => 46 :: valueBytes x) zs ++ (renderPre pre ++ renderBuild build) = [] := h3'.symm
    have hzs : zs = [] := by
      cases zs with
      | nil => rfl
      | cons w ws => simp at h4
    subst hzs
    have hpre' : pre = [] := by
      cases pre with
      | nil => rfl
      | cons w ws => simp [renderPre] at h4
    subst hpre'
    have hb' : build = [] := by
      cases build with
      | nil => rfl
      | cons w ws => simp [renderPre, renderBuild] at h4
    subst hb'
    subst hx hy hz
    rfl

/-- `System.parse(str, allowInfinity)` on the canonical text of an AST: its embedding, up to
`userNumCount` (the `∞.∞.∞` shortcut leaves it 0). -/
theorem parseInf_render (sys : System) (hs : Generic sys = true) (ai : Bool) (a : SemVerAst) (ha : a.Valid sys ai) :
    ∃ k, parseInf sys (a.render sys) ai = .ok { a.embed sys with userNumCount := k } := by
  unfold parseInf
  split
  · rename_i hc
    simp only [Bool.and_eq_true, beq_iff_eq] at hc
    obtain ⟨_, rfl⟩ := render_eq_infinity sys ai a ha hc.2
    exact ⟨0, rfl⟩
  · refine ⟨a.nums.length, ?_⟩
    cases sys <;> simp only [Generic] at hs <;> try (exact absurd hs (by decide))
    all_goals exact parseGeneric_render _ (by decide) ai a ha

end DepsDev.Proofs.C10
