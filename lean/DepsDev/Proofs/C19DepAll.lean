/-
Helper lemmas for C19, part 13: the `deptest` round trip with one quoted value written
last, and the single-attribute form, for ARBITRARY byte values (no ASCII restriction).
-/
import DepsDev.Proofs.C19QuoteAll

namespace DepsDev.Proofs.C19
open DepsDev DepsDev.Gen DepsDev.Model.Resolve DepsDev.Model.Resolve.Attr DepsDev.Model.Resolve.AttrText
open DepsDev.Model.Resolve.AttrMachine DepsDev.Model.Resolve.AttrSpec

/-! ### Fields on a string in which white space is only ever the space byte -/

def TameStr (X : Bytes) : Prop :=
  ∀ i, i < X.length → spaceWidth (X.drop i) = if (X.drop i).head? = some 0x20 then 1 else 0

theorem TameStr.tail {b : UInt8} {X : Bytes} (h : TameStr (b :: X)) : TameStr X := by
  intro i hi
  have := h (i + 1) (by simp; omega)
  simpa using this

theorem fieldsGo_tame (X : Bytes) : ∀ cur, TameStr X → fieldsGo X 0 cur = af X cur := by
  induction X with
  | nil => intro cur _; rfl
  | cons b rest ih =>
    intro cur ht
    have h0 := ht 0 (by simp)
    simp only [List.drop_zero, List.head?_cons, Option.some.injEq] at h0
    rw [fieldsGo, af]
    by_cases hb : b = 0x20
    · subst hb
      simp only [if_true] at h0
      simp [h0, ih _ ht.tail]
    · simp only [hb, if_false] at h0
      simp [h0, hb, ih _ ht.tail]

theorem tameStr_chunks {v Q : Bytes} (h : Chunks v Q) (T : Bytes) (hT : TameStr T) : TameStr (Q ++ T) := by
  induction h with
  | nil => simpa using hT
  | @cons p E v Q c _ ih =>
    intro i hi
    rw [List.append_assoc]
    by_cases hlt : i < E.length
    · have hd : (E ++ (Q ++ T)).drop i = E.drop i ++ (Q ++ T) := by
        rw [List.drop_append_of_le_length (by omega)]
      rw [hd, c.tame (Q ++ T) i hlt]
      have hne : E.drop i ≠ [] := by
        intro e; have := congrArg List.length e; simp at this; omega
      cases hdr : E.drop i with
      | nil => exact absurd hdr hne
      | cons x xs => simp
    · have hd : (E ++ (Q ++ T)).drop i = (Q ++ T).drop (i - E.length) := by
        rw [List.drop_append]
        have : E.drop i = [] := List.drop_eq_nil_of_le (by omega)
        simp [this]
      rw [hd]
      apply ih
      simp only [List.length_append] at hi ⊢
      omega

theorem tameStr_quote (v : Bytes) : TameStr (quote v) := by
  have h1 : TameStr [0x22] := by
    intro i hi
    have : i = 0 := by simp at hi; omega
    subst this
    simp [spaceWidth_quote]
  have h2 := tameStr_chunks (chunks_quote v) [0x22] h1
  intro i hi
  cases i with
  | zero => simp [quote, spaceWidth_quote]
  | succ j =>
    have := h2 j (by simp [quote] at hi; simpa using hi)
    simpa [quote] using this

/-! ### the pieces of a quoted value -/

theorem hasDoubleSpace_append_right (a b : Bytes) (h : hasDoubleSpace (a ++ b) = false) :
    hasDoubleSpace b = false := by
  induction a with
  | nil => simpa using h
  | cons x a ih =>
    cases hab : a ++ b with
    | nil =>
      have : b = [] := by
        cases a <;> simp_all
      rw [this]; rfl
    | cons y t =>
      simp only [List.cons_append, hab, hasDoubleSpace, Bool.or_eq_false_iff] at h
      rw [← hab] at h
      exact ih h.2

theorem pieces_chunks {v Q : Bytes} (h : Chunks v Q) :
    ∀ cur : Bytes, hasDoubleSpace v = false → v.getLast? ≠ some 0x5C →
      ((cur = [] ∨ cur = [0x22]) → v.head? ≠ some 0x20) →
      (v = [] → cur.head? ≠ some 0x5C) → (NB cur ∨ cur = [0x22]) →
      ∃ init last, af (Q ++ [0x22]) cur = init ++ [last] ∧
        (∀ p ∈ init, term p = false) ∧ term last = true ∧
        join [0x20] (init ++ [last]) = cur.reverse ++ Q ++ [0x22] := by
  induction h with
  | nil =>
    intro cur _ _ _ hend _
    refine ⟨[], (0x22 :: cur).reverse, ?_, by simp, ?_, ?_⟩
    · simp [af]
    · have hc := hend rfl
      simp only [term, List.getLast?_reverse, List.head?_cons, beq_self_eq_true, Bool.true_and,
        Bool.not_eq_eq_eq_not, Bool.not_true, Bool.and_eq_false_imp, decide_eq_true_eq]
      intro _
      simp only [endsWithBackslashQuote, List.reverse_reverse]
      cases cur with
      | nil => rfl
      | cons c t =>
        have : c ≠ 0x5C := by simpa using hc
        split
        · rename_i heq
          injection heq with _ heq
          injection heq with heq _
          exact absurd heq this
        · rfl
    · simp [join]
  | @cons p E v Q c hrest ih =>
    intro cur hds hlast hhead hend hnb
    have hpne := c.pne
    rw [List.append_assoc]
    have hdsv : hasDoubleSpace v = false := hasDoubleSpace_append_right p v hds
    have hlastv' : v.getLast? ≠ some 0x5C := by
      cases hv : v with
      | nil => simp
      | cons y t =>
        rw [hv, List.getLast?_append] at hlast
        cases hl : (y :: t).getLast? with
        | none => simp at hl
        | some z => rw [hl] at hlast; simpa using hlast
    by_cases hb : p = [0x20]
    · -- a space: the current piece is emitted
      have hE := c.sp hb
      subst hb
      have hcur : cur ≠ [] ∧ cur ≠ [0x22] := by
        constructor
        · intro e; exact hhead (Or.inl e) rfl
        · intro e; exact hhead (Or.inr e) rfl
      have hnb' : NB cur := by
        rcases hnb with h | h
        · exact h
        · exact absurd h hcur.2
      have hheadv : v.head? ≠ some 0x20 := by
        cases hv : v with
        | nil => simp
        | cons y t =>
          rw [hv] at hds
          simp only [List.cons_append, List.nil_append, hasDoubleSpace, Bool.or_eq_false_iff,
            Bool.and_eq_false_imp, beq_iff_eq] at hds
          have : y ≠ 0x20 := by simpa using hds.1
          simpa using this
      obtain ⟨init, last, haf, hinit, hlst, hjoin⟩ :=
        ih [] hdsv hlastv' (fun _ => hheadv) (fun _ => by simp) (Or.inl (fun h => by simp at h))
      rw [hE]
      refine ⟨cur.reverse :: init, last, ?_, ?_, hlst, ?_⟩
      · simp only [List.cons_append, List.nil_append, af, if_true]
        have : cur.isEmpty = false := by
          cases cur with
          | nil => exact absurd rfl hcur.1
          | cons _ _ => rfl
        simp [this, haf]
      · intro q hq
        simp only [List.mem_cons] at hq
        rcases hq with e | hq
        · rw [e]; exact term_false_of_NB cur hcur.1 hnb'
        · exact hinit q hq
      · have hne2 : init ++ [last] ≠ [] := by simp
        cases hil : init ++ [last] with
        | nil => exact absurd hil hne2
        | cons x xs =>
          have : (cur.reverse :: init) ++ [last] = cur.reverse :: x :: xs := by
            rw [List.cons_append, hil]
          rw [this, join, ← hil, hjoin]
          simp
    · -- an escape without spaces: it extends the current piece
      have hns := c.nsp hb
      rw [af_nospace _ _ _ hns]
      have hne := c.ene
      have hcur' : E.reverse ++ cur ≠ [] ∧ E.reverse ++ cur ≠ [0x22] := by
        cases he : E with
        | nil => exact absurd he hne
        | cons x xs =>
          constructor
          · simp
          · intro e
            have hlen := congrArg List.length e
            simp only [List.reverse_cons, List.length_append, List.length_reverse, List.length_cons,
              List.length_nil] at hlen
            have hxs : xs = [] := by
              cases xs with
              | nil => rfl
              | cons _ _ => simp at hlen; omega
            have hc : cur = [] := by
              cases cur with
              | nil => rfl
              | cons _ _ => simp at hlen; omega
            subst hxs; subst hc
            simp at e
            have := c.lq (by rw [he, e]; rfl)
            rw [he, e] at this
            simp at this
      have hnb2 : NB (E.reverse ++ cur) := by
        intro hh
        have hl : E.getLast? = some 0x22 := by
          cases he : E.reverse with
          | nil =>
            have : E = [] := by simpa using he
            exact absurd this hne
          | cons x xs =>
            rw [he] at hh
            simp only [List.cons_append, List.head?_cons, Option.some.injEq] at hh
            rw [← List.head?_reverse, he, hh]; rfl
        rw [c.lq hl]
        exact ⟨cur, rfl⟩
      have hend2 : v = [] → (E.reverse ++ cur).head? ≠ some 0x5C := by
        intro hv hh
        have hl : E.getLast? = some 0x5C := by
          cases he : E.reverse with
          | nil =>
            have : E = [] := by simpa using he
            exact absurd this hne
          | cons x xs =>
            rw [he] at hh
            simp only [List.cons_append, List.head?_cons, Option.some.injEq] at hh
            rw [← List.head?_reverse, he, hh]; rfl
        have hp5 := c.lb hl
        subst hv
        apply hlast
        rw [hp5]; rfl
      obtain ⟨init, last, haf, hinit, hlst, hjoin⟩ :=
        ih _ hdsv hlastv'
          (fun h => by rcases h with h | h; exact absurd h hcur'.1; exact absurd h hcur'.2)
          hend2 (Or.inl hnb2)
      refine ⟨init, last, haf, hinit, hlst, ?_⟩
      rw [hjoin]
      simp

/-- the deptest parser reads a well-formed quoted value back (any bytes). -/
theorem joinQuoted_quote_all (v : Bytes) (hok : depQuotedOK v = true) :
    joinQuoted false none (fields (quote v)) = .ok [v] := by
  simp only [depQuotedOK, Bool.and_eq_true, bne_iff_ne, ne_eq, Bool.not_eq_eq_eq_not, Bool.not_true] at hok
  obtain ⟨⟨hlast, hhead⟩, hds⟩ := hok
  have hf : fields (quote v) = af (quoteGo v 0 ++ [0x22]) [0x22] := by
    unfold fields
    rw [fieldsGo_tame _ _ (tameStr_quote v)]
    simp [quote, af]
  obtain ⟨init, last, haf, hinit, hlst, hjoin⟩ :=
    pieces_chunks (chunks_quote v) [0x22] hds hlast (fun _ => hhead) (fun _ => by simp) (Or.inr rfl)
  rw [hf, haf]
  have hne : ∀ p ∈ init ++ [last], p ≠ [] := by
    intro p hp; rw [← haf] at hp; exact af_nonempty _ _ p hp
  cases hil : init ++ [last] with
  | nil => simp at hil
  | cons p1 rest =>
    have hp1 : p1.head? = some 0x22 := by
      have h1 := hne p1 (by rw [hil]; simp)
      have hj := hjoin
      rw [hil] at hj
      cases p1 with
      | nil => exact absurd rfl h1
      | cons c t =>
        cases rest with
        | nil => simp [join] at hj; simp [hj.1]
        | cons r rs => simp [join] at hj; simp [hj.1]
    rw [joinQuoted_start p1 rest hp1, ← hil, joinQuoted_run init last false [] hinit hlst]
    have : join [0x20] ([] ++ init ++ [last]) = quote v := by
      simp only [List.nil_append, hjoin]; simp [quote]
    rw [this, unquote_quote_all v]

theorem items_parse_all (its : List (Bytes × Option Bytes)) (hq : quotedItemsOK its = true)
    (hplain : ∀ it ∈ its, it.2 = none → plainTok it.1 = true ∧ it.1.head? ≠ some 0x22)
    (hquoted : ∀ it ∈ its, ∀ v, it.2 = some v → it.1 = quote v) :
    joinQuoted false none (fields (join [0x20] (its.map (·.1)))) = .ok (its.map itemTok) := by
  induction its with
  | nil => simp [join, fields, fieldsGo, joinQuoted]
  | cons it rest ih =>
    obtain ⟨t, q⟩ := it
    cases q with
    | some v =>
      cases rest with
      | nil =>
        simp only [quotedItemsOK] at hq
        have e := hquoted (t, some v) (by simp) v rfl
        simp only at e
        subst e
        simp only [List.map_cons, List.map_nil, join, itemTok]
        exact joinQuoted_quote_all v hq
      | cons r rs => simp [quotedItemsOK] at hq
    | none =>
      simp only [quotedItemsOK] at hq
      obtain ⟨hpt, hph⟩ := hplain (t, none) (by simp) rfl
      simp only at hpt hph
      have ih' := ih hq (fun it hit => hplain it (by simp [hit])) (fun it hit => hquoted it (by simp [hit]))
      have hbne : (t.head? != some 0x22) = true := by simpa using hph
      cases rest with
      | nil =>
        simp only [List.map_cons, List.map_nil, join, itemTok]
        rw [show t = join [0x20] [t] from rfl, fields_join [t] (by simpa using hpt)]
        exact joinQuoted_plain [t] (by simpa using hph)
      | cons r rs =>
        simp only [List.map_cons] at ih' ⊢
        rw [fields_cons_join t _ _ hpt, joinQuoted]
        simp only [hbne, if_true, ih', itemTok]

/-- `deptest.ParseString(write(t))` equals `t` whenever every value that must be quoted
is the last item written and is `depQuotedOK` — for arbitrary byte values. -/
theorem dep_roundtrip_all (h : Heap) (s : Set) (hs : SetOK h s)
    (hk : knownKeys C19AttrKeys.depAllKeys C19AttrKeys.depFlagKeys h s = true)
    (ht : depTextOK h s = true) :
    ∃ h' s', depParseString h (depWrite h s) = .ok (h', s') ∧
      SetOK h' s ∧ SetOK h' s' ∧ s.attrs h' = s.attrs h ∧ Attr.compare h' s s' = .eq := by
  obtain ⟨hf1, hf2⟩ := depItems_facts h s
  have hj : joinQuoted false none (fields (depWrite h s)) =
      .ok (C19AttrKeys.depAllKeys.flatMap (chunk C19AttrKeys.depFlagKeys depName h s)) := by
    unfold depWrite
    rw [items_parse_all (depItems h s) ht hf1 hf2, depItems_toks]
  have hpi := parseItems_chunks C19AttrKeys.depNames C19AttrKeys.depAllKeys C19AttrKeys.depFlagKeys
    depName h s C19AttrKeys.depAllKeys dep_lookup
  have hmask : maskOfKeys s.mask C19AttrKeys.depAllKeys 0 = s.mask := by
    simp only [knownKeys, Bool.and_eq_true] at hk
    exact dep_mask_ok s.mask hk.1
  obtain ⟨h', s', he, hs', hok, hattrs, hsame⟩ :=
    calls_same C19AttrKeys.depAllKeys C19AttrKeys.depFlagKeys h s hs hk hmask dep_keys_lt
  refine ⟨h', s', ?_, hs', hok, hattrs, (compare_eq_iff_same h' s s' hs' hok).mpr hsame⟩
  unfold depParseString
  rw [hj]
  simp only [hpi]
  exact he

/-- `versiontest.ParseSingle` reads the written form of one attribute back, for every
declared key and EVERY byte value. -/
theorem ver_single_roundtrip_all (h : Heap) (key : Int) (hkey : key ∈ C19AttrKeys.versionAllKeys)
    (v : Bytes) :
    ∃ h' s', versionParseSingle h (singleText key v) = .ok (h', s') ∧ SetOK h' s' ∧
      absOf h' s' = stepAbs (0, fun _ => none) (key, v) := by
  have hplain := ver_names_plain key hkey
  simp only [plainTok, Bool.and_eq_true, Bool.not_eq_eq_eq_not, Bool.not_true] at hplain
  obtain ⟨hne, hns⟩ := hplain
  cases hn : verLowerName key with
  | nil => simp [hn] at hne
  | cons n0 ns =>
    rw [hn] at hns
    have hsw : spaceWidth (n0 :: ns) = 0 := by
      rw [hasSpace_cons] at hns
      simp only [Bool.or_eq_false_iff, bne_eq_false_iff_eq, beq_iff_eq] at hns
      exact hns.1
    have htext : singleText key v = n0 :: ((ns ++ 0x20 :: 0x22 :: quoteGo v 0) ++ [0x22]) := by
      simp [singleText, hn, quote]
    have hsw2 : spaceWidth (n0 :: ((ns ++ 0x20 :: 0x22 :: quoteGo v 0) ++ [0x22])) = 0 := by
      have : n0 :: ((ns ++ 0x20 :: 0x22 :: quoteGo v 0) ++ [0x22]) =
          (n0 :: ns) ++ 0x20 :: (0x22 :: quoteGo v 0 ++ [0x22]) := by simp
      rw [this, spaceWidth_append_space]; exact hsw
    have htrim : trimSpace (singleText key v) = (n0 :: ns) ++ 0x20 :: quote v := by
      rw [htext, trimSpace_id _ _ hsw2]; simp [quote]
    have hcut : cutSpace (trimSpace (singleText key v)) = (n0 :: ns, quote v, true) := by
      rw [htrim]; exact cutSpace_append _ _ (no_space_of_hasSpace _ hns)
    have htq : trimSpace (quote v) = quote v := by
      have : quote v = 0x22 :: (quoteGo v 0 ++ [0x22]) := rfl
      rw [this]; exact trimSpace_id _ _ (spaceWidth_quote _)
    have hlook := ver_lookup key hkey
    rw [hn] at hlook
    obtain ⟨h2, s2, he, hok, habs⟩ := addAttr_abs h Set.zero key v (setOK_zero h)
      (fun _ => ver_keys_lt key hkey)
    refine ⟨h2, s2, ?_, hok, ?_⟩
    · dsimp only [versionParseSingle]
      rw [hcut]
      simp only [if_true, htq]
      have hq : (quote v).head? = some 0x22 := rfl
      simp only [hq, beq_self_eq_true, Bool.true_or, if_true, unquote_quote_all v, hlook]
      exact he
    · rw [habs]; rfl

end DepsDev.Proofs.C19
