import DepsDev.Proofs.C01Generic

/-!
# C01 for PyPI (PEP 440)

`pep440Extension.compare` = epoch, zero-padded release numbers, rank, then a
rank-dependent tuple (pre number, local version, post number) and finally the dev
part. For equal ranks the components that the Go `switch` skips are replaced by
constants, which turns the whole comparator into a lexicographic product.
-/
namespace DepsDev.Proofs

open Std DepsDev DepsDev.Semver
open DepsDev.Gen.SemverTables (pep440Alpha pep440Beta pep440Prerelease pep440Local pep440Post pep440Dev pep440Empty)

/-! ## local versions -/

structure LK where
  d : Nat        -- 1 = all digits
  n : Nat
  s : Bytes

def lkey (e : Bytes) : LK :=
  if allDigits e then { d := 1, n := parseUint64Lossy e, s := [] } else { d := 0, n := 0, s := e }

def LK.cmp : LK → LK → Ordering :=
  compareLex (compareOn LK.d) (compareLex (compareOn LK.n) (fun a b => List.compareLex compare a.s b.s))

instance : TransCmp LK.cmp := by
  haveI : TransCmp (fun a b : LK => List.compareLex compare a.s b.s) :=
    TransCmp.comap (List.compareLex (compare : UInt8 → UInt8 → Ordering)) LK.s
  unfold LK.cmp
  infer_instance

def localElemOrd (a b : Bytes) : Ordering := LK.cmp (lkey a) (lkey b)
instance : TransCmp localElemOrd := TransCmp.comap LK.cmp lkey

theorem sgnInt_nat (x y : Nat) : sgnInt (x : Int) (y : Int) = ordToInt (compare x y) := by
  rw [sgnInt_eq]
  congr 1
  rcases Nat.lt_trichotomy x y with h | h | h
  · rw [Nat.compare_eq_lt.mpr h, Int.compare_eq_lt]; exact_mod_cast h
  · subst h; simp
  · rw [Nat.compare_eq_gt.mpr h, Int.compare_eq_gt]; exact_mod_cast h

theorem localElem_eq (a b : Bytes) : p440compareLocalElem a b = ordToInt (localElemOrd a b) := by
  unfold p440compareLocalElem localElemOrd LK.cmp compareLex compareOn lkey
  cases ha : allDigits a <;> cases hb : allDigits b
  · simp [cmpBytes_eq]
  · have : compare (0 : Nat) 1 = .lt := by decide
    simp [this]
  · have : compare (1 : Nat) 0 = .gt := by decide
    simp [this]
  · simp [sgnInt_nat, List.compareLex_nil_nil]

theorem localElem_nil (p : Bytes) : p440compareLocalElem p [] = 0 ∨ p440compareLocalElem p [] = 1 := by
  unfold p440compareLocalElem
  cases ha : allDigits p
  · cases p <;> simp [allDigits, cmpBytes]
  · simp [allDigits]

theorem loop_exhausted (ps : List Bytes) : pepLocalLoop 1 ps [] = 1 := by
  induction ps with
  | nil => rfl
  | cons p ps ih =>
    simp only [pepLocalLoop, ih]
    rcases localElem_nil p with h | h <;> simp [h, thenInt]

theorem sgnInt_succ (n m : Nat) : sgnInt ((n + 1 : Nat) : Int) ((m + 1 : Nat) : Int) = sgnInt (n : Int) (m : Int) := by
  unfold sgnInt
  have h1 : (((n + 1 : Nat) : Int) < ((m + 1 : Nat) : Int)) ↔ ((n : Int) < (m : Int)) := by omega
  have h2 : (((n + 1 : Nat) : Int) > ((m + 1 : Nat) : Int)) ↔ ((n : Int) > (m : Int)) := by omega
  simp only [h1, h2]

theorem pepLocalLoop_eq (ps qs : List Bytes) :
    pepLocalLoop (sgnInt ps.length qs.length) ps qs = ordToInt (List.compareLex localElemOrd ps qs) := by
  induction ps generalizing qs with
  | nil =>
    cases qs with
    | nil => simp [pepLocalLoop, sgnInt, List.compareLex_nil_nil]
    | cons q qs =>
      simp only [pepLocalLoop, List.length_nil, List.length_cons, List.compareLex_nil_cons, ordToInt_lt]
      unfold sgnInt
      have : ((0 : Nat) : Int) < ((qs.length + 1 : Nat) : Int) := by omega
      simp only [this, ↓reduceIte]
  | cons p ps ih =>
    cases qs with
    | nil =>
      have hf : sgnInt ((p :: ps).length : Int) (([] : List Bytes).length : Int) = 1 := by
        unfold sgnInt
        have h1 : ¬ (((p :: ps).length : Nat) : Int) < (([] : List Bytes).length : Nat) := by simp <;> omega
        have h2 : (((p :: ps).length : Nat) : Int) > (([] : List Bytes).length : Nat) := by simp <;> omega
        simp only [h1, h2, ↓reduceIte]
      rw [hf]
      simp only [pepLocalLoop, loop_exhausted, List.compareLex_cons_nil, ordToInt_gt]
      rcases localElem_nil p with h | h <;> simp [h, thenInt]
    | cons q qs =>
      simp only [List.length_cons, sgnInt_succ, pepLocalLoop, ih, List.compareLex_cons_cons, localElem_eq, thenInt_eq]

def localOrd (pl ql : Bytes) : Ordering := List.compareLex localElemOrd (localElems pl) (localElems ql)
instance : TransCmp localOrd := TransCmp.comap (List.compareLex localElemOrd) localElems

theorem pepCompareLocal_eq (pl ql : Bytes) : pepCompareLocal pl ql = ordToInt (localOrd pl ql) := by
  unfold pepCompareLocal localOrd
  by_cases h : pl = ql
  · subst h
    have : List.compareLex localElemOrd (localElems pl) (localElems pl) = .eq := ReflCmp.compare_self
    simp [this]
  · have hne : (pl == ql) = false := by simpa using h
    simp only [hne, Bool.false_eq_true, ↓reduceIte]
    exact pepLocalLoop_eq _ _

/-! ## the whole comparator -/

/-- What the comparator reads of a version, with skipped components made constant. -/
structure PV where
  epoch : Int
  num : List Int
  rank : Int
  preNum : Int
  loc : Bytes
  postNum : Int
  devAbsent : Bool
  devNum : Int

def pepExt (v : Version) : Pep440 := match v.ext with | .pep (some e) => e | _ => {}

def pview (v : Version) : PV :=
  let e := pepExt v
  let r := e.rank
  { epoch := e.epoch, num := v.num, rank := r,
    preNum := if isPreRank r then e.preNum else 0,
    loc := if isPreRank r || r == pep440Local then e.loc else [],
    postNum := if isPreRank r || r == pep440Local || r == pep440Post then e.postNum else 0,
    devAbsent := !e.devPresent,
    devNum := if e.devPresent then e.devNum else 0 }

def PV.cmp : PV → PV → Ordering :=
  compareLex (compareOn PV.epoch) <|
  compareLex (fun a b => padLex compare 0 a.num b.num) <|
  compareLex (compareOn PV.rank) <|
  compareLex (compareOn PV.preNum) <|
  compareLex (fun a b => localOrd a.loc b.loc) <|
  compareLex (compareOn PV.postNum) <|
  compareLex (compareOn PV.devAbsent) (compareOn PV.devNum)

instance : TransCmp PV.cmp := by
  haveI : TransCmp (fun a b : PV => padLex compare (0 : Int) a.num b.num) :=
    TransCmp.comap (padLex compare (0 : Int)) PV.num
  haveI : TransCmp (fun a b : PV => localOrd a.loc b.loc) := TransCmp.comap localOrd PV.loc
  unfold PV.cmp
  infer_instance

def pepOrd (a b : Version) : Ordering := PV.cmp (pview a) (pview b)
instance : TransCmp pepOrd := TransCmp.comap PV.cmp pview

theorem compare_bool (a b : Bool) :
    ordToInt (compare (!a) (!b)) = if a != b then (if a then -1 else 1) else 0 := by
  cases a <;> cases b <;> decide

theorem pepTail_eq (p q : Pep440) (hr : p.rank = q.rank) (a b : Version)
    (ha : pepExt a = p) (hb : pepExt b = q) :
    pepTail p q = ordToInt (
      (compareLex (compareOn PV.preNum) <|
       compareLex (fun a b => localOrd a.loc b.loc) <|
       compareLex (compareOn PV.postNum) <|
       compareLex (compareOn PV.devAbsent) (compareOn PV.devNum)) (pview a) (pview b)) := by
  unfold pepTail pview compareLex compareOn
  simp only [ha, hb, ← hr, ← thenInt_eq]
  congr 1
  · by_cases h : isPreRank p.rank <;> simp [h, sgnInt_eq]
  congr 1
  · by_cases h : (isPreRank p.rank || p.rank == pep440Local) <;> simp [h, pepCompareLocal_eq]
    have : localOrd [] [] = .eq := ReflCmp.compare_self
    simp [this]
  congr 1
  · by_cases h : (isPreRank p.rank || p.rank == pep440Local || p.rank == pep440Post) <;> simp [h, sgnInt_eq]
  · have e1 : compare true false = Ordering.gt := by decide
    have e2 : compare false true = Ordering.lt := by decide
    cases hp : p.devPresent <;> cases hq : q.devPresent <;> simp [sgnInt_eq, thenInt, e1, e2]

/-- `compare` on two PyPI versions. -/
theorem compare_pep (a b : Version) (hs : a.sys = b.sys) (ea eb : Option Pep440)
    (ha : a.ext = .pep ea) (hb : b.ext = .pep eb) :
    vcompare a b = .ok (ordToInt (pepOrd a b)) := by
  have hpa : pepExt a = ea.getD {} := by unfold pepExt; rw [ha]; cases ea <;> rfl
  have hpb : pepExt b = eb.getD {} := by unfold pepExt; rw [hb]; cases eb <;> rfl
  unfold vcompare pepCompare
  simp only [hs, ha, hb, bne_self_eq_false, Bool.false_eq_true, ↓reduceIte]
  congr 1
  unfold pepOrd PV.cmp
  rw [compareLex, ← thenInt_eq]
  congr 1
  · simp [compareOn, pview, hpa, hpb, sgnInt_eq]
  rw [compareLex, ← thenInt_eq]
  congr 1
  · simp [pview, compareNums_eq]
  have key : thenInt (sgnInt (ea.getD {}).rank (eb.getD {}).rank) (pepTail (ea.getD {}) (eb.getD {})) =
      ordToInt ((compareLex (compareOn PV.rank) <|
       compareLex (compareOn PV.preNum) <|
       compareLex (fun a b => localOrd a.loc b.loc) <|
       compareLex (compareOn PV.postNum) <|
       compareLex (compareOn PV.devAbsent) (compareOn PV.devNum)) (pview a) (pview b)) := by
    rw [compareLex, ← thenInt_eq]
    have hrk : ordToInt (compareOn PV.rank (pview a) (pview b)) = sgnInt (ea.getD {}).rank (eb.getD {}).rank := by
      simp [compareOn, pview, hpa, hpb, sgnInt_eq]
    rw [hrk]
    apply thenInt_congr
    intro h0
    exact pepTail_eq _ _ (sgnInt_eq_zero.mp h0) a b hpa hpb
  by_cases hn : (ea.isNone && eb.isNone) = true
  · simp only [hn, ↓reduceIte]
    have h1 : ea = none := by cases ea <;> simp_all
    have h2 : eb = none := by cases eb <;> simp_all
    rw [← key, h1, h2]
    decide
  · simp only [hn, Bool.false_eq_true, ↓reduceIte]
    exact key

end DepsDev.Proofs
