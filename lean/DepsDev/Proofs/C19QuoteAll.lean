/-
Helper lemmas for C19, part 12: `Quote`'s output as a sequence of chunks, for arbitrary
byte strings, and what follows from it: `Unquote(Quote(v)) = v`, and the pieces
`strings.Fields` cuts the quoted text into.
-/
import DepsDev.Proofs.C19Chunks

namespace DepsDev.Proofs.C19
open DepsDev DepsDev.Gen DepsDev.Model.Resolve DepsDev.Model.Resolve.Attr DepsDev.Model.Resolve.AttrText
open DepsDev.Model.Resolve.AttrMachine

/-- `Q` is `quoteGo v 0`, escape by escape. -/
inductive Chunks : Bytes → Bytes → Prop
  | nil : Chunks [] []
  | cons {p E v Q : Bytes} : Chunk p E → Chunks v Q → Chunks (p ++ v) (E ++ Q)

theorem quoteGo_skip (pre rest : Bytes) : quoteGo (pre ++ rest) pre.length = quoteGo rest 0 := by
  induction pre with
  | nil => rfl
  | cons a pre ih => simp only [List.cons_append, List.length_cons, quoteGo]; exact ih

theorem chunks_quote_aux (n : Nat) : ∀ v : Bytes, v.length ≤ n → Chunks v (quoteGo v 0) := by
  induction n with
  | zero =>
    intro v hv
    have : v = [] := List.eq_nil_of_length_eq_zero (by omega)
    subst this
    exact Chunks.nil
  | succ n ih =>
    intro v hv
    cases v with
    | nil => exact Chunks.nil
    | cons b rest =>
      have hwd := decodeRune_width (b :: rest) (by simp)
      cases hdec : decodeRune (b :: rest) with
      | mk r w =>
        rw [hdec] at hwd
        simp only at hwd
        rw [quoteGo]
        simp only [hdec]
        by_cases hw1 : w = 1
        · subst hw1
          rcases decodeRune_w1 b rest r hdec with ⟨hlt, hr⟩ | ⟨hge, hr⟩
          · -- ASCII
            have hne : (r == 0xFFFD) = false := by simp only [beq_eq_false_iff_ne, ne_eq]; omega
            rw [if_neg (by simp [hne])]
            have := Chunks.cons (chunk_ascii b hlt) (ih rest (by simp at hv; omega))
            rw [hr]
            simpa using this
          · -- invalid byte
            have hne : (r == 0xFFFD) = true := by simp [hr]
            rw [if_pos (by simp [hne])]
            have := Chunks.cons (chunk_invalid b hge) (ih rest (by simp at hv; omega))
            simpa [hexEsc] using this
        · -- a valid multi-byte rune
          have hw2 : 2 ≤ w := by omega
          obtain ⟨p, rest', hsplit, hlen, henc, hr80, hval, hbytes, htail, hhead, hstab⟩ :=
            decodeRune_multi (b :: rest) r w hdec hw2
          rw [if_neg (by simp [hw1])]
          cases hp : p with
          | nil => rw [hp] at hlen; simp at hlen; omega
          | cons c p' =>
            rw [hp] at hsplit hlen
            simp only [List.cons_append] at hsplit
            injection hsplit with hbc hrest
            have hl' : p'.length = w - 1 := by simp at hlen; omega
            rw [hrest, ← hl', quoteGo_skip]
            have hch := chunk_multi p r w hr80 hval henc (by rw [hp]; exact hlen) hw2 hbytes htail hhead hstab
            have hrec := ih rest' (by
              simp only [List.length_cons] at hv
              rw [hrest, List.length_append] at hv
              omega)
            have := Chunks.cons hch hrec
            rw [hp] at this
            simp only [List.cons_append] at this
            rw [hbc]
            exact this

theorem chunks_quote (v : Bytes) : Chunks v (quoteGo v 0) := chunks_quote_aux v.length v (Nat.le_refl _)

/-! ### Unquote reads Quote's output back -/

theorem unquoteGo_chunk {p E : Bytes} (c : Chunk p E) (tail buf : Bytes) :
    unquoteGo (E ++ tail) 0 buf = unquoteGo tail 0 (buf ++ p) := by
  have happ := c.uq tail
  cases he : E with
  | nil => exact absurd he c.ene
  | cons x xs =>
    have hq := c.hq; have hn := c.hn
    rw [he] at happ hq hn
    have hx1 : ¬ x = 0x22 := by simpa using hq
    have hx2 : ¬ x = 0x0A := by simpa using hn
    simp only [List.cons_append] at happ ⊢
    rw [unquoteGo]
    simp only [beq_iff_eq, hx1, if_false, happ, hx2, List.length_cons, Nat.add_sub_cancel]
    exact unquoteGo_skip xs tail _

theorem unquoteGo_chunks {v Q : Bytes} (h : Chunks v Q) :
    ∀ buf, unquoteGo (Q ++ [0x22]) 0 buf = some (buf ++ v) := by
  induction h with
  | nil => intro buf; simp [unquoteGo]
  | cons c _ ih =>
    intro buf
    rw [List.append_assoc, unquoteGo_chunk c, ih]
    simp

theorem splitAt1_chunks {v Q : Bytes} (h : Chunks v Q) :
    ∃ pre rem, splitAt1 0x22 (Q ++ [0x22]) = some (pre, rem) ∧
      (pre.contains 0x5C = false → pre = v ∧ rem = [] ∧ v.contains 0x0A = false ∧ validGo v 0 = true) := by
  induction h with
  | nil => exact ⟨[], [], by simp [splitAt1], fun _ => ⟨rfl, rfl, rfl, rfl⟩⟩
  | @cons p E v Q c _ ih =>
    obtain ⟨pre', rem', hsp, himp⟩ := ih
    rw [List.append_assoc]
    cases hc : E.contains 0x5C with
    | true =>
      have hh := c.bs hc
      cases he : E with
      | nil => exact absurd he c.ene
      | cons x xs =>
        rw [he] at hh
        have hx : x = 0x5C := by simpa using hh
        subst hx
        obtain ⟨q, hq⟩ := splitAt1_some 0x22 (xs ++ Q)
        rw [List.append_assoc] at hq
        refine ⟨0x5C :: q.1, q.2, ?_, ?_⟩
        · simp [splitAt1, hq]
        · intro h; simp at h
    | false =>
      obtain ⟨he, hq22, hq0a, hvalid⟩ := c.raw hc
      rw [he]
      -- p has no quote: the split passes over it
      have hpass : ∀ (l : Bytes), l.contains 0x22 = false → ∀ X pre rem, splitAt1 0x22 X = some (pre, rem) →
          splitAt1 0x22 (l ++ X) = some (l ++ pre, rem) := by
        intro l
        induction l with
        | nil => intro _ X pre rem h; simpa using h
        | cons a l ihl =>
          intro hl X pre rem h
          simp only [List.contains_cons, Bool.or_eq_false_iff] at hl
          have ha : (a == 0x22) = false := by
            have := hl.1
            simp only [beq_eq_false_iff_ne, ne_eq] at this ⊢
            exact fun e => this e.symm
          simp only [List.cons_append, splitAt1, ha, Bool.false_eq_true, if_false, ihl hl.2 X pre rem h]
          rfl
      refine ⟨p ++ pre', rem', hpass p hq22 _ _ _ hsp, ?_⟩
      intro h
      have h' : pre'.contains 0x5C = false := by
        cases hcc : pre'.contains 0x5C with
        | false => rfl
        | true =>
          have : (p ++ pre').contains 0x5C = true := by
            rw [List.contains_iff_mem] at hcc ⊢
            exact List.mem_append_right _ hcc
          rw [this] at h; cases h
      obtain ⟨e1, e2, e3, e4⟩ := himp h'
      refine ⟨by rw [e1], e2, ?_, ?_⟩
      · cases hcc : (p ++ v).contains 0x0A with
        | false => rfl
        | true =>
          rw [List.contains_iff_mem, List.mem_append] at hcc
          rcases hcc with hm | hm
          · rw [← List.contains_iff_mem, hq0a] at hm; cases hm
          · rw [← List.contains_iff_mem, e3] at hm; cases hm
      · rw [hvalid v]; exact e4

/-- `strconv.Unquote(strconv.Quote(v)) = v` for EVERY byte string `v` (valid UTF-8 or not). -/
theorem unquote_quote_all (v : Bytes) : unquote (quote v) = some v := by
  obtain ⟨pre, rem, hsp, himp⟩ := splitAt1_chunks (chunks_quote v)
  simp only [unquote, quote, beq_self_eq_true, if_true, hsp]
  by_cases hcond : (!pre.contains 0x5C && !pre.contains 0x0A && validString pre) = true
  · simp only [hcond, if_true]
    simp only [Bool.and_eq_true, Bool.not_eq_eq_eq_not, Bool.not_true] at hcond
    obtain ⟨e1, e2, _⟩ := himp hcond.1.1
    simp [e1, e2]
  · simp only [hcond, Bool.false_eq_true, if_false]
    have := unquoteGo_chunks (chunks_quote v) []
    simpa using this

end DepsDev.Proofs.C19
