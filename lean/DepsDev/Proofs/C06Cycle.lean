import DepsDev.Proofs.C06Tree

/-! Helper lemmas for C06/C04: the two-package alias cycle of DESIGN section 8
(F-C04-npm-alias-cycle) on which the npm resolver never finishes.

`c@2.0.0 {alias1: npm:b@^1.0.0}`, `b@1.1.0 {alias1: npm:c@^2.0.0}`, root `c@2.0.0`.
Names: 5 `1.1.0`, 6 `2.0.0`, 7 `^1.0.0`, 8 `^2.0.0`, 9 `alias1`, 10 `b`, 11 `c`.

The run builds an ever deeper chain `alias1/alias1/…`: processing the node at depth `k`
walks up, finds the slot `alias1` of its parent occupied — by the node itself —, compares
only the occupant's version with the range, decides "shadowed", and installs a fresh copy of
the other package one level deeper. -/

namespace DepsDev.Resolve.Npm.Cycle

open DepsDev.Resolve.Npm

def al : AttrSet := ⟨0, [(8, 9)]⟩
def verB : Version := ⟨10, 5, ⟨0, []⟩⟩
def verC : Version := ⟨11, 6, ⟨0, []⟩⟩
/-- `b`'s requirement: `alias1: npm:c@^2.0.0`. -/
def impB : Import := ⟨11, 8, al⟩
/-- `c`'s requirement: `alias1: npm:b@^1.0.0`. -/
def impC : Import := ⟨10, 7, al⟩

def cycleU : Universe where
  versions := [(verB, [impB]), (verC, [impC])]
  matching := [((10, 4), some []), ((11, 8), some [verC]), ((11, 4), some []), ((10, 7), some [verB])]
  semver := [(8, some [6]), (7, some [5])]

/-- the version at a depth of parity `b` (`true` = even = `c`). -/
def verOf (b : Bool) : Version := if b then verC else verB
def impOf (b : Bool) : Import := if b then impC else impB

def A : Slot := ⟨true, 9⟩
def rep (k : Nat) : Path := List.replicate k A

theorem rep_succ (k : Nat) : rep (k + 1) = A :: rep k := rfl

theorem rep_inj {j k : Nat} (h : rep j = rep k) : j = k := by
  have := congrArg List.length h
  simpa [rep] using this

theorem alias_impOf (b : Bool) : (impOf b).alias = 9 := by cases b <;> rfl
theorem name_impOf (b : Bool) : (impOf b).name = (verOf (!b)).name := by cases b <;> rfl

/-- The state after `k` installs: the keys of the tree are exactly the chain `rep 0 … rep k`,
the deepest node is unprocessed and is the only thing in the queue. -/
structure Chain (k : Nat) (b : Bool) (st : State) : Prop where
  keys : ∀ p, p ∈ st.tree.keys ↔ ∃ j, j ≤ k ∧ p = rep j
  leaf : ∃ n, st.tree.get? (rep k) = some n ∧ n.processed = false ∧ n.ideps = [impOf b] ∧
    n.ver = verOf b ∧ n.id < st.nodes.length

section step

variable {t : Tree} {k : Nat}

theorem get?_rep_succ_none (hk : ∀ p, p ∈ t.keys ↔ ∃ j, j ≤ k ∧ p = rep j) :
    t.get? (rep (k + 1)) = none := by
  rw [Tree.get?_eq_none, hk]
  rintro ⟨j, hj, hjk⟩
  have := rep_inj hjk
  omega

theorem get?_false_none (hk : ∀ p, p ∈ t.keys ↔ ∃ j, j ≤ k ∧ p = rep j) (x : Name) (p : Path) :
    t.get? (⟨false, x⟩ :: p) = none := by
  rw [Tree.get?_eq_none, hk]
  rintro ⟨j, _, hjk⟩
  cases j with
  | zero => cases hjk
  | succ j =>
    rw [rep_succ] at hjk
    simp only [List.cons.injEq] at hjk
    have := hjk.1
    simp [A] at this

theorem candidate_leaf_none (hk : ∀ p, p ∈ t.keys ↔ ∃ j, j ≤ k ∧ p = rep j) (ipk : Name) :
    candidate t (rep k) ipk 9 = none := by
  unfold candidate
  have h1 : t.get? (⟨true, 9⟩ :: rep k) = none := get?_rep_succ_none hk
  have h2 : t.get? (⟨false, 9⟩ :: rep k) = none := get?_false_none hk 9 _
  simp [Name.empty, h1, h2]

theorem candidate_parent (k' : Nat) {n : TNode} (hn : t.get? (rep (k' + 1)) = some n) (ipk : Name) :
    candidate t (rep k') ipk 9 = some (rep (k' + 1), n, false) := by
  unfold candidate
  have h1 : t.get? (⟨true, 9⟩ :: rep k') = some n := hn
  simp [Name.empty, h1, rep_succ, A]

theorem walkUp_of_walkAt_some {u : Universe} {t : Tree} {i : Import} {d : List Version} {p : Path}
    {r : Option Path} (h : walkAt u t i d p = .ok (some r)) : walkUp u t i d p = .ok r := by
  cases p <;> simp [walkUp, h]

theorem walkUp_cons_of_none {u : Universe} {t : Tree} {i : Import} {d : List Version} {s : Slot} {p : Path}
    (h : walkAt u t i d (s :: p) = .ok none) : walkUp u t i d (s :: p) = walkUp u t i d p := by
  simp [walkUp, h]

theorem constraintMatch_self (b : Bool) :
    cycleU.constraintMatch (impOf b).req (verOf b).version = .ok false := by
  cases b <;> decide

/-- The walk-up from the leaf does not resolve: at the leaf the slot is free; one level up the
slot holds the leaf itself, whose version does not satisfy its own requirement. -/
theorem walkUp_leaf (hk : ∀ p, p ∈ t.keys ↔ ∃ j, j ≤ k ∧ p = rep j) (b : Bool) {n : TNode}
    (hn : t.get? (rep k) = some n) (hv : n.ver = verOf b) (dvers : List Version) :
    walkUp cycleU t (impOf b) dvers (rep k) = .ok none := by
  have hleaf : walkAt cycleU t (impOf b) dvers (rep k) = .ok none := by
    unfold walkAt
    rw [alias_impOf, candidate_leaf_none hk]
  cases k with
  | zero =>
    show walkUp cycleU t (impOf b) dvers [] = .ok none
    simp only [walkUp]
    have : walkAt cycleU t (impOf b) dvers [] = .ok none := hleaf
    rw [this]
  | succ k' =>
    rw [rep_succ] at hleaf ⊢
    rw [walkUp_cons_of_none hleaf]
    apply walkUp_of_walkAt_some
    unfold walkAt
    rw [alias_impOf, candidate_parent k' hn]
    simp only
    rw [hv, constraintMatch_self]

theorem matching_impOf (b : Bool) :
    cycleU.matchingVersions (impOf b).name (impOf b).req = .ok [verOf (!b)] := by
  cases b <;> decide

theorem wouldPick_impOf (b : Bool) : wouldPick cycleU [verOf (!b)] = .ok (some (verOf (!b))) := by
  cases b <;> decide

theorem newTreeNode_verOf (b : Bool) (id : Nat) :
    newTreeNode cycleU (verOf b) id = .ok ⟨verOf b, [impOf b], false, [], [], id⟩ := by
  cases b <;> rfl

theorem hoist_leaf (hk : ∀ p, p ∈ t.keys ↔ ∃ j, j ≤ k ∧ p = rep j) (pkg : Name) {n : TNode}
    (hn : t.get? (rep k) = some n) :
    hoist pkg 9 t (rep k) = .ok (t, rep k) := by
  cases k with
  | zero => rfl
  | succ k' =>
    rw [rep_succ]
    simp only [hoist]
    obtain ⟨m, hm⟩ := Tree.mem_keys_get? ((hk (rep k')).2 ⟨k', Nat.le_succ _, rfl⟩)
    rw [hm]
    simp only
    rw [candidate_parent k' hn]
    simp

theorem name_ne (b : Bool) : (verOf b).name ≠ (verOf (!b)).name := by cases b <;> decide

end step

/-- One iteration of the main loop on a chain state yields the next chain state. -/
theorem loop_step (fuel k : Nat) (b : Bool) (st : State) (hc : Chain k b st) :
    ∃ st', Chain (k + 1) (!b) st' ∧
      loop cycleU (fuel + 1) [rep k] st = loop cycleU fuel [rep (k + 1)] st' := by
  obtain ⟨n, hn, hproc, hideps, hver, hid⟩ := hc.leaf
  -- the tree after `cur.processed = true`
  let t1 := st.tree.modify (rep k) setProcessed
  have hk1 : ∀ p, p ∈ t1.keys ↔ ∃ j, j ≤ k ∧ p = rep j := by
    intro p; rw [Tree.keys_modify]; exact hc.keys p
  have hn1 : t1.get? (rep k) = some (setProcessed n) := by
    show (st.tree.modify (rep k) setProcessed).get? (rep k) = _
    rw [Tree.get?_modify]; simp [hn]
  have hv1 : (setProcessed n).ver = verOf b := hver
  -- the new node
  let node : TNode := ⟨verOf (!b), [impOf (!b)], false, [], [], st.nodes.length⟩
  let st' : State :=
    { tree := t1 ++ [(rep (k + 1), node)],
      nodes := st.nodes ++ [⟨(verOf (!b)).name, (verOf (!b)).version, []⟩],
      edges := st.edges ++ [⟨n.id, st.nodes.length, (impOf b).ty.set depSelector Name.empty, impOf b, true⟩] }
  refine ⟨st', ⟨?_, ?_⟩, ?_⟩
  · -- keys
    intro p
    show p ∈ (t1 ++ [(rep (k + 1), node)]).keys ↔ _
    rw [Tree.keys_append]
    simp only [List.mem_append, Tree.keys_cons, Tree.keys_nil, List.mem_singleton]
    rw [hk1]
    constructor
    · rintro (⟨j, hj, rfl⟩ | rfl)
      · exact ⟨j, Nat.le_succ_of_le hj, rfl⟩
      · exact ⟨k + 1, Nat.le_refl _, rfl⟩
    · rintro ⟨j, hj, rfl⟩
      rcases Nat.lt_or_ge j (k + 1) with h | h
      · exact Or.inl ⟨j, Nat.le_of_lt_succ h, rfl⟩
      · have : j = k + 1 := Nat.le_antisymm hj h
        subst this; exact Or.inr rfl
  · -- leaf
    refine ⟨node, ?_, rfl, rfl, rfl, ?_⟩
    · show (t1 ++ [(rep (k + 1), node)]).get? (rep (k + 1)) = some node
      apply Tree.get?_append_single_new
      rw [← Tree.get?_eq_none]
      exact get?_rep_succ_none hk1
    · show st.nodes.length < (st.nodes ++ [_]).length
      simp
  · -- the computation
    have hstep : stepDep cycleU (rep k) n.id ⟨{ st with tree := t1 }, []⟩ (impOf b) =
        .ok ⟨st', [rep (k + 1)]⟩ := by
      unfold stepDep
      simp only [matching_impOf, walkUp_leaf hk1 b hn1 hv1, wouldPick_impOf, newTreeNode_verOf]
      have hcand : (candidate t1 (rep k) (verOf (!b)).name (impOf b).alias).isSome = false := by
        rw [alias_impOf, candidate_leaf_none hk1]; rfl
      simp only [hcand, Bool.false_eq_true, if_false]
      rw [alias_impOf, hoist_leaf hk1 _ hn1]
      simp only [hn1]
      have hne : ¬ (rep k ≠ [] ∧ (setProcessed n).ver.name = (verOf (!b)).name) := by
        rintro ⟨_, h⟩
        rw [hv1] at h
        exact name_ne b h
      simp only [hne, if_false]
      have halias : ¬ ((9 : Name) = Name.empty) := by decide
      simp only [halias, if_false, State.addNode]
      have hlt : n.id < (st.nodes ++ [(⟨(verOf (!b)).name, (verOf (!b)).version, []⟩ : GNode)]).length ∧
          st.nodes.length < (st.nodes ++ [(⟨(verOf (!b)).name, (verOf (!b)).version, []⟩ : GNode)]).length := by
        simp only [List.length_append, List.length_singleton]
        omega
      simp only [State.addEdge, hlt, and_self, if_true]
      rfl
    simp only [loop, hn, hproc, Bool.false_eq_true, if_false, hideps, stepDeps]
    rw [hstep]
    simp only [List.append_nil]

/-- On a chain state the loop never finishes, whatever the fuel. -/
theorem loop_chain_none (fuel : Nat) : ∀ (k : Nat) (b : Bool) (st : State), Chain k b st →
    loop cycleU fuel [rep k] st = none := by
  induction fuel with
  | zero => intro k b st _; rfl
  | succ fuel ih =>
    intro k b st hc
    obtain ⟨st', hc', heq⟩ := loop_step fuel k b st hc
    rw [heq]
    exact ih (k + 1) (!b) st' hc'

/-- The initial state of `Resolve` on the root `c@2.0.0`. -/
def st0 : State := ⟨[([], ⟨verC, [impC], false, [], [], 0⟩)], [⟨11, 6, []⟩], []⟩

theorem chain0 : Chain 0 true st0 := by
  refine ⟨?_, ⟨⟨verC, [impC], false, [], [], 0⟩, rfl, rfl, rfl, rfl, by decide⟩⟩
  intro p
  simp only [st0, Tree.keys, List.map_cons, List.map_nil, List.mem_singleton]
  constructor
  · rintro rfl; exact ⟨0, Nat.le_refl _, rfl⟩
  · rintro ⟨j, hj, rfl⟩
    have : j = 0 := by omega
    subst this; rfl

theorem resolve_cycle (fuel : Nat) : resolve cycleU 11 6 fuel = loop cycleU fuel [rep 0] st0 := rfl

end DepsDev.Resolve.Npm.Cycle
