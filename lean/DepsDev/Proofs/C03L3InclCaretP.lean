import DepsDev.Proofs.C03L3InclCaret

/-!
# C03 layer L3 for npm, operator `caret`: interval membership, operands with a prerelease tag; `L1PNpm .caret`
-/
namespace DepsDev.Proofs.C03

open DepsDev DepsDev.Semver DepsDev.Ref

set_option linter.unusedSimpArgs false
set_option linter.unusedVariables false

theorem l1p_pre_lt_caret : L1PPreO .caret .lt := by l1p_pre
theorem l1p_pre_eq_caret : L1PPreO .caret .eq := by l1p_pre
theorem l1p_pre_gt_caret : L1PPreO .caret .gt := by l1p_pre

theorem l1p_npm_caret : L1PNpm .caret :=
  l1p_assemble _ l1p_full_caret (l1p_pre_assemble _ l1p_pre_lt_caret l1p_pre_eq_caret l1p_pre_gt_caret) l1p_part_caret

end DepsDev.Proofs.C03
