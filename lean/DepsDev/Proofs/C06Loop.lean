import DepsDev.Proofs.C06Inv

/-! Helper lemmas for C06: the invariant is established by `resolve`'s initial state and
preserved by `stepDep`, `stepDeps` and the main loop. -/

namespace DepsDev.Resolve.Npm

/-- The static invariant of a resolver state. -/
def Inv (u : Universe) (st : State) : Prop := SInv u st.tree.static st.nodes st.edges

/-- E2 for one requirement of one node: an edge that resolves it, or an error naming it. -/
def HasEdgeOrErr (nodes : List GNode) (edges : List Edge) (i : Nat) (d : Import) : Prop :=
  (∃ e ∈ edges, e.src = i ∧ e.imp = d) ∨ (∃ g, nodes[i]? = some g ∧ (d.name, d.req) ∈ g.errs)

theorem HasEdgeOrErr.mono {nodes nodes' : List GNode} {edges edges' : List Edge} {i : Nat} {d : Import}
    (hn : NodesLe nodes nodes') (he : ∀ e ∈ edges, e ∈ edges') (h : HasEdgeOrErr nodes edges i d) :
    HasEdgeOrErr nodes' edges' i d := by
  rcases h with ⟨e, hmem, h1, h2⟩ | ⟨g, hg, hr⟩
  · exact Or.inl ⟨e, he e hmem, h1, h2⟩
  · obtain ⟨g', hg', _, _, herr⟩ := hn i g hg
    exact Or.inr ⟨g', hg', herr _ hr⟩

theorem Tree.mem_keys_iff_static {t : Tree} {p : Path} : p ∈ t.static.map (·.path) ↔ p ∈ t.keys := by
  rw [Tree.static_keys]

/-- What one successful dependency step guarantees. -/
structure StepPost (u : Universe) (curId : Nat) (a a' : Acc) (deps : List Import) : Prop where
  inv : Inv u a'.st
  dyn : ∃ new, a'.st.tree.dyn = a.st.tree.dyn ++ new ∧ ∀ e ∈ new, e.processed = false ∧ e.path ∈ a'.ins
  nodes_le : NodesLe a.st.nodes a'.st.nodes
  edges_sub : ∀ e ∈ a.st.edges, e ∈ a'.st.edges
  ins_sub : ∀ p ∈ a.ins, p ∈ a'.ins
  ins_keys : ∀ p ∈ a'.ins, p ∈ a.ins ∨ p ∈ a'.st.tree.keys
  handled : ∀ d ∈ deps, HasEdgeOrErr a'.st.nodes a'.st.edges curId d
  edges_new : ∀ e ∈ a'.st.edges, e ∈ a.st.edges ∨ (e.src = curId ∧ e.imp ∈ deps)
  static_new : ∀ x ∈ a'.st.tree.static, x ∈ a.st.tree.static ∨
    ∃ s parent, x.path = s :: parent ∧ (s.alias = true → ∃ d ∈ deps, d.alias ≠ Name.empty)

theorem keyEq_iff {v w : Version} : v.keyEq w = true ↔ v.name = w.name ∧ v.version = w.version := by
  simp [Version.keyEq]

theorem stepDep_post {u : Universe} {cur : Path} {curId : Nat} {a a' : Acc} {idep : Import}
    (h : stepDep u cur curId a idep = .ok a') (hinv : Inv u a.st)
    (hcur : ∃ e ∈ a.st.tree.dyn, e.path = cur ∧ e.id = curId) :
    StepPost u curId a a' [idep] := by
  have hcurlt : curId < a.st.nodes.length := by
    obtain ⟨e, he, _, hid⟩ := hcur
    rw [← hid]
    exact hinv.id_lt e.static (Tree.mem_static_of_mem_dyn he)
  rcases stepDep_cases h with
    ⟨dvers, rp, rn, hm, hw, hg, hlt, ht, hn, he, hi⟩ |
    ⟨dvers, hm, hw, ht, hn, he, hi⟩ |
    ⟨dvers, pick, node, tree, parent, pn, hm, hw, hp, hnode, hc, hh, hpn, hun, hlt, ht, hn, he, hi⟩
  · -- reuse
    have hdyn : a'.st.tree.dyn = a.st.tree.dyn := by rw [ht]; exact markProtected_dyn _ _ _ _
    have hstat : a'.st.tree.static = a.st.tree.static := Tree.static_eq_of_dyn hdyn
    have hrn : (rn.dentry rp).static ∈ a.st.tree.static :=
      Tree.mem_static_of_mem_dyn (Tree.mem_dyn_of_get? hg)
    have hok : EdgeOK u a.st.tree.static a.st.nodes ⟨curId, rn.id, idep.ty, idep, false⟩ := by
      obtain ⟨g, hg'⟩ : ∃ g, a.st.nodes[rn.id]? = some g :=
        ⟨a.st.nodes[rn.id], List.getElem?_eq_getElem hlt.2⟩
      have hgn := hinv.id_node _ hrn g hg'
      simp only [DEntry.static, TNode.dentry] at hgn
      obtain ⟨stop, _, _, hat⟩ := walkUp_some hw
      obtain ⟨child, b, hcand, hcase⟩ := walkAt_some hat
      obtain ⟨hget, s, hrp, hsname, hbt, hbf⟩ := candidate_some hcand
      have hchild : child = rn := by rw [hg] at hget; cases hget; rfl
      subst hchild
      refine ⟨dvers, g, hm, hg', ?_⟩
      rcases hcase with ⟨hb, hany | hstar⟩ | ⟨hb, hcm⟩
      · obtain ⟨d, hd, hk⟩ := List.any_eq_true.1 hany
        rw [keyEq_iff] at hk
        exact Or.inr (Or.inl ⟨rfl, d, hd, hgn.1.trans hk.1, hgn.2.trans hk.2⟩)
      · obtain ⟨hal, hsal⟩ := hbt hb
        have hs : s = ⟨false, idep.name⟩ := by
          cases s; simp_all
        have := hinv.slot_name _ hrn idep.name stop (by simp [DEntry.static, TNode.dentry, hrp, hs])
        simp only [DEntry.static, TNode.dentry] at this
        exact Or.inr (Or.inr (Or.inl ⟨rfl, hstar, hal, hgn.1.trans this⟩))
      · refine Or.inr (Or.inr (Or.inr ⟨rfl, ?_, by rw [hgn.2]; exact hcm⟩))
        rcases hbf hb with hal | hsal
        · exact Or.inl hal
        · exact Or.inr ⟨_, hrn, s, by simp [DEntry.static, TNode.dentry, hrp], hsal⟩
    refine ⟨?_, ⟨[], by simp [hdyn], by simp⟩, by rw [hn]; exact NodesLe.refl _, ?_, ?_, ?_, ?_, ?_, ?_⟩
    · unfold Inv; rw [hstat, hn, he]
      exact hinv.reuse _ hlt.1 hlt.2 hok
    · intro e hmem; rw [he]; exact List.mem_append_left _ hmem
    · intro p hp; rw [hi]; split
      · exact hp
      · exact List.mem_append_left _ hp
    · intro p hp; rw [hi] at hp
      split at hp
      · exact Or.inl hp
      · rcases List.mem_append.1 hp with hp | hp
        · exact Or.inl hp
        · simp only [List.mem_singleton] at hp; subst hp
          right
          rw [Tree.keys_eq_of_dyn hdyn]
          exact Tree.mem_keys_of_mem (Tree.get?_some_mem hg)
    · intro d hd; simp only [List.mem_singleton] at hd; subst hd
      left
      exact ⟨_, by rw [he]; exact List.mem_append_right _ (List.mem_singleton.2 rfl), rfl, rfl⟩
    · intro e hmem; rw [he] at hmem
      rcases List.mem_append.1 hmem with hmem | hmem
      · exact Or.inl hmem
      · simp only [List.mem_singleton] at hmem; subst hmem; exact Or.inr ⟨rfl, List.mem_singleton.2 rfl⟩
    · intro x hx; rw [hstat] at hx; exact Or.inl hx
  · -- error
    have hdyn : a'.st.tree.dyn = a.st.tree.dyn := by
      rcases ht with ht | ⟨pick, node, parent, _, _, hh⟩
      · rw [ht]
      · exact (hoist_dyn hh).1
    have hstat : a'.st.tree.static = a.st.tree.static := Tree.static_eq_of_dyn hdyn
    refine ⟨?_, ⟨[], by simp [hdyn], by simp⟩, by rw [hn]; exact NodesLe.addErr _ _ _, ?_, ?_, ?_, ?_, ?_, ?_⟩
    · unfold Inv; rw [hstat, hn, he]; exact hinv.addErr _ _
    · intro e hmem; rw [he]; exact hmem
    · intro p hp; rw [hi]; exact hp
    · intro p hp; rw [hi] at hp; exact Or.inl hp
    · intro d hd; simp only [List.mem_singleton] at hd; subst hd
      right
      rw [hn, addErrL_getElem?, List.getElem?_eq_getElem hcurlt]
      exact ⟨_, rfl, by simp⟩
    · intro e hmem; rw [he] at hmem; exact Or.inl hmem
    · intro x hx; rw [hstat] at hx; exact Or.inl hx
  · -- fresh
    obtain ⟨reqs, hreqs, hnodeq⟩ := newTreeNode_ok hnode
    obtain ⟨htd, _⟩ := hoist_dyn hh
    have hkeys : tree.keys = a.st.tree.keys := Tree.keys_eq_of_dyn htd
    have hver : node.ver = pick := by rw [hnodeq]
    have hid : node.id = a.st.nodes.length := by rw [hnodeq]
    have hidp : node.ideps = regularImports reqs := by rw [hnodeq]
    have hproc : node.processed = false := by rw [hnodeq]
    generalize hslot : (if idep.alias = Name.empty then (⟨false, node.ver.name⟩ : Slot) else ⟨true, idep.alias⟩) = slot at ht hi
    have hdyn : a'.st.tree.dyn = a.st.tree.dyn ++ [node.dentry (slot :: parent)] := by
      rw [ht, Tree.dyn_append, htd]; rfl
    have hstat : a'.st.tree.static = a.st.tree.static ++ [⟨slot :: parent, node.ver, node.ideps, a.st.nodes.length⟩] := by
      simp only [Tree.static, hdyn, List.map_append, List.map_cons, List.map_nil, DEntry.static, TNode.dentry, hid]
    have hparent : parent ∈ a.st.tree.static.map (·.path) := by
      rw [Tree.static_keys, ← hkeys]
      exact Tree.mem_keys_of_mem (Tree.get?_some_mem hpn)
    have hcn : candidate a.st.tree parent node.ver.name idep.alias = none := by
      have := hoist_candidate_none hh hc
      cases hcc : candidate a.st.tree parent node.ver.name idep.alias with
      | none => rfl
      | some x => rw [hcc] at this; simp at this
    have hfree : ∀ b, (⟨b, slot.name⟩ :: parent : Path) ∉ a.st.tree.static.map (·.path) := by
      intro b
      rw [Tree.static_keys]
      have := (candidate_none_iff _ _ _ _).1 hcn
      by_cases hal : idep.alias = Name.empty
      · simp only [hal, if_true] at this hslot
        rw [← hslot]
        cases b
        · exact this.1
        · exact this.2
      · simp only [hal, if_false] at this hslot
        rw [← hslot]
        cases b
        · exact this.2
        · exact this.1
    have hslotname : slot.alias = false → slot.name = node.ver.name := by
      intro hsa
      by_cases hal : idep.alias = Name.empty
      · simp only [hal, if_true] at hslot; rw [← hslot]
      · simp only [hal, if_false] at hslot; rw [← hslot] at hsa; cases hsa
    refine ⟨?_, ⟨[node.dentry (slot :: parent)], hdyn, ?_⟩, by rw [hn]; exact NodesLe.append _ _, ?_, ?_, ?_, ?_, ?_, ?_⟩
    · unfold Inv; rw [hstat, hn, he]
      refine hinv.fresh slot parent node.ver node.ideps _ hparent hfree ⟨reqs, by rw [hver]; exact hreqs, hidp⟩
        hslotname hcurlt rfl ?_
      refine ⟨dvers, ⟨node.ver.name, node.ver.version, []⟩, hm, by simp, Or.inl ⟨rfl, pick, hp, ?_, ?_⟩⟩
      · rw [hver]
      · rw [hver]
    · intro e he'
      simp only [List.mem_singleton] at he'
      subst he'
      exact ⟨hproc, by rw [hi]; exact List.mem_append_right _ (List.mem_singleton.2 rfl)⟩
    · intro e hmem; rw [he]; exact List.mem_append_left _ hmem
    · intro p hp; rw [hi]; exact List.mem_append_left _ hp
    · intro p hp; rw [hi] at hp
      rcases List.mem_append.1 hp with hp | hp
      · exact Or.inl hp
      · simp only [List.mem_singleton] at hp; subst hp
        right; rw [ht]; simp
    · intro d hd; simp only [List.mem_singleton] at hd; subst hd
      left
      exact ⟨_, by rw [he]; exact List.mem_append_right _ (List.mem_singleton.2 rfl), rfl, rfl⟩
    · intro e hmem; rw [he] at hmem
      rcases List.mem_append.1 hmem with hmem | hmem
      · exact Or.inl hmem
      · simp only [List.mem_singleton] at hmem; subst hmem; exact Or.inr ⟨rfl, List.mem_singleton.2 rfl⟩
    · intro x hx; rw [hstat] at hx
      rcases List.mem_append.1 hx with hx | hx
      · exact Or.inl hx
      · simp only [List.mem_singleton] at hx; subst hx
        refine Or.inr ⟨slot, parent, rfl, ?_⟩
        intro hsa
        refine ⟨idep, List.mem_singleton.2 rfl, ?_⟩
        intro hal
        simp only [hal, if_true] at hslot
        rw [← hslot] at hsa; cases hsa

theorem stepDeps_post {u : Universe} {cur : Path} {curId : Nat} {deps : List Import} {a a' : Acc}
    (h : stepDeps u cur curId deps a = .ok a') (hinv : Inv u a.st)
    (hcur : ∃ e ∈ a.st.tree.dyn, e.path = cur ∧ e.id = curId) :
    StepPost u curId a a' deps := by
  induction deps generalizing a with
  | nil =>
    simp only [stepDeps, Outcome.ok.injEq] at h
    subst h
    exact ⟨hinv, ⟨[], by simp, by simp⟩, NodesLe.refl _, fun _ h => h, fun _ h => h, fun _ h => Or.inl h,
      by simp, fun _ h => Or.inl h, fun _ h => Or.inl h⟩
  | cons d rest ih =>
    simp only [stepDeps] at h
    split at h
    · cases h
    · cases h
    · rename_i a1 h1
      have p1 := stepDep_post h1 hinv hcur
      obtain ⟨new1, hd1, hnew1⟩ := p1.dyn
      have hcur1 : ∃ e ∈ a1.st.tree.dyn, e.path = cur ∧ e.id = curId := by
        obtain ⟨e, he, h2⟩ := hcur
        exact ⟨e, by rw [hd1]; exact List.mem_append_left _ he, h2⟩
      have p2 := ih h p1.inv hcur1
      obtain ⟨new2, hd2, hnew2⟩ := p2.dyn
      refine ⟨p2.inv, ⟨new1 ++ new2, by rw [hd2, hd1, List.append_assoc], ?_⟩,
        p1.nodes_le.trans p2.nodes_le, fun e he => p2.edges_sub e (p1.edges_sub e he),
        fun p hp => p2.ins_sub p (p1.ins_sub p hp), ?_, ?_, ?_, ?_⟩
      · intro e he
        rcases List.mem_append.1 he with he | he
        · exact ⟨(hnew1 e he).1, p2.ins_sub _ (hnew1 e he).2⟩
        · exact hnew2 e he
      · intro p hp
        rcases p2.ins_keys p hp with hp | hp
        · rcases p1.ins_keys p hp with hp | hp
          · exact Or.inl hp
          · right
            rw [← Tree.dyn_keys] at hp ⊢
            rw [hd2]
            simp only [List.map_append, List.mem_append]
            exact Or.inl hp
        · exact Or.inr hp
      · intro x hx
        rcases List.mem_cons.1 hx with hx | hx
        · subst hx
          exact (p1.handled x (List.mem_singleton.2 rfl)).mono p2.nodes_le p2.edges_sub
        · exact p2.handled x hx
      · intro e he
        rcases p2.edges_new e he with he | ⟨h1, h2⟩
        · rcases p1.edges_new e he with he | ⟨h1, h2⟩
          · exact Or.inl he
          · simp only [List.mem_singleton] at h2
            exact Or.inr ⟨h1, h2 ▸ List.mem_cons_self⟩
        · exact Or.inr ⟨h1, List.mem_cons_of_mem _ h2⟩
      · intro x hx
        rcases p2.static_new x hx with hx | ⟨s, parent, hp, hal⟩
        · rcases p1.static_new x hx with hx | ⟨s, parent, hp, hal⟩
          · exact Or.inl hx
          · refine Or.inr ⟨s, parent, hp, fun hs => ?_⟩
            obtain ⟨d', hd', hne⟩ := hal hs
            simp only [List.mem_singleton] at hd'
            exact ⟨d, List.mem_cons_self, hd' ▸ hne⟩
        · refine Or.inr ⟨s, parent, hp, fun hs => ?_⟩
          obtain ⟨d', hd', hne⟩ := hal hs
          exact ⟨d', List.mem_cons_of_mem _ hd', hne⟩

/-! ## The main loop -/

structure LoopInv (u : Universe) (queue : List Path) (st : State) : Prop where
  inv : Inv u st
  queue_mem : ∀ p ∈ queue, p ∈ st.tree.keys
  unproc : ∀ e ∈ st.tree.dyn, e.processed = false → e.path ∈ queue
  done : ∀ e ∈ st.tree.dyn, e.processed = true →
    ∀ d ∈ e.ideps, HasEdgeOrErr st.nodes st.edges e.id d
  /-- every edge resolves a requirement of its source node -/
  edge_src : ∀ e ∈ st.edges, ∃ x ∈ st.tree.static, x.id = e.src ∧ e.imp ∈ x.ideps
  /-- an alias slot exists only if some installed version has an aliased requirement -/
  alias_head : ∀ s p, (s :: p) ∈ st.tree.keys → s.alias = true →
    ∃ y ∈ st.tree.static, ∃ d ∈ y.ideps, d.alias ≠ Name.empty

def DEntry.setProcessed (cur : Path) (e : DEntry) : DEntry :=
  if e.path = cur then { e with processed := true } else e

theorem Tree.dyn_setProcessed (t : Tree) (cur : Path) :
    (t.modify cur setProcessed).dyn = t.dyn.map (DEntry.setProcessed cur) := by
  simp only [Tree.modify, Tree.dyn, List.map_map]
  apply List.map_congr_left
  intro e _
  simp only [Function.comp, DEntry.setProcessed, TNode.dentry]
  split <;> simp_all [setProcessed]

theorem DEntry.setProcessed_static (cur : Path) (e : DEntry) : (e.setProcessed cur).static = e.static := by
  unfold DEntry.setProcessed; split <;> rfl

theorem Tree.static_setProcessed (t : Tree) (cur : Path) :
    (t.modify cur setProcessed).static = t.static := by
  simp only [Tree.static, Tree.dyn_setProcessed, List.map_map]
  apply List.map_congr_left
  intro e _
  exact DEntry.setProcessed_static cur e

theorem Inv.dyn_unique {u : Universe} {st : State} (h : Inv u st) {e e' : DEntry}
    (he : e ∈ st.tree.dyn) (he' : e' ∈ st.tree.dyn) (hp : e.path = e'.path) : e = e' := by
  have hk : (st.tree.dyn.map (·.path)).Nodup := by
    rw [Tree.dyn_keys, ← Tree.static_keys]; exact h.keys_nodup
  exact inj_of_nodup_map hk he he' hp

/-- Popping an already processed node leaves the invariant. -/
theorem loop_skip_inv {u : Universe} {cur : Path} {queue : List Path} {st : State} {cn : TNode}
    (hl : LoopInv u (cur :: queue) st) (hcn : st.tree.get? cur = some cn) (hproc : cn.processed = true) :
    LoopInv u queue st := by
  have hcnd : cn.dentry cur ∈ st.tree.dyn := Tree.mem_dyn_of_get? hcn
  refine ⟨hl.inv, fun p hp => hl.queue_mem p (List.mem_cons_of_mem _ hp), ?_, hl.done,
    hl.edge_src, hl.alias_head⟩
  intro e he hun
  rcases List.mem_cons.1 (hl.unproc e he hun) with hp | hp
  · have := hl.inv.dyn_unique he hcnd hp
    rw [this] at hun
    simp only [TNode.dentry] at hun
    rw [hun] at hproc; cases hproc
  · exact hp

/-- Processing the popped node `cur` re-establishes the invariant for the new queue. -/
theorem loop_step_inv {u : Universe} {cur : Path} {queue : List Path} {st : State} {cn : TNode} {a : Acc}
    (hl : LoopInv u (cur :: queue) st) (hcn : st.tree.get? cur = some cn)
    (ha : stepDeps u cur cn.id cn.ideps ⟨{ st with tree := st.tree.modify cur setProcessed }, []⟩ = .ok a) :
    LoopInv u (a.ins ++ queue) a.st := by
  have hcnd : cn.dentry cur ∈ st.tree.dyn := Tree.mem_dyn_of_get? hcn
  have hinv1 : Inv u { st with tree := st.tree.modify cur setProcessed } := by
    unfold Inv; simp only; rw [Tree.static_setProcessed]; exact hl.inv
  have hcur1 : ∃ e ∈ (st.tree.modify cur setProcessed).dyn, e.path = cur ∧ e.id = cn.id := by
    refine ⟨(cn.dentry cur).setProcessed cur, ?_, ?_, ?_⟩
    · rw [Tree.dyn_setProcessed]; exact List.mem_map.2 ⟨_, hcnd, rfl⟩
    · simp [DEntry.setProcessed, TNode.dentry]
    · simp [DEntry.setProcessed, TNode.dentry]
  have post := stepDeps_post ha hinv1 hcur1
  obtain ⟨new, hdyn, hnew⟩ := post.dyn
  simp only at hdyn
  rw [Tree.dyn_setProcessed] at hdyn
  have hkeys : ∀ p ∈ st.tree.keys, p ∈ a.st.tree.keys := by
    intro p hp
    rw [← Tree.dyn_keys] at hp ⊢
    rw [hdyn]
    simp only [List.map_append, List.mem_append, List.map_map]
    left
    obtain ⟨e, he, rfl⟩ := List.mem_map.1 hp
    refine List.mem_map.2 ⟨e, he, ?_⟩
    simp only [Function.comp, DEntry.setProcessed]
    split <;> rfl
  have hstatic : a.st.tree.static = st.tree.static ++ new.map DEntry.static := by
    simp only [Tree.static, hdyn, List.map_append, List.map_map]
    congr 1
    apply List.map_congr_left
    intro e _
    exact DEntry.setProcessed_static cur e
  have hsmono : ∀ x ∈ st.tree.static, x ∈ a.st.tree.static := by
    intro x hx; rw [hstatic]; exact List.mem_append_left _ hx
  have hcns : (cn.dentry cur).static ∈ st.tree.static := Tree.mem_static_of_mem_dyn hcnd
  refine ⟨post.inv, ?_, ?_, ?_, ?_, ?_⟩
  · intro p hp
    rcases List.mem_append.1 hp with hp | hp
    · rcases post.ins_keys p hp with hp | hp
      · cases hp
      · exact hp
    · exact hkeys p (hl.queue_mem p (List.mem_cons_of_mem _ hp))
  · intro e he hun
    rw [hdyn] at he
    rcases List.mem_append.1 he with he | he
    · obtain ⟨e0, he0, rfl⟩ := List.mem_map.1 he
      unfold DEntry.setProcessed at hun ⊢
      split at hun
      · cases hun
      · rename_i hne
        simp only [hne, if_false]
        rcases List.mem_cons.1 (hl.unproc e0 he0 hun) with hp | hp
        · exact absurd hp hne
        · exact List.mem_append_right _ hp
    · exact List.mem_append_left _ (hnew e he).2
  · intro e he hp d hd
    rw [hdyn] at he
    rcases List.mem_append.1 he with he | he
    · obtain ⟨e0, he0, rfl⟩ := List.mem_map.1 he
      by_cases hpath : e0.path = cur
      · have := hl.inv.dyn_unique he0 hcnd hpath
        subst this
        have hd' : d ∈ cn.ideps := by
          simpa [DEntry.setProcessed, TNode.dentry] using hd
        have := post.handled d hd'
        simpa [DEntry.setProcessed, TNode.dentry] using this
      · have heq : e0.setProcessed cur = e0 := by simp [DEntry.setProcessed, hpath]
        rw [heq] at hp hd ⊢
        exact (hl.done e0 he0 hp d hd).mono post.nodes_le post.edges_sub
    · rw [(hnew e he).1] at hp; cases hp
  · intro e he
    rcases post.edges_new e he with he | ⟨h1, h2⟩
    · obtain ⟨x, hx, hx1, hx2⟩ := hl.edge_src e he
      exact ⟨x, hsmono x hx, hx1, hx2⟩
    · exact ⟨_, hsmono _ hcns, h1.symm, h2⟩
  · intro s p hsp hal
    rw [← Tree.static_keys] at hsp
    obtain ⟨x, hx, hxp⟩ := List.mem_map.1 hsp
    rcases post.static_new x hx with hx | ⟨s', parent, hp', hal'⟩
    · simp only at hx
      rw [Tree.static_setProcessed] at hx
      have : (s :: p) ∈ st.tree.keys := by
        rw [← Tree.static_keys]; exact List.mem_map.2 ⟨x, hx, hxp⟩
      obtain ⟨y, hy, d, hd, hne⟩ := hl.alias_head s p this hal
      exact ⟨y, hsmono y hy, d, hd, hne⟩
    · rw [hxp] at hp'
      simp only [List.cons.injEq] at hp'
      obtain ⟨d, hd, hne⟩ := hal' (hp'.1 ▸ hal)
      exact ⟨_, hsmono _ hcns, d, hd, hne⟩

theorem loop_inv {u : Universe} {fuel : Nat} {queue : List Path} {st st' : State}
    (h : loop u fuel queue st = some (.ok st')) (hl : LoopInv u queue st) : LoopInv u [] st' := by
  induction fuel generalizing queue st with
  | zero =>
    cases queue with
    | nil => simp only [loop, Option.some.injEq, Outcome.ok.injEq] at h; subst h; exact hl
    | cons c q => simp [loop] at h
  | succ fuel ih =>
    cases queue with
    | nil => simp only [loop, Option.some.injEq, Outcome.ok.injEq] at h; subst h; exact hl
    | cons cur queue =>
      simp only [loop] at h
      split at h
      · cases h
      · rename_i cn hcn
        split at h
        · rename_i hproc
          exact ih h (loop_skip_inv hl hcn hproc)
        · split at h
          · cases h
          · cases h
          · rename_i a ha
            exact ih h (loop_step_inv hl hcn ha)

theorem resolve_inv {u : Universe} {rn rv : Name} {fuel : Nat} {st : State}
    (h : resolve u rn rv fuel = some (.ok st)) : LoopInv u [] st := by
  unfold resolve at h
  split at h
  · cases h
  · rename_i v hv
    split at h
    · cases h
    · cases h
    · rename_i root hroot
      obtain ⟨reqs, hreqs, hrooteq⟩ := newTreeNode_ok hroot
      apply loop_inv h
      subst hrooteq
      refine ⟨?_, by simp [Tree.keys], ?_, ?_, by simp, by simp [Tree.keys]⟩
      · unfold Inv
        simp only [Tree.static, Tree.dyn, List.map_cons, List.map_nil, DEntry.static, TNode.dentry]
        constructor
        · simp
        · intro s p hsp; simp at hsp
        · simp
        · intro e he; simp only [List.mem_singleton] at he; subst he; simp
        · intro e he g hg; simp only [List.mem_singleton] at he; subst he
          simp at hg; subst hg; exact ⟨rfl, rfl⟩
        · intro i hi
          simp only [List.length_singleton] at hi
          exact ⟨_, List.mem_singleton.2 rfl, by simp; omega⟩
        · simp
        · intro i hi
          simp only [List.length_singleton] at hi
          have : i = 0 := by omega
          subst this; exact .root
        · intro e he; cases he
        · intro e he; cases he
        · intro e he; simp only [List.mem_singleton] at he; subst he
          exact ⟨reqs, hreqs, rfl⟩
        · intro e he k p hp; simp only [List.mem_singleton] at he; subst he; cases hp
      · intro e he _
        simp only [Tree.dyn, List.map_cons, List.map_nil, List.mem_singleton, TNode.dentry] at he
        subst he; simp
      · intro e he hp
        simp only [Tree.dyn, List.map_cons, List.map_nil, List.mem_singleton, TNode.dentry] at he
        subst he; cases hp

end DepsDev.Resolve.Npm
