import DepsDev.Model.Resolve.Npm

/-! Helper lemmas for C06: the path-keyed install tree (`Tree.get?`, `Tree.modify`,
append), the skeleton of a tree (everything but the protection marks) and the
functions that only touch marks (`markProtected`, `hoist`). -/

namespace DepsDev.Resolve.Npm

namespace Tree

def keys (t : Tree) : List Path := t.map (·.1)

@[simp] theorem keys_nil : keys ([] : Tree) = [] := rfl
@[simp] theorem keys_cons (e : Path × TNode) (t : Tree) : keys (e :: t) = e.1 :: keys t := rfl
@[simp] theorem keys_append (t l : Tree) : keys (t ++ l) = keys t ++ keys l := by simp [keys]

theorem mem_keys_of_mem {t : Tree} {p : Path} {n : TNode} (h : (p, n) ∈ t) : p ∈ t.keys :=
  List.mem_map.2 ⟨(p, n), h, rfl⟩

theorem get?_some_mem {t : Tree} {p : Path} {n : TNode} (h : t.get? p = some n) : (p, n) ∈ t := by
  induction t with
  | nil => simp [get?] at h
  | cons e t ih =>
    obtain ⟨q, m⟩ := e
    simp only [get?] at h
    split at h
    · rename_i hq; cases h; subst hq; exact List.mem_cons_self
    · exact List.mem_cons_of_mem _ (ih h)

theorem get?_eq_none {t : Tree} {p : Path} : t.get? p = none ↔ p ∉ t.keys := by
  induction t with
  | nil => simp [get?]
  | cons e t ih =>
    obtain ⟨q, m⟩ := e
    simp only [get?, keys_cons, List.mem_cons, not_or]
    split
    · rename_i hq; simp [hq]
    · rename_i hq; rw [ih]; constructor
      · intro h; exact ⟨fun h' => hq h'.symm, h⟩
      · intro h; exact h.2

theorem get?_isSome {t : Tree} {p : Path} : (t.get? p).isSome = true ↔ p ∈ t.keys := by
  cases h : t.get? p with
  | none => simp [get?_eq_none.1 h]
  | some n => simp [mem_keys_of_mem (get?_some_mem h)]

theorem mem_keys_get? {t : Tree} {p : Path} (h : p ∈ t.keys) : ∃ n, t.get? p = some n := by
  cases h' : t.get? p with
  | none => exact absurd h (get?_eq_none.1 h')
  | some n => exact ⟨n, rfl⟩

/-- With distinct keys, membership determines `get?`. -/
theorem get?_of_mem {t : Tree} (hn : t.keys.Nodup) {p : Path} {n : TNode} (h : (p, n) ∈ t) :
    t.get? p = some n := by
  induction t with
  | nil => cases h
  | cons e t ih =>
    obtain ⟨q, m⟩ := e
    simp only [keys_cons, List.nodup_cons] at hn
    simp only [get?]
    rcases List.mem_cons.1 h with h | h
    · cases h; simp
    · have : q ≠ p := fun hq => hn.1 (hq ▸ mem_keys_of_mem h)
      simp [this, ih hn.2 h]

@[simp] theorem keys_modify (t : Tree) (p : Path) (f : TNode → TNode) : (t.modify p f).keys = t.keys := by
  simp only [modify, keys, List.map_map]
  apply List.map_congr_left
  intro e _
  simp only [Function.comp]
  split <;> rfl

theorem get?_modify (t : Tree) (q p : Path) (f : TNode → TNode) :
    (t.modify q f).get? p = if q = p then (t.get? p).map f else t.get? p := by
  induction t with
  | nil => simp [modify, get?]
  | cons e t ih =>
    obtain ⟨r, m⟩ := e
    simp only [modify, List.map_cons] at ih ⊢
    by_cases hrq : r = q
    · subst hrq
      simp only [if_true, get?]
      by_cases hrp : r = p
      · simp [hrp]
      · simp only [hrp, if_false] at ih ⊢; exact ih
    · simp only [hrq, if_false, get?]
      by_cases hrp : r = p
      · subst hrp
        have : ¬ q = r := fun h => hrq h.symm
        simp [this]
      · simp only [hrp, if_false]; exact ih

theorem get?_append (t l : Tree) (p : Path) :
    (t ++ l).get? p = match t.get? p with | some n => some n | none => l.get? p := by
  induction t with
  | nil => simp [get?]
  | cons e t ih =>
    obtain ⟨r, m⟩ := e
    simp only [List.cons_append, get?]
    split
    · rfl
    · exact ih

theorem get?_append_single_old (t : Tree) (q p : Path) (n : TNode) (h : q ≠ p) :
    (t ++ [(q, n)]).get? p = t.get? p := by
  rw [get?_append]
  cases t.get? p with
  | some m => rfl
  | none => simp [get?, h]

theorem get?_append_single_new (t : Tree) (q : Path) (n : TNode) (h : q ∉ t.keys) :
    (t ++ [(q, n)]).get? q = some n := by
  rw [get?_append, get?_eq_none.2 h]
  simp [get?]

end Tree

/-! ## Skeleton: everything of a node except the protection marks -/

/-- A tree entry without the protection marks. -/
structure DEntry where
  path : Path
  ver : Version
  ideps : List Import
  processed : Bool
  id : Nat
deriving DecidableEq

/-- A tree entry without the marks and the `processed` flag: what never changes. -/
structure SEntry where
  path : Path
  ver : Version
  ideps : List Import
  id : Nat
deriving DecidableEq

def TNode.dentry (p : Path) (n : TNode) : DEntry := ⟨p, n.ver, n.ideps, n.processed, n.id⟩
def DEntry.static (d : DEntry) : SEntry := ⟨d.path, d.ver, d.ideps, d.id⟩

def Tree.dyn (t : Tree) : List DEntry := t.map fun e => e.2.dentry e.1
def Tree.static (t : Tree) : List SEntry := t.dyn.map DEntry.static

theorem Tree.static_keys (t : Tree) : t.static.map (·.path) = t.keys := by
  simp [Tree.static, Tree.dyn, Tree.keys, DEntry.static, TNode.dentry, Function.comp_def]

theorem Tree.dyn_keys (t : Tree) : t.dyn.map (·.path) = t.keys := by
  simp [Tree.dyn, Tree.keys, TNode.dentry, Function.comp_def]

theorem Tree.keys_eq_of_dyn {t t' : Tree} (h : t'.dyn = t.dyn) : t'.keys = t.keys := by
  rw [← Tree.dyn_keys, ← Tree.dyn_keys, h]

theorem Tree.static_eq_of_dyn {t t' : Tree} (h : t'.dyn = t.dyn) : t'.static = t.static := by
  simp [Tree.static, h]

theorem Tree.dyn_modify (t : Tree) (p : Path) (f : TNode → TNode)
    (hf : ∀ q n, (f n).dentry q = n.dentry q) : (t.modify p f).dyn = t.dyn := by
  simp only [Tree.modify, Tree.dyn, List.map_map]
  apply List.map_congr_left
  intro e _
  simp only [Function.comp]
  split
  · simp [hf]
  · rfl

@[simp] theorem Tree.dyn_append (t l : Tree) : (t ++ l).dyn = t.dyn ++ l.dyn := by
  simp [Tree.dyn]

@[simp] theorem Tree.static_append (t l : Tree) : (t ++ l).static = t.static ++ l.static := by
  simp [Tree.static]

theorem Tree.mem_dyn_of_get? {t : Tree} {p : Path} {n : TNode} (h : t.get? p = some n) :
    n.dentry p ∈ t.dyn :=
  List.mem_map.2 ⟨(p, n), Tree.get?_some_mem h, rfl⟩

theorem Tree.mem_dyn {t : Tree} {d : DEntry} (h : d ∈ t.dyn) :
    ∃ n, (d.path, n) ∈ t ∧ d = n.dentry d.path := by
  obtain ⟨e, he, rfl⟩ := List.mem_map.1 h
  exact ⟨e.2, he, rfl⟩

theorem Tree.mem_static_of_mem_dyn {t : Tree} {d : DEntry} (h : d ∈ t.dyn) : d.static ∈ t.static :=
  List.mem_map.2 ⟨d, h, rfl⟩

theorem Tree.mem_static {t : Tree} {s : SEntry} (h : s ∈ t.static) : ∃ d ∈ t.dyn, d.static = s :=
  List.mem_map.1 h

theorem markNode_dentry (ipk alias : Name) (q : Path) (n : TNode) :
    (markNode ipk alias n).dentry q = n.dentry q := by
  unfold markNode; split <;> rfl

theorem addProtected_dentry (pkg : Name) (q : Path) (n : TNode) :
    (addProtected pkg n).dentry q = n.dentry q := rfl

/-- Whether a slot is occupied depends on the keys only. -/
theorem candidate_isSome_keys {t t' : Tree} (h : t'.keys = t.keys) (p : Path) (ipk alias : Name) :
    (candidate t' p ipk alias).isSome = (candidate t p ipk alias).isSome := by
  have hk : ∀ q, (t'.get? q).isSome = (t.get? q).isSome := by
    intro q
    rw [Bool.eq_iff_iff, Tree.get?_isSome, Tree.get?_isSome, h]
  have hn : ∀ q, t'.get? q = none ↔ t.get? q = none := by
    intro q; rw [Tree.get?_eq_none, Tree.get?_eq_none, h]
  unfold candidate
  split
  · cases h1 : t.get? (⟨false, ipk⟩ :: p) with
    | some c =>
      have := hk (⟨false, ipk⟩ :: p); rw [h1] at this
      cases h1' : t'.get? (⟨false, ipk⟩ :: p) with
      | some c' => simp
      | none => rw [h1'] at this; simp at this
    | none =>
      rw [(hn _).2 h1]
      cases h2 : t.get? (⟨true, ipk⟩ :: p) with
      | some c =>
        have := hk (⟨true, ipk⟩ :: p); rw [h2] at this
        cases h2' : t'.get? (⟨true, ipk⟩ :: p) with
        | some c' => simp
        | none => rw [h2'] at this; simp at this
      | none => rw [(hn _).2 h2]
  · cases h1 : t.get? (⟨true, alias⟩ :: p) with
    | some c =>
      have := hk (⟨true, alias⟩ :: p); rw [h1] at this
      cases h1' : t'.get? (⟨true, alias⟩ :: p) with
      | some c' => simp
      | none => rw [h1'] at this; simp at this
    | none =>
      rw [(hn _).2 h1]
      cases h2 : t.get? (⟨false, alias⟩ :: p) with
      | some c =>
        have := hk (⟨false, alias⟩ :: p); rw [h2] at this
        cases h2' : t'.get? (⟨false, alias⟩ :: p) with
        | some c' => simp
        | none => rw [h2'] at this; simp at this
      | none => rw [(hn _).2 h2]

/-- The slot a dependency `(ipk, alias)` would look at in the directory `p`: both kinds. -/
theorem candidate_none_iff (t : Tree) (p : Path) (ipk alias : Name) :
    candidate t p ipk alias = none ↔
      (if alias = Name.empty then
        (⟨false, ipk⟩ :: p) ∉ t.keys ∧ (⟨true, ipk⟩ :: p) ∉ t.keys
       else (⟨true, alias⟩ :: p) ∉ t.keys ∧ (⟨false, alias⟩ :: p) ∉ t.keys) := by
  unfold candidate
  split
  · cases h1 : t.get? (⟨false, ipk⟩ :: p) with
    | some c => simp [Tree.mem_keys_of_mem (Tree.get?_some_mem h1)]
    | none =>
      cases h2 : t.get? (⟨true, ipk⟩ :: p) with
      | some c => simp [Tree.mem_keys_of_mem (Tree.get?_some_mem h2)]
      | none => simp [Tree.get?_eq_none.1 h1, Tree.get?_eq_none.1 h2]
  · cases h1 : t.get? (⟨true, alias⟩ :: p) with
    | some c => simp [Tree.mem_keys_of_mem (Tree.get?_some_mem h1)]
    | none =>
      cases h2 : t.get? (⟨false, alias⟩ :: p) with
      | some c => simp [Tree.mem_keys_of_mem (Tree.get?_some_mem h2)]
      | none => simp [Tree.get?_eq_none.1 h1, Tree.get?_eq_none.1 h2]

/-- What `candidate` returns is an entry of the tree in the directory `p`, under the
dependency's effective name. -/
theorem candidate_some {t : Tree} {p : Path} {ipk alias : Name} {cp : Path} {c : TNode} {b : Bool}
    (h : candidate t p ipk alias = some (cp, c, b)) :
    t.get? cp = some c ∧ ∃ s : Slot, cp = s :: p ∧
      s.name = (if alias = Name.empty then ipk else alias) ∧
      (b = true → alias = Name.empty ∧ s.alias = false) ∧
      (b = false → alias ≠ Name.empty ∨ s.alias = true) := by
  unfold candidate at h
  split at h
  · rename_i ha
    cases h1 : t.get? (⟨false, ipk⟩ :: p) with
    | some c1 =>
      rw [h1] at h; simp only [Option.some.injEq, Prod.mk.injEq] at h
      obtain ⟨rfl, rfl, rfl⟩ := h
      exact ⟨h1, ⟨false, ipk⟩, rfl, by simp [ha], fun _ => ⟨ha, rfl⟩, fun hb => by cases hb⟩
    | none =>
      rw [h1] at h; simp only at h
      cases h2 : t.get? (⟨true, ipk⟩ :: p) with
      | some c2 =>
        rw [h2] at h; simp only [Option.some.injEq, Prod.mk.injEq] at h
        obtain ⟨rfl, rfl, rfl⟩ := h
        exact ⟨h2, ⟨true, ipk⟩, rfl, by simp [ha], (fun hb => by cases hb), fun _ => Or.inr rfl⟩
      | none => rw [h2] at h; cases h
  · rename_i ha
    cases h1 : t.get? (⟨true, alias⟩ :: p) with
    | some c1 =>
      rw [h1] at h; simp only [Option.some.injEq, Prod.mk.injEq] at h
      obtain ⟨rfl, rfl, rfl⟩ := h
      exact ⟨h1, ⟨true, alias⟩, rfl, by simp [ha], (fun hb => by cases hb), fun _ => Or.inl ha⟩
    | none =>
      rw [h1] at h; simp only at h
      cases h2 : t.get? (⟨false, alias⟩ :: p) with
      | some c2 =>
        rw [h2] at h; simp only [Option.some.injEq, Prod.mk.injEq] at h
        obtain ⟨rfl, rfl, rfl⟩ := h
        exact ⟨h2, ⟨false, alias⟩, rfl, by simp [ha], (fun hb => by cases hb), fun _ => Or.inl ha⟩
      | none => rw [h2] at h; cases h

theorem markProtected_dyn (ipk alias : Name) (t : Tree) (p : Path) :
    (markProtected ipk alias t p).dyn = t.dyn := by
  induction p generalizing t with
  | nil =>
    simp only [markProtected]
    split
    · rfl
    · exact Tree.dyn_modify _ _ _ (markNode_dentry ipk alias)
  | cons s parent ih =>
    simp only [markProtected]
    split
    · rfl
    · rw [ih]; exact Tree.dyn_modify _ _ _ (markNode_dentry ipk alias)

/-- `q` is `p` or an ancestor directory of `p`. -/
def IsSuffix (q p : Path) : Prop := ∃ pre, p = pre ++ q

theorem IsSuffix.refl (p : Path) : IsSuffix p p := ⟨[], rfl⟩
theorem IsSuffix.cons {q p : Path} (s : Slot) (h : IsSuffix q p) : IsSuffix q (s :: p) := by
  obtain ⟨pre, rfl⟩ := h; exact ⟨s :: pre, rfl⟩
theorem IsSuffix.trans {a b c : Path} (h1 : IsSuffix a b) (h2 : IsSuffix b c) : IsSuffix a c := by
  obtain ⟨p1, rfl⟩ := h1; obtain ⟨p2, rfl⟩ := h2; exact ⟨p2 ++ p1, by simp⟩
theorem IsSuffix.nil (p : Path) : IsSuffix [] p := ⟨p, by simp⟩

theorem hoist_dyn {pkg alias : Name} {t t' : Tree} {p parent : Path}
    (h : hoist pkg alias t p = .ok (t', parent)) : t'.dyn = t.dyn ∧ IsSuffix parent p := by
  induction p generalizing t with
  | nil =>
    simp only [hoist, Outcome.ok.injEq, Prod.mk.injEq] at h
    obtain ⟨rfl, rfl⟩ := h
    exact ⟨rfl, IsSuffix.refl _⟩
  | cons s pp ih =>
    simp only [hoist] at h
    split at h
    · cases h
    · split at h
      · simp only [Outcome.ok.injEq, Prod.mk.injEq] at h
        obtain ⟨rfl, rfl⟩ := h
        exact ⟨rfl, IsSuffix.refl _⟩
      · split at h
        · simp only [Outcome.ok.injEq, Prod.mk.injEq] at h
          obtain ⟨rfl, rfl⟩ := h
          exact ⟨rfl, IsSuffix.refl _⟩
        · obtain ⟨h1, h2⟩ := ih h
          rw [Tree.dyn_modify _ _ _ (addProtected_dentry pkg)] at h1
          exact ⟨h1, h2.cons s⟩

/-- At the directory `hoist` ends in, the slot is free whenever it was free where the
loop started (the loop only moves to a directory after checking its slot). -/
theorem hoist_candidate_none {pkg alias : Name} {t t' : Tree} {p parent : Path}
    (h : hoist pkg alias t p = .ok (t', parent))
    (h0 : (candidate t p pkg alias).isSome = false) :
    (candidate t parent pkg alias).isSome = false := by
  induction p generalizing t with
  | nil =>
    simp only [hoist, Outcome.ok.injEq, Prod.mk.injEq] at h
    obtain ⟨rfl, rfl⟩ := h
    exact h0
  | cons s pp ih =>
    simp only [hoist] at h
    split at h
    · cases h
    · split at h
      · simp only [Outcome.ok.injEq, Prod.mk.injEq] at h
        obtain ⟨rfl, rfl⟩ := h
        exact h0
      · rename_i hc
        split at h
        · simp only [Outcome.ok.injEq, Prod.mk.injEq] at h
          obtain ⟨rfl, rfl⟩ := h
          exact h0
        · have hk : (t.modify (s :: pp) (addProtected pkg)).keys = t.keys := Tree.keys_modify _ _ _
          have := ih h (by rw [candidate_isSome_keys hk]; simpa using hc)
          rw [candidate_isSome_keys hk] at this
          exact this

end DepsDev.Resolve.Npm
