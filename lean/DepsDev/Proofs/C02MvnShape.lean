import DepsDev.Proofs.C02MvnDirect

/-!
# C02 — Maven, part 9: the library's elements of a tree of DESIGN 6.4 are in C01's `MavenShape`,
# and C01's `ZeroDotQual` on them is `Maven.zeroDotQual` on the tree
-/
namespace DepsDev.Proofs.C02Mvn
open Std DepsDev DepsDev.Semver DepsDev.Ref DepsDev.Proofs DepsDev.Proofs.C02
open DepsDev.Ref.MavenCV (Item Sep Tok Ast wAlpha wBeta wMilestone wRc wCr wSnapshot wSp wGa wFinal wRelease)
open DepsDev.Gen.SemverTables (versionNumeric versionQualifier versionEOF versionSeparator mavenEmptyQualifier)

/-- What `effTail` can be: an optional qualifier (not `ga`/`final`/`release`), an optional non-zero
number (only after a qualifier), an optional `-snapshot`. -/
inductive EffShape : List MavenElem → Prop
  | mk (qs ns ss : List MavenElem)
      (hq : qs = [] ∨ ∃ s w, (s = 45 ∨ s = 46) ∧ wordOK w = true ∧ isEmptyMavenElem w = false ∧ qs = [⟨s, w, 0⟩])
      (hn : ns = [] ∨ ∃ s n, (s = 45 ∨ s = 46) ∧ n ≠ 0 ∧ qs ≠ [] ∧ ns = [numE s n])
      (hs : ss = [] ∨ ss = [snapshotElem]) : EffShape (qs ++ ns ++ ss)

theorem effShape {a : Ast} (hv : a.valid = true) : EffShape (effTail a) := by
  unfold effTail
  refine EffShape.mk _ _ _ ?_ ?_ ?_
  · rcases hq : a.qual with _ | ⟨s, q⟩
    · exact .inl rfl
    · obtain ⟨hw, _⟩ := valid_word hq hv
      by_cases hr : Maven.releaseQual q = true
      · left; simp [hr]
      · right
        have hr' : Maven.releaseQual q = false := by simpa using hr
        refine ⟨sepByte s, aliasW q (followedByDigit a), by cases s <;> simp [sepByte], wordOK_alias hw _, ?_, by simp [hr']⟩
        rw [isEmpty_alias hw, hr']
  · rcases hn : a.qnum with _ | ⟨s, n⟩
    · exact .inl rfl
    · by_cases h0 : n = 0
      · left; simp [h0]
      · right
        refine ⟨sepByte s, n, by cases s <;> simp [sepByte], h0, ?_, by simp [h0]⟩
        rcases hq : a.qual with _ | ⟨s', q⟩
        · simp [Ast.valid, hq, hn] at hv
        · obtain ⟨_, hq'⟩ := valid_word hq hv
          rcases hq' with h | h
          · simp [hn] at h
          · simp [h]
  · cases a.snapshot <;> simp


theorem isNumE_word (s : UInt8) {w : Bytes} (h : wordOK w = true) : isNumE ⟨s, w, 0⟩ = false :=
  not_num_of_qual (isQualE_word s h)

theorem mcat_word (s : UInt8) {w : Bytes} (h : wordOK w = true) : mcat ⟨s, w, 0⟩ = versionQualifier := by
  have := (isQualE_mcat (isQualE_word s h)).1
  rw [this]; rfl

theorem mcat_numE (s : UInt8) (n : Nat) : mcat (numE s n) = versionNumeric := by
  have := isNumE_numE s n
  simpa [isNumE] using this

theorem isQualE_numE (s : UInt8) (n : Nat) : isQualE (numE s n) = false := by
  simp [isQualE, mcat_numE, versionNumeric, versionQualifier]

theorem sepOK_45 (str : Bytes) (i : Int) : sepOK ⟨45, str, i⟩ = true := rfl
theorem sepOK_46 (str : Bytes) (i : Int) : sepOK ⟨46, str, i⟩ = true := rfl

theorem snap_facts : isQualE snapshotElem = true ∧ isNumE snapshotElem = false ∧ sepOK snapshotElem = true ∧
    isEmptyMavenElem snapshotElem.str = false ∧ mcat snapshotElem = versionQualifier := by decide

/-- Facts about a surviving tail. -/
theorem effShape_facts {E : List MavenElem} (h : EffShape E) :
    shapeQual E = true ∧ (∀ e ∈ E, isEmptyMavenElem e.str = false) ∧ ZeroDotQual E = false ∧
      (∀ x : MavenElem, ZeroDotQual (x :: E) = (isNumE x && x.int == 0 && !dashy E)) ∧
      (dashy E = false → ∃ w, wordOK w = true ∧ E.head? = some ⟨46, w, 0⟩) := by
  obtain ⟨qs, ns, ss, hq, hn, hs⟩ := h
  obtain ⟨sq, sn1, sn2, se, sm⟩ := snap_facts
  rcases hq with rfl | ⟨s, w, hs', hw, he, rfl⟩
  · -- no qualifier: no number either
    rcases hn with rfl | ⟨_, _, _, _, hne, _⟩
    · rcases hs with rfl | rfl
      · simp [shapeQual, ZeroDotQual, dashy]
      · refine ⟨?_, ?_, ?_, ?_, ?_⟩
        · simp [shapeQual, shapeNum, sq, sn2]
        · simp [se]
        · simp [ZeroDotQual]
        · intro x; simp [ZeroDotQual, dashy, snapshotElem_eq]
        · simp [dashy, snapshotElem_eq]
    · exact absurd rfl hne
  · have hqe := isQualE_word s hw
    have hne := isNumE_word s hw
    have hmc := mcat_word s hw
    have hso : sepOK ⟨s, w, 0⟩ = true := by rcases hs' with rfl | rfl <;> rfl
    rcases hn with rfl | ⟨s2, n, hs2, hn0, _, rfl⟩
    · rcases hs with rfl | rfl
      · refine ⟨?_, ?_, ?_, ?_, ?_⟩
        · simp [shapeQual, shapeNum, hqe, hso]
        · simp [he]
        · simp [ZeroDotQual]
        · intro x; rcases hs' with rfl | rfl <;> simp [ZeroDotQual, dashy, hmc]
        · rcases hs' with rfl | rfl <;> simp [dashy]; exact hw
      · refine ⟨?_, ?_, ?_, ?_, ?_⟩
        · simp [shapeQual, shapeNum, shapeSnap, hqe, hso, sn1, sn2]
        · simp [he, se]
        · simp [ZeroDotQual, hne]
        · intro x; rcases hs' with rfl | rfl <;> simp [ZeroDotQual, dashy, hmc, hne]
        · rcases hs' with rfl | rfl <;> simp [dashy]; exact hw
    · have hnn := isNumE_numE s2 n
      have hso2 : sepOK (numE s2 n) = true := by rcases hs2 with rfl | rfl <;> rfl
      have hen : isEmptyMavenElem (numE s2 n).str = false := by simp [numE, isEmpty_dec, hn0]
      have hmn := mcat_numE s2 n
      have hi : (numE s2 n).int ≠ 0 := by simp [numE]; omega
      rcases hs with rfl | rfl
      · refine ⟨?_, ?_, ?_, ?_, ?_⟩
        · simp [shapeQual, shapeNum, shapeSnap, hqe, hso, hnn, hso2]
        · simp [he, hen]
        · simp [ZeroDotQual, hne]
        · intro x; rcases hs' with rfl | rfl <;> simp [ZeroDotQual, dashy, hmc, hne]
        · rcases hs' with rfl | rfl <;> simp [dashy]; exact hw
      · refine ⟨?_, ?_, ?_, ?_, ?_⟩
        · simp [shapeQual, shapeNum, shapeSnap, hqe, hso, hnn, hso2]
        · simp [he, hen, se]
        · simp [ZeroDotQual, hne, versionQualifier, snapshotElem_eq]
        · intro x; rcases hs' with rfl | rfl <;> simp [ZeroDotQual, dashy, hmc, hne, snapshotElem_eq]
        · rcases hs' with rfl | rfl <;> simp [dashy]; exact hw


/-! ## the numbers in front -/

theorem numE_int (s : UInt8) (n : Nat) : (numE s n).int = n := rfl

theorem shapeNums_nums (l : List Nat) {E : List MavenElem} (h : shapeQual E = true)
    (hE : ∀ e, E.head? = some e → ¬ (isNumE e = true ∧ e.sep = 46)) : shapeNums (l.map (numE 46) ++ E) = true := by
  induction l with
  | nil =>
    cases E with
    | nil => rfl
    | cons e t =>
      have := hE e rfl
      have hc : (isNumE e && e.sep == 46) = false := by
        cases hn : isNumE e
        · rfl
        · simp only [Bool.true_and, beq_eq_false_iff_ne]; intro hs; exact this ⟨hn, hs⟩
      simp only [List.map_nil, List.nil_append, shapeNums, hc, Bool.false_eq_true, ↓reduceIte]
      exact h
  | cons x xs ih =>
    have : (isNumE (numE 46 x) && (numE 46 x).sep == 46) = true := by simp [isNumE_numE, numE_sep]
    simp only [List.map_cons, List.cons_append, shapeNums, this, ↓reduceIte]
    exact ih

theorem trimmedTail_nonempty {E : List MavenElem} (h : ∀ e ∈ E, isEmptyMavenElem e.str = false) :
    trimmedTail E = true := by
  induction E with
  | nil => rfl
  | cons e t ih =>
    cases t with
    | nil => simp [trimmedTail, h e (by simp)]
    | cons f t' =>
      simp only [trimmedTail, h e (by simp), Bool.not_false, Bool.or_true, Bool.true_and]
      exact ih (fun x hx => h x (by simp [hx]))

theorem trimmedTail_nums (l : List Nat) {E : List MavenElem} (hE : ∀ e ∈ E, isEmptyMavenElem e.str = false)
    (hl : l.getLast? ≠ some 0 ∨ dashy E = false) : trimmedTail (l.map (numE 46) ++ E) = true := by
  induction l with
  | nil => simpa using trimmedTail_nonempty hE
  | cons x xs ih =>
    cases xs with
    | nil =>
      cases E with
      | nil =>
        rcases hl with h | h
        · have : x ≠ 0 := by simpa using h
          simp [trimmedTail, numE, isEmpty_dec, this]
        · simp [dashy] at h
      | cons f t =>
        have hx : (f.sep != 45 || !isEmptyMavenElem (numE 46 x).str) = true := by
          rcases hl with h | h
          · have : x ≠ 0 := by simpa using h
            simp [numE, isEmpty_dec, this]
          · have : f.sep ≠ 45 := by simpa [dashy] using h
            simp [this]
        simp only [List.map_cons, List.map_nil, List.cons_append, List.nil_append, trimmedTail, hx, Bool.true_and]
        exact trimmedTail_nonempty hE
    | cons y ys =>
      have hl' : (y :: ys).getLast? ≠ some 0 ∨ dashy E = false := by
        rcases hl with h | h
        · left; simpa [List.getLast?_cons_cons] using h
        · exact .inr h
      have := ih hl'
      simp only [List.map_cons, List.cons_append] at this ⊢
      simp only [trimmedTail, this, Bool.and_true]
      simp [numE]

theorem zeroDotQual_nums (l : List Nat) {E : List MavenElem}
    (hx : ∀ x : MavenElem, ZeroDotQual (x :: E) = (isNumE x && x.int == 0 && !dashy E)) (s : UInt8) (n : Nat) :
    ZeroDotQual (numE s n :: (l.map (numE 46) ++ E)) = (((n :: l).getLast? == some 0) && !dashy E) := by
  induction l generalizing s n with
  | nil =>
    have : ((n : Int) == 0) = (n == 0) := by
      rw [Bool.eq_iff_iff, beq_iff_eq, beq_iff_eq]; omega
    simp [hx, isNumE_numE, numE_int, this]
  | cons y ys ih =>
    have hm : (mcat (numE 46 y) == versionQualifier) = false := by simp [mcat_numE, versionNumeric, versionQualifier]
    simp only [List.map_cons, List.cons_append, ZeroDotQual, hm, Bool.and_false, Bool.false_and, Bool.false_or]
    rw [ih 46 y]
    simp [List.getLast?_cons_cons]


/-! ## the element list of a valid tree -/

/-- **The library's elements of every tree of DESIGN 6.4 are in C01's `MavenShape`.** -/
theorem elems_shape {a : Ast} (hv : a.valid = true) : MavenShape (elemsOf a) = true := by
  obtain ⟨n, ns, hn⟩ := nums_cons hv
  obtain ⟨hsq, hne, _, _, hd⟩ := effShape_facts (effShape hv)
  unfold elemsOf
  rw [embed_elems a n ns hn hv]
  have h0 : ((numE 0 n).sep == 0) = true := rfl
  simp only [MavenShape, h0, isNumE_numE, Bool.true_and, Bool.and_eq_true]
  unfold tailElems
  constructor
  · apply shapeNums_nums _ hsq
    intro e he ⟨hnum, hsep⟩
    have hda : dashy (effTail a) = false := by
      cases hE : effTail a with
      | nil => rw [hE] at he; cases he
      | cons f t =>
        rw [hE] at he; injection he with he; subst he
        simp [dashy, hsep]
    obtain ⟨w, hw, hh⟩ := hd hda
    rw [hh] at he; injection he with he; subst he
    rw [isNumE_word 46 hw] at hnum; cases hnum
  · apply trimmedTail_nums _ hne
    by_cases hda : dashy (effTail a) = true
    · left; simp only [hda, ↓reduceIte]; exact dropZ_getLast ns
    · right; simpa using hda

/-- **C01's `ZeroDotQual` on the library's elements is `Maven.zeroDotQual` on the tree.** -/
theorem elems_zeroDotQual {a : Ast} (hv : a.valid = true) : ZeroDotQual (elemsOf a) = Maven.zeroDotQual a := by
  obtain ⟨n, ns, hn⟩ := nums_cons hv
  obtain ⟨_, _, _, hx, hd⟩ := effShape_facts (effShape hv)
  unfold elemsOf
  rw [embed_elems a n ns hn hv]
  unfold tailElems
  rw [zeroDotQual_nums _ hx]
  by_cases hda : dashy (effTail a) = true
  · -- nothing or a `-` element follows: no dot-attached qualifier on either side
    have : Maven.zeroDotQual a = false := by
      unfold Maven.zeroDotQual
      rcases hq : a.qual with _ | ⟨s, q⟩
      · simp
      · cases s
        · cases hr : Maven.releaseQual q
          · have : dashy (effTail a) = false := by simp [effTail, hq, hr, dashy, sepByte]
            rw [this] at hda; cases hda
          · simp [hr]
        · simp
        · simp
    simp [this, hda]
  · have hda' : dashy (effTail a) = false := by simpa using hda
    obtain ⟨q, hq, hr⟩ := nondashy_eff hv hda'
    simp [Maven.zeroDotQual, hda', hn, hq, hr]

end DepsDev.Proofs.C02Mvn
