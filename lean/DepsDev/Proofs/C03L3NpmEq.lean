import DepsDev.Proofs.C03L3Npm

/-!
# C03 layer L3 for npm, operator `eq`: one comparator, prerelease candidates

See `C03L3Npm` for the statement (`L3Npm`) and the proof script.
-/
namespace DepsDev.Proofs.C03

open DepsDev DepsDev.Semver DepsDev.Ref

set_option linter.unusedSimpArgs false
set_option linter.unusedVariables false

theorem l3_full_eq : L3Full .eq := by l3_full
theorem l3_pre_lt_eq : L3PreO .eq .lt := by l3_pre
theorem l3_pre_eq_eq : L3PreO .eq .eq := by l3_pre
theorem l3_pre_gt_eq : L3PreO .eq .gt := by l3_pre
theorem l3_part_eq : L3Part .eq := by l3_part

theorem l3_npm_eq : L3Npm .eq :=
  l3_assemble _ l3_full_eq (l3_pre_assemble _ l3_pre_lt_eq l3_pre_eq_eq l3_pre_gt_eq) l3_part_eq

end DepsDev.Proofs.C03
