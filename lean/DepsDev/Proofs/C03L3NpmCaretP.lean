import DepsDev.Proofs.C03L3NpmCaret

/-!
# C03 layer L3 for npm, operator `caret`: operands with a prerelease tag; `L3Npm .caret`
-/
namespace DepsDev.Proofs.C03

open DepsDev DepsDev.Semver DepsDev.Ref

set_option linter.unusedSimpArgs false
set_option linter.unusedVariables false

theorem l3_pre_lt_caret : L3PreO .caret .lt := by l3_pre
theorem l3_pre_eq_caret : L3PreO .caret .eq := by l3_pre
theorem l3_pre_gt_caret : L3PreO .caret .gt := by l3_pre

theorem l3_npm_caret : L3Npm .caret :=
  l3_assemble _ l3_full_caret (l3_pre_assemble _ l3_pre_lt_caret l3_pre_eq_caret l3_pre_gt_caret) l3_part_caret

end DepsDev.Proofs.C03
