import DepsDev.Proofs.C09Inter

/-!
# C09 — `canon`'s sort: `spanLess` is the strict part of a lawful comparator, and the
insertion sort returns a sorted rearrangement of its input
-/
namespace DepsDev.Proofs.C09

open Std DepsDev DepsDev.Semver DepsDev.Proofs

variable {s : System}

/-- `compare` on possibly-nil bounds: nil first. -/
def optOrd (s : System) : Option Version → Option Version → Ordering
  | none, none => .eq
  | none, some _ => .lt
  | some _, none => .gt
  | some a, some b => genericOrd s a b

instance : OrientedCmp (optOrd s) where
  eq_swap := by
    intro a b
    cases a <;> cases b <;> simp [optOrd]
    exact OrientedCmp.eq_swap

instance : TransCmp (optOrd s) where
  isLE_trans := by
    intro a b c h1 h2
    cases a <;> cases b <;> cases c <;> simp_all [optOrd]
    exact TransCmp.isLE_trans h1 h2

/-- closed before open -/
def minOpenOrd (a b : Bool) : Ordering := compare a.toNat b.toNat
/-- open before closed -/
def maxOpenOrd (a b : Bool) : Ordering := compare b.toNat a.toNat

instance : TransCmp minOpenOrd := TransCmp.comap (compare : Nat → Nat → Ordering) Bool.toNat
instance : TransCmp maxOpenOrd where
  eq_swap := by intro a b; cases a <;> cases b <;> decide
  isLE_trans := by intro a b c; cases a <;> cases b <;> cases c <;> decide

/-- The comparator whose strict part is the `less` of `canon`'s sort. -/
def spanOrd (s : System) : Span → Span → Ordering :=
  compareLex (fun x y => optOrd s x.min y.min)
    (compareLex (fun x y => minOpenOrd x.minOpen y.minOpen)
      (compareLex (fun x y => optOrd s x.max y.max) (fun x y => maxOpenOrd x.maxOpen y.maxOpen)))

instance : TransCmp (spanOrd s) := by
  haveI : TransCmp (fun x y : Span => optOrd s x.min y.min) := TransCmp.comap (optOrd s) Span.min
  haveI : TransCmp (fun x y : Span => optOrd s x.max y.max) := TransCmp.comap (optOrd s) Span.max
  haveI : TransCmp (fun x y : Span => minOpenOrd x.minOpen y.minOpen) := TransCmp.comap minOpenOrd Span.minOpen
  haveI : TransCmp (fun x y : Span => maxOpenOrd x.maxOpen y.maxOpen) := TransCmp.comap maxOpenOrd Span.maxOpen
  unfold spanOrd
  infer_instance

/-- A possibly-nil bound of system `s`. -/
def OptVG (s : System) : Option Version → Prop
  | none => True
  | some v => VG s v

theorem compareOpt_eq {x y : Option Version} (hx : OptVG s x) (hy : OptVG s y) :
    compareOpt x y = .ok (ordToInt (optOrd s x y)) := by
  cases x <;> cases y <;> simp [compareOpt, optOrd]
  exact vcompare_eq hx hy

theorem SpanOK.optVG {sp : Span} (h : SpanOK s sp) : OptVG s sp.min ∧ OptVG s sp.max := by
  unfold SpanOK at h
  cases hr : sp.rank <;> rw [hr] at h
  · rw [h.1, h.2]; exact ⟨trivial, trivial⟩
  · obtain ⟨m, h1, h2, h3, -⟩ := h
    rw [h1, h2]; exact ⟨h3.1, h3.1⟩
  · obtain ⟨a, b, h1, h2, h3, h4, -⟩ := h
    rw [h1, h2]; exact ⟨h3.1, h4.1⟩

theorem ordToInt_bne_zero (o : Ordering) : (ordToInt o != 0) = !decide (o = .eq) := by
  cases o <;> simp [ordToInt]

/-- `less` of `canon`'s sort, evaluated. -/
theorem spanLess_eq {x y : Span} (hx : SpanOK s x) (hy : SpanOK s y) :
    spanLess x y = .ok (spanOrd s x y == .lt) := by
  unfold spanLess
  rw [compareOpt_eq hx.optVG.1 hy.optVG.1, compareOpt_eq hx.optVG.2 hy.optVG.2]
  simp only [ok_bind, spanOrd, compareLex, ordToInt_bne_zero, ordToInt_lt_zero]
  generalize optOrd s x.min y.min = o1
  generalize optOrd s x.max y.max = o2
  generalize x.minOpen = b1
  generalize y.minOpen = b2
  generalize x.maxOpen = b3
  generalize y.maxOpen = b4
  cases o1 <;> cases o2 <;> cases b1 <;> cases b2 <;> cases b3 <;> cases b4 <;> rfl

/-- `x` may stand before `y`. -/
def sle (s : System) (x y : Span) : Prop := (spanOrd s x y).isLE = true

theorem sle_trans {x y z : Span} (h1 : sle s x y) (h2 : sle s y z) : sle s x z :=
  TransCmp.isLE_trans (cmp := spanOrd s) h1 h2

theorem sle_of_lt {x y : Span} (h : spanOrd s x y = .lt) : sle s x y := by
  unfold sle; rw [h]; rfl

theorem sle_of_not_lt {x y : Span} (h : spanOrd s x y ≠ .lt) : sle s y x := by
  unfold sle
  rw [OrientedCmp.eq_swap (cmp := spanOrd s)]
  cases h' : spanOrd s x y <;> simp_all

theorem sle_refl (x : Span) : sle s x x := by
  unfold sle; rw [ReflCmp.compare_self (cmp := spanOrd s)]; rfl

/-- Sorted: every element may stand before every later one. -/
def Sorted (s : System) (l : List Span) : Prop := l.Pairwise (sle s)

/-- The walk of one insertion from the right end. -/
theorem insert_go_spec {x : Span} (hx : SpanOK s x) :
    ∀ (fuel : Nat) (pre suf : List Span), pre.length < fuel →
      (∀ y ∈ pre, SpanOK s y) → (∀ y ∈ suf, SpanOK s y) →
      Sorted s (pre ++ suf) → (∀ y ∈ suf, sle s x y) →
      ∃ p q, insertSorted.go x pre suf fuel = .ok (p ++ x :: q) ∧ p ++ q = pre ++ suf ∧
        Sorted s (p ++ x :: q) := by
  intro fuel
  induction fuel with
  | zero => intro pre suf h; omega
  | succ n ih =>
    intro pre suf hlen hpre hsuf hsorted hx_suf
    rw [insertSorted.go]
    rcases List.eq_nil_or_concat pre with hnil | ⟨pre', y, hpy⟩
    · subst hnil
      refine ⟨[], suf, by simp, by simp, ?_⟩
      simp only [List.nil_append, Sorted, List.pairwise_cons]
      exact ⟨hx_suf, by simpa [Sorted] using hsorted⟩
    · rw [List.concat_eq_append] at hpy
      subst hpy
      have hy : SpanOK s y := hpre y (by simp)
      simp only [List.getLast?_concat, List.dropLast_concat, spanLess_eq hx hy, ok_bind]
      by_cases hlt : spanOrd s x y = .lt
      · simp only [hlt, beq_self_eq_true, ↓reduceIte]
        obtain ⟨p, q, e, hpq, hs'⟩ := ih pre' (y :: suf) (by simp at hlen; omega)
          (fun z hz => hpre z (by simp [hz]))
          (fun z hz => by
            rcases List.mem_cons.mp hz with rfl | hz
            · exact hy
            · exact hsuf z hz)
          (by simpa using hsorted)
          (fun z hz => by
            rcases List.mem_cons.mp hz with rfl | hz
            · exact sle_of_lt hlt
            · exact hx_suf z hz)
        exact ⟨p, q, e, by simp [hpq], hs'⟩
      · have hlt' : (spanOrd s x y == Ordering.lt) = false := by simpa using hlt
        simp only [hlt', Bool.false_eq_true, ↓reduceIte]
        refine ⟨pre' ++ [y], suf, rfl, rfl, ?_⟩
        have hyx : sle s y x := sle_of_not_lt hlt
        unfold Sorted at hsorted ⊢
        rw [List.pairwise_append] at hsorted ⊢
        obtain ⟨hs1, hs2, hs3⟩ := hsorted
        refine ⟨hs1, List.pairwise_cons.mpr ⟨hx_suf, hs2⟩, ?_⟩
        intro z hz w hw
        rcases List.mem_cons.mp hw with rfl | hw
        · rcases List.mem_append.mp hz with hz' | hz'
          · have : sle s z y := by
              rw [List.pairwise_append] at hs1
              exact hs1.2.2 z hz' y (by simp)
            exact sle_trans this hyx
          · rw [List.mem_singleton] at hz'; subst hz'; exact hyx
        · exact hs3 z hz w hw

theorem insertSorted_spec {x : Span} (hx : SpanOK s x) (l : List Span) (hl : ∀ y ∈ l, SpanOK s y)
    (hs : Sorted s l) :
    ∃ r, insertSorted x l = .ok r ∧ Sorted s r ∧ (∀ y, y ∈ r ↔ y = x ∨ y ∈ l) := by
  unfold insertSorted
  cases l with
  | nil => exact ⟨[x], rfl, by simp [Sorted], by simp⟩
  | cons z l' =>
    simp only
    obtain ⟨p, q, e, hpq, hs'⟩ := insert_go_spec hx ((z :: l').length + 1) (z :: l') [] (by omega) hl
      (by simp) (by simpa using hs) (by simp)
    refine ⟨_, e, hs', ?_⟩
    intro y
    rw [List.append_nil] at hpq
    rw [← hpq]
    simp only [List.mem_append, List.mem_cons]
    grind

theorem insertionSort_spec : ∀ (l acc : List Span), (∀ y ∈ l, SpanOK s y) → (∀ y ∈ acc, SpanOK s y) →
    Sorted s acc →
    ∃ r, List.foldlM (fun acc x => insertSorted x acc) acc l = .ok r ∧ Sorted s r ∧
      (∀ y, y ∈ r ↔ y ∈ acc ∨ y ∈ l) := by
  intro l
  induction l with
  | nil => intro acc _ _ hs; exact ⟨acc, rfl, hs, by simp⟩
  | cons x l ih =>
    intro acc hl hacc hs
    obtain ⟨r1, e1, hs1, hm1⟩ := insertSorted_spec (hl x List.mem_cons_self) acc hacc hs
    obtain ⟨r, e, hsr, hm⟩ := ih r1 (fun y hy => hl y (List.mem_cons_of_mem _ hy))
      (fun y hy => by
        rcases (hm1 y).mp hy with rfl | h
        · exact hl _ List.mem_cons_self
        · exact hacc y h) hs1
    refine ⟨r, by rw [List.foldlM_cons, e1]; exact e, hsr, ?_⟩
    intro y
    rw [hm y, hm1 y]
    simp only [List.mem_cons]
    grind

/-- `canon`'s sort succeeds and returns a sorted list with the same elements. -/
theorem sort_spec (l : List Span) (hl : ∀ y ∈ l, SpanOK s y) :
    ∃ r, insertionSort l = .ok r ∧ Sorted s r ∧ (∀ y, y ∈ r ↔ y ∈ l) := by
  obtain ⟨r, e, hs, hm⟩ := insertionSort_spec l [] hl (by simp) (by simp [Sorted])
  exact ⟨r, e, hs, by simpa using hm⟩

end DepsDev.Proofs.C09
