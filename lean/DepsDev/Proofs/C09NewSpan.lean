import DepsDev.Proofs.C09Span

/-!
# C09 — `newSpan` on arbitrary bounds of a generic system: every span it returns is
well-formed with clean bounds (the invariant `SpanOK` is established by `newSpan` itself)
-/
namespace DepsDev.Proofs.C09

open Std DepsDev DepsDev.Semver DepsDev.Proofs

variable {s : System}

theorem setTail_clean_out {v : Version} (hv : VG s v) (f : Value) (hf : (f == wildcard) = false) :
    VG s (v.setTail wildcard f) ∧ (v.setTail wildcard f).isWildcard = false := by
  unfold Version.setTail
  simp only
  split
  · rename_i hnone
    refine ⟨hv, ?_⟩
    rw [List.findIdx?_eq_none_iff] at hnone
    unfold Version.isWildcard
    rw [List.any_eq_false]
    intro x hx
    obtain ⟨j, hj, rfl⟩ := List.getElem_of_mem hx
    have hmem : v.getNum j ∈ (List.range v.atLeast3).map v.getNum := by
      apply List.mem_map.mpr
      refine ⟨j, List.mem_range.mpr ?_, rfl⟩
      unfold Version.atLeast3
      split <;> omega
    have := hnone _ hmem
    simp only [Version.getNum, List.getD_eq_getElem?_getD, List.getElem?_eq_getElem hj, Option.getD_some] at this
    simpa using this
  · rename_i i hsome
    refine ⟨hv, ?_⟩
    obtain ⟨hi, -, hbefore⟩ := List.findIdx?_eq_some_iff_getElem.mp hsome
    unfold Version.isWildcard
    simp only
    rw [List.any_eq_false]
    intro x hx
    rcases List.mem_append.mp hx with hx | hx
    · obtain ⟨j, hj, rfl⟩ := List.getElem_of_mem hx
      rw [List.length_take] at hj
      rw [List.getElem_take]
      have := hbefore j (by omega)
      simpa using this
    · rw [List.mem_replicate] at hx
      rw [hx.2]
      simpa using hf

theorem inf_ne_wildcard : (infinity == wildcard) = false := by decide

/-- `min`/`max` as `newSpan` stores them. -/
def normMin (a : Version) : Version :=
  { (if a.major == wildcard then minVersion a.sys a else a.setTail wildcard 0) with build := [] }
def normMax (b : Version) : Version := { b.setTail wildcard infinity with build := [] }

theorem normMin_VOK (hs : s ≠ .maven ∧ s ≠ .pypi ∧ s ≠ .rubygems) {a : Version} (ha : VG s a) :
    VOK s (normMin a) := by
  unfold normMin
  split
  · have : minVersion a.sys a =
        { a with num := [0, 0, 0], isPrerelease := false, pre := Gen.SemverTables.minPre, build := [], ext := .none } := by
      have hsys : a.sys = s := ha.1
      cases s <;> simp_all [minVersion]
    rw [this]
    refine ⟨⟨ha.1, rfl⟩, ?_, rfl⟩
    show ([0, 0, 0] : List Value).any (· == wildcard) = false
    decide
  · obtain ⟨h1, h2⟩ := setTail_clean_out ha 0 wildcard_ne_zero
    exact ⟨⟨h1.1, h1.2⟩, h2, rfl⟩

theorem normMax_VOK {b : Version} (hb : VG s b) : VOK s (normMax b) := by
  obtain ⟨h1, h2⟩ := setTail_clean_out hb infinity inf_ne_wildcard
  exact ⟨⟨h1.1, h1.2⟩, h2, rfl⟩

theorem newSpan_unfold (a b : Version) (ao bo : Bool) :
    newSpan a ao b bo = (do
      let eq ← vEqual (normMin a) (normMax b)
      if eq && (ao || bo) then .ok Span.emptySpan
      else if eq then
        .ok { rank := .unit, minOpen := ao, maxOpen := bo, min := some (normMin a), max := some (normMin a) }
      else
        let lt ← vLess (normMin a) (normMax b)
        if lt then
          .ok { rank := .vector, minOpen := ao, maxOpen := bo, min := some (normMin a), max := some (normMax b) }
        else .err) := rfl

/-- **The invariant is established by `newSpan`** (T2, closure): on any two bounds of a generic
system, whatever `newSpan` returns is a well-formed span with clean bounds. -/
theorem newSpan_spanOK (hs : s ≠ .maven ∧ s ≠ .pypi ∧ s ≠ .rubygems) {a b : Version} (ha : VG s a)
    (hb : VG s b) (ao bo : Bool) {sp : Span} (h : newSpan a ao b bo = .ok sp) : SpanOK s sp := by
  have h1 := normMin_VOK hs ha
  have h2 := normMax_VOK hb
  rw [newSpan_unfold, vEqual_eq h1.1 h2.1, vLess_eq h1.1 h2.1] at h
  generalize normMin a = x at *
  generalize normMax b = y at *
  simp only [ok_bind] at h
  by_cases q1 : pt s x ≤ pt s y ∧ pt s y ≤ pt s x
  · by_cases q2 : (ao || bo) = true
    · simp only [q1, and_self, decide_true, q2, Bool.and_self, ↓reduceIte] at h
      injection h with h; subst h; exact spanOK_empty
    · have q : ao = false ∧ bo = false := by
        cases ao <;> cases bo <;> simp_all
      simp only [q1, and_self, decide_true, q.1, q.2, Bool.or_self, Bool.and_false, Bool.false_eq_true,
        ↓reduceIte] at h
      injection h with h; subst h
      exact spanOK_unit h1
  · simp only [q1, decide_false, Bool.false_and, Bool.false_eq_true, ↓reduceIte] at h
    by_cases q3 : pt s x < pt s y
    · simp only [q3, decide_true, ↓reduceIte] at h
      injection h with h; subst h
      exact spanOK_vector h1 h2 q3 ao bo
    · simp only [q3, decide_false, Bool.false_eq_true, ↓reduceIte] at h
      cases h

end DepsDev.Proofs.C09
