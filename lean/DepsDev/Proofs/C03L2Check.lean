import DepsDev.Proofs.C03L2Parse
import DepsDev.Proofs.C10ParseTop

/-!
# C03 layer L2: a kernel-evaluable check of the token-level hypothesis, and the candidate's text

`lexOrB sys r s` runs the tokeniser and `Parse` on a concrete requirement text and checks that the
tokens are those of the AST `r`; `lexOr_of_b` turns a successful run into `LexOr sys r s` (the
hypothesis of `parseConstraint_tokens`). So for every concrete requirement the string layer is
discharged by evaluation; what stays unproved is `∀ r, lexOrB sys r (render r) = true`.

`parse_renderVer`: the candidate's side of the string layer, for all candidates — `Parse` on the
canonical text of a version AST is its embedding (from C10's `parse_render`).
-/
namespace DepsDev.Proofs.C03

open DepsDev DepsDev.Semver DepsDev.Ref DepsDev.Proofs

/-- Evaluable form of `LexComp`: the input after the comparator, if the text starts with it. -/
def lexCompB (sys : System) (c : Comparator) (s : Bytes) : Option Bytes :=
  if c.op = .none then
    match token sys s with
    | .ok (typ, tok, s') =>
      if ((typ == tokWildcard && c.p.nums.any (· == .x)) || (typ == tokVersion && !c.p.nums.any (· == .x))) &&
          parse sys tok == .ok (embedPartial sys c.p) then
        match token sys s' with
        | .ok (t2, _, _) => if t2 != tokInvalid && t2 != tokHyphen then some s' else none
        | _ => none
      else none
    | _ => none
  else
    match token sys s with
    | .ok (t, optok, s1) =>
      if t == tokOf c.op && optok != [33, 61] then
        match token sys s1 with
        | .ok (typ, tok, s') =>
          if (typ == tokVersion || typ == tokWildcard) && parse sys tok == .ok (embedPartial sys c.p) then some s'
          else none
        | _ => none
      else none
    | _ => none

theorem lexComp_of_b {sys : System} {c : Comparator} {s s' : Bytes} (h : lexCompB sys c s = some s') :
    LexComp sys c s s' := by
  unfold lexCompB at h
  unfold LexComp
  split at h
  · rename_i hop
    rw [if_pos hop]
    split at h
    · rename_i typ tok s1 ht
      split at h
      · rename_i hc
        split at h
        · rename_i t2 k2 r2 ht2
          split at h
          · rename_i hc2
            injection h with h
            subst h
            simp only [Bool.and_eq_true, Bool.or_eq_true, beq_iff_eq, Bool.not_eq_eq_eq_not, Bool.not_true, bne_iff_ne,
              ne_eq] at hc hc2
            refine ⟨typ, tok, ht, ?_, hc.2, t2, k2, r2, ht2, hc2.1, hc2.2⟩
            rcases hc.1 with ⟨h1, h2⟩ | ⟨h1, h2⟩
            · exact Or.inl ⟨h1, h2⟩
            · exact Or.inr ⟨h1, h2⟩
          · cases h
        · cases h
      · cases h
    · cases h
  · rename_i hop
    rw [if_neg hop]
    split at h
    · rename_i t optok s1 ht
      split at h
      · rename_i hc
        split at h
        · rename_i typ tok s2 ht1
          split at h
          · rename_i hc2
            injection h with h
            subst h
            simp only [Bool.and_eq_true, Bool.or_eq_true, beq_iff_eq, bne_iff_ne, ne_eq] at hc hc2
            obtain ⟨rfl, hne⟩ := hc
            exact ⟨optok, s1, typ, tok, ht, hne, ht1, hc2.1, hc2.2⟩
          · cases h
        · cases h
      · cases h
    · cases h

/-- Evaluable form of `LexTail`: the end of the AND list. -/
def lexTailB (sys : System) : List Comparator → Bytes → Option Bytes
  | [], s =>
    match token sys s with
    | .ok (typ, _, _) => if typ == tokEOF || typ == tokOr then some s else none
    | _ => none
  | c :: cs, s =>
    match token sys s with
    | .ok (typ, _, r) =>
      if typ == tokComma then (lexCompB sys c r).bind (lexTailB sys cs)
      else if typ != tokEOF && typ != tokInvalid && typ != tokOr && sys.supportsAnd && sys != .rubygems then
        (lexCompB sys c s).bind (lexTailB sys cs)
      else none
    | _ => none

theorem lexTail_of_b {sys : System} : ∀ {cs : List Comparator} {s e : Bytes}, lexTailB sys cs s = some e →
    LexTail sys cs s e := by
  intro cs
  induction cs with
  | nil =>
    intro s e h
    unfold lexTailB at h
    split at h
    · rename_i typ tok r ht
      split at h
      · rename_i hc
        injection h with h
        subst h
        simp only [Bool.or_eq_true, beq_iff_eq] at hc
        exact .done s typ tok r ht hc
      · cases h
    · cases h
  | cons c cs ih =>
    intro s e h
    unfold lexTailB at h
    split at h
    · rename_i typ tok r ht
      split at h
      · rename_i hc
        have hc' : typ = tokComma := by simpa using hc
        subst hc'
        cases hb : lexCompB sys c r with
        | none => rw [hb] at h; cases h
        | some s' =>
          rw [hb] at h
          exact .comma c cs s r s' e tok ht (lexComp_of_b hb) (ih h)
      · rename_i hnc
        split at h
        · rename_i hc
          simp only [Bool.and_eq_true, bne_iff_ne, ne_eq] at hc
          obtain ⟨⟨⟨⟨n1, n2⟩, n4⟩, hand⟩, hgem⟩ := hc
          cases hb : lexCompB sys c s with
          | none => rw [hb] at h; cases h
          | some s' =>
            rw [hb] at h
            exact .adj c cs s s' e typ tok r ht n1 n2 (by simpa using hnc) n4 hand hgem (lexComp_of_b hb) (ih h)
        · cases h
    · cases h

def lexAltB (sys : System) : List Comparator → Bytes → Option Bytes
  | [], _ => none
  | c :: cs, s => (lexCompB sys c s).bind (lexTailB sys cs)

theorem lexAlt_of_b {sys : System} {cs : List Comparator} {s e : Bytes} (h : lexAltB sys cs s = some e) :
    LexAlt sys cs s e := by
  cases cs with
  | nil => cases h
  | cons c cs =>
    simp only [lexAltB] at h
    cases hb : lexCompB sys c s with
    | none => rw [hb] at h; cases h
    | some s' =>
      rw [hb] at h
      exact ⟨s', lexComp_of_b hb, lexTail_of_b h⟩

/-- Evaluable form of `LexOr`. -/
def lexOrB (sys : System) : List (List Comparator) → Bytes → Bool
  | [], _ => false
  | [cs], s =>
    match lexAltB sys cs s with
    | some e => (match token sys e with | .ok (typ, _, _) => typ == tokEOF | _ => false)
    | none => false
  | cs :: rest, s =>
    match lexAltB sys cs s with
    | some e => (match token sys e with | .ok (typ, _, s2) => typ == tokOr && lexOrB sys rest s2 | _ => false)
    | none => false

theorem lexOr_of_b {sys : System} : ∀ {r : List (List Comparator)} {s : Bytes}, lexOrB sys r s = true → LexOr sys r s := by
  intro r
  induction r with
  | nil => intro s h; cases h
  | cons cs rest ih =>
    intro s h
    cases rest with
    | nil =>
      simp only [lexOrB] at h
      split at h
      · rename_i e he
        split at h
        · rename_i typ tok r ht
          have : typ = tokEOF := by simpa using h
          subst this
          exact .last cs s e tok r (lexAlt_of_b he) ht
        · cases h
      · cases h
    | cons cs2 rest2 =>
      simp only [lexOrB] at h
      split at h
      · rename_i e he
        split at h
        · rename_i typ tok s2 ht
          simp only [Bool.and_eq_true, beq_iff_eq] at h
          obtain ⟨rfl, h2⟩ := h
          exact .cons cs _ s e s2 tok (lexAlt_of_b he) ht (ih h2)
        · cases h
      · cases h

/-! ## The candidate's text -/

def renderIdentB : Ident → Bytes
  | .num n => natToBytes n
  | .alnum s => s.toUTF8.toList

/-- Canonical text of a version AST (the same bytes as `Props.C03.renderVer`). -/
def verText (v : SemVerAst) : Bytes :=
  joinWith 46 [natToBytes v.major, natToBytes v.minor, natToBytes v.patch] ++
    (if v.pre.isEmpty then [] else 45 :: joinWith 46 (v.pre.map renderIdentB))

theorem embedIdent_eq (i : Ident) : embedIdent i = renderIdentB i := by cases i <;> rfl

/-- **The candidate's side of the string layer**: `Parse` on the canonical text of a version whose
numbers are below `infinity` and whose prerelease identifiers are identifiers of the system is the
embedding (C10's `parse_render`). -/
theorem parse_verText (sys : System) (hs : C10.Generic sys = true) (hgo : sys ≠ .go) (v : SemVerAst)
    (hM : v.major < B∞) (hm : v.minor < B∞) (hp : v.patch < B∞)
    (hid : ∀ i ∈ v.pre, C10.IdentOk sys (renderIdentB i) = true) :
    parse sys (verText v) = .ok (embedVer sys v) := by
  have hvalid : (C10.SemVerAst.mk [(v.major : Int), v.minor, v.patch] (v.pre.map renderIdentB) []).Valid sys false := by
    refine ⟨by simp, Or.inl (by simp), ?_, ?_, ?_, by simp⟩
    · intro x hx
      simp only [List.mem_cons, List.not_mem_nil, or_false] at hx
      rcases hx with rfl | rfl | rfl <;> exact ⟨by omega, Or.inl (by omega)⟩
    · intro _ h4; simp at h4
    · intro i hi
      simp only [List.mem_map] at hi
      obtain ⟨j, hj, rfl⟩ := hi
      exact hid j hj
  have h := C10.parse_render sys hs _ hvalid
  have hlead : C10.lead sys = [] := by
    unfold C10.lead
    have : (sys == System.go) = false := by simpa using hgo
    simp [this]
  have e1 : ∀ n : Nat, n < B∞ → valueBytes (n : Int) = natToBytes n := by
    intro n hn
    rw [C10.valueBytes_num (n : Int) (by omega) (by omega)]
    simp
  have htext : (C10.SemVerAst.mk [(v.major : Int), v.minor, v.patch] (v.pre.map renderIdentB) []).render sys = verText v := by
    simp only [C10.SemVerAst.render, hlead, C10.renderNums, C10.dotNums, List.flatMap_cons, List.flatMap_nil, e1 _ hM, e1 _ hm,
      e1 _ hp, verText, joinWith, C10.renderBuild, List.nil_append, List.append_nil, List.append_assoc, List.cons_append]
    cases hpre : v.pre with
    | nil => simp [C10.renderPre]
    | cons a l => simp [C10.renderPre]
  rw [htext] at h
  rw [h]
  congr 1
  simp only [C10.SemVerAst.embed, embedVer, embedPre, C10.renderBuild, List.length_cons, List.length_nil, List.isEmpty_map]
  have hmap : List.map embedIdent v.pre = List.map renderIdentB v.pre :=
    List.map_congr_left (fun i _ => embedIdent_eq i)
  rw [hmap]
  rfl

end DepsDev.Proofs.C03
