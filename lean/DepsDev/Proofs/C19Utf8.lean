/-
Helper lemmas for C19, part 10: UTF-8. A multi-byte rune decoded by
`utf8.DecodeRuneInString` is a valid rune >= 0x80 whose `utf8.AppendRune` encoding is
exactly the bytes consumed, all of them >= 0x80, and decoding only looks at those bytes.
-/
import DepsDev.Proofs.C19DepQuoted

namespace DepsDev.Proofs.C19
open DepsDev DepsDev.Gen DepsDev.Model.Resolve DepsDev.Model.Resolve.Attr DepsDev.Model.Resolve.AttrText

theorem toUInt8_toNat' (b : UInt8) : b.toNat.toUInt8 = b := toUInt8_toNat b

theorem nat_toUInt8_eq (n : Nat) (b : UInt8) (h : n = b.toNat) : n.toUInt8 = b := by
  rw [h]; exact toUInt8_toNat b

/-- what a successful multi-byte decode says about the input. -/
theorem decodeRune_multi (v : Bytes) (r w : Nat) (h : decodeRune v = (r, w)) (hw : 2 ≤ w) :
    ∃ p rest, v = p ++ rest ∧ p.length = w ∧ encodeRune r = p ∧ 0x80 ≤ r ∧ validRune r = true ∧
      (∀ x ∈ p, 0x80 ≤ x.toNat) ∧ (∀ x ∈ p.tail, x.toNat ≤ 0xBF) ∧ (0xC2 ≤ (p.headD 0).toNat) ∧
      ∀ t, decodeRune (p ++ t) = (r, w) := by
  cases v with
  | nil => simp [decodeRune] at h; omega
  | cons b0 rest =>
    simp only [decodeRune] at h
    by_cases h1 : b0.toNat < 0x80
    · simp [h1] at h; omega
    simp only [h1, if_false] at h
    by_cases h2 : b0.toNat < 0xC2
    · simp [h2] at h; omega
    simp only [h2, if_false] at h
    by_cases h3 : b0.toNat < 0xE0
    · -- two bytes
      simp only [h3, if_true] at h
      cases rest with
      | nil => simp at h; omega
      | cons b1 rest =>
        simp only at h
        by_cases hc : cont b1.toNat = true
        · simp only [hc, if_true, Prod.mk.injEq] at h
          obtain ⟨hr, hw'⟩ := h
          simp only [cont, Bool.and_eq_true, decide_eq_true_eq] at hc
          refine ⟨[b0, b1], rest, rfl, by simp [← hw'], ?_, by omega, ?_, ?_, ?_, by simp; omega, ?_⟩
          · have hlt : r < 0x800 := by omega
            have hge : ¬ r < 0x80 := by omega
            simp only [encodeRune, hge, if_false, hlt, if_true]
            have e0 : (0xC0 + r / 64).toUInt8 = b0 := nat_toUInt8_eq _ _ (by omega)
            have e1 : (0x80 + r % 64).toUInt8 = b1 := nat_toUInt8_eq _ _ (by omega)
            rw [e0, e1]
          · simp only [validRune, Bool.or_eq_true, decide_eq_true_eq]; left; omega
          · intro x hx; simp at hx; rcases hx with e | e <;> subst e <;> omega
          · intro x hx; simp at hx; subst hx; omega
          · intro t
            simp only [List.cons_append, List.nil_append, decodeRune, h1, h2, h3, if_false, if_true]
            have : cont b1.toNat = true := by simp [cont]; omega
            simp [this, hr, hw']
        · simp [hc] at h; omega
    simp only [h3, if_false] at h
    by_cases h4 : b0.toNat < 0xF0
    · -- three bytes
      simp only [h4, if_true] at h
      cases rest with
      | nil => simp at h; omega
      | cons b1 rest =>
        cases rest with
        | nil => simp at h; omega
        | cons b2 rest =>
          split at h
          case h_2 hx => exact (hx _ _ _ rfl).elim
          rename_i c1 c2 ctl heq
          injection heq with q1 heq
          injection heq with q2 q3
          subst q1; subst q2; subst q3
          split at h
          · rename_i hc
            simp only [Prod.mk.injEq] at h
            obtain ⟨hr, hw'⟩ := h
            have hcc := hc
            simp only [accept3, cont, Bool.and_eq_true, decide_eq_true_eq] at hc
            obtain ⟨⟨hlo, hhi⟩, hc2⟩ := hc
            have hlo' : (if b0.toNat = 0xE0 then 0xA0 else 0x80) ≤ b1.toNat := hlo
            have hhi' : b1.toNat ≤ (if b0.toNat = 0xED then 0x9F else 0xBF) := hhi
            have hb1 : 0x80 ≤ b1.toNat ∧ b1.toNat ≤ 0xBF := by
              constructor
              · split at hlo' <;> omega
              · split at hhi' <;> omega
            have hr800 : 0x800 ≤ r := by
              split at hlo' <;> omega
            have hrsur : r < 0xD800 ∨ 0xE000 ≤ r := by
              split at hhi' <;> omega
            refine ⟨[b0, b1, b2], rest, rfl, by simp [← hw'], ?_, by omega, ?_, ?_, ?_, by simp; omega, ?_⟩
            · have hge1 : ¬ r < 0x80 := by omega
              have hge2 : ¬ r < 0x800 := by omega
              have hv : validRune r = true := by
                simp only [validRune, Bool.or_eq_true, Bool.and_eq_true, decide_eq_true_eq]; omega
              have hlt : r < 0x10000 := by omega
              simp only [encodeRune, hge1, hge2, if_false, hv, Bool.not_true, Bool.false_eq_true, hlt, if_true]
              have e0 : (0xE0 + r / 4096).toUInt8 = b0 := nat_toUInt8_eq _ _ (by omega)
              have e1 : (0x80 + r / 64 % 64).toUInt8 = b1 := nat_toUInt8_eq _ _ (by omega)
              have e2 : (0x80 + r % 64).toUInt8 = b2 := nat_toUInt8_eq _ _ (by omega)
              rw [e0, e1, e2]
            · simp only [validRune, Bool.or_eq_true, Bool.and_eq_true, decide_eq_true_eq]; omega
            · intro x hx; simp at hx; rcases hx with e | e | e <;> subst e <;> omega
            · intro x hx; simp at hx; rcases hx with e | e <;> subst e <;> omega
            · intro t
              simp only [List.cons_append, List.nil_append, decodeRune, h1, h2, h3, h4, if_false, if_true]
              simp only [hcc, if_true, hr, hw']
          · injection h with _ h2; omega
    simp only [h4, if_false] at h
    by_cases h5 : b0.toNat < 0xF5
    · -- four bytes
      simp only [h5, if_true] at h
      cases rest with
      | nil => simp at h; omega
      | cons b1 rest =>
        cases rest with
        | nil => simp at h; omega
        | cons b2 rest =>
          cases rest with
          | nil => simp at h; omega
          | cons b3 rest =>
            split at h
            case h_2 hx => exact (hx _ _ _ _ rfl).elim
            rename_i c1 c2 c3 ctl heq
            injection heq with q1 heq
            injection heq with q2 heq
            injection heq with q3 q4
            subst q1; subst q2; subst q3; subst q4
            split at h
            · rename_i hc
              simp only [Prod.mk.injEq] at h
              obtain ⟨hr, hw'⟩ := h
              have hcc := hc
              simp only [accept4, cont, Bool.and_eq_true, decide_eq_true_eq] at hc
              obtain ⟨⟨⟨hlo, hhi⟩, hc2⟩, hc3⟩ := hc
              have hlo' : (if b0.toNat = 0xF0 then 0x90 else 0x80) ≤ b1.toNat := hlo
              have hhi' : b1.toNat ≤ (if b0.toNat = 0xF4 then 0x8F else 0xBF) := hhi
              have hb1 : 0x80 ≤ b1.toNat ∧ b1.toNat ≤ 0xBF := by
                constructor
                · split at hlo' <;> omega
                · split at hhi' <;> omega
              have hrlo : 0x10000 ≤ r := by
                split at hlo' <;> omega
              have hrhi : r ≤ 0x10FFFF := by
                split at hhi' <;> omega
              refine ⟨[b0, b1, b2, b3], rest, rfl, by simp [← hw'], ?_, by omega, ?_, ?_, ?_, by simp; omega, ?_⟩
              · have hge1 : ¬ r < 0x80 := by omega
                have hge2 : ¬ r < 0x800 := by omega
                have hge3 : ¬ r < 0x10000 := by omega
                have hv : validRune r = true := by
                  simp only [validRune, Bool.or_eq_true, Bool.and_eq_true, decide_eq_true_eq]; omega
                simp only [encodeRune, hge1, hge2, hge3, if_false, hv, Bool.not_true, Bool.false_eq_true]
                have e0 : (0xF0 + r / 262144).toUInt8 = b0 := nat_toUInt8_eq _ _ (by omega)
                have e1 : (0x80 + r / 4096 % 64).toUInt8 = b1 := nat_toUInt8_eq _ _ (by omega)
                have e2 : (0x80 + r / 64 % 64).toUInt8 = b2 := nat_toUInt8_eq _ _ (by omega)
                have e3 : (0x80 + r % 64).toUInt8 = b3 := nat_toUInt8_eq _ _ (by omega)
                rw [e0, e1, e2, e3]
              · simp only [validRune, Bool.or_eq_true, Bool.and_eq_true, decide_eq_true_eq]; omega
              · intro x hx; simp at hx; rcases hx with e | e | e | e <;> subst e <;> omega
              · intro x hx; simp at hx; rcases hx with e | e | e <;> subst e <;> omega
              · intro t
                simp only [List.cons_append, List.nil_append, decodeRune, h1, h2, h3, h4, h5, if_false, if_true]
                simp only [hcc, if_true, hr, hw']
            · injection h with _ h2; omega
    · simp [h5] at h; omega

/-- the width is 1 exactly for ASCII (the byte itself) and for invalid input (0xFFFD). -/
theorem decodeRune_w1 (b : UInt8) (rest : Bytes) (r : Nat) (h : decodeRune (b :: rest) = (r, 1)) :
    (b.toNat < 0x80 ∧ r = b.toNat) ∨ (0x80 ≤ b.toNat ∧ r = 0xFFFD) := by
  simp only [decodeRune] at h
  by_cases h1 : b.toNat < 0x80
  · simp [h1] at h; exact Or.inl ⟨h1, h.symm⟩
  · right
    refine ⟨by omega, ?_⟩
    simp only [h1, if_false] at h
    repeat' split at h
    all_goals first
      | (simp only [Prod.mk.injEq] at h; omega)
      | (simp only [Prod.mk.injEq] at h; exact h.1.symm)

theorem decodeRune_width (v : Bytes) (hv : v ≠ []) : 1 ≤ (decodeRune v).2 ∧ (decodeRune v).2 ≤ 4 := by
  cases v with
  | nil => exact absurd rfl hv
  | cons b rest =>
    simp only [decodeRune]
    repeat' split
    all_goals simp

end DepsDev.Proofs.C19
