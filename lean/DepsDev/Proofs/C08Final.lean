import DepsDev.Proofs.C08Crit
import DepsDev.Proofs.C08Graph

/-! Facts about the final state (termination condition) and the assembly of P2. -/
namespace DepsDev.Resolve.Pypi

variable {U : Universe} {root : Ver}

/-- `resolve` only returns a state in which no criterion is unsatisfied -/
theorem rounds_done_sat {direct : List Req} :
    ∀ (fuel : Nat) (st : List State) (S : State), rounds U root direct fuel st = .done S → unsatisfied S = [] := by
  intro fuel
  induction fuel with
  | zero => intro st S h; simp [rounds] at h
  | succ fuel ih =>
    intro st S h
    match st with
    | [] => simp [rounds] at h
    | T :: below =>
      simp only [rounds] at h
      split at h
      · rename_i hu; simp at h; subst h; exact hu
      · split at h
        · simp at h
        · simp at h
        · exact ih _ S h
        · split at h
          · split at h
            · exact ih _ S h
            · simp at h
          · exact ih _ S h

theorem resolve_done_sat {direct : List Req} {n : Nat} {S : State} (h : resolve U root direct n = .done S) :
    ∀ e ∈ S.criteria, isSatisfied S e.1 e.2 = true := by
  simp only [resolve] at h
  split at h <;> try (simp at h)
  have hu := rounds_done_sat n _ S h
  intro e he
  simp only [unsatisfied, List.map_eq_nil_iff, List.filter_eq_nil_iff] at hu
  have := hu e he
  simpa using this

theorem isSatisfied_spec {S : State} {n : Nat} {c : Criterion} (h : isSatisfied S n c = true) :
    ∃ w, getPin S.mapping n = some w ∧ w ∈ c.cands := by
  simp only [isSatisfied] at h
  split at h
  · simp at h
  · rename_i v hv
    exact ⟨v, hv, by simpa using h⟩

/-- nodes other than the initial ones are pinned versions -/
theorem addNodes_from_pins (S : State) (fuel : Nat) :
    ∀ (pins : List Pin) (conn : Conn) (ids ids' : List (Nat × Ver)), addNodes S fuel pins conn ids = some ids' →
      ∀ e ∈ ids', e ∈ ids ∨ ∃ p ∈ pins, e = (p.pkg, pinVer p) := by
  intro pins
  induction pins with
  | nil => intro conn ids ids' h e he; simp [addNodes] at h; subst h; exact Or.inl he
  | cons p ps ih =>
    intro conn ids ids' h e he
    simp only [addNodes] at h
    have lift : (e ∈ ids ∨ ∃ q ∈ ps, e = (q.pkg, pinVer q)) → e ∈ ids ∨ ∃ q ∈ p :: ps, e = (q.pkg, pinVer q) := by
      rintro (h1 | ⟨q, hq, h2⟩)
      · exact Or.inl h1
      · exact Or.inr ⟨q, List.mem_cons_of_mem _ hq, h2⟩
    split at h
    · simp at h
    · exact lift (ih _ _ _ h e he)
    · split at h
      · exact lift (ih _ _ _ h e he)
      · rcases ih _ _ _ h e he with h1 | ⟨q, hq, h2⟩
        · rcases List.mem_append.mp h1 with h3 | h3
          · exact Or.inl h3
          · simp at h3; exact Or.inr ⟨p, List.mem_cons_self, by rw [h3]; rfl⟩
        · exact Or.inr ⟨q, List.mem_cons_of_mem _ hq, h2⟩

theorem buildGraph_nodes_pins {S : State} {g : Graph} {ids : List (Nat × Ver)}
    (h : buildGraph S root = .ok g ids) : ∀ e ∈ ids, e = (root.pkg, root) ∨ ∃ p ∈ S.mapping, e = (p.pkg, pinVer p) := by
  simp only [buildGraph] at h
  split at h
  · simp at h
  · rename_i ids0 hn
    split at h
    · simp at h
    · simp at h
      obtain ⟨_, rfl⟩ := h
      intro e he
      rcases addNodes_from_pins S _ _ _ _ _ hn e he with h1 | h1
      · simp at h1; exact Or.inl h1
      · exact Or.inr h1

/-- "w satisfies d under pip's prerelease rule as the resolver implements it": w is a
candidate of d's criterion and is among the versions matching d, in normal mode, or in
prerelease-inclusive mode when the criterion holds more than one requirement and one
of them has a prerelease bound (`anyPreOf`) -/
def Satisfies (U : Universe) (root : Ver) (S : State) (d : Req) (w : Ver) : Prop :=
  ∃ c, getCrit S.criteria d.pkg = some c ∧ w.id ∈ c.cands ∧
    ∃ mvs, getMatches U root (anyPreOf U (c.info.map (·.1))) d = .ok mvs ∧ w.id ∈ mvs

/-- the core of P2: a recorded pair (d, v) with v a node yields an edge to the selected
version of d's package, provided the node set is closed -/
theorem edge_of_info {S : State} {g : Graph} {ids : List (Nat × Ver)} (inv : Inv U root S)
    (hsat : ∀ e ∈ S.criteria, isSatisfied S e.1 e.2 = true)
    (hb : buildGraph S root = .ok g ids) (hclosed : routeClosed S ids = true)
    {d : Req} {v : Ver} (hv : idsGet ids v.pkg = some v) (hinfo : HasInfo S d v) :
    ∃ e ∈ g.edges, e.src = v ∧ e.req = d ∧ e.dst ∈ g.nodes ∧ e.dst.pkg = d.pkg ∧
      getPin S.mapping d.pkg = some e.dst.id ∧ Satisfies U root S d e.dst := by
  obtain ⟨c, hc, hdv⟩ := hinfo
  have hmem := getCrit_some_mem hc
  obtain ⟨w, hpin, hw⟩ := isSatisfied_spec (hsat _ hmem)
  obtain ⟨ex, hq⟩ := getPin_some_pinned hpin
  obtain ⟨wf, hd, hn, hes, _⟩ := buildGraph_spec hb
  -- the node of d's package
  have hsome : (idsGet ids d.pkg).isSome = true := by
    simp only [routeClosed, List.all_eq_true] at hclosed
    have := hclosed _ hq
    simp only [hc] at this
    simp only [Bool.or_eq_true, Bool.not_eq_eq_eq_not, Bool.not_true] at this
    rcases this with h1 | h1
    · exfalso
      have : (c.info.any fun x => idsGet ids x.2.pkg == some x.2) = true :=
        List.any_eq_true.mpr ⟨(d, v), hdv, by simp [hv]⟩
      rw [this] at h1; simp at h1
    · exact h1
  obtain ⟨to, hto⟩ := Option.isSome_iff_exists.mp hsome
  have hto_mem := idsGet_some_mem hto
  have hto_pkg : to.pkg = d.pkg := wf.2 _ hto_mem
  have hto_eq : to = ⟨d.pkg, w⟩ := by
    rcases buildGraph_nodes_pins hb _ hto_mem with h1 | ⟨p, hp, h1⟩
    · -- the root node: the criterion of the root's package only admits the root version
      have e1 : d.pkg = root.pkg := by injection h1
      have e2 : to = root := by injection h1
      have hi := inv.info _ hmem
      have hcand := inv.cand _ hmem
      simp only at hi hcand
      rw [e1] at hi
      have := root_cand_eq hi hcand hw
      rw [e2, e1, this]
    · have e1 : d.pkg = p.pkg := by injection h1
      have e2 : to = pinVer p := by injection h1
      have := getPin_of_mem_nodup inv.nodup hp
      rw [← e1, hpin] at this
      injection this with this
      rw [e2, e1, this]; rfl
  refine ⟨⟨v, to, d⟩, ?_, rfl, rfl, ?_, hto_pkg, ?_, ?_⟩
  · exact (addEdges_mem S root ids ids g.edges hes _).mpr ⟨d.pkg, c, d, v, hto_mem, hc, hdv, hv, rfl⟩
  · rw [hn]; exact List.mem_map.mpr ⟨_, hto_mem, rfl⟩
  · rw [hto_eq]; exact hpin
  · refine ⟨c, hc, by rw [hto_eq]; exact hw, ?_⟩
    obtain ⟨mvs, hm, hx⟩ := (inv.cand _ hmem).2 w hw d (List.mem_map.mpr ⟨(d, v), hdv, rfl⟩)
    exact ⟨mvs, hm, by rw [hto_eq]; exact hx⟩

/-- a node whose package has a criterion is the pinned, candidate version of that package -/
theorem node_is_pin {S : State} {g : Graph} {ids : List (Nat × Ver)} (inv : Inv U root S)
    (hsat : ∀ e ∈ S.criteria, isSatisfied S e.1 e.2 = true) (hb : buildGraph S root = .ok g ids)
    {p : Nat} {to : Ver} {c : Criterion} (hm : (p, to) ∈ ids) (hc : getCrit S.criteria p = some c) :
    ∃ w, getPin S.mapping p = some w ∧ w ∈ c.cands ∧ to = ⟨p, w⟩ := by
  have hmem := getCrit_some_mem hc
  obtain ⟨w, hpin, hw⟩ := isSatisfied_spec (hsat _ hmem)
  refine ⟨w, hpin, hw, ?_⟩
  rcases buildGraph_nodes_pins hb _ hm with h1 | ⟨q, hq, h1⟩
  · have e1 : p = root.pkg := by injection h1
    have e2 : to = root := by injection h1
    have hi := inv.info _ hmem
    have hcand := inv.cand _ hmem
    simp only at hi hcand
    rw [e1] at hi
    have := root_cand_eq hi hcand hw
    rw [e2, e1, this]
  · have e1 : p = q.pkg := by injection h1
    have e2 : to = pinVer q := by injection h1
    have := getPin_of_mem_nodup inv.nodup hq
    rw [← e1, hpin] at this
    injection this with this
    rw [e2, e1, this]; rfl

/-! ### the graph's own view of a criterion (needs `noStale`) -/

theorem edgesOf_dst {ids : List (Nat × Ver)} {to : Ver} {info : List (Req × Ver)} :
    ∀ e ∈ edgesOf ids to info, e.dst = to := by
  intro e he
  obtain ⟨_, _, _, _, h, _⟩ := edgesOf_mem.mp he
  exact h

theorem edgesOf_noStale {ids : List (Nat × Ver)} {to : Ver} :
    ∀ (info : List (Req × Ver)), (∀ x ∈ info, idsGet ids x.2.pkg = some x.2) →
      (edgesOf ids to info).map (·.req) = info.map (·.1) := by
  intro info
  induction info with
  | nil => intro _; simp [edgesOf]
  | cons hd tl ih =>
    obtain ⟨r, par⟩ := hd
    intro h
    have h0 := h (r, par) List.mem_cons_self
    simp only at h0
    simp only [edgesOf, h0, List.map_cons]
    rw [ih (fun x hx => h x (List.mem_cons_of_mem _ hx))]

theorem reqsInto_aux (S : State) (root : Ver) (ids : List (Nat × Ver)) {p : Nat} {to : Ver} {c : Criterion}
    (hc : getCrit S.criteria p = some c) (hns : ∀ x ∈ c.info, idsGet ids x.2.pkg = some x.2) :
    ∀ (l : List (Nat × Ver)) (es : List Edge), (∀ e ∈ l, e.2.pkg = e.1) → (l.map (·.1)).Nodup → to.pkg = p →
      addEdges S root ids l = some es →
      ((es.filter (fun e => e.dst == to)).map (·.req) = if (p, to) ∈ l then c.info.map (·.1) else []) := by
  intro l
  induction l with
  | nil => intro es _ _ _ h; simp [addEdges] at h; subst h; simp
  | cons hd tl ih =>
    obtain ⟨p0, to0⟩ := hd
    intro es hwf hnd htp h
    have hwf' : ∀ e ∈ tl, e.2.pkg = e.1 := fun e he => hwf e (List.mem_cons_of_mem _ he)
    simp only [List.map_cons, List.nodup_cons] at hnd
    simp only [addEdges] at h
    split at h
    · rename_i hn
      split at h
      · rw [ih es hwf' hnd.2 htp h]
        have : (p, to) ≠ (p0, to0) := by
          intro e; injection e with e1 e2; rw [← e1, hc] at hn; simp at hn
        simp [this]
      · simp at h
    · rename_i crit0 hc0
      split at h
      · simp at h
      · rename_i es0 hes0
        simp at h; subst h
        rw [List.filter_append, List.map_append, ih es0 hwf' hnd.2 htp hes0]
        by_cases hto : to0 = to
        · subst hto
          have hp0 : p0 = p := by rw [← htp]; exact (hwf (p0, to0) List.mem_cons_self).symm
          subst hp0
          rw [hc] at hc0; cases hc0
          have hall : (edgesOf ids to0 c.info).filter (fun e => e.dst == to0) = edgesOf ids to0 c.info :=
            List.filter_eq_self.mpr (fun e he => by simp [edgesOf_dst e he])
          have hnotin : (p0, to0) ∉ tl := fun hin => hnd.1 (List.mem_map.mpr ⟨(p0, to0), hin, rfl⟩)
          rw [hall, edgesOf_noStale c.info hns]
          simp [hnotin]
        · have hnone : (edgesOf ids to0 crit0.info).filter (fun e => e.dst == to) = [] :=
            List.filter_eq_nil_iff.mpr (fun e he => by simp [edgesOf_dst e he, hto])
          have hne : (p, to) ≠ (p0, to0) := by
            intro e; injection e with _ e2; exact hto e2.symm
          rw [hnone]
          simp [hne]

end DepsDev.Resolve.Pypi
