import DepsDev.Proofs.C09Span

/-!
# C09 — `Set.Intersect` before canonicalisation: the pairwise loop (T3) and the double loop
-/
namespace DepsDev.Proofs.C09

open Std DepsDev DepsDev.Semver DepsDev.Proofs

variable {s : System}

/-- Some span of the list contains `v` (inclusive matching). -/
def anyHas (s : System) (l : List Span) (v : Version) : Bool := l.any (fun sp => has s sp v)

@[simp] theorem anyHas_nil (v : Version) : anyHas s [] v = false := rfl
@[simp] theorem anyHas_cons (x : Span) (l : List Span) (v : Version) :
    anyHas s (x :: l) v = (has s x v || anyHas s l v) := by simp [anyHas]
@[simp] theorem anyHas_append (l l' : List Span) (v : Version) :
    anyHas s (l ++ l') v = (anyHas s l v || anyHas s l' v) := by simp [anyHas]

theorem anyHas_iff (l : List Span) (v : Version) :
    anyHas s l v = true ↔ ∃ sp ∈ l, has s sp v = true := by simp [anyHas]

/-- Every bound of the span satisfies `P` (used to carry arbitrary invariants of bounds
through the operations: every bound of a result is a bound of an operand). -/
def AllB (P : Version → Prop) (sp : Span) : Prop :=
  (∀ a, sp.min = some a → P a) ∧ (∀ b, sp.max = some b → P b)

/-- Non-empty spans appear in non-decreasing order of `min` (what `Intersect`'s `break` relies on). -/
def MinSorted (s : System) (l : List Span) : Prop :=
  l.Pairwise (fun x y => ∀ a c, x.rank ≠ .empty → y.rank ≠ .empty → x.min = some a → y.min = some c →
    pt s a ≤ pt s c)

/-- The pair law on points: the bounds `Intersect` selects denote the intersection. -/
theorem pair_inItv (a b c d v : Pt s) (ao bo co dO : Bool)
    (hab : a < b ∨ (a ≤ b ∧ ao = false ∧ bo = false)) (hcd : c < d ∨ (c ≤ d ∧ co = false ∧ dO = false))
    (hskip : ¬ (d < a ∨ ((d ≤ a ∧ a ≤ d) ∧ dO = true))) (hbrk : ¬ b < c) :
    (if a < c ∨ ((c ≤ a ∧ a ≤ c) ∧ co = true) then c else a) ≤
      (if d < b ∨ ((d ≤ b ∧ b ≤ d) ∧ dO = true) then d else b) ∧
    (inItv (if a < c ∨ ((c ≤ a ∧ a ≤ c) ∧ co = true) then c else a)
        (if a < c ∨ ((c ≤ a ∧ a ≤ c) ∧ co = true) then co else ao)
        (if d < b ∨ ((d ≤ b ∧ b ≤ d) ∧ dO = true) then d else b)
        (if d < b ∨ ((d ≤ b ∧ b ≤ d) ∧ dO = true) then dO else bo) v ↔
      inItv a ao b bo v ∧ inItv c co d dO v) := by
  unfold inItv
  cases ao <;> cases bo <;> cases co <;> cases dO <;> simp at hab hcd hskip ⊢ <;> grind

theorem skip_inItv (a b c d v : Pt s) (ao bo co dO : Bool)
    (hskip : d < a ∨ ((d ≤ a ∧ a ≤ d) ∧ dO = true)) :
    ¬ (inItv a ao b bo v ∧ inItv c co d dO v) := by
  unfold inItv
  cases ao <;> cases bo <;> cases co <;> cases dO <;> simp at hskip ⊢ <;> grind

theorem break_inItv (a b c c' d' v : Pt s) (ao bo co' dO' : Bool) (hbrk : b < c) (hcc : c ≤ c') :
    ¬ (inItv a ao b bo v ∧ inItv c' co' d' dO' v) := by
  unfold inItv
  cases ao <;> cases bo <;> cases co' <;> cases dO' <;> simp <;> grind

/-- The inner loop of `Intersect` for one `selem` (T3): it succeeds, appends well-formed
spans whose bounds are bounds of the operands, and what it appends denotes
`selem ∩ ⋃ ts`. The `break` is justified by `MinSorted ts`. -/
theorem tloop_spec (P : Version → Prop) {selem : Span} (hs : SpanOK s selem) (hne : selem.rank ≠ .empty)
    (hPs : AllB P selem) :
    ∀ (ts acc : List Span), (∀ t ∈ ts, SpanOK s t) → (∀ t ∈ ts, AllB P t) → MinSorted s ts →
      ∃ add, VSet.intersect.tloop selem ts acc = .ok (acc ++ add) ∧
        (∀ x ∈ add, SpanOK s x ∧ AllB P x) ∧ add.length ≤ ts.length ∧
        ∀ v, anyHas s add v = (has s selem v && anyHas s ts v) := by
  obtain ⟨a, b, h1, h2, ha, hb, hab, hfl, -, -⟩ := hs.bounds hne
  have hab' : pt s a < pt s b ∨ (pt s a ≤ pt s b ∧ selem.minOpen = false ∧ selem.maxOpen = false) := by
    rcases hfl with h | h
    · exact Or.inl h
    · exact Or.inr ⟨hab, h⟩
  intro ts
  induction ts with
  | nil =>
    intro acc _ _ _
    exact ⟨[], by simp [VSet.intersect.tloop], by simp, by simp, by simp⟩
  | cons telem rest ih =>
    intro acc hok hP hsorted
    have hrest_ok : ∀ t ∈ rest, SpanOK s t := fun t ht => hok t (List.mem_cons_of_mem _ ht)
    have hrest_P : ∀ t ∈ rest, AllB P t := fun t ht => hP t (List.mem_cons_of_mem _ ht)
    have hrest_sorted : MinSorted s rest := (List.pairwise_cons.mp hsorted).2
    rw [VSet.intersect.tloop]
    by_cases hte : telem.rank = .empty
    · obtain ⟨add, e, hadd, hlen, hv⟩ := ih acc hrest_ok hrest_P hrest_sorted
      refine ⟨add, by simp [hte, e], hadd, by simp; omega, ?_⟩
      intro v
      rw [hv v, anyHas_cons, has_empty hte, Bool.false_or]
    · have htok := hok telem List.mem_cons_self
      obtain ⟨c, d, t1, t2, hc, hd, hcd, tfl, -, -⟩ := htok.bounds hte
      have hcd' : pt s c < pt s d ∨ (pt s c ≤ pt s d ∧ telem.minOpen = false ∧ telem.maxOpen = false) := by
        rcases tfl with h | h
        · exact Or.inl h
        · exact Or.inr ⟨hcd, h⟩
      have hte' : (telem.rank == Rank.empty) = false := by simpa using hte
      simp only [hte', Bool.false_eq_true, ↓reduceIte, h1, h2, t1, t2, vLess_eq hd.1 ha.1, vEqual_eq hd.1 ha.1,
        ok_bind, vGreater_eq hc.1 hb.1, vGreater_eq hc.1 ha.1, vEqual_eq hc.1 ha.1, vLess_eq hd.1 hb.1,
        vEqual_eq hd.1 hb.1, Bool.or_eq_true, Bool.and_eq_true, decide_eq_true_eq]
      by_cases hskip : pt s d < pt s a ∨ ((pt s d ≤ pt s a ∧ pt s a ≤ pt s d) ∧ telem.maxOpen = true)
      · obtain ⟨add, e, hadd, hlen, hv⟩ := ih acc hrest_ok hrest_P hrest_sorted
        refine ⟨add, by simp only [hskip, ↓reduceIte, e], hadd, by simp; omega, ?_⟩
        intro v
        rw [hv v, anyHas_cons, has_eq hne h1 h2, has_eq hte t1 t2]
        have := skip_inItv (pt s a) (pt s b) (pt s c) (pt s d) (pt s v) selem.minOpen selem.maxOpen
          telem.minOpen telem.maxOpen hskip
        by_cases q1 : inItv (pt s a) selem.minOpen (pt s b) selem.maxOpen (pt s v) <;>
          by_cases q2 : inItv (pt s c) telem.minOpen (pt s d) telem.maxOpen (pt s v) <;> simp_all
      · simp only [hskip, ↓reduceIte]
        by_cases hbrk : pt s b < pt s c
        · refine ⟨[], by simp [hbrk], by simp, by simp, ?_⟩
          intro v
          simp only [anyHas_nil]
          symm
          cases hsv : has s selem v
          · rfl
          rw [Bool.true_and, ← Bool.not_eq_true, anyHas_iff]
          rw [has_eq hne h1 h2, decide_eq_true_eq] at hsv
          rintro ⟨t, ht, htv⟩
          have htne : t.rank ≠ .empty := fun h => by rw [has_empty h] at htv; cases htv
          have htok' := hok t ht
          obtain ⟨c', d', t1', t2', -, -, -, -, -, -⟩ := htok'.bounds htne
          rw [has_eq htne t1' t2', decide_eq_true_eq] at htv
          have hcc : pt s c ≤ pt s c' := by
            rcases List.mem_cons.mp ht with rfl | ht'
            · rw [t1] at t1'; cases t1'; exact Std.le_refl _
            · exact (List.pairwise_cons.mp hsorted).1 t ht' c c' hte htne t1 t1'
          exact break_inItv (pt s a) (pt s b) (pt s c) (pt s c') (pt s d') (pt s v) _ _ _ _ hbrk hcc ⟨hsv, htv⟩
        · simp only [hbrk, ↓reduceIte]
          have hlaw := fun v => pair_inItv (pt s a) (pt s b) (pt s c) (pt s d) (pt s v) selem.minOpen
            selem.maxOpen telem.minOpen telem.maxOpen hab' hcd' hskip hbrk
          simp only [apply_ite Prod.fst, apply_ite Prod.snd]
          have hlo_pt := apply_ite (pt s) (pt s a < pt s c ∨ (pt s c ≤ pt s a ∧ pt s a ≤ pt s c) ∧ telem.minOpen = true) c a
          have hhi_pt := apply_ite (pt s) (pt s d < pt s b ∨ (pt s d ≤ pt s b ∧ pt s b ≤ pt s d) ∧ telem.maxOpen = true) d b
          rw [← hlo_pt, ← hhi_pt] at hlaw
          have hloOK : VOK s (if pt s a < pt s c ∨ (pt s c ≤ pt s a ∧ pt s a ≤ pt s c) ∧ telem.minOpen = true then c else a) := by
            split <;> assumption
          have hhiOK : VOK s (if pt s d < pt s b ∨ (pt s d ≤ pt s b ∧ pt s b ≤ pt s d) ∧ telem.maxOpen = true then d else b) := by
            split <;> assumption
          have hloP : P (if pt s a < pt s c ∨ (pt s c ≤ pt s a ∧ pt s a ≤ pt s c) ∧ telem.minOpen = true then c else a) := by
            split
            · exact (hP telem List.mem_cons_self).1 c t1
            · exact hPs.1 a h1
          have hhiP : P (if pt s d < pt s b ∨ (pt s d ≤ pt s b ∧ pt s b ≤ pt s d) ∧ telem.maxOpen = true then d else b) := by
            split
            · exact (hP telem List.mem_cons_self).2 d t2
            · exact hPs.2 b h2
          generalize (if pt s a < pt s c ∨ (pt s c ≤ pt s a ∧ pt s a ≤ pt s c) ∧ telem.minOpen = true then c else a) = lo
            at hlaw hloOK hloP ⊢
          generalize (if pt s d < pt s b ∨ (pt s d ≤ pt s b ∧ pt s b ≤ pt s d) ∧ telem.maxOpen = true then d else b) = hi
            at hlaw hhiOK hhiP ⊢
          generalize (if pt s a < pt s c ∨ (pt s c ≤ pt s a ∧ pt s a ≤ pt s c) ∧ telem.minOpen = true then telem.minOpen else selem.minOpen) = loO
            at hlaw ⊢
          generalize (if pt s d < pt s b ∨ (pt s d ≤ pt s b ∧ pt s b ≤ pt s d) ∧ telem.maxOpen = true then telem.maxOpen else selem.maxOpen) = hiO
            at hlaw ⊢
          obtain ⟨sp, e, spok, sphas, spmin, spmax⟩ := newSpan_spec hloOK hhiOK loO hiO (hlaw a).1
          obtain ⟨add, e2, hadd, hlen, hv⟩ := ih (acc ++ [sp]) hrest_ok hrest_P hrest_sorted
          refine ⟨sp :: add, by simp [e, e2], ?_, by simp; omega, ?_⟩
          · intro x hx
            rcases List.mem_cons.mp hx with rfl | hx
            · refine ⟨spok, ?_, ?_⟩
              · intro m hm
                rcases spmin with h | h <;> rw [h] at hm <;> cases hm
                exact hloP
              · intro m hm
                rcases spmax with h | h | h <;> rw [h] at hm <;> cases hm
                · exact hloP
                · exact hhiP
            · exact hadd x hx
          · intro v
            rw [anyHas_cons, anyHas_cons, hv v, sphas v, has_eq hne h1 h2, has_eq hte t1 t2]
            have := (hlaw v).2
            by_cases q1 : inItv (pt s a) selem.minOpen (pt s b) selem.maxOpen (pt s v) <;>
              by_cases q2 : inItv (pt s c) telem.minOpen (pt s d) telem.maxOpen (pt s v) <;> simp_all

/-- The double loop of `Intersect`: the list handed to `canon` denotes `⋃ ss ∩ ⋃ ts`. -/
theorem sloop_spec (P : Version → Prop) (ts : List Span) (htok : ∀ t ∈ ts, SpanOK s t)
    (htP : ∀ t ∈ ts, AllB P t) (hsorted : MinSorted s ts) :
    ∀ (ss acc : List Span), (∀ x ∈ ss, SpanOK s x) → (∀ x ∈ ss, AllB P x) →
      ∃ add, List.foldlM (fun acc selem =>
          if (selem.rank == Rank.empty) = true then Outcome.ok acc
          else VSet.intersect.tloop selem ts acc) acc ss = .ok (acc ++ add) ∧
        (∀ x ∈ add, SpanOK s x ∧ AllB P x) ∧ add.length ≤ ss.length * ts.length ∧
        ∀ v, anyHas s add v = (anyHas s ss v && anyHas s ts v) := by
  intro ss
  induction ss with
  | nil => intro acc _ _; exact ⟨[], by simp [List.foldlM], by simp, by simp, by simp⟩
  | cons selem rest ih =>
    intro acc hok hP
    have hrok : ∀ x ∈ rest, SpanOK s x := fun x hx => hok x (List.mem_cons_of_mem _ hx)
    have hrP : ∀ x ∈ rest, AllB P x := fun x hx => hP x (List.mem_cons_of_mem _ hx)
    rw [List.foldlM_cons]
    by_cases hse : selem.rank = .empty
    · obtain ⟨add, e, hadd, hlen, hv⟩ := ih acc hrok hrP
      have hse'' : (selem.rank == Rank.empty) = true := by simp [hse]
      refine ⟨add, by simp only [hse'', ↓reduceIte, ok_bind, e], hadd, ?_, ?_⟩
      · simp only [List.length_cons, Nat.add_mul]; omega
      intro v
      rw [hv v, anyHas_cons, has_empty hse, Bool.false_or]
    · have hse' : (selem.rank == Rank.empty) = false := by simpa using hse
      obtain ⟨add1, e1, hadd1, hlen1, hv1⟩ := tloop_spec P (hok selem List.mem_cons_self) hse
        (hP selem List.mem_cons_self) ts acc htok htP hsorted
      obtain ⟨add2, e2, hadd2, hlen2, hv2⟩ := ih (acc ++ add1) hrok hrP
      refine ⟨add1 ++ add2, by
        simp only [hse', Bool.false_eq_true, ↓reduceIte, e1, ok_bind, e2, List.append_assoc], ?_, by
        simp only [List.length_append, List.length_cons, Nat.add_mul]; omega, ?_⟩
      · intro x hx
        rcases List.mem_append.mp hx with h | h
        · exact hadd1 x h
        · exact hadd2 x h
      · intro v
        rw [anyHas_append, hv1 v, hv2 v, anyHas_cons]
        cases has s selem v <;> cases anyHas s rest v <;> cases anyHas s ts v <;> rfl

/-- `Set.Intersect` is `canon` applied to a list that denotes the intersection. -/
theorem intersect_eq (P : Version → Prop) (A B : VSet) (hA : ∀ x ∈ A.span, SpanOK s x)
    (hB : ∀ x ∈ B.span, SpanOK s x) (hAP : ∀ x ∈ A.span, AllB P x) (hBP : ∀ x ∈ B.span, AllB P x)
    (hsorted : MinSorted s B.span) :
    ∃ out, out ≠ [] ∧ (∀ x ∈ out, SpanOK s x ∧ AllB P x) ∧
      (A.span.length * B.span.length ≤ 1 → out.length ≤ 1) ∧
      (∀ v, anyHas s out v = (anyHas s A.span v && anyHas s B.span v)) ∧
      VSet.intersect A B = (canonSpans out >>= fun sp => Outcome.ok { A with span := sp }) := by
  obtain ⟨add, e, hadd, hlen, hv⟩ := sloop_spec P B.span hB hBP hsorted A.span [] hA hAP
  rw [List.nil_append] at e
  by_cases hempty : add = []
  · refine ⟨[Span.emptySpan], by simp, ?_, by simp, ?_, ?_⟩
    · intro x hx
      rw [List.mem_singleton] at hx
      subst hx
      exact ⟨spanOK_empty, by constructor <;> (intro a h; cases h)⟩
    · intro v
      rw [← hv v, hempty]
      simp [has_empty (s := s) (sp := Span.emptySpan) rfl]
    · unfold VSet.intersect
      rw [e]
      simp only [ok_bind, hempty, List.isEmpty_nil, ↓reduceIte]
  · refine ⟨add, hempty, hadd, fun h => by omega, hv, ?_⟩
    unfold VSet.intersect
    rw [e]
    have : add.isEmpty = false := by
      cases add with
      | nil => exact absurd rfl hempty
      | cons _ _ => rfl
    simp only [ok_bind, this, Bool.false_eq_true, ↓reduceIte]

end DepsDev.Proofs.C09
