import DepsDev.Proofs.C14Spec
import DepsDev.Proofs.C12Match

/-!
# C14 — refinement lemmas: association lists, replace-or-insert, one `AddVersion` step
-/
namespace DepsDev.Proofs.C14Refine

open List hiding lookup
open DepsDev DepsDev.Semver DepsDev.Resolve.Match DepsDev.Resolve.Client
open DepsDev.Proofs.SortUnique DepsDev.Proofs.C12Match DepsDev.Proofs.C14Spec

/-! ### association lists -/

section assoc
variable {κ β : Type} [DecidableEq κ]

theorem lookup_nil (k : κ) : lookup ([] : List (κ × β)) k = none := rfl

theorem lookup_cons (e : κ × β) (m : List (κ × β)) (k : κ) :
    lookup (e :: m) k = if e.1 = k then some e.2 else lookup m k := by
  unfold lookup
  simp only [List.find?_cons]
  by_cases h : e.1 = k <;> simp [h]

theorem hasKey_cons (e : κ × β) (m : List (κ × β)) (k : κ) :
    hasKey (e :: m) k = (decide (e.1 = k) || hasKey m k) := by
  simp [hasKey]

theorem lookup_isSome (m : List (κ × β)) (k : κ) : (lookup m k).isSome = hasKey m k := by
  induction m with
  | nil => rfl
  | cons e es ih =>
    rw [lookup_cons, hasKey_cons]
    by_cases h : e.1 = k <;> simp [h, ih]

theorem lookup_eq_none_iff (m : List (κ × β)) (k : κ) : lookup m k = none ↔ hasKey m k = false := by
  rw [← lookup_isSome]
  cases lookup m k <;> simp

theorem lookup_map_replace (m : List (κ × β)) (k : κ) (b : β) (k' : κ) :
    lookup (m.map (fun e => if e.1 = k then (k, b) else e)) k' =
      if k' = k then (if hasKey m k then some b else none) else lookup m k' := by
  induction m with
  | nil => by_cases h : k' = k <;> simp [lookup_nil, hasKey, h]
  | cons e es ih =>
    rw [List.map_cons, lookup_cons, hasKey_cons, ih, lookup_cons]
    by_cases h1 : e.1 = k
    · by_cases h2 : k' = k
      · subst h2; simp [h1]
      · have : ¬ k = k' := fun h => h2 h.symm
        have h3 : ¬ e.1 = k' := fun h => this (h1.symm.trans h)
        simp [h1, h2, this]
    · by_cases h2 : k' = k
      · subst h2; simp [h1]
      · simp [h1, h2]

theorem lookup_append_singleton (m : List (κ × β)) (k : κ) (b : β) (k' : κ) :
    lookup (m ++ [(k, b)]) k' = match lookup m k' with
      | some x => some x
      | none => if k = k' then some b else none := by
  induction m with
  | nil => simp [lookup_cons, lookup_nil]
  | cons e es ih =>
    simp only [List.cons_append, lookup_cons]
    by_cases h : e.1 = k' <;> simp [h, ih]

/-- `m[k] = b; m[k']`. -/
theorem lookup_upsert (m : List (κ × β)) (k : κ) (b : β) (k' : κ) :
    lookup (upsert m k b) k' = if k' = k then some b else lookup m k' := by
  unfold upsert
  split
  · rename_i h
    rw [lookup_map_replace]
    simp [h]
  · rename_i h
    have hn : lookup m k = none := (lookup_eq_none_iff m k).mpr (by simpa using h)
    rw [lookup_append_singleton]
    by_cases h2 : k' = k
    · subst h2; simp [hn]
    · have : ¬ k = k' := fun h => h2 h.symm
      simp [h2, this]
      cases lookup m k' <;> rfl

theorem hasKey_upsert (m : List (κ × β)) (k : κ) (b : β) (k' : κ) :
    hasKey (upsert m k b) k' = (decide (k' = k) || hasKey m k') := by
  rw [← lookup_isSome, lookup_upsert, ← lookup_isSome]
  by_cases h : k' = k <;> simp [h]

end assoc

/-! ### `ensurePackage` -/

theorem lookup_ensure (pv : List (PackageKey × List RVersion)) (d : RequirementVersion) (p : PackageKey) :
    lookup (ensurePackage pv d) p = match lookup pv p with
      | some x => some x
      | none => if d.key.pk = p then some [] else none := by
  unfold ensurePackage
  split
  · rename_i h
    cases hl : lookup pv p with
    | some x => rfl
    | none =>
      have : hasKey pv p = false := (lookup_eq_none_iff pv p).mp hl
      by_cases h2 : d.key.pk = p
      · subst h2; rw [this] at h; cases h
      · simp [h2]
  · rw [lookup_append_singleton]
    cases lookup pv p <;> rfl

theorem lookup_foldl_ensure (deps : List RequirementVersion) (pv : List (PackageKey × List RVersion)) (p : PackageKey) :
    lookup (deps.foldl ensurePackage pv) p = match lookup pv p with
      | some x => some x
      | none => if deps.any (fun d => d.key.pk = p) then some [] else none := by
  induction deps generalizing pv with
  | nil => simp; cases lookup pv p <;> rfl
  | cons d ds ih =>
    rw [List.foldl_cons, ih, lookup_ensure]
    cases lookup pv p with
    | some x => rfl
    | none =>
      by_cases h : d.key.pk = p <;> simp [h]

theorem hasKey_foldl_ensure (deps : List RequirementVersion) (pv : List (PackageKey × List RVersion)) (p : PackageKey) :
    hasKey (deps.foldl ensurePackage pv) p = (hasKey pv p || deps.any (fun d => d.key.pk = p)) := by
  rw [← lookup_isSome, lookup_foldl_ensure, ← lookup_isSome]
  cases lookup pv p with
  | some x => simp
  | none => by_cases h : deps.any (fun d => d.key.pk = p) <;> simp [h]

/-! ### `find?` by key -/

theorem find_key_of_mem {l : List RVersion} (nd : (l.map (fun v => v.key)).Nodup) {v : RVersion} (hv : v ∈ l) :
    l.find? (fun w => w.key = v.key) = some v := by
  induction l with
  | nil => cases hv
  | cons x xs ih =>
    simp only [List.map_cons, List.nodup_cons, List.mem_map, not_exists, not_and] at nd
    rw [List.find?_cons]
    rcases List.mem_cons.mp hv with rfl | hv'
    · simp
    · have : ¬ x.key = v.key := fun h => nd.1 v hv' h.symm
      simp [this, ih nd.2 hv']

theorem find_key_some {l : List RVersion} {k : VersionKey} {v : RVersion}
    (h : l.find? (fun w => w.key = k) = some v) : v ∈ l ∧ v.key = k := by
  have := List.find?_some h
  exact ⟨List.mem_of_find?_eq_some h, by simpa using this⟩

/-- With distinct keys, looking a key up depends only on the set of records. -/
theorem find_key_perm {l₁ l₂ : List RVersion} (nd : (l₁.map (fun v => v.key)).Nodup) (p : l₁ ~ l₂)
    (k : VersionKey) : l₁.find? (fun w => w.key = k) = l₂.find? (fun w => w.key = k) := by
  have nd₂ : (l₂.map (fun v => v.key)).Nodup := (p.map _).nodup_iff.mp nd
  cases h₁ : l₁.find? (fun w => w.key = k) with
  | some v =>
    obtain ⟨hv, hk⟩ := find_key_some h₁
    subst hk
    exact (find_key_of_mem nd₂ (p.mem_iff.mp hv)).symm
  | none =>
    cases h₂ : l₂.find? (fun w => w.key = k) with
    | none => rfl
    | some v =>
      obtain ⟨hv, hk⟩ := find_key_some h₂
      subst hk
      rw [find_key_of_mem nd (p.mem_iff.mpr hv)] at h₁
      cases h₁

/-! ### `replaceOrInsert` -/

theorem replaceOrInsert_keys (vs : List RVersion) (v : RVersion) (nd : (vs.map (fun w => w.key)).Nodup) :
    ((replaceOrInsert vs v).map (fun w => w.key)).Nodup := by
  unfold replaceOrInsert
  split
  · have : (vs.map (fun w => if w.key = v.key then v else w)).map (fun w => w.key) = vs.map (fun w => w.key) := by
      rw [List.map_map]
      apply List.map_congr_left
      intro w _
      simp only [Function.comp]
      split
      · rename_i h; exact h.symm
      · rfl
    rw [this]; exact nd
  · rename_i h
    rw [List.map_append, List.map_singleton]
    have hk : v.key ∉ vs.map (fun w => w.key) := by
      intro hm
      obtain ⟨w, hw, hwk⟩ := List.mem_map.mp hm
      apply h
      rw [List.any_eq_true]
      exact ⟨w, hw, by simpa using hwk⟩
    exact List.nodup_append.mpr ⟨nd, by simp, by
      intro a ha b hb
      simp only [List.mem_singleton] at hb
      subst hb
      intro e; subst e; exact hk ha⟩

theorem replaceOrInsert_find (vs : List RVersion) (v : RVersion) (k : VersionKey) :
    (replaceOrInsert vs v).find? (fun w => w.key = k) =
      if k = v.key then some v else vs.find? (fun w => w.key = k) := by
  unfold replaceOrInsert
  split
  · rename_i h
    induction vs with
    | nil => simp at h
    | cons x xs ih =>
      rw [List.map_cons, List.find?_cons, List.find?_cons]
      by_cases hx : x.key = v.key
      · by_cases hk : k = v.key
        · subst hk; simp [hx]
        · have h1 : ¬ v.key = k := fun h => hk h.symm
          have h2 : ¬ x.key = k := fun h => h1 (hx.symm.trans h)
          simp only [hx, ↓reduceIte, h1, decide_false, hk]
          by_cases hany : xs.any (fun w => w.key = v.key)
          · rw [ih hany]; simp [hk]
          · -- no further element has the key: the map is the identity on the tail
            have : xs.map (fun w => if w.key = v.key then v else w) = xs := by
              rw [List.map_congr_left, List.map_id]
              intro w hw
              have : ¬ w.key = v.key := by
                intro hwk; apply hany; rw [List.any_eq_true]; exact ⟨w, hw, by simpa using hwk⟩
              simp [this]
            rw [this]
      · have hany : xs.any (fun w => w.key = v.key) = true := by
          simpa [List.any_cons, hx] using h
        simp only [hx, ↓reduceIte]
        by_cases hk : k = v.key
        · subst hk
          simp only [hx, decide_false, ↓reduceIte]
          rw [ih hany]; simp
        · by_cases hxk : x.key = k
          · simp [hxk, hk]
          · simp only [hxk, decide_false, hk, ↓reduceIte]
            rw [ih hany]; simp [hk]
  · rename_i h
    rw [List.find?_append]
    by_cases hk : k = v.key
    · subst hk
      have : vs.find? (fun w => w.key = v.key) = none := by
        rw [List.find?_eq_none]
        intro w hw hwk
        apply h
        rw [List.any_eq_true]
        exact ⟨w, hw, hwk⟩
      simp [this]
    · have : ¬ v.key = k := fun h => hk h.symm
      simp [hk, this]

theorem replaceOrInsert_mem (vs : List RVersion) (v w : RVersion) (hw : w ∈ replaceOrInsert vs v) :
    w = v ∨ w ∈ vs := by
  unfold replaceOrInsert at hw
  split at hw
  · obtain ⟨x, hx, rfl⟩ := List.mem_map.mp hw
    split
    · exact Or.inl rfl
    · exact Or.inr hx
  · rcases List.mem_append.mp hw with h | h
    · exact Or.inr h
    · exact Or.inl (by simpa using h)

/-! ### `SortVersions` returns a permutation -/

theorem sortVersions_perm_input {l r : List RVersion} (h : sortVersions l = .ok r) : r ~ l := by
  unfold sortVersions at h
  split at h
  · injection h with h; subst h; exact Perm.refl _
  · split at h
    · unfold sortNPMVersions at h
      split at h
      · rename_i ds hds
        injection h with h; subst h
        exact ((moveLatest_perm ds).map DV.v).trans (sortBase_map_v_perm hds)
      · cases h
      · cases h
    · split at h
      · rename_i ds hds
        injection h with h; subst h
        exact sortBase_map_v_perm hds
      · cases h
      · cases h

/-! ### `sortDependencies` returns a permutation -/

theorem sortDependencies_perm (deps : List RequirementVersion) : sortDependencies deps ~ deps := by
  unfold sortDependencies
  split
  · exact Perm.refl _
  · split
    · exact goSort_perm _
    · exact Perm.refl _

theorem any_perm {α : Type} {l₁ l₂ : List α} (p : l₁ ~ l₂) (f : α → Bool) : l₁.any f = l₂.any f := by
  rw [Bool.eq_iff_iff, List.any_eq_true, List.any_eq_true]
  exact ⟨fun ⟨x, hx, h⟩ => ⟨x, p.mem_iff.mp hx, h⟩, fun ⟨x, hx, h⟩ => ⟨x, p.mem_iff.mpr hx, h⟩⟩

/-! ### one `AddVersion` -/

section add
variable (lc : LocalClient) (v : RVersion) (deps : List RequirementVersion)

/-- The state after a normally returning, non-deleted `AddVersion`. -/
def added (sorted : List RVersion) : LocalClient :=
  { packageVersions := (sortDependencies deps).foldl ensurePackage (upsert lc.packageVersions v.key.pk sorted)
    imports := upsert lc.imports v.key (sortDependencies deps) }

theorem addVersion_deleted (hdel : v.attrs.deleted = true) : addVersion lc v deps = (lc, .ok ()) := by
  simp [addVersion, hdel]

theorem addVersion_ok {sorted : List RVersion} (hdel : v.attrs.deleted = false)
    (hs : sortVersions (replaceOrInsert (versionsOrNil lc v.key.pk) v) = .ok sorted) :
    addVersion lc v deps = (added lc v deps sorted, .ok ()) := by
  unfold addVersion added
  simp only [hdel, Bool.false_eq_true, ↓reduceIte]
  rw [hs]

theorem addVersion_not_ok (hdel : v.attrs.deleted = false)
    (hs : ∀ sorted, sortVersions (replaceOrInsert (versionsOrNil lc v.key.pk) v) ≠ .ok sorted) :
    (addVersion lc v deps).2 = .panic := by
  unfold addVersion
  simp only [hdel, Bool.false_eq_true, ↓reduceIte]
  split
  · rename_i sorted h; exact absurd h (hs sorted)
  · rfl
  · rfl

variable {lc v deps}
variable {sorted : List RVersion}

theorem versionsOrNil_added (p : PackageKey) :
    versionsOrNil (added lc v deps sorted) p = if p = v.key.pk then sorted else versionsOrNil lc p := by
  unfold versionsOrNil LocalClient.versionsOf added
  simp only
  rw [lookup_foldl_ensure, lookup_upsert]
  by_cases h : p = v.key.pk
  · simp [h]
  · simp only [h, ↓reduceIte]
    cases lookup lc.packageVersions p with
    | some x => rfl
    | none => split <;> simp_all

theorem lookup_added (p : PackageKey) (vs : List RVersion)
    (h : lookup (added lc v deps sorted).packageVersions p = some vs) :
    (p = v.key.pk ∧ vs = sorted) ∨ (p ≠ v.key.pk ∧ (lookup lc.packageVersions p = some vs ∨ vs = [])) := by
  unfold added at h
  simp only at h
  rw [lookup_foldl_ensure, lookup_upsert] at h
  by_cases hp : p = v.key.pk
  · simp only [hp, ↓reduceIte] at h
    injection h with h
    exact Or.inl ⟨hp, h.symm⟩
  · simp only [hp, ↓reduceIte] at h
    refine Or.inr ⟨hp, ?_⟩
    cases hl : lookup lc.packageVersions p with
    | some x => rw [hl] at h; exact Or.inl h
    | none =>
      rw [hl] at h
      simp only at h
      split at h
      · injection h with h; exact Or.inr h.symm
      · cases h

theorem hasKey_added (p : PackageKey) :
    hasKey (added lc v deps sorted).packageVersions p =
      (decide (p = v.key.pk) || deps.any (fun d => d.key.pk = p) || hasKey lc.packageVersions p) := by
  unfold added
  simp only
  rw [hasKey_foldl_ensure, hasKey_upsert, any_perm (sortDependencies_perm deps)]
  cases decide (p = v.key.pk) <;> cases hasKey lc.packageVersions p <;> simp

theorem lookup_imports_added (k : VersionKey) :
    lookup (added lc v deps sorted).imports k = if k = v.key then some (sortDependencies deps) else lookup lc.imports k := by
  unfold added
  simp only
  rw [lookup_upsert]

theorem findVersion_added (hI : Inv lc)
    (hs : sortVersions (replaceOrInsert (versionsOrNil lc v.key.pk) v) = .ok sorted) (k : VersionKey) :
    findVersion (added lc v deps sorted) k = if k = v.key then some v else findVersion lc k := by
  unfold findVersion
  rw [versionsOrNil_added]
  by_cases hp : k.pk = v.key.pk
  · simp only [hp, ↓reduceIte]
    have nd0 : ((versionsOrNil lc v.key.pk).map (fun w => w.key)).Nodup := by
      unfold versionsOrNil LocalClient.versionsOf
      cases hl : lookup lc.packageVersions v.key.pk with
      | some vs => exact hI.nodup _ _ hl
      | none => simp
    have nd1 := replaceOrInsert_keys _ v nd0
    have p := sortVersions_perm_input hs
    have nd2 : (sorted.map (fun w => w.key)).Nodup := (p.map _).nodup_iff.mpr nd1
    rw [find_key_perm nd2 p k, replaceOrInsert_find]
  · have : k ≠ v.key := fun h => hp (by rw [h])
    simp [hp, this]

/-- **Abstraction commutes with a (non-deleted, normally returning) `AddVersion`.** -/
theorem abs_added (hI : Inv lc) (hdel : v.attrs.deleted = false)
    (hs : sortVersions (replaceOrInsert (versionsOrNil lc v.key.pk) v) = .ok sorted) :
    abs (added lc v deps sorted) = specStep (abs lc) (.add v deps) := by
  unfold specStep
  simp only [hdel, Bool.false_eq_true, ↓reduceIte]
  unfold abs
  congr 1
  · funext k
    rw [findVersion_added hI hs, lookup_imports_added]
    by_cases hk : k = v.key <;> simp [hk]
  · funext p
    exact hasKey_added p

/-- **The representation invariant is preserved.** -/
theorem inv_added (hI : Inv lc) (hdel : v.attrs.deleted = false)
    (hs : sortVersions (replaceOrInsert (versionsOrNil lc v.key.pk) v) = .ok sorted) :
    Inv (added lc v deps sorted) := by
  have p := sortVersions_perm_input hs
  have nd0 : ((versionsOrNil lc v.key.pk).map (fun w => w.key)).Nodup := by
    unfold versionsOrNil LocalClient.versionsOf
    cases hl : lookup lc.packageVersions v.key.pk with
    | some vs => exact hI.nodup _ _ hl
    | none => simp
  have own0 : ∀ w ∈ versionsOrNil lc v.key.pk, w.key.pk = v.key.pk ∧ w.attrs.deleted = false := by
    unfold versionsOrNil LocalClient.versionsOf
    cases hl : lookup lc.packageVersions v.key.pk with
    | some vs => exact hI.own _ _ hl
    | none => intro w hw; cases hw
  refine ⟨?_, ?_, ?_, ?_, ?_⟩
  · intro q vs hl w hw
    rcases lookup_added q vs hl with ⟨hq, rfl⟩ | ⟨_, hold | rfl⟩
    · rcases replaceOrInsert_mem _ v w (p.mem_iff.mp hw) with rfl | hw'
      · exact ⟨hq.symm, hdel⟩
      · rw [hq]; exact own0 w hw'
    · exact hI.own q vs hold w hw
    · cases hw
  · intro q vs hl
    rcases lookup_added q vs hl with ⟨_, rfl⟩ | ⟨_, hold | rfl⟩
    · exact (p.map _).nodup_iff.mpr (replaceOrInsert_keys _ v nd0)
    · exact hI.nodup q vs hold
    · simp
  · intro q vs hl
    rcases lookup_added q vs hl with ⟨_, rfl⟩ | ⟨_, hold | rfl⟩
    · exact Or.inr ⟨_, hs⟩
    · exact hI.sorted q vs hold
    · exact Or.inl rfl
  · intro k
    rw [findVersion_added hI hs, lookup_imports_added]
    by_cases hk : k = v.key
    · simp [hk]
    · simp only [hk, ↓reduceIte]; exact hI.sync k
  · intro k ds hl d hd
    rw [lookup_imports_added] at hl
    rw [hasKey_added]
    by_cases hk : k = v.key
    · simp only [hk, ↓reduceIte] at hl
      injection hl with hl
      subst hl
      have : deps.any (fun d' => d'.key.pk = d.key.pk) = true := by
        rw [List.any_eq_true]
        exact ⟨d, (sortDependencies_perm deps).mem_iff.mp hd, by simp⟩
      simp [this]
    · simp only [hk, ↓reduceIte] at hl
      simp [hI.mentioned k ds hl d hd]

end add

/-! ### queries -/

theorem inv_new : Inv LocalClient.new := by
  refine ⟨?_, ?_, ?_, ?_, ?_⟩ <;> intros <;> simp_all [LocalClient.new, lookup, findVersion, versionsOrNil, LocalClient.versionsOf]

theorem abs_new : abs LocalClient.new = Spec.empty := by
  unfold abs Spec.empty
  congr 1

theorem isListing_of_inv {lc : LocalClient} (hI : Inv lc) {p : PackageKey} {vs : List RVersion}
    (hl : lookup lc.packageVersions p = some vs) : IsListing (abs lc) p vs := by
  have hvn : versionsOrNil lc p = vs := by unfold versionsOrNil LocalClient.versionsOf; rw [hl]
  refine ⟨hI.nodup p vs hl, ?_, hI.sorted p vs hl⟩
  intro w
  constructor
  · intro hw
    have hp := (hI.own p vs hl w hw).1
    refine ⟨hp, ?_⟩
    have hf : findVersion lc w.key = some w := by
      unfold findVersion
      rw [hp, hvn]
      exact find_key_of_mem (hI.nodup p vs hl) hw
    have hsync := hI.sync w.key
    rw [hf] at hsync
    cases hi : lookup lc.imports w.key with
    | none => rw [hi] at hsync; cases hsync
    | some ds => exact ⟨ds, by simp [abs, hf, hi]⟩
  · rintro ⟨hp, ds, hv⟩
    unfold abs at hv
    simp only at hv
    cases hf : findVersion lc w.key with
    | none => rw [hf] at hv; cases hv
    | some x =>
      rw [hf] at hv
      cases hi : lookup lc.imports w.key with
      | none => rw [hi] at hv; cases hv
      | some ds' =>
        rw [hi] at hv
        injection hv with hv
        have hattrs : x.attrs = w.attrs := (Prod.mk.inj hv).1
        unfold findVersion at hf
        rw [hp, hvn] at hf
        obtain ⟨hx, hk⟩ := find_key_some hf
        have : x = w := by
          cases x; cases w; simp_all
        rw [← this]; exact hx

/-- Every query returns what the map says (given the invariant). -/
theorem query_ok {lc : LocalClient} (hI : Inv lc) :
    (∀ k, ObsOK (abs lc) (.ver k) (version lc k)) ∧
    (∀ k, ObsOK (abs lc) (.reqs k) (requirements lc k)) ∧
    (∀ p, ObsOK (abs lc) (.vers p) (versions lc p)) ∧
    (∀ k, ObsOK (abs lc) (.mtch k) (matchingVersions lc k)) := by
  refine ⟨?_, ?_, ?_, ?_⟩
  · intro k
    have hsync := hI.sync k
    simp only [ObsOK, version, abs]
    have hv : (lc.versionsOf k.pk).find? (fun v => v.key = k) = findVersion lc k := rfl
    rw [hv]
    cases hf : findVersion lc k with
    | none => simp
    | some x =>
      rw [hf] at hsync
      cases hi : lookup lc.imports k with
      | none => rw [hi] at hsync; cases hsync
      | some ds => simp
  · intro k
    have hsync := hI.sync k
    simp only [ObsOK, requirements, abs]
    cases hi : lookup lc.imports k with
    | none =>
      cases hf : findVersion lc k <;> simp
    | some ds =>
      rw [hi] at hsync
      cases hf : findVersion lc k with
      | none => rw [hf] at hsync; cases hsync
      | some x => simp
  · intro p
    simp only [ObsOK, versions]
    have hk : (abs lc).known p = hasKey lc.packageVersions p := rfl
    rw [hk, ← lookup_isSome]
    cases hl : lookup lc.packageVersions p with
    | none => simp
    | some vs => simp only [Option.isSome_some, ↓reduceIte]; exact ⟨vs, rfl, isListing_of_inv hI hl⟩
  · intro k
    simp only [ObsOK, matchingVersions]
    have hk : (abs lc).known k.pk = hasKey lc.packageVersions k.pk := rfl
    rw [hk, ← lookup_isSome]
    cases hl : lookup lc.packageVersions k.pk with
    | none => simp
    | some vs =>
      simp only [Option.isSome_some, ↓reduceIte]
      exact ⟨vs, isListing_of_inv hI hl, rfl⟩

end DepsDev.Proofs.C14Refine
