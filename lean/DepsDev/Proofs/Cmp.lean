import DepsDev.Model.Semver.Compare

/-!
# Comparator algebra used by C01 (and by everything that needs a lawful order)

* `Ordering.toInt`, and the bridge from the model's `Int`-valued sign functions to
  core's `Ordering`-valued comparators;
* `padLex`: position-wise lexicographic comparison of lists of different length with
  a default element for the missing positions (the shape of Go's `getNum` loop and of
  the RubyGems element loop), with its `TransCmp` instance;
* `LawfulInt`: what C01 asserts about an `Int`-valued comparator, derived once from
  "equals `toInt` of a `TransCmp` comparator".
-/
namespace DepsDev.Proofs

open Std DepsDev DepsDev.Semver

def ordToInt : Ordering → Int
  | .lt => -1
  | .eq => 0
  | .gt => 1

@[simp] theorem ordToInt_lt : ordToInt .lt = -1 := rfl
@[simp] theorem ordToInt_eq : ordToInt .eq = 0 := rfl
@[simp] theorem ordToInt_gt : ordToInt .gt = 1 := rfl

@[simp] theorem ordToInt_swap (o : Ordering) : ordToInt o.swap = - ordToInt o := by
  cases o <;> rfl

theorem ordToInt_eq_zero {o : Ordering} : ordToInt o = 0 ↔ o = .eq := by
  cases o <;> simp [ordToInt]

theorem ordToInt_le_zero {o : Ordering} : ordToInt o ≤ 0 ↔ o.isLE := by
  cases o <;> simp [ordToInt, Ordering.isLE]

theorem ordToInt_then (a b : Ordering) :
    ordToInt (a.then b) = if ordToInt a ≠ 0 then ordToInt a else ordToInt b := by
  cases a <;> simp [ordToInt, Ordering.then]

theorem thenInt_eq (a b : Ordering) : thenInt (ordToInt a) (ordToInt b) = ordToInt (a.then b) := by
  cases a <;> simp [thenInt, ordToInt, Ordering.then]

theorem thenInt_congr {x y y' : Int} (h : x = 0 → y = y') : thenInt x y = thenInt x y' := by
  unfold thenInt
  by_cases hx : x = 0
  · simp [hx, h hx]
  · simp [hx]

theorem sgnInt_eq_zero {a b : Int} : sgnInt a b = 0 ↔ a = b := by
  unfold sgnInt
  split
  · constructor <;> intro h <;> omega
  · split
    · constructor <;> intro h <;> omega
    · constructor <;> intro _ <;> omega

theorem sgnInt_eq (a b : Int) : sgnInt a b = ordToInt (compare a b) := by
  unfold sgnInt
  rcases Int.lt_trichotomy a b with h | h | h
  · simp [h, Int.compare_eq_lt.mpr h, ordToInt]
  · subst h; simp [ordToInt]
  · have : ¬ a < b := by omega
    simp [this, h, Int.compare_eq_gt.mpr h, ordToInt]

/-- Go string comparison is core's lexicographic order on byte lists. -/
theorem cmpBytes_eq (a b : Bytes) : cmpBytes a b = ordToInt (List.compareLex compare a b) := by
  fun_induction cmpBytes a b with
  | case1 => simp [List.compareLex, ordToInt]
  | case2 => simp [List.compareLex, ordToInt]
  | case3 => simp [List.compareLex, ordToInt]
  | case4 a as b bs h =>
    have : compare a b = .lt := by
      simp [compare, compareOfLessAndEq, h]
    simp [List.compareLex, this, ordToInt]
  | case5 a as b bs h1 h2 =>
    have hne : a ≠ b := by
      intro e; subst e; exact h1 h2
    have : compare a b = .gt := by
      simp [compare, compareOfLessAndEq, h1, hne]
    simp [List.compareLex, this, ordToInt]
  | case6 a as b bs h1 h2 ih =>
    have hab : a = b := by
      have h1' : ¬ a.toNat < b.toNat := by simpa [UInt8.lt_iff_toNat_lt] using h1
      have h2' : ¬ b.toNat < a.toNat := by simpa [UInt8.lt_iff_toNat_lt] using h2
      apply UInt8.toNat_inj.mp; omega
    subst hab
    simp [List.compareLex, ih]

/-! ## padLex -/

/-- Position-wise lexicographic comparison with default `d` for missing positions. -/
def padLex {α} (cmp : α → α → Ordering) (d : α) : List α → List α → Ordering
  | [], [] => .eq
  | [], b :: bs => (cmp d b).then (padLex cmp d [] bs)
  | a :: as, [] => (cmp a d).then (padLex cmp d as [])
  | a :: as, b :: bs => (cmp a b).then (padLex cmp d as bs)

/-- `l` followed by `n - l.length` copies of `d`. -/
def padTo {α} (d : α) (n : Nat) (l : List α) : List α := l ++ List.replicate (n - l.length) d

theorem padTo_length {α} (d : α) (n : Nat) (l : List α) (h : l.length ≤ n) : (padTo d n l).length = n := by
  simp [padTo]; omega

theorem padTo_nil_succ {α} (d : α) (n : Nat) : padTo d (n + 1) ([] : List α) = d :: padTo d n [] := by
  simp [padTo, List.replicate_succ]

theorem padTo_cons_succ {α} (d a : α) (as : List α) (n : Nat) :
    padTo d (n + 1) (a :: as) = a :: padTo d n as := by
  simp [padTo]

/-- At any common length at least both lengths, `padLex` is `List.compareLex` on the padded lists. -/
theorem padLex_eq_compareLex {α} (cmp : α → α → Ordering) [ReflCmp cmp] (d : α) :
    ∀ (n : Nat) (a b : List α), a.length ≤ n → b.length ≤ n →
      padLex cmp d a b = List.compareLex cmp (padTo d n a) (padTo d n b) := by
  intro n
  induction n with
  | zero =>
    intro a b ha hb
    have : a = [] := List.eq_nil_of_length_eq_zero (by omega)
    have : b = [] := List.eq_nil_of_length_eq_zero (by omega)
    subst_vars
    simp [padLex, padTo, List.compareLex]
  | succ n ih =>
    intro a b ha hb
    cases a with
    | nil =>
      cases b with
      | nil =>
        rw [padTo_nil_succ]
        have := ih [] [] (by simp) (by simp)
        simp only [padLex] at this
        simp [padLex, List.compareLex_cons_cons, ReflCmp.compare_self, ← this]
      | cons b bs =>
        rw [padTo_nil_succ, padTo_cons_succ]
        simp only [padLex, List.compareLex_cons_cons]
        rw [ih [] bs (by simp) (by simpa using hb)]
    | cons a as =>
      cases b with
      | nil =>
        rw [padTo_nil_succ, padTo_cons_succ]
        simp only [padLex, List.compareLex_cons_cons]
        rw [ih as [] (by simpa using ha) (by simp)]
      | cons b bs =>
        rw [padTo_cons_succ, padTo_cons_succ]
        simp only [padLex, List.compareLex_cons_cons]
        rw [ih as bs (by simpa using ha) (by simpa using hb)]

instance {α} (cmp : α → α → Ordering) [OrientedCmp cmp] (d : α) : OrientedCmp (padLex cmp d) where
  eq_swap := by
    intro a b
    let n := max a.length b.length
    rw [padLex_eq_compareLex cmp d n a b (by omega) (by omega),
        padLex_eq_compareLex cmp d n b a (by omega) (by omega)]
    exact OrientedCmp.eq_swap

instance {α} (cmp : α → α → Ordering) [TransCmp cmp] (d : α) : TransCmp (padLex cmp d) where
  isLE_trans := by
    intro a b c h1 h2
    let n := max a.length (max b.length c.length)
    rw [padLex_eq_compareLex cmp d n _ _ (by omega) (by omega)] at h1 h2 ⊢
    exact TransCmp.isLE_trans h1 h2

/-! ## What C01 asserts, for an `Int`-valued comparator -/

/-- `f` is the `Int` rendering of a lawful (`TransCmp`) comparator. -/
structure LawfulInt {α} (f : α → α → Int) : Prop where
  ex : ∃ c : α → α → Ordering, TransCmp c ∧ ∀ a b, f a b = ordToInt (c a b)

namespace LawfulInt
variable {α} {f : α → α → Int}

theorem of_cmp (c : α → α → Ordering) [TransCmp c] (h : ∀ a b, f a b = ordToInt (c a b)) : LawfulInt f :=
  ⟨c, inferInstance, h⟩

theorem refl (h : LawfulInt f) (a : α) : f a a = 0 := by
  obtain ⟨c, _, hc⟩ := h
  rw [hc, ordToInt_eq_zero]; exact ReflCmp.compare_self

theorem antisymm (h : LawfulInt f) (a b : α) : f b a = - f a b := by
  obtain ⟨c, _, hc⟩ := h
  rw [hc, hc, ← ordToInt_swap, ← OrientedCmp.eq_swap]

theorem trans_le (h : LawfulInt f) {a b c : α} (h1 : f a b ≤ 0) (h2 : f b c ≤ 0) : f a c ≤ 0 := by
  obtain ⟨cmp, _, hc⟩ := h
  rw [hc, ordToInt_le_zero] at *
  exact TransCmp.isLE_trans h1 h2

theorem trans_lt_left (h : LawfulInt f) {a b c : α} (h1 : f a b < 0) (h2 : f b c ≤ 0) : f a c < 0 := by
  obtain ⟨cmp, _, hc⟩ := h
  rw [hc] at *
  have h1' : cmp a b = .lt := by
    cases hh : cmp a b <;> simp [hh, ordToInt] at h1 ⊢
  have h2' : (cmp b c).isLE := ordToInt_le_zero.mp h2
  have := TransCmp.lt_of_lt_of_isLE h1' h2'
  simp [this, ordToInt]

theorem trans_lt_right (h : LawfulInt f) {a b c : α} (h1 : f a b ≤ 0) (h2 : f b c < 0) : f a c < 0 := by
  obtain ⟨cmp, _, hc⟩ := h
  rw [hc] at *
  have h2' : cmp b c = .lt := by
    cases hh : cmp b c <;> simp [hh, ordToInt] at h2 ⊢
  have h1' : (cmp a b).isLE := ordToInt_le_zero.mp h1
  have := TransCmp.lt_of_isLE_of_lt h1' h2'
  simp [this, ordToInt]

/-- Two versions that compare equal compare identically against every third. -/
theorem congr (h : LawfulInt f) {a b : α} (hab : f a b = 0) (c : α) : f a c = f b c := by
  obtain ⟨cmp, _, hc⟩ := h
  rw [hc] at hab
  rw [hc, hc, TransCmp.congr_left (ordToInt_eq_zero.mp hab)]

/-- Values are signs. -/
theorem sign (h : LawfulInt f) (a b : α) : f a b = -1 ∨ f a b = 0 ∨ f a b = 1 := by
  obtain ⟨c, _, hc⟩ := h
  rw [hc]; cases c a b <;> simp [ordToInt]

/-- Pull back along any function. -/
theorem comap {β} (h : LawfulInt f) (g : β → α) : LawfulInt (fun x y => f (g x) (g y)) := by
  obtain ⟨c, hT, hc⟩ := h
  refine ⟨fun x y => c (g x) (g y), ?_, fun a b => hc _ _⟩
  exact { eq_swap := fun {a b} => hT.eq_swap, isLE_trans := fun {a b c} h1 h2 => hT.isLE_trans h1 h2 }
end LawfulInt

end DepsDev.Proofs
