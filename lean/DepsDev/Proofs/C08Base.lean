import DepsDev.Model.Resolve.PypiHyp

/-! Basic lemmas about the C08 model's containers and single steps. -/
namespace DepsDev.Resolve.Pypi

/-! ### criteria as an association list -/

theorem getCrit_some_mem {cs : List (Nat × Criterion)} {n : Nat} {c : Criterion} (h : getCrit cs n = some c) : (n, c) ∈ cs := by
  induction cs with
  | nil => simp [getCrit] at h
  | cons hd tl ih =>
    obtain ⟨m, d⟩ := hd
    simp only [getCrit] at h
    split at h
    · simp at h; subst h; rename_i e; subst e; exact List.mem_cons_self
    · exact List.mem_cons_of_mem _ (ih h)

theorem getCrit_putCrit (cs : List (Nat × Criterion)) (n m : Nat) (c : Criterion) :
    getCrit (putCrit cs n c) m = if n = m then some c else getCrit cs m := by
  induction cs with
  | nil => simp [putCrit, getCrit]
  | cons hd tl ih =>
    obtain ⟨k, d⟩ := hd
    simp only [putCrit]
    split
    · rename_i e; subst e
      simp only [getCrit]
      split <;> rfl
    · split
      · simp only [getCrit]
      · rename_i hne _
        simp only [getCrit, ih]
        by_cases h1 : k = m <;> by_cases h2 : n = m <;> simp_all

theorem mem_putCrit {cs : List (Nat × Criterion)} {n : Nat} {c : Criterion} {e : Nat × Criterion}
    (h : e ∈ putCrit cs n c) : e ∈ cs ∨ e = (n, c) := by
  induction cs with
  | nil => simp [putCrit] at h; exact Or.inr h
  | cons hd tl ih =>
    obtain ⟨k, d⟩ := hd
    simp only [putCrit] at h
    split at h
    · rcases List.mem_cons.mp h with e1 | e1
      · exact Or.inr e1
      · exact Or.inl (List.mem_cons_of_mem _ e1)
    · split at h
      · rcases List.mem_cons.mp h with e1 | e1
        · exact Or.inr e1
        · exact Or.inl e1
      · rcases List.mem_cons.mp h with e1 | e1
        · exact Or.inl (e1 ▸ List.mem_cons_self)
        · rcases ih e1 with h2 | h2
          · exact Or.inl (List.mem_cons_of_mem _ h2)
          · exact Or.inr h2

theorem mem_putAll {upd cs : List (Nat × Criterion)} {e : Nat × Criterion}
    (h : e ∈ putAll cs upd) : e ∈ cs ∨ e ∈ upd := by
  induction upd generalizing cs with
  | nil => exact Or.inl (by simpa [putAll] using h)
  | cons hd tl ih =>
    obtain ⟨n, c⟩ := hd
    simp only [putAll, List.foldl_cons] at h
    rcases ih (cs := putCrit cs n c) (by simpa [putAll] using h) with h1 | h1
    · rcases mem_putCrit h1 with h2 | h2
      · exact Or.inl h2
      · exact Or.inr (h2 ▸ List.mem_cons_self)
    · exact Or.inr (List.mem_cons_of_mem _ h1)

/-- lookup after `putAll`: an untouched key keeps its criterion -/
theorem getCrit_putAll_of_not_key {upd cs : List (Nat × Criterion)} {m : Nat}
    (h : ∀ c, (m, c) ∉ upd) : getCrit (putAll cs upd) m = getCrit cs m := by
  induction upd generalizing cs with
  | nil => simp [putAll]
  | cons hd tl ih =>
    obtain ⟨n, c⟩ := hd
    simp only [putAll, List.foldl_cons]
    have := ih (cs := putCrit cs n c) (fun c' hc' => h c' (List.mem_cons_of_mem _ hc'))
    simp only [putAll] at this
    rw [this, getCrit_putCrit]
    split
    · rename_i e; subst e; exact absurd List.mem_cons_self (h c)
    · rfl

/-- lookup after `putAll`: a touched key holds one of the update's criteria for it -/
theorem getCrit_putAll_of_key {upd cs : List (Nat × Criterion)} {m : Nat} {c0 : Criterion}
    (h : (m, c0) ∈ upd) : ∃ c, (m, c) ∈ upd ∧ getCrit (putAll cs upd) m = some c := by
  induction upd generalizing cs c0 with
  | nil => simp at h
  | cons hd tl ih =>
    obtain ⟨n, c⟩ := hd
    simp only [putAll, List.foldl_cons]
    by_cases hk : ∃ c', (m, c') ∈ tl
    · obtain ⟨c', hc'⟩ := hk
      obtain ⟨c2, h2, h3⟩ := ih (cs := putCrit cs n c) hc'
      exact ⟨c2, List.mem_cons_of_mem _ h2, by simpa [putAll] using h3⟩
    · have hk' : ∀ c', (m, c') ∉ tl := fun c' hc' => hk ⟨c', hc'⟩
      have := getCrit_putAll_of_not_key (cs := putCrit cs n c) hk'
      simp only [putAll] at this
      rcases List.mem_cons.mp h with e | e
      · cases e
        refine ⟨c0, List.mem_cons_self, ?_⟩
        rw [this, getCrit_putCrit]; simp
      · exact absurd e (hk' c0)

/-! ### pins -/

theorem mem_setPin {m : List Pin} {p q : Pin} (h : q ∈ setPin m p) : q = p ∨ (q ∈ m ∧ q.pkg ≠ p.pkg) := by
  simp only [setPin, List.mem_append, List.mem_filter, List.mem_singleton] at h
  rcases h with ⟨h1, h2⟩ | h
  · exact Or.inr ⟨h1, by simpa using h2⟩
  · exact Or.inl h

theorem setPin_nodup {m : List Pin} {p : Pin} (h : (m.map (·.pkg)).Nodup) : ((setPin m p).map (·.pkg)).Nodup := by
  simp only [setPin, List.map_append, List.map_cons, List.map_nil]
  rw [List.nodup_append]
  refine ⟨?_, by simp, ?_⟩
  · exact List.Nodup.sublist (List.Sublist.map _ List.filter_sublist) h
  · intro a ha b hb
    simp at hb; subst hb
    obtain ⟨q, hq, rfl⟩ := List.mem_map.mp ha
    simp at hq
    exact hq.2

theorem getPin_of_mem_nodup {m : List Pin} {q : Pin} (nd : (m.map (·.pkg)).Nodup) (h : q ∈ m) : getPin m q.pkg = some q.id := by
  induction m with
  | nil => simp at h
  | cons hd tl ih =>
    simp only [List.map_cons, List.nodup_cons] at nd
    simp only [getPin]
    rcases List.mem_cons.mp h with e | e
    · subst e; simp
    · split
      · rename_i hk
        exfalso; apply nd.1
        rw [hk]; exact List.mem_map.mpr ⟨q, e, rfl⟩
      · exact ih nd.2 e

/-! ### `intersect` -/

theorem dropThrough_some {a : Nat} {b b' : List Nat} (h : dropThrough a b = some b') : a ∈ b ∧ ∀ x ∈ b', x ∈ b := by
  induction b with
  | nil => simp [dropThrough] at h
  | cons y ys ih =>
    simp only [dropThrough] at h
    split at h
    · simp at h; subst h; rename_i e; subst e
      exact ⟨List.mem_cons_self, fun x hx => List.mem_cons_of_mem _ hx⟩
    · obtain ⟨h1, h2⟩ := ih h
      exact ⟨List.mem_cons_of_mem _ h1, fun x hx => List.mem_cons_of_mem _ (h2 x hx)⟩

theorem mem_intersect {a b : List Nat} {x : Nat} (h : x ∈ intersect a b) : x ∈ a ∧ x ∈ b := by
  induction a generalizing b with
  | nil => simp [intersect] at h
  | cons y ys ih =>
    simp only [intersect] at h
    split at h
    · rename_i b' hd
      obtain ⟨h1, h2⟩ := dropThrough_some hd
      rcases List.mem_cons.mp h with e | e
      · subst e; exact ⟨List.mem_cons_self, h1⟩
      · obtain ⟨h3, h4⟩ := ih e
        exact ⟨List.mem_cons_of_mem _ h3, h2 x h4⟩
    · obtain ⟨h3, h4⟩ := ih h
      exact ⟨List.mem_cons_of_mem _ h3, h4⟩

/-! ### `findMatches` -/

theorem intersectAll_sub {U : Universe} {root : Ver} {anyPre : Bool} :
    ∀ (rs : List Req) (m res : List Nat), intersectAll U root anyPre rs m = .ok res →
      (∀ x ∈ res, x ∈ m) ∧ ∀ x ∈ res, ∀ r ∈ rs, ∃ mvs, getMatches U root anyPre r = .ok mvs ∧ x ∈ mvs := by
  intro rs
  induction rs with
  | nil => intro m res h; simp [intersectAll] at h; subst h; exact ⟨fun _ hx => hx, by simp⟩
  | cons r rs ih =>
    intro m res h
    simp only [intersectAll] at h
    split at h <;> try (simp at h)
    rename_i mvs hg
    obtain ⟨h1, h2⟩ := ih _ _ h
    refine ⟨fun x hx => (mem_intersect (h1 x hx)).1, ?_⟩
    intro x hx r' hr'
    rcases List.mem_cons.mp hr' with e | e
    · subst e; exact ⟨mvs, hg, (mem_intersect (h1 x hx)).2⟩
    · exact h2 x hx r' e

/-- every version `findMatches` returns matches every requirement (in the mode chosen
for the whole list) and is not a known incompatibility -/
theorem findMatches_sub {U : Universe} {root : Ver} {reqs : List Req} {inc res : List Nat}
    (h : findMatches U root reqs inc = .ok res) :
    ∀ x ∈ res, (∀ r ∈ reqs, ∃ mvs, getMatches U root (anyPreOf U reqs) r = .ok mvs ∧ x ∈ mvs) ∧ x ∉ inc := by
  cases reqs with
  | nil => simp [findMatches] at h; subst h; simp
  | cons r0 rest =>
    simp only [findMatches] at h
    split at h <;> try (simp at h)
    rename_i mvs hg
    split at h
    · simp at h
    · obtain ⟨h1, h2⟩ := intersectAll_sub _ _ _ h
      intro x hx
      have hm := h1 x hx
      simp only [List.mem_filter, Bool.not_eq_eq_eq_not, Bool.not_true] at hm
      refine ⟨?_, by simpa using hm.2⟩
      intro r hr
      rcases List.mem_cons.mp hr with e | e
      · subst e; exact ⟨mvs, hg, hm.1⟩
      · exact h2 x hx r e

/-! ### `mergeIntoCriterion` -/

/-- the two ways `mergeIntoCriterion` succeeds -/
theorem merge_ok {U : Universe} {root : Ver} {S : State} {r : Req} {par : Ver} {c : Criterion}
    (h : mergeIntoCriterion U root S r par = .ok c) :
    let crit0 := (getCrit S.criteria r.pkg).getD Criterion.empty
    (c = crit0 ∧ ∃ r' , (r', par) ∈ crit0.info ∧ r'.spec = r.spec ∧ r'.ty = r.ty) ∨
    (c.info = crit0.info ++ [(r, par)] ∧ c.extras = unionExtras crit0.extras r.extras ∧ c.incompat = crit0.incompat ∧
      findMatches U root (crit0.info.map (·.1) ++ [r]) crit0.incompat = .ok c.cands ∧ c.cands ≠ []) := by
  intro crit0
  simp only [mergeIntoCriterion] at h
  split at h
  · rename_i hany
    injection h with h
    left
    refine ⟨h.symm, ?_⟩
    simp only [List.any_eq_true] at hany
    obtain ⟨⟨r', p'⟩, hm, hc⟩ := hany
    simp at hc
    obtain ⟨⟨h1, h2⟩, h3⟩ := hc
    exact ⟨r', h3 ▸ hm, h1, h2⟩
  · split at h <;> try (simp at h)
    rename_i m hf
    split at h
    · simp at h
    · rename_i hne
      simp at h
      right
      subst h
      refine ⟨rfl, rfl, rfl, hf, ?_⟩
      intro he; apply hne; have hm : m = [] := he; subst hm; rfl

theorem merge_info_mono {U : Universe} {root : Ver} {S : State} {r : Req} {par : Ver} {c : Criterion}
    (h : mergeIntoCriterion U root S r par = .ok c) :
    ∀ x ∈ ((getCrit S.criteria r.pkg).getD Criterion.empty).info, x ∈ c.info := by
  rcases merge_ok h with ⟨h1, _⟩ | ⟨h1, _⟩
  · intro x hx; rw [h1]; exact hx
  · intro x hx; rw [h1]; exact List.mem_append_left _ hx

/-! ### `mergeDeps` / `getCriteriaToUpdate` -/

theorem mergeDeps_spec {U : Universe} {root : Ver} {S : State} {cand : Ver} :
    ∀ (ds : List Req) (acc upd : List (Nat × Criterion)), mergeDeps U root S cand ds acc = .ok upd →
      (∀ e ∈ upd, e ∈ acc ∨ ∃ d ∈ ds, e.1 = d.pkg ∧ mergeIntoCriterion U root S d cand = .ok e.2) ∧
      (∀ d ∈ ds, ∃ c, (d.pkg, c) ∈ upd) ∧ (∀ e ∈ acc, ∃ c, (e.1, c) ∈ upd) := by
  intro ds
  induction ds with
  | nil =>
    intro acc upd h; simp [mergeDeps] at h; subst h
    exact ⟨fun e he => Or.inl he, by simp, fun e he => ⟨e.2, he⟩⟩
  | cons d ds ih =>
    intro acc upd h
    simp only [mergeDeps] at h
    split at h <;> try (simp at h)
    rename_i c hm
    obtain ⟨h1, h2, h3⟩ := ih _ _ h
    have hkey : ∃ c', (d.pkg, c') ∈ putCrit acc d.pkg c := by
      have := getCrit_putCrit acc d.pkg d.pkg c
      simp at this
      exact ⟨c, getCrit_some_mem this⟩
    refine ⟨?_, ?_, ?_⟩
    · intro e he
      rcases h1 e he with h4 | ⟨d', hd', h5⟩
      · rcases mem_putCrit h4 with h6 | h6
        · exact Or.inl h6
        · right; exact ⟨d, List.mem_cons_self, by rw [h6], by rw [h6]; exact hm⟩
      · exact Or.inr ⟨d', List.mem_cons_of_mem _ hd', h5⟩
    · intro d' hd'
      rcases List.mem_cons.mp hd' with e | e
      · subst e
        obtain ⟨c', hc'⟩ := hkey
        exact h3 _ hc'
      · exact h2 d' e
    · intro e he
      by_cases hk : e.1 = d.pkg
      · obtain ⟨c', hc'⟩ := hkey
        rw [hk]; exact h3 _ hc'
      · have : getCrit (putCrit acc d.pkg c) e.1 = getCrit acc e.1 := by
          rw [getCrit_putCrit]; simp [Ne.symm hk]
        -- e's key is still present
        have hpres : ∃ c', (e.1, c') ∈ putCrit acc d.pkg c := by
          clear this h1 h2 h3 h ih hm hkey
          induction acc with
          | nil => simp at he
          | cons a t iht =>
            obtain ⟨k, x⟩ := a
            simp only [putCrit]
            split
            · rename_i hkd
              rcases List.mem_cons.mp he with e1 | e1
              · subst e1; exact absurd hkd hk
              · exact ⟨e.2, List.mem_cons_of_mem _ e1⟩
            · split
              · exact ⟨e.2, List.mem_cons_of_mem _ he⟩
              · rcases List.mem_cons.mp he with e1 | e1
                · subst e1; exact ⟨x, List.mem_cons_self⟩
                · obtain ⟨c', hc'⟩ := iht e1
                  exact ⟨c', List.mem_cons_of_mem _ hc'⟩
        obtain ⟨c', hc'⟩ := hpres
        exact h3 (e.1, c') hc'

/-! ### `patchCriteria` -/

/-- `c'` is `c` with fewer candidates and more incompatibilities -/
def Shrunk (c c' : Criterion) : Prop :=
  c'.info = c.info ∧ c'.extras = c.extras ∧ (∀ x ∈ c'.cands, x ∈ c.cands)

theorem Shrunk.refl (c : Criterion) : Shrunk c c := ⟨rfl, rfl, fun _ h => h⟩
theorem Shrunk.trans {a b c : Criterion} (h1 : Shrunk a b) (h2 : Shrunk b c) : Shrunk a c :=
  ⟨h2.1.trans h1.1, h2.2.1.trans h1.2.1, fun x hx => h1.2.2 x (h2.2.2 x hx)⟩

theorem patchCriteria_spec :
    ∀ (incs : List (Nat × List Nat)) (cs cs' : List (Nat × Criterion)), patchCriteria incs cs = some cs' →
      (∀ e ∈ cs', ∃ c, (e.1, c) ∈ cs ∧ Shrunk c e.2) ∧
      (∀ n c, getCrit cs n = some c → ∃ c', getCrit cs' n = some c' ∧ Shrunk c c') ∧
      (∀ n, getCrit cs n = none → getCrit cs' n = none) := by
  intro incs
  induction incs with
  | nil =>
    intro cs cs' h; simp [patchCriteria] at h; subst h
    exact ⟨fun e he => ⟨e.2, he, Shrunk.refl _⟩, fun n c hc => ⟨c, hc, Shrunk.refl _⟩, fun _ h => h⟩
  | cons hd tl ih =>
    obtain ⟨name, inc⟩ := hd
    intro cs cs' h
    simp only [patchCriteria] at h
    split at h
    · exact ih _ _ h
    · split at h
      · exact ih _ _ h
      · rename_i crit hc
        split at h
        · simp at h
        · obtain ⟨h1, h2, h3⟩ := ih _ _ h
          have hs : Shrunk crit (Criterion.mk crit.info crit.extras (unionNat inc crit.incompat)
              (crit.cands.filter (fun c => !(unionNat inc crit.incompat).contains c))) :=
            ⟨rfl, rfl, fun x hx => (List.mem_filter.mp hx).1⟩
          refine ⟨?_, ?_, ?_⟩
          · intro e he
            obtain ⟨c, hc1, hc2⟩ := h1 e he
            rcases mem_putCrit hc1 with h4 | h4
            · exact ⟨c, h4, hc2⟩
            · cases h4
              exact ⟨crit, getCrit_some_mem hc, hs.trans hc2⟩
          · intro n c hcn
            by_cases hn : name = n
            · subst hn
              rw [hc] at hcn; cases hcn
              obtain ⟨c', hc', hs'⟩ := h2 name _ (by rw [getCrit_putCrit]; exact if_pos rfl)
              exact ⟨c', hc', hs.trans hs'⟩
            · exact h2 n c (by rw [getCrit_putCrit]; simp [hn, hcn])
          · intro n hn
            apply h3
            rw [getCrit_putCrit]
            split
            · rename_i e; subst e; rw [hc] at hn; simp at hn
            · exact hn

end DepsDev.Resolve.Pypi
