import DepsDev.Proofs.C03L2Ast

/-!
# C03 layer L3, model side: what `span.contains` / `Set.matchVersion` do with a prerelease candidate

`contains_mode`: for a well-formed span of a generic system and **any** candidate, release-mode
`contains` is interval membership (`has`) and, for a prerelease candidate against a vector span,
the library's admission test: the lower or the upper bound is flagged prerelease and has the
candidate's number list (`admitB`). `altMatch_spec`: one AND list (npm: blank-separated
comparators) is a single span `r`; it contains a candidate (interval sense) iff every comparator's
span does — for prerelease candidates too, since a single-span `Intersect` involves no `canon`
merge — its bounds are bounds of the comparators' spans, and `matchVersion` applies `contains_mode`
to it.
-/
namespace DepsDev.Proofs.C03

open Std DepsDev DepsDev.Semver DepsDev.Ref DepsDev.Proofs DepsDev.Proofs.C09

variable {s : System}

/-- The library's prerelease admission test on the bounds of a vector span. -/
def admitB (sp : Span) (v : Version) : Bool :=
  match sp.min, sp.max with
  | some a, some b => (a.isPrerelease && equalValues v.num a.num) || (b.isPrerelease && equalValues v.num b.num)
  | _, _ => false

/-- Release-mode matching of one span: interval membership, and for a prerelease candidate
against a vector span the admission test. -/
def modeHas (s : System) (sp : Span) (v : Version) : Bool :=
  has s sp v && (!v.isPrerelease || sp.rank != .vector || admitB sp v)

theorem contains_mode {sp : Span} {v : Version} (hsp : SpanOK s sp) (hv : VG s v) (hm : s ≠ .maven) :
    sp.contains v false = .ok (modeHas s sp v) := by
  unfold modeHas
  cases hr : sp.rank with
  | empty =>
    rw [has_empty hr]
    unfold Span.contains
    simp [hr]
  | unit =>
    have h := contains_incl hsp hv
    have e : sp.contains v false = sp.contains v true := by
      unfold Span.contains; simp only [hr]
    rw [e, h]
    simp
  | vector =>
    have hne : sp.rank ≠ .empty := by rw [hr]; decide
    obtain ⟨a, b, h1, h2, ha, hb, -, -, -, -⟩ := hsp.bounds hne
    have hincl := contains_incl hsp hv
    have hsys : (v.sys != System.maven) = true := by
      rw [hv.1]; simpa using hm
    unfold Span.contains at hincl ⊢
    simp only [hr, h1, h2, vcompare_eq hv ha.1, vcompare_eq hb.1 hv, ok_bind, vLessEq_eq ha.1 hv, hsys, Bool.true_and,
      admitB, Bool.false_eq_true, ↓reduceIte] at hincl ⊢
    have hle : ¬ ((ordToInt (genericOrd s v a) == 0 && sp.minOpen) || decide (ordToInt (genericOrd s v a) < 0)) = true →
        decide (pt s a ≤ pt s v) = true := by
      intro h
      rw [decide_eq_true_eq, Pt.le_def]
      rw [OrientedCmp.eq_swap (cmp := genericOrd s) (a := v)] at h
      revert h
      cases genericOrd s a v <;> simp [ordToInt]
    by_cases c1 : ((ordToInt (genericOrd s v a) == 0 && sp.minOpen) || decide (ordToInt (genericOrd s v a) < 0)) = true
    · simp only [c1, ↓reduceIte] at hincl ⊢
      injection hincl with hincl
      rw [← hincl]; rfl
    · have hl := hle c1
      simp only [c1, Bool.false_eq_true, ↓reduceIte] at hincl ⊢
      by_cases c2 : ((ordToInt (genericOrd s b v) == 0 && sp.maxOpen) || decide (ordToInt (genericOrd s b v) < 0)) = true
      · simp only [c2, ↓reduceIte] at hincl ⊢
        injection hincl with hincl
        rw [← hincl]; rfl
      · simp only [c2, Bool.false_eq_true, ↓reduceIte] at hincl ⊢
        injection hincl with hincl
        rw [← hincl, hl]
        cases v.isPrerelease <;> cases a.isPrerelease <;> cases b.isPrerelease <;>
          cases equalValues v.num a.num <;> cases equalValues v.num b.num <;> simp

/-- `Set.matchVersion` in release mode on a set with one well-formed span (npm, Cargo, Default, Go). -/
theorem matchVersion_single (hs : Sys4 s) (sys : System) {r : Span} (hr : SpanOK s r) {v : Version} (hv : VG s v) :
    (VSet.mk sys [r]).matchVersion v false = .ok (modeHas s r v) := by
  obtain ⟨hm, n1, n2, n3⟩ := hs.ne
  unfold VSet.matchVersion
  simp only [List.isEmpty_cons, Bool.false_eq_true, ↓reduceIte, hv.1, n3]
  rw [VSet.matchVersion.go]
  simp only [hv.1, n1, n2, Bool.false_and, Bool.false_eq_true, ↓reduceIte]
  rw [contains_mode hr hv hm]
  simp only [ok_bind, VSet.matchVersion.go]
  cases modeHas s r v <;> rfl

/-- **One AND list, any candidate** (model side of L3). If every comparator of the alternative has a
`Good` span (layer L2) then the parser's set for the alternative is one span `r` with: `r` contains
`v` (interval sense) iff every comparator's span does; every bound of `r` is a bound of some
comparator's span; and matching `v` in release mode is `modeHas` on `r`. -/
theorem altMatch_spec (sys : System) (hs : Sys4 sys) (cs : List Comparator) (hne : cs ≠ [])
    (hgood : ∀ c ∈ cs, ∃ sp, compSpan sys c = .ok sp ∧ Good sys sp) (v : Version) (hv : VG sys v) :
    ∃ r, astSet sys [cs] = .ok { sys := sys, span := [r] } ∧ SpanOK sys r ∧
      (∀ sps : List Span, SpansOf sys cs sps → has sys r v = sps.all (fun sp => has sys sp v)) ∧
      (∀ x, (r.min = some x ∨ r.max = some x) →
        ∃ c ∈ cs, ∃ sp, compSpan sys c = .ok sp ∧ (sp.min = some x ∨ sp.max = some x)) ∧
      (VSet.mk sys [r]).matchVersion v false = .ok (modeHas sys r v) := by
  -- the invariant carried through `Intersect`: the bound comes from one of the comparators
  let P : Version → Prop := fun x => ∃ c ∈ cs, ∃ sp, compSpan sys c = .ok sp ∧ (sp.min = some x ∨ sp.max = some x)
  -- all spans, in order
  have hall : ∀ l : List Comparator, (∀ c ∈ l, c ∈ cs) → ∃ sps : List Span, SpansOf sys l sps ∧
      ∀ sp ∈ sps, SpanOK sys sp ∧ AllB P sp := by
    intro l
    induction l with
    | nil => intro _; exact ⟨[], .nil, by simp⟩
    | cons c l ih =>
      intro hl
      obtain ⟨sp, e, g⟩ := hgood c (hl c List.mem_cons_self)
      obtain ⟨sps, h1, h2⟩ := ih (fun c' h' => hl c' (List.mem_cons_of_mem _ h'))
      refine ⟨sp :: sps, .cons e h1, ?_⟩
      intro x hx
      rcases List.mem_cons.mp hx with rfl | hx
      · exact ⟨g.1, ⟨fun a ha => ⟨c, hl c List.mem_cons_self, x, e, Or.inl ha⟩,
          fun b hb => ⟨c, hl c List.mem_cons_self, x, e, Or.inr hb⟩⟩⟩
      · exact h2 x hx
  obtain ⟨sps, hsp, hok⟩ := hall cs (fun _ h => h)
  cases cs with
  | nil => exact absurd rfl hne
  | cons c cs' =>
    cases hsp with
    | cons e1 hrest =>
      rename_i sp sps'
      obtain ⟨r, er, gr, vr⟩ := andFold_spec (s := sys) P sps' sp (hok sp List.mem_cons_self)
        (fun x hx => hok x (List.mem_cons_of_mem _ hx))
      have halt : altSpans sys (c :: cs') = .ok [r] := by
        simp only [altSpans, e1, bind, Outcome.bind]
        rw [altGo_eq_andFold sys cs' [sp] sps' hrest]
        exact er
      refine ⟨r, ?_, gr.1, ?_, ?_, matchVersion_single hs sys gr.1 hv⟩
      · simp only [astSet, rangeGo, halt, bind, Outcome.bind, List.nil_append, canonSpans_short [r] (Nat.le_refl 1),
          List.isEmpty_cons, Bool.false_eq_true, ↓reduceIte]
      · intro sps2 h2
        have : sps2 = sp :: sps' := by
          clear er halt vr hok
          have key : ∀ (l : List Comparator) (a b : List Span), SpansOf sys l a → SpansOf sys l b → a = b := by
            intro l
            induction l with
            | nil => intro a b ha hb; cases ha; cases hb; rfl
            | cons d l ih =>
              intro a b ha hb
              cases ha with
              | cons ea ra =>
                cases hb with
                | cons eb rb =>
                  rw [ea] at eb
                  injection eb with eb
                  rw [eb, ih _ _ ra rb]
          exact key _ _ _ h2 (.cons e1 hrest)
        rw [this, vr v, List.all_cons]
      · intro x hx
        rcases hx with hx | hx
        · exact gr.2.1 x hx
        · exact gr.2.2 x hx

end DepsDev.Proofs.C03
