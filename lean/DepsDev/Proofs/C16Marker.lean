import DepsDev.Model.Pypi.Marker
import DepsDev.Ref.Pep508
import DepsDev.Proofs.C16Bytes

/-! Marker lemmas for C16, tree level: the tree `parseMarker` builds for a rendered
reference marker (`toModel`), and the Boolean structure of `Eval` against packaging's
`_evaluate_markers`. -/

namespace DepsDev.Proofs.C16Marker
open DepsDev DepsDev.Pypi DepsDev.Ref

/-- Reference operator → `markerOp` value. -/
def opCode : Pep508.Op → Nat
  | .le => opLessEqual | .lt => opLess | .ne => opNotEqual | .eq => opEqualEqual
  | .ge => opGreaterEqual | .gt => opGreater | .compat => opTildeEqual
  | .arbitrary => opEqualEqualEqual | .in_ => opIn | .notIn => opNotIn

/-- `environmentVariables[key]` as `(name, value)`. -/
def envVarEntry (key : Bytes) : Option (Bytes × Bytes) :=
  (Gen.C16PypiEnv.envVars.find? (·.1 == key)).map (·.2)

/-- The `markerVar` that `parseMarkerVar` produces for an operand. -/
def operandVar (sv : Semver) : Pep508.Operand → Option MarkerVar
  | .var n => (envVarEntry n).map fun (name, value) => mkMarkerVar sv name value
  | .lit _ v => some (mkMarkerVar sv [] v)

/-- Go's outcome on one comparison: the checks of `parseMarkerExpr`, then `Eval`. -/
def leafOutcome (sv : Semver) (extras : List Bytes) (l : Pep508.Operand) (op : Pep508.Op) (r : Pep508.Operand) :
    Outcome Bool :=
  match operandVar sv l, operandVar sv r with
  | some lv, some rv => (mkExpr sv (opCode op) lv rv).bind (·.eval extras)
  | _, _ => .err

/-- The tree `parseMarker` builds for the rendering of `m` (errors and panics of the leaf
checks in source order, as the parser meets them). -/
def toModel (sv : Semver) : Pep508.Marker → Outcome Marker
  | .cmp _ l _ op _ _ r =>
    match operandVar sv l, operandVar sv r with
    | some lv, some rv => mkExpr sv (opCode op) lv rv
    | _, _ => .err
  | .paren _ m _ => toModel sv m
  | .and l _ r => (toModel sv l).bind fun a => (toModel sv r).bind fun b => .ok (.and a b)
  | .or l _ r => (toModel sv l).bind fun a => (toModel sv r).bind fun b => .ok (.or a b)

/-- packaging's result as a Go outcome: an exception is an error. -/
def refOutcome : Option Bool → Outcome Bool
  | some b => .ok b
  | none => .err

/-- Every comparison of `m` has the same outcome in the library and in packaging. -/
def LeavesAgree (sv : Semver) (P : Pep508.Packaging) (extras : List Bytes) (extra : Bytes) : Pep508.Marker → Prop
  | .cmp _ l _ op _ _ r => leafOutcome sv extras l op r = refOutcome (Pep508.evalCmp P extra l op r)
  | .paren _ m _ => LeavesAgree sv P extras extra m
  | .and l _ r => LeavesAgree sv P extras extra l ∧ LeavesAgree sv P extras extra r
  | .or l _ r => LeavesAgree sv P extras extra l ∧ LeavesAgree sv P extras extra r

/-! ### Structure of `Eval` -/

theorem eval_and (a b : Marker) (extras : List Bytes) (x y : Bool)
    (ha : a.eval extras = .ok x) (hb : b.eval extras = .ok y) :
    (Marker.and a b).eval extras = .ok (x && y) := by
  cases x <;> simp [Marker.eval, ha, hb]

theorem eval_or (a b : Marker) (extras : List Bytes) (x y : Bool)
    (ha : a.eval extras = .ok x) (hb : b.eval extras = .ok y) :
    (Marker.or a b).eval extras = .ok (x || y) := by
  cases x <;> simp [Marker.eval, ha, hb]

/-- `&&` does not evaluate its right operand after `false` (so a panic there cannot occur). -/
theorem eval_and_short (a b : Marker) (extras : List Bytes) (ha : a.eval extras = .ok false) :
    (Marker.and a b).eval extras = .ok false := by
  simp [Marker.eval, ha]

theorem eval_or_short (a b : Marker) (extras : List Bytes) (ha : a.eval extras = .ok true) :
    (Marker.or a b).eval extras = .ok true := by
  simp [Marker.eval, ha]

/-- `Eval` returns a `bool` (or panics): it has no error result. -/
theorem eval_ne_err (extras : List Bytes) : ∀ M : Marker, M.eval extras ≠ .err
  | .expr op l r cons => by
    unfold Marker.eval
    split
    · simp
    · split
      · simp
      · repeat (first | (split; simp) | simp)
  | .and a b => by
    have iha := eval_ne_err extras a
    have ihb := eval_ne_err extras b
    unfold Marker.eval
    split
    · exact ihb
    · exact iha
  | .or a b => by
    have iha := eval_ne_err extras a
    have ihb := eval_ne_err extras b
    unfold Marker.eval
    split
    · exact ihb
    · exact iha

theorem refOutcome_ne_panic (o : Option Bool) (p : String) : refOutcome o ≠ .panic p := by
  cases o <;> simp [refOutcome]

/-- Tree level: if every comparison agrees, the library's parse-time checks followed by
`Eval` give packaging's `Marker.evaluate` (same Boolean structure, same error propagation). -/
theorem tree_eval_eq_ref (sv : Semver) (P : Pep508.Packaging) (extras : List Bytes) (extra : Bytes) :
    ∀ m : Pep508.Marker, LeavesAgree sv P extras extra m →
      (toModel sv m).bind (·.eval extras) = refOutcome (m.eval1 P extra)
  | .cmp _ l _ op _ _ r, h => by
    simp only [LeavesAgree, leafOutcome] at h
    simp only [toModel, Pep508.Marker.eval1]
    rw [← h]
    cases operandVar sv l <;> cases operandVar sv r <;> rfl
  | .paren _ m _, h => by
    simpa [toModel, Pep508.Marker.eval1] using tree_eval_eq_ref sv P extras extra m h
  | .and l _ r, h => by
    have ihl := tree_eval_eq_ref sv P extras extra l h.1
    have ihr := tree_eval_eq_ref sv P extras extra r h.2
    simp only [toModel, Pep508.Marker.eval1]
    cases hl : toModel sv l with
    | err =>
      rw [hl] at ihl
      cases h1 : l.eval1 P extra with
      | none => simp [Outcome.bind, refOutcome, bind, Option.bind]
      | some a => rw [h1] at ihl; simp [Outcome.bind, refOutcome] at ihl
    | panic p => rw [hl] at ihl; exact absurd ihl.symm (refOutcome_ne_panic _ p)
    | ok A =>
      rw [hl] at ihl
      cases hr : toModel sv r with
      | err =>
        rw [hr] at ihr
        cases h2 : r.eval1 P extra with
        | none => cases l.eval1 P extra <;> simp [Outcome.bind, refOutcome, bind, Option.bind]
        | some b => rw [h2] at ihr; simp [Outcome.bind, refOutcome] at ihr
      | panic p => rw [hr] at ihr; exact absurd ihr.symm (refOutcome_ne_panic _ p)
      | ok B =>
        rw [hr] at ihr
        simp only [Outcome.bind] at ihl ihr ⊢
        cases h1 : l.eval1 P extra with
        | none =>
          rw [h1] at ihl
          simp [Marker.eval, ihl, refOutcome, bind, Option.bind]
        | some a =>
          rw [h1] at ihl
          cases h2 : r.eval1 P extra with
          | none =>
            rw [h2] at ihr
            exact absurd ihr (eval_ne_err extras B)
          | some b =>
            rw [h2] at ihr
            cases a <;> simp [Marker.eval, ihl, ihr, refOutcome, bind, Option.bind]
  | .or l _ r, h => by
    have ihl := tree_eval_eq_ref sv P extras extra l h.1
    have ihr := tree_eval_eq_ref sv P extras extra r h.2
    simp only [toModel, Pep508.Marker.eval1]
    cases hl : toModel sv l with
    | err =>
      rw [hl] at ihl
      cases h1 : l.eval1 P extra with
      | none => simp [Outcome.bind, refOutcome, bind, Option.bind]
      | some a => rw [h1] at ihl; simp [Outcome.bind, refOutcome] at ihl
    | panic p => rw [hl] at ihl; exact absurd ihl.symm (refOutcome_ne_panic _ p)
    | ok A =>
      rw [hl] at ihl
      cases hr : toModel sv r with
      | err =>
        rw [hr] at ihr
        cases h2 : r.eval1 P extra with
        | none => cases l.eval1 P extra <;> simp [Outcome.bind, refOutcome, bind, Option.bind]
        | some b => rw [h2] at ihr; simp [Outcome.bind, refOutcome] at ihr
      | panic p => rw [hr] at ihr; exact absurd ihr.symm (refOutcome_ne_panic _ p)
      | ok B =>
        rw [hr] at ihr
        simp only [Outcome.bind] at ihl ihr ⊢
        cases h1 : l.eval1 P extra with
        | none =>
          rw [h1] at ihl
          simp [Marker.eval, ihl, refOutcome, bind, Option.bind]
        | some a =>
          rw [h1] at ihl
          cases h2 : r.eval1 P extra with
          | none =>
            rw [h2] at ihr
            exact absurd ihr (eval_ne_err extras B)
          | some b =>
            rw [h2] at ihr
            cases a <;> simp [Marker.eval, ihl, ihr, refOutcome, bind, Option.bind]

/-- pip's combination over at most one requested extra is a single evaluation. -/
theorem evalMarker_single (P : Pep508.Packaging) (m : Pep508.Marker) (extras : List Bytes)
    (h : extras.length ≤ 1) : Pep508.evalMarker P m extras = m.eval1 P (extras.headD []) := by
  match extras, h with
  | [], _ =>
    simp only [Pep508.evalMarker, List.isEmpty_nil, if_true, Pep508.anyM, List.headD]
    cases h1 : m.eval1 P [] with
    | none => rfl
    | some b => cases b <;> rfl
  | [e], _ =>
    simp only [Pep508.evalMarker, List.isEmpty_cons, Bool.false_eq_true, if_false, Pep508.anyM, List.headD]
    cases h1 : m.eval1 P e with
    | none => rfl
    | some b => cases b <;> rfl

end DepsDev.Proofs.C16Marker
