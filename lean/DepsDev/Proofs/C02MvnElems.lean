import DepsDev.Proofs.C02MvnKey
import DepsDev.Proofs.C02MvnTrim

/-!
# C02 — Maven, part 4: the element list of `embedMaven a` in closed form
-/
namespace DepsDev.Proofs.C02Mvn
open Std DepsDev DepsDev.Semver DepsDev.Ref DepsDev.Proofs DepsDev.Proofs.C02
open DepsDev.Ref.MavenCV (Item Sep Tok Ast wAlpha wBeta wMilestone wRc wCr wSnapshot wSp wGa wFinal wRelease)
open DepsDev.Gen.SemverTables (versionNumeric versionQualifier versionEOF versionSeparator mavenEmptyQualifier mavenQualifierOrder)

def numE (sep : UInt8) (n : Nat) : MavenElem := ⟨sep, dec n, n⟩

/-- The `a`/`b`/`m` shortcut. -/
def aliasW (w : Bytes) (fd : Bool) : Bytes :=
  if fd then (if w == [97] then wAlpha else if w == [98] then wBeta else if w == [109] then wMilestone else w) else w

/-- The qualifier is directly followed by a digit. -/
def followedByDigit (a : Ast) : Bool := match a.qnum with | some (.trans, _) => true | _ => false

/-- The elements after the numbers that survive trimming. -/
def effTail (a : Ast) : List MavenElem :=
  (match a.qual with
   | none => []
   | some (s, q) => if Maven.releaseQual q then [] else [⟨sepByte s, aliasW q (followedByDigit a), 0⟩]) ++
  (match a.qnum with
   | none => []
   | some (s, n) => if n = 0 then [] else [numE (sepByte s) n]) ++
  (if a.snapshot then [snapshotElem] else [])

/-- Nothing, or a `-` element, comes next. -/
def dashy : List MavenElem → Bool
  | [] => true
  | e :: _ => e.sep == 45

/-- Drop trailing zeros. -/
def dropZ (ns : List Nat) : List Nat := (ns.reverse.dropWhile (· == 0)).reverse

/-- The elements of `embedMaven a` after the first. -/
def tailElems (ns : List Nat) (a : Ast) : List MavenElem :=
  (if dashy (effTail a) then dropZ ns else ns).map (numE 46) ++ effTail a

/-! ## digits -/

theorem isEmpty_dec (n : Nat) : isEmptyMavenElem (dec n) = decide (n = 0) := by
  obtain ⟨c, r, hc, hd, hz⟩ := dec_head n
  unfold isEmptyMavenElem
  have ho : mavenOrder (dec n) = 0 := by
    rw [hc]
    have k : ∀ (a : UInt8), isDigitB a = false → ∀ t : Bytes, (a :: t == c :: r) = false := by
      intro a ha t
      have : a ≠ c := by intro e; subst e; rw [hd] at ha; cases ha
      simp [this]
    simp [mavenOrder, mavenQualifierOrder, List.find?, k 97 (by decide), k 98 (by decide), k 99 (by decide),
      k 102 (by decide), k 103 (by decide), k 109 (by decide), k 114 (by decide), k 115 (by decide)]
  rw [ho]
  by_cases h0 : n = 0
  · subst h0; simp [dec_zero]
  · have : dec n ≠ [48] := by
      intro e; rw [hc] at e; injection e with e1 e2
      exact h0 (hz e1).1
    simp [this, h0, mavenEmptyQualifier]

theorem isNumE_numE (sep : UInt8) (n : Nat) : isNumE (numE sep n) = true := by
  obtain ⟨c, r, hc, hd, _⟩ := dec_head n
  have := mcat_digit sep c r n hd
  simp [isNumE, numE, hc, this]


/-! ## words -/

/-- A word of the domain: non-empty, lower-case letters. -/
def wordOK (q : Bytes) : Bool := !q.isEmpty && q.all MavenCV.isLower

theorem wordOK_cons {q : Bytes} (h : wordOK q = true) : ∃ c t, q = c :: t ∧ MavenCV.isLower c = true := by
  cases q with
  | nil => simp [wordOK] at h
  | cons c t =>
    simp only [wordOK, List.isEmpty_cons, Bool.not_false, List.all_cons, Bool.true_and, Bool.and_eq_true] at h
    exact ⟨c, t, rfl, h.1⟩

theorem aliasW_cases (q : Bytes) (fd : Bool) :
    aliasW q fd = q ∨ (q = [97] ∧ aliasW q fd = wAlpha) ∨ (q = [98] ∧ aliasW q fd = wBeta) ∨
      (q = [109] ∧ aliasW q fd = wMilestone) := by
  unfold aliasW
  cases fd
  · simp
  · by_cases h1 : q = [97]
    · subst h1; right; left; exact ⟨rfl, rfl⟩
    · by_cases h2 : q = [98]
      · subst h2; right; right; left; exact ⟨rfl, rfl⟩
      · by_cases h3 : q = [109]
        · subst h3; right; right; right; exact ⟨rfl, rfl⟩
        · left; simp [h1, h2, h3]

theorem wordOK_alias {q : Bytes} (h : wordOK q = true) (fd : Bool) : wordOK (aliasW q fd) = true := by
  rcases aliasW_cases q fd with e | ⟨_, e⟩ | ⟨_, e⟩ | ⟨_, e⟩ <;> rw [e]
  · exact h
  all_goals decide

theorem isEmpty_word {q : Bytes} (h : wordOK q = true) : isEmptyMavenElem q = Maven.releaseQual q := by
  rcases word_cases q with e | e | e | e | e | e | e | e | e | e | e
  iterate 10 (subst e; decide)
  obtain ⟨c, t, hq, hc⟩ := wordOK_cons h
  have hne : q ≠ [] := by rw [hq]; simp
  have h48 : q ≠ [48] := by
    rw [hq]; intro e48; injection e48 with e1 _; subst e1; revert hc; decide
  obtain ⟨_, _, _, h4, h5, _, _, h8, _, _⟩ := unknownW_ne e
  have e48 : (q == [48]) = false := by simpa using h48
  have e4 : (q == wFinal) = false := by simpa using h4
  have e5 : (q == wGa) = false := by simpa using h5
  have e8 : (q == wRelease) = false := by simpa using h8
  simp [isEmptyMavenElem, mavenOrder_unknown hne e, e48, mavenEmptyQualifier, Maven.releaseQual, e4, e5, e8]

theorem releaseQual_alias (q : Bytes) (fd : Bool) : Maven.releaseQual (aliasW q fd) = Maven.releaseQual q := by
  rcases aliasW_cases q fd with e | ⟨e1, e⟩ | ⟨e1, e⟩ | ⟨e1, e⟩ <;> rw [e]
  all_goals (subst e1; decide)

theorem isEmpty_alias {q : Bytes} (h : wordOK q = true) (fd : Bool) :
    isEmptyMavenElem (aliasW q fd) = Maven.releaseQual q := by
  rw [isEmpty_word (wordOK_alias h fd), releaseQual_alias]

theorem isQualE_word (sep : UInt8) {q : Bytes} (h : wordOK q = true) : isQualE ⟨sep, q, 0⟩ = true := by
  obtain ⟨c, t, hq, hc⟩ := wordOK_cons h
  subst hq
  simp [isQualE, mcat_lower sep c t 0 hc]

/-! ## the raw list and the stack machine on it -/

theorem raw_dots (ns : List Nat) : ∀ (sep : UInt8) (n : Nat) (tl : List (Sep × Tok)),
    mavenRawFrom sep (.num n) (ns.map (fun m => (Sep.dot, Tok.num m)) ++ tl) =
      numE sep n :: ns.map (numE 46) ++
        (match tl with | [] => [] | (s, t) :: r => mavenRawFrom (sepByte s) t r) := by
  induction ns with
  | nil =>
    intro sep n tl
    cases tl with
    | nil => simp [mavenRawFrom, mavenTokElem, numE]
    | cons p r => obtain ⟨s, t⟩ := p; simp [mavenRawFrom, mavenTokElem, mavenAlias, numE]
  | cons m ns ih =>
    intro sep n tl
    simp only [List.map_cons, List.cons_append, mavenRawFrom, mavenAlias, mavenTokElem]
    rw [show sepByte Sep.dot = 46 from rfl, ih 46 m tl]
    simp [numE]

theorem trimF_step (st : List MavenElem) (e : MavenElem) (rest : List MavenElem) :
    trimF st (e :: rest) = trimF (if dashy rest then popE (e :: st) else e :: st) rest := by
  rw [trimF_cons]
  cases rest with
  | nil => simp [dashy]
  | cons f r =>
    by_cases h : f.sep = 45 <;> simp [dashy, h]

theorem trimF_dots (ns : List Nat) : ∀ (st rt : List MavenElem), ns ≠ [] →
    trimF st (ns.map (numE 46) ++ rt) =
      trimF (if dashy rt then popE (ns.reverse.map (numE 46) ++ st) else ns.reverse.map (numE 46) ++ st) rt := by
  induction ns with
  | nil => intro _ _ h; exact absurd rfl h
  | cons n ns ih =>
    intro st rt _
    cases ns with
    | nil => simp [trimF_step]
    | cons m ns' =>
      rw [List.map_cons, List.cons_append, trimF_step]
      have : dashy (List.map (numE 46) (m :: ns') ++ rt) = false := by simp [dashy, numE]
      rw [this]
      simp only [Bool.false_eq_true, ↓reduceIte]
      rw [ih (numE 46 n :: st) rt (by simp)]
      simp

theorem popE_snoc (x : MavenElem) (T : List MavenElem) (e0 : MavenElem) :
    popE (x :: (T ++ [e0])) = if isEmptyMavenElem x.str then popE (T ++ [e0]) else x :: (T ++ [e0]) := by
  cases T <;> simp [popE]

theorem popE_nums (rs : List Nat) (e0 : MavenElem) :
    popE (rs.map (numE 46) ++ [e0]) = (rs.dropWhile (· == 0)).map (numE 46) ++ [e0] := by
  induction rs with
  | nil => simp [popE]
  | cons r rs ih =>
    rw [List.map_cons, List.cons_append, popE_snoc, ih]
    by_cases h : r = 0 <;> simp [numE, isEmpty_dec, h]


theorem popE_nums' (ns : List Nat) (e0 : MavenElem) :
    popE ((ns.map (numE 46)).reverse ++ [e0]) = (ns.reverse.dropWhile (· == 0)).map (numE 46) ++ [e0] := by
  rw [← List.map_reverse, popE_nums]

theorem dropWhile_idem {α} (p : α → Bool) (l : List α) : (l.dropWhile p).dropWhile p = l.dropWhile p := by
  induction l with
  | nil => rfl
  | cons x xs ih =>
    by_cases h : p x = true
    · simp [h, ih]
    · simp [h]

theorem trimF_dots' (ns : List Nat) (e0 : MavenElem) (rt : List MavenElem) :
    trimF [e0] (ns.map (numE 46) ++ rt) =
      trimF (if dashy rt then (ns.reverse.dropWhile (· == 0)).map (numE 46) ++ [e0]
        else ns.reverse.map (numE 46) ++ [e0]) rt := by
  cases ns with
  | nil => simp
  | cons n ns => rw [trimF_dots _ _ _ (by simp), popE_nums]

theorem snapshot_nonempty : isEmptyMavenElem snapshotElem.str = false := by decide

theorem valid_word {a : Ast} {s : Sep} {q : Bytes} (hq : a.qual = some (s, q)) (hv : a.valid = true) :
    wordOK q = true ∧ (a.qnum.isNone = true ∨ Maven.releaseQual q = false) := by
  simp only [Ast.valid, hq, Bool.and_eq_true, Bool.or_eq_true, Bool.not_eq_true'] at hv
  refine ⟨by simp [wordOK, hv.2.1.1, hv.2.1.2], ?_⟩
  rcases hv.2.2 with h | h
  · exact .inl h
  · exact .inr h

theorem isEmpty_snapshot : isEmptyMavenElem wSnapshot = false := by decide
theorem snapshotElem_eq : snapshotElem = ⟨45, wSnapshot, 0⟩ := rfl
theorem aliasW_false (q : Bytes) : aliasW q false = q := rfl
theorem mavenAlias_trans (q : Bytes) (n : Nat) :
    mavenAlias (.word q) (some (.trans, .num n)) = .word (aliasW q true) := rfl
theorem mavenAlias_dot (q : Bytes) (t : Tok) : mavenAlias (.word q) (some (.dot, t)) = .word q := by
  cases t <;> rfl
theorem mavenAlias_dash (q : Bytes) (t : Tok) : mavenAlias (.word q) (some (.dash, t)) = .word q := by
  cases t <;> rfl
theorem mavenAlias_word (q w : Bytes) (s : Sep) : mavenAlias (.word q) (some (s, .word w)) = .word q := by
  cases s <;> rfl
theorem mavenAlias_num (n : Nat) (x : Option (Sep × Tok)) : mavenAlias (.num n) x = .num n := by
  unfold mavenAlias; split <;> simp_all

/-- **The elements of `embedMaven a`**: the first number, then `tailElems`. -/
theorem embed_elems (a : Ast) (n0 : Nat) (ns : List Nat) (hn : a.nums = n0 :: ns) (hv : a.valid = true) :
    mavenTrim (mavenRawFrom 0 (MavenCV.tokens a).1 (MavenCV.tokens a).2) = numE 0 n0 :: tailElems ns a := by
  obtain ⟨nums, qual, qnum, snap⟩ := a
  simp only at hn
  subst hn
  simp only [MavenCV.tokens]
  rw [raw_dots, List.cons_append, mavenTrim_eq, trimF_dots']
  rcases qual with _ | ⟨s, q⟩
  · have : qnum = none := by
      cases qnum with
      | none => rfl
      | some x => simp [Ast.valid] at hv
    subst this
    cases snap <;>
    simp [tailElems, effTail, dashy, trimF_nil, dropZ, trimF_step, mavenRawFrom, mavenTokElem, sepByte,
      popE_snoc, isEmpty_snapshot, snapshotElem_eq]
  · obtain ⟨hw, hq⟩ := valid_word (a := ⟨n0 :: ns, some (s, q), qnum, snap⟩) rfl hv
    have he1 := isEmpty_alias hw true
    have he2 := isEmpty_alias hw false
    rw [aliasW_false] at he2
    by_cases hr : Maven.releaseQual q = true
    · have : qnum = none := by
        rcases hq with h | h
        · cases qnum with
          | none => rfl
          | some x => simp at h
        · rw [hr] at h; cases h
      subst this
      cases s <;> cases snap <;>
      simp [tailElems, effTail, dashy, trimF_nil, dropZ, trimF_step, mavenRawFrom, mavenTokElem, sepByte,
        popE_snoc, isEmpty_snapshot, snapshotElem_eq, hr, he2, mavenAlias_word, popE_nums', popE_nums, dropWhile_idem]
    · have hr' : Maven.releaseQual q = false := by simpa using hr
      rw [hr'] at he1 he2
      rcases qnum with _ | ⟨s', n⟩
      · cases s <;> cases snap <;>
        simp [tailElems, effTail, dashy, trimF_nil, dropZ, trimF_step, mavenRawFrom, mavenTokElem, sepByte,
          popE_snoc, isEmpty_snapshot, snapshotElem_eq, hr', he2, mavenAlias_word, followedByDigit, popE, aliasW_false]
      · have hd := isEmpty_dec n
        by_cases h0 : n = 0
        · subst h0
          cases s <;> cases s' <;> cases snap <;>
          simp [tailElems, effTail, dashy, trimF_nil, dropZ, trimF_step, mavenRawFrom, mavenTokElem, sepByte,
            popE_snoc, isEmpty_snapshot, snapshotElem_eq, hr', he1, he2, mavenAlias_trans, mavenAlias_dot, mavenAlias_dash,
            mavenAlias_num, followedByDigit, popE, aliasW_false, isEmpty_dec, numE]
        · cases s <;> cases s' <;> cases snap <;>
          simp [tailElems, effTail, dashy, trimF_nil, dropZ, trimF_step, mavenRawFrom, mavenTokElem, sepByte,
            popE_snoc, isEmpty_snapshot, snapshotElem_eq, hr', he1, he2, mavenAlias_trans, mavenAlias_dot, mavenAlias_dash,
            mavenAlias_num, followedByDigit, popE, aliasW_false, isEmpty_dec, numE, h0]

end DepsDev.Proofs.C02Mvn
