import DepsDev.Proofs.C03Embed
import DepsDev.Proofs.C03Sat

/-!
# C03 layer L3: `newSpan … >>= contains` for a prerelease candidate, in terms of `cmp3`

The analogue of `interval` (C03Interval) for a candidate that is flagged prerelease: release-mode
`contains` is the two bound tests and, on a vector span, the admission test "the lower bound is
flagged prerelease, has the candidate's number list and is not above it, or the upper bound is
flagged prerelease and has the candidate's number list". `PreAgree` is the hypothesis that ties
the library's comparison of two prerelease identifier lists to SemVer's (it fails for identifiers
of the form `-digits`, finding F-C03-signed-ident, and for numeric identifiers beyond int64).
-/
namespace DepsDev.Proofs.C03

open DepsDev DepsDev.Semver DepsDev.Ref

/-- The library compares the embedded identifier lists as SemVer 2.0 §11.4 does. -/
def PreAgree (sys : System) (p q : List Ident) : Prop :=
  comparePre sys (embedPre p) (embedPre q) = ordToInt (cmpIdents p q)

/-- `cmp3` is antisymmetric (C01: `compare` on extension-free versions is a lawful comparator). -/
theorem cmp3_swap {sys : System} {a b : Version} (ha : G3 sys a) (hb : G3 sys b) : cmp3 b a = - cmp3 a b := by
  have h1 := vcompare_g3 ha hb
  have h2 := vcompare_g3 hb ha
  rw [compare_generic a b (ha.sys_eq.trans hb.sys_eq.symm) ha.ext hb.ext] at h1
  rw [compare_generic b a (hb.sys_eq.trans ha.sys_eq.symm) hb.ext ha.ext] at h2
  injection h1 with h1
  injection h2 with h2
  rw [← h1, ← h2, ha.sys_eq, hb.sys_eq, Std.OrientedCmp.eq_swap (cmp := genericOrd sys) (a := b) (b := a)]
  cases genericOrd sys a b <;> rfl

/-- Release-mode membership of a prerelease candidate in the span `newSpan` builds. -/
theorem interval_pre {sys : System} (hg : IsGen sys) {min max x : Version} (mo xo : Bool)
    (hmin : G3 sys min) (hmax : G3 sys max) (hx : G3 sys x) (hxp : x.isPrerelease = true) :
    (newSpan min mo max xo).bind (fun s => s.contains x false) =
      if cmp3 (nmin min) (nmax max) = 0 then .ok (!(mo || xo) && decide (cmp3 x (nmin min) = 0))
      else if cmp3 (nmin min) (nmax max) < 0 then
        .ok (decide (¬ ((cmp3 x (nmin min) = 0 ∧ mo = true) ∨ cmp3 x (nmin min) < 0) ∧
                     ¬ ((cmp3 (nmax max) x = 0 ∧ xo = true) ∨ cmp3 (nmax max) x < 0)) &&
             (((nmin min).isPrerelease && equalValues x.num (nmin min).num) ||
              ((nmax max).isPrerelease && equalValues x.num (nmax max).num)))
      else .err := by
  have ga := nmin_g3 hg hmin
  have gb := nmax_g3 hmax
  have hnm : (x.sys != System.maven) = true := by
    rw [hx.sys_eq]
    rcases hg with h | h | h | h | h | h <;> subst h <;> decide
  rw [newSpan_g3 hg mo xo hmin hmax]
  by_cases hc0 : cmp3 (nmin min) (nmax max) = 0
  · simp only [hc0, ↓reduceIte]
    by_cases ho : (mo || xo) = true
    · simp [ho, Outcome.bind, Span.contains, Span.emptySpan]
    · have ho' : (mo || xo) = false := by simpa using ho
      simp only [ho', Bool.false_eq_true, ↓reduceIte, Outcome.bind, Span.contains, compareOpt, vcompare_g3 ga hx, bind,
        Bool.not_false, Bool.true_and]
      congr 1
      rw [cmp3_swap hx ga, Bool.eq_iff_iff]
      simp only [beq_iff_eq, decide_eq_true_eq]
      omega
  · by_cases hlt : cmp3 (nmin min) (nmax max) < 0
    · simp only [hc0, hlt, ↓reduceIte]
      simp only [Outcome.bind, bind, Span.contains, vcompare_g3 hx ga, vcompare_g3 gb hx, hxp, hnm, Bool.and_self,
        Bool.false_eq_true, ↓reduceIte, vLessEq, vcompare_g3 ga hx]
      by_cases h1 : (cmp3 x (nmin min) = 0 ∧ mo = true) ∨ cmp3 x (nmin min) < 0
      · simp [h1]
      · by_cases h2 : (cmp3 (nmax max) x = 0 ∧ xo = true) ∨ cmp3 (nmax max) x < 0
        · simp [h1, h2]
        · have h3 : cmp3 (nmin min) x ≤ 0 := by
            rw [cmp3_swap hx ga]
            have : ¬ cmp3 x (nmin min) < 0 := fun h => h1 (Or.inr h)
            omega
          cases (nmin min).isPrerelease <;> cases (nmax max).isPrerelease <;>
            cases equalValues x.num (nmin min).num <;> cases equalValues x.num (nmax max).num <;>
            simp [h1, h2, h3]
    · simp [hc0, hlt, Outcome.bind]

theorem ite3_vec {α} {c : Int} {a x y : α} (h1 : ¬ c = 0) (h2 : c < 0) (h : x = y) :
    (if c = 0 then Outcome.ok a else if c < 0 then Outcome.ok x else Outcome.err) = Outcome.ok y := by
  simp [h1, h2, h]

theorem ite3_unit {α} {c : Int} {a x y : α} (h1 : c = 0) (h : a = y) :
    (if c = 0 then Outcome.ok a else if c < 0 then Outcome.ok x else Outcome.err) = Outcome.ok y := by
  simp [h1, h]

theorem comparePre_swap (sys : System) (p q : List Bytes) : comparePre sys q p = - comparePre sys p q := by
  rw [comparePre_eq, comparePre_eq, Std.OrientedCmp.eq_swap (cmp := List.compareLex (elemOrd sys)) (a := q) (b := p)]
  cases List.compareLex (elemOrd sys) p q <;> rfl

/-- `0` is the least prerelease identifier list (reference order). -/
theorem cmpIdents_zero_ne_lt (i : Ident) (l : List Ident) : cmpIdents (i :: l) [.num 0] ≠ .lt := by
  cases i with
  | num n =>
    simp only [cmpIdents, Ident.cmp]
    rcases Nat.lt_trichotomy n 0 with h | h | h
    · omega
    · subst h; cases l <;> simp [cmpIdents]
    · have : compare n 0 = .gt := Nat.compare_eq_gt.mpr h
      simp [this]
  | alnum s => simp [cmpIdents, Ident.cmp]

/-- `ordToInt` of an ordering, as sign facts (for `omega`). -/
theorem ordToInt_cases (o : Ordering) :
    (o = .lt ∧ ordToInt o = -1) ∨ (o = .eq ∧ ordToInt o = 0) ∨ (o = .gt ∧ ordToInt o = 1) := by
  cases o <;> simp

end DepsDev.Proofs.C03
