import DepsDev.Proofs.C10PepTie

/-!
# C10 — Maven, part 1: `nextMavenElem`/`mavenSplit` on ASCII text

`nextMavenElem_eq`: on ASCII input the index/fuel loop of `nextMavenElem` is "an optional
separator byte, then a maximal block of one category" (`nextSpec`); `split_canonText`:
splitting the canonical text of a well-formed element list gives the list back.
-/
namespace DepsDev.Proofs.C10
open DepsDev DepsDev.Semver Digits Gen.SemverTables

/-! ## Maven: `nextMavenElem` on ASCII text -/

/-- Category of an ASCII byte as `mavenCategory` sees it. -/
def mcls (c : UInt8) : Int :=
  if isDigitB c then versionNumeric else if c == 46 || c == 45 then versionSeparator else versionQualifier

theorem mavenCategory_ascii (c : UInt8) (t : Bytes) (hc : c < 0x80) : mavenCategory (c :: t) = (mcls c, 1) := by
  unfold mavenCategory mcls
  simp only [decodeRune_ascii c t hc]
  have : ¬ (c.toNat == 0x221E) = true := by
    have := c.toNat_lt
    simp; omega
  simp only [this, Bool.false_eq_true, ↓reduceIte]
  split <;> (try split) <;> rfl

theorem mcls_cases (c : UInt8) : mcls c = versionNumeric ∨ mcls c = versionSeparator ∨ mcls c = versionQualifier := by
  unfold mcls; split; exact Or.inl rfl; split; exact Or.inr (Or.inl rfl); exact Or.inr (Or.inr rfl)

/-- The scanning loop of `nextMavenElem`: from index `i`, over a block of bytes of category `prev`
(not a separator), up to a byte of another category or the end. -/
theorem nextMavenElem_go (s : Bytes) (hs : ∀ c ∈ s, c < 0x80) (prev : Int) (hprev : prev ≠ versionSeparator)
    (run : Bytes) : ∀ (i fuel : Nat) (rest : Bytes), s.drop i = run ++ rest → (∀ c ∈ run, mcls c = prev) →
      (rest = [] ∨ ∃ d r, rest = d :: r ∧ mcls d ≠ prev) → i ≤ s.length → run.length < fuel →
      nextMavenElem.go s i prev fuel = (s.take (i + run.length), s.drop (i + run.length)) := by
  induction run with
  | nil =>
    intro i fuel rest hd _ hrest hi hf
    obtain ⟨k, rfl⟩ : ∃ k, fuel = k + 1 := ⟨fuel - 1, by simp at hf; omega⟩
    simp only [List.nil_append] at hd
    simp only [nextMavenElem.go, List.length_nil, Nat.add_zero]
    rcases hrest with rfl | ⟨d, r, rfl, hdne⟩
    · have : ¬ i < s.length := by
        intro hlt
        have := congrArg List.length hd
        simp at this
        omega
      simp only [this, ↓reduceIte]
      have hi' : i = s.length := by omega
      subst hi'
      simp
    · have hlt : i < s.length := by
        have := congrArg List.length hd
        simp at this
        omega
      have hdm : d ∈ s := by
        have : d ∈ s.drop i := by rw [hd]; simp
        exact List.mem_of_mem_drop this
      simp only [hlt, ↓reduceIte, hd, mavenCategory_ascii d r (hs d hdm)]
      have : (mcls d != prev) = true := by simpa using hdne
      simp [this]
  | cons c cs ih =>
    intro i fuel rest hd hrun hrest hi hf
    obtain ⟨k, rfl⟩ : ∃ k, fuel = k + 1 := ⟨fuel - 1, by simp at hf; omega⟩
    have hlt : i < s.length := by
      have := congrArg List.length hd
      simp at this
      omega
    have hcm : c ∈ s := by
      have : c ∈ s.drop i := by rw [hd]; simp
      exact List.mem_of_mem_drop this
    have hc := hrun c (by simp)
    simp only [nextMavenElem.go, hlt, ↓reduceIte, hd, List.cons_append, mavenCategory_ascii c _ (hs c hcm), hc]
    have h1 : (prev != prev) = false := by simp
    have h2 : (prev == versionSeparator) = false := by simpa using hprev
    simp only [h1, h2, Bool.or_self, Bool.false_eq_true, ↓reduceIte]
    have hd' : s.drop (i + 1) = cs ++ rest := by
      rw [← List.drop_drop, hd]; rfl
    rw [ih (i + 1) k rest hd' (fun x hx => hrun x (by simp [hx])) hrest (by omega) (by simpa using hf)]
    simp only [List.length_cons]
    have : i + 1 + cs.length = i + (cs.length + 1) := by omega
    rw [this]


/-- `nextMavenElem`, structurally: an optional separator byte, then a maximal block of bytes of
one category. -/
def nextSpec (s : Bytes) : Bytes × Bytes :=
  match s with
  | [] => ([], [])
  | c :: t =>
    if mcls c = versionSeparator then
      match t with
      | [] => ([c], [])
      | d :: _ =>
        if mcls d = versionSeparator then ([c], t)
        else (c :: t.takeWhile (fun x => mcls x == mcls d), t.dropWhile (fun x => mcls x == mcls d))
    else (s.takeWhile (fun x => mcls x == mcls c), s.dropWhile (fun x => mcls x == mcls c))

theorem dropWhile_head (p : UInt8 → Bool) (l : Bytes) :
    l.dropWhile p = [] ∨ ∃ d r, l.dropWhile p = d :: r ∧ p d = false := by
  cases h : l.dropWhile p with
  | nil => exact Or.inl rfl
  | cons d r =>
    have := List.head?_dropWhile_not p l
    rw [h] at this
    exact Or.inr ⟨d, r, rfl, this⟩

theorem takeWhile_all (p : UInt8 → Bool) (l : Bytes) : ∀ x ∈ l.takeWhile p, p x = true := by
  induction l with
  | nil => intro x hx; cases hx
  | cons a as ih =>
    intro x hx
    simp only [List.takeWhile] at hx
    split at hx
    · rename_i ha
      simp only [List.mem_cons] at hx
      rcases hx with rfl | hx
      · exact ha
      · exact ih x hx
    · cases hx

theorem takeWhile_length_le (p : UInt8 → Bool) (l : Bytes) : (l.takeWhile p).length ≤ l.length := by
  have := congrArg List.length (List.takeWhile_append_dropWhile (p := p) (l := l))
  simp only [List.length_append] at this
  omega

theorem take_drop_block (c : UInt8) (tw dw : Bytes) :
    (List.take (1 + tw.length) (c :: (tw ++ dw)), List.drop (1 + tw.length) (c :: (tw ++ dw))) = (c :: tw, dw) := by
  rw [Nat.add_comm, List.take_succ_cons, List.drop_succ_cons, List.take_left' rfl, List.drop_left' rfl]

theorem nextMavenElem_eq (s : Bytes) (hs : ∀ c ∈ s, c < 0x80) : nextMavenElem s = nextSpec s := by
  unfold nextMavenElem nextSpec
  match s with
  | [] => rfl
  | [c] =>
    simp only [List.length_cons, List.length_nil, Nat.zero_add, Nat.le_refl, ↓reduceIte]
    split
    · rfl
    · simp
  | c :: d :: t =>
    have hlen : ¬ (c :: d :: t).length ≤ 1 := by simp
    simp only [hlen, ↓reduceIte, mavenCategory_ascii c (d :: t) (hs c (by simp)), List.drop_one, List.tail_cons,
      mavenCategory_ascii d t (hs d (by simp))]
    by_cases hc : mcls c = versionSeparator
    · simp only [hc, beq_self_eq_true, ↓reduceIte]
      by_cases hd : mcls d = versionSeparator
      · -- "..": the element is the separator alone
        simp only [hd, ↓reduceIte]
        simp only [nextMavenElem.go, List.length_cons, show 1 < t.length + 1 + 1 by omega, ↓reduceIte, List.drop_one,
          List.tail_cons, mavenCategory_ascii d t (hs d (by simp)), hd, bne_self_eq_false, beq_self_eq_true,
          Bool.or_true, List.take_succ_cons, List.take_zero]
      · simp only [hd, ↓reduceIte]
        have hsplit : (d :: t) = (d :: t).takeWhile (fun x => mcls x == mcls d) ++ (d :: t).dropWhile (fun x => mcls x == mcls d) :=
          (List.takeWhile_append_dropWhile).symm
        have hgo := nextMavenElem_go (c :: d :: t) hs (mcls d) hd ((d :: t).takeWhile (fun x => mcls x == mcls d)) 1
          ((c :: d :: t).length + 1) ((d :: t).dropWhile (fun x => mcls x == mcls d))
          (by simpa using hsplit)
          (fun x hx => by have := takeWhile_all _ _ x hx; simpa using this)
          (by
            rcases dropWhile_head (fun x => mcls x == mcls d) (d :: t) with h | ⟨e, r, h, he⟩
            · exact Or.inl h
            · exact Or.inr ⟨e, r, h, by simpa using he⟩)
          (by simp)
          (by
            have := takeWhile_length_le (fun x => mcls x == mcls d) (d :: t)
            simp only [List.length_cons] at this ⊢
            omega)
        rw [hgo]
        generalize (d :: t).takeWhile (fun x => mcls x == mcls d) = tw at hsplit ⊢
        generalize (d :: t).dropWhile (fun x => mcls x == mcls d) = dw at hsplit ⊢
        rw [hsplit]
        exact take_drop_block c tw dw
    · have hcb : (mcls c == versionSeparator) = false := by simpa using hc
      simp only [hcb, Bool.false_eq_true, ↓reduceIte, hc]
      have hsplit : (c :: d :: t) = (c :: d :: t).takeWhile (fun x => mcls x == mcls c) ++ (c :: d :: t).dropWhile (fun x => mcls x == mcls c) :=
        (List.takeWhile_append_dropWhile).symm
      have hgo := nextMavenElem_go (c :: d :: t) hs (mcls c) hc ((c :: d :: t).takeWhile (fun x => mcls x == mcls c)) 0
        ((c :: d :: t).length + 1) ((c :: d :: t).dropWhile (fun x => mcls x == mcls c))
        (by simpa using hsplit)
        (fun x hx => by have := takeWhile_all _ _ x hx; simpa using this)
        (by
          rcases dropWhile_head (fun x => mcls x == mcls c) (c :: d :: t) with h | ⟨e, r, h, he⟩
          · exact Or.inl h
          · exact Or.inr ⟨e, r, h, by simpa using he⟩)
        (by simp)
        (by
          have := takeWhile_length_le (fun x => mcls x == mcls c) (c :: d :: t)
          omega)
      rw [hgo]
      simp only [Nat.zero_add]
      generalize (c :: d :: t).takeWhile (fun x => mcls x == mcls c) = tw at hsplit ⊢
      generalize (c :: d :: t).dropWhile (fun x => mcls x == mcls c) = dw at hsplit ⊢
      rw [hsplit, List.take_left' rfl, List.drop_left' rfl]


/-! ## Maven: well-formed element lists and their canonical text -/

/-- A well-formed element as `mavenSplit` produces it on lower-case ASCII text: a non-empty block of
digits or a non-empty block of qualifier bytes. -/
structure WFE (e : MavenElem) : Prop where
  ne : e.str ≠ []
  ascii : ∀ c ∈ e.str, c < 0x80 ∧ ¬ (65 ≤ c ∧ c ≤ 90)
  cls : (∀ c ∈ e.str, mcls c = versionNumeric) ∨ (∀ c ∈ e.str, mcls c = versionQualifier)

/-- The later elements carry an explicit separator. -/
def TailOkM (es : List MavenElem) : Prop := ∀ e ∈ es, (e.sep = 46 ∨ e.sep = 45) ∧ WFE e

/-- `sep str sep str …` -/
def tailText (es : List MavenElem) : Bytes := es.flatMap (fun e => e.sep :: e.str)

theorem tailText_head (es : List MavenElem) (h : TailOkM es) :
    tailText es = [] ∨ ∃ d r, tailText es = d :: r ∧ mcls d = versionSeparator := by
  cases es with
  | nil => exact Or.inl rfl
  | cons e rest =>
    right
    refine ⟨e.sep, e.str ++ tailText rest, by simp [tailText], ?_⟩
    rcases (h e (by simp)).1 with h1 | h1 <;> rw [h1] <;> decide

theorem wfe_cls_ne_sep {e : MavenElem} (h : WFE e) : ∀ c ∈ e.str, mcls c ≠ versionSeparator := by
  intro c hc
  rcases h.cls with h1 | h1 <;> rw [h1 c hc] <;> decide

/-- `takeWhile`/`dropWhile` on a uniform block followed by a byte of another category (or nothing). -/
theorem span_block (k : Int) (run more : Bytes) (hrun : ∀ c ∈ run, mcls c = k)
    (hmore : more = [] ∨ ∃ d r, more = d :: r ∧ mcls d ≠ k) :
    (run ++ more).takeWhile (fun x => mcls x == k) = run ∧ (run ++ more).dropWhile (fun x => mcls x == k) = more := by
  induction run with
  | nil =>
    rcases hmore with rfl | ⟨d, r, rfl, hd⟩
    · simp
    · have : (mcls d == k) = false := by simpa using hd
      simp [List.takeWhile, List.dropWhile, this]
  | cons c cs ih =>
    have hc : (mcls c == k) = true := by simpa using hrun c (by simp)
    have := ih (fun x hx => hrun x (by simp [hx]))
    simp [List.takeWhile, List.dropWhile, hc, this.1, this.2]

/-- `nextSpec` on `sep str more` where `str` is a well-formed block. -/
theorem nextSpec_sep (sep : UInt8) (hsep : sep = 46 ∨ sep = 45) (e : MavenElem) (he : WFE e) (more : Bytes)
    (hmore : more = [] ∨ ∃ d r, more = d :: r ∧ mcls d = versionSeparator) :
    nextSpec (sep :: (e.str ++ more)) = (sep :: e.str, more) := by
  have hs : mcls sep = versionSeparator := by rcases hsep with h | h <;> rw [h] <;> decide
  cases hstr : e.str with
  | nil => exact absurd hstr he.ne
  | cons d ds =>
    have hd : mcls d ≠ versionSeparator := wfe_cls_ne_sep he d (by rw [hstr]; simp)
    have hrun : ∀ c ∈ d :: ds, mcls c = mcls d := by
      intro c hc
      rw [← hstr] at hc
      have hdm : d ∈ e.str := by rw [hstr]; simp
      rcases he.cls with h1 | h1 <;> rw [h1 c hc, h1 d hdm]
    have hm : more = [] ∨ ∃ x r, more = x :: r ∧ mcls x ≠ mcls d := by
      rcases hmore with h | ⟨x, r, h, hx⟩
      · exact Or.inl h
      · exact Or.inr ⟨x, r, h, by rw [hx]; exact fun e => hd e.symm⟩
    have hsp := span_block (mcls d) (d :: ds) more hrun hm
    unfold nextSpec
    simp only [hs, ↓reduceIte, List.cons_append, hd]
    rw [← List.cons_append, hsp.1, hsp.2]

/-- `nextSpec` on `str more` where `str` is a well-formed block (the first element). -/
theorem nextSpec_first (e : MavenElem) (he : WFE e) (more : Bytes)
    (hmore : more = [] ∨ ∃ d r, more = d :: r ∧ mcls d = versionSeparator) :
    nextSpec (e.str ++ more) = (e.str, more) := by
  cases hstr : e.str with
  | nil => exact absurd hstr he.ne
  | cons d ds =>
    have hd : mcls d ≠ versionSeparator := wfe_cls_ne_sep he d (by rw [hstr]; simp)
    have hrun : ∀ c ∈ d :: ds, mcls c = mcls d := by
      intro c hc
      rw [← hstr] at hc
      have hdm : d ∈ e.str := by rw [hstr]; simp
      rcases he.cls with h1 | h1 <;> rw [h1 c hc, h1 d hdm]
    have hm : more = [] ∨ ∃ x r, more = x :: r ∧ mcls x ≠ mcls d := by
      rcases hmore with h | ⟨x, r, h, hx⟩
      · exact Or.inl h
      · exact Or.inr ⟨x, r, h, by rw [hx]; exact fun e => hd e.symm⟩
    have hsp := span_block (mcls d) (d :: ds) more hrun hm
    unfold nextSpec
    simp only [List.cons_append, hd, ↓reduceIte]
    rw [← List.cons_append, hsp.1, hsp.2]


/-- An element with its `int` field reset (as `mavenSplit` leaves it). -/
def zeroInt (e : MavenElem) : MavenElem := { e with int := 0 }

theorem tailText_ascii (es : List MavenElem) (h : TailOkM es) : ∀ c ∈ tailText es, c < 0x80 := by
  intro c hc
  simp only [tailText, List.mem_flatMap, List.mem_cons] at hc
  obtain ⟨e, he, rfl | hc⟩ := hc
  · rcases (h e he).1 with h1 | h1 <;> rw [h1] <;> decide
  · exact ((h e he).2.ascii c hc).1

theorem split_tail (es : List MavenElem) : ∀ (acc : List MavenElem) (pc : Int) (fuel : Nat), TailOkM es →
    es.length < fuel → mavenSplit.go (tailText es) acc false pc fuel = acc ++ es.map zeroInt := by
  induction es with
  | nil =>
    intro acc pc fuel _ hf
    obtain ⟨k, rfl⟩ : ∃ k, fuel = k + 1 := ⟨fuel - 1, by simp at hf; omega⟩
    simp [tailText, mavenSplit.go]
  | cons e rest ih =>
    intro acc pc fuel h hf
    obtain ⟨k, rfl⟩ : ∃ k, fuel = k + 1 := ⟨fuel - 1, by simp at hf; omega⟩
    have he := h e (by simp)
    have hrest : TailOkM rest := fun x hx => h x (by simp [hx])
    have htext : tailText (e :: rest) = e.sep :: (e.str ++ tailText rest) := by simp [tailText]
    have hascii := tailText_ascii (e :: rest) h
    rw [htext] at hascii ⊢
    have hnext : nextMavenElem (e.sep :: (e.str ++ tailText rest)) = (e.sep :: e.str, tailText rest) := by
      rw [nextMavenElem_eq _ hascii]
      exact nextSpec_sep e.sep he.1 e he.2 (tailText rest) (tailText_head rest hrest)
    have hsepascii : e.sep < 0x80 := hascii e.sep (by simp)
    have hcat : (mavenCategory (e.sep :: e.str)).1 = versionSeparator := by
      rw [mavenCategory_ascii e.sep e.str hsepascii]
      rcases he.1 with h1 | h1 <;> rw [h1] <;> decide
    have hne : e.str.isEmpty = false := by
      cases hs : e.str with
      | nil => exact absurd hs he.2.ne
      | cons _ _ => rfl
    simp only [mavenSplit.go, List.isEmpty_cons, Bool.false_eq_true, ↓reduceIte, hnext, hcat, beq_self_eq_true,
      List.headD_cons, List.drop_one, List.tail_cons, hne]
    rw [ih _ _ k hrest (by simpa using hf)]
    simp [zeroInt]

/-- The canonical text of an element list. -/
def canonTextM : List MavenElem → Bytes
  | [] => []
  | e :: es => e.str ++ tailText es

/-- **Maven, print/parse**: splitting the canonical text of a well-formed element list gives the
list back (with `int` fields reset). -/
theorem split_canonText (e0 : MavenElem) (es : List MavenElem) (h0 : WFE e0) (hes : TailOkM es) :
    mavenSplit (canonTextM (e0 :: es)) = { sep := 0, str := e0.str, int := 0 } :: es.map zeroInt := by
  unfold mavenSplit canonTextM
  have hascii : ∀ c ∈ e0.str ++ tailText es, c < 0x80 := by
    intro c hc
    simp only [List.mem_append] at hc
    rcases hc with hc | hc
    · exact (h0.ascii c hc).1
    · exact tailText_ascii es hes c hc
  have hnext : nextMavenElem (e0.str ++ tailText es) = (e0.str, tailText es) := by
    rw [nextMavenElem_eq _ hascii]
    exact nextSpec_first e0 h0 (tailText es) (tailText_head es hes)
  have hcat : ((mavenCategory e0.str).1 == versionSeparator) = false := by
    cases hs : e0.str with
    | nil => exact absurd hs h0.ne
    | cons d ds =>
      have hd : mcls d ≠ versionSeparator := wfe_cls_ne_sep h0 d (by rw [hs]; simp)
      rw [mavenCategory_ascii d ds (h0.ascii d (by rw [hs]; simp)).1]
      simpa using hd
  have hne : (e0.str ++ tailText es).isEmpty = false := by
    cases hs : e0.str with
    | nil => exact absurd hs h0.ne
    | cons d ds => rfl
  simp only [mavenSplit.go, hne, Bool.false_eq_true, ↓reduceIte, hnext, hcat, Bool.not_true]
  rw [split_tail es _ _ _ hes (by
    have : es.length ≤ (tailText es).length := by
      simp only [tailText]
      clear hnext hascii hne
      induction es with
      | nil => simp
      | cons x xs ih =>
        have := ih (fun y hy => hes y (by simp [hy]))
        simp only [List.flatMap_cons, List.length_append, List.length_cons] at this ⊢
        omega
    have hpos : 0 < e0.str.length := List.length_pos_iff.mpr h0.ne
    simp only [List.length_append]
    omega)]
  simp

end DepsDev.Proofs.C10
