import DepsDev.Proofs.C02SemVer

/-!
# C02 — NuGet: the model comparator is `NuGet.Versioning.VersionComparer` (Default mode)

Differences from the SemVer family: an optional fourth number (absent = 0), 32-bit numeric
labels, and case-insensitive text comparison — which the reference does by upper-casing
(`OrdinalIgnoreCase`) and the library by lower-casing; on the identifier alphabet
`[0-9A-Za-z-]` the two orders coincide (`lower_upper_cmp`, checked over all byte pairs).
-/
namespace DepsDev.Proofs.C02

open Std DepsDev DepsDev.Semver DepsDev.Ref DepsDev.Proofs

theorem lower_upper_table : ∀ n < 256, isIdentChar (UInt8.ofNat n) = true →
    ∀ m < 256, isIdentChar (UInt8.ofNat m) = true →
      compare (toLowerB (UInt8.ofNat n)) (toLowerB (UInt8.ofNat m)) =
        compare (NuGet.upper (UInt8.ofNat n)) (NuGet.upper (UInt8.ofNat m)) := by
  decide +kernel

theorem lower_upper_cmp (x y : UInt8) (hx : isIdentChar x = true) (hy : isIdentChar y = true) :
    compare (toLowerB x) (toLowerB y) = compare (NuGet.upper x) (NuGet.upper y) := by
  have := lower_upper_table x.toNat x.toNat_lt
  simp only [UInt8.ofNat_toNat] at this
  have := this hx y.toNat y.toNat_lt
  simp only [UInt8.ofNat_toNat] at this
  exact this hy

theorem lower_upper_lex (a b : Bytes) (ha : a.all isIdentChar = true) (hb : b.all isIdentChar = true) :
    List.compareLex compare (a.map toLowerB) (b.map toLowerB) =
      List.compareLex compare (a.map NuGet.upper) (b.map NuGet.upper) := by
  rw [compareLex_map compare (fun i j => compare (NuGet.upper i) (NuGet.upper j)) toLowerB a b
        (fun i hi j hj => lower_upper_cmp i j (List.all_eq_true.mp ha i hi) (List.all_eq_true.mp hb j hj)),
      compareLex_map compare (fun i j => compare (NuGet.upper i) (NuGet.upper j)) NuGet.upper a b
        (fun _ _ _ _ => rfl)]

theorem identOk_chars {sys : System} {s : Bytes} (h : IdentOk sys (.alnum s)) : s.all isIdentChar = true := by
  have := h.1
  simp only [SemVer.Ident.valid, Bool.and_eq_true] at this
  exact this.1.2

theorem elemOrd_render_nuget (i j : SemVer.Ident) (hi : IdentOk .nuget i) (hj : IdentOk .nuget j) :
    elemOrd .nuget i.render j.render = NuGet.labelCmp i j := by
  unfold elemOrd
  rw [ekey_render .nuget i hi, ekey_render .nuget j hj]
  cases i <;> cases j <;> simp [EK.cmp, NuGet.labelCmp, compare_natCast]
  rename_i a b
  exact lower_upper_lex a b (identOk_chars hi) (identOk_chars hj)

theorem preOrd_render_nuget (p q : List SemVer.Ident)
    (hp : ∀ i ∈ p, IdentOk .nuget i) (hq : ∀ i ∈ q, IdentOk .nuget i) :
    preOrd .nuget (p.map SemVer.Ident.render) (q.map SemVer.Ident.render) = NuGet.labelsCmp p q := by
  unfold preOrd
  cases p with
  | nil => cases q <;> simp [twist, NuGet.labelsCmp]
  | cons x xs =>
    cases q with
    | nil => simp [twist, NuGet.labelsCmp]
    | cons y ys =>
      simp only [List.map_cons, twist, NuGet.labelsCmp]
      rw [← List.map_cons, ← List.map_cons]
      exact compareLex_map _ _ _ _ _ (fun i hi j hj => elemOrd_render_nuget i j (hp i hi) (hq j hj))

/-- Three numbers and an optional fourth (absent when zero), zero-padded, against four numbers. -/
theorem nums4 (a b c d a' b' c' d' : Nat) (rest : Ordering) :
    (padLex compare 0 ([(a : Int), b, c] ++ (if d = 0 then [] else [(d : Int)]))
        ([(a' : Int), b', c'] ++ (if d' = 0 then [] else [(d' : Int)]))).then rest =
      (compare a a').then ((compare b b').then ((compare c c').then ((compare d d').then rest))) := by
  by_cases hd : d = 0 <;> by_cases hd' : d' = 0 <;>
    simp only [hd, hd', ↓reduceIte, List.cons_append, List.nil_append, List.append_nil, padLex, compare_natCast]
  · cases compare a a' <;> cases compare b b' <;> cases compare c c' <;> simp [Ordering.then]
  · have : compare ((0 : Nat) : Int) (d' : Int) = compare 0 d' := compare_natCast 0 d'
    simp only [Int.natCast_zero] at this
    rw [this]
    cases compare a a' <;> cases compare b b' <;> cases compare c c' <;> cases compare 0 d' <;> simp [Ordering.then]
  · have : compare (d : Int) ((0 : Nat) : Int) = compare d 0 := compare_natCast d 0
    simp only [Int.natCast_zero] at this
    rw [this]
    cases compare a a' <;> cases compare b b' <;> cases compare c c' <;> cases compare d 0 <;> simp [Ordering.then]
  · cases compare a a' <;> cases compare b b' <;> cases compare c c' <;> cases compare d d' <;> simp [Ordering.then]

theorem nuget_agree (a b : NuGet.Ast)
    (ha : ∀ i ∈ a.pre, IdentOk .nuget i) (hb : ∀ i ∈ b.pre, IdentOk .nuget i) :
    vcompare (embedNuGet a) (embedNuGet b) = .ok (ordToInt (NuGet.compare a b)) := by
  rw [compare_generic (embedNuGet a) (embedNuGet b) rfl rfl rfl]
  congr 2
  show genericOrd .nuget (embedNuGet a) (embedNuGet b) = _
  unfold genericOrd compareLex NuGet.compare
  simp only [embedNuGet]
  rw [nums4, preOrd_render_nuget a.pre b.pre ha hb]

end DepsDev.Proofs.C02
