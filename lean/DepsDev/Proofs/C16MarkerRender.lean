import DepsDev.Proofs.C16Marker
import DepsDev.Proofs.C16Bytes

/-! C16: facts about the rendering of reference markers. -/

namespace DepsDev.Proofs.C16MarkerRender
open DepsDev DepsDev.Pypi DepsDev.Ref.Pep508 DepsDev.Proofs.C16Bytes

/-- A property of all variable names, checked on the generated table, holds of any known
variable. -/
theorem known_of (Q : Bytes → Bool) (hall : Gen.C16PypiEnv.envVars.all (fun e => Q e.1) = true)
    {n : Bytes} (h : knownVariable n = true) : Q n = true := by
  simp only [knownVariable, List.any_eq_true] at h
  obtain ⟨e, he, hen⟩ := h
  have := List.all_eq_true.mp hall e he
  have hn : e.1 = n := by simpa using hen
  rw [← hn]; exact this

def endsNonWsB (l : Bytes) : Bool :=
  match l.getLast? with
  | some c => !isWs c
  | none => false

theorem ends_of_B {l : Bytes} (h : endsNonWsB l = true) : EndsNonWs l := by
  unfold endsNonWsB at h
  rcases List.eq_nil_or_concat l with h0 | ⟨p, c, h0⟩
  · subst h0; simp at h
  · subst h0
    simp at h
    exact ⟨p, c, by simp, h⟩

def startsNonWsB (l : Bytes) : Bool :=
  match l with
  | c :: _ => !isWs c
  | [] => false

theorem starts_of_B {l : Bytes} (h : startsNonWsB l = true) : StartsNonWs l := by
  cases l with
  | nil => simp [startsNonWsB] at h
  | cons c cs => exact ⟨c, cs, rfl, by simpa [startsNonWsB] using h⟩

theorem var_ends {n : Bytes} (h : knownVariable n = true) : EndsNonWs n :=
  ends_of_B (known_of endsNonWsB (by decide) h)

theorem quote_not_ws (dq : Bool) : isWs (quoteByte dq) = false := by cases dq <;> decide

theorem operand_ends {o : Operand} (h : o.wf = true) : EndsNonWs o.render := by
  cases o with
  | var n => exact var_ends h
  | lit dq v => exact ⟨quoteByte dq :: v, quoteByte dq, by simp [Operand.render], quote_not_ws dq⟩

/-- A rendered marker ends in a non-blank (an operand's last byte or `)`). -/
theorem render_ends : ∀ m : Ref.Pep508.Marker, m.wf = true → EndsNonWs m.render
  | .cmp w0 l w1 op wNot w2 r, h => by
    simp only [Marker.wf, Bool.and_eq_true] at h
    simp only [Marker.render]
    exact ends_append _ (operand_ends h.1.2)
  | .paren w0 m w1, _ => ⟨_, 41, rfl, by decide⟩
  | .and l w r, h => by
    simp only [Marker.wf, Bool.and_eq_true] at h
    simp only [Marker.render]
    exact ends_append _ (render_ends r h.2)
  | .or l w r, h => by
    simp only [Marker.wf, Bool.and_eq_true] at h
    simp only [Marker.render]
    exact ends_append _ (render_ends r h.2)

end DepsDev.Proofs.C16MarkerRender

namespace DepsDev.Proofs.C16MarkerRender
open DepsDev DepsDev.Pypi DepsDev.Ref.Pep508 DepsDev.Proofs.C16Bytes DepsDev.Proofs.C16Marker

/-! ### Lexer lemmas -/

theorem skipWsp_ws_append (w : Ws) (t : Bytes) : skipWsp (w.bytes ++ t) = skipWsp t :=
  trimLeft_ws_append w t

theorem skipWsp_of_starts {s : Bytes} (h : StartsNonWs s) : skipWsp s = s := trimLeft_of_starts h

theorem skipWsp_cons {c : UInt8} (cs : Bytes) (h : isWs c = false) : skipWsp (c :: cs) = c :: cs :=
  skipWsp_of_starts ⟨c, cs, rfl, h⟩

theorem skipWsp_ws (w : Ws) : skipWsp w.bytes = [] := trimLeft_ws w

theorem skipWsp_idem (s : Bytes) : skipWsp (skipWsp s) = skipWsp s := by
  unfold skipWsp
  induction s with
  | nil => rfl
  | cons c cs ih =>
    by_cases h : isWs c = true
    · simp only [List.dropWhile_cons_of_pos h]; exact ih
    · simp [List.dropWhile, h]

theorem accept_self (lit rest : Bytes) : accept lit (lit ++ rest) = some rest := by
  simp [accept]

theorem isPrefixOf_append_false : ∀ (k n rest : Bytes), k.isPrefixOf n = false → n.isPrefixOf k = false →
    k.isPrefixOf (n ++ rest) = false
  | [], n, _, h1, _ => by simp at h1
  | a :: k, [], _, _, h2 => by simp at h2
  | a :: k, b :: n, rest, h1, h2 => by
    simp only [List.isPrefixOf, List.cons_append, Bool.and_eq_false_iff] at h1 h2 ⊢
    by_cases hab : (a == b) = true
    · right
      have hba : (b == a) = true := by
        rw [beq_iff_eq] at hab ⊢; exact hab.symm
      rcases h1 with h1 | h1
      · rw [hab] at h1; cases h1
      · rcases h2 with h2 | h2
        · rw [hba] at h2; cases h2
        · exact isPrefixOf_append_false k n rest h1 h2
    · left; simpa using hab

/-! ### Variables -/

theorem prefix_free {a b : Bytes × Bytes × Bytes} (ha : a ∈ Gen.C16PypiEnv.envVars)
    (hb : b ∈ Gen.C16PypiEnv.envVars) (hne : (a.1 == b.1) = false) : a.1.isPrefixOf b.1 = false := by
  have hall : Gen.C16PypiEnv.envVars.all (fun a => Gen.C16PypiEnv.envVars.all fun b =>
      a.1 == b.1 || !(a.1.isPrefixOf b.1)) = true := by decide
  have := List.all_eq_true.mp (List.all_eq_true.mp hall a ha) b hb
  rw [hne, Bool.false_or, Bool.not_eq_true'] at this
  exact this

theorem acceptEnvVar_hit (n rest : Bytes) (e : Bytes × Bytes × Bytes) (he : e ∈ Gen.C16PypiEnv.envVars)
    (hen : e.1 = n) :
    ∀ L : List (Bytes × Bytes × Bytes), (∀ x ∈ L, x ∈ Gen.C16PypiEnv.envVars) →
      acceptEnvVar (n ++ rest) L = (L.find? (·.1 == n)).map fun x => (x.2.1, x.2.2, rest)
  | [], _ => rfl
  | (k, nm, vl) :: L, hL => by
    unfold acceptEnvVar
    by_cases hk : (k == n) = true
    · have : k = n := by simpa using hk
      subst this
      simp [accept_self, List.find?]
    · have hk' : (k == n) = false := by simpa using hk
      have hkin : (k, nm, vl) ∈ Gen.C16PypiEnv.envVars := hL _ (by simp)
      have h1 : k.isPrefixOf n = false := by
        have := prefix_free hkin he (by simpa [hen] using hk')
        simpa [hen] using this
      have h2 : n.isPrefixOf k = false := by
        have hne : (e.1 == k) = false := by
          rw [hen]
          cases hnk : (n == k) with
          | false => rfl
          | true =>
            have : n = k := by simpa using hnk
            subst this; simp at hk'
        have := prefix_free he hkin hne
        simpa [hen] using this
      have : accept k (n ++ rest) = none := by
        unfold accept
        rw [isPrefixOf_append_false k n rest h1 h2]
        rfl
      simp only [this, List.find?, hk']
      exact acceptEnvVar_hit n rest e he hen L (fun x hx => hL x (by simp [hx]))

/-- First byte of a variable name: one of `e i o p s`, hence neither blank, quote nor `(`. -/
def varHeadB (l : Bytes) : Bool :=
  match l with
  | c :: _ => (c.toNat == 101 || c.toNat == 105 || c.toNat == 111 || c.toNat == 112 || c.toNat == 115)
  | [] => false

theorem var_head {n : Bytes} (h : knownVariable n = true) : varHeadB n = true :=
  known_of varHeadB (by decide) h

theorem parseMarkerVar_var (sv : Semver) (w : Ws) (n rest : Bytes) (h : knownVariable n = true) :
    ∃ name value, envVarEntry n = some (name, value) ∧
      parseMarkerVar sv (w.bytes ++ n ++ rest) = .ok (mkMarkerVar sv name value, rest) := by
  have hh := var_head h
  obtain ⟨c, cs, rfl⟩ : ∃ c cs, n = c :: cs := by
    cases n with
    | nil => simp [varHeadB] at hh
    | cons c cs => exact ⟨c, cs, rfl⟩
  simp only [varHeadB] at hh
  have hws : isWs c = false := by simp [isWs] at *; omega
  have hq : (c.toNat != 39 && c.toNat != 34) = true := by simp at *; omega
  -- the entry
  have hk := h
  simp only [knownVariable, List.any_eq_true] at hk
  obtain ⟨e, he, hen⟩ := hk
  have hen' : e.1 = c :: cs := by simpa using hen
  have hfind := acceptEnvVar_hit (c :: cs) rest e he hen' Gen.C16PypiEnv.envVars (fun x hx => hx)
  obtain ⟨x, hx⟩ : ∃ x, Gen.C16PypiEnv.envVars.find? (·.1 == c :: cs) = some x := by
    cases hf : Gen.C16PypiEnv.envVars.find? (·.1 == c :: cs) with
    | some x => exact ⟨x, rfl⟩
    | none =>
      have := List.find?_eq_none.mp hf e he
      simp [hen'] at this
  refine ⟨x.2.1, x.2.2, by simp [envVarEntry, hx], ?_⟩
  unfold parseMarkerVar
  rw [List.append_assoc, skipWsp_ws_append, List.cons_append, skipWsp_cons _ hws]
  simp only [parsePythonStr, hq, if_true]
  have hpeek : ((peek (c :: (cs ++ rest))).toNat == 101 || (peek (c :: (cs ++ rest))).toNat == 105 ||
      (peek (c :: (cs ++ rest))).toNat == 111 || (peek (c :: (cs ++ rest))).toNat == 112 ||
      (peek (c :: (cs ++ rest))).toNat == 115) = true := by simpa [peek] using hh
  simp only [hpeek, if_true]
  rw [← List.cons_append, hfind, hx]
  rfl

theorem parseMarkerVar_lit (sv : Semver) (w : Ws) (dq : Bool) (v rest : Bytes)
    (h : v.contains (quoteByte dq) = false) :
    parseMarkerVar sv (w.bytes ++ (quoteByte dq :: v ++ [quoteByte dq]) ++ rest) =
      .ok (mkMarkerVar sv [] v, rest) := by
  unfold parseMarkerVar
  have hws := quote_not_ws dq
  have hq : ((quoteByte dq).toNat != 39 && (quoteByte dq).toNat != 34) = false := by cases dq <;> decide
  have hidx : indexByte (v ++ quoteByte dq :: rest) (quoteByte dq) = some v.length := by
    apply indexWhere_append_hit
    · intro c hc
      have : ¬ (quoteByte dq ∈ v) := by
        intro hm; have := List.contains_iff_mem.mpr hm; rw [h] at this; cases this
      simpa using fun heq : c = quoteByte dq => this (heq ▸ hc)
    · simp
  rw [List.append_assoc, skipWsp_ws_append]
  have : (quoteByte dq :: v ++ [quoteByte dq]) ++ rest = quoteByte dq :: (v ++ quoteByte dq :: rest) := by simp
  rw [this, skipWsp_cons _ hws]
  simp only [parsePythonStr, hq, Bool.false_eq_true, if_false, hidx]
  simp

/-- An operand as the parser sees it: the `markerVar` of `operandVar`, and the rest. -/
theorem parseMarkerVar_operand (sv : Semver) (w : Ws) (o : Operand) (rest : Bytes) (h : o.wf = true) :
    ∃ v, operandVar sv o = some v ∧ parseMarkerVar sv (w.bytes ++ o.render ++ rest) = .ok (v, rest) := by
  cases o with
  | var n =>
    obtain ⟨name, value, he, hp⟩ := parseMarkerVar_var sv w n rest h
    exact ⟨_, by simp [operandVar, he], hp⟩
  | lit dq v =>
    refine ⟨_, rfl, ?_⟩
    have hv : v.contains (quoteByte dq) = false := by simpa [Operand.wf] using h
    exact parseMarkerVar_lit sv w dq v rest hv

/-- First byte of a rendered operand: a quote or one of `e i o p s`. -/
def OperandHead (c : UInt8) : Prop := isWs c = false ∧ c ≠ 40 ∧ c ≠ 61

theorem operand_head {o : Operand} (h : o.wf = true) : ∃ c cs, o.render = c :: cs ∧ OperandHead c := by
  cases o with
  | var n =>
    have hh := var_head h
    cases n with
    | nil => simp [varHeadB] at hh
    | cons c cs =>
      simp only [varHeadB] at hh
      refine ⟨c, cs, rfl, ?_, ?_, ?_⟩
      · simp [isWs] at *; omega
      · intro e; subst e; simp at hh
      · intro e; subst e; simp at hh
  | lit dq v => exact ⟨quoteByte dq, v ++ [quoteByte dq], rfl, by cases dq <;> (unfold OperandHead; decide)⟩

end DepsDev.Proofs.C16MarkerRender

namespace DepsDev.Proofs.C16MarkerRender
open DepsDev DepsDev.Pypi DepsDev.Ref.Pep508 DepsDev.Proofs.C16Bytes DepsDev.Proofs.C16Marker

/-! ### Operators -/

/-- The input after an operator does not start with `=` (it starts with a blank or an operand). -/
def NoEq (rest : Bytes) : Prop := ∀ cs, rest ≠ 61 :: cs

theorem opText_starts (op : Op) (wNot : Ws) : ∃ c cs, op.render wNot = c :: cs ∧ isWs c = false := by
  cases op <;> exact ⟨_, _, rfl, by decide⟩

set_option maxRecDepth 4000 in
theorem parseMarkerOp_render (w : Ws) (op : Op) (wNot : Ws) (rest : Bytes)
    (hnot : op = .notIn → wNot ≠ []) (hrest : NoEq rest) :
    parseMarkerOp (w.bytes ++ op.render wNot ++ rest) = .ok (opCode op, rest) := by
  unfold parseMarkerOp
  obtain ⟨c0, cs0, hop, hws⟩ := opText_starts op wNot
  rw [List.append_assoc, skipWsp_ws_append, hop, List.cons_append, skipWsp_cons _ hws, ← List.cons_append, ← hop]
  have hr : rest = [] ∨ ∃ c cs, rest = c :: cs ∧ c ≠ 61 := by
    cases rest with
    | nil => left; rfl
    | cons c cs => right; exact ⟨c, cs, rfl, fun h => hrest cs (by rw [h])⟩
  cases op with
  | notIn =>
    obtain ⟨b, wN, rfl⟩ : ∃ b wN, wNot = b :: wN := by
      cases wNot with
      | nil => exact absurd rfl (hnot rfl)
      | cons b wN => exact ⟨b, wN, rfl⟩
    have h1 : acceptOp (Op.render .notIn (b :: wN) ++ rest) Gen.C16PypiEnv.markerOpsByLength = .ok none := by
      simp [acceptOp, accept, Gen.C16PypiEnv.markerOpsByLength, Gen.C16PypiEnv.opStrings, Op.render, List.isPrefixOf]
    dsimp only
    rw [h1]
    have h2 : accept [110, 111, 116] (Op.render .notIn (b :: wN) ++ rest) = some (Ws.bytes (b :: wN) ++ [105, 110] ++ rest) := by
      simp [accept, Op.render, List.isPrefixOf]
    dsimp only
    rw [h2]
    dsimp only
    have h3 : skipWsp (Ws.bytes (b :: wN) ++ [105, 110] ++ rest) = [105, 110] ++ rest := by
      rw [List.append_assoc, skipWsp_ws_append]
      exact skipWsp_cons _ (by decide)
    rw [h3]
    have h4 : (([105, 110] ++ rest : Bytes).length == (Ws.bytes (b :: wN) ++ [105, 110] ++ rest).length) = false := by
      simp [Ws.bytes]; omega
    simp only [h4, Bool.false_eq_true, if_false, accept_self]
    rfl
  | le | ne | ge | compat | arbitrary | in_ =>
    simp [acceptOp, accept, Gen.C16PypiEnv.markerOpsByLength, Gen.C16PypiEnv.opStrings, Op.render, Op.text,
      List.isPrefixOf, opCode, opLessEqual, opNotEqual, opGreaterEqual, opTildeEqual, opEqualEqualEqual, opIn]
  | lt | gt | eq =>
    rcases hr with rfl | ⟨c, cs, rfl, hc⟩
    · simp [acceptOp, accept, Gen.C16PypiEnv.markerOpsByLength, Gen.C16PypiEnv.opStrings, Op.render, Op.text,
        List.isPrefixOf, opCode, opLess, opGreater, opEqualEqual]
    · have hc' : ((61 : UInt8) == c) = false := by
        cases h : ((61 : UInt8) == c) with
        | false => rfl
        | true => exact absurd (by simpa using h : (61 : UInt8) = c).symm hc
      simp [acceptOp, accept, Gen.C16PypiEnv.markerOpsByLength, Gen.C16PypiEnv.opStrings, Op.render, Op.text,
        List.isPrefixOf, opCode, opLess, opGreater, opEqualEqual, hc']

end DepsDev.Proofs.C16MarkerRender

namespace DepsDev.Proofs.C16MarkerRender
open DepsDev DepsDev.Pypi DepsDev.Ref.Pep508 DepsDev.Proofs.C16Bytes DepsDev.Proofs.C16Marker

/-! ### One comparison -/

/-- A parser result: the tree (or the error/panic met while building it) and the rest. -/
def ret (o : Outcome Pypi.Marker) (rest : Bytes) : Outcome (Pypi.Marker × Bytes) :=
  o.bind fun M => .ok (M, rest)

theorem noEq_operand (w : Ws) {o : Operand} (h : o.wf = true) (rest : Bytes) :
    NoEq (w.bytes ++ o.render ++ rest) := by
  intro cs hcs
  cases w with
  | nil =>
    obtain ⟨c, cs', hr, hh⟩ := operand_head h
    rw [hr] at hcs
    simp [Ws.bytes] at hcs
    exact hh.2.2 hcs.1
  | cons b w =>
    simp [Ws.bytes] at hcs
    cases b <;> simp [wsByte] at hcs

theorem parseLeaf_render (sv : Semver) (w0 : Ws) (l : Operand) (w1 : Ws) (op : Op) (wNot w2 : Ws) (r : Operand)
    (rest : Bytes) (h : (Ref.Pep508.Marker.cmp w0 l w1 op wNot w2 r).wf = true) :
    parseLeaf sv (l.render ++ w1.bytes ++ op.render wNot ++ w2.bytes ++ r.render ++ rest) =
      ret (toModel sv (.cmp w0 l w1 op wNot w2 r)) rest := by
  simp only [Ref.Pep508.Marker.wf, Bool.and_eq_true, Bool.or_eq_true, bne_iff_ne, ne_eq,
    Bool.not_eq_true', List.isEmpty_eq_false_iff] at h
  obtain ⟨⟨hl, hr⟩, hnot⟩ := h
  have hnot' : op = .notIn → wNot ≠ [] := by
    intro ho
    rcases hnot with h1 | h1
    · exact absurd ho h1
    · exact h1
  obtain ⟨lv, hlv, hpl⟩ := parseMarkerVar_operand sv [] l (w1.bytes ++ op.render wNot ++ (w2.bytes ++ r.render ++ rest)) hl
  obtain ⟨rv, hrv, hpr⟩ := parseMarkerVar_operand sv w2 r rest hr
  have hop := parseMarkerOp_render w1 op wNot (w2.bytes ++ r.render ++ rest) hnot' (noEq_operand w2 hr rest)
  have e1 : l.render ++ w1.bytes ++ op.render wNot ++ w2.bytes ++ r.render ++ rest =
      Ws.bytes [] ++ l.render ++ (w1.bytes ++ op.render wNot ++ (w2.bytes ++ r.render ++ rest)) := by
    simp [Ws.bytes, List.append_assoc]
  unfold parseLeaf
  rw [e1, hpl]
  simp only [bind, Outcome.bind]
  rw [hop]
  simp only []
  rw [hpr]
  simp only [toModel, hlv, hrv, ret]
  cases mkExpr sv (opCode op) lv rv <;> rfl

theorem cmp_render_head (w0 : Ws) (l : Operand) (w1 : Ws) (op : Op) (wNot w2 : Ws) (r : Operand) (rest : Bytes)
    (hl : l.wf = true) :
    skipWsp ((Ref.Pep508.Marker.cmp w0 l w1 op wNot w2 r).render ++ rest) =
      l.render ++ w1.bytes ++ op.render wNot ++ w2.bytes ++ r.render ++ rest ∧
    accept [40] (l.render ++ w1.bytes ++ op.render wNot ++ w2.bytes ++ r.render ++ rest) = none := by
  obtain ⟨c, cs, hc, hh⟩ := operand_head hl
  constructor
  · simp only [Ref.Pep508.Marker.render, List.append_assoc]
    rw [skipWsp_ws_append, hc, List.cons_append, skipWsp_cons _ hh.1]
  · rw [hc]
    have : ((40 : UInt8) == c) = false := by
      cases h : ((40 : UInt8) == c) with
      | false => rfl
      | true => exact absurd (by simpa using h : (40 : UInt8) = c).symm hh.2.1
    simp [accept, List.isPrefixOf, this]

end DepsDev.Proofs.C16MarkerRender

namespace DepsDev.Proofs.C16MarkerRender
open DepsDev DepsDev.Pypi DepsDev.Ref.Pep508 DepsDev.Proofs.C16Bytes DepsDev.Proofs.C16Marker

/-! ### The recursive descent -/

theorem or_step (sv : Semver) (fuel : Nat) (s : Bytes) :
    parseMarkerOr sv (fuel + 1) s =
      (parseMarkerAnd sv fuel s).bind fun x =>
        match accept [111, 114] (skipWsp x.2) with
        | none => .done (.ok (x.1, skipWsp x.2))
        | some s2 => (parseMarkerOr sv fuel s2).bind fun y => .done (.ok (.or x.1 y.1, y.2)) := by
  rw [parseMarkerOr]; rfl

theorem and_step (sv : Semver) (fuel : Nat) (s : Bytes) :
    parseMarkerAnd sv (fuel + 1) s =
      (parseMarkerExpr sv fuel s).bind fun x =>
        match accept [97, 110, 100] (skipWsp x.2) with
        | none => .done (.ok (x.1, skipWsp x.2))
        | some s2 => (parseMarkerAnd sv fuel s2).bind fun y => .done (.ok (.and x.1 y.1, y.2)) := by
  rw [parseMarkerAnd]; rfl

theorem expr_step (sv : Semver) (fuel : Nat) (s : Bytes) :
    parseMarkerExpr sv (fuel + 1) s =
      match accept [40] (skipWsp s) with
      | some s1 => (parseMarkerOr sv fuel s1).bind fun x =>
          match accept [41] x.2 with
          | none => .done .err
          | some s2 => .done (.ok (x.1, s2))
      | none => .done (parseLeaf sv (skipWsp s)) := by
  rw [parseMarkerExpr]; rfl

end DepsDev.Proofs.C16MarkerRender

namespace DepsDev.Proofs.C16MarkerRender
open DepsDev DepsDev.Pypi DepsDev.Ref.Pep508 DepsDev.Proofs.C16Bytes DepsDev.Proofs.C16Marker

def size : Ref.Pep508.Marker → Nat
  | .cmp .. => 1
  | .paren _ m _ => size m + 1
  | .and l _ r => size l + size r + 1
  | .or l _ r => size l + size r + 1

theorem size_pos (m : Ref.Pep508.Marker) : 1 ≤ size m := by cases m <;> simp [size]

/-- What follows is not the keyword `and` / `or` (after optional blanks). -/
def NoAnd (rest : Bytes) : Prop := accept [97, 110, 100] (skipWsp rest) = none
def NoOr (rest : Bytes) : Prop := accept [111, 114] (skipWsp rest) = none

theorem accept_cons_ne (a : UInt8) (lit : Bytes) (c : UInt8) (cs : Bytes) (h : (a == c) = false) :
    accept (a :: lit) (c :: cs) = none := by
  simp [accept, List.isPrefixOf, h]

theorem noKw_ws_cons (w : Ws) (c : UInt8) (cs : Bytes) (hws : isWs c = false)
    (ha : ((97 : UInt8) == c) = false) (ho : ((111 : UInt8) == c) = false) :
    NoAnd (w.bytes ++ c :: cs) ∧ NoOr (w.bytes ++ c :: cs) := by
  unfold NoAnd NoOr
  rw [skipWsp_ws_append, skipWsp_cons _ hws]
  exact ⟨accept_cons_ne _ _ _ _ ha, accept_cons_ne _ _ _ _ ho⟩

theorem noAnd_ws_cons (w : Ws) (c : UInt8) (cs : Bytes) (hws : isWs c = false)
    (ha : ((97 : UInt8) == c) = false) : NoAnd (w.bytes ++ c :: cs) := by
  unfold NoAnd
  rw [skipWsp_ws_append, skipWsp_cons _ hws]
  exact accept_cons_ne _ _ _ _ ha

theorem noKw_ws (w : Ws) : NoAnd w.bytes ∧ NoOr w.bytes := by
  unfold NoAnd NoOr
  rw [skipWsp_ws]
  exact ⟨rfl, rfl⟩

@[simp] theorem fbind_ok {α β} (a : α) (f : α → Fuelled β) : (Fuelled.done (.ok a)).bind f = f a := rfl
@[simp] theorem fbind_err {α β} (f : α → Fuelled β) : (Fuelled.done (.err : Outcome α)).bind f = .done .err := rfl
@[simp] theorem fbind_panic {α β} (p : String) (f : α → Fuelled β) :
    (Fuelled.done (.panic p : Outcome α)).bind f = .done (.panic p) := rfl

theorem and_of_expr (sv : Semver) (m : Ref.Pep508.Marker) (fuel : Nat) (rest : Bytes)
    (hE : parseMarkerExpr sv fuel (m.render ++ rest) = .done (ret (toModel sv m) rest)) (hna : NoAnd rest) :
    parseMarkerAnd sv (fuel + 1) (m.render ++ rest) = .done (ret (toModel sv m) (skipWsp rest)) := by
  rw [and_step, hE]
  cases toModel sv m with
  | ok M => simp only [ret, Outcome.bind, fbind_ok]; rw [show accept [97, 110, 100] (skipWsp rest) = none from hna]
  | err => rfl
  | panic p => rfl

theorem or_of_and (sv : Semver) (m : Ref.Pep508.Marker) (fuel : Nat) (rest : Bytes)
    (hA : parseMarkerAnd sv fuel (m.render ++ rest) = .done (ret (toModel sv m) (skipWsp rest))) (hno : NoOr rest) :
    parseMarkerOr sv (fuel + 1) (m.render ++ rest) = .done (ret (toModel sv m) (skipWsp rest)) := by
  rw [or_step, hA]
  cases toModel sv m with
  | ok M =>
    simp only [ret, Outcome.bind, fbind_ok, skipWsp_idem]
    rw [show accept [111, 114] (skipWsp rest) = none from hno]
  | err => rfl
  | panic p => rfl

/-- The three parsers on a rendered tree, with any continuation that cannot be mistaken for
a keyword, and any sufficient fuel. -/
theorem parse_render (sv : Semver) : ∀ m : Ref.Pep508.Marker, m.wf = true →
    (m.level = 0 → ∀ fuel rest, 3 * size m ≤ fuel + 2 →
      parseMarkerExpr sv fuel (m.render ++ rest) = .done (ret (toModel sv m) rest)) ∧
    (m.level ≤ 1 → ∀ fuel rest, 3 * size m ≤ fuel + 1 → NoAnd rest →
      parseMarkerAnd sv fuel (m.render ++ rest) = .done (ret (toModel sv m) (skipWsp rest))) ∧
    (∀ fuel rest, 3 * size m ≤ fuel → NoAnd rest → NoOr rest →
      parseMarkerOr sv fuel (m.render ++ rest) = .done (ret (toModel sv m) (skipWsp rest))) := by
  intro m
  -- generic derivations of the outer levels from the inner ones
  have derive_and : ∀ m : Ref.Pep508.Marker,
      (∀ fuel rest, 3 * size m ≤ fuel + 2 →
        parseMarkerExpr sv fuel (m.render ++ rest) = .done (ret (toModel sv m) rest)) →
      ∀ fuel rest, 3 * size m ≤ fuel + 1 → NoAnd rest →
        parseMarkerAnd sv fuel (m.render ++ rest) = .done (ret (toModel sv m) (skipWsp rest)) := by
    intro m hE fuel rest hf hna
    have := size_pos m
    obtain ⟨f, rfl⟩ : ∃ f, fuel = f + 1 := ⟨fuel - 1, by omega⟩
    exact and_of_expr sv m f rest (hE f rest (by omega)) hna
  have derive_or : ∀ m : Ref.Pep508.Marker,
      (∀ fuel rest, 3 * size m ≤ fuel + 1 → NoAnd rest →
        parseMarkerAnd sv fuel (m.render ++ rest) = .done (ret (toModel sv m) (skipWsp rest))) →
      ∀ fuel rest, 3 * size m ≤ fuel → NoAnd rest → NoOr rest →
        parseMarkerOr sv fuel (m.render ++ rest) = .done (ret (toModel sv m) (skipWsp rest)) := by
    intro m hA fuel rest hf hna hno
    have := size_pos m
    obtain ⟨f, rfl⟩ : ∃ f, fuel = f + 1 := ⟨fuel - 1, by omega⟩
    exact or_of_and sv m f rest (hA f rest (by omega) hna) hno
  induction m with
  | cmp w0 l w1 op wNot w2 r =>
    intro h
    have hl : l.wf = true := by
      simp only [Ref.Pep508.Marker.wf, Bool.and_eq_true] at h; exact h.1.1
    have hE : ∀ fuel rest, 3 * size (.cmp w0 l w1 op wNot w2 r) ≤ fuel + 2 →
        parseMarkerExpr sv fuel ((Ref.Pep508.Marker.cmp w0 l w1 op wNot w2 r).render ++ rest) =
          .done (ret (toModel sv (.cmp w0 l w1 op wNot w2 r)) rest) := by
      intro fuel rest hf
      obtain ⟨f, rfl⟩ : ∃ f, fuel = f + 1 := ⟨fuel - 1, by simp [size] at hf; omega⟩
      obtain ⟨h1, h2⟩ := cmp_render_head w0 l w1 op wNot w2 r rest hl
      rw [expr_step, h1, h2]
      simp only []
      rw [parseLeaf_render sv w0 l w1 op wNot w2 r rest h]
    have hA := derive_and _ hE
    exact ⟨fun _ => hE, fun _ => hA, derive_or _ hA⟩
  | paren w0 m w1 ih =>
    intro h
    have hm : m.wf = true := by simpa [Ref.Pep508.Marker.wf] using h
    obtain ⟨_, _, ihO⟩ := ih hm
    have hE : ∀ fuel rest, 3 * size (.paren w0 m w1) ≤ fuel + 2 →
        parseMarkerExpr sv fuel ((Ref.Pep508.Marker.paren w0 m w1).render ++ rest) =
          .done (ret (toModel sv (.paren w0 m w1)) rest) := by
      intro fuel rest hf
      obtain ⟨f, rfl⟩ : ∃ f, fuel = f + 1 := ⟨fuel - 1, by simp [size] at hf; omega⟩
      have hf' : 3 * size m ≤ f := by simp [size] at hf; omega
      have hs : skipWsp ((Ref.Pep508.Marker.paren w0 m w1).render ++ rest) =
          40 :: (m.render ++ (w1.bytes ++ 41 :: rest)) := by
        simp only [Ref.Pep508.Marker.render, List.append_assoc, List.cons_append, List.nil_append]
        rw [skipWsp_ws_append, skipWsp_cons _ (by decide)]
      obtain ⟨hna, hno⟩ := noKw_ws_cons w1 41 rest (by decide) (by decide) (by decide)
      have hrec := ihO f (w1.bytes ++ 41 :: rest) hf' hna hno
      have hsk : skipWsp (w1.bytes ++ 41 :: rest) = 41 :: rest := by
        rw [skipWsp_ws_append, skipWsp_cons _ (by decide)]
      rw [expr_step, hs]
      have hacc : accept [40] (40 :: (m.render ++ (w1.bytes ++ 41 :: rest))) = some (m.render ++ (w1.bytes ++ 41 :: rest)) :=
        accept_self [40] _
      rw [hacc]
      simp only []
      rw [hrec, hsk]
      simp only [toModel]
      cases toModel sv m with
      | ok M =>
        simp only [ret, Outcome.bind, fbind_ok]
        rw [show accept [41] (41 :: rest) = some rest from accept_self [41] rest]
      | err => rfl
      | panic p => rfl
    have hA := derive_and _ hE
    exact ⟨fun _ => hE, fun _ => hA, derive_or _ hA⟩
  | and l w r ihl ihr =>
    intro h
    simp only [Ref.Pep508.Marker.wf, Bool.and_eq_true, beq_iff_eq, decide_eq_true_eq] at h
    obtain ⟨⟨⟨hl0, hr1⟩, hlw⟩, hrw⟩ := h
    obtain ⟨ihlE, _, _⟩ := ihl hlw
    obtain ⟨_, ihrA, _⟩ := ihr hrw
    have hA : ∀ fuel rest, 3 * size (.and l w r) ≤ fuel + 1 → NoAnd rest →
        parseMarkerAnd sv fuel ((Ref.Pep508.Marker.and l w r).render ++ rest) =
          .done (ret (toModel sv (.and l w r)) (skipWsp rest)) := by
      intro fuel rest hf hna
      obtain ⟨f, rfl⟩ : ∃ f, fuel = f + 1 := ⟨fuel - 1, by simp [size] at hf; omega⟩
      have e : (Ref.Pep508.Marker.and l w r).render ++ rest =
          l.render ++ (w.bytes ++ 97 :: 110 :: 100 :: (r.render ++ rest)) := by
        simp [Ref.Pep508.Marker.render, List.append_assoc]
      have hL := ihlE hl0 f (w.bytes ++ 97 :: 110 :: 100 :: (r.render ++ rest)) (by simp [size] at hf; omega)
      have hR := ihrA hr1 f rest (by simp [size] at hf; omega) hna
      have hsk : skipWsp (w.bytes ++ 97 :: 110 :: 100 :: (r.render ++ rest)) = 97 :: 110 :: 100 :: (r.render ++ rest) := by
        rw [skipWsp_ws_append, skipWsp_cons _ (by decide)]
      rw [and_step, e, hL]
      simp only [toModel]
      cases toModel sv l with
      | ok L =>
        simp only [ret, Outcome.bind, fbind_ok, hsk]
        rw [show accept [97, 110, 100] (97 :: 110 :: 100 :: (r.render ++ rest)) = some (r.render ++ rest) from
          accept_self [97, 110, 100] _]
        simp only []
        rw [hR]
        cases toModel sv r <;> rfl
      | err => rfl
      | panic p => rfl
    refine ⟨fun h0 => by simp [Ref.Pep508.Marker.level] at h0, fun _ => hA, derive_or _ hA⟩
  | or l w r ihl ihr =>
    intro h
    simp only [Ref.Pep508.Marker.wf, Bool.and_eq_true, decide_eq_true_eq] at h
    obtain ⟨⟨hl1, hlw⟩, hrw⟩ := h
    obtain ⟨_, ihlA, _⟩ := ihl hlw
    obtain ⟨_, _, ihrO⟩ := ihr hrw
    refine ⟨fun h0 => by simp [Ref.Pep508.Marker.level] at h0, fun h1 => by simp [Ref.Pep508.Marker.level] at h1, ?_⟩
    intro fuel rest hf hna hno
    obtain ⟨f, rfl⟩ : ∃ f, fuel = f + 1 := ⟨fuel - 1, by simp [size] at hf; omega⟩
    have e : (Ref.Pep508.Marker.or l w r).render ++ rest =
        l.render ++ (w.bytes ++ 111 :: 114 :: (r.render ++ rest)) := by
      simp [Ref.Pep508.Marker.render, List.append_assoc]
    have hna' := noAnd_ws_cons w 111 (114 :: (r.render ++ rest)) (by decide) (by decide)
    have hL := ihlA hl1 f (w.bytes ++ 111 :: 114 :: (r.render ++ rest)) (by simp [size] at hf; omega) hna'
    have hR := ihrO f rest (by simp [size] at hf; omega) hna hno
    have hsk : skipWsp (w.bytes ++ 111 :: 114 :: (r.render ++ rest)) = 111 :: 114 :: (r.render ++ rest) := by
      rw [skipWsp_ws_append, skipWsp_cons _ (by decide)]
    rw [or_step, e, hL, hsk]
    simp only [toModel]
    cases toModel sv l with
    | ok L =>
      simp only [ret, Outcome.bind, fbind_ok]
      rw [skipWsp_cons _ (by decide : isWs 111 = false)]
      rw [show accept [111, 114] (111 :: 114 :: (r.render ++ rest)) = some (r.render ++ rest) from
        accept_self [111, 114] _]
      simp only []
      rw [hR]
      cases toModel sv r <;> rfl
    | err => rfl
    | panic p => rfl

end DepsDev.Proofs.C16MarkerRender

namespace DepsDev.Proofs.C16MarkerRender
open DepsDev DepsDev.Pypi DepsDev.Ref.Pep508 DepsDev.Proofs.C16Bytes DepsDev.Proofs.C16Marker

theorem op_render_length (op : Op) (wNot : Ws) : 1 ≤ (op.render wNot).length := by
  cases op <;> simp [Op.render, Op.text]

theorem size_le_render : ∀ m : Ref.Pep508.Marker, size m ≤ m.render.length
  | .cmp w0 l w1 op wNot w2 r => by
    have := op_render_length op wNot
    simp only [size, Ref.Pep508.Marker.render, List.length_append]; omega
  | .paren w0 m w1 => by
    have := size_le_render m
    simp only [size, Ref.Pep508.Marker.render, List.length_append, List.length_cons, List.length_nil]; omega
  | .and l w r => by
    have := size_le_render l
    have := size_le_render r
    simp only [size, Ref.Pep508.Marker.render, List.length_append, List.length_cons, List.length_nil]; omega
  | .or l w r => by
    have := size_le_render l
    have := size_le_render r
    simp only [size, Ref.Pep508.Marker.render, List.length_append, List.length_cons, List.length_nil]; omega

/-- `parseMarker` of any rendering of a well-formed marker tree (with any trailing blanks)
is the tree `toModel` describes (including the leaf-check errors, in source order). -/
theorem parseMarker_render (sv : Semver) (m : Ref.Pep508.Marker) (h : m.wf = true) (wT : Ws) :
    parseMarker sv (m.render ++ wT.bytes) = toModel sv m := by
  obtain ⟨hna, hno⟩ := noKw_ws wT
  have hfuel : 3 * size m ≤ 3 * (m.render ++ wT.bytes).length + 3 := by
    have := size_le_render m
    simp only [List.length_append]; omega
  have := (parse_render sv m h).2.2 _ wT.bytes hfuel hna hno
  unfold parseMarker
  rw [this, skipWsp_ws]
  cases toModel sv m <;> rfl

end DepsDev.Proofs.C16MarkerRender
