import DepsDev.Proofs.C01MavenLex

/-!
# C01 for Maven, part 3: the Maven-Central shape (DESIGN 6.4) and the panic site

* `MavenShape els` — the element lists `mavenExtension.init` produces from
  `N(.N)* [qsep? qual [nsep? N]] [-SNAPSHOT]`: a first number with separator 0, numbers
  with `.`, at most one qualifier (`.` or `-`), at most one number (`.` or `-`; `-` is what
  `init` assigns at a letter/digit transition), at most one final `-snapshot`; trimmed:
  no element after the first that `isEmptyMavenElem` accepts is last or stands before a `-`.
* `ZeroDotQual els` — some number of value 0 is directly followed by a `.`-separated
  qualifier (`4.1.0.Beta1`): the shape on which Maven's own comparator is intransitive.
* `mavenGood_of_shape`: `MavenShape` without `ZeroDotQual` lies in `MavenGood`.
* `mavenCompare_ok`: the `panic(bCategory)` site is unreachable whenever no element text
  starts with a separator.
-/
namespace DepsDev.Proofs

open Std DepsDev DepsDev.Semver
open DepsDev.Gen.SemverTables (versionNumeric versionQualifier versionEOF versionSeparator mavenEmptyQualifier)

def isNumE (e : MavenElem) : Bool := mcat e == versionNumeric
def isQualE (e : MavenElem) : Bool := mcat e == versionQualifier && e.int == 0

/-- The trailing `-SNAPSHOT` element (lower-cased by `init`). -/
def snapshotElem : MavenElem := ⟨45, [115, 110, 97, 112, 115, 104, 111, 116], 0⟩

def shapeSnap : List MavenElem → Bool
  | [] => true
  | [e] => e == snapshotElem
  | _ => false

def shapeNum : List MavenElem → Bool
  | [] => true
  | e :: t => if isNumE e && sepOK e then shapeSnap t else shapeSnap (e :: t)

def shapeQual : List MavenElem → Bool
  | [] => true
  | e :: t => if isQualE e && sepOK e then shapeNum t else shapeNum (e :: t)

def shapeNums : List MavenElem → Bool
  | [] => true
  | e :: t => if isNumE e && e.sep == 46 then shapeNums t else shapeQual (e :: t)

/-- What the trimming loop of `init` leaves (elements after the first): an element that
`isEmptyMavenElem` accepts is neither last nor directly before a `-`. -/
def trimmedTail : List MavenElem → Bool
  | [] => true
  | [e] => !isEmptyMavenElem e.str
  | e :: f :: t => (f.sep != 45 || !isEmptyMavenElem e.str) && trimmedTail (f :: t)

/-- DESIGN 6.4: the element lists of the Maven-Central version shape. -/
def MavenShape : List MavenElem → Bool
  | [] => false
  | h :: t => h.sep == 0 && isNumE h && shapeNums t && trimmedTail t

/-- A number of value 0 directly followed by a `.`-separated qualifier. -/
def ZeroDotQual : List MavenElem → Bool
  | e :: f :: t => (isNumE e && e.int == 0 && mcat f == versionQualifier && f.sep == 46) || ZeroDotQual (f :: t)
  | _ => false

/-! ## shape ⇒ every element after the first is fine -/

def allOK (t : List MavenElem) : Bool := t.all (fun e => elemOK e && sepOK e)

theorem elemOK_of_num {e : MavenElem} (h : isNumE e = true) : elemOK e = true := by
  simp [elemOK, isNumE] at *; simp [h]

theorem elemOK_of_qual {e : MavenElem} (h : isQualE e = true) : elemOK e = true := by
  simp [elemOK, isQualE] at *; simp [h]

theorem allOK_of_shapeSnap {t : List MavenElem} (h : shapeSnap t = true) : allOK t = true := by
  match t, h with
  | [], _ => rfl
  | [e], h =>
    have : e = snapshotElem := by simpa [shapeSnap] using h
    subst this; decide

theorem allOK_cons {e : MavenElem} {t : List MavenElem} (he : elemOK e = true) (hs : sepOK e = true)
    (ht : allOK t = true) : allOK (e :: t) = true := by
  simp only [allOK, List.all_cons, Bool.and_eq_true]
  exact ⟨⟨he, hs⟩, ht⟩

theorem allOK_of_shapeNum {t : List MavenElem} (h : shapeNum t = true) : allOK t = true := by
  cases t with
  | nil => rfl
  | cons e t =>
    by_cases hc : (isNumE e && sepOK e) = true
    · simp only [shapeNum, hc, ↓reduceIte] at h
      simp only [Bool.and_eq_true] at hc
      exact allOK_cons (elemOK_of_num hc.1) hc.2 (allOK_of_shapeSnap h)
    · simp only [shapeNum, hc, Bool.false_eq_true, ↓reduceIte] at h
      exact allOK_of_shapeSnap h

theorem allOK_of_shapeQual {t : List MavenElem} (h : shapeQual t = true) : allOK t = true := by
  cases t with
  | nil => rfl
  | cons e t =>
    by_cases hc : (isQualE e && sepOK e) = true
    · simp only [shapeQual, hc, ↓reduceIte] at h
      simp only [Bool.and_eq_true] at hc
      exact allOK_cons (elemOK_of_qual hc.1) hc.2 (allOK_of_shapeNum h)
    · simp only [shapeQual, hc, Bool.false_eq_true, ↓reduceIte] at h
      exact allOK_of_shapeNum h

theorem allOK_of_shapeNums {t : List MavenElem} (h : shapeNums t = true) : allOK t = true := by
  induction t with
  | nil => rfl
  | cons e t ih =>
    by_cases hc : (isNumE e && e.sep == 46) = true
    · simp only [shapeNums, hc, ↓reduceIte] at h
      simp only [Bool.and_eq_true] at hc
      exact allOK_cons (elemOK_of_num hc.1) (by simp [sepOK, hc.2]) (ih h)
    · simp only [shapeNums, hc, Bool.false_eq_true, ↓reduceIte] at h
      exact allOK_of_shapeQual h

/-! ## fine elements, trimmed, no ZeroDotQual ⇒ `tailOK` -/

theorem vsNone_of_num {e : MavenElem} (h : isNumE e = true) : vsNone e = .lt := by
  have h' : (mcat e == versionNumeric) = true := h
  simp [vsNone, mkey, h', MK.cmp_def, mkNone, compare_int]

theorem isEmpty_of_vsNone_eq {e : MavenElem} (h : vsNone e = .eq) : isEmptyMavenElem e.str = true := by
  unfold vsNone mkey at h
  rw [MK.cmp_def] at h
  unfold isEmptyMavenElem
  simp only [mavenEmptyQualifier] at *
  generalize mavenOrder e.str = o at *
  by_cases hn : (mcat e == versionNumeric) = true
  · simp [hn, mkNone, compare_int] at h
  · by_cases ho : o > -2
    · simp [hn, ho, mkNone, compare_int] at h
    · simp only [hn, ho, Bool.false_eq_true, ↓reduceIte, mkNone, compare_int] at h
      have : o = -2 := by
        by_cases h1 : (-45 : Int) < -(e.sep.toNat : Int)
        · simp [h1] at h
        · by_cases h2 : (-45 : Int) = -(e.sep.toNat : Int)
          · simp [h2] at h
            omega
          · simp [h1, h2] at h
      simp [this]

theorem trimmedTail_tail {e : MavenElem} {t : List MavenElem} (h : trimmedTail (e :: t) = true) :
    trimmedTail t = true := by
  cases t with
  | nil => rfl
  | cons f t => simp only [trimmedTail, Bool.and_eq_true] at h; exact h.2

theorem zeroDotQual_tail {e : MavenElem} {t : List MavenElem} (h : ZeroDotQual (e :: t) = false) :
    ZeroDotQual t = false := by
  cases t with
  | nil => rfl
  | cons f t => simp only [ZeroDotQual, Bool.or_eq_false_iff] at h; exact h.2

theorem pad46_isNum : isNumE pad46 = true := by decide

theorem tailOK_of_trimmed {t : List MavenElem} (hok : allOK t = true) (htr : trimmedTail t = true)
    (hz : ZeroDotQual t = false) : tailOK t = true := by
  induction t with
  | nil => rfl
  | cons e t ih =>
    have hok' := hok
    simp only [allOK, List.all_cons, Bool.and_eq_true] at hok'
    obtain ⟨⟨he, hs⟩, hokt⟩ := hok'
    have iht := ih hokt (trimmedTail_tail htr) (zeroDotQual_tail hz)
    simp only [tailOK, he, hs, iht, Bool.and_self, Bool.true_and]
    by_cases hp : e = pad46
    · subst hp
      simp only [beq_self_eq_true, ↓reduceIte]
      -- the literal `.0` is neither last nor before a `-`, and not before a `.`-qualifier
      cases t with
      | nil => revert htr; decide
      | cons f t' =>
        have hf : f.sep ≠ 45 := by
          intro h45
          simp only [trimmedTail, Bool.and_eq_true] at htr
          have := htr.1
          simp [h45, pad46, isEmptyMavenElem] at this
        simp only [List.all_cons, Bool.and_eq_true] at hokt
        obtain ⟨⟨hfe, hfs⟩, _⟩ := hokt
        have hf46 : f.sep = 46 := by
          rcases sepOK_cases hfs with h | h
          · exact absurd h hf
          · exact h
        have hfn : isNumE f = true := by
          simp only [ZeroDotQual, Bool.or_eq_false_iff, Bool.and_eq_false_iff] at hz
          have h1 := hz.1
          simp only [pad46_isNum, hf46] at h1
          rcases elemOK_cases hfe with c | ⟨c, _⟩
          · simp [isNumE, versionNumeric, c]
          · simp [versionQualifier, c, pad46] at h1
        unfold posTail
        by_cases hfp : f = pad46
        · subst hfp
          simp only [beq_self_eq_true, ↓reduceIte]
          simp only [tailOK, Bool.and_eq_true, beq_self_eq_true, ↓reduceIte] at iht
          exact iht.2
        · have : (f == pad46) = false := by simpa using hfp
          simp [this, vsNone_of_num hfn]
    · have hp' : (e == pad46) = false := by simpa using hp
      simp only [hp', Bool.false_eq_true, ↓reduceIte]
      split
      · rename_i hv
        have hv' : vsNone e = .eq := by simpa using hv
        have hem := isEmpty_of_vsNone_eq hv'
        cases t with
        | nil => simp [trimmedTail, hem] at htr
        | cons f t' => rfl
      · rfl

/-- **The Maven-Central shape without `ZeroDotQual` is inside the lawful domain.** -/
theorem mavenGood_of_shape {l : List MavenElem} (hs : MavenShape l = true) (hz : ZeroDotQual l = false) :
    MavenGood l = true := by
  cases l with
  | nil => simp [MavenShape] at hs
  | cons h t =>
    simp only [MavenShape, Bool.and_eq_true] at hs
    obtain ⟨⟨⟨h0, hn⟩, hsh⟩, htr⟩ := hs
    simp only [MavenGood, h0, elemOK_of_num hn, Bool.true_and]
    exact tailOK_of_trimmed (allOK_of_shapeNums hsh) htr (zeroDotQual_tail hz)

/-! ## the panic site -/

/-- No element text starts with `.` or `-`. -/
def noSepStart (l : List MavenElem) : Bool := l.all (fun e => mcat e != versionSeparator)

theorem unknownCompare_ok (a b : MavenElem) (ao bc : Int) (h : bc = 3 ∨ bc = 5 ∨ bc = 4) :
    ∃ r, mavenUnknownQualifierCompare a b ao bc = .ok r := by
  unfold mavenUnknownQualifierCompare
  simp only [versionQualifier, versionEOF, versionNumeric]
  rcases h with h | h | h <;> subst h <;> simp <;> (repeat' split) <;> exact ⟨_, rfl⟩

theorem mcat_ok {e : MavenElem} (h : (mcat e != versionSeparator) = true) :
    mcat e = 3 ∨ mcat e = 5 ∨ mcat e = 4 := by
  have h' : mcat e ≠ versionSeparator := by simpa using h
  rcases mcat_cases e with c | c | c | c
  · exact .inr (.inl c)
  · exact .inr (.inr c)
  · exact absurd c h'
  · exact .inl c

/-- One step never panics when both categories are qualifier, EOF or numeric. -/
theorem stepCore_ok (a? b? : Option MavenElem)
    (ha : ∀ a, a? = some a → (mcat a != versionSeparator) = true)
    (hb : ∀ b, b? = some b → (mcat b != versionSeparator) = true) :
    ∃ r, mavenStep a? b? = .ok r := by
  have key : ∀ (a b : MavenElem) (ac bc : Int), (ac = 3 ∨ ac = 5 ∨ ac = 4) → (bc = 3 ∨ bc = 5 ∨ bc = 4) →
      ∃ r, (if (a == b) = true then Outcome.ok none else
        if (ac == versionQualifier && decide (mavenOrder a.str > mavenEmptyQualifier)) = true then
          (mavenUnknownQualifierCompare a b (mavenOrder a.str) bc).bind (fun r => Outcome.ok (some r))
        else if (bc == versionQualifier && decide (mavenOrder b.str > mavenEmptyQualifier)) = true then
          (mavenUnknownQualifierCompare b a (mavenOrder b.str) ac).bind (fun r => Outcome.ok (some (-r)))
        else
          let ac := if ac == versionEOF then versionQualifier else ac
          let bc := if bc == versionEOF then versionQualifier else bc
          if ac > bc then Outcome.ok (some 1)
          else if ac < bc then .ok (some (-1))
          else if ac == versionNumeric then
            if a.sep != b.sep then .ok (some ((a.sep.toNat : Int) - b.sep.toNat))
            else
              let s := sgnInt a.int b.int
              if s != 0 then .ok (some s) else .ok none
          else if a.sep != b.sep then .ok (some ((b.sep.toNat : Int) - a.sep.toNat))
          else
            let c := compareMavenQualifier a.str b.str
            if c == 0 then .ok none else .ok (some c)) = Outcome.ok r := by
    intro a b ac bc hac hbc
    split
    · exact ⟨_, rfl⟩
    · split
      · obtain ⟨r, hr⟩ := unknownCompare_ok a b (mavenOrder a.str) bc hbc
        exact ⟨some r, by rw [hr]; rfl⟩
      · split
        · obtain ⟨r, hr⟩ := unknownCompare_ok b a (mavenOrder b.str) ac hac
          exact ⟨some (-r), by rw [hr]; rfl⟩
        · simp only []
          (repeat' split) <;> exact ⟨_, rfl⟩
  have eof : (versionEOF = 3 ∨ versionEOF = 5 ∨ versionEOF = 4) := by decide
  unfold mavenStep
  match a?, b? with
  | some a, some b => exact key a b _ _ (mcat_ok (ha a rfl)) (mcat_ok (hb b rfl))
  | some a, none => exact key a _ _ _ (mcat_ok (ha a rfl)) eof
  | none, some b => exact key _ b _ _ eof (mcat_ok (hb b rfl))
  | none, none => exact key _ _ _ _ eof eof

theorem mavenCompareNilL_ok {b : List MavenElem} (hb : noSepStart b = true) :
    ∃ r, mavenCompareNilL b = .ok r := by
  induction b with
  | nil => exact ⟨0, rfl⟩
  | cons e t ih =>
    simp only [noSepStart, List.all_cons, Bool.and_eq_true] at hb
    obtain ⟨r, hr⟩ := stepCore_ok none (some e) (by simp) (by simpa using hb.1)
    obtain ⟨r', hr'⟩ := ih (by simpa [noSepStart] using hb.2)
    unfold mavenCompareNilL
    rw [hr]
    cases r with
    | none => simp only [hr']; exact ⟨_, rfl⟩
    | some r => exact ⟨_, rfl⟩

/-- **No panic**: `mavenCompare` returns a result on all lists none of whose element
texts starts with a separator. -/
theorem mavenCompare_ok {a b : List MavenElem} (ha : noSepStart a = true) (hb : noSepStart b = true) :
    ∃ r, mavenCompare a b = .ok r := by
  induction a generalizing b with
  | nil => unfold mavenCompare; exact mavenCompareNilL_ok hb
  | cons x as ih =>
    simp only [noSepStart, List.all_cons, Bool.and_eq_true] at ha
    have has : noSepStart as = true := by simpa [noSepStart] using ha.2
    cases b with
    | nil =>
      obtain ⟨r, hr⟩ := stepCore_ok (some x) none (by simpa using ha.1) (by simp)
      unfold mavenCompare
      rw [hr]
      cases r with
      | none => exact ih has (b := []) rfl
      | some r => exact ⟨_, rfl⟩
    | cons y bs =>
      simp only [noSepStart, List.all_cons, Bool.and_eq_true] at hb
      obtain ⟨r, hr⟩ := stepCore_ok (some x) (some y) (by simpa using ha.1) (by simpa using hb.1)
      unfold mavenCompare
      rw [hr]
      cases r with
      | none => exact ih has (by simpa [noSepStart] using hb.2)
      | some r => exact ⟨_, rfl⟩

theorem noSep_of_elemOK {e : MavenElem} (h : elemOK e = true) : (mcat e != versionSeparator) = true := by
  rcases elemOK_cases h with c | ⟨c, _⟩ <;> simp [c, versionSeparator]

/-- Lists of the Maven-Central shape have no element text starting with a separator. -/
theorem noSepStart_of_shape {l : List MavenElem} (hs : MavenShape l = true) : noSepStart l = true := by
  cases l with
  | nil => simp [MavenShape] at hs
  | cons h t =>
    simp only [MavenShape, Bool.and_eq_true] at hs
    obtain ⟨⟨⟨_, hn⟩, hsh⟩, _⟩ := hs
    have hall := allOK_of_shapeNums hsh
    simp only [allOK, List.all_eq_true, Bool.and_eq_true] at hall
    simp only [noSepStart, List.all_cons, Bool.and_eq_true, List.all_eq_true]
    exact ⟨noSep_of_elemOK (elemOK_of_num hn), fun e he => noSep_of_elemOK (hall e he).1⟩

end DepsDev.Proofs
