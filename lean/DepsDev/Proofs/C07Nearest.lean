import DepsDev.Proofs.C07Prov
import DepsDev.Proofs.C07Attr

/-! C07 nearest-wins invariant (M2, first pass): when the pass starts from an empty
`requirements` map, the head of the list collected for an artifact key — if it is a soft
requirement — is the requirement of the FIRST edge with that key in the edge list
(edges are appended in breadth-first discovery order). -/

namespace DepsDev.Resolve.Maven
open DepsDev.Gen

/-- `e` is an edge to artifact key `pk` (name of the target node, classifier and type of the edge). -/
def edgeHasKey (g : Graph) (pk : PackageKey) (e : Edge) : Bool :=
  match g.vkAt e.dst with
  | some v => packageKeyForDependency v.name e.typ == pk
  | none => false

theorem find?_congr_mem {α : Type} (l : List α) (p q : α → Bool) (h : ∀ a ∈ l, p a = q a) :
    l.find? p = l.find? q := by
  induction l with
  | nil => rfl
  | cons a l ih =>
    simp only [List.find?, h a (by simp)]
    rw [ih (fun b hb => h b (by simp [hb]))]

theorem find?_append_of_some {α : Type} (l l' : List α) (p : α → Bool) (a : α) (h : l.find? p = some a) :
    (l ++ l').find? p = some a := by
  simp [List.find?_append, h]

theorem find?_append_of_none {α : Type} (l : List α) (p : α → Bool) (a : α) (h : ∀ b ∈ l, p b = false)
    (ha : p a = true) : (l ++ [a]).find? p = some a := by
  have : l.find? p = none := by simpa using h
  simp [List.find?_append, this, ha]

structure NearI (u : Universe) (s : State) : Prop where
  reqIn : ∀ e ∈ s.g.edges, ∃ v, s.g.vkAt e.dst = some v ∧
    e.req ∈ s.requirements.get (packageKeyForDependency v.name e.typ)
  head : ∀ pk r0 rest, s.requirements.get pk = r0 :: rest → reqKind u r0 = .soft →
    ∃ e0, s.g.edges.find? (edgeHasKey s.g pk) = some e0 ∧ e0.req = r0
  noBad : ∀ pk, ∀ r ∈ s.requirements.get pk, reqKind u r ≠ .bad
  hardEdge : ∀ pk, (∃ r ∈ s.requirements.get pk, reqKind u r = .hard) →
    ∃ e ∈ s.g.edges, edgeHasKey s.g pk e = true ∧ reqKind u e.req = .hard

/-- existing edges keep their key when the graph grows -/
theorem edgeHasKey_mono {g g' : Graph} (hvk : ∀ i v, g.vkAt i = some v → g'.vkAt i = some v)
    {e : Edge} (hlt : e.dst < g.nodes.length) (pk : PackageKey) : edgeHasKey g' pk e = edgeHasKey g pk e := by
  obtain ⟨v, hv⟩ := vkAt_some_of_lt hlt
  simp [edgeHasKey, hv, hvk _ _ hv]

theorem reqsAfter_get_other (m : ReqMap) {pk k : PackageKey} (ver : Bytes) (h : k ≠ pk) :
    (reqsAfter m pk ver).get k = m.get k := by
  unfold reqsAfter
  split
  · rfl
  · exact get_set_other _ _ h

theorem reqsAfter_get_same (m : ReqMap) (pk : PackageKey) (ver : Bytes) :
    (reqsAfter m pk ver).get pk = m.get pk ∨ (reqsAfter m pk ver).get pk = m.get pk ++ [ver] := by
  unfold reqsAfter
  split
  · exact .inl rfl
  · exact .inr (get_set_same _ _ _)

theorem near_step {u : Universe} {mgt : List (PackageKey × Bytes)} {root : VK} {first : Bool} {cur : Todo}
    {curId : Nat} {d : Dep} {s s' : State}
    (hwj : WFJ root cur curId s) (hy : NearI u s) (hs : DepStep u mgt first cur d s s') : NearI u s' := by
  have hvk : ∀ i v, s.g.vkAt i = some v → s'.g.vkAt i = some v := fun _ _ h => step_vkAt_mono hs h
  have hpre := step_reqs_prefix hs
  -- old edges keep `reqIn`
  have hold : ∀ e ∈ s.g.edges, ∃ v, s'.g.vkAt e.dst = some v ∧
      e.req ∈ s'.requirements.get (packageKeyForDependency v.name e.typ) := by
    intro e he
    obtain ⟨v, hv, hr⟩ := hy.reqIn e he
    exact ⟨v, hvk _ _ hv, (hpre _).subset hr⟩
  -- the head of a list is kept, and an old first edge stays first, when edges are appended
  have hkeep : ∀ (extra : List Edge) pk r0 rest, s.requirements.get pk = r0 :: rest → reqKind u r0 = .soft →
      ∃ e0, (s.g.edges ++ extra).find? (edgeHasKey s'.g pk) = some e0 ∧ e0.req = r0 := by
    intro extra pk r0 rest hget hsoft
    obtain ⟨e0, hf, hr⟩ := hy.head pk r0 rest hget hsoft
    refine ⟨e0, find?_append_of_some _ _ _ _ ?_, hr⟩
    rw [find?_congr_mem s.g.edges (edgeHasKey s'.g pk) (edgeHasKey s.g pk)
      (fun e he => edgeHasKey_mono hvk (hwj.1.edgesIn e he).2 pk)]
    exact hf
  -- how the list of a key evolves in a non-excluded step
  have hlist : ∀ pk r0 rest, (reqsAfter s.requirements (depKey d) (depVer mgt first d)).get pk = r0 :: rest →
      (∃ rest', s.requirements.get pk = r0 :: rest') ∨
      (pk = depKey d ∧ s.requirements.get pk = [] ∧ r0 = depVer mgt first d ∧ rest = []) := by
    intro pk r0 rest h
    unfold reqsAfter at h
    split at h
    · exact .inl ⟨rest, h⟩
    · by_cases hpk : pk = depKey d
      · subst hpk
        rw [get_set_same] at h
        cases hg : s.requirements.get (depKey d) with
        | nil => rw [hg] at h; simp at h; exact .inr ⟨rfl, rfl, h.1.symm, h.2⟩
        | cons a l => rw [hg] at h; simp at h; exact .inl ⟨l, by rw [h.1]⟩
      · rw [get_set_other _ _ hpk] at h; exact .inl ⟨rest, h⟩
  -- no unparsable requirement: `findMatch` answered on the new list of the declaration's key
  have hbad : ((∃ v, findMatch u d.name ((reqsAfter s.requirements (depKey d) (depVer mgt first d)).get (depKey d)) = .ok v) ∨
      findMatch u d.name ((reqsAfter s.requirements (depKey d) (depVer mgt first d)).get (depKey d)) = .noMatch) →
      ∀ pk, ∀ r ∈ (reqsAfter s.requirements (depKey d) (depVer mgt first d)).get pk, reqKind u r ≠ .bad := by
    intro hf pk r hr
    by_cases hpk : pk = depKey d
    · subst hpk; exact findMatch_no_bad hf r hr
    · rw [reqsAfter_get_other _ _ hpk] at hr; exact hy.noBad pk r hr
  -- a key with a hard requirement: an old hard edge, or the declaration's key just got its first one
  have hhard : ∀ pk, (∃ r ∈ (reqsAfter s.requirements (depKey d) (depVer mgt first d)).get pk, reqKind u r = .hard) →
      (∃ e ∈ s.g.edges, edgeHasKey s.g pk e = true ∧ reqKind u e.req = .hard) ∨
      (pk = depKey d ∧ reqKind u (depVer mgt first d) = .hard ∧
        findMatch u d.name ((reqsAfter s.requirements (depKey d) (depVer mgt first d)).get (depKey d)) ≠ .noMatch) := by
    intro pk ⟨r, hr, hk⟩
    by_cases hpk : pk = depKey d
    · subst hpk
      by_cases hold' : ∃ r ∈ s.requirements.get (depKey d), reqKind u r = .hard
      · exact .inl (hy.hardEdge _ hold')
      · refine .inr ⟨rfl, ?_⟩
        suffices hsuff : reqKind u (depVer mgt first d) = .hard ∧
            findMatch u d.name ((reqsAfter s.requirements (depKey d) (depVer mgt first d)).get (depKey d)) ≠ .noMatch from hsuff
        have hallsoft : ∀ x ∈ s.requirements.get (depKey d), reqKind u x = .soft := by
          intro x hx
          have h1 := hy.noBad _ x hx
          have h2 : reqKind u x ≠ .hard := fun hh => hold' ⟨x, hx, hh⟩
          cases hkx : reqKind u x with
          | soft => rfl
          | hard => exact absurd hkx h2
          | bad => exact absurd hkx h1
        rcases reqsAfter_get_same s.requirements (depKey d) (depVer mgt first d) with hsame | happ
        · rw [hsame] at hr; exact absurd hk (by rw [hallsoft r hr]; simp)
        · rw [happ] at hr ⊢
          simp only [List.mem_append, List.mem_singleton] at hr
          rcases hr with hr | rfl
          · exact absurd hk (by rw [hallsoft r hr]; simp)
          · exact ⟨hk, findMatch_softs_hard_ne_noMatch hallsoft hk⟩
    · rw [reqsAfter_get_other _ _ hpk] at hr
      exact .inl (hy.hardEdge pk ⟨r, hr, hk⟩)
  cases hs with
  | excluded _ => exact hy
  | noMatch _ hfm =>
    refine ⟨fun e he => hold e (by simpa using he), ?_, hbad (.inr hfm), ?_⟩
    · intro pk r0 rest hget hsoft
      rcases hlist pk r0 rest hget with ⟨rest', h'⟩ | ⟨rfl, hnil, rfl, rfl⟩
      · simpa using hkeep [] pk r0 rest' h' hsoft
      · exfalso
        simp only at hget
        rw [hget] at hfm
        exact findMatch_all_soft_ne_noMatch (by simpa using hsoft) hfm
    · intro pk hex
      rcases hhard pk hex with ⟨e, he, hk, hh⟩ | ⟨rfl, hvh, hne⟩
      · exact ⟨e, by simpa using he, by simpa [edgeHasKey] using hk, hh⟩
      · exact absurd hfm hne
  | edge mv id g' _ hfm hid hadd =>
    obtain ⟨_, hidlt, rfl⟩ := addEdge_some hadd
    have hv : s.g.vkAt id = some { name := d.name, version := mv } := by
      rcases hid with hid | ⟨_, _, hid⟩
      · exact hwj.1.cvSound _ _ hid
      · exact hwj.1.nodesSound _ _ hid
    refine ⟨?_, ?_, hbad (.inl ⟨mv, hfm⟩), ?_⟩
    rotate_left 2
    · intro pk hex
      rcases hhard pk hex with ⟨e, he, hk, hh⟩ | ⟨rfl, hvh, hne⟩
      · exact ⟨e, by simp [he], by simpa [edgeHasKey] using hk, hh⟩
      · refine ⟨_, List.mem_append_right _ (List.mem_singleton.mpr rfl), ?_, hvh⟩
        simp [edgeHasKey, hv, depKey]
    · intro e he
      simp only [List.mem_append, List.mem_singleton] at he
      rcases he with he | rfl
      · exact hold e he
      · exact ⟨_, hv, mem_reqsAfter _ _ _⟩
    · intro pk r0 rest hget hsoft
      rcases hlist pk r0 rest hget with ⟨rest', h'⟩ | ⟨rfl, hnil, rfl, rfl⟩
      · exact hkeep _ pk r0 rest' h' hsoft
      · refine ⟨_, find?_append_of_none _ _ _ ?_ ?_, rfl⟩
        · intro b hb
          obtain ⟨v, hbv, hbr⟩ := hy.reqIn b hb
          simp only [edgeHasKey, vkAt_edges_irrel, hbv]
          by_cases hk : packageKeyForDependency v.name b.typ = depKey d
          · rw [hk, hnil] at hbr; cases hbr
          · simpa using hk
        · simp [edgeHasKey, hv, depKey]
  | newNode mv g2 _ hfm _ _ _ hadd =>
    obtain ⟨_, _, rfl⟩ := addEdge_some hadd
    have hvnew := vkAt_addNode_new s.g { name := d.name, version := mv }
    refine ⟨?_, ?_, hbad (.inl ⟨mv, hfm⟩), ?_⟩
    rotate_left 2
    · intro pk hex
      rcases hhard pk hex with ⟨e, he, hk, hh⟩ | ⟨rfl, hvh, hne⟩
      · refine ⟨e, by simp [he], ?_, hh⟩
        have hlt := (hwj.1.edgesIn e he).2
        obtain ⟨w, hw⟩ := vkAt_some_of_lt hlt
        have hw' := vkAt_addNode_old (v := { name := d.name, version := mv }) hw
        simp only [edgeHasKey, hw] at hk
        simp only [edgeHasKey, vkAt_edges_irrel, hw']
        exact hk
      · refine ⟨_, List.mem_append_right _ (List.mem_singleton.mpr rfl), ?_, hvh⟩
        simp only [edgeHasKey, vkAt_edges_irrel, hvnew]
        have := packageKey_withSelector d.name d.typ
        simp only [withSelector] at this
        simp [this, depKey]
    · intro e he
      simp only [List.mem_append, List.mem_singleton, edges_addNode] at he
      rcases he with he | rfl
      · exact hold e he
      · exact ⟨_, hvnew, by have := mem_reqsAfter s.requirements (depKey d) (depVer mgt first d); simpa [depKey] using this⟩
    · intro pk r0 rest hget hsoft
      rcases hlist pk r0 rest hget with ⟨rest', h'⟩ | ⟨rfl, hnil, rfl, rfl⟩
      · exact hkeep _ pk r0 rest' h' hsoft
      · refine ⟨_, find?_append_of_none _ _ _ ?_ ?_, rfl⟩
        · intro b hb
          simp only [edges_addNode] at hb
          obtain ⟨v, hbv, hbr⟩ := hy.reqIn b hb
          have hbv' := vkAt_addNode_old (v := { name := d.name, version := mv }) hbv
          simp only [edgeHasKey, vkAt_edges_irrel, hbv']
          by_cases hk : packageKeyForDependency v.name b.typ = depKey d
          · rw [hk, hnil] at hbr; cases hbr
          · simpa using hk
        · simp only [edgeHasKey, vkAt_edges_irrel, hvnew]
          have := packageKey_withSelector d.name d.typ
          simp only [withSelector] at this
          simp [this, depKey]

/-- The invariant holds after a pass that started with an empty requirements map. -/
theorem near_loop {u : Universe} {mgt : List (PackageKey × Bytes)} {root : VK}
    {fuel : Nat} {s : State}
    (h : loop u mgt fuel true (initState root []) = .ok (some s)) : NearI u s := by
  have := loop_inv_wf (u := u) (mgt := mgt) root
    (fun _ s => NearI u s) (fun _ _ _ _ s => NearI u s)
    (fun first s cur rest _ hx _ _ => ⟨hx.reqIn, hx.head, hx.noBad, hx.hardEdge⟩)
    (fun first cur curId imps ds d s s' _ _ _ hwj hy hs => near_step hwj hy hs)
    (fun first cur curId ds s _ _ hy => ⟨hy.reqIn, hy.head, hy.noBad, hy.hardEdge⟩)
    fuel true (initState root []) s (wf_init root [])
    ⟨by simp [initState], by intro pk r0 rest hg; simp [initState, ReqMap.get] at hg,
      by intro pk r hr; simp [initState, ReqMap.get] at hr,
      by intro pk ⟨r, hr, _⟩; simp [initState, ReqMap.get] at hr⟩ h
  obtain ⟨_, hx, _, _⟩ := this
  exact hx

end DepsDev.Resolve.Maven
