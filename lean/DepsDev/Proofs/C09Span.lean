import DepsDev.Proofs.C09Order

/-!
# C09 — spans as intervals of points: well-formedness, membership, `newSpan`
-/
namespace DepsDev.Proofs.C09

open Std DepsDev DepsDev.Semver DepsDev.Proofs

variable {s : System}

/-- "Clean" bound: no wildcard number and no build metadata — what `newSpan` leaves
unchanged. Every bound `newSpan` stores is clean (`newSpan_spanOK`). -/
def Clean (v : Version) : Prop := v.isWildcard = false ∧ v.build = []

instance (v : Version) : Decidable (Clean v) := inferInstanceAs (Decidable (_ ∧ _))

/-- A clean version of the generic system `s`. -/
def VOK (s : System) (v : Version) : Prop := VG s v ∧ Clean v

instance (s : System) (v : Version) : Decidable (VOK s v) := inferInstanceAs (Decidable (_ ∧ _))

/-- Membership of a point in an interval with optional open ends. -/
def inItv (a : Pt s) (ao : Bool) (b : Pt s) (bo : Bool) (v : Pt s) : Prop :=
  (if ao then a < v else a ≤ v) ∧ (if bo then v < b else v ≤ b)

instance (a : Pt s) (ao : Bool) (b : Pt s) (bo : Bool) (v : Pt s) : Decidable (inItv a ao b bo v) :=
  inferInstanceAs (Decidable (_ ∧ _))

/-- The shape of a span as `newSpan` builds it (and as `canon`/`Intersect` keep it):
empty spans have nil bounds; a unit span is a closed point; a vector span has
`min < max`. All bounds are clean versions of system `s`. -/
def SpanOK (s : System) (sp : Span) : Prop :=
  match sp.rank with
  | .empty => sp.min = none ∧ sp.max = none
  | .unit => ∃ m, sp.min = some m ∧ sp.max = some m ∧ VOK s m ∧ sp.minOpen = false ∧ sp.maxOpen = false
  | .vector => ∃ a b, sp.min = some a ∧ sp.max = some b ∧ VOK s a ∧ VOK s b ∧ pt s a < pt s b

/-- The versions a span denotes under prerelease-inclusive (pure interval) matching. -/
def has (s : System) (sp : Span) (v : Version) : Bool :=
  match sp.rank, sp.min, sp.max with
  | .empty, _, _ => false
  | _, some a, some b => decide (inItv (pt s a) sp.minOpen (pt s b) sp.maxOpen (pt s v))
  | _, _, _ => false

/-- Uniform view of a non-empty well-formed span. -/
theorem SpanOK.bounds {sp : Span} (h : SpanOK s sp) (hne : sp.rank ≠ .empty) :
    ∃ a b, sp.min = some a ∧ sp.max = some b ∧ VOK s a ∧ VOK s b ∧ pt s a ≤ pt s b ∧
      (pt s a < pt s b ∨ (sp.minOpen = false ∧ sp.maxOpen = false)) ∧
      (sp.rank = .unit → a = b) ∧ (sp.rank = .vector → pt s a < pt s b) := by
  unfold SpanOK at h
  cases hr : sp.rank with
  | empty => exact absurd hr hne
  | unit =>
    rw [hr] at h
    obtain ⟨m, h1, h2, h3, h4, h5⟩ := h
    exact ⟨m, m, h1, h2, h3, h3, by grind, Or.inr ⟨h4, h5⟩, fun _ => rfl, fun h => (by cases h)⟩
  | vector =>
    rw [hr] at h
    obtain ⟨a, b, h1, h2, h3, h4, h5⟩ := h
    exact ⟨a, b, h1, h2, h3, h4, by grind, Or.inl h5, fun h => (by cases h), fun _ => h5⟩

theorem has_eq {sp : Span} {a b : Version} (hne : sp.rank ≠ .empty) (h1 : sp.min = some a)
    (h2 : sp.max = some b) (v : Version) :
    has s sp v = decide (inItv (pt s a) sp.minOpen (pt s b) sp.maxOpen (pt s v)) := by
  unfold has
  cases hr : sp.rank <;> simp_all

theorem has_empty {sp : Span} (h : sp.rank = .empty) (v : Version) : has s sp v = false := by
  unfold has; simp [h]

theorem ordToInt_lt_zero_b (o : Ordering) : (ordToInt o < 0) ↔ o = .lt := by
  cases o <;> simp [ordToInt]

/-- `span.contains(v, true)` is interval membership (T1, in point form). -/
theorem contains_incl {sp : Span} {v : Version} (hsp : SpanOK s sp) (hv : VG s v) :
    sp.contains v true = .ok (has s sp v) := by
  by_cases hne : sp.rank = .empty
  · rw [has_empty hne]; unfold Span.contains; simp [hne]
  · obtain ⟨a, b, h1, h2, ha, hb, hab, hfl, hu, hvec⟩ := hsp.bounds hne
    rw [has_eq hne h1 h2]
    unfold Span.contains
    cases hr : sp.rank with
    | empty => exact absurd hr hne
    | unit =>
      have := hu hr; subst this
      rcases hfl with h | ⟨h3, h4⟩
      · exact absurd h (by grind)
      · simp only [h1, compareOpt, vcompare_eq ha.1 hv, ok_bind, ordToInt_beq_zero, inItv, h3, h4]
        congr 1
        apply decide_eq_decide.mpr
        rw [ord_eq_iff]
        simp
    | vector =>
      simp only [h1, h2, vcompare_eq hv ha.1, vcompare_eq hb.1 hv, ok_bind, ordToInt_beq_zero,
        ordToInt_lt_zero, inItv]
      have e1 := ord_eq_iff (s := s) v a
      have e2 := ord_eq_iff (s := s) b v
      have l1 := Pt.lt_def (pt s v) (pt s a)
      have l2 := Pt.lt_def (pt s b) (pt s v)
      simp only [pt] at e1 e2 l1 l2
      cases sp.minOpen <;> cases sp.maxOpen <;> simp <;> grind

/-- In release mode a release candidate is matched exactly as in inclusive mode. -/
theorem contains_release (sp : Span) {v : Version}
    (hr : v.isPrerelease = false) : sp.contains v false = sp.contains v true := by
  unfold Span.contains
  cases sp.rank with
  | empty => rfl
  | unit => rfl
  | vector =>
    cases sp.min <;> cases sp.max <;> simp [hr]

/-! ### `newSpan` -/

theorem wildcard_ne_zero : ((0 : Int) == wildcard) = false := by decide

theorem getNum_ne_wildcard {v : Version} (h : v.isWildcard = false) (i : Nat) :
    (v.getNum i == wildcard) = false := by
  unfold Version.getNum
  unfold Version.isWildcard at h
  rw [List.any_eq_false] at h
  by_cases hi : i < v.num.length
  · have := h v.num[i] (List.getElem_mem hi)
    simp only [List.getD_eq_getElem?_getD, List.getElem?_eq_getElem hi, Option.getD_some]
    simpa using this
  · simp only [List.getD_eq_getElem?_getD, List.getElem?_eq_none (Nat.le_of_not_lt hi), Option.getD_none]
    exact wildcard_ne_zero

/-- On a version without wildcard `setTail(wildcard, _)` changes nothing. -/
theorem setTail_clean {v : Version} (h : v.isWildcard = false) (f : Value) :
    v.setTail wildcard f = v := by
  unfold Version.setTail
  have : List.findIdx? (fun x => x == wildcard) ((List.range v.atLeast3).map v.getNum) = none := by
    rw [List.findIdx?_eq_none_iff]
    intro x hx
    rw [List.mem_map] at hx
    obtain ⟨i, _, rfl⟩ := hx
    exact getNum_ne_wildcard h i
  simp only [this]

theorem major_ne_wildcard {v : Version} (h : v.isWildcard = false) : (v.major == wildcard) = false :=
  getNum_ne_wildcard h 0

/-- `newSpan` on clean bounds, evaluated (T2). -/
theorem newSpan_eq {a b : Version} (ha : VOK s a) (hb : VOK s b) (ao bo : Bool) :
    newSpan a ao b bo =
      if (pt s a ≤ pt s b ∧ pt s b ≤ pt s a) ∧ (ao = true ∨ bo = true) then .ok Span.emptySpan
      else if pt s a ≤ pt s b ∧ pt s b ≤ pt s a then
        .ok { rank := .unit, minOpen := ao, maxOpen := bo, min := some a, max := some a }
      else if pt s a < pt s b then
        .ok { rank := .vector, minOpen := ao, maxOpen := bo, min := some a, max := some b }
      else .err := by
  obtain ⟨hga, hwa, hba⟩ := ha
  obtain ⟨hgb, hwb, hbb⟩ := hb
  have ea : ({ a with build := [] } : Version) = a := by rw [← hba]
  have eb : ({ b with build := [] } : Version) = b := by rw [← hbb]
  unfold newSpan
  simp only [major_ne_wildcard hwa, Bool.false_eq_true, ↓reduceIte, setTail_clean hwa, setTail_clean hwb,
    ea, eb, vEqual_eq hga hgb, vLess_eq hga hgb, ok_bind]
  by_cases h1 : pt s a ≤ pt s b ∧ pt s b ≤ pt s a
  · by_cases h2 : ao = true ∨ bo = true
    · simp [h1, h2]
    · have h2' : ao = false ∧ bo = false := by
        cases ao <;> cases bo <;> simp_all
      simp [h1, h2'.1, h2'.2]
  · simp only [h1, decide_false, Bool.false_and, Bool.false_eq_true, ↓reduceIte, false_and]
    by_cases h3 : pt s a < pt s b <;> simp [h3]

theorem spanOK_empty : SpanOK s Span.emptySpan := ⟨rfl, rfl⟩

theorem spanOK_unit {a : Version} (ha : VOK s a) :
    SpanOK s { rank := .unit, minOpen := false, maxOpen := false, min := some a, max := some a } :=
  ⟨a, rfl, rfl, ha, rfl, rfl⟩

theorem spanOK_vector {a b : Version} (ha : VOK s a) (hb : VOK s b) (h : pt s a < pt s b) (ao bo : Bool) :
    SpanOK s { rank := .vector, minOpen := ao, maxOpen := bo, min := some a, max := some b } :=
  ⟨a, b, rfl, rfl, ha, hb, h⟩

/-- Specification of `newSpan` on clean bounds with `min ≤ max`: it succeeds, the span is
well-formed, denotes the interval, and its bounds are among the arguments. -/
theorem newSpan_spec {a b : Version} (ha : VOK s a) (hb : VOK s b) (ao bo : Bool)
    (hle : pt s a ≤ pt s b) :
    ∃ sp, newSpan a ao b bo = .ok sp ∧ SpanOK s sp ∧
      (∀ v, has s sp v = decide (inItv (pt s a) ao (pt s b) bo (pt s v))) ∧
      (sp.min = none ∨ sp.min = some a) ∧ (sp.max = none ∨ sp.max = some a ∨ sp.max = some b) := by
  rw [newSpan_eq ha hb]
  by_cases h1 : pt s a ≤ pt s b ∧ pt s b ≤ pt s a
  · by_cases h2 : ao = true ∨ bo = true
    · refine ⟨Span.emptySpan, by simp [h1, h2], spanOK_empty, ?_, Or.inl rfl, Or.inl rfl⟩
      intro v
      rw [has_empty rfl]
      symm
      rw [decide_eq_false_iff_not]
      unfold inItv
      cases ao <;> cases bo <;> simp at h2 ⊢ <;> grind
    · have h2' : ao = false ∧ bo = false := by
        cases ao <;> cases bo <;> simp_all
      obtain ⟨rfl, rfl⟩ := h2'
      refine ⟨{ rank := .unit, minOpen := false, maxOpen := false, min := some a, max := some a },
        by simp only [h1, h2, and_false, ↓reduceIte, and_self], spanOK_unit ha, ?_,
        Or.inr rfl, Or.inr (Or.inl rfl)⟩
      intro v
      rw [has_eq (by simp) rfl rfl]
      apply decide_eq_decide.mpr
      unfold inItv
      simp only [Bool.false_eq_true, ↓reduceIte]
      grind
  · have h3 : pt s a < pt s b := by grind
    refine ⟨{ rank := .vector, minOpen := ao, maxOpen := bo, min := some a, max := some b },
      by simp only [h1, false_and, ↓reduceIte, h3], spanOK_vector ha hb h3 ao bo, ?_,
      Or.inr rfl, Or.inr (Or.inr rfl)⟩
    intro v
    rw [has_eq (by simp) rfl rfl]

end DepsDev.Proofs.C09
