import DepsDev.Proofs.C08Inv
import DepsDev.Proofs.C08Deps

/-! State invariants of the C08 model (hold in every state on the stack, hence in the
state `resolve` returns). -/
namespace DepsDev.Resolve.Pypi

/-- the requirement was among the dependencies of `par` for some extras set -/
def Vis (U : Universe) (r : Req) (par : Ver) : Prop :=
  ∃ ex deps, getDependencies U par ex = .ok deps ∧ r ∈ deps

/-- what every candidate of a criterion satisfies: it matches every recorded
requirement, in the mode the whole requirement list selects -/
def CandOK (U : Universe) (root : Ver) (c : Criterion) : Prop :=
  c.info ≠ [] ∧ ∀ x ∈ c.cands, ∀ r ∈ c.info.map (·.1),
    ∃ mvs, getMatches U root (anyPreOf U (c.info.map (·.1))) r = .ok mvs ∧ x ∈ mvs

def InfoOK (U : Universe) (n : Nat) (c : Criterion) : Prop :=
  ∀ x ∈ c.info, x.1.pkg = n ∧ Vis U x.1 x.2

structure Inv (U : Universe) (root : Ver) (S : State) : Prop where
  info : ∀ e ∈ S.criteria, InfoOK U e.1 e.2
  cand : ∀ e ∈ S.criteria, CandOK U root e.2
  rootPin : ∀ q ∈ S.mapping, q.pkg = root.pkg → q.id = root.id
  nodup : (S.mapping.map (·.pkg)).Nodup

variable {U : Universe} {root : Ver}

theorem matchingVersions_root {r : Req} {mvs : List Nat} {x : Nat} (hp : r.pkg = root.pkg)
    (h : matchingVersions U root r = .ok mvs) (hx : x ∈ mvs) : x = root.id := by
  simp only [matchingVersions] at h
  split at h
  · simp at h
  · split at h
    · simp at h
    · split at h
      · rename_i hne; exact absurd hp hne
      · split at h
        · injection h with h; subst h; simpa using hx
        · injection h with h; subst h; simp at hx

/-- candidates of the root package's criterion can only be the root version -/
theorem root_cand_eq {c : Criterion} (hi : InfoOK U root.pkg c) (hc : CandOK U root c) {x : Nat} (hx : x ∈ c.cands) :
    x = root.id := by
  obtain ⟨hne, hall⟩ := hc
  have hpk : ∀ r ∈ c.info.map (·.1), r.pkg = root.pkg := by
    intro r hr
    obtain ⟨y, hy, rfl⟩ := List.mem_map.mp hr
    exact (hi y hy).1
  cases hap : anyPreOf U (c.info.map (·.1)) with
  | false =>
    cases hinfo : c.info with
    | nil => exact absurd hinfo hne
    | cons y ys =>
      have hr : y.1 ∈ c.info.map (·.1) := by rw [hinfo]; simp
      obtain ⟨mvs, hm, hxm⟩ := hall x hx y.1 hr
      rw [hap] at hm
      simp only [getMatches] at hm
      exact matchingVersions_root (hpk _ hr) hm hxm
  | true =>
    simp only [anyPreOf, Bool.and_eq_true, List.any_eq_true] at hap
    obtain ⟨_, r, hr, hpre⟩ := hap
    obtain ⟨mvs, hm, hxm⟩ := hall x hx r hr
    have hap' : anyPreOf U (c.info.map (·.1)) = true := by
      simp only [anyPreOf, Bool.and_eq_true, List.any_eq_true]
      exact ⟨by assumption, r, hr, hpre⟩
    rw [hap'] at hm
    simp only [getMatches, matchingVersionsWithPrereleases, hpre, if_true] at hm
    exact matchingVersions_root (hpk _ hr) hm hxm

theorem getD_cases (S : State) (n : Nat) :
    ((getCrit S.criteria n).getD Criterion.empty = Criterion.empty ∧ getCrit S.criteria n = none) ∨
    ∃ c0, getCrit S.criteria n = some c0 ∧ (getCrit S.criteria n).getD Criterion.empty = c0 ∧ (n, c0) ∈ S.criteria := by
  cases h : getCrit S.criteria n with
  | none => exact Or.inl ⟨rfl, rfl⟩
  | some c0 => exact Or.inr ⟨c0, rfl, rfl, getCrit_some_mem h⟩

/-- a successful merge yields a criterion satisfying the per-criterion invariants -/
theorem merge_inv {S : State} (inv : Inv U root S) {r : Req} {par : Ver} {c : Criterion}
    (hv : Vis U r par) (h : mergeIntoCriterion U root S r par = .ok c) :
    InfoOK U r.pkg c ∧ CandOK U root c := by
  have old : InfoOK U r.pkg ((getCrit S.criteria r.pkg).getD Criterion.empty) := by
    rcases getD_cases S r.pkg with ⟨h1, _⟩ | ⟨c0, _, h1, h2⟩
    · rw [h1]; intro x hx; simp [Criterion.empty] at hx
    · rw [h1]; exact inv.info _ h2
  rcases merge_ok h with ⟨h1, r', hr', _⟩ | ⟨h1, _, _, h4, _⟩
  · rw [h1]
    refine ⟨old, ?_⟩
    rcases getD_cases S r.pkg with ⟨h2, _⟩ | ⟨c0, _, h2, h3⟩
    · rw [h2] at hr'; simp [Criterion.empty] at hr'
    · rw [h2]; exact inv.cand _ h3
  · constructor
    · intro x hx
      rw [h1] at hx
      rcases List.mem_append.mp hx with e | e
      · exact old x e
      · simp at e; subst e; exact ⟨rfl, hv⟩
    · refine ⟨by rw [h1]; simp, ?_⟩
      intro x hx r2 hr2
      have hmap : c.info.map (·.1) = ((getCrit S.criteria r.pkg).getD Criterion.empty).info.map (·.1) ++ [r] := by
        rw [h1]; simp
      rw [hmap] at hr2 ⊢
      exact (findMatches_sub h4 x hx).1 r2 hr2

theorem shrunk_inv {n : Nat} {c c' : Criterion} (hs : Shrunk c c') (hi : InfoOK U n c) (hc : CandOK U root c) :
    InfoOK U n c' ∧ CandOK U root c' := by
  obtain ⟨h1, _, h3⟩ := hs
  constructor
  · intro x hx; rw [h1] at hx; exact hi x hx
  · refine ⟨by rw [h1]; exact hc.1, ?_⟩
    intro x hx r hr
    rw [h1] at hr ⊢
    exact hc.2 x (h3 x hx) r hr

theorem upd_entries {S : State} {cand : Ver} {ex : List Nat} {upd : List (Nat × Criterion)}
    (h : getCriteriaToUpdate U root S cand ex = .ok upd) :
    ∃ deps, getDependencies U cand ex = .ok deps ∧
      (∀ e ∈ upd, ∃ d ∈ deps, e.1 = d.pkg ∧ mergeIntoCriterion U root S d cand = .ok e.2) ∧
      (∀ d ∈ deps, ∃ c, (d.pkg, c) ∈ upd) := by
  simp only [getCriteriaToUpdate] at h
  split at h <;> try (simp at h)
  rename_i deps hd
  obtain ⟨h1, h2, _⟩ := mergeDeps_spec deps [] upd h
  refine ⟨deps, hd, ?_, h2⟩
  intro e he
  rcases h1 e he with h3 | h3
  · simp at h3
  · exact h3

theorem inv_step (direct : List Req) (hdirect : getDependencies U root [] = .ok direct) :
    StepInv U root direct (Inv U root) where
  init := ⟨by simp, by simp, by simp, by simp⟩
  merge0 := by
    intro S r c inv hr hm
    obtain ⟨h1, h2⟩ := merge_inv inv ⟨[], direct, hdirect, hr⟩ hm
    refine ⟨?_, ?_, inv.rootPin, inv.nodup⟩
    · intro e he
      rcases mem_putCrit he with h3 | h3
      · exact inv.info e h3
      · rw [h3]; exact h1
    · intro e he
      rcases mem_putCrit he with h3 | h3
      · exact inv.cand e h3
      · rw [h3]; exact h2
  pin := by
    intro S name cand upd inv hcand hupd
    obtain ⟨deps, hdeps, hent, _⟩ := upd_entries hupd
    have hmerged : ∀ e ∈ upd, InfoOK U e.1 e.2 ∧ CandOK U root e.2 := by
      intro e he
      obtain ⟨d, hd, h1, h2⟩ := hent e he
      rw [h1]
      exact merge_inv inv ⟨_, deps, hdeps, hd⟩ h2
    refine ⟨?_, ?_, ?_, setPin_nodup inv.nodup⟩
    · intro e he
      rcases mem_putAll he with h3 | h3
      · exact inv.info e h3
      · exact (hmerged e h3).1
    · intro e he
      rcases mem_putAll he with h3 | h3
      · exact inv.cand e h3
      · exact (hmerged e h3).2
    · intro q hq hroot
      rcases mem_setPin hq with h3 | h3
      · subst h3
        simp only at hroot ⊢
        rcases getD_cases S name with ⟨h4, _⟩ | ⟨c0, _, h4, h5⟩
        · rw [h4] at hcand; simp [Criterion.empty] at hcand
        · rw [h4] at hcand
          have hi := inv.info _ h5
          have hc := inv.cand _ h5
          simp only at hi hc
          rw [hroot] at hi
          exact root_cand_eq hi hc hcand
      · exact inv.rootPin q h3.1 hroot
  patch := by
    intro prev incs cs inv hp
    obtain ⟨h1, _, _⟩ := patchCriteria_spec incs _ _ hp
    refine ⟨?_, ?_, inv.rootPin, inv.nodup⟩
    · intro e he
      obtain ⟨c, hc, hs⟩ := h1 e he
      exact (shrunk_inv hs (inv.info _ hc) (inv.cand _ hc)).1
    · intro e he
      obtain ⟨c, hc, hs⟩ := h1 e he
      exact (shrunk_inv hs (inv.info _ hc) (inv.cand _ hc)).2

end DepsDev.Resolve.Pypi
