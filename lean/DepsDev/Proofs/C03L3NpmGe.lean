import DepsDev.Proofs.C03L3Npm

/-!
# C03 layer L3 for npm, operator `ge`: one comparator, prerelease candidates

See `C03L3Npm` for the statement (`L3Npm`) and the proof script.
-/
namespace DepsDev.Proofs.C03

open DepsDev DepsDev.Semver DepsDev.Ref

set_option linter.unusedSimpArgs false
set_option linter.unusedVariables false

theorem l3_full_ge : L3Full .ge := by l3_full
theorem l3_pre_lt_ge : L3PreO .ge .lt := by l3_pre
theorem l3_pre_eq_ge : L3PreO .ge .eq := by l3_pre
theorem l3_pre_gt_ge : L3PreO .ge .gt := by l3_pre
theorem l3_part_ge : L3Part .ge := by l3_part

theorem l3_npm_ge : L3Npm .ge :=
  l3_assemble _ l3_full_ge (l3_pre_assemble _ l3_pre_lt_ge l3_pre_eq_ge l3_pre_gt_ge) l3_part_ge

end DepsDev.Proofs.C03
