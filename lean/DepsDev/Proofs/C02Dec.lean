import DepsDev.Proofs.C02Embed
import DepsDev.Proofs.Cmp

/-!
# C02 — decimal rendering `Ref.dec` against the model's digit readers

`dec n` is a non-empty string of digits without a leading zero whose value
(`digitsVal`) is `n`; hence `parseIntBits`, `isNumeric`, `allDigits`,
`parseUint64Lossy` read it back exactly (inside their ranges).
-/
namespace DepsDev.Proofs.C02

open DepsDev DepsDev.Semver DepsDev.Ref

theorem digit_spec {d : Nat} (h : d < 10) :
    isDigitB (digit d) = true ∧ (digit d).toNat - 48 = d ∧ (digit d = 48 ↔ d = 0) := by
  have : d = 0 ∨ d = 1 ∨ d = 2 ∨ d = 3 ∨ d = 4 ∨ d = 5 ∨ d = 6 ∨ d = 7 ∨ d = 8 ∨ d = 9 := by omega
  rcases this with h | h | h | h | h | h | h | h | h | h <;> subst h <;> decide

theorem decF_irrel : ∀ (f g n : Nat), n < f → n < g → decF f n = decF g n := by
  intro f
  induction f with
  | zero => intro g n h; omega
  | succ f ih =>
    intro g n hf hg
    cases g with
    | zero => omega
    | succ g =>
      simp only [decF]
      split
      · rfl
      · rename_i h10
        have h1 : n / 10 < f := by omega
        have h2 : n / 10 < g := by omega
        rw [ih g (n / 10) h1 h2]

/-- The defining recursion of `dec`. -/
theorem dec_eq (n : Nat) : dec n = if n < 10 then [digit n] else dec (n / 10) ++ [digit (n % 10)] := by
  unfold dec
  rw [decF]
  split
  · rfl
  · rename_i h10
    rw [decF_irrel n (n / 10 + 1) (n / 10) (by omega) (by omega)]

theorem digitsVal_append (xs : Bytes) (c : UInt8) :
    digitsVal (xs ++ [c]) = digitsVal xs * 10 + (c.toNat - 48) := by
  simp [digitsVal, List.foldl_append]

theorem dec_ne_nil (n : Nat) : dec n ≠ [] := by
  rw [dec_eq]; split <;> simp

theorem dec_all_digits (n : Nat) : (dec n).all isDigitB = true := by
  induction n using Nat.strongRecOn with
  | _ n ih =>
    rw [dec_eq]
    split
    · rename_i h; simp [(digit_spec h).1]
    · rename_i h
      have := ih (n / 10) (by omega)
      simp [List.all_append, this, (digit_spec (Nat.mod_lt n (by omega : 10 > 0))).1]

theorem digitsVal_dec (n : Nat) : digitsVal (dec n) = n := by
  induction n using Nat.strongRecOn with
  | _ n ih =>
    rw [dec_eq]
    split
    · rename_i h
      simp [digitsVal, (digit_spec h).2.1]
    · rename_i h
      rw [digitsVal_append, ih (n / 10) (by omega), (digit_spec (Nat.mod_lt n (by omega : 10 > 0))).2.1]
      omega

/-- The first digit is not `0` unless the number is `0` (then the string is `"0"`). -/
theorem dec_head (n : Nat) : ∃ c r, dec n = c :: r ∧ isDigitB c = true ∧ (c = 48 → n = 0 ∧ r = []) := by
  induction n using Nat.strongRecOn with
  | _ n ih =>
    rw [dec_eq]
    split
    · rename_i h
      exact ⟨digit n, [], rfl, (digit_spec h).1, fun e => ⟨(digit_spec h).2.2.mp e, rfl⟩⟩
    · rename_i h
      obtain ⟨c, r, hc, hd, hz⟩ := ih (n / 10) (by omega)
      refine ⟨c, r ++ [digit (n % 10)], by rw [hc]; rfl, hd, ?_⟩
      intro e
      have := (hz e).1
      omega

theorem dec_zero : dec 0 = [48] := by rw [dec_eq]; rfl

theorem dec_injective {n m : Nat} (h : dec n = dec m) : n = m := by
  rw [← digitsVal_dec n, ← digitsVal_dec m, h]

/-- `strconv.ParseInt(dec n, 10, bits)`. -/
theorem parseIntBits_dec (n bits : Nat) (h : n < 2 ^ (bits - 1)) : parseIntBits (dec n) bits = some (n : Int) := by
  obtain ⟨c, r, hc, hd, _⟩ := dec_head n
  have hall := dec_all_digits n
  have hval := digitsVal_dec n
  unfold parseIntBits
  rw [hc] at hall hval ⊢
  have h43 : c ≠ 43 := by intro e; subst e; revert hd; decide
  have h45 : c ≠ 45 := by intro e; subst e; revert hd; decide
  have hne : (c :: r).isEmpty = false := rfl
  have hlo : ¬ ((n : Int) < -(2 ^ (bits - 1) : Int)) := by
    have : (0 : Int) ≤ (2 ^ (bits - 1) : Int) := by
      have := Nat.zero_le (2 ^ (bits - 1)); exact_mod_cast this
    omega
  have hhi : ¬ ((n : Int) > (2 ^ (bits - 1) : Int) - 1) := by
    have : ((n : Nat) : Int) < ((2 ^ (bits - 1) : Nat) : Int) := by exact_mod_cast h
    have e : ((2 ^ (bits - 1) : Nat) : Int) = (2 ^ (bits - 1) : Int) := by norm_cast
    omega
  split
  rename_i x neg ds heq
  split at heq
  · rename_i heq'; injection heq' with h1 _; exact absurd h1 h43
  · rename_i heq'; injection heq' with h1 _; exact absurd h1 h45
  · injection heq with e1 e2
    subst e1 e2
    simp [hne, hall, hval, hlo, hhi]

end DepsDev.Proofs.C02
