import DepsDev.Model.Resolve.PypiHyp

/-! Witness universes of the three C08 findings, exactly as the driver decodes the op
lines recorded in `props/C08.known.json` (driver op `dump`). -/
namespace DepsDev.Resolve.Pypi.Witness

def plain (pkg spec ty : Nat) (nonEmpty : Bool := false) : Req :=
  { pkg := pkg, spec := spec, ty := ty, nonEmpty := nonEmpty, hasEqEq := false, extras := [], marker := .none }

/-- F-C08-extras. packages a=0 b=1 c=2 root=3; extra x=0.
root 1.0: a, b · a 1.0: c ; extra == "x" · b 1.0: a[x] · c 1.0 -/
def extrasReqC : Req :=
  { pkg := 2, spec := 2, ty := 0, nonEmpty := false, hasEqEq := false, extras := [], marker := .table [.f, .t] }

def extrasReqA : Req :=
  { pkg := 0, spec := 0, ty := 1, nonEmpty := false, hasEqEq := false, extras := [0], marker := .none }

def extrasU : Universe :=
  { pkgs := [
      { delay := false, exts := [0], vers := [[extrasReqC]] },
      { delay := false, exts := [], vers := [[extrasReqA]] },
      { delay := false, exts := [], vers := [[]] },
      { delay := false, exts := [], vers := [[plain 0 0 2, plain 1 1 2]] }],
    rows := [⟨false, some [0], some [0]⟩, ⟨false, some [0], some [0]⟩, ⟨false, some [0], some [0]⟩] }

def extrasRoot : Ver := ⟨3, 0⟩

/-- F-C08-route. packages B=0 X=1 Y=2 root=3.
root 1.0: B · B 1.0: X · B 2.0: X · X 1.0: Y · Y 1.0: X, B<2.0 -/
def routeReqY : Req := plain 2 3 0

def routeU : Universe :=
  { pkgs := [
      { delay := false, exts := [], vers := [[plain 1 2 0], [plain 1 2 0]] },
      { delay := false, exts := [], vers := [[routeReqY]] },
      { delay := false, exts := [], vers := [[plain 1 2 0, plain 0 1 0 true]] },
      { delay := false, exts := [], vers := [[plain 0 0 0]] }],
    rows := [⟨false, some [0, 1], some [0, 1]⟩, ⟨false, some [0], some [0]⟩, ⟨false, some [0], some [0]⟩,
             ⟨false, some [0], some [0]⟩] }

def routeRoot : Ver := ⟨3, 0⟩

/-- F-C08-stale. packages b=0 g=1 root=2 z=3.
root 1.0: b · b 1.0: z>=1.0 · b 2.0: g · g 1.0: z<=2.0a1, b<2.0 · z 1.0, 2.0a1 -/
def staleU : Universe :=
  { pkgs := [
      { delay := false, exts := [], vers := [[plain 3 4 0 true], [plain 1 2 0]] },
      { delay := false, exts := [], vers := [[plain 3 3 0 true, plain 0 1 0 true]] },
      { delay := false, exts := [], vers := [[plain 0 0 0]] },
      { delay := false, exts := [], vers := [[], []] }],
    rows := [⟨false, some [0, 1], some [0, 1]⟩, ⟨false, some [0], some [0]⟩, ⟨false, some [0], some [0]⟩,
             ⟨true, some [0, 1], some [0, 1]⟩, ⟨false, some [0], some [0, 1]⟩] }

def staleRoot : Ver := ⟨2, 0⟩

end DepsDev.Resolve.Pypi.Witness
