import DepsDev.Proofs.C04bCore

/-!
# C04 (extension) — `newSpan`, `opVersionToSpan`, `excludeToSpans` never panic

Every version operation used by the span constructors keeps a version in `VK s` (none of them
touches `sys`; only `clearPre`/`rebuildExtension`/`minVersion` touch the extension, and they keep
its kind). `(*Version).inc` never indexes out of range, whatever the version (`inc_okp`): each
`incN(n)` is guarded by the `len(v.num)` switch or by the position of the first wildcard.
`SpOK s sp`: the span is the empty span or has both bounds, of kind `VK s`.
`opVersionToSpan` is restated with its closures and `switch` cases named (`opSpan`, equal by `rfl`).
The `hi.setNum(len(hi.num)-1, …)` site of the `~>` case needs a version with at least one number.
-/
namespace DepsDev.Proofs.C04b
open DepsDev DepsDev.Semver DepsDev.Proofs

theorem vk_of_eq {s : System} {v w : Version} (h : VK s v) (hs : w.sys = v.sys) (he : w.ext = v.ext) : VK s w :=
  ⟨hs.trans h.sys, by rw [he]; exact h.ext⟩

theorem setTail_sys (v : Version) (m f : Value) : (v.setTail m f).sys = v.sys := by
  unfold Version.setTail; simp only; split <;> rfl
theorem setTail_ext (v : Version) (m f : Value) : (v.setTail m f).ext = v.ext := by
  unfold Version.setTail; simp only; split <;> rfl
theorem fill_sys (v : Version) (f : Value) : (v.fill f).sys = v.sys := by
  unfold Version.fill; split <;> rfl
theorem fill_ext (v : Version) (f : Value) : (v.fill f).ext = v.ext := by
  unfold Version.fill; split <;> rfl

theorem vk_setTail {s : System} {v : Version} (h : VK s v) (m f : Value) : VK s (v.setTail m f) :=
  vk_of_eq h (setTail_sys v m f) (setTail_ext v m f)
theorem vk_fill {s : System} {v : Version} (h : VK s v) (f : Value) : VK s (v.fill f) :=
  vk_of_eq h (fill_sys v f) (fill_ext v f)
theorem vk_setNum {s : System} {v : Version} (h : VK s v) (i : Nat) (x : Value) : VK s (v.setNum i x) :=
  vk_of_eq h rfl rfl
theorem vk_setMajor {s : System} {v : Version} (h : VK s v) (x : Value) : VK s (v.setMajor x) := vk_setNum h 0 x
theorem vk_setMinor {s : System} {v : Version} (h : VK s v) (x : Value) : VK s (v.setMinor x) := vk_setNum h 1 x
theorem vk_setPatch {s : System} {v : Version} (h : VK s v) (x : Value) : VK s (v.setPatch x) := vk_setNum h 2 x
theorem vk_setInfAll {s : System} {v : Version} (h : VK s v) : VK s (setInfAll v) := vk_of_eq h rfl rfl
theorem vk_build {s : System} {v : Version} (h : VK s v) (b : Bytes) : VK s { v with build := b } := vk_of_eq h rfl rfl
theorem vk_num {s : System} {v : Version} (h : VK s v) (n : List Value) : VK s { v with num := n } := vk_of_eq h rfl rfl
theorem vk_numBuild {s : System} {v : Version} (h : VK s v) (n : List Value) (b : Bytes) :
    VK s { v with num := n, build := b } := vk_of_eq h rfl rfl
theorem vk_pre {s : System} {v : Version} (h : VK s v) (p : List Bytes) : VK s { v with pre := p } := vk_of_eq h rfl rfl

theorem vk_clearPre {s : System} {v : Version} (h : VK s v) : VK s v.clearPre := by
  refine ⟨h.sys, ?_⟩
  have he := h.ext
  unfold Version.clearPre
  simp only
  cases hx : v.ext <;> rw [hx] at he
  · trivial
  · exact he
  · rename_i o; cases o <;> exact he
  · exact he

theorem vk_const (s : System) (n : List Value) : VK s { sys := s, num := n } := ⟨rfl, trivial⟩

theorem vk_minVersion {s : System} {v : Version} (h : v.sys = s) : VK s (minVersion s v) := by
  cases s
  case maven => exact ⟨rfl, rfl, by decide +kernel⟩
  case pypi => exact ⟨rfl, rfl⟩
  case rubygems => exact ⟨rfl, rfl⟩
  all_goals exact ⟨h, trivial⟩

theorem incN_okp {s : System} {v : Version} (h : VK s v) (n : Nat) (hn : n < v.num.length) :
    OKP (fun w => VK s w ∧ w.num.length = v.num.length) (v.incN n) := by
  unfold Version.incN
  rw [List.getElem?_eq_getElem hn]
  refine okp_ok ⟨vk_setNum h _ _, ?_⟩
  unfold Version.setNum
  simp only [List.length_set]
  split
  · omega
  · rfl

/-- `(*Version).inc` never indexes out of range. -/
theorem inc_okp {s : System} {v : Version} (h : VK s v) : OKP (VK s) v.inc := by
  unfold Version.inc
  split
  · exact okp_err
  · split
    · exact okp_err
    · rename_i hl
      split
      · exact okp_ok (vk_setPatch (vk_setMinor (vk_setMajor h _) _) _)
      · exact okp_mono (incN_okp h 0 (by omega)) (fun _ h => h.1)
    · rename_i hl
      split
      · refine okp_bind (incN_okp h 0 (by omega)) ?_
        intro w hw
        exact okp_ok (vk_setPatch (vk_setMinor hw.1 _) _)
      · exact okp_mono (incN_okp h 1 (by omega)) (fun _ h => h.1)
    · rename_i n h0 h1 h2
      have hge : 3 ≤ v.num.length := by
        have a0 : v.num.length ≠ 0 := h0
        have a1 : v.num.length ≠ 1 := h1
        have a2 : v.num.length ≠ 2 := h2
        omega
      split
      · exact okp_mono (incN_okp h (v.num.length - 1) (by omega)) (fun _ h => h.1)
      · exact okp_ok h
      · rename_i w hw hfind
        have hlt : w < v.num.length := (List.findIdx?_eq_some_iff_getElem.mp hfind).1
        refine okp_bind (incN_okp h (w - 1) (by omega)) ?_
        intro u hu
        exact okp_ok (vk_num hu.1 _)

theorem rebuild_okp {s : System} {v : Version} (h : VK s v) : OKP (VK s) v.rebuildExtension := by
  unfold Version.rebuildExtension
  split
  · exact okp_ok h
  · split
    · exact okp_ok h
    · simp only
      split
      · rename_i hsys
        have hnp := mavenInit_noPanic (canon v true)
        split
        · rename_i els q hm
          refine okp_ok ⟨h.sys, ?_⟩
          exact ⟨h.sys.symm.trans hsys, mavenInit_noSepStart _ els q hm⟩
        · exact okp_err
        · rename_i hp; exact absurd hp hnp
      · rename_i hsys
        unfold pepReinit
        refine okp_bind (P := fun r => r.sys = v.sys ∧ ∃ e, r.ext = .pep e) ?_ ?_
        · refine okp_intro (pepInit_noPanic _ _) ?_
          intro r hr
          unfold pepInit at hr
          split at hr
          · injection hr with hr; subst hr; exact ⟨rfl, _, rfl⟩
          · cases hr
          · cases hr
        · intro r ⟨h1, e, h2⟩
          refine okp_ok ⟨h1.trans h.sys, ?_⟩
          show ExtOK s r.ext
          rw [h2]
          exact h.sys.symm.trans hsys
      · rename_i hsys
        have hnp := gemInit_noPanic (canon v true)
        split
        · refine okp_ok ⟨h.sys, ?_⟩
          exact h.sys.symm.trans hsys
        · exact okp_err
        · rename_i hp; exact absurd hp hnp
      · exact okp_ok ⟨h.sys, trivial⟩

/-- The spans inside the constraint machinery: the empty span, or bounds of the system's kind. -/
def SpOK (s : System) (sp : Span) : Prop :=
  sp = Span.emptySpan ∨ (sp.rank ≠ .empty ∧ ∃ a b, sp.min = some a ∧ sp.max = some b ∧ VK s a ∧ VK s b)

theorem spOK_empty (s : System) : SpOK s Span.emptySpan := Or.inl rfl

theorem spOK_mk {s : System} {a b : Version} (r : Rank) (hr : r ≠ .empty) (ao bo : Bool) (ha : VK s a) (hb : VK s b) :
    SpOK s { rank := r, minOpen := ao, maxOpen := bo, min := some a, max := some b } :=
  Or.inr ⟨hr, a, b, rfl, rfl, ha, hb⟩

/-- `newSpan` on two versions of the system's kind: no panic, a well-formed span, and not the
empty span when both ends are closed. -/
theorem newSpan_okp {s : System} {a b : Version} (ha : VK s a) (hb : VK s b) (ao bo : Bool) :
    OKP (fun sp => SpOK s sp ∧ (ao = false → bo = false → sp.rank ≠ .empty)) (newSpan a ao b bo) := by
  unfold newSpan
  have hmin : VK s (if a.major == wildcard then minVersion a.sys a else a.setTail wildcard 0) := by
    split
    · rw [ha.sys]; exact vk_minVersion ha.sys
    · exact vk_setTail ha _ _
  have hmax : VK s (b.setTail wildcard infinity) := vk_setTail hb _ _
  generalize (if a.major == wildcard then minVersion a.sys a else a.setTail wildcard 0) = mn at hmin ⊢
  generalize b.setTail wildcard infinity = mx at hmax ⊢
  have hmn' : VK s { mn with build := [] } := vk_build hmin []
  have hmx' : VK s { mx with build := [] } := vk_build hmax []
  refine okp_bind (vEqual_okp hmn' hmx') ?_
  intro eq _
  split
  · rename_i hc
    refine okp_ok ⟨spOK_empty s, ?_⟩
    intro h1 h2; subst h1 h2; simp at hc
  · split
    · exact okp_ok ⟨spOK_mk .unit (by decide) ao bo hmn' hmn', fun _ _ => by intro h; cases h⟩
    · refine okp_bind (vLess_okp hmn' hmx') ?_
      intro lt _
      split
      · exact okp_ok ⟨spOK_mk .vector (by decide) ao bo hmn' hmx', fun _ _ => by intro h; cases h⟩
      · exact okp_err

theorem newSpan_spok {s : System} {a b : Version} (ha : VK s a) (hb : VK s b) (ao bo : Bool) :
    OKP (SpOK s) (newSpan a ao b bo) := okp_mono (newSpan_okp ha hb ao bo) (fun _ h => h.1)

/-- The aliased call `newSpan(min, false, min, false)` of `setRange`. -/
theorem newSpanAliased_spok {s : System} {a : Version} (ha : VK s a) : OKP (SpOK s) (newSpanAliased a) := by
  unfold newSpanAliased
  split
  · exact newSpan_spok ha ha false false
  · exact newSpan_spok (vk_setTail ha _ _) (vk_setTail ha _ _) false false

/-! ## `opVersionToSpan`, restated with its closures and `switch` cases named -/

/-- The `fin` closure of `opVersionToSpan`. -/
def opFin (lo hi : Version) (minOpen maxOpen : Bool) : Outcome Span := do
  let lo := lo.setTail infinity infinity
  let hi := hi.setTail infinity infinity
  if lo.sys == .maven || lo.sys == .rubygems || lo.sys == .pypi then
    let lo ← lo.rebuildExtension
    let hi ← hi.rebuildExtension
    newSpan lo minOpen hi maxOpen
  else newSpan lo minOpen hi maxOpen

/-- The body of `case tokGreaterEqual` of `opVersionToSpan`. -/
def opGe (lo hi : Version) (minOpen : Bool) : Outcome Span := do
  let (lo, wc) : Version × Bool :=
    if lo.sys == .nuget && !lo.pre.isEmpty then
      match lo.pre.getLast? with
      | some p =>
        let (p, wc) := if p.getLast? == some 42 then (p.dropLast, true) else (p, false)
        let p := if p.isEmpty then [48] else p
        ({ lo with pre := lo.pre.dropLast ++ [p] }, wc)
      | none => (lo, false)
    else (lo, false)
  let hi := (setInfAll hi).clearPre
  if lo.sys == .nuget && (lo.isWildcard || wc) then newSpan lo false hi true
  else opFin lo { hi with build := [] } minOpen false

def opEq (lo : Version) : Outcome Span :=
  let hi := match lo.num.length with
    | 1 => (lo.setMinor infinity).setPatch infinity
    | 2 => lo.setPatch infinity
    | _ => lo
  newSpan lo false hi false

def opGt (lo : Version) : Outcome Span :=
  if lo.allEq wildcard then .ok Span.emptySpan else
  if !lo.pre.isEmpty || lo.sys == .rubygems || lo.sys == .pypi then
    opGe { lo with build := [] } lo true
  else do
    let lo' ← lo.inc
    opGe { lo' with build := [] } lo false

def opLt (lo : Version) : Outcome Span :=
  if lo.allEq wildcard || lo.allEq 0 then .ok Span.emptySpan else
  let hi := { lo with num := lo.num.map (fun x => if x == wildcard then 0 else x), build := [] }
  opFin (minVersion lo.sys lo) hi false true

def opLe (lo : Version) : Outcome Span :=
  let hi := match lo.num.length with
    | 1 => (lo.setMinor infinity).setPatch infinity
    | 2 => lo.setPatch infinity
    | _ => lo
  opFin (minVersion lo.sys lo) hi false false

def opCaret (lo : Version) : Outcome Span :=
  if lo.num.length == 2 && lo.major == 0 && lo.minor == 0 then
    newSpan lo false (lo.setPatch infinity).clearPre false
  else if lo.major == 0 && lo.num.length ≥ 2 then
    let hi := if lo.minor != 0 then lo.setPatch infinity else lo
    newSpan lo false hi.clearPre false
  else if lo.major == wildcard then
    let hi := (((lo.setMajor infinity).setMinor infinity).setPatch infinity).clearPre
    newSpan (minVersion lo.sys lo) false hi false
  else
    newSpan lo false ((lo.setMinor infinity).setPatch infinity).clearPre false

def opTilde (lo : Version) : Outcome Span :=
  let hi :=
    if lo.major == 0 && lo.num.length ≥ 2 then lo.setPatch infinity
    else match lo.num.length with
      | 1 => (lo.setMinor infinity).setPatch infinity
      | 2 => lo.setPatch infinity
      | 3 => lo.setPatch infinity
      | _ => lo
  opFin lo hi false false

def opBacon (lo : Version) : Outcome Span :=
  let n : Int := if lo.sys == .rubygems || lo.sys == .pypi then lo.userNumCount else lo.num.length
  if n == 0 then .err
  else if n == 1 then
    if lo.sys == .pypi then .err else opFin lo ((lo.setMinor infinity).setPatch infinity) false false
  else if n == 2 then
    if lo.major != infinity then newSpan lo false ((lo.setMinor infinity).setPatch infinity) false
    else opFin lo ((lo.setMinor infinity).setPatch infinity) false false
  else if n == 3 then opFin lo (lo.setPatch infinity) false false
  else
    if lo.num.isEmpty then .panic else opFin lo (lo.setNum (lo.num.length - 1) infinity) false false

/-- `opVersionToSpan` with its closures and its `switch` cases named. -/
def opSpan (typ : Nat) (lo : Version) : Outcome Span :=
  let lo := if lo.isWildcard && lo.sys != .nuget then lo.clearPre else lo
  if lo.sys != .cargo && lo.num.length < 3 && !lo.pre.isEmpty then .err else
  if (typ == tokEmpty || typ == tokEqual) && lo.num.length ≥ 3 && lo.allNumbers then
    newSpan lo false lo false
  else if typ == tokEmpty || typ == tokEqual then opEq lo
  else if typ == tokGreater then opGt lo
  else if typ == tokGreaterEqual then opGe lo lo false
  else if typ == tokLess then opLt lo
  else if typ == tokLessEqual then opLe lo
  else if typ == tokCaret then opCaret lo
  else if typ == tokTilde then opTilde lo
  else if typ == tokBacon then opBacon lo
  else .err

theorem opVersionToSpan_eq (typ : Nat) (lo : Version) : opVersionToSpan typ lo = opSpan typ lo := rfl

/-- Closes `VK` goals built from the operations of `opVersionToSpan`. -/
macro "vk" : tactic => `(tactic|
  repeat (first
    | assumption
    | apply vk_clearPre
    | apply vk_setInfAll
    | apply vk_setPatch
    | apply vk_setMinor
    | apply vk_setMajor
    | apply vk_setNum
    | apply vk_numBuild
    | apply vk_build
    | apply vk_pre))

theorem opFin_okp {s : System} {lo hi : Version} (hl : VK s lo) (hh : VK s hi) (a b : Bool) :
    OKP (SpOK s) (opFin lo hi a b) := by
  unfold opFin
  have h1 : VK s (lo.setTail infinity infinity) := vk_setTail hl _ _
  have h2 : VK s (hi.setTail infinity infinity) := vk_setTail hh _ _
  simp only
  split
  · refine okp_bind (rebuild_okp h1) ?_
    intro lo' hlo'
    refine okp_bind (rebuild_okp h2) ?_
    intro hi' hhi'
    exact newSpan_spok hlo' hhi' a b
  · exact newSpan_spok h1 h2 a b

theorem opGe_okp {s : System} {lo hi : Version} (hl : VK s lo) (hh : VK s hi) (a : Bool) :
    OKP (SpOK s) (opGe lo hi a) := by
  unfold opGe
  have hlo : VK s (if lo.sys == .nuget && !lo.pre.isEmpty then
      match lo.pre.getLast? with
      | some p =>
        let (p, wc) := if p.getLast? == some 42 then (p.dropLast, true) else (p, false)
        let p := if p.isEmpty then [48] else p
        (({ lo with pre := lo.pre.dropLast ++ [p] }, wc) : Version × Bool)
      | none => (lo, false)
    else (lo, false)).1 := by
    split
    · split
      · exact vk_pre hl _
      · exact hl
    · exact hl
  generalize (if lo.sys == .nuget && !lo.pre.isEmpty then
      match lo.pre.getLast? with
      | some p =>
        let (p, wc) := if p.getLast? == some 42 then (p.dropLast, true) else (p, false)
        let p := if p.isEmpty then [48] else p
        (({ lo with pre := lo.pre.dropLast ++ [p] }, wc) : Version × Bool)
      | none => (lo, false)
    else (lo, false)) = pr at hlo ⊢
  obtain ⟨lo', wc⟩ := pr
  simp only at hlo ⊢
  have hhi : VK s (setInfAll hi).clearPre := vk_clearPre (vk_setInfAll hh)
  split
  · exact newSpan_spok hlo hhi _ _
  · exact opFin_okp hlo (vk_build hhi []) _ _

theorem opEq_okp {s : System} {lo : Version} (hlo : VK s lo) :
    OKP (fun sp => SpOK s sp ∧ sp.rank ≠ .empty) (opEq lo) := by
  unfold opEq
  refine okp_mono (newSpan_okp hlo ?_ false false) (fun _ h => ⟨h.1, h.2 rfl rfl⟩)
  split <;> vk

theorem opGt_okp {s : System} {lo : Version} (hlo : VK s lo) : OKP (SpOK s) (opGt lo) := by
  unfold opGt
  split
  · exact okp_ok (spOK_empty s)
  · split
    · exact opGe_okp (vk_build hlo []) hlo _
    · refine okp_bind (inc_okp hlo) ?_
      intro lo' hlo'
      exact opGe_okp (vk_build hlo' []) hlo _

theorem opLt_okp {s : System} {lo : Version} (hlo : VK s lo) : OKP (SpOK s) (opLt lo) := by
  unfold opLt
  split
  · exact okp_ok (spOK_empty s)
  · exact opFin_okp (by rw [hlo.sys]; exact vk_minVersion hlo.sys) (vk_numBuild hlo _ _) _ _

theorem opLe_okp {s : System} {lo : Version} (hlo : VK s lo) : OKP (SpOK s) (opLe lo) := by
  unfold opLe
  apply opFin_okp (by rw [hlo.sys]; exact vk_minVersion hlo.sys)
  split <;> vk

theorem opCaret_okp {s : System} {lo : Version} (hlo : VK s lo) : OKP (SpOK s) (opCaret lo) := by
  unfold opCaret
  have hm : VK s (minVersion lo.sys lo) := by rw [hlo.sys]; exact vk_minVersion hlo.sys
  split
  · apply newSpan_spok hlo; vk
  · split
    · apply newSpan_spok hlo
      apply vk_clearPre
      split <;> vk
    · split
      · apply newSpan_spok hm; vk
      · apply newSpan_spok hlo; vk

theorem opTilde_okp {s : System} {lo : Version} (hlo : VK s lo) : OKP (SpOK s) (opTilde lo) := by
  unfold opTilde
  apply opFin_okp hlo
  split
  · vk
  · split <;> vk

theorem opBacon_okp {s : System} {lo : Version} (hlo : VK s lo)
    (hnum : (lo.sys = .rubygems ∨ lo.sys = .pypi) → lo.num ≠ []) : OKP (SpOK s) (opBacon lo) := by
  unfold opBacon
  simp only
  have hn : (if (lo.sys == System.rubygems || lo.sys == System.pypi) = true then lo.userNumCount else (lo.num.length : Int)) ≠ 0 →
      lo.num ≠ [] := by
    split
    · rename_i hc
      intro _
      apply hnum
      simpa using hc
    · intro h e
      rw [e] at h
      exact h rfl
  generalize (if (lo.sys == System.rubygems || lo.sys == System.pypi) = true then lo.userNumCount else (lo.num.length : Int)) = n at hn ⊢
  split
  · exact okp_err
  · rename_i hn0
    split
    · split
      · exact okp_err
      · apply opFin_okp hlo; vk
    · split
      · split
        · apply newSpan_spok hlo; vk
        · apply opFin_okp hlo; vk
      · split
        · apply opFin_okp hlo; vk
        · split
          · rename_i hemp
            exfalso
            have : n ≠ 0 := by simpa using hn0
            exact hn this (by simpa using hemp)
          · apply opFin_okp hlo; vk

theorem opSpan_okp {s : System} (typ : Nat) {lo0 : Version} (h0 : VK s lo0)
    (hnum : typ = tokBacon → (lo0.sys = .rubygems ∨ lo0.sys = .pypi) → lo0.num ≠ []) :
    OKP (fun sp => SpOK s sp ∧ (typ = tokEmpty → sp.rank ≠ .empty)) (opSpan typ lo0) := by
  unfold opSpan
  have hlo : VK s (if lo0.isWildcard && lo0.sys != .nuget then lo0.clearPre else lo0) := by
    split
    · exact vk_clearPre h0
    · exact h0
  have hnum' : typ = tokBacon → ((if lo0.isWildcard && lo0.sys != .nuget then lo0.clearPre else lo0).sys = .rubygems ∨
      (if lo0.isWildcard && lo0.sys != .nuget then lo0.clearPre else lo0).sys = .pypi) →
      (if lo0.isWildcard && lo0.sys != .nuget then lo0.clearPre else lo0).num ≠ [] := by
    split
    · exact hnum
    · exact hnum
  generalize (if lo0.isWildcard && lo0.sys != .nuget then lo0.clearPre else lo0) = lo at hlo hnum' ⊢
  simp only
  have weak : ∀ {o : Outcome Span}, typ ≠ tokEmpty → OKP (SpOK s) o →
      OKP (fun sp => SpOK s sp ∧ (typ = tokEmpty → sp.rank ≠ .empty)) o :=
    fun hne h => okp_mono h (fun _ h' => ⟨h', fun e => absurd e hne⟩)
  split
  · exact okp_err
  · split
    · exact okp_mono (newSpan_okp hlo hlo false false) (fun _ h => ⟨h.1, fun _ => h.2 rfl rfl⟩)
    · split
      · exact okp_mono (opEq_okp hlo) (fun _ h => ⟨h.1, fun _ => h.2⟩)
      · rename_i hne
        have hne' : typ ≠ tokEmpty := by
          intro e; subst e; simp at hne
        split
        · exact weak hne' (opGt_okp hlo)
        · split
          · exact weak hne' (opGe_okp hlo hlo _)
          · split
            · exact weak hne' (opLt_okp hlo)
            · split
              · exact weak hne' (opLe_okp hlo)
              · split
                · exact weak hne' (opCaret_okp hlo)
                · split
                  · exact weak hne' (opTilde_okp hlo)
                  · split
                    · rename_i hb
                      exact weak hne' (opBacon_okp hlo (hnum' (by simpa using hb)))
                    · exact okp_err

theorem opVersionToSpan_okp {s : System} (typ : Nat) {lo : Version} (h0 : VK s lo)
    (hnum : typ = tokBacon → (lo.sys = .rubygems ∨ lo.sys = .pypi) → lo.num ≠ []) :
    OKP (SpOK s) (opVersionToSpan typ lo) := by
  rw [opVersionToSpan_eq]; exact okp_mono (opSpan_okp typ h0 hnum) (fun _ h => h.1)

theorem excludeToSpans_okp {s : System} {v : Version} (hv : VK s v) :
    OKP (fun p => SpOK s p.1 ∧ SpOK s p.2) (excludeToSpans v) := by
  unfold excludeToSpans
  split
  · exact okp_err
  · split
    · exact okp_err
    · simp only
      split
      · exact okp_err
      · refine okp_bind (P := fun p => VK s p.1 ∧ VK s p.2) ?_ ?_
        · split
          · refine okp_bind (opSpan_okp tokEmpty hv (fun h => by cases h)) ?_
            intro opp ⟨hsp, hne⟩
            rcases hsp with rfl | ⟨_, a, b, ha, hb, va, vb⟩
            · exact absurd rfl (hne rfl)
            · rw [ha, hb]
              exact okp_ok ⟨va, vb⟩
          · exact okp_ok ⟨hv, hv⟩
        · intro p ⟨h1, h2⟩
          obtain ⟨lo, hi⟩ := p
          simp only at h1 h2 ⊢
          have hz : VK s { sys := v.sys, num := [0, 0, 0] } := by rw [hv.sys]; exact vk_const s _
          have hi' : VK s { sys := v.sys, num := [infinity, infinity, infinity] } := by rw [hv.sys]; exact vk_const s _
          refine okp_bind (newSpan_spok hz h1 false true) ?_
          intro s1 hs1
          refine okp_bind (newSpan_spok h2 hi' true false) ?_
          intro s2 hs2
          exact okp_ok ⟨hs1, hs2⟩

end DepsDev.Proofs.C04b
