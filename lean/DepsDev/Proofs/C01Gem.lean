import DepsDev.Proofs.C01Generic

/-!
# C01 for RubyGems

`gemExtension.compare` = zero-padded numbers, then ("no elements" is greatest) the
element lists position-wise with the pad element `{"0", 0}`. After repair F6 the
element step is a function of a key `(category, int if numeric, text otherwise)`.
-/
namespace DepsDev.Proofs

open Std DepsDev DepsDev.Semver
open DepsDev.Gen.SemverTables (versionNumeric versionQualifier versionEOF)

/-- Category of an element as the comparator sees it (EOF counts as qualifier). -/
def gemCat (e : GemElem) : Int :=
  let c := versionCategory e.str
  if c == versionEOF then versionQualifier else c

/-- Key of an element: category, then the integer (numeric) or the text (otherwise). -/
structure GK where
  cat : Int
  n : Int
  s : Bytes

def gkey (e : GemElem) : GK :=
  if gemCat e == versionNumeric then { cat := gemCat e, n := e.int, s := [] }
  else { cat := gemCat e, n := 0, s := e.str }

def GK.cmp : GK → GK → Ordering :=
  compareLex (compareOn GK.cat) (compareLex (compareOn GK.n) (fun a b => List.compareLex compare a.s b.s))

instance : TransCmp GK.cmp := by
  haveI : TransCmp (fun a b : GK => List.compareLex compare a.s b.s) :=
    TransCmp.comap (List.compareLex (compare : UInt8 → UInt8 → Ordering)) GK.s
  unfold GK.cmp
  infer_instance

def gemElemOrd (a b : GemElem) : Ordering := GK.cmp (gkey a) (gkey b)

instance : TransCmp gemElemOrd := TransCmp.comap GK.cmp gkey

theorem gemElemCmp_eq (a b : GemElem) : gemElemCmp a b = ordToInt (gemElemOrd a b) := by
  unfold gemElemCmp
  by_cases hab : a = b
  · subst hab
    have : gemElemOrd a a = .eq := ReflCmp.compare_self
    simp [this]
  · have hne : (a == b) = false := by simpa using hab
    simp only [hne, Bool.false_eq_true, ↓reduceIte]
    show (if gemCat a > gemCat b then (1 : Int) else if gemCat a < gemCat b then -1
      else if gemCat a == versionNumeric then sgnInt a.int b.int else cmpBytes a.str b.str) = _
    unfold gemElemOrd GK.cmp compareLex compareOn gkey
    rcases Int.lt_trichotomy (gemCat a) (gemCat b) with h | h | h
    · have h' : ¬ gemCat a > gemCat b := by omega
      have hc : compare (gemCat a) (gemCat b) = .lt := Int.compare_eq_lt.mpr h
      by_cases ha : gemCat a == versionNumeric <;> by_cases hb : gemCat b == versionNumeric <;>
        simp [h, h', ha, hb, hc]
    · by_cases ha : gemCat a == versionNumeric
      · have hb : gemCat b == versionNumeric := by rw [← h]; exact ha
        simp [h, ha, hb, sgnInt_eq]
        cases compare a.int b.int <;> simp [List.compareLex_nil_nil]
      · have hb : ¬ (gemCat b == versionNumeric) := by rw [← h]; exact ha
        simp [h, ha, hb, cmpBytes_eq]
    · have h' : ¬ gemCat a < gemCat b := by omega
      have hc : compare (gemCat a) (gemCat b) = .gt := Int.compare_eq_gt.mpr h
      by_cases ha : gemCat a == versionNumeric <;> by_cases hb : gemCat b == versionNumeric <;>
        simp [h, h', ha, hb, hc]

theorem gemElemsCompare_eq (a b : List GemElem) :
    gemElemsCompare a b = ordToInt (padLex gemElemOrd gemPadElem a b) := by
  fun_induction gemElemsCompare a b <;> simp_all [padLex, gemElemCmp_eq, thenInt_eq]

def gemElems (v : Version) : List GemElem := match v.ext with | .gem e => e | _ => []

def gemOrd : Version → Version → Ordering :=
  compareLex (fun a b => padLex compare 0 a.num b.num)
    (fun a b => twist (padLex gemElemOrd gemPadElem) (gemElems a) (gemElems b))

instance : TransCmp gemOrd := by
  haveI : TransCmp (fun a b : Version => padLex compare (0 : Int) a.num b.num) :=
    TransCmp.comap (padLex compare (0 : Int)) Version.num
  haveI : TransCmp (fun a b : Version => twist (padLex gemElemOrd gemPadElem) (gemElems a) (gemElems b)) :=
    TransCmp.comap (twist (padLex gemElemOrd gemPadElem)) gemElems
  unfold gemOrd
  infer_instance

/-- `compare` on two RubyGems versions. -/
theorem compare_gem (a b : Version) (hs : a.sys = b.sys) (ea eb : List GemElem)
    (ha : a.ext = .gem ea) (hb : b.ext = .gem eb) :
    vcompare a b = .ok (ordToInt (gemOrd a b)) := by
  unfold vcompare gemOrd compareLex gemElems
  simp only [hs, ha, hb, bne_self_eq_false, Bool.false_eq_true, ↓reduceIte, compareNums_eq, ordToInt_then]
  by_cases h0 : ordToInt (padLex compare 0 a.num b.num) = 0
  · simp only [h0, bne_self_eq_false, Bool.false_eq_true, ↓reduceIte, ne_eq, not_true_eq_false]
    cases ea <;> cases eb <;> simp [twist, gemElemsCompare_eq]
  · simp [h0]

end DepsDev.Proofs
