import DepsDev.Proofs.C10Tie

/-!
# C10 — RubyGems, release-only versions

`parse_render_gem` (C10-a for `n0.n1.….nk`), `gem_release_roundtrip` (C10-b on the shape),
`parse_gem_release` (the tie: a version `Parse` accepts without the prerelease flag was written
with digits and dots only, so it has no prerelease elements).
-/
namespace DepsDev.Proofs.C10
open DepsDev DepsDev.Semver Digits

/-! ## RubyGems, release-only versions: print/parse on the AST -/

theorem lenOk_gem (k : Nat) : LenOk .rubygems k := Or.inr ⟨by decide, fun h => by cases h⟩

/-- Stage 1 for RubyGems on `n0.n1.….nk` up to the end of the input. -/
theorem gHead_render_gem (x : Int) (xs : List Int) (hx : ∀ y ∈ x :: xs, NumOk false y) (h3 : 2 ≤ xs.length) :
    PS.gHead .rubygems (valueBytes x ++ dotNums xs) false =
      some ({ v := { sys := .rubygems, num := x :: xs },
              lex := { rest := [], prev := [], allowInf := false, err := false } }, eof) := by
  have hx0 := hx x (by simp)
  have hy : StopsNums [] := Or.inl rfl
  have hlead : PS.gLead .rubygems (valueBytes x ++ dotNums xs) false =
      { v := { sys := .rubygems }, lex := { rest := valueBytes x ++ (dotNums xs ++ []), prev := valueBytes x ++ dotNums xs, allowInf := false, err := false } } := by
    simp [PS.gLead]
  have hnum : PS.number (PS.gLead .rubygems (valueBytes x ++ dotNums xs) false) =
      (true, { v := { sys := .rubygems, num := [x] }, lex := { rest := dotNums xs ++ [], prev := prevAfter x (dotNums xs ++ []), allowInf := false, err := false } }) := by
    rw [hlead, number_value _ x (dotNums xs ++ []) rfl hx0 (stopsNum_dotNums xs [] hy) rfl,
      addNum_ok _ x (by show (x : Int) ≤ 9223372036854775807; rcases hx0 with ⟨_, h | ⟨_, h⟩⟩ <;> omega)
        (by left; show (0 : Nat) < 3; omega)]
    rfl
  have hloop := gNums_dot [] hy xs
    { v := { sys := .rubygems, num := [x] }, lex := { rest := dotNums xs ++ [], prev := prevAfter x (dotNums xs ++ []), allowInf := false, err := false } }
    ((valueBytes x ++ dotNums xs).length + 1) rfl
    (fun y hy' => hx y (by simp [hy']))
    (lenOk_gem _)
    (by have := isWildcard_addNum { sys := .rubygems } x hx0.1 rfl; simpa [Version.addNum] using this)
    (by have := dotNums_length xs; simp only [List.length_append]; omega)
  rw [gHead_of .rubygems _ false _ _ _ hnum hloop]
  unfold gHeadTail
  rw [next_nil _ rfl]
  have h2 : (decide (xs.length + 1 < 3)) = false := by simp; omega
  have he : ((eof : Rune) == 46) = false := by decide
  have ha : isAlnumRune eof = false := by decide
  simp [he, ha]

theorem gTail_gem (p : PS) (h3 : 3 ≤ p.v.num.length) (he : p.lex.err = false) :
    gTail .rubygems p eof = .ok { p.v with userNumCount := p.v.num.length } := by
  have h1 : PS.gPre .rubygems p eof = .ok (p, eof) := by
    unfold PS.gPre
    have e1 : ((eof : Rune) == 45) = false := by decide
    have e2 : ((eof : Rune) == 42) = false := by decide
    have e3 : ((eof : Rune) == 46) = false := by decide
    simp [e1, e2, e3]
  rw [gTail_of .rubygems p p p eof eof eof h1 (gBuild_none .rubygems p), gFinish_eof .rubygems p he h3]

/-- Digit-and-dot text has no RubyGems prerelease part. -/
theorem gemInit_digits (b : Bytes) (h : ∀ c ∈ b, isDigitB c = true ∨ c = 46) : gemInit b = .ok [] := by
  unfold gemInit
  have hlow : Bytes.toLowerAscii b = b := by
    unfold Bytes.toLowerAscii
    conv => rhs; rw [← List.map_id b]
    apply List.map_congr_left
    intro c hc
    rcases h c hc with hd | rfl
    · have := (isDigitB_iff c).mp hd
      have : ¬ (65 ≤ c.toNat ∧ c.toNat ≤ 90) := by omega
      simp [UInt8.le_iff_toNat_le, this]
    · decide
  have dropAll : ∀ (p : UInt8 → Bool) (l : Bytes), (∀ c ∈ l, p c = true) → l.dropWhile p = [] := by
    intro p l
    induction l with
    | nil => intro _; rfl
    | cons a as ih =>
      intro hl
      simp only [List.dropWhile_cons, hl a (by simp), ↓reduceIte]
      exact ih (fun c hc => hl c (by simp [hc]))
  have hdrop : (b.dropWhile (fun c => !(c == 45 || (97 ≤ c && c ≤ 122)))) = [] := by
    apply dropAll
    intro c hc
    rcases h c hc with hd | rfl
    · have := (isDigitB_iff c).mp hd
      have e97 : (97 : UInt8).toNat = 97 := rfl
      have h45 : c ≠ 45 := by intro e; subst e; simp at this
      have : ¬ ((97 : UInt8) ≤ c) := by rw [UInt8.le_iff_toNat_le]; omega
      simp [h45, this]
    · decide
  simp only [hlow, hdrop, List.isEmpty_nil, ↓reduceIte]


theorem valueBytes_digits (x : Int) (hx : NumOk false x) : ∀ c ∈ valueBytes x, isDigitB c = true := by
  rcases hx with ⟨h0, h1 | ⟨h, _⟩⟩
  · rw [valueBytes_num x h0 h1]
    exact fun c hc => List.all_eq_true.mp (natToBytes_all_digit _) c hc
  · cases h

theorem renderNums_digits (x : Int) (xs : List Int) (hx : ∀ y ∈ x :: xs, NumOk false y) :
    ∀ c ∈ valueBytes x ++ dotNums xs, isDigitB c = true ∨ c = 46 := by
  intro c hc
  simp only [List.mem_append, dotNums, List.mem_flatMap, List.mem_cons] at hc
  rcases hc with hc | ⟨y, hy, rfl | hc⟩
  · exact Or.inl (valueBytes_digits x (hx x (by simp)) c hc)
  · exact Or.inr rfl
  · exact Or.inl (valueBytes_digits y (hx y (by simp [hy])) c hc)

/-- The release-only RubyGems version with these numbers. -/
def gemRelease (nums : List Int) : Version :=
  { sys := .rubygems, userNumCount := nums.length, num := nums, ext := .gem [] }

/-- **C10-a for RubyGems releases**: `Parse(n0.n1.….nk) = ` the release version with these numbers. -/
theorem parse_render_gem (x y : Int) (zs : List Int) (hx : ∀ w ∈ x :: y :: zs, NumOk false w) (h3 : 1 ≤ zs.length) :
    parse .rubygems (valueBytes x ++ dotNums (y :: zs)) = .ok (gemRelease (x :: y :: zs)) := by
  have hpvs : possibleVersionString .rubygems (valueBytes x ++ dotNums (y :: zs)) = true := by
    have hx0 := hx x (by simp)
    have hy0 := hx y (by simp)
    have hx1 : x < 9223372036854775807 := by rcases hx0.2 with h | ⟨h, _⟩; exact h; cases h
    have hy1 : y < 9223372036854775807 := by rcases hy0.2 with h | ⟨h, _⟩; exact h; cases h
    obtain ⟨d, ds, hd, hdd⟩ := natToBytes_cons x.toNat
    obtain ⟨e, es, he, hee⟩ := natToBytes_cons y.toNat
    have hbody : valueBytes x ++ dotNums (y :: zs) = d :: (ds ++ 46 :: e :: (es ++ dotNums zs)) := by
      simp [dotNums, valueBytes_num x hx0.1 hx1, valueBytes_num y hy0.1 hy1, hd, he]
    have hall := natToBytes_all_digit x.toNat
    rw [hd] at hall
    have hgo := pvs_go_render .rubygems (d :: ds) (by simp) hall e hee (es ++ dotNums zs)
    rw [hbody]
    unfold possibleVersionString
    simp only [show (System.rubygems == System.maven) = false by decide, Bool.false_eq_true, ↓reduceIte,
      List.isEmpty_cons]
    simpa using hgo
  have hcore : parseGenericCore .rubygems (valueBytes x ++ dotNums (y :: zs)) false =
      .ok { sys := .rubygems, userNumCount := (x :: y :: zs).length, num := x :: y :: zs } := by
    rw [parseGenericCore_eq, gHead_render_gem x (y :: zs) hx (by simp; omega)]
    simp only
    rw [gTail_gem _ (by simp; omega) rfl]
  unfold parse parseInf
  simp only [hpvs, Bool.not_true, Bool.false_eq_true, ↓reduceIte, Bool.false_and]
  unfold parseGeneric
  rw [hcore]
  simp only [beq_self_eq_true, ↓reduceIte, gemInit_digits _ (renderNums_digits x (y :: zs) hx)]
  rfl


theorem joinWith_valueBytes (x : Int) (xs : List Int) :
    joinWith 46 ((x :: xs).map valueBytes) = valueBytes x ++ dotNums xs := by
  induction xs generalizing x with
  | nil => simp [joinWith, dotNums]
  | cons y ys ih =>
    have := ih y
    simp only [List.map_cons] at this ⊢
    simp only [joinWith, this, dotNums, List.flatMap_cons, List.append_assoc, List.cons_append, List.nil_append]

/-- `Version.Canon` of a RubyGems version without prerelease elements. -/
theorem canon_gem_release (v : Version) (b : Bool) (he : v.ext = .gem []) :
    canon v b = joinWith 46 ((pad3 v.num).map valueBytes) := by
  unfold canon
  simp only [he, List.isEmpty_nil, ↓reduceIte]
  rw [← range_map_getNum, List.map_map]
  rfl

/-- A RubyGems release as `Parse` produces it: prerelease elements empty, numbers in range. -/
structure GemShape (v : Version) : Prop where
  sys : v.sys = .rubygems
  ext : v.ext = .gem []
  num : ∀ x ∈ v.num, NumOk false x

theorem pad3_cons (l : List Int) : ∃ x y z zs, pad3 l = x :: y :: z :: zs := by
  have := pad3_length l
  match h : pad3 l with
  | [] => rw [h] at this; simp at this; omega
  | [_] => rw [h] at this; simp at this; omega
  | [_, _] => rw [h] at this; simp at this; omega
  | x :: y :: z :: zs => exact ⟨x, y, z, zs, rfl⟩

/-- **C10-b for RubyGems release-only versions.** -/
theorem gem_release_roundtrip (v : Version) (b : Bool) (h : GemShape v) :
    parse .rubygems (canon v b) = .ok (gemRelease (pad3 v.num)) ∧
    vcompare v (gemRelease (pad3 v.num)) = .ok 0 ∧
    canon (gemRelease (pad3 v.num)) b = canon v b := by
  have hnum : ∀ w ∈ pad3 v.num, NumOk false w := by
    intro w hw
    rcases mem_pad3 _ w hw with hw | rfl
    · exact h.num w hw
    · exact ⟨by omega, Or.inl (by omega)⟩
  obtain ⟨x, y, z, zs, hp⟩ := pad3_cons v.num
  refine ⟨?_, ?_, ?_⟩
  · rw [canon_gem_release v b h.ext, hp, joinWith_valueBytes]
    rw [hp] at hnum
    exact parse_render_gem x y (z :: zs) hnum (by simp)
  · unfold vcompare
    simp only [gemRelease, h.sys, bne_self_eq_false, Bool.false_eq_true, ↓reduceIte, h.ext, compareNums_pad3,
      List.isEmpty_nil, Bool.and_self]
  · rw [canon_gem_release v b h.ext, canon_gem_release _ b rfl]
    simp only [gemRelease]
    rw [pad3_of_ge]
    rw [pad3_length]; omega


/-! ## RubyGems: what `Parse` accepts without a prerelease part -/

theorem gem_noWildcard (r : Nat) : System.validWildcard .rubygems r = false := by
  unfold System.validWildcard
  have : Gen.SemverTables.validWildcard.find? (fun p => p.1 == System.rubygems.toNat) = none := by decide
  rw [this]

theorem addNum_facts (q : PS) (x : Int) :
    (PS.addNum q x).2.lex.rest = q.lex.rest ∧ (PS.addNum q x).2.v.sys = q.v.sys ∧
    (PS.addNum q x).2.v.isPrerelease = q.v.isPrerelease ∧
    ((PS.addNum q x).2.v.num = q.v.num ∨ (PS.addNum q x).2.v.num = q.v.num ++ [x]) := by
  unfold PS.addNum
  by_cases h1 : (q.v.num.length == 3 && !q.v.sys.allowsManyNumbers) = true <;>
  by_cases h2 : (q.v.sys == System.nuget && q.v.num.length == 4) = true <;>
  by_cases h3 : x > infinity <;>
  simp [h1, h2, h3, PS.setErr, Lex.setErr, Version.addNum]

/-- `number` for a system without wildcards: consumes digits only; the numbers stay non-negative. -/
theorem number_consumes (p : PS) (hai : p.lex.allowInf = false) (hw : ∀ r, p.v.sys.validWildcard r = false)
    (hnn : ∀ x ∈ p.v.num, (0 : Int) ≤ x) :
    (∃ xs, p.lex.rest = xs ++ (PS.number p).2.lex.rest ∧ ∀ c ∈ xs, isDigitB c = true) ∧
    (∀ x ∈ (PS.number p).2.v.num, (0 : Int) ≤ x) ∧ (PS.number p).2.v.sys = p.v.sys ∧
    (PS.number p).2.v.isPrerelease = p.v.isPrerelease := by
  rw [number_noInf p hai]
  obtain ⟨xs, h1, h2⟩ := scanWhile_go_spec digitPred (p.lex.rest.length + 1) p.lex hai
  have hscan : PS.scanWhile digitPred p.lex = PS.scanWhile.go digitPred p.lex (p.lex.rest.length + 1) := rfl
  rw [← hscan] at h1
  generalize PS.scanWhile digitPred p.lex = l at h1
  have hdig : ∀ c ∈ xs, isDigitB c = true := by
    intro c hc
    have := (h2 c hc).2
    cases hd : isDigitB c with
    | true => rfl
    | false => rw [not_digitPred c hd] at this; cases this
  unfold numberAfterScan
  simp only
  split
  · split
    · rename_i c _
      simp only [hw, Bool.false_eq_true, ↓reduceIte]
      exact ⟨⟨xs, h1, hdig⟩, hnn, trivial, trivial⟩
    · exact ⟨⟨xs, h1, hdig⟩, hnn, rfl, rfl⟩
  · split
    · exact ⟨⟨xs, by simpa [PS.setErr, Lex.setErr] using h1, hdig⟩, hnn, rfl, rfl⟩
    · split
      · exact ⟨⟨xs, by simpa [PS.setErr, Lex.setErr] using h1, hdig⟩, hnn, rfl, rfl⟩
      · rename_i x hx
        have hr := parseNum_range _ x hx
        generalize hq : (if ({ p with lex := l } : PS).v.sys == System.nuget && ({ p with lex := l } : PS).v.isWildcard then ({ p with lex := l } : PS).setErr else { p with lex := l }) = q
        have hq1 : q.lex.rest = l.rest ∧ q.v = p.v := by
          rw [← hq]; split <;> simp [PS.setErr, Lex.setErr]
        obtain ⟨f1, f2, f3, f4⟩ := addNum_facts q x
        refine ⟨⟨xs, by rw [f1, hq1.1]; exact h1, hdig⟩, ?_, by rw [f2, hq1.2], by rw [f3, hq1.2]⟩
        intro y hy
        rcases f4 with f | f
        · rw [f, hq1.2] at hy; exact hnn y hy
        · rw [f, hq1.2] at hy
          simp only [List.mem_append, List.mem_singleton] at hy
          rcases hy with hy | rfl
          · exact hnn y hy
          · exact hr.1


theorem gNums_consumes (s : System) (fuel : Nat) : ∀ (q p' : PS), NInv s q →
    (∀ r, q.v.sys.validWildcard r = false) → (∀ x ∈ q.v.num, (0 : Int) ≤ x) →
    PS.gNums { q with lex := q.lex.next.2 } q.lex.next.1 fuel = (p', eof) → p'.lex.err = false →
    (∀ c ∈ q.lex.rest, isDigitB c = true ∨ c = 46) ∧ (∀ x ∈ p'.v.num, (0 : Int) ≤ x) ∧
    p'.v.isPrerelease = q.v.isPrerelease ∧ p'.lex.rest = [] := by
  induction fuel with
  | zero =>
    intro q p' hq _ hnn h herr
    simp only [PS.gNums] at h
    injection h with h1 h2
    subst h1
    rcases next_cases q.lex hq.ai with ⟨hr, hn⟩ | ⟨c, t, hr, hv, hn⟩ | ⟨_, hn⟩
    · rw [hn]; exact ⟨by simp [hr], hnn, rfl, hr⟩
    · rw [hn] at h2
      have : (c.toNat : Int) = -1 := h2
      omega
    · simp only at herr; rw [hn] at herr; simp at herr
  | succ k ih =>
    intro q p' hq hw hnn h herr
    have hstep := (gNums_spec s (k + 1) { q with lex := q.lex.next.2 } q.lex.next.1 (hq.lex _ (next_step _))).2
    rw [h] at hstep
    rcases next_cases q.lex hq.ai with ⟨hr, hn⟩ | ⟨c, t, hr, hv, hn⟩ | ⟨_, hn⟩
    · rw [hn] at h
      have e : ((eof : Rune) == 46) = false := by decide
      simp only [PS.gNums, e, Bool.false_eq_true, ↓reduceIte] at h
      injection h with h1 _
      subst h1
      exact ⟨by simp [hr], hnn, rfl, hr⟩
    · rw [hn] at h
      simp only [PS.gNums] at h
      split at h
      · rename_i h46
        have hc : c = 46 := by
          have : (c.toNat : Int) = 46 := by simpa using h46
          apply UInt8.toNat_inj.mp
          show c.toNat = 46
          omega
        subst hc
        have hP : NInv s { q with lex := { q.lex with rest := t, prev := 46 :: t } } := by
          have := hq.lex _ (next_step q.lex)
          rw [hn] at this
          exact this
        obtain ⟨⟨xs, c1, c2⟩, c3, c4, c5⟩ := number_consumes { q with lex := { q.lex with rest := t, prev := 46 :: t } } hP.ai hw hnn
        obtain ⟨n1, _⟩ := number_spec s _ hP
        split at h
        · obtain ⟨g1, g2, g3, g4⟩ := ih (PS.number { q with lex := { q.lex with rest := t, prev := 46 :: t } }).2 p' n1
            (by rw [c4]; exact hw) c3 h herr
          refine ⟨?_, g2, g3.trans c5, g4⟩
          intro d hd
          rw [hr] at hd
          simp only [List.mem_cons] at hd
          rcases hd with rfl | hd
          · exact Or.inr rfl
          · simp only at c1
            rw [c1] at hd
            simp only [List.mem_append] at hd
            rcases hd with hd | hd
            · exact Or.inl (c2 d hd)
            · exact g1 d hd
        · injection h with _ h2
          exact absurd h2 (by decide)
      · injection h with _ h2
        have : (c.toNat : Int) = -1 := h2
        omega
    · exfalso
      have := hstep.err herr
      simp only at this
      rw [hn] at this
      simp at this


theorem metadata_v (q : PS) (hai : q.lex.allowInf = false) : (PS.metadata q).2.2.v = q.v :=
  (metadata_go_spec (q.lex.rest.length + 1) q [] 0 hai).1

theorem gFinish_isPre (s : System) (p : PS) (r : Rune) (v : Version) (h : PS.gFinish s p r = .ok v) :
    v.isPrerelease = p.v.isPrerelease := by
  obtain ⟨_, _, hv⟩ := gFinish_spec s p r v h
  rw [hv]; split <;> rfl

/-- Stages 2–4 for RubyGems: a result without prerelease flag means nothing followed the numbers. -/
theorem gTail_gem_release (p : PS) (r : Rune) (v : Version) (hai : p.lex.allowInf = false)
    (hp : p.v.isPrerelease = false) (h : gTail .rubygems p r = .ok v) (hrel : v.isPrerelease = false) :
    r = eof ∧ p.lex.err = false ∧
    v = (if decide (p.v.num.length < 3) = true
      then { p.v with userNumCount := p.v.num.length, num := p.v.num ++ List.replicate (3 - p.v.num.length) 0 }
      else { p.v with userNumCount := p.v.num.length }) ∧ r ≠ 45 ∧ r ≠ 46 := by
  unfold gTail at h
  have hb : ∀ q r', PS.gBuild .rubygems q r' = .ok (q, r') := by
    intro q r'; unfold PS.gBuild; simp
  have hpre : ∀ q : PS, q.lex.allowInf = false →
      ({ (PS.metadata { q with v := { q.v with isPrerelease := true } }).2.2 with
          v := { (PS.metadata { q with v := { q.v with isPrerelease := true } }).2.2.v with
            pre := (PS.metadata { q with v := { q.v with isPrerelease := true } }).2.2.v.pre ++
              (PS.metadata { q with v := { q.v with isPrerelease := true } }).1 } } : PS).v.isPrerelease = true := by
    intro q hq
    simp only [metadata_v { q with v := { q.v with isPrerelease := true } } hq]
  by_cases h45 : (r == 45) = true
  · exfalso
    unfold PS.gPre at h
    simp only [h45, ↓reduceIte, show (System.rubygems == System.go) = false by decide, Bool.false_and,
      Bool.false_eq_true] at h
    rw [hb] at h
    simp only at h
    have := gFinish_isPre _ _ _ _ h
    rw [hpre p hai] at this
    rw [this] at hrel
    cases hrel
  · by_cases h46 : (r == 46) = true
    · exfalso
      unfold PS.gPre at h
      simp only [h45, Bool.false_eq_true, ↓reduceIte, show (System.rubygems == System.nuget) = false by decide,
        Bool.and_false, beq_self_eq_true, h46, Bool.and_self] at h
      rw [hb] at h
      simp only at h
      have := gFinish_isPre _ _ _ _ h
      rw [hpre p hai] at this
      rw [this] at hrel
      cases hrel
    · have hg : PS.gPre .rubygems p r = .ok (p, r) := by
        unfold PS.gPre
        simp [h45, h46]
      rw [hg] at h
      simp only at h
      rw [hb] at h
      simp only at h
      obtain ⟨f1, f2, f3⟩ := gFinish_spec .rubygems p r v h
      refine ⟨f1, f2, ?_, by intro e; subst e; exact h45 (by decide), by intro e; subst e; exact h46 (by decide)⟩
      rw [f3]
      simp


/-- **The tie for RubyGems releases**: a version `Parse` accepts without the prerelease flag was
written with digits and dots only, has no prerelease elements, and its numbers are in range. -/
theorem parse_gem_release (b : Bytes) (v : Version) (h : parse .rubygems b = .ok v) (hrel : v.isPrerelease = false) :
    GemShape v := by
  unfold parse at h
  split at h
  · cases h
  · unfold parseInf at h
    simp only [Bool.false_and, Bool.false_eq_true, ↓reduceIte] at h
    unfold parseGeneric at h
    split at h
    · cases h
    · cases h
    · rename_i v0 hcore
      simp only [beq_self_eq_true, ↓reduceIte] at h
      -- the core parser
      rw [parseGenericCore_eq] at hcore
      split at hcore
      · cases hcore
      · rename_i p r hhead
        rw [gHead_eq] at hhead
        split at hhead
        · rename_i hok
          have hlead := gLead_spec .rubygems b
          have hleadv : PS.gLead .rubygems b false = { v := { sys := .rubygems }, lex := { rest := b, prev := b, allowInf := false } } := rfl
          obtain ⟨n1, _⟩ := number_spec .rubygems _ hlead
          obtain ⟨⟨xs, c1, c2⟩, c3, c4, c5⟩ := number_consumes (PS.gLead .rubygems b false) hlead.ai
            (by intro r; rw [hleadv]; exact gem_noWildcard r) (by rw [hleadv]; simp)
          generalize hp1 : (PS.number (PS.gLead .rubygems b false)).2 = p1 at hhead n1 c1 c3 c4 c5
          cases hres : PS.gNums { p1 with lex := p1.lex.next.2 } p1.lex.next.1 (b.length + 1) with
          | mk p2 r2 =>
            rw [hres] at hhead
            obtain ⟨n2, _⟩ := gNums_spec .rubygems (b.length + 1) _ p1.lex.next.1 (n1.lex _ (next_step _))
            rw [hres] at n2
            simp only at n2
            unfold gHeadTail at hhead
            simp only [show (System.rubygems == System.nuget) = false by decide, Bool.false_and, Bool.false_eq_true,
              ↓reduceIte, bne_self_eq_false, Bool.and_false, beq_self_eq_true, Bool.true_and] at hhead
            have hv0pre : v0.isPrerelease = false := by
              split at h
              · injection h with h; subst h; exact hrel
              · cases h
              · cases h
            have hp2pre : p2.v.isPrerelease = false := n2.isPre
            split at hhead
            · -- an alphanumeric rune follows the numbers: prerelease
              exfalso
              injection hhead with hhead
              injection hhead with e1 e2
              subst e1 e2
              have := gTail_gem_release { p2 with lex := p2.lex.back } 45 v0 (by simpa [Lex.back] using n2.ai) hp2pre hcore hv0pre
              exact this.2.2.2.1 rfl
            · injection hhead with hhead
              injection hhead with e1 e2
              subst e1 e2
              obtain ⟨t1, t2, t3, _, _⟩ := gTail_gem_release p2 r2 v0 n2.ai hp2pre hcore hv0pre
              subst t1
              obtain ⟨g1, g2, _, _⟩ := gNums_consumes .rubygems (b.length + 1) p1 p2 n1
                (by intro r; rw [c4, hleadv]; exact gem_noWildcard r) c3 hres t2
              -- the whole input is digits and dots
              have hb : ∀ c ∈ b, isDigitB c = true ∨ c = 46 := by
                intro c hc
                have hb' : b = xs ++ p1.lex.rest := by rw [← c1, hleadv]
                rw [hb'] at hc
                simp only [List.mem_append] at hc
                rcases hc with hc | hc
                · exact Or.inl (c2 c hc)
                · exact g1 c hc
              rw [gemInit_digits b hb] at h
              simp only at h
              injection h with h
              subst h
              refine ⟨rfl, rfl, ?_⟩
              intro (x : Int) hx
              rw [t3] at hx
              have hmem : x ∈ p2.v.num ∨ x = 0 := by
                split at hx
                · simp only [List.mem_append, List.mem_replicate] at hx
                  rcases hx with hx | ⟨_, hx⟩
                  · exact Or.inl hx
                  · exact Or.inr hx
                · exact Or.inl hx
              rcases hmem with hx | rfl
              · exact ⟨g2 x hx, Or.inl (n2.num x hx).2⟩
              · exact ⟨by omega, Or.inl (by omega)⟩
        · cases hhead


theorem compareNums_of_pad3_eq (a b : List Int) (h : pad3 a = pad3 b) : compareNums a b = 0 := by
  have h1 : compareNums a b = compareNums (pad3 a) (pad3 b) := by
    unfold pad3; rw [compareNums_pad_left, compareNums_pad_right]
  rw [h1, h, compareNums_refl]

/-- Two RubyGems releases with the same canonical string compare equal. -/
theorem gem_release_injective (v w : Version) (hv : GemShape v) (hw : GemShape w) (h : canon v true = canon w true) :
    vcompare v w = .ok 0 := by
  obtain ⟨p1, _, _⟩ := gem_release_roundtrip v true hv
  obtain ⟨p2, _, _⟩ := gem_release_roundtrip w true hw
  rw [h, p2] at p1
  injection p1 with p1
  have hp : pad3 v.num = pad3 w.num := by
    have := congrArg Version.num p1
    simpa [gemRelease] using this.symm
  unfold vcompare
  simp only [hv.sys, hw.sys, bne_self_eq_false, Bool.false_eq_true, ↓reduceIte, hv.ext, hw.ext,
    compareNums_of_pad3_eq _ _ hp, List.isEmpty_nil, Bool.and_self]

end DepsDev.Proofs.C10
