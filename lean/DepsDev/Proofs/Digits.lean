import DepsDev.Model.Semver.Basic

/-!
# D1 — decimal printing and parsing of version numbers

`natToBytes n` is `(toString n).toUTF8.toList`. Through core's `Nat.toDigits` lemmas it
satisfies the two recursion equations `natToBytes_lt10` / `natToBytes_step`; everything
else (value, digit-only, no leading zero, `parseNum` inverse) follows by induction.
-/
namespace DepsDev.Proofs.Digits
open DepsDev DepsDev.Semver

theorem toList_loop (bs : ByteArray) (i : Nat) (r : List UInt8) :
    ByteArray.toList.loop bs i r = r.reverse ++ bs.data.toList.drop i := by
  have hsz : bs.size = bs.data.toList.length := by rw [Array.length_toList]; rfl
  induction h : bs.size - i generalizing i r with
  | zero =>
    rw [ByteArray.toList.loop]
    have : ¬ i < bs.size := by omega
    simp only [this, ↓reduceIte]
    have : bs.data.toList.length ≤ i := by omega
    rw [List.drop_of_length_le this]; simp
  | succ n ih =>
    rw [ByteArray.toList.loop]
    have hi : i < bs.size := by omega
    simp only [hi, ↓reduceIte]
    rw [ih (i+1) _ (by omega)]
    have hlen : i < bs.data.toList.length := by omega
    rw [List.drop_eq_getElem_cons hlen]
    have : bs.get! i = bs.data.toList[i] := by
      show bs.data[i]! = _
      rw [getElem!_pos bs.data i (by rw [← Array.length_toList]; exact hlen)]
      simp
    simp [this]

theorem toList_eq (bs : ByteArray) : bs.toList = bs.data.toList := by
  simp [ByteArray.toList, toList_loop]


def encChars (cs : List Char) : Bytes := cs.flatMap String.utf8EncodeChar

/-- The ASCII byte of a decimal digit. -/
def digitByte (d : Nat) : UInt8 := (48 + d).toUInt8

theorem natToBytes_eq (n : Nat) : natToBytes n = encChars (Nat.toDigits 10 n) := by
  unfold natToBytes encChars
  show (toString n).toUTF8.toList = _
  have : toString n = String.ofList (Nat.toDigits 10 n) := rfl
  rw [this, toList_eq]
  show (String.ofList (Nat.toDigits 10 n)).toByteArray.data.toList = _
  rw [String.toByteArray_ofList, List.utf8Encode, List.data_toByteArray]

theorem enc_digitChar (d : Nat) (h : d < 10) : String.utf8EncodeChar (Nat.digitChar d) = [digitByte d] := by
  have : d = 0 ∨ d = 1 ∨ d = 2 ∨ d = 3 ∨ d = 4 ∨ d = 5 ∨ d = 6 ∨ d = 7 ∨ d = 8 ∨ d = 9 := by omega
  rcases this with h | h | h | h | h | h | h | h | h | h <;> subst h <;> decide

theorem natToBytes_lt10 (n : Nat) (h : n < 10) : natToBytes n = [digitByte n] := by
  rw [natToBytes_eq, Nat.toDigits_of_lt_base h]
  simp [encChars, enc_digitChar n h]

theorem natToBytes_step (q d : Nat) (hq : 0 < q) (hd : d < 10) :
    natToBytes (10 * q + d) = natToBytes q ++ [digitByte d] := by
  rw [natToBytes_eq, natToBytes_eq, ← Nat.toDigits_append_toDigits (by omega) hq hd, Nat.toDigits_of_lt_base hd]
  simp [encChars, enc_digitChar d hd]

theorem digitsVal_append (a b : Bytes) :
    digitsVal (a ++ b) = b.foldl (fun n c => n * 10 + (c.toNat - 48)) (digitsVal a) := by
  simp [digitsVal, List.foldl_append]

theorem digitByte_toNat (d : Nat) (h : d < 10) : (digitByte d).toNat = 48 + d := by
  simp [digitByte, Nat.toUInt8, UInt8.toNat_ofNat']; omega

theorem isDigitB_iff (c : UInt8) : isDigitB c = true ↔ 48 ≤ c.toNat ∧ c.toNat ≤ 57 := by
  simp [isDigitB, UInt8.le_iff_toNat_le]

theorem isDigitB_digitByte (d : Nat) (h : d < 10) : isDigitB (digitByte d) = true := by
  rw [isDigitB_iff, digitByte_toNat d h]; omega

theorem digitByte_eq_48 (d : Nat) (h : d < 10) (e : digitByte d = 48) : d = 0 := by
  have := digitByte_toNat d h
  rw [e] at this
  have h48 : (48 : UInt8).toNat = 48 := rfl
  omega

theorem split10 (n : Nat) (h : ¬ n < 10) : ∃ q d, 0 < q ∧ d < 10 ∧ q < n ∧ n = 10 * q + d :=
  ⟨n / 10, n % 10, by omega, by omega, by omega, by omega⟩

theorem digitsVal_natToBytes (n : Nat) : digitsVal (natToBytes n) = n := by
  induction n using Nat.strongRecOn with
  | ind n ih =>
    by_cases h : n < 10
    · rw [natToBytes_lt10 n h]
      show 0 * 10 + ((digitByte n).toNat - 48) = n
      rw [digitByte_toNat n h]; omega
    · obtain ⟨q, d, hq, hd, hlt, rfl⟩ := split10 n h
      rw [natToBytes_step _ _ hq hd, digitsVal_append, ih q hlt]
      show q * 10 + ((digitByte d).toNat - 48) = _
      rw [digitByte_toNat _ hd]; omega

theorem natToBytes_all_digit (n : Nat) : (natToBytes n).all isDigitB = true := by
  induction n using Nat.strongRecOn with
  | ind n ih =>
    by_cases h : n < 10
    · rw [natToBytes_lt10 n h, List.all_cons, isDigitB_digitByte n h]; rfl
    · obtain ⟨q, d, hq, hd, hlt, rfl⟩ := split10 n h
      rw [natToBytes_step _ _ hq hd, List.all_append, ih q hlt,
        List.all_cons, isDigitB_digitByte _ hd]; rfl

theorem natToBytes_ne_nil (n : Nat) : natToBytes n ≠ [] := by
  by_cases h : n < 10
  · rw [natToBytes_lt10 n h]; simp
  · obtain ⟨q, d, hq, hd, hlt, rfl⟩ := split10 n h
    rw [natToBytes_step _ _ hq hd]; simp

theorem natToBytes_head_zero (n : Nat) (h0 : (natToBytes n).head? = some 48) : n = 0 := by
  induction n using Nat.strongRecOn with
  | ind n ih =>
    by_cases h : n < 10
    · rw [natToBytes_lt10 n h] at h0
      exact digitByte_eq_48 n h (by simpa using h0)
    · obtain ⟨q, d, hq, hd, hlt, rfl⟩ := split10 n h
      rw [natToBytes_step _ _ hq hd] at h0
      have hne := natToBytes_ne_nil q
      cases hq' : natToBytes q with
      | nil => exact absurd hq' hne
      | cons c r =>
        rw [hq'] at h0
        have := ih q hlt (by rw [hq']; simpa using h0)
        omega

theorem natToBytes_length_one (n : Nat) (h : (natToBytes n).length = 1) : n < 10 := by
  by_cases h10 : n < 10
  · exact h10
  · obtain ⟨q, d, hq, hd, hlt, rfl⟩ := split10 n h10
    rw [natToBytes_step _ _ hq hd] at h
    have hne := natToBytes_ne_nil q
    have : 0 < (natToBytes q).length := List.length_pos_iff.mpr hne
    rw [List.length_append] at h
    simp only [List.length_cons, List.length_nil] at h
    omega


theorem infinity_eq : infinity = 9223372036854775807 := rfl

theorem parseIntBits_digits (ds : Bytes) (bits : Nat) (hne : ds ≠ []) (hd : ds.all isDigitB = true) :
    parseIntBits ds bits =
      if (digitsVal ds : Int) > (2 ^ (bits - 1) : Int) - 1 then none else some (digitsVal ds : Int) := by
  cases ds with
  | nil => exact absurd rfl hne
  | cons c r =>
    have hc : isDigitB c = true := by simp at hd; exact hd.1
    have hc' := (isDigitB_iff c).mp hc
    have h43 : c ≠ 43 := by intro e; subst e; simp at hc'
    have h45 : c ≠ 45 := by intro e; subst e; simp at hc'
    unfold parseIntBits
    split
    rename_i neg ds heq
    have hm : neg = false ∧ ds = c :: r := by
      split at heq
      · rename_i h; injection h with h1 _; exact absurd h1 h43
      · rename_i h; injection h with h1 _; exact absurd h1 h45
      · injection heq with h1 h2; exact ⟨h1.symm, h2.symm⟩
    obtain ⟨rfl, rfl⟩ := hm
    simp only [hd, List.isEmpty_cons, Bool.not_true, Bool.or_self, Bool.false_eq_true, ↓reduceIte]
    have hnn : (0 : Int) ≤ (digitsVal (c :: r) : Int) := Int.natCast_nonneg _
    have hp : (0 : Int) < 2 ^ (bits - 1) := Int.pow_pos (by omega)
    have h1 : ¬ ((digitsVal (c :: r) : Int) < -(2 ^ (bits - 1) : Int)) := by omega
    simp only [h1, decide_false, Bool.false_or, decide_eq_true_eq]

theorem parseNum_digits (ds : Bytes) (hne : ds ≠ []) (hd : ds.all isDigitB = true) :
    parseNum ds = if (digitsVal ds : Int) < infinity then some (digitsVal ds : Int) else none := by
  unfold parseNum
  split
  · rename_i c
    have hc : isDigitB c = true := by simpa using hd
    have hc' := (isDigitB_iff c).mp hc
    have : digitsVal [c] = c.toNat - 48 := by simp [digitsVal]
    rw [this, infinity_eq]
    simp only [hc, ↓reduceIte]
    have : ((c.toNat - 48 : Nat) : Int) < 9223372036854775807 := by omega
    simp [this]
  · rw [parseIntBits_digits ds 64 hne hd, infinity_eq]
    have hnn : (0 : Int) ≤ (digitsVal ds : Int) := Int.natCast_nonneg _
    by_cases h : (digitsVal ds : Int) > (2 ^ (64 - 1) : Int) - 1
    · have : ¬ (digitsVal ds : Int) < 9223372036854775807 := by omega
      have h' : (9223372036854775807 : Int) < digitsVal ds := by omega
      simp [h', this]
    · simp only [h, ↓reduceIte]
      by_cases h2 : (digitsVal ds : Int) < 9223372036854775807
      · have : ¬ ((digitsVal ds : Int) < 0 ∨ (digitsVal ds : Int) ≥ 9223372036854775807) := by omega
        simp [h2, this]
      · have : ((digitsVal ds : Int) < 0 ∨ (digitsVal ds : Int) ≥ 9223372036854775807) := by omega
        simp [h2, this]

/-- D1: a printed number below `infinity` parses back to itself. -/
theorem parseNum_natToBytes (n : Nat) (h : (n : Int) < infinity) : parseNum (natToBytes n) = some (n : Int) := by
  rw [parseNum_digits _ (natToBytes_ne_nil n) (natToBytes_all_digit n), digitsVal_natToBytes]
  simp [h]

end DepsDev.Proofs.Digits
