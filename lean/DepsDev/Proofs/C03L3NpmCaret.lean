import DepsDev.Proofs.C03L3Npm

/-!
# C03 layer L3 for npm, operator `caret`: one comparator, prerelease candidates (operands without tag)

See `C03L3Npm` for the statements and the proof script; `C03L3NpmCaretP` has the tagged operands
and the assembled `L3Npm .caret`.
-/
namespace DepsDev.Proofs.C03

open DepsDev DepsDev.Semver DepsDev.Ref

set_option linter.unusedSimpArgs false
set_option linter.unusedVariables false

theorem l3_full_caret : L3Full .caret := by l3_full
theorem l3_part_caret : L3Part .caret := by l3_part

end DepsDev.Proofs.C03
