import DepsDev.Proofs.C02MvnWords

/-!
# C02 — Maven, part 3: ComparableVersion's comparison on linear item trees is the key order

`treeOf` turns an element list of the library into ComparableVersion's items (a `-` element opens
a sub-list that holds everything after it). On good tails (`goodT`: numbers, qualifiers other than
`ga`/`final`/`release`, only alpha…snapshot attached with a dot, a zero followed by numbers up to a
positive one) `ListItem.compareTo` is `padLex` over C01's element keys: `cmpList_treeOf`.
-/
namespace DepsDev.Proofs.C02Mvn
open Std DepsDev DepsDev.Semver DepsDev.Ref DepsDev.Proofs DepsDev.Proofs.C02
open DepsDev.Ref.MavenCV (Item Sep Tok wAlpha wBeta wMilestone wRc wCr wSnapshot wSp wGa wFinal wRelease)
open DepsDev.Gen.SemverTables (versionNumeric versionQualifier versionEOF versionSeparator mavenEmptyQualifier mavenQualifierOrder)

/-- The ComparableVersion item of an element of the library. -/
def atom (e : MavenElem) : Item := if isNumE e then .int e.int.toNat else MavenCV.stringItem e.str false

/-- The item list of an element list: a `-` element opens a sub-list that holds everything after it. -/
def treeOf : List MavenElem → List Item
  | [] => []
  | e :: t => if e.sep == 45 then [.list (atom e :: treeOf t)] else atom e :: treeOf t

def numGood (e : MavenElem) : Bool := isNumE e && decide (0 ≤ e.int)
/-- A qualifier that is not `ga`/`final`/`release`, and one of alpha…snapshot when attached with a dot. -/
def qualGood (e : MavenElem) : Bool :=
  isQualE e && mavenOrder e.str != -2 && (e.sep != 46 || decide (mavenOrder e.str < -2))
def elemGood (e : MavenElem) : Bool := sepOK e && (numGood e || qualGood e)

/-- The tail starts with numbers up to a positive one. -/
def posT : List MavenElem → Bool
  | [] => false
  | e :: t => numGood e && (decide (0 < e.int) || posT t)

/-- Elements after the first: good elements, a zero is followed by `posT`. -/
def goodT : List MavenElem → Bool
  | [] => true
  | e :: t => elemGood e && goodT t && (!(isNumE e && e.int == 0) || posT t)

/-! ## keys -/

theorem mkey_num {e : MavenElem} (h : isNumE e = true) : mkey e = ⟨2, e.sep.toNat, e.int, []⟩ := by
  have h' : (mcat e == versionNumeric) = true := h
  simp [mkey, h']

theorem isQualE_mcat {e : MavenElem} (h : isQualE e = true) : mcat e = 3 ∧ e.int = 0 := by
  simpa [isQualE, versionQualifier] using h

theorem mkey_qual {e : MavenElem} (h : isQualE e = true) :
    mkey e = if mavenOrder e.str > -2 then ⟨1, mavenOrder e.str, -(e.sep.toNat : Int), e.str⟩
      else ⟨0, -(e.sep.toNat : Int), mavenOrder e.str, []⟩ := by
  have := (isQualE_mcat h).1
  simp [mkey, this, versionNumeric, mavenEmptyQualifier]

theorem qual_ne_nil {e : MavenElem} (h : isQualE e = true) : e.str ≠ [] := by
  intro e0
  have := (isQualE_mcat h).1
  simp [mcat, e0, mavenCategory, versionEOF] at this

theorem not_num_of_qual {e : MavenElem} (h : isQualE e = true) : isNumE e = false := by
  have := (isQualE_mcat h).1
  simp [isNumE, this, versionNumeric]

/-- What the two sides make of a qualifier word that is not `ga`/`final`/`release`:
index `i` in Maven's list (`cq = "i"`), the library's order `i - 7`; or unknown. -/
theorem qual_repr (q : Bytes) (hne : q ≠ []) (hnr : mavenOrder q ≠ -2) :
    ∃ s, MavenCV.stringItem q false = .str s ∧
      ((∃ i : Nat, (i ≤ 4 ∨ (i = 6 ∧ q = wSp)) ∧ mavenOrder q = (i : Int) - 7 ∧ MavenCV.cq s = [digit i]) ∨
       (mavenOrder q = 0 ∧ MavenCV.cq s = 55 :: 45 :: q)) := by
  rcases word_cases q with h | h | h | h | h | h | h | h | h | h | h
  · subst h; exact ⟨wAlpha, rfl, .inl ⟨0, by decide, by decide, by decide⟩⟩
  · subst h; exact ⟨wBeta, rfl, .inl ⟨1, by decide, by decide, by decide⟩⟩
  · subst h; exact ⟨wRc, rfl, .inl ⟨3, by decide, by decide, by decide⟩⟩
  · subst h; exact absurd (by decide) hnr
  · subst h; exact absurd (by decide) hnr
  · subst h; exact ⟨wMilestone, rfl, .inl ⟨2, by decide, by decide, by decide⟩⟩
  · subst h; exact ⟨wRc, rfl, .inl ⟨3, by decide, by decide, by decide⟩⟩
  · subst h; exact absurd (by decide) hnr
  · subst h; exact ⟨wSnapshot, rfl, .inl ⟨4, by decide, by decide, by decide⟩⟩
  · subst h; exact ⟨wSp, rfl, .inl ⟨6, by decide, by decide, by decide⟩⟩
  · exact ⟨q, (cv_unknown hne h).1, .inr ⟨mavenOrder_unknown hne h, (cv_unknown hne h).2⟩⟩

theorem digit_toNat {d : Nat} (h : d < 10) : (digit d).toNat = 48 + d := by
  have : d = 0 ∨ d = 1 ∨ d = 2 ∨ d = 3 ∨ d = 4 ∨ d = 5 ∨ d = 6 ∨ d = 7 ∨ d = 8 ∨ d = 9 := by omega
  rcases this with h | h | h | h | h | h | h | h | h | h <;> subst h <;> rfl

theorem compare_u8 (a b : UInt8) : compare a b = compare a.toNat b.toNat := by
  simp only [compare, compareOfLessAndEq, UInt8.lt_iff_toNat_lt, ← UInt8.toNat_inj]

theorem strCmp_digit {i j : Nat} (hi : i < 10) (hj : j < 10) :
    MavenCV.strCmp [digit i] [digit j] = compare i j := by
  simp only [MavenCV.strCmp, List.compareLex_cons_cons, List.compareLex_nil_nil, compare_u8, digit_toNat hi, digit_toNat hj]
  have : compare (48 + i) (48 + j) = compare i j := by
    rcases Nat.lt_trichotomy i j with h | h | h
    · rw [Nat.compare_eq_lt.mpr h, Nat.compare_eq_lt.mpr (by omega)]
    · subst h; simp
    · rw [Nat.compare_eq_gt.mpr h, Nat.compare_eq_gt.mpr (by omega)]
  rw [this]; cases compare i j <;> rfl


/-! ## one position -/

theorem atom_num {e : MavenElem} (h : isNumE e = true) : atom e = .int e.int.toNat := by simp [atom, h]

structure QualView (e : MavenElem) (s : Bytes) : Prop where
  atom_eq : atom e = .str s
  key : mkey e = if mavenOrder e.str > -2 then ⟨1, mavenOrder e.str, -(e.sep.toNat : Int), e.str⟩
      else ⟨0, -(e.sep.toNat : Int), mavenOrder e.str, []⟩
  cls : (∃ i : Nat, (i ≤ 4 ∨ (i = 6 ∧ e.str = wSp)) ∧ mavenOrder e.str = (i : Int) - 7 ∧ MavenCV.cq s = [digit i]) ∨
       (mavenOrder e.str = 0 ∧ MavenCV.cq s = 55 :: 45 :: e.str)
  dot : e.sep = 46 → mavenOrder e.str < -2

theorem qualView {e : MavenElem} (h : qualGood e = true) : ∃ s, QualView e s := by
  simp only [qualGood, Bool.and_eq_true, bne_iff_ne, ne_eq, Bool.or_eq_true, decide_eq_true_eq] at h
  obtain ⟨⟨hq, hnr⟩, hdot⟩ := h
  obtain ⟨s, hs, hc⟩ := qual_repr e.str (qual_ne_nil hq) hnr
  refine ⟨s, ?_, mkey_qual hq, hc, ?_⟩
  · simp [atom, not_num_of_qual hq, hs]
  · intro h46; rcases hdot with h | h
    · exact absurd h46 h
    · exact h

theorem elemGood_cases {e : MavenElem} (h : elemGood e = true) :
    (e.sep = 45 ∨ e.sep = 46) ∧ ((isNumE e = true ∧ 0 ≤ e.int) ∨ qualGood e = true) := by
  simp only [elemGood, Bool.and_eq_true, Bool.or_eq_true, numGood, decide_eq_true_eq] at h
  exact ⟨sepOK_cases h.1, h.2⟩

theorem compare_toNat {a b : Int} (ha : 0 ≤ a) (hb : 0 ≤ b) : compare a.toNat b.toNat = compare a b := by
  rcases Int.lt_trichotomy a b with h | h | h
  · rw [Int.compare_eq_lt.mpr h, Nat.compare_eq_lt.mpr (by omega)]
  · subst h; simp
  · rw [Int.compare_eq_gt.mpr h, Nat.compare_eq_gt.mpr (by omega)]

theorem strCmp_digit_unknown {i : Nat} (hi : i ≤ 6) (q : Bytes) : MavenCV.strCmp [digit i] (55 :: 45 :: q) = .lt := by
  have : compare (digit i) 55 = .lt := by
    rw [compare_u8, digit_toNat (by omega)]
    exact Nat.compare_eq_lt.mpr (by simp; omega)
  simp [MavenCV.strCmp, List.compareLex_cons_cons, this]

theorem strCmp_unknown_digit {i : Nat} (hi : i ≤ 6) (q : Bytes) : MavenCV.strCmp (55 :: 45 :: q) [digit i] = .gt := by
  have : compare (55 : UInt8) (digit i) = .gt := by
    rw [compare_u8, digit_toNat (by omega)]
    exact Nat.compare_eq_gt.mpr (by simp; omega)
  simp [MavenCV.strCmp, List.compareLex_cons_cons, this]

theorem strCmp_unknown (q r : Bytes) : MavenCV.strCmp (55 :: 45 :: q) (55 :: 45 :: r) = List.compareLex compare q r := by
  simp [MavenCV.strCmp, List.compareLex_cons_cons]

theorem c01 : compare (0 : Int) 1 = .lt := by decide
theorem c10 : compare (1 : Int) 0 = .gt := by decide
theorem cm10 : compare (-1 : Int) 0 = .lt := by decide
theorem c0m1 : compare (0 : Int) (-1) = .gt := by decide
theorem lex_self (q : Bytes) : List.compareLex compare q q = .eq :=
  ReflCmp.compare_self (cmp := List.compareLex (compare : UInt8 → UInt8 → Ordering))

/-- Same separator: `Item.compareTo` on the two items is the key comparison. -/
theorem cmp_atom_same {x y : MavenElem} (hx : elemGood x = true) (hy : elemGood y = true) (hs : x.sep = y.sep) :
    MavenCV.cmp (atom x) (atom y) = MK.cmp (mkey x) (mkey y) := by
  obtain ⟨_, hx⟩ := elemGood_cases hx
  obtain ⟨_, hy⟩ := elemGood_cases hy
  rcases hx with ⟨nx, px⟩ | qx <;> rcases hy with ⟨ny, py⟩ | qy
  · rw [atom_num nx, atom_num ny, mkey_num nx, mkey_num ny, MK.cmp_def]
    simp [MavenCV.cmp, hs, compare_toNat px py]
    cases compare x.int y.int <;> rfl
  · obtain ⟨s, v⟩ := qualView qy
    rw [atom_num nx, v.atom_eq, mkey_num nx, v.key, MK.cmp_def]
    split <;> simp [MavenCV.cmp, Int.compare_eq_gt.mpr]
  · obtain ⟨s, v⟩ := qualView qx
    rw [atom_num ny, v.atom_eq, mkey_num ny, v.key, MK.cmp_def]
    split <;> simp [MavenCV.cmp, Int.compare_eq_lt.mpr]
  · obtain ⟨s, v⟩ := qualView qx
    obtain ⟨t, w⟩ := qualView qy
    rw [v.atom_eq, w.atom_eq, v.key, w.key, MK.cmp_def]
    simp only [MavenCV.cmp]
    rcases v.cls with ⟨i, hi, oi, ci⟩ | ⟨oi, ci⟩ <;> rcases w.cls with ⟨j, hj, oj, cj⟩ | ⟨oj, cj⟩
    · rw [ci, cj, oi, oj, strCmp_digit (by omega) (by omega), hs]
      rcases hi with hi | ⟨hi, ei⟩ <;> rcases hj with hj | ⟨hj, ej⟩
      · have h1 : ¬ ((i : Int) - 7 > -2) := by omega
        have h2 : ¬ ((j : Int) - 7 > -2) := by omega
        have h3 : compare ((i : Int) - 7) ((j : Int) - 7) = compare i j := by
          rcases Nat.lt_trichotomy i j with h | h | h
          · rw [Nat.compare_eq_lt.mpr h, Int.compare_eq_lt.mpr (by omega)]
          · subst h; simp
          · rw [Nat.compare_eq_gt.mpr h, Int.compare_eq_gt.mpr (by omega)]
        simp [h1, h2, h3]
        cases compare i j <;> rfl
      · subst hj
        have h1 : ¬ ((i : Int) - 7 > -2) := by omega
        simp [h1, Nat.compare_eq_lt.mpr (show i < 6 by omega), c01]
      · subst hi
        have h2 : ¬ ((j : Int) - 7 > -2) := by omega
        simp [h2, Nat.compare_eq_gt.mpr (show 6 > j by omega), c10]
      · subst hi; subst hj
        simp [ei, ej, lex_self]
    · rw [ci, cj, oi, oj, strCmp_digit_unknown (by omega), hs]
      rcases hi with hi | ⟨hi, ei⟩
      · have h1 : ¬ ((i : Int) - 7 > -2) := by omega
        simp [h1, c01]
      · subst hi; simp [cm10]
    · rw [ci, cj, oi, oj, strCmp_unknown_digit (by omega), hs]
      rcases hj with hj | ⟨hj, ej⟩
      · have h2 : ¬ ((j : Int) - 7 > -2) := by omega
        simp [h2, c10]
      · subst hj; simp [c0m1]
    · rw [ci, cj, oi, oj, strCmp_unknown, hs]
      simp


/-- The key of a dot-attached element against the key of a dash-attached one: a number is
greater, a qualifier smaller — as `IntItem`/`StringItem` against a `ListItem`. -/
theorem key_dot_dash {x y : MavenElem} (hx : elemGood x = true) (hy : elemGood y = true)
    (sx : x.sep = 46) (sy : y.sep = 45) :
    MK.cmp (mkey x) (mkey y) = if isNumE x then .gt else .lt := by
  obtain ⟨_, hx⟩ := elemGood_cases hx
  obtain ⟨_, hy⟩ := elemGood_cases hy
  rcases hx with ⟨nx, px⟩ | qx <;> rcases hy with ⟨ny, py⟩ | qy
  · rw [mkey_num nx, mkey_num ny, MK.cmp_def]
    simp [nx, sx, sy, Int.compare_eq_gt.mpr]
  · obtain ⟨s, v⟩ := qualView qy
    rw [mkey_num nx, v.key, MK.cmp_def]
    have c21 : compare (2 : Int) 1 = .gt := by decide
    have c20 : compare (2 : Int) 0 = .gt := by decide
    simp only [nx, ↓reduceIte]
    split <;> simp [c21, c20]
  · obtain ⟨s, v⟩ := qualView qx
    have hlo := v.dot sx
    have h1 : ¬ (mavenOrder x.str > -2) := by omega
    rw [mkey_num ny, v.key, MK.cmp_def]
    simp only [h1, ↓reduceIte]
    have : isNumE x = false := by
      simp only [qualGood, Bool.and_eq_true] at qx
      exact not_num_of_qual qx.1.1
    simp [this, Int.compare_eq_lt.mpr]
  · obtain ⟨s, v⟩ := qualView qx
    obtain ⟨t, w⟩ := qualView qy
    have hlo := v.dot sx
    have h1 : ¬ (mavenOrder x.str > -2) := by omega
    have : isNumE x = false := by
      simp only [qualGood, Bool.and_eq_true] at qx
      exact not_num_of_qual qx.1.1
    rw [v.key, w.key, MK.cmp_def]
    simp only [h1, ↓reduceIte, this, Bool.false_eq_true]
    split
    · simp [c01]
    · simp [sx, sy, Int.compare_eq_lt.mpr]

theorem cmp_atom_list {x : MavenElem} (hx : elemGood x = true) (l : List Item) :
    MavenCV.cmp (atom x) (.list l) = if isNumE x then .gt else .lt := by
  obtain ⟨_, hx⟩ := elemGood_cases hx
  rcases hx with ⟨nx, px⟩ | qx
  · rw [atom_num nx]; simp [MavenCV.cmp, nx]
  · obtain ⟨s, v⟩ := qualView qx
    have : isNumE x = false := by
      simp only [qualGood, Bool.and_eq_true] at qx
      exact not_num_of_qual qx.1.1
    rw [v.atom_eq]; simp [MavenCV.cmp, this]

theorem cmp_list_atom {x : MavenElem} (hx : elemGood x = true) (l : List Item) :
    MavenCV.cmp (.list l) (atom x) = if isNumE x then .lt else .gt := by
  obtain ⟨_, hx⟩ := elemGood_cases hx
  rcases hx with ⟨nx, px⟩ | qx
  · rw [atom_num nx]; simp [MavenCV.cmp, nx]
  · obtain ⟨s, v⟩ := qualView qx
    have : isNumE x = false := by
      simp only [qualGood, Bool.and_eq_true] at qx
      exact not_num_of_qual qx.1.1
    rw [v.atom_eq]; simp [MavenCV.cmp, this]

/-! ## against nothing -/

/-- `item.compareTo(null)` against the key of a missing element, for a non-zero element. -/
theorem cmpNull_atom {e : MavenElem} (he : elemGood e = true) (hz : ¬ (isNumE e = true ∧ e.int = 0)) :
    (MavenCV.cmpNull (atom e)).swap = vsNone e := by
  obtain ⟨hsep, he⟩ := elemGood_cases he
  rcases he with ⟨ne, pe⟩ | qe
  · have h0 : e.int.toNat ≠ 0 := by
      intro h; apply hz; exact ⟨ne, by omega⟩
    simp [atom_num ne, MavenCV.cmpNull, h0, vsNone_of_num ne]
  · obtain ⟨s, v⟩ := qualView qe
    rw [v.atom_eq, vsNone, v.key, MK.cmp_def]
    simp only [MavenCV.cmpNull, mkNone]
    rcases v.cls with ⟨i, hi, oi, ci⟩ | ⟨oi, ci⟩
    · rw [ci, oi, show MavenCV.releaseIndex = [digit 5] from rfl, strCmp_digit (by omega) (by omega)]
      rcases hi with hi | ⟨hi, ei⟩
      · have h1 : ¬ ((i : Int) - 7 > -2) := by omega
        simp only [h1, ↓reduceIte, Nat.compare_eq_lt.mpr (show i < 5 by omega)]
        rcases hsep with h | h
        · simp [h, Int.compare_eq_gt.mpr (show (i : Int) - 7 < -2 by omega)]
        · simp [h, Int.compare_eq_gt.mpr]
      · subst hi; simp [c01, Nat.compare_eq_gt.mpr]
    · rw [ci, oi]
      have c5 : compare (55 : UInt8) 53 = .gt := by decide
      simp [MavenCV.strCmp, MavenCV.releaseIndex, List.compareLex_cons_cons, c01, c5]

theorem treeOf_cons (e : MavenElem) (t : List MavenElem) :
    treeOf (e :: t) = if e.sep == 45 then [.list (atom e :: treeOf t)] else atom e :: treeOf t := rfl

theorem cmpNullList_treeOf_cons (e : MavenElem) (t : List MavenElem) :
    MavenCV.cmpNullList (treeOf (e :: t)) = (MavenCV.cmpNull (atom e)).then (MavenCV.cmpNullList (treeOf t)) := by
  rw [treeOf_cons]
  split <;> simp [MavenCV.cmpNullList, MavenCV.cmpNull]

theorem posT_gt {t : List MavenElem} (h : posT t = true) : MavenCV.cmpNullList (treeOf t) = .gt := by
  induction t with
  | nil => simp [posT] at h
  | cons e t ih =>
    rw [cmpNullList_treeOf_cons]
    simp only [posT, numGood, Bool.and_eq_true, Bool.or_eq_true, decide_eq_true_eq] at h
    obtain ⟨⟨ne, pe⟩, hp⟩ := h
    rw [atom_num ne]
    rcases hp with hp | hp
    · have : e.int.toNat ≠ 0 := by omega
      simp [MavenCV.cmpNull, this]
    · rw [ih hp]
      simp only [MavenCV.cmpNull]
      split <;> rfl

theorem goodT_cons {e : MavenElem} {t : List MavenElem} (h : goodT (e :: t) = true) :
    elemGood e = true ∧ goodT t = true ∧ ((isNumE e = true ∧ e.int = 0) → posT t = true) := by
  simp only [goodT, Bool.and_eq_true, Bool.or_eq_true, Bool.not_eq_true', Bool.and_eq_false_iff, beq_eq_false_iff_ne] at h
  refine ⟨h.1.1, h.1.2, ?_⟩
  rintro ⟨h1, h2⟩
  rcases h.2 with h3 | h3
  · rcases h3 with h3 | h3
    · rw [h1] at h3; cases h3
    · exact absurd h2 h3
  · exact h3

/-- A whole good tail against nothing. -/
theorem cmpNullList_treeOf {t : List MavenElem} (h : goodT t = true) :
    (MavenCV.cmpNullList (treeOf t)).swap = mavenLex [] t := by
  induction t with
  | nil => simp [treeOf, MavenCV.cmpNullList, mavenLex_nil_nil]
  | cons e t ih =>
    obtain ⟨he, ht, hz⟩ := goodT_cons h
    rw [cmpNullList_treeOf_cons, mavenLex_nil_cons, Ordering.swap_then, ih ht]
    by_cases hzero : isNumE e = true ∧ e.int = 0
    · have hp := hz hzero
      rw [← ih ht, posT_gt hp, vsNone_of_num hzero.1, atom_num hzero.1]
      simp [MavenCV.cmpNull, hzero.2]
    · rw [cmpNull_atom he hzero]


theorem cmpList_nil_right (l : List Item) : MavenCV.cmpList l [] = MavenCV.cmpNullList l := by
  induction l with
  | nil => simp [MavenCV.cmpList, MavenCV.cmpNullList]
  | cons x xs ih => simp [MavenCV.cmpList, MavenCV.cmpNullList, ih]

theorem mavenLex_swap (a b : List MavenElem) : mavenLex a b = (mavenLex b a).swap :=
  OrientedCmp.eq_swap (cmp := mavenLex)

/-- **ComparableVersion's list comparison of two good tails is the key order.** -/
theorem cmpList_treeOf : ∀ {a b : List MavenElem}, goodT a = true → goodT b = true →
    MavenCV.cmpList (treeOf a) (treeOf b) = mavenLex a b
  | [], b, _, hb => by
    rw [show treeOf [] = [] from rfl, MavenCV.cmpList, cmpNullList_treeOf hb]
  | x :: xs, [], ha, _ => by
    rw [show treeOf [] = [] from rfl, cmpList_nil_right, mavenLex_swap, ← cmpNullList_treeOf ha]
    simp
  | x :: xs, y :: ys, ha, hb => by
    obtain ⟨hx, hxs, _⟩ := goodT_cons ha
    obtain ⟨hy, hys, _⟩ := goodT_cons hb
    have ih := cmpList_treeOf hxs hys
    obtain ⟨sx, _⟩ := elemGood_cases hx
    obtain ⟨sy, _⟩ := elemGood_cases hy
    rw [mavenLex_cons_cons, treeOf_cons, treeOf_cons]
    rcases sx with sx | sx <;> rcases sy with sy | sy
    · simp only [sx, sy, beq_self_eq_true, ↓reduceIte, MavenCV.cmpList, MavenCV.cmp]
      rw [cmp_atom_same hx hy (sx.trans sy.symm), ih]
      simp [MavenCV.cmpNullList]
    · have h46 : ((46 : UInt8) == 45) = false := by decide
      simp only [sx, sy, beq_self_eq_true, ↓reduceIte, h46, Bool.false_eq_true, MavenCV.cmpList]
      have hk := key_dot_dash hy hx sy sx
      rw [OrientedCmp.eq_swap (cmp := MK.cmp), hk, cmp_list_atom hy]
      cases isNumE y <;> simp
    · have h46 : ((46 : UInt8) == 45) = false := by decide
      simp only [sx, sy, beq_self_eq_true, ↓reduceIte, h46, Bool.false_eq_true, MavenCV.cmpList]
      rw [key_dot_dash hx hy sx sy, cmp_atom_list hx]
      cases isNumE x <;> simp
    · have h46 : ((46 : UInt8) == 45) = false := by decide
      simp only [sx, sy, h46, Bool.false_eq_true, ↓reduceIte, MavenCV.cmpList]
      rw [cmp_atom_same hx hy (sx.trans sy.symm), ih]

end DepsDev.Proofs.C02Mvn
