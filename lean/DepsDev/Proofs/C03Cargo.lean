import DepsDev.Proofs.C03Embed

/-!
# C03 layer L1 for Cargo: every operator (default = caret) × every operand shape, release candidates

`(opVersionToSpan op operand) >>= contains x` equals the semver crate's `matches_impl`
of the parsed comparator on `x`, for release candidates `x`.
-/
namespace DepsDev.Proofs.C03

open DepsDev DepsDev.Semver DepsDev.Ref

set_option linter.unusedSimpArgs false

/-- The token type `constraintParser.value` passes for a Cargo comparator: a bare
version is a caret comparator, a bare wildcard pattern has no operator. -/
def tokOfCargo (op : Op) (nums : List XR) : Nat :=
  match op with
  | .none => if nums.any (· == .x) then tokEmpty else tokCaret
  | op => tokOf op

/-- Reference side, Cargo: unfold `matches_impl` to arithmetic. -/
macro "cargo_ref" : tactic => `(tactic|
  simp [cmp3, t3, Version.getNum, preInt, thenInt_lt, thenInt_gt, thenInt_le, thenInt_ge, thenInt_eq0,
    lex3_lt, lex3_gt, lex3_le, lex3_ge, lex3_eq0, comparePre_self,
    matchesImpl, matchesExact, matchesGreater, matchesLess, matchesTilde, matchesCaret, cargoComparator,
    preLt, preGt, preGe, Partial.isX, Partial.num, cmpPre_nil_left, Nat.pos_iff_ne_zero,
    Gen.SemverTables.minPre, Outcome.bind, Span.contains, Span.emptySpan, *])

/-- Linear arithmetic, after splitting the `if`s the crate's code leaves in the goal. -/
macro "arith_close" : tactic => `(tactic| first
  | omega
  | (split <;> first | omega | (split <;> first | omega | (split <;> omega))))

macro "l1_cargo_iv" : tactic => `(tactic|
  (rw [interval (sys := System.cargo) (by simp [IsGen]) _ _ (g3_mk _ _ rfl rfl (by simp)) (g3_mk _ _ rfl rfl (by simp))
        (g3_mk _ _ rfl rfl (by simp)) (by simp) (by simp)]
   simp [nmin, nmax, Version.major, Version.getNum, Version.setTail, Version.atLeast3, range3, wild_val, inf_val,
     List.findIdx?_cons, minVersion, natCast_beq_wild, natCast_ne_wild, natCast_succ_beq_wild, natCast_succ_ne_wild, *]
   refine ite_err_ok ?_ ?_
   · simp [cmp3, t3, Version.getNum, preInt, thenInt_gt, thenInt_eq0, thenInt_lt, lex3_gt, lex3_eq0, lex3_lt,
       Gen.SemverTables.minPre, comparePre_self, *] <;> omega
   · rw [Bool.eq_iff_iff]
     cargo_ref <;> arith_close))

macro "l1_cargo_dir" : tactic => `(tactic| (cargo_ref <;> arith_close))

macro "l1_cargo" : tactic => `(tactic| first
  | l1_cargo_iv
  | (split <;> first | l1_cargo_iv | l1_cargo_dir)
  | l1_cargo_dir)

/-- Operand shapes of a Cargo comparator (a bare `*` is the whole requirement, not a comparator). -/
def CShape (nums : List XR) : Prop := TShape nums ∧ nums ≠ [.x] ∧ nums ≠ [.x, .x] ∧ nums ≠ [.x, .x, .x]

/-- The statement of L1 for one Cargo operator. -/
def L1Cargo (op : Op) : Prop :=
  ∀ (nums : List XR), CShape nums → ∀ (pre : List Ident), (pre ≠ [] → nums.length = 3 ∧ XR.x ∉ nums) →
  (op = .le → pre ≠ [] → nums ≠ [.n 0, .n 0, .n 0]) →
  ∀ (x y z : Nat), x < B∞ → y < B∞ → z < B∞ →
    (opVersionToSpan (tokOfCargo op nums) (embedPartial .cargo ⟨nums, pre⟩)).bind
        (fun s => s.contains (embedVer .cargo ⟨x, y, z, []⟩) false)
      = .ok (matchesImpl (cargoComparator ⟨op, ⟨nums, pre⟩⟩) ⟨x, y, z, []⟩)

macro "l1_cargo_all" : tactic => `(tactic| (
  intro nums hs pre hpre hle x y z hx hy hz
  obtain ⟨hs, hn1, hn2, hn3⟩ := hs
  cases hs with
  | n3 a b c ha hb hc =>
    have ia := natCast_beq_inf a ha; have ja := value_inc_nat a ha; have ka := natCast_succ_ne_inf a ha
    have ib := natCast_beq_inf b hb; have jb := value_inc_nat b hb; have kb := natCast_succ_ne_inf b hb
    have ic := natCast_beq_inf c hc; have jc := value_inc_nat c hc; have kc := natCast_succ_ne_inf c hc
    by_cases h0 : a = 0 <;> by_cases h1 : b = 0 <;> by_cases h2 : c = 0 <;> cases pre <;>
      first
      | (subst h0 h1 h2; refine absurd rfl (hle rfl ?_); simp; done)
      | (simp only [tokOfCargo] <;> l1_eval <;> l1_cargo)
  | nnx a b ha hb =>
    have ia := natCast_beq_inf a ha; have ja := value_inc_nat a ha; have ka := natCast_succ_ne_inf a ha
    have ib := natCast_beq_inf b hb; have jb := value_inc_nat b hb; have kb := natCast_succ_ne_inf b hb
    have hp : pre = [] := pre_ne_nil_of hpre (by simp)
    subst hp
    by_cases h0 : a = 0 <;> by_cases h1 : b = 0 <;> simp only [tokOfCargo] <;> l1_eval <;> l1_cargo
  | n2 a b ha hb =>
    have ia := natCast_beq_inf a ha; have ja := value_inc_nat a ha; have ka := natCast_succ_ne_inf a ha
    have ib := natCast_beq_inf b hb; have jb := value_inc_nat b hb; have kb := natCast_succ_ne_inf b hb
    have hp : pre = [] := pre_ne_nil_of hpre (by simp)
    subst hp
    by_cases h0 : a = 0 <;> by_cases h1 : b = 0 <;> simp only [tokOfCargo] <;> l1_eval <;> l1_cargo
  | nxx a ha =>
    have ia := natCast_beq_inf a ha; have ja := value_inc_nat a ha; have ka := natCast_succ_ne_inf a ha
    have hp : pre = [] := pre_ne_nil_of hpre (by simp)
    subst hp
    by_cases h0 : a = 0 <;> simp only [tokOfCargo] <;> l1_eval <;> l1_cargo
  | nx a ha =>
    have ia := natCast_beq_inf a ha; have ja := value_inc_nat a ha; have ka := natCast_succ_ne_inf a ha
    have hp : pre = [] := pre_ne_nil_of hpre (by simp)
    subst hp
    by_cases h0 : a = 0 <;> simp only [tokOfCargo] <;> l1_eval <;> l1_cargo
  | n1 a ha =>
    have ia := natCast_beq_inf a ha; have ja := value_inc_nat a ha; have ka := natCast_succ_ne_inf a ha
    have hp : pre = [] := pre_ne_nil_of hpre (by simp)
    subst hp
    by_cases h0 : a = 0 <;> simp only [tokOfCargo] <;> l1_eval <;> l1_cargo
  | x1 => exact absurd rfl hn1
  | xx => exact absurd rfl hn2
  | xxx => exact absurd rfl hn3))

theorem l1_cargo_none : L1Cargo .none := by l1_cargo_all
theorem l1_cargo_caret : L1Cargo .caret := by l1_cargo_all
theorem l1_cargo_tilde : L1Cargo .tilde := by l1_cargo_all
theorem l1_cargo_eq : L1Cargo .eq := by l1_cargo_all
theorem l1_cargo_ge : L1Cargo .ge := by l1_cargo_all
theorem l1_cargo_gt : L1Cargo .gt := by l1_cargo_all
theorem l1_cargo_le : L1Cargo .le := by l1_cargo_all
theorem l1_cargo_lt : L1Cargo .lt := by l1_cargo_all

end DepsDev.Proofs.C03
