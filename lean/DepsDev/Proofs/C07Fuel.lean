import DepsDev.Proofs.C07WF

/-! C07 termination: the breadth-first loop of one pass pops at most one todo element per
version of the universe, so `Universe.fuel` is never exhausted. Invariant: every node of the
graph is registered in the `nodes` map under its version key (hence node keys are pairwise
distinct) and is a version the client knows. -/

namespace DepsDev.Resolve.Maven
open DepsDev.Gen

/-- All (package name, version string) pairs of the universe. -/
def allPairs (u : Universe) : List VK :=
  u.pkgs.flatMap fun p => p.versions.map fun v => { name := p.name, version := v.version }

theorem length_allPairs (u : Universe) : (allPairs u).length + 2 = u.fuel := by
  simp [allPairs, Universe.fuel, List.length_flatMap]

theorem clientVersion_mem_allPairs {u : Universe} {n v : Bytes} (h : (clientVersion u n v).isSome = true) :
    ({ name := n, version := v } : VK) ∈ allPairs u := by
  unfold clientVersion Universe.package? at h
  split at h
  · rename_i p hp
    have hpm := List.mem_of_find?_eq_some hp
    have hpn : p.name = n := by simpa using List.find?_some hp
    cases hv : p.versions.find? (fun w => w.version == v) with
    | none => simp [hv] at h
    | some w =>
      have hwm := List.mem_of_find?_eq_some hv
      have hwv : w.version = v := by simpa using List.find?_some hv
      simp only [allPairs, List.mem_flatMap, List.mem_map]
      exact ⟨p, hpm, w, hwm, by rw [hpn, hwv]⟩
  · simp at h

theorem clientVersions_mem {u : Universe} {name : Bytes} {vs : List Bytes} {v : Bytes}
    (h : clientVersions u name = some vs) (hv : v ∈ vs) : (clientVersion u name v).isSome = true := by
  unfold clientVersions at h
  unfold clientVersion
  split at h
  · rename_i p hp
    cases h
    simp only [List.mem_map, List.mem_filter] at hv
    obtain ⟨w, ⟨hwm, _⟩, rfl⟩ := hv
    rw [List.find?_isSome]
    exact ⟨w, hwm, by simp⟩
  · split at h
    · cases h; cases hv
    · cases h

theorem scan_versions {u : Universe} {name : Bytes} (P : Bytes → Prop)
    (hP : ∀ vs, clientVersions u name = some vs → ∀ v ∈ vs, P v) :
    ∀ (rs : List Bytes) (i : Nat) (s s' : Scan), scan u name rs i s = .ok s' →
      (∀ v ∈ s.versions, P v) → ∀ v ∈ s'.versions, P v := by
  intro rs
  induction rs with
  | nil => intro i s s' h hs; simp only [scan] at h; cases h; exact hs
  | cons r rs ih =>
    intro i s s' h hs
    simp only [scan] at h
    split at h
    · cases h
    · exact ih _ _ _ h hs
    · split at h
      · cases h
      · rename_i s1 hs1
        have h1 : ∀ v ∈ s1.versions, P v := by
          split at hs1
          · cases hs1; exact hs
          · split at hs1
            · cases hs1
            · rename_i vs hvs
              cases hs1
              intro v hv
              exact hP vs hvs v (by simpa using hv)
        split at h
        · cases h
        · exact ih _ _ _ h h1

theorem pick_exists {u : Universe} {name : Bytes} {s : Scan} :
    ∀ (l : List Bytes) (i : Nat) (v : Bytes), pick u name s l i = .ok v →
      v ∈ s.versions ∨ (clientVersion u name v).isSome = true := by
  intro l
  induction l with
  | nil =>
    intro i v h
    simp only [pick] at h
    split at h
    · split at h
      · rename_i w hw; cases h; exact .inl (List.mem_of_find?_eq_some hw)
      · cases h
    · cases h
  | cons vk rest ih =>
    intro i v h
    simp only [pick] at h
    split at h
    · rename_i w hw
      cases h
      split at hw
      · exact .inl (List.mem_of_find?_eq_some hw)
      · cases hw
    · split at h
      · split at h
        · rename_i hc; cases h; exact .inr (by simp [hc])
        · cases h
      · exact ih _ _ h

/-- What `findMatch` returns is a version the client knows. -/
theorem findMatch_exists {u : Universe} {name : Bytes} {reqs : List Bytes} {v : Bytes}
    (h : findMatch u name reqs = .ok v) : (clientVersion u name v).isSome = true := by
  unfold findMatch at h
  split at h
  · cases h
  · split at h
    · rename_i e hs
      have : ∀ (rs : List Bytes) (i : Nat) (s : Scan) (w : Bytes), scan u name rs i s ≠ .error (.ok w) := by
        intro rs
        induction rs with
        | nil => intro i s w h; simp [scan] at h
        | cons r rs ih =>
          intro i s w h
          simp only [scan] at h
          split at h
          · cases h
          · exact ih _ _ _ h
          · split at h
            · rename_i e' he'
              cases h
              split at he'
              · cases he'
              · split at he'
                · cases he'
                · cases he'
            · split at h
              · cases h
              · exact ih _ _ _ h
      subst h
      exact absurd hs (this _ _ _ _)
    · rename_i s hs
      have hv := scan_versions (fun v => (clientVersion u name v).isSome = true)
        (fun vs hvs v hv => clientVersions_mem hvs hv) _ _ _ _ hs (by simp)
      rcases pick_exists _ _ _ h with h1 | h1
      · exact hv v h1
      · exact h1

/-- A duplicate-free list whose elements all lie in `L` is no longer than `L`. -/
theorem nodup_subset_length {α : Type} [DecidableEq α] :
    ∀ (l L : List α), l.Nodup → (∀ x ∈ l, x ∈ L) → l.length ≤ L.length := by
  intro l
  induction l with
  | nil => intro L _ _; simp
  | cons x l ih =>
    intro L hn hs
    rw [List.nodup_cons] at hn
    have hx : x ∈ L := hs x (by simp)
    have := ih (L.erase x) hn.2 (by
      intro y hy
      have hne : y ≠ x := fun h => hn.1 (h ▸ hy)
      exact (List.mem_erase_of_ne hne).mpr (hs y (by simp [hy])))
    rw [List.length_erase_of_mem hx] at this
    have hpos : 0 < L.length := List.length_pos_of_mem hx
    simp only [List.length_cons]
    omega

structure FuelInv (u : Universe) (s : State) : Prop where
  complete : ∀ i v, s.g.vkAt i = some v → s.nodes.lookup v = some i
  known : ∀ i v, s.g.vkAt i = some v → v ∈ allPairs u

theorem fuelInv_bound {u : Universe} {s : State} (h : FuelInv u s) : s.g.nodes.length ≤ (allPairs u).length := by
  have hlen : (s.g.nodes.map (·.vk)).length = s.g.nodes.length := by simp
  rw [← hlen]
  have hat : ∀ i (hi : i < (s.g.nodes.map (·.vk)).length), s.g.vkAt i = some ((s.g.nodes.map (·.vk))[i]) := by
    intro i hi
    have hi' : i < s.g.nodes.length := by simpa using hi
    simp [Graph.vkAt, List.getElem?_eq_getElem hi']
  apply nodup_subset_length
  · rw [List.Nodup, List.pairwise_iff_getElem]
    intro i j hi hj hij heq
    have h1 := h.complete i _ (hat i hi)
    have h2 := h.complete j _ (hat j hj)
    rw [heq, h2] at h1
    cases h1
    omega
  · intro x hx
    obtain ⟨i, hi, rfl⟩ := List.getElem_of_mem hx
    exact h.known i _ (hat i hi)

theorem fuel_step {u : Universe} {mgt : List (PackageKey × Bytes)} {first : Bool} {cur : Todo} {d : Dep}
    {s s' : State} (hy : FuelInv u s) (hs : DepStep u mgt first cur d s s') :
    FuelInv u s' ∧ s'.g.nodes.length + s.todo.length = s.g.nodes.length + s'.todo.length := by
  cases hs with
  | excluded _ => exact ⟨hy, rfl⟩
  | noMatch _ _ =>
    exact ⟨⟨fun i v h => hy.complete i v (by simpa using h), fun i v h => hy.known i v (by simpa using h)⟩, by simp⟩
  | edge _ _ _ _ _ _ hadd =>
    obtain ⟨_, _, rfl⟩ := addEdge_some hadd
    exact ⟨⟨hy.complete, hy.known⟩, rfl⟩
  | newNode mv g2 _ hfm _ _ hn hadd =>
    obtain ⟨_, _, rfl⟩ := addEdge_some hadd
    have hcases : ∀ i v, (s.g.addNode { name := d.name, version := mv }).1.vkAt i = some v →
        s.g.vkAt i = some v ∨ (i = s.g.nodes.length ∧ v = { name := d.name, version := mv }) := by
      intro i v h
      have hl := vkAt_lt h
      simp only [nodes_length_addNode] at hl
      by_cases hi : i < s.g.nodes.length
      · obtain ⟨w, hw⟩ := vkAt_some_of_lt hi
        have := vkAt_addNode_old (v := { name := d.name, version := mv }) hw
        rw [this] at h
        cases h
        exact .inl hw
      · have : i = s.g.nodes.length := by omega
        subst this
        rw [vkAt_addNode_new] at h
        cases h
        exact .inr ⟨rfl, rfl⟩
    refine ⟨⟨?_, ?_⟩, by simp; omega⟩
    · intro i v h
      simp only [vkAt_edges_irrel] at h
      rcases hcases i v h with h | ⟨rfl, rfl⟩
      · have hl := hy.complete i v h
        simp only [lookup_cons_eq]
        split
        · rename_i hk; rw [hk, hn] at hl; cases hl
        · exact hl
      · simp [lookup_cons_eq]
    · intro i v h
      simp only [vkAt_edges_irrel] at h
      rcases hcases i v h with h | ⟨rfl, rfl⟩
      · exact hy.known i v h
      · exact clientVersion_mem_allPairs (findMatch_exists hfm)

theorem fuel_processDeps {u : Universe} {mgt : List (PackageKey × Bytes)} {first : Bool} {cur : Todo} :
    ∀ (ds : List Dep) (s s' : State), FuelInv u s → processDeps u mgt first cur ds s = .ok s' →
      FuelInv u s' ∧ s'.g.nodes.length + s.todo.length = s.g.nodes.length + s'.todo.length := by
  intro ds
  induction ds with
  | nil => intro s s' hy h; simp only [processDeps] at h; cases h; exact ⟨hy, rfl⟩
  | cons d ds ih =>
    intro s s' hy h
    simp only [processDeps] at h
    split at h
    · cases h
    · rename_i s1 h1
      obtain ⟨hy1, hl1⟩ := fuel_step hy (processDep_ok h1)
      obtain ⟨hy2, hl2⟩ := ih s1 s' hy1 h
      exact ⟨hy2, by omega⟩

/-- With fuel at least `(#versions − #nodes) + #todo` the loop never runs out of fuel. -/
theorem loop_fuel {u : Universe} {mgt : List (PackageKey × Bytes)} :
    ∀ (fuel : Nat) (first : Bool) (s : State), FuelInv u s →
      ((allPairs u).length - s.g.nodes.length) + s.todo.length ≤ fuel →
      loop u mgt fuel first s ≠ .ok none := by
  intro fuel
  induction fuel with
  | zero =>
    intro first s _ hm
    have : s.todo = [] := List.eq_nil_of_length_eq_zero (by omega)
    simp [loop, this]
  | succ fuel ih =>
    intro first s hy hm
    simp only [loop]
    split
    · simp
    · rename_i cur rest htodo
      rw [htodo] at hm
      simp only [List.length_cons] at hm
      split
      · apply ih
        · exact ⟨hy.complete, hy.known⟩
        · simp only; omega
      · split
        · simp
        · split
          · simp
          · rename_i s1 h1
            have hy0 : FuelInv u { s with todo := rest } := ⟨hy.complete, hy.known⟩
            obtain ⟨hy1, hl1⟩ := fuel_processDeps _ _ _ hy0 h1
            have hb := fuelInv_bound hy1
            apply ih
            · exact ⟨hy1.complete, hy1.known⟩
            · simp only at hl1 ⊢; omega

theorem resolveOnce_fuel {u : Universe} {root : VK} {reqs : ReqMap} :
    resolveOnce u root reqs u.fuel ≠ .ok none := by
  unfold resolveOnce
  split
  · simp
  · rename_i ver hver
    split
    · simp
    · apply loop_fuel
      · refine ⟨?_, ?_⟩
        · intro i v h
          have hl := vkAt_lt h
          simp only [initState, List.length_singleton] at hl
          have : i = 0 := by omega
          subst this
          have : (initState root reqs).g.vkAt 0 = some root := rfl
          rw [this] at h
          cases h
          simp [initState, lookup_cons_eq]
        · intro i v h
          have hl := vkAt_lt h
          simp only [initState, List.length_singleton] at hl
          have : i = 0 := by omega
          subst this
          have : (initState root reqs).g.vkAt 0 = some root := rfl
          rw [this] at h
          cases h
          exact clientVersion_mem_allPairs (by simp [hver])
      · have := length_allPairs u
        simp only [initState, List.length_singleton]
        omega

theorem retry_fuel {u : Universe} {root : VK} :
    ∀ (n : Nat) (reqs : ReqMap) (passes : Nat), retry u root u.fuel n reqs passes ≠ .outOfFuel := by
  intro n
  induction n with
  | zero =>
    intro reqs passes
    unfold retry
    split
    · simp
    · rename_i h; exact absurd h resolveOnce_fuel
    · simp
    · simp
  | succ n ih =>
    intro reqs passes
    unfold retry
    split
    · simp
    · rename_i h; exact absurd h resolveOnce_fuel
    · exact ih _ _
    · simp

end DepsDev.Resolve.Maven
