import DepsDev.Proofs.C06Step

/-! Helper lemmas for C06: the static invariant `SInv` of the resolver state (tree
skeleton, graph nodes, edges) and its preservation by the three outcomes of `stepDep`. -/

namespace DepsDev.Resolve.Npm

theorem nodup_of_map {α β : Type} {f : α → β} {l : List α} (h : (l.map f).Nodup) : l.Nodup :=
  List.Pairwise.of_map f (fun _ _ hab heq => hab (congrArg f heq)) h

theorem inj_of_nodup_map {α β : Type} {f : α → β} {l : List α} (h : (l.map f).Nodup) {a b : α}
    (ha : a ∈ l) (hb : b ∈ l) (hf : f a = f b) : a = b := by
  induction l with
  | nil => cases ha
  | cons x l ih =>
    simp only [List.map_cons, List.nodup_cons] at h
    rcases List.mem_cons.1 ha with rfl | ha' <;> rcases List.mem_cons.1 hb with rfl | hb'
    · rfl
    · exact absurd (List.mem_map.2 ⟨b, hb', hf.symm⟩) h.1
    · exact absurd (List.mem_map.2 ⟨a, ha', hf⟩) h.1
    · exact ih h.2 ha' hb'

/-- Graph reachability from node 0 along the edges. -/
inductive Reach (edges : List Edge) : Nat → Prop
  | root : Reach edges 0
  | step (e : Edge) : Reach edges e.src → e ∈ edges → Reach edges e.dst

theorem Reach.mono {es es' : List Edge} (h : ∀ e ∈ es, e ∈ es') {i : Nat} (r : Reach es i) :
    Reach es' i := by
  induction r with
  | root => exact .root
  | step e _ he ih => exact .step e ih (h e he)

/-- The directory path as Node sees it: slot names only. -/
def names (p : Path) : List Name := p.map Slot.name

/-- Some slot of the tree is an alias slot. -/
def HasAliasSlot (sk : List SEntry) : Prop := ∃ e ∈ sk, ∃ s ∈ e.path, s.alias = true

/-- What the branch that added the edge `e` guarantees about its target `g = nodes[e.dst]`,
`dvers` being the client's answer for the requirement:
1. fresh install: `g` is the pick of lines 321–332 among `dvers`;
2. reuse of a plain child: `g`'s key is the key of one of `dvers`;
3. reuse of a plain child for the requirement `*`: `g` is a copy of the required package;
4. reuse through the alias path (the dependency has an alias, or the slot found is an alias
   slot): only `g`'s version string was matched against the requirement. -/
def EdgeOK (u : Universe) (sk : List SEntry) (nodes : List GNode) (e : Edge) : Prop :=
  ∃ dvers g, u.matchingVersions e.imp.name e.imp.req = .ok dvers ∧ nodes[e.dst]? = some g ∧
    ((e.fresh = true ∧ ∃ v, wouldPick u dvers = .ok (some v) ∧ g.name = v.name ∧ g.version = v.version) ∨
     (e.fresh = false ∧ ∃ d ∈ dvers, g.name = d.name ∧ g.version = d.version) ∨
     (e.fresh = false ∧ e.imp.req = Name.star ∧ e.imp.alias = Name.empty ∧ g.name = e.imp.name) ∨
     (e.fresh = false ∧ (e.imp.alias ≠ Name.empty ∨ HasAliasSlot sk) ∧
        u.constraintMatch e.imp.req g.version = .ok true))

/-- Graph nodes only grow: more nodes, more errors; keys never change. -/
def NodesLe (a b : List GNode) : Prop :=
  ∀ (i : Nat) (g : GNode), a[i]? = some g → ∃ g', b[i]? = some g' ∧ g'.name = g.name ∧ g'.version = g.version ∧
    ∀ r ∈ g.errs, r ∈ g'.errs

theorem NodesLe.refl (a : List GNode) : NodesLe a a := fun _ g h => ⟨g, h, rfl, rfl, fun _ hr => hr⟩

theorem NodesLe.trans {a b c : List GNode} (h1 : NodesLe a b) (h2 : NodesLe b c) : NodesLe a c := by
  intro i g hg
  obtain ⟨g1, hg1, hn1, hv1, he1⟩ := h1 i g hg
  obtain ⟨g2, hg2, hn2, hv2, he2⟩ := h2 i g1 hg1
  exact ⟨g2, hg2, hn2.trans hn1, hv2.trans hv1, fun r hr => he2 r (he1 r hr)⟩

theorem NodesLe.append (a : List GNode) (x : GNode) : NodesLe a (a ++ [x]) := by
  intro i g hg
  have hlt : i < a.length := by
    rcases Nat.lt_or_ge i a.length with h | h
    · exact h
    · rw [List.getElem?_eq_none h] at hg; cases hg
  exact ⟨g, by rw [List.getElem?_append_left hlt]; exact hg, rfl, rfl, fun _ hr => hr⟩

theorem addErrL_length (nodes : List GNode) (n : Nat) (r : Name × Name) :
    (addErrL nodes n r).length = nodes.length := by
  induction nodes generalizing n with
  | nil => cases n <;> rfl
  | cons g rest ih => cases n <;> simp [addErrL, ih]

theorem addErrL_getElem? (nodes : List GNode) (n : Nat) (r : Name × Name) (i : Nat) :
    (addErrL nodes n r)[i]? =
      (nodes[i]?).map fun g => if i = n then { g with errs := g.errs ++ [r] } else g := by
  induction nodes generalizing n i with
  | nil => cases n <;> simp [addErrL]
  | cons g rest ih =>
    cases n with
    | zero =>
      cases i with
      | zero => simp [addErrL]
      | succ i => simp [addErrL]
    | succ n =>
      cases i with
      | zero => simp [addErrL]
      | succ i => simp [addErrL, ih]

theorem NodesLe.addErr (nodes : List GNode) (n : Nat) (r : Name × Name) :
    NodesLe nodes (addErrL nodes n r) := by
  intro i g hg
  rw [addErrL_getElem?, hg]
  by_cases h : i = n
  · refine ⟨{ g with errs := g.errs ++ [r] }, by simp [h], rfl, rfl, fun x hx => ?_⟩
    exact List.mem_append_left _ hx
  · exact ⟨g, by simp [h], rfl, rfl, fun _ hx => hx⟩

theorem HasAliasSlot.mono {sk sk' : List SEntry} (h : ∀ e ∈ sk, e ∈ sk') (ha : HasAliasSlot sk) :
    HasAliasSlot sk' := by
  obtain ⟨e, he, s, hs, hal⟩ := ha
  exact ⟨e, h e he, s, hs, hal⟩

theorem EdgeOK.mono {u : Universe} {sk sk' : List SEntry} {nodes nodes' : List GNode} {e : Edge}
    (hs : ∀ x ∈ sk, x ∈ sk') (hn : NodesLe nodes nodes') (h : EdgeOK u sk nodes e) :
    EdgeOK u sk' nodes' e := by
  obtain ⟨dvers, g, hm, hg, hcase⟩ := h
  obtain ⟨g', hg', hname, hver, _⟩ := hn _ g hg
  refine ⟨dvers, g', hm, hg', ?_⟩
  rcases hcase with ⟨hf, v, hp, h1, h2⟩ | ⟨hf, d, hd, h1, h2⟩ | ⟨hf, hstar, hal, h1⟩ | ⟨hf, hal, hc⟩
  · exact Or.inl ⟨hf, v, hp, hname.trans h1, hver.trans h2⟩
  · exact Or.inr (Or.inl ⟨hf, d, hd, hname.trans h1, hver.trans h2⟩)
  · exact Or.inr (Or.inr (Or.inl ⟨hf, hstar, hal, hname.trans h1⟩))
  · refine Or.inr (Or.inr (Or.inr ⟨hf, ?_, by rw [hver]; exact hc⟩))
    rcases hal with h | h
    · exact Or.inl h
    · exact Or.inr (h.mono hs)

/-- The static invariant of the resolver state. -/
structure SInv (u : Universe) (sk : List SEntry) (nodes : List GNode) (edges : List Edge) : Prop where
  /-- T1: no two entries have the same directory path of names. -/
  names_nodup : (sk.map fun e => names e.path).Nodup
  prefix_closed : ∀ s p, (s :: p) ∈ sk.map (·.path) → p ∈ sk.map (·.path)
  root_mem : [] ∈ sk.map (·.path)
  id_lt : ∀ e ∈ sk, e.id < nodes.length
  id_node : ∀ e ∈ sk, ∀ g, nodes[e.id]? = some g → g.name = e.ver.name ∧ g.version = e.ver.version
  id_surj : ∀ i, i < nodes.length → ∃ e ∈ sk, e.id = i
  id_nodup : (sk.map (·.id)).Nodup
  /-- E3 -/
  reach : ∀ i, i < nodes.length → Reach edges i
  edge_lt : ∀ e ∈ edges, e.src < nodes.length ∧ e.dst < nodes.length
  /-- E1, E4 -/
  edge_ok : ∀ e ∈ edges, EdgeOK u sk nodes e
  ideps : ∀ e ∈ sk, ∃ reqs, u.requirements e.ver.name e.ver.version = some reqs ∧
    e.ideps = regularImports reqs
  slot_name : ∀ e ∈ sk, ∀ k p, e.path = ⟨false, k⟩ :: p → e.ver.name = k

theorem SInv.keys_nodup {u : Universe} {sk : List SEntry} {nodes : List GNode} {edges : List Edge}
    (h : SInv u sk nodes edges) : (sk.map (·.path)).Nodup := by
  have := h.names_nodup
  have h2 : (sk.map fun e => names e.path) = (sk.map (·.path)).map names := by simp
  rw [h2] at this
  exact nodup_of_map this

/-- Distinct entries have distinct name paths: name paths identify entries. -/
theorem SInv.names_inj {u : Universe} {sk : List SEntry} {nodes : List GNode} {edges : List Edge}
    (h : SInv u sk nodes edges) {p q : Path} (hp : p ∈ sk.map (·.path)) (hq : q ∈ sk.map (·.path))
    (hn : names p = names q) : p = q := by
  have h2 : (sk.map fun e => names e.path) = (sk.map (·.path)).map names := by simp
  have hnd := h.names_nodup
  rw [h2] at hnd
  exact inj_of_nodup_map hnd hp hq hn

theorem SInv.addErr {u : Universe} {sk : List SEntry} {nodes : List GNode} {edges : List Edge}
    (h : SInv u sk nodes edges) (n : Nat) (r : Name × Name) : SInv u sk (addErrL nodes n r) edges := by
  have hle := NodesLe.addErr nodes n r
  refine { h with id_lt := ?_, id_node := ?_, id_surj := ?_, reach := ?_, edge_lt := ?_, edge_ok := ?_ }
  · intro e he; rw [addErrL_length]; exact h.id_lt e he
  · intro e he g hg
    rw [addErrL_getElem?] at hg
    cases h0 : nodes[e.id]? with
    | none => rw [h0] at hg; cases hg
    | some g0 =>
      rw [h0] at hg
      simp only [Option.map_some, Option.some.injEq] at hg
      have := h.id_node e he g0 h0
      subst hg
      split <;> exact this
  · intro i hi; rw [addErrL_length] at hi; exact h.id_surj i hi
  · intro i hi; rw [addErrL_length] at hi; exact h.reach i hi
  · intro e he; rw [addErrL_length]; exact h.edge_lt e he
  · intro e he; exact (h.edge_ok e he).mono (fun _ hx => hx) hle

/-- Reuse of an installed node: one more edge, nothing else changes. -/
theorem SInv.reuse {u : Universe} {sk : List SEntry} {nodes : List GNode} {edges : List Edge}
    (h : SInv u sk nodes edges) (e : Edge) (hsrc : e.src < nodes.length) (hdst : e.dst < nodes.length)
    (hok : EdgeOK u sk nodes e) : SInv u sk nodes (edges ++ [e]) := by
  refine { h with reach := ?_, edge_lt := ?_, edge_ok := ?_ }
  · intro i hi; exact (h.reach i hi).mono (fun x hx => List.mem_append_left _ hx)
  · intro x hx
    rcases List.mem_append.1 hx with hx | hx
    · exact h.edge_lt x hx
    · simp only [List.mem_singleton] at hx; subst hx; exact ⟨hsrc, hdst⟩
  · intro x hx
    rcases List.mem_append.1 hx with hx | hx
    · exact h.edge_ok x hx
    · simp only [List.mem_singleton] at hx; subst hx; exact hok

/-- A fresh install: a new tree entry in a free slot of an existing directory, a new graph
node for it and the edge from the current node. -/
theorem SInv.fresh {u : Universe} {sk : List SEntry} {nodes : List GNode} {edges : List Edge}
    (h : SInv u sk nodes edges) (slot : Slot) (parent : Path) (ver : Version) (ideps : List Import)
    (e : Edge)
    (hparent : parent ∈ sk.map (·.path))
    (hfree : ∀ b, (⟨b, slot.name⟩ :: parent : Path) ∉ sk.map (·.path))
    (hideps : ∃ reqs, u.requirements ver.name ver.version = some reqs ∧ ideps = regularImports reqs)
    (hslot : slot.alias = false → slot.name = ver.name)
    (hsrc : e.src < nodes.length) (hdst : e.dst = nodes.length)
    (hok : EdgeOK u (sk ++ [⟨slot :: parent, ver, ideps, nodes.length⟩])
      (nodes ++ [⟨ver.name, ver.version, []⟩]) e) :
    SInv u (sk ++ [⟨slot :: parent, ver, ideps, nodes.length⟩])
      (nodes ++ [⟨ver.name, ver.version, []⟩]) (edges ++ [e]) := by
  have hsub : ∀ x ∈ sk, x ∈ sk ++ [(⟨slot :: parent, ver, ideps, nodes.length⟩ : SEntry)] :=
    fun x hx => List.mem_append_left _ hx
  have hle := NodesLe.append nodes ⟨ver.name, ver.version, []⟩
  constructor
  · -- names_nodup
    simp only [List.map_append, List.map_cons, List.map_nil]
    rw [List.nodup_append]
    refine ⟨h.names_nodup, by simp, ?_⟩
    intro a ha b hb
    simp only [List.mem_singleton] at hb
    subst hb
    intro hab
    obtain ⟨x, hx, hxn⟩ := List.mem_map.1 ha
    -- x.path has the same names as slot :: parent
    rw [hab] at hxn
    cases hxp : x.path with
    | nil => rw [hxp] at hxn; simp [names] at hxn
    | cons s' q' =>
      rw [hxp] at hxn
      simp only [names, List.map_cons, List.cons.injEq] at hxn
      have hxmem : (s' :: q') ∈ sk.map (·.path) := hxp ▸ List.mem_map.2 ⟨x, hx, rfl⟩
      have hq' : q' ∈ sk.map (·.path) := h.prefix_closed s' q' hxmem
      have : q' = parent := h.names_inj hq' hparent hxn.2
      subst this
      have hs' : s' = ⟨s'.alias, slot.name⟩ := by
        cases s'; simp_all
      rw [hs'] at hxmem
      exact hfree _ hxmem
  · -- prefix_closed
    intro s p hsp
    simp only [List.map_append, List.map_cons, List.map_nil, List.mem_append, List.mem_singleton] at hsp ⊢
    rcases hsp with hsp | hsp
    · exact Or.inl (h.prefix_closed s p hsp)
    · simp only [List.cons.injEq] at hsp; exact Or.inl (hsp.2 ▸ hparent)
  · simp only [List.map_append, List.mem_append]; exact Or.inl h.root_mem
  · -- id_lt
    intro x hx
    simp only [List.length_append, List.length_singleton]
    rcases List.mem_append.1 hx with hx | hx
    · exact Nat.lt_succ_of_lt (h.id_lt x hx)
    · simp only [List.mem_singleton] at hx; subst hx; exact Nat.lt_succ_self _
  · -- id_node
    intro x hx g hg
    rcases List.mem_append.1 hx with hx | hx
    · rw [List.getElem?_append_left (h.id_lt x hx)] at hg
      exact h.id_node x hx g hg
    · simp only [List.mem_singleton] at hx; subst hx
      simp at hg
      subst hg
      exact ⟨rfl, rfl⟩
  · -- id_surj
    intro i hi
    simp only [List.length_append, List.length_singleton] at hi
    rcases Nat.lt_or_ge i nodes.length with hlt | hge
    · obtain ⟨x, hx, hxi⟩ := h.id_surj i hlt
      exact ⟨x, hsub x hx, hxi⟩
    · have : i = nodes.length := by omega
      exact ⟨_, List.mem_append_right _ (List.mem_singleton.2 rfl), this.symm⟩
  · -- id_nodup
    simp only [List.map_append, List.map_cons, List.map_nil]
    rw [List.nodup_append]
    refine ⟨h.id_nodup, by simp, ?_⟩
    intro a ha b hb
    simp only [List.mem_singleton] at hb
    subst hb
    obtain ⟨x, hx, rfl⟩ := List.mem_map.1 ha
    exact Nat.ne_of_lt (h.id_lt x hx)
  · -- reach
    intro i hi
    simp only [List.length_append, List.length_singleton] at hi
    rcases Nat.lt_or_ge i nodes.length with hlt | hge
    · exact (h.reach i hlt).mono (fun x hx => List.mem_append_left _ hx)
    · have : i = nodes.length := by omega
      subst this
      rw [← hdst]
      exact .step e ((h.reach e.src hsrc).mono (fun x hx => List.mem_append_left _ hx))
        (List.mem_append_right _ (List.mem_singleton.2 rfl))
  · -- edge_lt
    intro x hx
    simp only [List.length_append, List.length_singleton]
    rcases List.mem_append.1 hx with hx | hx
    · have := h.edge_lt x hx; omega
    · simp only [List.mem_singleton] at hx; subst hx; omega
  · -- edge_ok
    intro x hx
    rcases List.mem_append.1 hx with hx | hx
    · exact (h.edge_ok x hx).mono hsub hle
    · simp only [List.mem_singleton] at hx; subst hx; exact hok
  · -- ideps
    intro x hx
    rcases List.mem_append.1 hx with hx | hx
    · exact h.ideps x hx
    · simp only [List.mem_singleton] at hx; subst hx; exact hideps
  · -- slot_name
    intro x hx k p hxp
    rcases List.mem_append.1 hx with hx | hx
    · exact h.slot_name x hx k p hxp
    · simp only [List.mem_singleton] at hx; subst hx
      simp only [List.cons.injEq] at hxp
      have h1 : slot.alias = false := by rw [hxp.1]
      have h2 : slot.name = k := by rw [hxp.1]
      rw [← h2]; exact (hslot h1).symm

end DepsDev.Resolve.Npm
