import DepsDev.Proofs.C03L3NpmTilde

/-!
# C03 layer L3 for npm, operator `tilde`: operands with a prerelease tag; `L3Npm .tilde`
-/
namespace DepsDev.Proofs.C03

open DepsDev DepsDev.Semver DepsDev.Ref

set_option linter.unusedSimpArgs false
set_option linter.unusedVariables false

theorem l3_pre_lt_tilde : L3PreO .tilde .lt := by l3_pre
theorem l3_pre_eq_tilde : L3PreO .tilde .eq := by l3_pre
theorem l3_pre_gt_tilde : L3PreO .tilde .gt := by l3_pre

theorem l3_npm_tilde : L3Npm .tilde :=
  l3_assemble _ l3_full_tilde (l3_pre_assemble _ l3_pre_lt_tilde l3_pre_eq_tilde l3_pre_gt_tilde) l3_part_tilde

end DepsDev.Proofs.C03
