import DepsDev.Proofs.C03L3InclGe

/-!
# C03 layer L3 for npm, operator `ge`: interval membership, operands with a prerelease tag; `L1PNpm .ge`
-/
namespace DepsDev.Proofs.C03

open DepsDev DepsDev.Semver DepsDev.Ref

set_option linter.unusedSimpArgs false
set_option linter.unusedVariables false

theorem l1p_pre_lt_ge : L1PPreO .ge .lt := by l1p_pre
theorem l1p_pre_eq_ge : L1PPreO .ge .eq := by l1p_pre
theorem l1p_pre_gt_ge : L1PPreO .ge .gt := by l1p_pre

theorem l1p_npm_ge : L1PNpm .ge :=
  l1p_assemble _ l1p_full_ge (l1p_pre_assemble _ l1p_pre_lt_ge l1p_pre_eq_ge l1p_pre_gt_ge) l1p_part_ge

end DepsDev.Proofs.C03
