import DepsDev.Proofs.C10Canon
import DepsDev.Model.Semver.Set

/-!
# C11 — ingredients: `strings.Split` on joined text, the bytes of canonical text, span bounds

`splitOn_joinWith`; canonical version text contains none of `, : [ ] ( ) { } <`
(`render_okByte`, `okByte_not_sep`); `bound_roundtrip` / `unit_roundtrip`: a span bound printed
by `span.String` and parsed back by `parseSpan`'s calls.
-/
namespace DepsDev.Proofs.C11
open DepsDev DepsDev.Semver DepsDev.Proofs.C10 DepsDev.Proofs.Digits

/-! ## `strings.Split` undoes joining with a separator that occurs in no part -/

theorem splitOn_go_block (sep : UInt8) (p : Bytes) (hp : ∀ c ∈ p, c ≠ sep) (cur tail : Bytes) :
    splitOn.go sep cur (p ++ tail) = splitOn.go sep (cur ++ p) tail := by
  induction p generalizing cur with
  | nil => simp
  | cons c r ih =>
    have hc : (c == sep) = false := by simpa using hp c (by simp)
    simp only [List.cons_append, splitOn.go, hc, Bool.false_eq_true, ↓reduceIte]
    rw [ih (fun x hx => hp x (by simp [hx]))]
    simp

theorem splitOn_joinWith (sep : UInt8) (p : Bytes) (ps : List Bytes) (h : ∀ q ∈ p :: ps, ∀ c ∈ q, c ≠ sep) :
    splitOn sep (joinWith sep (p :: ps)) = p :: ps := by
  unfold splitOn
  suffices hgen : ∀ cur, splitOn.go sep cur (joinWith sep (p :: ps)) = (cur ++ p) :: ps by simpa using hgen []
  induction ps generalizing p with
  | nil =>
    intro cur
    have := splitOn_go_block sep p (h p (by simp)) cur []
    simp only [List.append_nil] at this
    simp [joinWith, this, splitOn.go]
  | cons q qs ih =>
    intro cur
    have e : joinWith sep (p :: q :: qs) = p ++ (sep :: joinWith sep (q :: qs)) := by simp [joinWith]
    rw [e, splitOn_go_block sep p (h p (by simp))]
    simp only [splitOn.go, beq_self_eq_true, ↓reduceIte]
    rw [ih q (fun x hx => h x (by simp at hx ⊢; right; exact hx)) []]
    simp

/-! ## The bytes of canonical text -/

/-- Bytes that occur in canonical version text: lexer-accepted ASCII and the bytes of '∞'. -/
def okByte (c : UInt8) : Bool := isVS c || c == 0xE2 || c == 0x88 || c == 0x9E

theorem okByte_not_sep : ∀ c : UInt8, okByte c = true →
    c ≠ 44 ∧ c ≠ 58 ∧ c ≠ 91 ∧ c ≠ 93 ∧ c ≠ 40 ∧ c ≠ 41 ∧ c ≠ 123 ∧ c ≠ 125 ∧ c ≠ 60 := by
  apply forall_uint8; decide +kernel

theorem ident_okByte (s : System) : ∀ c : UInt8, identByte s c = true → okByte c = true := by
  cases hs : (s == System.nuget)
  · simp only [identByte, hs, Bool.false_and, Bool.or_false]
    apply forall_uint8; decide +kernel
  · simp only [identByte, hs, Bool.true_and]
    apply forall_uint8; decide +kernel

theorem digit_okByte : ∀ c : UInt8, isDigitB c = true → okByte c = true := by
  apply forall_uint8; decide +kernel

theorem joinWith_all (P : UInt8 → Bool) (sep : UInt8) (hs : P sep = true) (ps : List Bytes)
    (h : ∀ p ∈ ps, p.all P = true) : (joinWith sep ps).all P = true := by
  induction ps with
  | nil => rfl
  | cons p ps ih =>
    cases ps with
    | nil => simpa [joinWith] using h p (by simp)
    | cons q qs =>
      have h1 := h p (by simp)
      have h2 := ih (fun x hx => h x (by simp at hx ⊢; right; exact hx))
      simp only [joinWith, List.all_append, List.all_cons, List.all_nil, Bool.and_true, h1, hs, Bool.true_and]
      exact h2

theorem valueBytes_okByte (ai : Bool) (x : Int) (hx : NumOk ai x) : (valueBytes x).all okByte = true := by
  rcases hx with ⟨h0, h1 | ⟨_, rfl⟩⟩
  · rw [valueBytes_num x h0 h1, List.all_eq_true]
    intro c hc
    exact digit_okByte c (List.all_eq_true.mp (natToBytes_all_digit _) c hc)
  · rw [← infinity_lit, valueBytes_inf]; decide

theorem identOk_okByte (s : System) (i : Bytes) (h : IdentOk s i = true) : i.all okByte = true := by
  simp only [IdentOk, Bool.and_eq_true, List.all_eq_true] at h ⊢
  exact fun c hc => ident_okByte s c (h.1.2 c hc)

theorem render_okByte (s : System) (ai : Bool) (a : SemVerAst) (ha : a.Valid s ai) :
    (a.render s).all okByte = true := by
  obtain ⟨h3, hlen, hnum, hn4, hpre, hbuild⟩ := ha
  simp only [SemVerAst.render, List.all_append, Bool.and_eq_true]
  refine ⟨?_, ?_, ?_, ?_⟩
  · unfold lead; split <;> decide
  · cases hn : a.nums with
    | nil => rfl
    | cons x xs =>
      rw [hn] at hnum
      simp only [renderNums, List.all_append, Bool.and_eq_true]
      refine ⟨valueBytes_okByte ai x (hnum x (by simp)), ?_⟩
      rw [List.all_eq_true]
      intro c hc
      simp only [dotNums, List.mem_flatMap, List.mem_cons] at hc
      obtain ⟨y, hy, rfl | hc⟩ := hc
      · decide
      · exact List.all_eq_true.mp (valueBytes_okByte ai y (hnum y (by simp [hy]))) c hc
  · cases hp : a.pre with
    | nil => rfl
    | cons p ps =>
      simp only [renderPre, List.all_cons, Bool.and_eq_true]
      refine ⟨by decide, joinWith_all okByte 46 (by decide) _ ?_⟩
      intro q hq
      exact identOk_okByte s q (hpre q (by rw [hp]; exact hq))
  · cases hp : a.build with
    | nil => rfl
    | cons p ps =>
      simp only [renderBuild, List.all_cons, Bool.and_eq_true]
      refine ⟨by decide, joinWith_all okByte 46 (by decide) _ ?_⟩
      intro q hq
      exact identOk_okByte s q (hbuild q (by rw [hp]; exact hq))


/-! ## Span bounds -/

/-- A span bound of SemVer-family system `s` as `newSpan` leaves it: no extension, no wildcard,
numbers below `infinity` (or '∞' itself when `ai`: upper bounds only), prerelease identifiers
over `[0-9A-Za-z-]`. Build metadata is not constrained (`span.String` does not print it). -/
structure BoundShape (s : System) (ai : Bool) (v : Version) : Prop where
  sys : v.sys = s
  ext : v.ext = .none
  len : LenOk s v.num.length
  num : ∀ x ∈ v.num, NumOk ai x
  nuget4 : s = .nuget → v.num.length = 4 → v.num[3]? ≠ some 0
  pre : ∀ i ∈ v.pre, IdentOk s i = true

/-- The AST `Canon(false)` prints for a bound. -/
def boundAst (v : Version) : SemVerAst := ⟨pad3 v.num, v.pre.map (lowerIf v.sys), []⟩

theorem boundShape_notWild (s : System) (ai : Bool) (v : Version) (h : BoundShape s ai v) : v.isWildcard = false := by
  simp only [Version.isWildcard, List.any_eq_false, beq_iff_eq, wildcard_lit]
  intro x hx e
  have h0 : (0 : Int) ≤ x := (h.num x hx).1
  have h1 : (x : Int) = -1 := e
  rw [h1] at h0
  exact absurd h0 (by decide)

theorem boundAst_valid (s : System) (ai : Bool) (v : Version) (h : BoundShape s ai v) : (boundAst v).Valid s ai := by
  refine ⟨?_, ?_, ?_, ?_, ?_, ?_⟩
  · simp only [boundAst, pad3_length]; omega
  · simp only [boundAst, pad3_length]; exact lenOk_max3 s _ h.len
  · intro x hx
    rcases mem_pad3 _ x hx with hx | rfl
    · exact h.num x hx
    · exact ⟨by omega, Or.inl (by omega)⟩
  · intro hs hl
    simp only [boundAst, pad3_length] at hl
    have hl' : v.num.length = 4 := by omega
    simp only [boundAst, pad3_of_ge v.num (by omega)]
    exact h.nuget4 hs hl'
  · intro i hi
    simp only [boundAst, List.mem_map] at hi
    obtain ⟨j, hj, rfl⟩ := hi
    exact identOk_lowerIf _ _ j (h.pre j hj)
  · intro i hi
    simp [boundAst] at hi

theorem canon_bound (s : System) (ai : Bool) (v : Version) (h : BoundShape s ai v) :
    canon v false = (boundAst v).render s := by
  rw [canon_generic v false h.ext (boundShape_notWild s ai v h), h.sys]
  simp [SemVerAst.render, boundAst, h.sys, renderBuild]

theorem embed_boundShape (s : System) (ai : Bool) (a : SemVerAst) (ha : a.Valid s ai) (k : Int) :
    BoundShape s ai { a.embed s with userNumCount := k } := by
  obtain ⟨h3, hlen, hnum, hn4, hpre, hbuild⟩ := ha
  exact ⟨rfl, rfl, hlen, hnum, hn4, hpre⟩

theorem boundAst_embed (s : System) (v : Version) (hs : v.sys = s) (k : Int) :
    boundAst { (boundAst v).embed s with userNumCount := k } = boundAst v := by
  subst hs
  simp only [boundAst, SemVerAst.embed, List.map_map]
  congr 1
  · rw [pad3_of_ge]; rw [pad3_length]; omega
  · apply List.map_congr_left
    intro p _
    exact lowerIf_idem _ p

/-- A bound, printed by `span.String` and parsed by `System.parse(·, ai)`: the result agrees
with the bound on everything comparison reads and prints identically. -/
theorem bound_roundtrip (s : System) (hs : Generic s = true) (ai : Bool) (v : Version) (h : BoundShape s ai v) :
    ∃ v', parseInf s (canon v false) ai = .ok v' ∧ Reparsed v v' ∧ canon v' false = canon v false := by
  obtain ⟨k, hk⟩ := parseInf_render s hs ai (boundAst v) (boundAst_valid s ai v h)
  refine ⟨_, by rw [canon_bound s ai v h]; exact hk, ⟨h.sys.symm, h.ext, rfl, rfl, rfl⟩, ?_⟩
  rw [canon_bound s ai _ (embed_boundShape s ai _ (boundAst_valid s ai v h) k), boundAst_embed s v h.sys k,
    canon_bound s ai v h]

/-- The same through `Parse` (unit spans; no '∞'). -/
theorem unit_roundtrip (s : System) (hs : Generic s = true) (v : Version) (h : BoundShape s false v) :
    ∃ v', parse s (canon v false) = .ok v' ∧ Reparsed v v' ∧ canon v' false = canon v false := by
  have hv := boundAst_valid s false v h
  refine ⟨(boundAst v).embed s, by rw [canon_bound s false v h]; exact parse_render s hs _ hv,
    ⟨h.sys.symm, h.ext, rfl, rfl, rfl⟩, ?_⟩
  have e : (boundAst v).embed s = { (boundAst v).embed s with userNumCount := (boundAst v).nums.length } := rfl
  have := embed_boundShape s false _ hv (boundAst v).nums.length
  rw [e, canon_bound s false _ this, boundAst_embed s v h.sys _, canon_bound s false v h]

end DepsDev.Proofs.C11
