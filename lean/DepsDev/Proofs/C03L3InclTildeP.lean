import DepsDev.Proofs.C03L3InclTilde

/-!
# C03 layer L3 for npm, operator `tilde`: interval membership, operands with a prerelease tag; `L1PNpm .tilde`
-/
namespace DepsDev.Proofs.C03

open DepsDev DepsDev.Semver DepsDev.Ref

set_option linter.unusedSimpArgs false
set_option linter.unusedVariables false

theorem l1p_pre_lt_tilde : L1PPreO .tilde .lt := by l1p_pre
theorem l1p_pre_eq_tilde : L1PPreO .tilde .eq := by l1p_pre
theorem l1p_pre_gt_tilde : L1PPreO .tilde .gt := by l1p_pre

theorem l1p_npm_tilde : L1PNpm .tilde :=
  l1p_assemble _ l1p_full_tilde (l1p_pre_assemble _ l1p_pre_lt_tilde l1p_pre_eq_tilde l1p_pre_gt_tilde) l1p_part_tilde

end DepsDev.Proofs.C03
