import DepsDev.Model.Maven.Api

/-!
# C15, API path: lemmas about the parent walk

* `mergeParentsLoop` (the example's loop) is an instance of `walkLoop`;
* the traced loop erases to `walkLoop`, fetches at most `fuel` keys, no key twice;
* a parent cycle reached within the bound is an error;
* on a chain that is found, acyclic and within the bound the loop is the fold of `MergeParent`.
-/
namespace DepsDev.Proofs.C15Api
open DepsDev DepsDev.Model.Maven DepsDev.Model.Maven.Api DepsDev.Gen

/-! ## the example's loop is the instance `⟨fetch repo, jdkEnv, osEnv, true⟩` -/

theorem mergeParentsLoop_eq_walk (repo : List Project) :
    ∀ (fuel n : Nat) (vis : List Key) (k : Key) (r : Project),
      mergeParentsLoop repo fuel n vis k r = walkLoop ⟨fetch repo, jdkEnv, osEnv, true⟩ fuel n vis k r := by
  intro fuel
  induction fuel with
  | zero => intro n vis k r; simp [mergeParentsLoop, walkLoop]
  | succ f ih =>
    intro n vis k r
    unfold mergeParentsLoop walkLoop
    simp only [Api.Key.incomplete, Bool.true_and]
    split
    · rfl
    · split
      · rfl
      · cases fetch repo k with
        | none => rfl
        | some proj =>
          simp only
          split
          · rfl
          · cases proj.MergeProfiles jdkEnv osEnv with
            | none => rfl
            | some q => exact ih _ _ _ _

theorem goProject_eq_pipeline (f : InterpFn) (L : Lineage) :
    goProjectWith f L = pipelineWith f (exampleCfg L.repo) L.root := by
  have hw : ∀ k start r, mergeParentsWith f L.repo k start r = walkWith f (exampleCfg L.repo).walk k start r := by
    intro k start r
    simp [mergeParentsWith, walkWith, exampleCfg, mergeParentsLoop_eq_walk]
  have hi : getDependencyManagementWith f L.repo = importWith f (exampleCfg L.repo) := by
    funext g a v
    simp only [getDependencyManagementWith, importWith, hw]
    rfl
  unfold goProjectWith pipelineWith
  simp only [exampleCfg] at hw hi ⊢
  cases L.root.MergeProfiles jdkEnv osEnv with
  | none => rfl
  | some p =>
    simp only [hw, hi]
    cases walkWith f ⟨fetch L.repo, jdkEnv, osEnv, true⟩ p.parent 1 p <;> rfl

/-! ## the traced loop -/

theorem walkLoopT_fst (c : WalkCfg) :
    ∀ (fuel n : Nat) (vis : List Key) (k : Key) (r : Project),
      (walkLoopT c fuel n vis k r).1 = walkLoop c fuel n vis k r := by
  intro fuel
  induction fuel with
  | zero => intro n vis k r; rfl
  | succ f ih =>
    intro n vis k r
    unfold walkLoopT walkLoop
    split
    · rfl
    · split
      · rfl
      · cases c.get k with
        | none => rfl
        | some proj =>
          simp only
          split
          · rfl
          · cases proj.MergeProfiles c.jdk c.os with
            | none => rfl
            | some q => exact ih _ _ _ _

/-- never more than `fuel` fetches -/
theorem walk_fetch_bound (c : WalkCfg) :
    ∀ (fuel n : Nat) (vis : List Key) (k : Key) (r : Project),
      (walkLoopT c fuel n vis k r).2.length ≤ fuel := by
  intro fuel
  induction fuel with
  | zero => intro n vis k r; simp [walkLoopT]
  | succ f ih =>
    intro n vis k r
    unfold walkLoopT
    split
    · simp
    · split
      · simp
      · cases c.get k with
        | none => simp
        | some proj =>
          simp only
          split
          · simp
          · cases proj.MergeProfiles c.jdk c.os with
            | none => simp
            | some q =>
              have := ih (n + 1) (k :: vis) q.parent (r.MergeParent q)
              simp only [List.length_cons]
              omega

/-- no key is fetched twice, and no key that the caller had marked visited -/
theorem walk_fetch_distinct (c : WalkCfg) :
    ∀ (fuel n : Nat) (vis : List Key) (k : Key) (r : Project),
      (walkLoopT c fuel n vis k r).2.Nodup ∧ ∀ x ∈ (walkLoopT c fuel n vis k r).2, x ∉ vis := by
  intro fuel
  induction fuel with
  | zero => intro n vis k r; simp [walkLoopT]
  | succ f ih =>
    intro n vis k r
    unfold walkLoopT
    split
    · simp
    · split
      · simp
      · rename_i hv
        have hk : k ∉ vis := by simpa using hv
        cases c.get k with
        | none => simp [hk]
        | some proj =>
          simp only
          split
          · simp [hk]
          · cases proj.MergeProfiles c.jdk c.os with
            | none => simp [hk]
            | some q =>
              obtain ⟨h1, h2⟩ := ih (n + 1) (k :: vis) q.parent (r.MergeParent q)
              simp only [List.nodup_cons, List.mem_cons, forall_eq_or_imp]
              refine ⟨⟨fun hm => ?_, h1⟩, hk, fun x hx hxv => ?_⟩
              · exact (h2 k hm) (by simp)
              · exact (h2 x hx) (by simp [hxv])

/-! ## cycles -/

/-- `Steps c k path k'`: following parent links from `k` through the keys `path` (each complete,
found, its profiles merged without error) arrives at `k'`. -/
inductive Steps (c : WalkCfg) : Key → List Key → Key → Prop
  | refl (k : Key) : Steps c k [] k
  | step {k : Key} {p q : Project} {path : List Key} {k' : Key} :
      Api.Key.incomplete k = false → c.get k = some p → p.MergeProfiles c.jdk c.os = some q →
      Steps c q.parent path k' → Steps c k (k :: path) k'

/-- A cycle of parents reached within the bound is an error: if the walk from `k` arrives, in fewer
steps than it has fuel, at a complete key that it has already visited, it returns the error. -/
theorem walk_cycle_is_error (c : WalkCfg) {k k' : Key} {path : List Key} (hs : Steps c k path k') :
    ∀ (fuel n : Nat) (vis : List Key) (r : Project), Api.Key.incomplete k' = false → (k' ∈ vis ∨ k' ∈ path) →
      path.length < fuel → walkLoop c fuel n vis k r = none := by
  induction hs with
  | refl k =>
    intro fuel n vis r hc hm hl
    cases fuel with
    | zero => simp at hl
    | succ f =>
      have hv : k ∈ vis := by simpa using hm
      unfold walkLoop
      simp [hc, hv]
  | @step k p q path k' hk hg hp _ ih =>
    intro fuel n vis r hc hm hl
    cases fuel with
    | zero => simp at hl
    | succ f =>
      unfold walkLoop
      simp only [hk, Bool.false_eq_true, if_false, hg]
      split
      · rfl
      · rename_i hv
        split
        · rfl
        · simp only [hp]
          apply ih f (n + 1) (k :: vis) _ hc
          · rcases hm with hm | hm
            · exact Or.inl (by simp [hm])
            · simp only [List.mem_cons] at hm
              rcases hm with hm | hm
              · exact Or.inl (by simp [hm])
              · exact Or.inr hm
          · simp only [List.length_cons] at hl; omega

/-! ## the loop on a chain -/

/-- `IsChain c n k anc`: following parent links from `k` (at loop index `n`) fetches, in order,
projects that after `MergeProfiles` are `anc`, and ends at an incomplete key. -/
def IsChain (c : WalkCfg) : Nat → Key → List Project → Prop
  | _, k, [] => Api.Key.incomplete k = true
  | n, k, q :: rest =>
    Api.Key.incomplete k = false ∧
    ∃ p, c.get k = some p ∧ (c.needPom && (decide (n > 0) && decide (p.packaging ≠ bPom))) = false ∧
      p.MergeProfiles c.jdk c.os = some q ∧ IsChain c (n + 1) q.parent rest

/-- the keys under which the projects of a chain were fetched -/
def chainKeys : Key → List Project → List Key
  | _, [] => []
  | k, q :: rest => k :: chainKeys q.parent rest

/-- On a chain that is found, has no cycle and is within the bound, the loop is the fold of
`MergeParent` over the chain. -/
theorem walk_eq_fold (c : WalkCfg) :
    ∀ (anc : List Project) (fuel n : Nat) (vis : List Key) (k : Key) (r : Project),
      IsChain c n k anc → (chainKeys k anc).Nodup → (∀ x ∈ chainKeys k anc, x ∉ vis) → anc.length ≤ fuel →
      walkLoop c fuel n vis k r = some (anc.foldl Project.MergeParent r) := by
  intro anc
  induction anc with
  | nil =>
    intro fuel n vis k r hc _ _ _
    have hk : Api.Key.incomplete k = true := hc
    cases fuel with
    | zero => rfl
    | succ f => unfold walkLoop; simp [hk]
  | cons q rest ih =>
    intro fuel n vis k r hc hnd hdis hl
    obtain ⟨hk, p, hg, hpk, hp, hrest⟩ := hc
    cases fuel with
    | zero => simp at hl
    | succ f =>
      have hkv : k ∉ vis := hdis k (by simp [chainKeys])
      simp only [chainKeys, List.nodup_cons] at hnd
      unfold walkLoop
      simp only [hk, Bool.false_eq_true, if_false, hg]
      have hv : vis.contains k = false := by simpa using hkv
      simp only [hv, Bool.false_eq_true, if_false, hpk, hp, List.foldl]
      apply ih f (n + 1) (k :: vis) q.parent _ hrest hnd.2
      · intro x hx hxv
        simp only [List.mem_cons] at hxv
        rcases hxv with hxv | hxv
        · subst hxv; exact hnd.1 hx
        · exact hdis x (by simp [chainKeys, hx]) hxv
      · simp only [List.length_cons] at hl; omega

end DepsDev.Proofs.C15Api
