import DepsDev.Proofs.C02MvnAgree

/-!
# C02 — Maven, part 7: the direct route (no key order), which also covers C01's `ZeroDotQual`

On versions like `4.1.0.Beta1` the library's loop is *not* the rendering of a key order (C01:
`maven_full_false`), yet it still agrees with ComparableVersion — both continue past a `.0` that
faces nothing. Here `mavenCompare` is related to ComparableVersion's list comparison step by step.
-/
namespace DepsDev.Proofs.C02Mvn
open Std DepsDev DepsDev.Semver DepsDev.Ref DepsDev.Proofs DepsDev.Proofs.C02
open DepsDev.Ref.MavenCV (Item Sep Tok Ast wAlpha wBeta wMilestone wRc wCr wSnapshot wSp wGa wFinal wRelease)

/-- Elements after the first: good elements; a zero is the literal `.0` and not the last element. -/
def goodD : List MavenElem → Bool
  | [] => true
  | e :: t => elemGood e && goodD t && (!(isNumE e && e.int == 0) || (e == pad46 && !t.isEmpty))

theorem goodD_cons {e : MavenElem} {t : List MavenElem} (h : goodD (e :: t) = true) :
    elemGood e = true ∧ goodD t = true ∧ ((isNumE e = true ∧ e.int = 0) → e = pad46 ∧ t ≠ []) := by
  simp only [goodD, Bool.and_eq_true, Bool.or_eq_true, Bool.not_eq_true', Bool.and_eq_false_iff, beq_eq_false_iff_ne,
    beq_iff_eq, List.isEmpty_eq_false_iff] at h
  refine ⟨h.1.1, h.1.2, ?_⟩
  rintro ⟨h1, h2⟩
  rcases h.2 with h3 | h3
  · rcases h3 with h3 | h3
    · rw [h1] at h3; cases h3
    · exact absurd h2 h3
  · exact h3

theorem atom_pad46 : atom pad46 = .int 0 := by
  rw [atom_num (by decide)]; rfl

theorem cmpNull_ne_eq {e : MavenElem} (he : elemGood e = true) (hz : ¬ (isNumE e = true ∧ e.int = 0)) :
    MavenCV.cmpNull (atom e) ≠ .eq := by
  intro h
  have := cmpNull_atom he hz
  rw [h] at this
  exact vsNone_ne_eq he this.symm

/-- A non-empty good tail is not equal to nothing. -/
theorem cmpNullList_ne_eq {t : List MavenElem} (h : goodD t = true) (hne : t ≠ []) :
    MavenCV.cmpNullList (treeOf t) ≠ .eq := by
  induction t with
  | nil => exact absurd rfl hne
  | cons e t ih =>
    obtain ⟨he, ht, hz⟩ := goodD_cons h
    rw [cmpNullList_treeOf_cons]
    by_cases hzero : isNumE e = true ∧ e.int = 0
    · obtain ⟨hp, htne⟩ := hz hzero
      subst hp
      rw [atom_pad46]
      simpa [MavenCV.cmpNull] using ih ht htne
    · have := cmpNull_ne_eq he hzero
      cases hc : MavenCV.cmpNull (atom e) <;> simp_all

theorem ne_pad46 {e : MavenElem} (hz : ¬ (isNumE e = true ∧ e.int = 0)) : e ≠ pad46 := by
  intro h; subst h; exact hz ⟨by decide, rfl⟩

theorem sepOK_of_good {e : MavenElem} (he : elemGood e = true) : sepOK e = true := by
  simp only [elemGood, Bool.and_eq_true] at he; exact he.1

/-- Left side exhausted. -/
theorem nilL_tree {b : List MavenElem} (h : goodD b = true) :
    mavenCompareNilL b = .ok (ordToInt (MavenCV.cmpNullList (treeOf b)).swap) := by
  induction b with
  | nil => simp [mavenCompareNilL, treeOf_nil, MavenCV.cmpNullList]
  | cons e t ih =>
    obtain ⟨he, ht, hz⟩ := goodD_cons h
    rw [cmpNullList_treeOf_cons]
    unfold mavenCompareNilL
    by_cases hzero : isNumE e = true ∧ e.int = 0
    · obtain ⟨hp, htne⟩ := hz hzero
      subst hp
      have hne := cmpNullList_ne_eq ht htne
      have hz0 : ordToInt (MavenCV.cmpNullList (treeOf t)) ≠ 0 := fun h0 => hne (ordToInt_eq_zero.mp h0)
      simp [mavenStep_none_pad46, ih ht, atom_pad46, MavenCV.cmpNull, Outcome.bind, hz0]
    · rw [mavenStep_none_some e (elemOK_of_good he) (sepOK_of_good he) (ne_pad46 hzero)]
      show (match stepOf (vsNone e) with | .ok none => _ | .ok (some r) => _ | .err => _ | .panic => _) = _
      rw [← cmpNull_atom he hzero]
      have := cmpNull_ne_eq he hzero
      unfold stepOf
      cases hc : MavenCV.cmpNull (atom e) <;> simp_all

/-- Right side exhausted. -/
theorem nilR_tree {a : List MavenElem} (h : goodD a = true) :
    mavenCompare a [] = .ok (ordToInt (MavenCV.cmpNullList (treeOf a))) := by
  induction a with
  | nil => simp [mavenCompare, mavenCompareNilL, treeOf_nil, MavenCV.cmpNullList]
  | cons e t ih =>
    obtain ⟨he, ht, hz⟩ := goodD_cons h
    rw [cmpNullList_treeOf_cons]
    unfold mavenCompare
    by_cases hzero : isNumE e = true ∧ e.int = 0
    · obtain ⟨hp, _⟩ := hz hzero
      subst hp
      simp [mavenStep_pad46_none, ih ht, atom_pad46, MavenCV.cmpNull]
    · rw [mavenStep_some_none e (elemOK_of_good he) (sepOK_of_good he) (ne_pad46 hzero), cmp_none_right,
        ← cmpNull_atom he hzero]
      have := cmpNull_ne_eq he hzero
      unfold stepOf
      cases hc : MavenCV.cmpNull (atom e) <;> simp_all


/-- **The library's loop on two good tails is ComparableVersion's list comparison.** -/
theorem mavenCompare_tree : ∀ {a b : List MavenElem}, goodD a = true → goodD b = true →
    mavenCompare a b = .ok (ordToInt (MavenCV.cmpList (treeOf a) (treeOf b)))
  | [], b, _, hb => by
    rw [show treeOf [] = [] from rfl, MavenCV.cmpList]
    unfold mavenCompare
    exact nilL_tree hb
  | x :: xs, [], ha, _ => by
    rw [show treeOf [] = [] from rfl, cmpList_nil_right]
    exact nilR_tree ha
  | x :: xs, y :: ys, ha, hb => by
    obtain ⟨hx, hxs, _⟩ := goodD_cons ha
    obtain ⟨hy, hys, _⟩ := goodD_cons hb
    have ih := mavenCompare_tree hxs hys
    obtain ⟨sx, _⟩ := elemGood_cases hx
    obtain ⟨sy, _⟩ := elemGood_cases hy
    unfold mavenCompare
    rw [mavenStep_some_some x y (elemOK_of_good hx) (elemOK_of_good hy) (.inr ⟨sepOK_of_good hx, sepOK_of_good hy⟩),
      treeOf_cons, treeOf_cons]
    unfold stepOf
    have h46 : ((46 : UInt8) == 45) = false := by decide
    rcases sx with sx | sx <;> rcases sy with sy | sy
    · simp only [sx, sy, beq_self_eq_true, ↓reduceIte, MavenCV.cmpList, MavenCV.cmp]
      rw [← cmp_atom_same hx hy (sx.trans sy.symm)]
      cases hc : MavenCV.cmp (atom x) (atom y) <;> simp [ih, MavenCV.cmpNullList]
    · simp only [sx, sy, beq_self_eq_true, ↓reduceIte, h46, Bool.false_eq_true, MavenCV.cmpList]
      have hk := key_dot_dash hy hx sy sx
      rw [OrientedCmp.eq_swap (cmp := MK.cmp), hk, cmp_list_atom hy]
      cases isNumE y <;> simp
    · simp only [sx, sy, beq_self_eq_true, ↓reduceIte, h46, Bool.false_eq_true, MavenCV.cmpList]
      rw [key_dot_dash hx hy sx sy, cmp_atom_list hx]
      cases isNumE x <;> simp
    · simp only [sx, sy, h46, Bool.false_eq_true, ↓reduceIte, MavenCV.cmpList]
      rw [← cmp_atom_same hx hy (sx.trans sy.symm)]
      cases hc : MavenCV.cmp (atom x) (atom y) <;> simp [ih]

/-- The first elements. -/
theorem mavenCompare_first (n m : Nat) {Ga Gb : List MavenElem} (ga : goodD Ga = true) (gb : goodD Gb = true) :
    mavenCompare (numE 0 n :: Ga) (numE 0 m :: Gb) =
      .ok (ordToInt ((compare n m).then (MavenCV.cmpList (treeOf Ga) (treeOf Gb)))) := by
  unfold mavenCompare
  rw [mavenStep_some_some _ _ (elemOK_of_num (isNumE_numE 0 n)) (elemOK_of_num (isNumE_numE 0 m)) (.inl rfl),
    mkey_num (isNumE_numE 0 n), mkey_num (isNumE_numE 0 m), MK.cmp_def]
  simp only [numE, compare_cast]
  unfold stepOf
  cases hc : compare n m <;> simp [List.compareLex_nil_nil, mavenCompare_tree ga gb]

/-! ## good tails from the hypotheses on the syntax tree -/

theorem numE_zero : numE 46 0 = pad46 := by decide

theorem goodD_of_nz {l : List MavenElem} (h : ∀ e ∈ l, nzGood e = true) : goodD l = true := by
  induction l with
  | nil => rfl
  | cons e t ih =>
    have he := h e (by simp)
    simp only [nzGood, Bool.and_eq_true, Bool.not_eq_true'] at he
    simp [goodD, he.1, he.2, ih (fun x hx => h x (by simp [hx]))]

theorem goodD_nums (l : List Nat) (rest : List MavenElem) (hl : l.getLast? ≠ some 0 ∨ rest ≠ [])
    (hr : goodD rest = true) : goodD (l.map (numE 46) ++ rest) = true := by
  induction l with
  | nil => simpa using hr
  | cons x xs ih =>
    have hl' : xs.getLast? ≠ some 0 ∨ rest ≠ [] := by
      rcases hl with h | h
      · cases xs with
        | nil => left; simp
        | cons y ys => left; simpa [List.getLast?_cons_cons] using h
      · exact .inr h
    simp only [List.map_cons, List.cons_append, goodD, elemGood_numE, ih hl', Bool.and_self, Bool.true_and,
      Bool.or_eq_true, Bool.not_eq_true', Bool.and_eq_false_iff, Bool.and_eq_true, beq_iff_eq,
      List.isEmpty_eq_false_iff]
    by_cases hx : x = 0
    · right
      subst hx
      refine ⟨numE_zero, ?_⟩
      rcases hl with h | h
      · cases xs with
        | nil => simp at h
        | cons y ys => simp
      · cases xs <;> simp [h]
    · left; right; simp [numE]; omega

/-- (F-C02-mvn-zero-dot as a predicate) `Maven.zeroDot`: the version is `0` followed by a dot-attached qualifier. -/
theorem tail_goodD {a : Ast} {ns : List Nat} (hv : a.valid = true) (hd : Maven.dotUnknown a = false) :
    goodD (tailElems ns a) = true := by
  unfold tailElems
  apply goodD_nums _ _ _ (goodD_of_nz (effTail_nz hv hd))
  by_cases hda : dashy (effTail a) = true
  · simp only [hda, ↓reduceIte]; exact .inl (dropZ_getLast ns)
  · right
    intro e
    rw [e] at hda
    exact hda rfl

theorem head_num' {a : Ast} {n0 : Nat} {ns : List Nat} (hn : a.nums = n0 :: ns) (hv : a.valid = true)
    (hz : Maven.zeroDot a = false) (h0 : n0 = 0) (hd : dashy (tailElems ns a) = false) :
    ∃ y r, tailElems ns a = y :: r ∧ isNumE y = true ∧ y.sep = 46 := by
  unfold tailElems at hd ⊢
  rw [dashy_nums] at hd
  rcases hL : (if dashy (effTail a) = true then dropZ ns else ns) with _ | ⟨x, xs⟩
  · rw [hL] at hd
    have hda : dashy (effTail a) = false := by simpa using hd
    obtain ⟨q, hq, hr⟩ := nondashy_eff hv hda
    simp only [hda, Bool.false_eq_true, ↓reduceIte] at hL
    subst hL; subst h0
    simp [Maven.zeroDot, hn, hq, hr] at hz
  · exact ⟨numE 46 x, xs.map (numE 46) ++ effTail a, by simp, isNumE_numE 46 x, rfl⟩

/-- The domain of the strong theorem: DESIGN 6.4 outside the four tree-level finding classes. -/
structure GoodAst' (a : Ast) : Prop where
  valid : a.valid = true
  noFinalSnapshot : Maven.finalSnapshot a = false
  noZeroSnapshot : Maven.zeroSnapshot a = false
  noDotUnknown : Maven.dotUnknown a = false
  noZeroDot : Maven.zeroDot a = false

/-- **Maven, strong form**: on the DESIGN 6.4 shape outside the four finding classes — C01's
`ZeroDotQual` versions included — the library's comparison has the sign of ComparableVersion's. -/
theorem maven_agree' {a b : Ast} (ha : GoodAst' a) (hb : GoodAst' b) :
    vcompare (embedMaven a) (embedMaven b) = .ok (ordToInt (MavenCV.compare a b)) := by
  obtain ⟨n, ns, hna⟩ := nums_cons ha.valid
  obtain ⟨m, ms, hnb⟩ := nums_cons hb.valid
  have h : vcompare (embedMaven a) (embedMaven b) = mavenCompare (elemsOf a) (elemsOf b) := by
    unfold vcompare
    simp [(embedMaven_ext a).1, (embedMaven_ext b).1, (embedMaven_ext a).2, (embedMaven_ext b).2]
  rw [h, ref_compare_tree hna hnb ha.valid hb.valid ha.noFinalSnapshot hb.noFinalSnapshot ha.noZeroSnapshot
    hb.noZeroSnapshot (head_num' hna ha.valid ha.noZeroDot) (head_num' hnb hb.valid hb.noZeroDot)]
  unfold elemsOf
  rw [embed_elems a n ns hna ha.valid, embed_elems b m ms hnb hb.valid]
  exact mavenCompare_first n m (tail_goodD ha.valid ha.noDotUnknown) (tail_goodD hb.valid hb.noDotUnknown)

end DepsDev.Proofs.C02Mvn
