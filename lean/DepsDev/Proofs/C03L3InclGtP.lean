import DepsDev.Proofs.C03L3InclGt

/-!
# C03 layer L3 for npm, operator `gt`: interval membership, operands with a prerelease tag; `L1PNpm .gt`
-/
namespace DepsDev.Proofs.C03

open DepsDev DepsDev.Semver DepsDev.Ref

set_option linter.unusedSimpArgs false
set_option linter.unusedVariables false

theorem l1p_pre_lt_gt : L1PPreO .gt .lt := by l1p_pre
theorem l1p_pre_eq_gt : L1PPreO .gt .eq := by l1p_pre
theorem l1p_pre_gt_gt : L1PPreO .gt .gt := by l1p_pre

theorem l1p_npm_gt : L1PNpm .gt :=
  l1p_assemble _ l1p_full_gt (l1p_pre_assemble _ l1p_pre_lt_gt l1p_pre_eq_gt l1p_pre_gt_gt) l1p_part_gt

end DepsDev.Proofs.C03
