import DepsDev.Proofs.C03L3Fold
import DepsDev.Proofs.C03L3Inv
import DepsDev.Proofs.C03L3Ref
import DepsDev.Proofs.C03L3Interval

/-!
# C03 layer L3: AND lists on prerelease candidates — the library's admission rule on the effective
# bounds agrees with node's rule over all comparators

`and_pre_spec`: given, for every comparator `c` of an AND list, its span `sp` with (layer L2) `Good`,
(C03L3Inv) the invariant on its prerelease-tagged bounds, (C03L3Incl) interval membership of the
candidate = node's tests of `c`, and (C03L3Npm) release-mode membership = node's tests and
admission rule for `c` alone — the parser's set for the whole list matches the prerelease candidate
exactly when all tests of all comparators pass and some comparator admits it (node's `testSet`).

The argument: the fold keeps one span `r`, in the interval sense the intersection (`andFold_spec`);
`r` takes its lower bound from the comparators' lower bounds, at or above all of them, and its
upper bound from their upper bounds (`andFold_struct`). If the library admits through a bound of
`r`, that bound belongs to some comparator, which then admits alone. If some comparator admits
alone through its lower bound `a` (flagged, the candidate's numbers), then `a ≤ r.min ≤ v`, so
`r.min` has the candidate's numbers and a prerelease tag, hence (invariant) is flagged with three
numbers: the library admits through `r.min`. Symmetrically for upper bounds.
-/
namespace DepsDev.Proofs.C03

open Std DepsDev DepsDev.Semver DepsDev.Ref DepsDev.Proofs DepsDev.Proofs.C09

set_option linter.unusedSimpArgs false

/-! ## order facts in terms of `cmp3` -/

theorem pt_le_cmp3 {sys : System} {a b : Version} (ha : G3 sys a) (hb : G3 sys b) :
    pt sys a ≤ pt sys b ↔ cmp3 a b ≤ 0 := by
  have h1 := vcompare_g3 ha hb
  rw [vcompare_eq (s := sys) ⟨ha.sys_eq, ha.ext⟩ ⟨hb.sys_eq, hb.ext⟩] at h1
  injection h1 with h1
  rw [← h1, Pt.le_def]
  cases genericOrd sys a b <;> simp [ordToInt]

theorem lex3_antisymm {p q : Int × Int × Int} (h1 : lex3 p q ≤ 0) (h2 : lex3 q p ≤ 0) : p = q := by
  rw [lex3_le] at h1 h2
  obtain ⟨p0, p1, p2⟩ := p
  obtain ⟨q0, q1, q2⟩ := q
  simp only at h1 h2
  have : p0 = q0 ∧ p1 = q1 ∧ p2 = q2 := by omega
  obtain ⟨rfl, rfl, rfl⟩ := this
  rfl

theorem cmp3_le_lex {a b : Version} (h : cmp3 a b ≤ 0) : lex3 (t3 a) (t3 b) ≤ 0 := by
  unfold cmp3 at h
  rw [thenInt_le] at h
  omega

theorem lex3_self (p : Int × Int × Int) : lex3 p p = 0 := by
  rw [lex3_eq0]; exact ⟨rfl, rfl, rfl⟩

/-- `a ≤ m ≤ v`, `a` and `v` have the same numbers and `v` has a prerelease tag: so does `m`. -/
theorem sandwich_lo {a m v : Version} (h1 : cmp3 a m ≤ 0) (h2 : cmp3 m v ≤ 0) (ht : t3 a = t3 v) (hv : v.pre ≠ []) :
    t3 m = t3 v ∧ m.pre ≠ [] := by
  have l1 := cmp3_le_lex h1
  have l2 := cmp3_le_lex h2
  rw [ht] at l1
  have e : t3 m = t3 v := lex3_antisymm l2 l1
  refine ⟨e, ?_⟩
  intro hm
  unfold cmp3 at h2
  rw [e, lex3_self, thenInt_zero_left] at h2
  have hve : v.pre.isEmpty = false := by
    cases hp : v.pre with
    | nil => exact absurd hp hv
    | cons _ _ => rfl
  simp [preInt, hm, hve] at h2

/-- `v ≤ m ≤ b`, `b` and `v` have the same numbers and `b` has a prerelease tag: so does `m`. -/
theorem sandwich_hi {b m v : Version} (h1 : cmp3 v m ≤ 0) (h2 : cmp3 m b ≤ 0) (ht : t3 b = t3 v) (hb : b.pre ≠ []) :
    t3 m = t3 v ∧ m.pre ≠ [] := by
  have l1 := cmp3_le_lex h1
  have l2 := cmp3_le_lex h2
  rw [ht] at l2
  have e : t3 m = t3 v := lex3_antisymm l2 l1
  refine ⟨e, ?_⟩
  intro hm
  unfold cmp3 at h2
  rw [e, ← ht, lex3_self, thenInt_zero_left] at h2
  have hbe : b.pre.isEmpty = false := by
    cases hp : b.pre with
    | nil => exact absurd hp hb
    | cons _ _ => rfl
  simp [preInt, hm, hbe] at h2

/-- Three numbers with the same padded triple: the same number list. -/
theorem num_eq_of_t3 {y v : Version} (hy : y.num.length = 3) (hv : v.num.length = 3) (h : t3 y = t3 v) : y.num = v.num := by
  match hyn : y.num, hvn : v.num, hy, hv with
  | [y0, y1, y2], [v0, v1, v2], _, _ =>
    simp only [t3, Version.getNum, hyn, hvn, List.getD_cons_zero, List.getD_cons_succ, Prod.mk.injEq] at h
    obtain ⟨rfl, rfl, rfl⟩ := h
    rfl

theorem t3_of_num_eq {y v : Version} (h : v.num = y.num) : t3 y = t3 v := by
  simp only [t3, Version.getNum, h]

/-! ## the admission test on one bound -/

def admit1 (y v : Version) : Bool := y.isPrerelease && equalValues v.num y.num

theorem admitB_eq (sp : Span) (v : Version) (a b : Version) (h1 : sp.min = some a) (h2 : sp.max = some b) :
    admitB sp v = (admit1 a v || admit1 b v) := by
  simp [admitB, h1, h2, admit1]

theorem admit1_iff (y v : Version) : admit1 y v = true ↔ y.isPrerelease = true ∧ v.num = y.num := by
  simp [admit1, equalValues]

/-- What the earlier layers provide for one comparator `c`, its span `sp` and the candidate `x`. -/
structure CompL3 (x : SemVerAst) (c : Comparator) (sp : Span) : Prop where
  span : compSpan .npm c = .ok sp
  good : Good .npm sp
  inv : BInv sp
  hasEq : has .npm sp (embedVer .npm x) = (desugarComparator c).all (·.test x)
  modeEq : modeHas .npm sp (embedVer .npm x) =
    ((desugarComparator c).all (·.test x) && (desugarComparator c).any (admitsP x))

/-- Every bound of a `Good` span satisfying the invariant has at most three numbers. -/
theorem bound_g3 {sp : Span} (hg : Good .npm sp) (hi : BInv sp) (y : Version) (hy : sp.min = some y ∨ sp.max = some y) :
    G3 .npm y := by
  have hne : sp.rank ≠ .empty := by
    intro he
    have := hg.1
    unfold SpanOK at this
    rw [he] at this
    rcases hy with h | h
    · rw [this.1] at h; cases h
    · rw [this.2] at h; cases h
  obtain ⟨a, b, h1, h2, hva, hvb, -, -, hunit, -⟩ := hg.1.bounds hne
  have len_of : ∀ z, (z.pre = [] → Tidy z) → (z.pre ≠ [] → z.num.length ≤ 3) → z.num.length ≤ 3 := by
    intro z t1 t2
    by_cases hz : z.pre = []
    · exact (t1 hz).1.1
    · exact t2 hz
  have hamin : a.num.length ≤ 3 := by
    refine len_of a (hg.2.1 a h1) ?_
    intro hp
    rcases (hi.1 a h1).1 hp with h | h
    · rw [h]; simp
    · omega
  rcases hy with h | h
  · rw [h1] at h; cases h
    exact ⟨hva.1.1, hva.1.2, hamin⟩
  · rw [h2] at h; cases h
    refine ⟨hvb.1.1, hvb.1.2, ?_⟩
    cases hr : sp.rank with
    | empty => exact absurd hr hne
    | unit => have := hunit hr; subst this; exact hamin
    | vector =>
      refine len_of y (hg.2.2 y h2) ?_
      intro hp
      have := (hi.2.1 y h2 hr) hp
      omega

theorem has_bounds {s : System} {sp : Span} {v a b : Version} (h : has s sp v = true) (h1 : sp.min = some a)
    (h2 : sp.max = some b) : pt s a ≤ pt s v ∧ pt s v ≤ pt s b := by
  have hne : sp.rank ≠ .empty := fun he => by rw [has_empty he] at h; cases h
  rw [has_eq hne h1 h2, decide_eq_true_eq] at h
  unfold inItv at h
  cases sp.minOpen <;> cases sp.maxOpen <;> grind

/-- The spans of all comparators, in order, each with its facts. -/
theorem spans_of (x : SemVerAst) : ∀ cs : List Comparator, (∀ c ∈ cs, ∃ sp, CompL3 x c sp) →
    ∃ sps : List Span, SpansOf .npm cs sps ∧ (∀ sp ∈ sps, ∃ c ∈ cs, CompL3 x c sp) ∧
      (∀ c ∈ cs, ∃ sp ∈ sps, CompL3 x c sp) ∧
      sps.all (fun sp => has .npm sp (embedVer .npm x)) = cs.all (fun c => (desugarComparator c).all (·.test x)) := by
  intro cs
  induction cs with
  | nil => intro _; exact ⟨[], .nil, by simp, by simp, rfl⟩
  | cons c cs ih =>
    intro h
    obtain ⟨sp, hsp⟩ := h c List.mem_cons_self
    obtain ⟨sps, h1, h2, h3, h4⟩ := ih (fun c' hc' => h c' (List.mem_cons_of_mem _ hc'))
    refine ⟨sp :: sps, .cons hsp.span h1, ?_, ?_, ?_⟩
    · intro sp' hs'
      rcases List.mem_cons.mp hs' with rfl | hs'
      · exact ⟨c, List.mem_cons_self, hsp⟩
      · obtain ⟨c', hc', hh⟩ := h2 sp' hs'
        exact ⟨c', List.mem_cons_of_mem _ hc', hh⟩
    · intro c' hc'
      rcases List.mem_cons.mp hc' with rfl | hc'
      · exact ⟨sp, List.mem_cons_self, hsp⟩
      · obtain ⟨sp', hs', hh⟩ := h3 c' hc'
        exact ⟨sp', List.mem_cons_of_mem _ hs', hh⟩
    · simp only [List.all_cons, hsp.hasEq, h4]

/-- From a bound with the candidate's triple and a prerelease tag, satisfying the lower-bound
invariant and not the minimum version, to the admission test. -/
theorem admit1_of_lo {y v : Version} (hy : LoInv y) (hp : y.pre ≠ []) (ht : t3 y = t3 v) (hv3 : v.num.length = 3)
    (hv0 : t3 v ≠ (0, 0, 0)) : admit1 y v = true := by
  rw [admit1_iff]
  rcases hy.1 hp with h | ⟨h1, h2⟩
  · exfalso
    apply hv0
    rw [← ht]
    simp [t3, Version.getNum, h]
  · exact ⟨h1, (num_eq_of_t3 h2 hv3 ht).symm⟩

theorem admit1_of_hi {y v : Version} (hy : HiInv y) (hp : y.pre ≠ []) (ht : t3 y = t3 v) (hv3 : v.num.length = 3) :
    admit1 y v = true := by
  rw [admit1_iff]
  obtain ⟨h1, h2⟩ := hy hp
  exact ⟨h1, (num_eq_of_t3 h2 hv3 ht).symm⟩

/-- **AND lists, prerelease candidates**: see the header. -/
theorem and_pre_spec (cs : List Comparator) (hne : cs ≠ []) (x : SemVerAst)
    (hM : x.major < B∞) (hm : x.minor < B∞) (hp : x.patch < B∞) (hxp : x.pre ≠ [])
    (h000 : NpmRange.pre000 x = false) (hc : ∀ c ∈ cs, ∃ sp, CompL3 x c sp) :
    ∃ r, astSet .npm [cs] = .ok { sys := .npm, span := [r] } ∧
      (VSet.mk .npm [r]).matchVersion (embedVer .npm x) false =
        .ok (cs.all (fun c => (desugarComparator c).all (·.test x)) &&
             cs.any (fun c => (desugarComparator c).any (admitsP x))) := by
  -- the candidate
  have hvg : VG .npm (embedVer .npm x) := ⟨rfl, rfl⟩
  have hv3g : G3 .npm (embedVer .npm x) := ⟨rfl, rfl, by simp [embedVer]⟩
  have hvflag : (embedVer .npm x).isPrerelease = true := by
    cases hpx : x.pre with
    | nil => exact absurd hpx hxp
    | cons _ _ => simp [embedVer, hpx]
  have hvpre : (embedVer .npm x).pre ≠ [] := by
    cases hpx : x.pre with
    | nil => exact absurd hpx hxp
    | cons _ _ => simp [embedVer, embedPre, hpx]
  have hvlen : (embedVer .npm x).num.length = 3 := by simp [embedVer]
  have hv0 : t3 (embedVer .npm x) ≠ (0, 0, 0) := by
    intro h
    apply pre000_false h000 hxp
    simp only [t3, Version.getNum, embedVer, List.getD_cons_zero, List.getD_cons_succ, Prod.mk.injEq] at h
    omega
  have hvinf : (9223372036854775807 : Int) ∉ (embedVer .npm x).num := by
    simp only [embedVer, List.mem_cons, List.not_mem_nil, or_false]
    omega
  generalize hvdef : embedVer .npm x = v at *
  -- the spans
  obtain ⟨sps, hso, hs2c, hc2s, hall⟩ := spans_of x cs hc
  rw [hvdef] at hall
  cases cs with
  | nil => exact absurd rfl hne
  | cons c0 cs' =>
    cases hso with
    | cons e0 hrest =>
      rename_i sp0 sps'
      have triv : ∀ sp : Span, AllB (fun _ => True) sp := fun _ => ⟨fun _ _ => trivial, fun _ _ => trivial⟩
      have hgood : ∀ sp ∈ sp0 :: sps', Good .npm sp ∧ BInv sp := by
        intro sp hs
        obtain ⟨c, -, h⟩ := hs2c sp hs
        exact ⟨h.good, h.inv⟩
      obtain ⟨r, er, ⟨hrok, -⟩, hvr⟩ := andFold_spec (s := System.npm) (fun _ => True) sps' sp0
        ⟨(hgood sp0 List.mem_cons_self).1.1, triv sp0⟩
        (fun y hy => ⟨(hgood y (List.mem_cons_of_mem _ hy)).1.1, triv y⟩)
      have halt : altSpans .npm (c0 :: cs') = .ok [r] := by
        simp only [altSpans, e0, bind, Outcome.bind]
        rw [altGo_eq_andFold .npm cs' [sp0] sps' hrest]
        exact er
      refine ⟨r, ?_, ?_⟩
      · simp only [astSet, rangeGo, halt, bind, Outcome.bind, List.nil_append, canonSpans_short [r] (Nat.le_refl 1),
          List.isEmpty_cons, Bool.false_eq_true, ↓reduceIte]
      rw [matchVersion_single sys4_npm .npm hrok hvg]
      congr 1
      have hrv : has .npm r v = (c0 :: cs').all (fun c => (desugarComparator c).all (·.test x)) := by
        rw [hvr v, ← hall, List.all_cons]
      by_cases hf : has .npm r v = false
      · rw [← hrv]
        simp [modeHas, hf]
      have hh : has .npm r v = true := by simpa using hf
      -- the candidate lies in every span
      have hA : (c0 :: cs').all (fun c => (desugarComparator c).all (·.test x)) = true := by rw [← hrv]; exact hh
      have hhas : ∀ sp ∈ sp0 :: sps', has .npm sp v = true := by
        have := hall.trans hA
        rw [List.all_eq_true] at this
        exact this
      have hsne : ∀ sp ∈ sp0 :: sps', sp.rank ≠ .empty := by
        intro sp hs he
        have := hhas sp hs
        rw [has_empty he] at this
        cases this
      -- structure of `r`
      obtain ⟨a0, b0, ha0, hb0, hp0⟩ := picks_self (hgood sp0 List.mem_cons_self).1.1 (hsne sp0 List.mem_cons_self)
      have hP := andFold_struct (s := System.npm) v sps' sp0 [a0] [b0] r hp0
        (fun y hy => (hgood y (List.mem_cons_of_mem _ hy)).1.1) er (hhas sp0 List.mem_cons_self)
        (fun y hy => hhas y (List.mem_cons_of_mem _ hy))
      have mem_min : ∀ y, y ∈ foldMins sps' [a0] ↔ ∃ sp ∈ sp0 :: sps', sp.min = some y := by
        intro y
        rw [mem_foldMins]
        constructor
        · rintro (h | ⟨b, hb, e⟩)
          · have : y = a0 := by simpa using h
            subst this
            exact ⟨sp0, List.mem_cons_self, ha0⟩
          · exact ⟨b, List.mem_cons_of_mem _ hb, e⟩
        · rintro ⟨sp, hs, e⟩
          rcases List.mem_cons.mp hs with rfl | hs
          · left
            rw [ha0] at e
            cases e
            simp
          · exact Or.inr ⟨sp, hs, e⟩
      have mem_max : ∀ y, y ∈ foldMaxs sps' [b0] ↔ ∃ sp ∈ sp0 :: sps', sp.max = some y := by
        intro y
        rw [mem_foldMaxs]
        constructor
        · rintro (h | ⟨b, hb, e⟩)
          · have : y = b0 := by simpa using h
            subst this
            exact ⟨sp0, List.mem_cons_self, hb0⟩
          · exact ⟨b, List.mem_cons_of_mem _ hb, e⟩
        · rintro ⟨sp, hs, e⟩
          rcases List.mem_cons.mp hs with rfl | hs
          · left
            rw [hb0] at e
            cases e
            simp
          · exact Or.inr ⟨sp, hs, e⟩
      obtain ⟨rm, rM, hrm, hrM, -, -, -, -, hrunit, -⟩ := hrok.bounds hP.ne
      -- `r.min` is the lower bound of one of the spans
      obtain ⟨spm, hspm, hspm_min⟩ := (mem_min rm).mp (hP.min_mem rm hrm)
      have g3rm : G3 .npm rm := bound_g3 (hgood spm hspm).1 (hgood spm hspm).2 rm (Or.inl hspm_min)
      have lo_rm : LoInv rm := (hgood spm hspm).2.1 rm hspm_min
      obtain ⟨hrm_le, hrM_ge⟩ := has_bounds hh hrm hrM
      -- a span with `modeHas` gives node's admission for its comparator
      have of_mode : ∀ sp ∈ sp0 :: sps', modeHas .npm sp v = true →
          (c0 :: cs').any (fun c => (desugarComparator c).any (admitsP x)) = true := by
        intro sp hs hmode
        obtain ⟨c, hcm, h⟩ := hs2c sp hs
        have := h.modeEq
        rw [hvdef, hmode] at this
        have hd : (desugarComparator c).any (admitsP x) = true := by
          cases hq : (desugarComparator c).any (admitsP x)
          · rw [hq, Bool.and_false] at this; cases this
          · rfl
        rw [List.any_eq_true]
        exact ⟨c, hcm, hd⟩
      have mode_of_admit : ∀ sp ∈ sp0 :: sps', ∀ y, (sp.min = some y ∨ sp.max = some y) → admit1 y v = true →
          modeHas .npm sp v = true := by
        intro sp hs y hy hadm
        unfold modeHas
        rw [hhas sp hs, hvflag, Bool.true_and, Bool.not_true, Bool.false_or]
        cases hr : sp.rank with
        | empty => exact absurd hr (hsne sp hs)
        | unit => rfl
        | vector =>
          obtain ⟨a, b, h1, h2, -⟩ := (hgood sp hs).1.1.bounds (hsne sp hs)
          rw [admitB_eq sp v a b h1 h2]
          rcases hy with h | h
          · rw [h1] at h; cases h; simp [hadm]
          · rw [h2] at h; cases h; simp [hadm]
      have mode_of_unit : ∀ sp ∈ sp0 :: sps', sp.rank ≠ .vector → modeHas .npm sp v = true := by
        intro sp hs hr
        unfold modeHas
        rw [hhas sp hs, Bool.true_and]
        cases hrk : sp.rank with
        | empty => exact absurd hrk (hsne sp hs)
        | unit => simp
        | vector => exact absurd hrk hr
      unfold modeHas
      rw [hh, hvflag, hA, Bool.true_and, Bool.not_true, Bool.false_or, Bool.true_and, Bool.eq_iff_iff]
      constructor
      · -- the library admits ⇒ node admits
        intro hlib
        by_cases hrv' : r.rank = .vector
        · have hadm : admitB r v = true := by simpa [hrv'] using hlib
          rw [admitB_eq r v rm rM hrm hrM, Bool.or_eq_true] at hadm
          rcases hadm with h | h
          · exact of_mode spm hspm (mode_of_admit spm hspm rm (Or.inl hspm_min) h)
          · obtain ⟨spx, hspx, hspx_max⟩ := (mem_max rM).mp (hP.max_mem hrv' rM hrM)
            exact of_mode spx hspx (mode_of_admit spx hspx rM (Or.inr hspx_max) h)
        · -- `r` is a point equal (in the order) to the candidate
          have hunit : r.rank = .unit := by
            cases hq : r.rank with
            | empty => exact absurd hq hP.ne
            | unit => rfl
            | vector => exact absurd hq hrv'
          have e := hrunit hunit
          subst e
          by_cases hsv : spm.rank = .vector
          · have c1 := (pt_le_cmp3 g3rm hv3g).mp hrm_le
            have c2 := (pt_le_cmp3 hv3g g3rm).mp hrM_ge
            have c0 : cmp3 rm v = 0 := by rw [cmp3_swap g3rm hv3g] at c2; omega
            obtain ⟨ht, hpe⟩ := cmp3_eq0 c0
            have hrp : rm.pre ≠ [] := by
              intro h
              rw [h] at hpe
              cases hq : v.pre with
              | nil => exact hvpre hq
              | cons _ _ => rw [hq] at hpe; cases hpe
            exact of_mode spm hspm (mode_of_admit spm hspm rm (Or.inl hspm_min)
              (admit1_of_lo lo_rm hrp ht hvlen hv0))
          · exact of_mode spm hspm (mode_of_unit spm hspm hsv)
      · -- node admits ⇒ the library admits
        intro hnode
        rw [List.any_eq_true] at hnode
        obtain ⟨c, hcm, hd⟩ := hnode
        obtain ⟨sp, hs, hcl⟩ := hc2s c hcm
        have hmode : modeHas .npm sp v = true := by
          have := hcl.modeEq
          rw [hvdef] at this
          rw [this, hd, Bool.and_true, ← hcl.hasEq, hvdef]
          exact hhas sp hs
        by_cases hrv'' : ¬ r.rank = .vector
        · simp [hrv'']
        have hrv' : r.rank = .vector := by simpa using hrv''
        have hrne : (r.rank != Rank.vector) = false := by simp [hrv']
        rw [hrne, Bool.false_or, admitB_eq r v rm rM hrm hrM, Bool.or_eq_true]
        obtain ⟨a, b, h1, h2, -, -, -, -, hsunit, -⟩ := (hgood sp hs).1.1.bounds (hsne sp hs)
        have g3a : G3 .npm a := bound_g3 (hgood sp hs).1 (hgood sp hs).2 a (Or.inl h1)
        have g3b : G3 .npm b := bound_g3 (hgood sp hs).1 (hgood sp hs).2 b (Or.inr h2)
        have ha_le : pt System.npm a ≤ pt System.npm rm := hP.min_ge rm hrm a ((mem_min a).mpr ⟨sp, hs, h1⟩)
        have hb_ge : pt System.npm rM ≤ pt System.npm b := hP.max_le rM hrM b ((mem_max b).mpr ⟨sp, hs, h2⟩)
        -- through the lower bound `a` of `sp`, given that it has the candidate's triple
        have via_lo : t3 a = t3 v → admit1 rm v = true := by
          intro ht
          have c1 := (pt_le_cmp3 g3a g3rm).mp ha_le
          have c2 := (pt_le_cmp3 g3rm hv3g).mp hrm_le
          obtain ⟨ht', hp'⟩ := sandwich_lo c1 c2 ht hvpre
          exact admit1_of_lo lo_rm hp' ht' hvlen hv0
        -- through the upper bound `b` of `sp`, given that it has the candidate's triple and a tag
        have via_hi : t3 b = t3 v → b.pre ≠ [] → admit1 rM v = true := by
          intro ht hbp
          obtain ⟨spx, hspx, hspx_max⟩ := (mem_max rM).mp (hP.max_mem hrv' rM hrM)
          have g3rM : G3 .npm rM := bound_g3 (hgood spx hspx).1 (hgood spx hspx).2 rM (Or.inr hspx_max)
          have c1 := (pt_le_cmp3 hv3g g3rM).mp hrM_ge
          have c2 := (pt_le_cmp3 g3rM g3b).mp hb_ge
          obtain ⟨ht', hp'⟩ := sandwich_hi c1 c2 ht hbp
          cases hq : spx.rank with
          | empty => exact absurd hq (hsne spx hspx)
          | vector => exact admit1_of_hi ((hgood spx hspx).2.2.1 rM hspx_max hq) hp' ht' hvlen
          | unit =>
            obtain ⟨a', b', k1, k2, -, -, -, -, ku, -⟩ := (hgood spx hspx).1.1.bounds (hsne spx hspx)
            have e1 : a' = b' := ku hq
            have e2 : rM = b' := by rw [k2] at hspx_max; exact (Option.some.inj hspx_max).symm
            exact admit1_of_lo ((hgood spx hspx).2.1 rM (by rw [e2, ← e1]; exact k1)) hp' ht' hvlen hv0
        cases hsr : sp.rank with
        | empty => exact absurd hsr (hsne sp hs)
        | unit =>
          -- `sp` is a point equal (in the order) to the candidate
          have := hsunit hsr
          subst this
          obtain ⟨l1, l2⟩ := has_bounds (hhas sp hs) h1 h2
          have c1 := (pt_le_cmp3 g3a hv3g).mp l1
          have c2 := (pt_le_cmp3 hv3g g3a).mp l2
          have c0 : cmp3 a v = 0 := by rw [cmp3_swap g3a hv3g] at c2; omega
          exact Or.inl (via_lo (cmp3_eq0 c0).1)
        | vector =>
          have hadm : admitB sp v = true := by
            unfold modeHas at hmode
            rw [hhas sp hs, hvflag] at hmode
            simpa [hsr] using hmode
          rw [admitB_eq sp v a b h1 h2, Bool.or_eq_true] at hadm
          rcases hadm with h | h
          · exact Or.inl (via_lo (t3_of_num_eq ((admit1_iff a v).mp h).2))
          · obtain ⟨hbf, hbn⟩ := (admit1_iff b v).mp h
            rcases (hgood sp hs).2.2.2 a b h1 h2 hsr hbf with hq | hq | ⟨hq1, hq2⟩
            · exact Or.inr (via_hi (t3_of_num_eq hbn) hq)
            · exact absurd (hbn ▸ hq) hvinf
            · exact Or.inl (via_lo (t3_of_num_eq (hbn.trans hq2.symm)))

end DepsDev.Proofs.C03
