import DepsDev.Proofs.C02MvnElems

/-!
# C02 — Maven, part 5: `new ComparableVersion(v).items` in closed form
-/
namespace DepsDev.Proofs.C02Mvn
open Std DepsDev DepsDev.Semver DepsDev.Ref DepsDev.Proofs DepsDev.Proofs.C02
open DepsDev.Ref.MavenCV (Item Sep Tok Ast wAlpha wBeta wMilestone wRc wCr wSnapshot wSp wGa wFinal wRelease)

/-- The value of `new StringItem(q, followedByDigit)`. -/
def qstr (q : Bytes) (fd : Bool) : Bytes :=
  let w := aliasW q fd
  if w == wGa || w == wFinal || w == wRelease then [] else if w == wCr then wRc else w

theorem stringItem_eq (q : Bytes) (fd : Bool) : MavenCV.stringItem q fd = .str (qstr q fd) := by
  cases fd <;> rfl

theorem qstr_alias (q : Bytes) (fd : Bool) : qstr (aliasW q fd) false = qstr q fd := rfl

theorem isNull_qstr {q : Bytes} (h : wordOK q = true) (fd : Bool) :
    Item.isNull (.str (qstr q fd)) = Maven.releaseQual q := by
  have hw := wordOK_alias h fd
  rw [← releaseQual_alias q fd, ← qstr_alias]
  generalize aliasW q fd = w at hw
  by_cases hr : Maven.releaseQual w = true
  · have : qstr w false = [] := by
      have hr' : (w == wGa || w == wFinal || w == wRelease) = true := hr
      simp [qstr, aliasW_false, hr']
    rw [this, hr]; decide
  · have hr' : Maven.releaseQual w = false := by simpa using hr
    have hne : w ≠ [] := by obtain ⟨c, t, e, _⟩ := wordOK_cons hw; rw [e]; simp
    have hnr : mavenOrder w ≠ -2 := by
      have := isEmpty_word hw
      rw [hr'] at this
      simp only [isEmptyMavenElem, Bool.or_eq_false_iff, beq_eq_false_iff_ne] at this
      exact this.2
    obtain ⟨s, hs, hc⟩ := qual_repr w hne hnr
    rw [stringItem_eq] at hs
    injection hs with hs
    rw [hs, hr']
    simp only [Item.isNull, show MavenCV.releaseIndex = [digit 5] from rfl]
    rcases hc with ⟨i, hi, _, ci⟩ | ⟨_, ci⟩
    · rw [ci, strCmp_digit (by omega) (by omega)]
      rcases hi with hi | ⟨hi, _⟩
      · rw [Nat.compare_eq_lt.mpr (by omega)]; rfl
      · subst hi; rfl
    · rw [ci]
      have c5 : compare (55 : UInt8) (digit 5) = .gt := by decide
      simp [MavenCV.strCmp, List.compareLex_cons_cons, c5]

theorem isNull_snapshot : Item.isNull (.str wSnapshot) = false := by decide

/-! ## parsing and normalising the numbers -/

theorem parse_dots (ns : List Nat) : ∀ (n : Nat) (tl : List (Sep × Tok)),
    MavenCV.parseFrom (.num n) (ns.map (fun m => (Sep.dot, Tok.num m)) ++ tl) =
      .int n :: ns.map Item.int ++
        (match tl with
         | [] => []
         | (.dot, t) :: r => MavenCV.parseFrom t r
         | (_, t) :: r => [.list (MavenCV.parseFrom t r)]) := by
  induction ns with
  | nil =>
    intro n tl
    match tl with
    | [] => simp [MavenCV.parseFrom]
    | (.dot, t) :: r => simp [MavenCV.parseFrom]
    | (.dash, t) :: r => simp [MavenCV.parseFrom]
    | (.trans, t) :: r => simp [MavenCV.parseFrom]
  | cons m ns ih =>
    intro n tl
    simp only [List.map_cons, List.cons_append, MavenCV.parseFrom]
    rw [ih m tl]
    simp

theorem normList_append (a b : List Item) : MavenCV.normList (a ++ b) = MavenCV.normList a ++ MavenCV.normList b := by
  induction a with
  | nil => simp [MavenCV.normList]
  | cons x xs ih => simp [MavenCV.normList, ih]

theorem normList_ints (ns : List Nat) : MavenCV.normList (ns.map Item.int) = ns.map Item.int := by
  induction ns with
  | nil => simp [MavenCV.normList]
  | cons x xs ih => simp [MavenCV.normList, MavenCV.normItem, ih]

theorem trimRev_ints (rs : List Nat) : MavenCV.trimRev (rs.map Item.int) = (rs.dropWhile (· == 0)).map Item.int := by
  induction rs with
  | nil => simp [MavenCV.trimRev]
  | cons r rs ih =>
    by_cases h : r = 0 <;> simp [MavenCV.trimRev, Item.isNull, h, ih]


/-! ## the item list of the library's elements -/

theorem atom_numE (sep : UInt8) (n : Nat) : atom (numE sep n) = .int n := by
  rw [atom_num (isNumE_numE sep n)]; simp [numE]

theorem atom_word (sep : UInt8) {q : Bytes} (h : wordOK q = true) (fd : Bool) :
    atom ⟨sep, aliasW q fd, 0⟩ = .str (qstr q fd) := by
  have := not_num_of_qual (isQualE_word sep (wordOK_alias h fd))
  simp only [atom, this, Bool.false_eq_true, ↓reduceIte]
  rw [stringItem_eq, qstr_alias]

theorem atom_snapshot : atom ⟨45, wSnapshot, 0⟩ = .str wSnapshot := by
  have : isNumE ⟨45, wSnapshot, 0⟩ = false := by decide
  simp only [atom, this, Bool.false_eq_true, ↓reduceIte]
  rfl

theorem treeOf_nums (l : List Nat) (rest : List MavenElem) :
    treeOf (l.map (numE 46) ++ rest) = l.map Item.int ++ treeOf rest := by
  induction l with
  | nil => simp
  | cons x xs ih =>
    have h46 : ((numE 46 x).sep == 45) = false := by simp [numE]
    simp only [List.map_cons, List.cons_append, treeOf_cons, h46, Bool.false_eq_true, ↓reduceIte, atom_numE, ih]

theorem dashy_nums (l : List Nat) (rest : List MavenElem) :
    dashy (l.map (numE 46) ++ rest) = (l.isEmpty && dashy rest) := by
  cases l with
  | nil => simp
  | cons x xs => simp [dashy, numE]

theorem dropZ_cons (n : Nat) (ns : List Nat) :
    ((n :: ns).reverse.dropWhile (· == 0)).reverse = if (ns.reverse.dropWhile (· == 0)).isEmpty ∧ n = 0 then []
      else n :: (ns.reverse.dropWhile (· == 0)).reverse := by
  rw [List.reverse_cons, List.dropWhile_append]
  by_cases h : (ns.reverse.dropWhile (· == 0)).isEmpty = true
  · simp only [h, ↓reduceIte, true_and]
    have : ns.reverse.dropWhile (· == 0) = [] := by simpa using h
    by_cases h0 : n = 0 <;> simp [h0, this]
  · simp [h]

/-- The item list of a version whose elements are `numE 0 n0 :: tailElems ns a`: when the
first number is zero and nothing or a `-` list follows, `normalize` removes it. -/
def refItems (n0 : Nat) (ns : List Nat) (a : Ast) : List Item :=
  if n0 = 0 ∧ dashy (tailElems ns a) = true then treeOf (tailElems ns a) else .int n0 :: treeOf (tailElems ns a)

theorem refItems_eq (n0 : Nat) (ns : List Nat) (a : Ast) :
    refItems n0 ns a = if dashy (effTail a) then (dropZ (n0 :: ns)).map Item.int ++ treeOf (effTail a)
      else .int n0 :: ns.map Item.int ++ treeOf (effTail a) := by
  unfold refItems tailElems
  by_cases hd : dashy (effTail a) = true
  · simp only [hd, ↓reduceIte, treeOf_nums, dashy_nums, Bool.and_true, dropZ, dropZ_cons]
    by_cases h : (ns.reverse.dropWhile (· == 0)).isEmpty = true ∧ n0 = 0
    · have e : ns.reverse.dropWhile (· == 0) = [] := by simpa using h.1
      simp [h.2, e]
    · have h' : ¬ (n0 = 0 ∧ (ns.reverse.dropWhile (· == 0)).reverse.isEmpty = true) := by
        intro hh; apply h; exact ⟨by simpa using hh.2, hh.1⟩
      simp only [h, h', ↓reduceIte, List.map_cons, List.cons_append]
  · simp [hd, treeOf_nums, dashy_nums]

theorem trimRev_R (n0 : Nat) (ns : List Nat) :
    MavenCV.trimRev ((ns.map Item.int).reverse ++ [Item.int n0]) = ((dropZ (n0 :: ns)).map Item.int).reverse := by
  have : (ns.map Item.int).reverse ++ [Item.int n0] = (n0 :: ns).reverse.map Item.int := by simp
  rw [this, trimRev_ints, dropZ, List.map_reverse, List.reverse_reverse]

theorem isNull_int (n : Nat) : Item.isNull (.int n) = (n == 0) := rfl
theorem isNull_list (l : List Item) : Item.isNull (.list l) = l.isEmpty := rfl
theorem qstr_snapshot : qstr wSnapshot false = wSnapshot := by decide

theorem treeOf_nil : treeOf [] = [] := rfl
theorem numE_sep (s : UInt8) (n : Nat) : (numE s n).sep = s := rfl
theorem sep_beq1 : (Sep.dot == Sep.trans) = false := by decide
theorem sep_beq2 : (Sep.dash == Sep.trans) = false := by decide

theorem items_eq (a : Ast) (n0 : Nat) (ns : List Nat) (hn : a.nums = n0 :: ns) (hv : a.valid = true)
    (hf : Maven.finalSnapshot a = false) (hz : Maven.zeroSnapshot a = false) :
    MavenCV.items a = .list (refItems n0 ns a) := by
  obtain ⟨nums, qual, qnum, snap⟩ := a
  simp only at hn
  subst hn
  simp only [MavenCV.items, MavenCV.tokens]
  rw [parse_dots, refItems_eq]
  simp only [MavenCV.normItem, List.cons_append, MavenCV.normList, normList_append, normList_ints]
  rcases qual with _ | ⟨s, q⟩
  · have : qnum = none := by
      cases qnum with
      | none => rfl
      | some x => simp [Ast.valid] at hv
    subst this
    cases snap <;>
    simp [effTail, dashy, MavenCV.normList, MavenCV.normItem, MavenCV.parseFrom, MavenCV.trimRev, isNull_list,
      trimRev_R, stringItem_eq, treeOf_cons, treeOf_nil, snapshotElem_eq, atom_snapshot, isNull_snapshot, qstr_snapshot]
  · obtain ⟨hw, hq⟩ := valid_word (a := ⟨n0 :: ns, some (s, q), qnum, snap⟩) rfl hv
    have hn1 := isNull_qstr hw true
    have hn2 := isNull_qstr hw false
    by_cases hr : Maven.releaseQual q = true
    · have : qnum = none := by
        rcases hq with h | h
        · cases qnum with
          | none => rfl
          | some x => simp at h
        · rw [hr] at h; cases h
      subst this
      cases s <;> cases snap <;>
      simp [effTail, dashy, MavenCV.normList, MavenCV.normItem, MavenCV.parseFrom, MavenCV.trimRev, isNull_list,
        trimRev_R, stringItem_eq, treeOf_cons, treeOf_nil, snapshotElem_eq, atom_snapshot, isNull_snapshot, qstr_snapshot,
        hr, hn2] <;>
      simp [Maven.finalSnapshot, Maven.dashLike, hr] at hf
    · have hr' : Maven.releaseQual q = false := by simpa using hr
      rw [hr'] at hn1 hn2
      rcases qnum with _ | ⟨s', n⟩
      · cases s <;> cases snap <;>
        simp [effTail, dashy, MavenCV.normList, MavenCV.normItem, MavenCV.parseFrom, MavenCV.trimRev, isNull_list,
          trimRev_R, stringItem_eq, treeOf_cons, treeOf_nil, snapshotElem_eq, atom_snapshot, isNull_snapshot, qstr_snapshot,
          hr', hn2, atom_word _ hw, followedByDigit, sepByte]
      · by_cases h0 : n = 0
        · subst h0
          cases s <;> cases s' <;> cases snap <;>
          simp [effTail, dashy, MavenCV.normList, MavenCV.normItem, MavenCV.parseFrom, MavenCV.trimRev, isNull_int, isNull_list,
            trimRev_R, stringItem_eq, treeOf_cons, treeOf_nil, snapshotElem_eq, atom_snapshot, isNull_snapshot, qstr_snapshot,
            hr', hn1, hn2, atom_word _ hw, followedByDigit, sepByte, sep_beq1, sep_beq2] <;>
          simp [Maven.zeroSnapshot, Maven.dashLike] at hz
        · cases s <;> cases s' <;> cases snap <;>
          simp [effTail, dashy, MavenCV.normList, MavenCV.normItem, MavenCV.parseFrom, MavenCV.trimRev, isNull_int, isNull_list,
            trimRev_R, stringItem_eq, treeOf_cons, treeOf_nil, snapshotElem_eq, atom_snapshot, isNull_snapshot, qstr_snapshot,
            hr', hn1, hn2, atom_word _ hw, followedByDigit, sepByte, atom_numE, h0, sep_beq1, sep_beq2, numE_sep]

end DepsDev.Proofs.C02Mvn
