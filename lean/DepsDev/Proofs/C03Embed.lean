import DepsDev.Proofs.C03Interval
import DepsDev.Proofs.C01Generic
import DepsDev.Ref.CargoReq

/-!
# C03: embedding of the Ref ASTs into model versions, operand shapes, proof automation

`embedPartial`/`embedVer` give the `Version` that `System.Parse` produces for the
rendering of an AST operand / candidate (checked on samples in `Props/C03.lean` and
by the correspondence harness on every generated operand). `TShape` enumerates the
operand shapes of layer L1. The macros evaluate `opVersionToSpan` on an operand of
known shape, apply `interval`, and close the arithmetic goal with `omega`.
-/
namespace DepsDev.Proofs.C03

open DepsDev DepsDev.Semver DepsDev.Ref

def embedNums : List XR → List Value
  | [] => []
  | .x :: r => wildcard :: embedNums r
  | .n k :: r => (k : Int) :: embedNums r

def embedIdent : Ident → Bytes
  | .num n => natToBytes n
  | .alnum s => s.toUTF8.toList

def embedPre (l : List Ident) : List Bytes := l.map embedIdent

/-- The parsed form of an operand (extension-free systems). -/
def embedPartial (sys : System) (p : Partial) : Version :=
  { sys := sys, userNumCount := p.nums.length, isPrerelease := !p.pre.isEmpty,
    num := embedNums p.nums, pre := embedPre p.pre }

/-- The parsed form of a candidate version. -/
def embedVer (sys : System) (v : SemVerAst) : Version :=
  { sys := sys, userNumCount := 3, isPrerelease := !v.pre.isEmpty,
    num := [v.major, v.minor, v.patch], pre := embedPre v.pre }

/-- The library's `infinity`: numbers of the domain are below it. -/
notation "B∞" => (9223372036854775807 : Nat)

/-- Bound on operand numbers: the successor is still below `infinity`. -/
notation "B∞'" => (9223372036854775806 : Nat)

/-- Operand shapes of layer L1: 1 to 3 components, wildcards only at the end, numbers (and
their successors) below `infinity`. -/
inductive TShape : List XR → Prop
  | x1 : TShape [.x]
  | xx : TShape [.x, .x]
  | xxx : TShape [.x, .x, .x]
  | n1 (a : Nat) (ha : a < B∞') : TShape [.n a]
  | nx (a : Nat) (ha : a < B∞') : TShape [.n a, .x]
  | nxx (a : Nat) (ha : a < B∞') : TShape [.n a, .x, .x]
  | n2 (a b : Nat) (ha : a < B∞') (hb : b < B∞') : TShape [.n a, .n b]
  | nnx (a b : Nat) (ha : a < B∞') (hb : b < B∞') : TShape [.n a, .n b, .x]
  | n3 (a b c : Nat) (ha : a < B∞') (hb : b < B∞') (hc : c < B∞') : TShape [.n a, .n b, .n c]

/-- The token type `constraintParser.value` passes to `opVersionToSpan` for an operator. -/
def tokOf : Op → Nat
  | .none => tokEmpty | .eq => tokEqual | .gt => tokGreater | .ge => tokGreaterEqual
  | .lt => tokLess | .le => tokLessEqual | .caret => tokCaret | .tilde => tokTilde

/-! ## small facts used by the automation -/

theorem natCast_beq_wild (a : Nat) : ((a : Int) == -1) = false := by simp
theorem natCast_ne_wild (a : Nat) : ((a : Int) = -1) ↔ False := by simp
theorem natCast_succ_beq_wild (a : Nat) : ((a : Int) + 1 == -1) = false := by simp; omega
theorem natCast_succ_ne_wild (a : Nat) : ((a : Int) + 1 = -1) ↔ False := by simp; omega
theorem natCast_beq_inf (a : Nat) (h : a < B∞') : ((a : Int) == 9223372036854775807) = false := by
  simp; omega
theorem natCast_succ_ne_inf (a : Nat) (h : a < B∞') : ((a : Int) + 1 = 9223372036854775807) ↔ False := by
  simp; omega
theorem value_inc_nat (a : Nat) (h : a < B∞') : Value.inc (a : Int) = (a : Int) + 1 := by
  have h' : ¬ ((a : Int) + 1 > 9223372036854775807) := by omega
  simp [Value.inc, inf_val, h']
theorem value_inc_zero : Value.inc 0 = 1 := by decide
theorem ok_bind {α β} (a : α) (f : α → Outcome β) : (Outcome.ok a >>= f) = f a := rfl
theorem ok_bind' {α β} (a : α) (f : α → Outcome β) : (Outcome.ok a).bind f = f a := rfl
theorem range3 : List.range 3 = [0, 1, 2] := rfl

theorem then_lt (a b : Ordering) : (a.then b = .lt) ↔ a = .lt ∨ (a = .eq ∧ b = .lt) := by
  cases a <;> simp [Ordering.then]
theorem then_eq (a b : Ordering) : (a.then b = .eq) ↔ a = .eq ∧ b = .eq := by
  cases a <;> simp [Ordering.then]
theorem then_gt (a b : Ordering) : (a.then b = .gt) ↔ a = .gt ∨ (a = .eq ∧ b = .gt) := by
  cases a <;> simp [Ordering.then]
theorem ne_gt (a : Ordering) : (a ≠ .gt) ↔ a = .lt ∨ a = .eq := by cases a <;> simp
theorem ne_lt (a : Ordering) : (a ≠ .lt) ↔ a = .gt ∨ a = .eq := by cases a <;> simp
theorem cmpPre_nil_left (l : List Ident) : cmpPre [] l = if l.isEmpty then .eq else .gt := by
  cases l <;> simp [cmpPre]

theorem thenInt_ge {s r : Int} : 0 ≤ thenInt s r ↔ 0 < s ∨ (s = 0 ∧ 0 ≤ r) := by
  unfold thenInt; split <;> simp_all <;> omega
theorem lex3_ge {p q : Int × Int × Int} :
    0 ≤ lex3 p q ↔ q.1 < p.1 ∨ (p.1 = q.1 ∧ (q.2.1 < p.2.1 ∨ (p.2.1 = q.2.1 ∧ q.2.2 ≤ p.2.2))) := by
  simp only [lex3, thenInt_ge, sgnInt_gt, sgnInt_eq0]
  have : 0 ≤ sgnInt p.2.2 q.2.2 ↔ q.2.2 ≤ p.2.2 := by unfold sgnInt; split <;> (try split) <;> omega
  rw [this]

theorem ite_err_ok {α} {c : Prop} [Decidable c] {x y : α} (h : ¬ c) (h2 : x = y) :
    (if c then Outcome.err else Outcome.ok x) = Outcome.ok y := by simp [h, h2]

theorem g3_mk (sys : System) (v : Version) (h1 : v.sys = sys) (h2 : v.ext = .none) (h3 : v.num.length ≤ 3) :
    G3 sys v := ⟨h1, h2, h3⟩

/-- `comparePrerelease` of a list with itself (from C01's lawfulness). -/
theorem comparePre_self (sys : System) (p : List Bytes) : comparePre sys p p = 0 := by
  rw [DepsDev.Proofs.comparePre_eq]
  have : List.compareLex (DepsDev.Proofs.elemOrd sys) p p = .eq := Std.ReflCmp.compare_self
  rw [this]; rfl

theorem pre_ne_nil_of {pre : List Ident} {nums : List XR} (hpre : pre ≠ [] → nums.length = 3 ∧ XR.x ∉ nums)
    (h : ¬ (nums.length = 3 ∧ XR.x ∉ nums)) : pre = [] := by
  cases pre with
  | nil => rfl
  | cons a l => exact absurd (hpre (by simp)) h

/-- Step 1: evaluate `opVersionToSpan` on an embedded operand of known shape. -/
macro "l1_eval" : tactic => `(tactic|
  simp [opVersionToSpan, embedPartial, embedVer, embedNums, embedPre, tokOf, Version.isWildcard, Version.allNumbers,
    Version.allEq, wild_val, inf_val,
    tokCaret, tokEmpty, tokEqual, tokGreater, tokGreaterEqual, tokLess, tokLessEqual, tokTilde, tokBacon,
    Version.major, Version.minor, Version.getNum, Version.clearPre, Version.setMajor, Version.setMinor,
    Version.setPatch, Version.setNum, Version.setTail, Version.atLeast3, range3, List.findIdx?_cons, minVersion,
    setInfAll, Version.inc, Version.incN, ok_bind, ok_bind', value_inc_zero, natCast_beq_wild, natCast_ne_wild,
    natCast_succ_beq_wild, natCast_succ_ne_wild, *])

end DepsDev.Proofs.C03
